import ParryModel.Field
import ParryModel.C05.Model
import ParryModel.C05.Lemmas
import ParryModel.C05.Tri2
set_option linter.style.haveILetI false
set_option linter.unusedSimpArgs false
/-!
# C05 property theorems: point projection, for every linearly ordered field

All statements are about the model functions of `C05/Model.lean` at the lawful instance `fieldNum K sq`.
Specifications are the `Mem` predicates of `Shapes.lean`; `dsq p q = |p - q|²`.
For each shape: the returned point is a member (a boundary point when asked), no member is closer
(`∀ q, Mem q → |p - proj|² ≤ |p - q|²`), and `is_inside` is exact membership.
-/
namespace C05
open Model

variable {K : Type} [Field K] [LinearOrder K] [IsStrictOrderedRing K] (sq : K → K)

/-- `relative_eq!` as a predicate: equal, or absolutely / relatively within `ε = 2⁻⁵²` -/
def RelClose (a b : K) : Prop :=
  a = b ∨ |a - b| ≤ ((mkRat 1 4503599627370496 : ℚ) : K) ∨ |a - b| ≤ max |a| |b| * ((mkRat 1 4503599627370496 : ℚ) : K)

theorem relEq_iff (a b : K) :
    letI := fieldNum K sq
    relEq a b = true ↔ RelClose a b := by
  simp only [relEq, neq, eps, fieldNum_lit, fieldNum_nabs, RelClose]
  have hmax : (if |a| < |b| then |b| else |a|) = max |a| |b| := by
    split_ifs with h
    · exact (max_eq_right h.le).symm
    · exact (max_eq_left (not_lt.mp h)).symm
  rw [hmax]
  by_cases h1 : a = b
  · subst h1; simp
  · have : ¬ (a ≤ b ∧ b ≤ a) := fun ⟨x, y⟩ => h1 (le_antisymm x y)
    by_cases h2 : |a - b| ≤ ((mkRat 1 4503599627370496 : ℚ) : K)
    · simp [h2]
    · simp [h1, h2, this]

theorem fieldNum_sqrt (x : K) : @Num.sqrt K (fieldNum K sq) x = sq x := rfl

/-! ## Segment -/

/-- **membership**: the projection is a point `a + t (b - a)`, `t ∈ [0,1]` of the segment. -/
theorem seg3_project_mem (s : Segment3 K) (p : V3 K) :
    letI := fieldNum K sq
    s.Mem (s.projectLoc p).1.pt := by
  letI := fieldNum K sq
  simp only [Segment3.projectLoc, Segment3.Mem]
  split_ifs with h1 h2
  · exact ⟨0, le_refl _, zero_le_one, v3_ext (by simp [V3.add, V3.smul]) (by simp [V3.add, V3.smul]) (by simp [V3.add, V3.smul])⟩
  · exact ⟨1, zero_le_one, le_refl _, v3_ext (by simp [V3.add, V3.smul, V3.sub]) (by simp [V3.add, V3.smul, V3.sub]) (by simp [V3.add, V3.smul, V3.sub])⟩
  · push Not at h1 h2
    have hpos : 0 < (s.b.sub s.a).normSq := lt_trans h1 h2
    exact ⟨_, div_nonneg h1.le hpos.le, (div_le_one hpos).mpr h2.le, rfl⟩

/-- **variational inequality**: `⟨p - proj, q - proj⟩ ≤ 0` for every point `q` of the segment. -/
theorem seg3_project_variational (s : Segment3 K) (p q : V3 K) :
    letI := fieldNum K sq
    s.Mem q → ((p.sub (s.projectLoc p).1.pt).dot (q.sub (s.projectLoc p).1.pt)) ≤ 0 := by
  letI := fieldNum K sq
  intro hq
  obtain ⟨t, ht0, ht1, rfl⟩ := hq
  simp only [Segment3.projectLoc]
  split_ifs with h1 h2
  · simp only [V3.dot, V3.sub, V3.add, V3.smul, V3.normSq] at *
    nlinarith [mul_nonneg ht0 (neg_nonneg.mpr h1)]
  · simp only [V3.dot, V3.sub, V3.add, V3.smul, V3.normSq] at *
    nlinarith [mul_nonneg (sub_nonneg.mpr ht1) (sub_nonneg.mpr h2)]
  · push Not at h1 h2
    have hpos : 0 < (s.b.sub s.a).normSq := lt_trans h1 h2
    have hu := div_mul_cancel₀ ((s.b.sub s.a).dot (p.sub s.a)) (ne_of_gt hpos)
    generalize (s.b.sub s.a).dot (p.sub s.a) / (s.b.sub s.a).normSq = u at hu
    simp only [V3.dot, V3.sub, V3.add, V3.smul, V3.normSq] at *
    apply le_of_eq
    linear_combination (u - t) * hu

/-- **optimality**: no point of the segment is closer to `p` than the projection. -/
theorem seg3_project_optimal (s : Segment3 K) (p q : V3 K) :
    letI := fieldNum K sq
    s.Mem q → dsq3 p (s.projectLoc p).1.pt ≤ dsq3 p q := by
  letI := fieldNum K sq
  intro hq
  have h := seg3_project_variational sq s p q hq
  simp only [V3.dot, V3.sub] at h
  exact opt_of_var3 _ _ _ _ _ _ _ _ _ h

example : (⟨⟨0, 0, 0⟩, ⟨4, 0, 0⟩⟩ : Segment3 ℚ).Mem ⟨1, 0, 0⟩ :=
  ⟨1/4, by norm_num, by norm_num, by simp [V3.add, V3.sub, V3.smul]⟩

/-- **location**: the reported `SegmentPointLocation` reproduces the projection — `OnVertex(i)` is vertex `i`,
`OnEdge([b0,b1])` has non-negative barycentric coordinates summing to one with `proj = b0·a + b1·b`. -/
theorem seg3_location_sound (s : Segment3 K) (p : V3 K) :
    letI := fieldNum K sq
    match (s.projectLoc p).2 with
    | .vertex i => (i = 0 ∧ (s.projectLoc p).1.pt = s.a) ∨ (i = 1 ∧ (s.projectLoc p).1.pt = s.b)
    | .edge b0 b1 => 0 ≤ b0 ∧ 0 ≤ b1 ∧ b0 + b1 = 1 ∧ (s.projectLoc p).1.pt = (s.a.smul b0).add (s.b.smul b1) := by
  letI := fieldNum K sq
  simp only [Segment3.projectLoc]
  split_ifs with h1 h2
  · simp
  · simp
  · push Not at h1 h2
    have hpos : 0 < (s.b.sub s.a).normSq := lt_trans h1 h2
    have hu0 : 0 ≤ (s.b.sub s.a).dot (p.sub s.a) / (s.b.sub s.a).normSq := div_nonneg h1.le hpos.le
    have hu1 : (s.b.sub s.a).dot (p.sub s.a) / (s.b.sub s.a).normSq ≤ 1 := (div_le_one hpos).mpr h2.le
    refine ⟨by linarith, hu0, by ring, ?_⟩
    generalize (s.b.sub s.a).dot (p.sub s.a) / (s.b.sub s.a).normSq = u
    apply v3_ext <;> simp only [V3.add, V3.smul, V3.sub] <;> ring

/-- **inside flag, exact part**: a point of the segment is its own projection and is reported inside. -/
theorem seg3_inside_of_mem (s : Segment3 K) (p : V3 K) :
    letI := fieldNum K sq
    s.Mem p → (s.projectLoc p).1.pt = p ∧ (s.projectLoc p).1.inside = true := by
  letI := fieldNum K sq
  intro hp
  have h := seg3_project_optimal sq s p p hp
  have hpt : (@Segment3.projectLoc K (fieldNum K sq) s p).1.pt = p := by
    simp only [dsq3] at h
    have h0 : (p.x - p.x) * (p.x - p.x) + (p.y - p.y) * (p.y - p.y) + (p.z - p.z) * (p.z - p.z) = (0 : K) := by ring
    rw [h0] at h
    obtain ⟨hx, hy, hz⟩ := sumsq3_eq_zero h
    exact (v3_ext (by linarith) (by linarith) (by linarith)).symm
  refine ⟨hpt, ?_⟩
  have hin : (@Segment3.projectLoc K (fieldNum K sq) s p).1.inside
      = @V3.relEq K (fieldNum K sq) (@Segment3.projectLoc K (fieldNum K sq) s p).1.pt p := by
    simp only [Segment3.projectLoc]
    split_ifs <;> rfl
  rw [hin, hpt]
  simp [V3.relEq, relEq, neq]

/-- **inside flag, tolerance part**: `is_inside` is `relative_eq!(proj, pt)` — true exactly when every coordinate of
the projection is within `ε` (absolute or relative) of the query point. -/
theorem seg3_inside_iff_close (s : Segment3 K) (p : V3 K) :
    letI := fieldNum K sq
    (s.projectLoc p).1.inside = true ↔
      (RelClose (s.projectLoc p).1.pt.x p.x ∧ RelClose (s.projectLoc p).1.pt.y p.y ∧ RelClose (s.projectLoc p).1.pt.z p.z) := by
  letI := fieldNum K sq
  have hin : (@Segment3.projectLoc K (fieldNum K sq) s p).1.inside
      = @V3.relEq K (fieldNum K sq) (@Segment3.projectLoc K (fieldNum K sq) s p).1.pt p := by
    simp only [Segment3.projectLoc]
    split_ifs <;> rfl
  rw [hin]
  simp only [V3.relEq, Bool.and_eq_true, relEq_iff, and_assoc]

/-! ## Ball (model = corrected behaviour at the centre, see fixes/C05-ball-center-nan.diff) -/

/-- **inside flag**: `is_inside ⇔ |p|² ≤ r²`, for both `solid` flags and also at the centre. -/
theorem ball3_inside_iff (s : Ball K) (p : V3 K) (solid : Bool) :
    letI := fieldNum K sq
    (s.project3 p solid).inside = true ↔ s.Mem3 p := by
  letI := fieldNum K sq
  simp only [Ball.project3, Ball.Mem3]
  split_ifs <;> simp_all

/-- `contains_local_point ⇔ Mem` -/
theorem ball3_contains_iff (s : Ball K) (p : V3 K) :
    letI := fieldNum K sq
    s.contains3 p = true ↔ s.Mem3 p := by
  simp [Ball.contains3, Ball.Mem3]

/-- key computation: off the `solid ∧ inside` branch the projection is on the sphere and `|p - proj|² = (|p| - r)²`. -/
private theorem ball3_core (hs : LawfulSqrt sq) (s : Ball K) (p : V3 K) (solid : Bool) :
    letI := fieldNum K sq
    (solid = false ∨ ¬ s.Mem3 p) →
      (s.project3 p solid).pt.normSq = s.r * s.r ∧
      dsq3 p (s.project3 p solid).pt = (sq p.normSq - s.r) * (sq p.normSq - s.r) := by
  letI := fieldNum K sq
  intro h
  have hnn : 0 ≤ p.normSq := by
    simp only [V3.normSq, V3.dot]; nlinarith [mul_self_nonneg p.x, mul_self_nonneg p.y, mul_self_nonneg p.z]
  have hd2 := hs.sq_mul _ hnn
  have hd0 := hs.nonneg _ hnn
  simp only [Ball.project3, Ball.Mem3] at *
  split_ifs with c1 c2
  · simp at c1; rcases h with h | h
    · simp [h] at c1
    · exact absurd c1.1 h
  · simp only [neq, Bool.and_eq_true, decide_eq_true_eq] at c2
    have hz : p.normSq = 0 := le_antisymm c2.1 c2.2
    have hd : sq p.normSq = 0 := by
      have : sq p.normSq * sq p.normSq = 0 := by rw [hd2, hz]
      exact mul_self_eq_zero.mp this
    simp only [V3.normSq, V3.dot] at hz
    obtain ⟨hx, hy, hz'⟩ := sumsq3_eq_zero (le_of_eq hz)
    refine ⟨by simp [V3.normSq, V3.dot], ?_⟩
    rw [hd]; simp only [dsq3, hx, hy, hz']; ring
  · have hne : p.normSq ≠ 0 := by
      intro h0; apply c2; simp [neq, h0]
    have hdne : sq p.normSq ≠ 0 := by
      intro h0; rw [h0] at hd2; exact hne (by linarith)
    have hk := div_mul_cancel₀ s.r hdne
    generalize s.r / sq p.normSq = k at hk
    generalize sq p.normSq = d at *
    simp only [V3.normSq, V3.dot, V3.smul, dsq3] at *
    refine ⟨?_, ?_⟩
    · linear_combination (k * k) * (-hd2) + (k * d + s.r) * hk
    · linear_combination ((1 - k) * (1 - k)) * (-hd2) - (2 * d - k * d - s.r) * hk

/-- **boundary**: when `solid = false` or the point is outside, the projection lies on the sphere `|x|² = r²`. -/
theorem ball3_project_on_sphere (hs : LawfulSqrt sq) (s : Ball K) (p : V3 K) (solid : Bool) :
    letI := fieldNum K sq
    (solid = false ∨ ¬ s.Mem3 p) → (s.project3 p solid).pt.normSq = s.r * s.r :=
  fun h => (ball3_core sq hs s p solid h).1

/-- **membership**: the projection is a point of the ball. -/
theorem ball3_project_mem (hs : LawfulSqrt sq) (s : Ball K) (p : V3 K) (solid : Bool) :
    letI := fieldNum K sq
    s.Mem3 (s.project3 p solid).pt := by
  letI := fieldNum K sq
  by_cases h : solid = false ∨ ¬ s.Mem3 p
  · exact le_of_eq (ball3_project_on_sphere sq hs s p solid h)
  · push Not at h
    have h1 : solid = true := by simpa using h.1
    have h2 := h.2
    simp only [Ball.project3, Ball.Mem3] at *
    simp [h1, h2]

/-- **optimality w.r.t. the sphere** (both flags, inside or outside): no point of the sphere is closer than the projection. -/
theorem ball3_project_optimal_boundary (hs : LawfulSqrt sq) (s : Ball K) (p q : V3 K) (solid : Bool) :
    letI := fieldNum K sq
    0 ≤ s.r → q.normSq = s.r * s.r → dsq3 p (s.project3 p solid).pt ≤ dsq3 p q := by
  letI := fieldNum K sq
  intro hr hq
  by_cases h : solid = false ∨ ¬ s.Mem3 p
  · rw [(ball3_core sq hs s p solid h).2]
    have hnn : 0 ≤ p.normSq := by
      simp only [V3.normSq, V3.dot]; nlinarith [mul_self_nonneg p.x, mul_self_nonneg p.y, mul_self_nonneg p.z]
    have hd2 := hs.sq_mul _ hnn
    have hd0 := hs.nonneg _ hnn
    have hdot := dot_le3 p.x p.y p.z q.x q.y q.z (sq p.normSq) s.r (by simpa [V3.normSq, V3.dot] using le_of_eq hd2.symm)
      (by simpa [V3.normSq, V3.dot] using le_of_eq hq) hd0 hr
    generalize sq p.normSq = d at *
    simp only [V3.normSq, V3.dot, dsq3] at *
    nlinarith
  · push Not at h
    have h1 : solid = true := by simpa using h.1
    have h2 := h.2
    have : (@Ball.project3 K (fieldNum K sq) s p solid).pt = p := by
      simp only [Ball.project3, Ball.Mem3] at *
      simp [h1, h2]
    rw [this]
    simp only [dsq3]
    nlinarith [mul_self_nonneg (p.x - q.x), mul_self_nonneg (p.y - q.y), mul_self_nonneg (p.z - q.z)]

/-- **optimality w.r.t. the solid ball**: for `solid = true`, or for an outside point, no point of the ball is closer. -/
theorem ball3_project_optimal (hs : LawfulSqrt sq) (s : Ball K) (p q : V3 K) (solid : Bool) :
    letI := fieldNum K sq
    0 ≤ s.r → s.Mem3 q → (solid = true ∨ ¬ s.Mem3 p) → dsq3 p (s.project3 p solid).pt ≤ dsq3 p q := by
  letI := fieldNum K sq
  intro hr hq hc
  by_cases h2 : s.Mem3 p
  · have h1 : solid = true := by rcases hc with h | h; exact h; exact absurd h2 h
    have : (@Ball.project3 K (fieldNum K sq) s p solid).pt = p := by
      simp only [Ball.project3, Ball.Mem3] at *
      simp [h1, h2]
    rw [this]
    simp only [dsq3]
    nlinarith [mul_self_nonneg (p.x - q.x), mul_self_nonneg (p.y - q.y), mul_self_nonneg (p.z - q.z)]
  · rw [(ball3_core sq hs s p solid (Or.inr h2)).2]
    have hnn : 0 ≤ p.normSq := by
      simp only [V3.normSq, V3.dot]; nlinarith [mul_self_nonneg p.x, mul_self_nonneg p.y, mul_self_nonneg p.z]
    have hd2 := hs.sq_mul _ hnn
    have hd0 := hs.nonneg _ hnn
    have hdot := dot_le3 p.x p.y p.z q.x q.y q.z (sq p.normSq) s.r (by simpa [V3.normSq, V3.dot] using le_of_eq hd2.symm)
      (by simpa [Ball.Mem3, V3.normSq, V3.dot] using hq) hd0 hr
    have hrd : s.r ≤ sq p.normSq := by
      apply le_of_mul_self_le hd0
      rw [hd2]; simp only [Ball.Mem3] at h2; exact le_of_lt (not_le.mp h2)
    have hqn : 0 ≤ q.normSq := by
      simp only [V3.normSq, V3.dot]; nlinarith [mul_self_nonneg q.x, mul_self_nonneg q.y, mul_self_nonneg q.z]
    have he2 := hs.sq_mul _ hqn
    have he0 := hs.nonneg _ hqn
    have her : sq q.normSq ≤ s.r := by
      apply le_of_mul_self_le hr
      rw [he2]; exact hq
    have hdot' := dot_le3 p.x p.y p.z q.x q.y q.z (sq p.normSq) (sq q.normSq)
      (by simpa [V3.normSq, V3.dot] using le_of_eq hd2.symm) (by simpa [V3.normSq, V3.dot] using le_of_eq he2.symm) hd0 he0
    generalize sq p.normSq = d at *
    generalize sq q.normSq = e at *
    simp only [Ball.Mem3, V3.normSq, V3.dot, dsq3] at *
    nlinarith [mul_nonneg (sub_nonneg.2 her) (by linarith : 0 ≤ 2 * d - e - s.r)]

example : (⟨2⟩ : Ball ℚ).Mem3 ⟨1, 1, 1⟩ ∧ ¬ (⟨2⟩ : Ball ℚ).Mem3 ⟨2, 1, 0⟩ := by
  simp only [Ball.Mem3, V3.normSq, V3.dot]; norm_num

/-- **distance**: `distance_to_local_point` has the magnitude `|p - proj|` and is negative exactly for interior
points with `solid = false`; it is `0` for inside points when `solid = true`. -/
theorem ball3_distance_spec (hs : LawfulSqrt sq) (s : Ball K) (p : V3 K) (solid : Bool) :
    letI := fieldNum K sq
    0 ≤ s.r →
      s.distance3 p solid * s.distance3 p solid = dsq3 p (s.project3 p solid).pt ∧
      (s.distance3 p solid < 0 ↔ (solid = false ∧ p.normSq < s.r * s.r)) := by
  letI := fieldNum K sq
  intro hr
  have hnn : 0 ≤ p.normSq := by
    simp only [V3.normSq, V3.dot]; nlinarith [mul_self_nonneg p.x, mul_self_nonneg p.y, mul_self_nonneg p.z]
  have hd2 := hs.sq_mul _ hnn
  have hd0 := hs.nonneg _ hnn
  have hlt : sq p.normSq - s.r < 0 ↔ p.normSq < s.r * s.r := by
    constructor
    · intro h; rw [← hd2]; nlinarith
    · intro h; rw [← hd2] at h; by_contra hc; push Not at hc; nlinarith
  by_cases h : solid = false ∨ ¬ s.Mem3 p
  · have e := (ball3_core sq hs s p solid h).2
    rw [e]
    simp only [Ball.distance3, V3.norm, fieldNum_sqrt]
    rcases h with h | h
    · subst h; simpa using hlt
    · have h3 : ¬ (sq p.normSq - s.r < 0) := by
        rw [hlt]; simp only [Ball.Mem3] at h; push Not at h ⊢; exact h.le
      have h4 : ¬ (p.normSq < s.r * s.r) := by rwa [← hlt]
      simp [h3, h4]
  · push Not at h
    have h1 : solid = true := by simpa using h.1
    have h2 := h.2
    have hp : (@Ball.project3 K (fieldNum K sq) s p solid).pt = p := by
      simp only [Ball.project3, Ball.Mem3] at *
      simp [h1, h2]
    rw [hp]
    subst h1
    simp only [Ball.distance3, V3.norm, Ball.Mem3, fieldNum_sqrt] at *
    by_cases h3 : sq p.normSq - s.r < 0
    · simp [h3, dsq3]
    · have h5 : sq p.normSq - s.r = 0 := by
        have h6 : ¬ (p.normSq < s.r * s.r) := by rwa [← hlt]
        have h7 : p.normSq = s.r * s.r := le_antisymm h2 (not_lt.mp h6)
        have h4 : sq p.normSq * sq p.normSq = s.r * s.r := by rw [hd2, h7]
        have := le_of_mul_self_le hr (le_of_eq h4)
        push Not at h3; linarith
      simp [h5, dsq3]

/-! ## HalfSpace `{x | n·x ≤ 0}` with a unit normal -/

/-- **inside flag** -/
theorem hs3_inside_iff (s : HalfSpace3 K) (p : V3 K) (solid : Bool) :
    letI := fieldNum K sq
    (s.project p solid).inside = true ↔ s.Mem p := by
  letI := fieldNum K sq
  simp only [HalfSpace3.project, HalfSpace3.Mem]
  split_ifs <;> simp_all

theorem hs3_contains_iff (s : HalfSpace3 K) (p : V3 K) :
    letI := fieldNum K sq
    s.contains p = true ↔ s.Mem p := by
  simp [HalfSpace3.contains, HalfSpace3.Mem]

/-- **boundary**: when `solid = false` or the point is outside, the projection is on the plane `n·x = 0`. -/
theorem hs3_project_on_plane (s : HalfSpace3 K) (p : V3 K) (solid : Bool) :
    letI := fieldNum K sq
    s.n.normSq = 1 → (solid = false ∨ ¬ s.Mem p) → s.n.dot (s.project p solid).pt = 0 := by
  letI := fieldNum K sq
  intro hn h
  simp only [HalfSpace3.project, HalfSpace3.Mem] at *
  split_ifs with c
  · simp at c; rcases h with h | h
    · simp [h] at c
    · exact absurd c.1 h
  · simp only [V3.dot, V3.add, V3.smul, V3.neg, V3.normSq] at *
    linear_combination (-(s.n.x * p.x + s.n.y * p.y + s.n.z * p.z)) * hn

/-- **membership** -/
theorem hs3_project_mem (s : HalfSpace3 K) (p : V3 K) (solid : Bool) :
    letI := fieldNum K sq
    s.n.normSq = 1 → s.Mem (s.project p solid).pt := by
  letI := fieldNum K sq
  intro hn
  by_cases h : solid = false ∨ ¬ s.Mem p
  · exact le_of_eq (hs3_project_on_plane sq s p solid hn h)
  · push Not at h
    have h1 : solid = true := by simpa using h.1
    have h2 := h.2
    simp only [HalfSpace3.project, HalfSpace3.Mem] at *
    simp [h1, h2]

/-- **optimality w.r.t. the boundary plane** (both flags) -/
theorem hs3_project_optimal_boundary (s : HalfSpace3 K) (p q : V3 K) (solid : Bool) :
    letI := fieldNum K sq
    s.n.normSq = 1 → s.n.dot q = 0 → dsq3 p (s.project p solid).pt ≤ dsq3 p q := by
  letI := fieldNum K sq
  intro hn hq
  simp only [HalfSpace3.project]
  split_ifs with c
  · simp only [dsq3]
    nlinarith [mul_self_nonneg (p.x - q.x), mul_self_nonneg (p.y - q.y), mul_self_nonneg (p.z - q.z)]
  · apply opt_of_var3
    simp only [V3.dot, V3.add, V3.smul, V3.neg, V3.normSq] at *
    apply le_of_eq
    linear_combination ((s.n.x * p.x + s.n.y * p.y + s.n.z * p.z)^2) * hn
      + (s.n.x * p.x + s.n.y * p.y + s.n.z * p.z) * hq

/-- **optimality w.r.t. the half-space**: for `solid = true`, or for an outside point, no member is closer. -/
theorem hs3_project_optimal (s : HalfSpace3 K) (p q : V3 K) (solid : Bool) :
    letI := fieldNum K sq
    s.n.normSq = 1 → s.Mem q → (solid = true ∨ ¬ s.Mem p) → dsq3 p (s.project p solid).pt ≤ dsq3 p q := by
  letI := fieldNum K sq
  intro hn hq hc
  simp only [HalfSpace3.project, HalfSpace3.Mem] at *
  split_ifs with c
  · simp only [dsq3]
    nlinarith [mul_self_nonneg (p.x - q.x), mul_self_nonneg (p.y - q.y), mul_self_nonneg (p.z - q.z)]
  · have hd : 0 < s.n.dot p := by
      rcases hc with h | h
      · simp [h] at c; exact c
      · exact not_le.mp h
    apply opt_of_var3
    simp only [V3.dot, V3.add, V3.smul, V3.neg, V3.normSq] at *
    have e : (p.x - (p.x + -s.n.x * (s.n.x * p.x + s.n.y * p.y + s.n.z * p.z))) * (q.x - (p.x + -s.n.x * (s.n.x * p.x + s.n.y * p.y + s.n.z * p.z)))
        + (p.y - (p.y + -s.n.y * (s.n.x * p.x + s.n.y * p.y + s.n.z * p.z))) * (q.y - (p.y + -s.n.y * (s.n.x * p.x + s.n.y * p.y + s.n.z * p.z)))
        + (p.z - (p.z + -s.n.z * (s.n.x * p.x + s.n.y * p.y + s.n.z * p.z))) * (q.z - (p.z + -s.n.z * (s.n.x * p.x + s.n.y * p.y + s.n.z * p.z)))
        = (s.n.x * p.x + s.n.y * p.y + s.n.z * p.z) * (s.n.x * q.x + s.n.y * q.y + s.n.z * q.z) := by
      linear_combination ((s.n.x * p.x + s.n.y * p.y + s.n.z * p.z)^2) * hn
    rw [e]
    exact mul_nonpos_of_nonneg_of_nonpos hd.le hq

example : (⟨⟨3/5, 4/5, 0⟩⟩ : HalfSpace3 ℚ).n.normSq = 1 ∧ (⟨⟨3/5, 4/5, 0⟩⟩ : HalfSpace3 ℚ).Mem ⟨-1, 0, 7⟩
    ∧ ¬ (⟨⟨3/5, 4/5, 0⟩⟩ : HalfSpace3 ℚ).Mem ⟨1, 1, 0⟩ := by
  simp only [HalfSpace3.Mem, V3.normSq, V3.dot]; norm_num

/-- **distance**: magnitude `|p - proj|`, negative exactly for strictly interior points with `solid = false`. -/
theorem hs3_distance_spec (s : HalfSpace3 K) (p : V3 K) (solid : Bool) :
    letI := fieldNum K sq
    s.n.normSq = 1 →
      s.distance p solid * s.distance p solid = dsq3 p (s.project p solid).pt ∧
      (s.distance p solid < 0 ↔ (solid = false ∧ s.n.dot p < 0)) := by
  letI := fieldNum K sq
  intro hn
  simp only [HalfSpace3.distance, HalfSpace3.project]
  have key : ∀ d : K, d = s.n.dot p → dsq3 p (p.add (s.n.neg.smul d)) = d * d := by
    intro d hd
    simp only [V3.dot, V3.add, V3.smul, V3.neg, V3.normSq, dsq3] at *
    linear_combination (d * d) * hn
  cases solid
  · simp [key _ rfl]
  · by_cases h : s.n.dot p < 0
    · have h' : s.n.dot p ≤ 0 := h.le
      simp [h, h', dsq3]
    · by_cases h2 : s.n.dot p ≤ 0
      · have h3 : s.n.dot p = 0 := le_antisymm h2 (not_lt.mp h)
        simp [h, h2, dsq3, h3]
      · simp [h, h2, key _ rfl]

/-! ## Aabb / Cuboid -/

/-- the box `[lo, hi]` as a set, its boundary, and well-formedness -/
def BoxMem3 (lo hi x : V3 K) : Prop := (lo.x ≤ x.x ∧ x.x ≤ hi.x) ∧ (lo.y ≤ x.y ∧ x.y ≤ hi.y) ∧ (lo.z ≤ x.z ∧ x.z ≤ hi.z)
def BoxBnd3 (lo hi x : V3 K) : Prop :=
  BoxMem3 lo hi x ∧ (x.x = lo.x ∨ x.x = hi.x ∨ x.y = lo.y ∨ x.y = hi.y ∨ x.z = lo.z ∨ x.z = hi.z)
def BoxOk3 (lo hi : V3 K) : Prop := lo.x ≤ hi.x ∧ lo.y ≤ hi.y ∧ lo.z ≤ hi.z

private theorem aabb3_shift_zero (lo hi p : V3 K) (hok : BoxOk3 lo hi) :
    letI := fieldNum K sq
    (((lo.sub p).sup V3.zero).sub ((p.sub hi).sup V3.zero)).isZero = true ↔ BoxMem3 lo hi p := by
  letI := fieldNum K sq
  simp only [V3.isZero, V3.sub, V3.sup, V3.zero, fieldNum_nmax, Bool.and_eq_true, neq_zero_iff, BoxMem3]
  rw [(clamp_shift lo.x hi.x p.x hok.1).1, (clamp_shift lo.y hi.y p.y hok.2.1).1, (clamp_shift lo.z hi.z p.z hok.2.2).1]
  tauto

/-- the three branches of `Aabb::do_project_local_point`, selected by exact membership -/
private theorem aabb3_branch_out (lo hi p : V3 K) (solid : Bool) (hok : BoxOk3 lo hi) (hm : ¬ BoxMem3 lo hi p) :
    letI := fieldNum K sq
    aabbProject3 lo hi p solid = ⟨false, p.add (((lo.sub p).sup V3.zero).sub ((p.sub hi).sup V3.zero))⟩ := by
  letI := fieldNum K sq
  have hz := aabb3_shift_zero sq lo hi p hok
  have hZ : (((lo.sub p).sup V3.zero).sub ((p.sub hi).sup V3.zero)).isZero = false := by
    rw [← Bool.not_eq_true]; exact fun h => hm (hz.mp h)
  simp only [aabbProject3, aabbDoProject3, hZ, Bool.not_false, if_true]
private theorem aabb3_branch_solid (lo hi p : V3 K) (hok : BoxOk3 lo hi) (hm : BoxMem3 lo hi p) :
    letI := fieldNum K sq
    aabbProject3 lo hi p true = ⟨true, p⟩ := by
  letI := fieldNum K sq
  have hZ := (aabb3_shift_zero sq lo hi p hok).mpr hm
  simp [aabbProject3, aabbDoProject3, hZ]
private theorem aabb3_branch_hollow (lo hi p : V3 K) (hok : BoxOk3 lo hi) (hm : BoxMem3 lo hi p) :
    letI := fieldNum K sq
    (aabbProject3 lo hi p false).inside = true := by
  letI := fieldNum K sq
  have hZ := (aabb3_shift_zero sq lo hi p hok).mpr hm
  simp [aabbProject3, aabbDoProject3, hZ]

/-- **inside flag** (`Aabb::project_local_point`) -/
theorem aabb3_inside_iff (lo hi p : V3 K) (solid : Bool) (hok : BoxOk3 lo hi) :
    letI := fieldNum K sq
    (aabbProject3 lo hi p solid).inside = true ↔ BoxMem3 lo hi p := by
  letI := fieldNum K sq
  by_cases hm : BoxMem3 lo hi p
  · cases solid
    · simp [aabb3_branch_hollow sq lo hi p hok hm, hm]
    · simp [aabb3_branch_solid sq lo hi p hok hm, hm]
  · simp [aabb3_branch_out sq lo hi p solid hok hm, hm]

/-- for an outside point, or with `solid = true`: membership, boundary, and the variational inequality -/
private theorem aabb3_solid_core (lo hi p : V3 K) (solid : Bool) (hok : BoxOk3 lo hi)
    (hc : solid = true ∨ ¬ BoxMem3 lo hi p) :
    letI := fieldNum K sq
    BoxMem3 lo hi (aabbProject3 lo hi p solid).pt ∧
    (¬ BoxMem3 lo hi p → BoxBnd3 lo hi (aabbProject3 lo hi p solid).pt) ∧
    ∀ q, BoxMem3 lo hi q → ((p.sub (aabbProject3 lo hi p solid).pt).dot (q.sub (aabbProject3 lo hi p solid).pt)) ≤ 0 := by
  letI := fieldNum K sq
  obtain ⟨x1, x2, x3, x4⟩ := clamp_shift lo.x hi.x p.x hok.1
  obtain ⟨y1, y2, y3, y4⟩ := clamp_shift lo.y hi.y p.y hok.2.1
  obtain ⟨z1, z2, z3, z4⟩ := clamp_shift lo.z hi.z p.z hok.2.2
  by_cases hm : BoxMem3 lo hi p
  · have hs : solid = true := by rcases hc with h | h; exact h; exact absurd hm h
    subst hs
    rw [aabb3_branch_solid sq lo hi p hok hm]
    refine ⟨hm, fun h => absurd hm h, ?_⟩
    intro q _
    simp [V3.dot, V3.sub]
  · rw [aabb3_branch_out sq lo hi p solid hok hm]
    simp only [V3.sub, V3.sup, V3.zero, V3.add, fieldNum_nmax, V3.dot, BoxMem3, BoxBnd3]
    refine ⟨⟨⟨x2, x3⟩, ⟨y2, y3⟩, ⟨z2, z3⟩⟩, fun _ => ⟨⟨⟨x2, x3⟩, ⟨y2, y3⟩, ⟨z2, z3⟩⟩, ?_⟩, ?_⟩
    · -- some coordinate is outside its interval, and is clamped onto an end
      simp only [BoxMem3] at hm
      by_contra hcon
      push Not at hcon
      apply hm
      have hx : lo.x ≤ p.x ∧ p.x ≤ hi.x := by
        rcases lt_or_ge p.x lo.x with h | h
        · exfalso; apply hcon.1; rw [max_eq_left (by linarith), max_eq_right (by linarith)]; ring
        · rcases lt_or_ge hi.x p.x with h' | h'
          · exfalso; apply hcon.2.1; rw [max_eq_right (by linarith), max_eq_left (by linarith)]; ring
          · exact ⟨h, h'⟩
      have hy : lo.y ≤ p.y ∧ p.y ≤ hi.y := by
        rcases lt_or_ge p.y lo.y with h | h
        · exfalso; apply hcon.2.2.1; rw [max_eq_left (by linarith), max_eq_right (by linarith)]; ring
        · rcases lt_or_ge hi.y p.y with h' | h'
          · exfalso; apply hcon.2.2.2.1; rw [max_eq_right (by linarith), max_eq_left (by linarith)]; ring
          · exact ⟨h, h'⟩
      have hz' : lo.z ≤ p.z ∧ p.z ≤ hi.z := by
        rcases lt_or_ge p.z lo.z with h | h
        · exfalso; apply hcon.2.2.2.2.1; rw [max_eq_left (by linarith), max_eq_right (by linarith)]; ring
        · rcases lt_or_ge hi.z p.z with h' | h'
          · exfalso; apply hcon.2.2.2.2.2; rw [max_eq_right (by linarith), max_eq_left (by linarith)]; ring
          · exact ⟨h, h'⟩
      exact ⟨hx, hy, hz'⟩
    · intro q ⟨⟨qx1, qx2⟩, ⟨qy1, qy2⟩, ⟨qz1, qz2⟩⟩
      have := x4 q.x qx1 qx2; have := y4 q.y qy1 qy2; have := z4 q.z qz1 qz2
      linarith

private theorem aabbStep_eq (mp pm : K) (i : Nat) (st : BestSt K) :
    letI := fieldNum K sq
    aabbStep mp pm i st =
      (if (match st.1 with | none => true | some b => decide (b < max mp pm)) = true
        then (some (max mp pm), decide (pm ≤ mp), i) else st) := by
  letI := fieldNum K sq
  unfold aabbStep
  by_cases h : mp < pm
  · simp only [h, if_true, max_eq_right h.le, not_le.2 h, decide_false]; rfl
  · simp only [h, if_false, max_eq_left (not_lt.1 h), not_lt.1 h, decide_true]; rfl

/-- the non-solid interior branch moves `p` onto one face, and that face is at least as near as each of the six -/
private theorem aabb3_hollow_select (lo hi p : V3 K) (hok : BoxOk3 lo hi) (hm : BoxMem3 lo hi p) :
    letI := fieldNum K sq
    ∃ δ : K, (δ ≤ p.x - lo.x ∧ δ ≤ hi.x - p.x ∧ δ ≤ p.y - lo.y ∧ δ ≤ hi.y - p.y ∧ δ ≤ p.z - lo.z ∧ δ ≤ hi.z - p.z) ∧
      (((aabbProject3 lo hi p false).pt = ⟨lo.x, p.y, p.z⟩ ∧ δ = p.x - lo.x) ∨
       ((aabbProject3 lo hi p false).pt = ⟨hi.x, p.y, p.z⟩ ∧ δ = hi.x - p.x) ∨
       ((aabbProject3 lo hi p false).pt = ⟨p.x, lo.y, p.z⟩ ∧ δ = p.y - lo.y) ∨
       ((aabbProject3 lo hi p false).pt = ⟨p.x, hi.y, p.z⟩ ∧ δ = hi.y - p.y) ∨
       ((aabbProject3 lo hi p false).pt = ⟨p.x, p.y, lo.z⟩ ∧ δ = p.z - lo.z) ∨
       ((aabbProject3 lo hi p false).pt = ⟨p.x, p.y, hi.z⟩ ∧ δ = hi.z - p.z)) := by
  letI := fieldNum K sq
  have hZ := (aabb3_shift_zero sq lo hi p hok).mpr hm
  obtain ⟨⟨mx1, mx2⟩, ⟨my1, my2⟩, ⟨mz1, mz2⟩⟩ := hm
  simp only [aabbProject3, aabbDoProject3, hZ, Bool.not_true, Bool.false_eq_true, if_false, aabbStep_eq]
  simp only [V3.sub, decide_true, if_true]
  have lx1 := le_max_left (lo.x - p.x) (p.x - hi.x); have lx2 := le_max_right (lo.x - p.x) (p.x - hi.x)
  have ly1 := le_max_left (lo.y - p.y) (p.y - hi.y); have ly2 := le_max_right (lo.y - p.y) (p.y - hi.y)
  have lz1 := le_max_left (lo.z - p.z) (p.z - hi.z); have lz2 := le_max_right (lo.z - p.z) (p.z - hi.z)
  by_cases h1 : max (lo.x - p.x) (p.x - hi.x) < max (lo.y - p.y) (p.y - hi.y)
  · simp only [h1, decide_true, if_true]
    by_cases h2 : max (lo.y - p.y) (p.y - hi.y) < max (lo.z - p.z) (p.z - hi.z)
    · simp only [h2, decide_true, if_true, Option.getD_some]
      by_cases f : p.z - hi.z ≤ lo.z - p.z
      · have e := max_eq_left f
        simp only [f, decide_true, if_true]
        refine ⟨p.z - lo.z, ⟨?_, ?_, ?_, ?_, ?_, ?_⟩, (fun h => Or.inr (Or.inr (Or.inr (Or.inr (Or.inl h))))) ⟨v3_ext ?_ ?_ ?_, rfl⟩⟩ <;>
          first | linarith | (simp [V3.add, V3.set, V3.zero, e])
      · simp only [f, decide_false, Bool.false_eq_true, if_false]
        push Not at f
        have e := max_eq_right f.le
        refine ⟨hi.z - p.z, ⟨?_, ?_, ?_, ?_, ?_, ?_⟩, (fun h => Or.inr (Or.inr (Or.inr (Or.inr (Or.inr h))))) ⟨v3_ext ?_ ?_ ?_, rfl⟩⟩ <;>
          first | linarith | (simp [V3.add, V3.set, V3.zero, e])
    · simp only [h2, decide_false, Bool.false_eq_true, if_false, Option.getD_some]
      push Not at h2
      by_cases f : p.y - hi.y ≤ lo.y - p.y
      · have e := max_eq_left f
        simp only [f, decide_true, if_true]
        refine ⟨p.y - lo.y, ⟨?_, ?_, ?_, ?_, ?_, ?_⟩, (fun h => Or.inr (Or.inr (Or.inl h))) ⟨v3_ext ?_ ?_ ?_, rfl⟩⟩ <;>
          first | linarith | (simp [V3.add, V3.set, V3.zero, e])
      · simp only [f, decide_false, Bool.false_eq_true, if_false]
        push Not at f
        have e := max_eq_right f.le
        refine ⟨hi.y - p.y, ⟨?_, ?_, ?_, ?_, ?_, ?_⟩, (fun h => Or.inr (Or.inr (Or.inr (Or.inl h)))) ⟨v3_ext ?_ ?_ ?_, rfl⟩⟩ <;>
          first | linarith | (simp [V3.add, V3.set, V3.zero, e])
  · simp only [h1, decide_false, Bool.false_eq_true, if_false]
    push Not at h1
    by_cases h2 : max (lo.x - p.x) (p.x - hi.x) < max (lo.z - p.z) (p.z - hi.z)
    · simp only [h2, decide_true, if_true, Option.getD_some]
      by_cases f : p.z - hi.z ≤ lo.z - p.z
      · have e := max_eq_left f
        simp only [f, decide_true, if_true]
        refine ⟨p.z - lo.z, ⟨?_, ?_, ?_, ?_, ?_, ?_⟩, (fun h => Or.inr (Or.inr (Or.inr (Or.inr (Or.inl h))))) ⟨v3_ext ?_ ?_ ?_, rfl⟩⟩ <;>
          first | linarith | (simp [V3.add, V3.set, V3.zero, e])
      · simp only [f, decide_false, Bool.false_eq_true, if_false]
        push Not at f
        have e := max_eq_right f.le
        refine ⟨hi.z - p.z, ⟨?_, ?_, ?_, ?_, ?_, ?_⟩, (fun h => Or.inr (Or.inr (Or.inr (Or.inr (Or.inr h))))) ⟨v3_ext ?_ ?_ ?_, rfl⟩⟩ <;>
          first | linarith | (simp [V3.add, V3.set, V3.zero, e])
    · simp only [h2, decide_false, Bool.false_eq_true, if_false, Option.getD_some]
      push Not at h2
      by_cases f : p.x - hi.x ≤ lo.x - p.x
      · have e := max_eq_left f
        simp only [f, decide_true, if_true]
        refine ⟨p.x - lo.x, ⟨?_, ?_, ?_, ?_, ?_, ?_⟩, Or.inl ⟨v3_ext ?_ ?_ ?_, rfl⟩⟩ <;>
          first | linarith | (simp [V3.add, V3.set, V3.zero, e])
      · simp only [f, decide_false, Bool.false_eq_true, if_false]
        push Not at f
        have e := max_eq_right f.le
        refine ⟨hi.x - p.x, ⟨?_, ?_, ?_, ?_, ?_, ?_⟩, (fun h => Or.inr (Or.inl h)) ⟨v3_ext ?_ ?_ ?_, rfl⟩⟩ <;>
          first | linarith | (simp [V3.add, V3.set, V3.zero, e])

/-- **membership** (`Aabb::project_local_point`, both flags) -/
theorem aabb3_project_mem (lo hi p : V3 K) (solid : Bool) (hok : BoxOk3 lo hi) :
    letI := fieldNum K sq
    BoxMem3 lo hi (aabbProject3 lo hi p solid).pt := by
  letI := fieldNum K sq
  by_cases hc : solid = true ∨ ¬ BoxMem3 lo hi p
  · exact (aabb3_solid_core sq lo hi p solid hok hc).1
  · push Not at hc
    have hs : solid = false := by simpa using hc.1
    subst hs
    obtain ⟨⟨mx1, mx2⟩, ⟨my1, my2⟩, ⟨mz1, mz2⟩⟩ := hc.2
    obtain ⟨δ, _, h | h | h | h | h | h⟩ := aabb3_hollow_select sq lo hi p hok hc.2 <;>
      (rw [h.1]; simp only [BoxMem3]; refine ⟨⟨?_, ?_⟩, ⟨?_, ?_⟩, ⟨?_, ?_⟩⟩ <;> first | assumption | exact le_refl _ | exact hok.1 | exact hok.2.1 | exact hok.2.2)

/-- **boundary**: with `solid = false`, or for an outside point, the projection is on a face of the box. -/
theorem aabb3_project_on_boundary (lo hi p : V3 K) (solid : Bool) (hok : BoxOk3 lo hi) :
    letI := fieldNum K sq
    (solid = false ∨ ¬ BoxMem3 lo hi p) → BoxBnd3 lo hi (aabbProject3 lo hi p solid).pt := by
  letI := fieldNum K sq
  intro h
  by_cases hm : BoxMem3 lo hi p
  · have hs : solid = false := by rcases h with h | h; exact h; exact absurd hm h
    subst hs
    refine ⟨aabb3_project_mem sq lo hi p false hok, ?_⟩
    obtain ⟨δ, _, h | h | h | h | h | h⟩ := aabb3_hollow_select sq lo hi p hok hm <;> rw [h.1] <;> simp
  · exact (aabb3_solid_core sq lo hi p solid hok (Or.inr hm)).2.1 hm

/-- **optimality w.r.t. the solid box**: for `solid = true`, or for an outside point, no point of the box is closer. -/
theorem aabb3_project_optimal (lo hi p q : V3 K) (solid : Bool) (hok : BoxOk3 lo hi) :
    letI := fieldNum K sq
    BoxMem3 lo hi q → (solid = true ∨ ¬ BoxMem3 lo hi p) → dsq3 p (aabbProject3 lo hi p solid).pt ≤ dsq3 p q := by
  letI := fieldNum K sq
  intro hq hc
  have h := (aabb3_solid_core sq lo hi p solid hok hc).2.2 q hq
  simp only [V3.dot, V3.sub] at h
  exact opt_of_var3 _ _ _ _ _ _ _ _ _ h

/-- **optimality w.r.t. the boundary** (both flags; this is the clause for `solid = false` and an interior point):
no point of the six faces is closer than the projection. -/
theorem aabb3_project_optimal_boundary (lo hi p q : V3 K) (solid : Bool) (hok : BoxOk3 lo hi) :
    letI := fieldNum K sq
    BoxBnd3 lo hi q → dsq3 p (aabbProject3 lo hi p solid).pt ≤ dsq3 p q := by
  letI := fieldNum K sq
  intro hq
  by_cases hc : solid = true ∨ ¬ BoxMem3 lo hi p
  · exact aabb3_project_optimal sq lo hi p q solid hok hq.1 hc
  · push Not at hc
    have hs : solid = false := by simpa using hc.1
    subst hs
    obtain ⟨⟨mx1, mx2⟩, ⟨my1, my2⟩, ⟨mz1, mz2⟩⟩ := hc.2
    obtain ⟨δ, ⟨d1, d2, d3, d4, d5, d6⟩, hsel⟩ := aabb3_hollow_select sq lo hi p hok hc.2
    have hδ : 0 ≤ δ := by rcases hsel with h | h | h | h | h | h <;> rw [h.2] <;> linarith
    have hd : dsq3 p (@aabbProject3 K (fieldNum K sq) lo hi p false).pt = δ * δ := by
      rcases hsel with h | h | h | h | h | h <;> rw [h.1, h.2] <;> simp only [dsq3] <;> ring
    rw [hd]
    obtain ⟨⟨⟨qx1, qx2⟩, ⟨qy1, qy2⟩, ⟨qz1, qz2⟩⟩, hf⟩ := hq
    simp only [dsq3]
    have sx := mul_self_nonneg (p.x - q.x); have sy := mul_self_nonneg (p.y - q.y); have sz := mul_self_nonneg (p.z - q.z)
    rcases hf with e | e | e | e | e | e
    · have : δ * δ ≤ (p.x - q.x) * (p.x - q.x) := by rw [e]; exact mul_self_le_mul_self hδ d1
      linarith
    · have : δ * δ ≤ (p.x - q.x) * (p.x - q.x) := by
        rw [e]; have := mul_self_le_mul_self hδ d2; nlinarith
      linarith
    · have : δ * δ ≤ (p.y - q.y) * (p.y - q.y) := by rw [e]; exact mul_self_le_mul_self hδ d3
      linarith
    · have : δ * δ ≤ (p.y - q.y) * (p.y - q.y) := by
        rw [e]; have := mul_self_le_mul_self hδ d4; nlinarith
      linarith
    · have : δ * δ ≤ (p.z - q.z) * (p.z - q.z) := by rw [e]; exact mul_self_le_mul_self hδ d5
      linarith
    · have : δ * δ ≤ (p.z - q.z) * (p.z - q.z) := by
        rw [e]; have := mul_self_le_mul_self hδ d6; nlinarith
      linarith

example : BoxOk3 (⟨-1, -2, -3⟩ : V3 ℚ) ⟨1, 2, 3⟩ ∧ BoxBnd3 (⟨-1, -2, -3⟩ : V3 ℚ) ⟨1, 2, 3⟩ ⟨1, 0, 1⟩
    ∧ BoxMem3 (⟨-1, -2, -3⟩ : V3 ℚ) ⟨1, 2, 3⟩ ⟨0, 1/2, 0⟩ := by
  simp only [BoxOk3, BoxBnd3, BoxMem3]; norm_num

/-! ### Cuboid = `Aabb::new(-he, he)` -/

/-- boundary of the cuboid: a member with one coordinate at `± he` -/
def CubBnd3 (s : Cuboid3 K) (x : V3 K) : Prop :=
  BoxBnd3 ⟨-s.he.x, -s.he.y, -s.he.z⟩ s.he x
def CubOk3 (s : Cuboid3 K) : Prop := 0 ≤ s.he.x ∧ 0 ≤ s.he.y ∧ 0 ≤ s.he.z

private theorem cubOk (s : Cuboid3 K) (h : CubOk3 s) : BoxOk3 (⟨-s.he.x, -s.he.y, -s.he.z⟩ : V3 K) s.he := by
  obtain ⟨a, b, c⟩ := h
  exact ⟨by simp only []; linarith, by simp only []; linarith, by simp only []; linarith⟩

/-- **inside flag** ⇔ `Cuboid.Mem` -/
theorem cub3_inside_iff (s : Cuboid3 K) (p : V3 K) (solid : Bool) (h : CubOk3 s) :
    letI := fieldNum K sq
    (s.project p solid).inside = true ↔ s.Mem p :=
  aabb3_inside_iff sq _ _ p solid (cubOk s h)

/-- `contains_local_point ⇔ Mem` -/
theorem cub3_contains_iff (s : Cuboid3 K) (p : V3 K) (h : CubOk3 s) :
    letI := fieldNum K sq
    s.contains p = true ↔ s.Mem p :=
  aabb3_inside_iff sq _ _ p true (cubOk s h)

theorem cub3_project_mem (s : Cuboid3 K) (p : V3 K) (solid : Bool) (h : CubOk3 s) :
    letI := fieldNum K sq
    s.Mem (s.project p solid).pt :=
  aabb3_project_mem sq _ _ p solid (cubOk s h)

theorem cub3_project_on_boundary (s : Cuboid3 K) (p : V3 K) (solid : Bool) (h : CubOk3 s) :
    letI := fieldNum K sq
    (solid = false ∨ ¬ s.Mem p) → CubBnd3 s (s.project p solid).pt :=
  aabb3_project_on_boundary sq _ _ p solid (cubOk s h)

/-- **optimality**, solid cuboid (`solid = true` or outside point) -/
theorem cub3_project_optimal (s : Cuboid3 K) (p q : V3 K) (solid : Bool) (h : CubOk3 s) :
    letI := fieldNum K sq
    s.Mem q → (solid = true ∨ ¬ s.Mem p) → dsq3 p (s.project p solid).pt ≤ dsq3 p q :=
  aabb3_project_optimal sq _ _ p q solid (cubOk s h)

/-- **optimality**, hollow cuboid (any flag, in particular `solid = false` with an interior point) -/
theorem cub3_project_optimal_boundary (s : Cuboid3 K) (p q : V3 K) (solid : Bool) (h : CubOk3 s) :
    letI := fieldNum K sq
    CubBnd3 s q → dsq3 p (s.project p solid).pt ≤ dsq3 p q :=
  aabb3_project_optimal_boundary sq _ _ p q solid (cubOk s h)


/-- one coordinate of `Aabb::distance_to_local_point`: `max(max(lo-x, x-hi), 0)` is the absolute value of the clamping shift -/
private theorem clamp_abs (lo hi x : K) (h : lo ≤ hi) :
    max (max (lo - x) (x - hi)) 0 * max (max (lo - x) (x - hi)) 0
      = (max (lo - x) 0 - max (x - hi) 0) * (max (lo - x) 0 - max (x - hi) 0) ∧
    (max (max (lo - x) (x - hi)) 0 = 0 ↔ lo ≤ x ∧ x ≤ hi) := by
  rcases lt_or_ge x lo with h1 | h1
  · rw [max_eq_left (by linarith : x - hi ≤ lo - x), max_eq_left (by linarith : (0 : K) ≤ lo - x),
      max_eq_right (by linarith : x - hi ≤ 0)]
    exact ⟨by ring, ⟨fun h' => by exfalso; linarith, fun h' => by exfalso; linarith [h'.1]⟩⟩
  · rcases lt_or_ge hi x with h2 | h2
    · rw [max_eq_right (by linarith : lo - x ≤ x - hi), max_eq_left (by linarith : (0 : K) ≤ x - hi),
        max_eq_right (by linarith : lo - x ≤ 0)]
      exact ⟨by ring, ⟨fun h' => by exfalso; linarith, fun h' => by exfalso; linarith [h'.2]⟩⟩
    · have e : max (max (lo - x) (x - hi)) 0 = 0 := max_eq_right (max_le (by linarith) (by linarith))
      rw [e, max_eq_right (by linarith : lo - x ≤ 0), max_eq_right (by linarith : x - hi ≤ 0)]
      exact ⟨by ring, ⟨fun _ => ⟨h1, h2⟩, fun _ => rfl⟩⟩

/-- **`Aabb::distance_to_local_point`** (own implementation): magnitude `|p - proj|`, and negative only for `solid = false`
and a point of the box. -/
theorem aabb3_distance_spec (hs : LawfulSqrt sq) (lo hi p : V3 K) (solid : Bool) (hok : BoxOk3 lo hi) :
    letI := fieldNum K sq
    aabbDistance3 lo hi p solid * aabbDistance3 lo hi p solid = dsq3 p (aabbProject3 lo hi p solid).pt ∧
    (aabbDistance3 lo hi p solid < 0 → solid = false ∧ BoxMem3 lo hi p) := by
  letI := fieldNum K sq
  obtain ⟨ax, bx⟩ := clamp_abs lo.x hi.x p.x hok.1
  obtain ⟨ay, by'⟩ := clamp_abs lo.y hi.y p.y hok.2.1
  obtain ⟨az, bz⟩ := clamp_abs lo.z hi.z p.z hok.2.2
  have hzero : ((((lo.sub p).sup (p.sub hi)).sup V3.zero).isZero = true) ↔ BoxMem3 lo hi p := by
    simp only [V3.isZero, V3.sub, V3.sup, V3.zero, fieldNum_nmax, Bool.and_eq_true, neq_zero_iff, BoxMem3]
    rw [bx, by', bz]; tauto
  by_cases hm : BoxMem3 lo hi p
  · have hZ := hzero.mpr hm
    cases solid
    · -- hollow, inside: minus the distance to the projection
      have hnn : 0 ≤ ((aabbProject3 lo hi p false).pt.sub p).normSq := by
        simp only [V3.normSq, V3.dot]
        nlinarith [mul_self_nonneg ((aabbProject3 lo hi p false).pt.sub p).x, mul_self_nonneg ((aabbProject3 lo hi p false).pt.sub p).y,
          mul_self_nonneg ((aabbProject3 lo hi p false).pt.sub p).z]
      have h2 := hs.sq_mul _ hnn
      have h0 := hs.nonneg _ hnn
      have hd : ((aabbProject3 lo hi p false).pt.sub p).normSq = dsq3 p (aabbProject3 lo hi p false).pt := by
        simp only [V3.normSq, V3.dot, V3.sub, dsq3]; ring
      simp only [aabbDistance3, hZ, Bool.false_or, Bool.not_true, Bool.false_eq_true, if_false, V3.norm, fieldNum_sqrt]
      exact ⟨by rw [← hd]; linear_combination h2, fun _ => ⟨trivial, hm⟩⟩
    · rw [aabb3_branch_solid sq lo hi p hok hm]
      have h00 : sq 0 = 0 := by
        have := hs.sq_mul 0 (le_refl _)
        exact mul_self_eq_zero.mp this
      have hsz : (((lo.sub p).sup (p.sub hi)).sup V3.zero).normSq = 0 := by
        simp only [V3.isZero, Bool.and_eq_true, neq_zero_iff] at hZ
        simp only [V3.normSq, V3.dot]; rw [hZ.1.1, hZ.1.2, hZ.2]; ring
      simp only [aabbDistance3, Bool.true_or, if_true, V3.norm, fieldNum_sqrt, hsz, h00, dsq3]
      exact ⟨by ring, fun h => absurd h (lt_irrefl 0)⟩
  · have hZ : (((lo.sub p).sup (p.sub hi)).sup V3.zero).isZero = false := by
      rw [← Bool.not_eq_true]; exact fun h => hm (hzero.mp h)
    rw [aabb3_branch_out sq lo hi p solid hok hm]
    have hnn : 0 ≤ (((lo.sub p).sup (p.sub hi)).sup V3.zero).normSq := by
      simp only [V3.normSq, V3.dot]
      nlinarith [mul_self_nonneg (((lo.sub p).sup (p.sub hi)).sup V3.zero).x, mul_self_nonneg (((lo.sub p).sup (p.sub hi)).sup V3.zero).y,
        mul_self_nonneg (((lo.sub p).sup (p.sub hi)).sup V3.zero).z]
    have h2 := hs.sq_mul _ hnn
    have h0 := hs.nonneg _ hnn
    simp only [aabbDistance3, hZ, Bool.not_false, Bool.or_true, if_true, V3.norm, fieldNum_sqrt]
    refine ⟨?_, fun h => absurd h (not_lt.mpr h0)⟩
    rw [h2]
    simp only [V3.normSq, V3.dot, V3.sub, V3.sup, V3.zero, V3.add, fieldNum_nmax, dsq3]
    rw [ax, ay, az]; ring

/-- **`Cuboid::distance_to_local_point`** -/
theorem cub3_distance_spec (hs : LawfulSqrt sq) (s : Cuboid3 K) (p : V3 K) (solid : Bool) (h : CubOk3 s) :
    letI := fieldNum K sq
    s.distance p solid * s.distance p solid = dsq3 p (s.project p solid).pt ∧
    (s.distance p solid < 0 → solid = false ∧ s.Mem p) :=
  aabb3_distance_spec sq hs _ _ p solid (cubOk s h)

/-! ## Triangle, 2-D (`point_triangle.rs`: Voronoi regions of the three vertices, three edges, and the face)

Hypothesis `Tri2Ok`: the triangle is non-degenerate (`perp(ab, ac) ≠ 0`, either orientation).  On a degenerate triangle
every edge test is disabled (`n = 0`) and the code reports points off the supporting line as inside; see the report. -/

def Tri2Ok (s : Triangle2 K) : Prop :=
  (s.b.x - s.a.x) * (s.c.y - s.a.y) - (s.b.y - s.a.y) * (s.c.x - s.a.x) ≠ 0

/-- boundary of the triangle: a point `P + κ (Q - P)`, `κ ∈ [0,1]`, of one of the three edges; `TriLine` drops `κ ∈ [0,1]` -/
def TriBnd (s : Triangle2 K) (x : V2 K) : Prop := TriBndRaw s.a.x s.a.y s.b.x s.b.y s.c.x s.c.y x.x x.y
def TriLine (s : Triangle2 K) (x : V2 K) : Prop :=
  ∃ (Rx Ry Sx Sy lam : K),
    ((Rx = s.a.x ∧ Ry = s.a.y ∧ Sx = s.b.x ∧ Sy = s.b.y) ∨ (Rx = s.b.x ∧ Ry = s.b.y ∧ Sx = s.c.x ∧ Sy = s.c.y)
      ∨ (Rx = s.a.x ∧ Ry = s.a.y ∧ Sx = s.c.x ∧ Sy = s.c.y)) ∧ x = ⟨Rx + (Sx - Rx) * lam, Ry + (Sy - Ry) * lam⟩

/-- branch-by-branch summary (see `Tri2.lean`): either the non-solid interior tail (result on an edge, nearest among the three
edge lines), or member + variational inequality + `is_inside = (proj == pt)` + on the boundary when `solid = false`. -/
private theorem tri2_cases (s : Triangle2 K) (p : V2 K) (solid : Bool) (h : Tri2Ok s) :
    letI := fieldNum K sq
    (solid = false ∧ s.Mem p ∧ (s.projectLoc p solid).1.inside = true ∧ TriBnd s (s.projectLoc p solid).1.pt ∧
      (∀ q, TriLine s q → dsq2 p (s.projectLoc p solid).1.pt ≤ dsq2 p q)) ∨
    (s.Mem (s.projectLoc p solid).1.pt ∧
      (∀ q : V2 K, s.Mem q → (p.x - (s.projectLoc p solid).1.pt.x) * (q.x - (s.projectLoc p solid).1.pt.x)
          + (p.y - (s.projectLoc p solid).1.pt.y) * (q.y - (s.projectLoc p solid).1.pt.y) ≤ 0) ∧
      ((s.projectLoc p solid).1.inside = true ↔ (s.projectLoc p solid).1.pt = p) ∧
      (solid = false → TriBnd s (s.projectLoc p solid).1.pt)) := by
  letI := fieldNum K sq
  obtain ⟨⟨ax, ay⟩, ⟨bx, by'⟩, ⟨cx, cy⟩⟩ := s
  obtain ⟨px, py⟩ := p
  have := tri2_flat_core sq ax ay bx by' cx cy px py solid h _ _ _ _ _ _ _ _ _ _ _ _ rfl rfl rfl rfl rfl rfl rfl rfl rfl rfl rfl rfl
    (@Triangle2.projectLoc K (fieldNum K sq) ⟨⟨ax, ay⟩, ⟨bx, by'⟩, ⟨cx, cy⟩⟩ ⟨px, py⟩ solid)
    (tri2_projectLoc_eq_flat sq _ _ _)
  rcases this with ⟨h1, h2, h3, h4, h5⟩ | ⟨h1, h2, h3, h4⟩
  · refine Or.inl ⟨h1, h2, h3, h4, ?_⟩
    rintro q ⟨Rx, Ry, Sx, Sy, lam, hR, rfl⟩
    exact h5 Rx Ry Sx Sy lam hR
  · exact Or.inr ⟨h1, fun q hq => h2 q.x q.y hq, h3, h4⟩

/-- **membership**: for `solid = true`, or for a point outside the triangle, the projection is a point of the triangle. -/
theorem tri2_project_mem (s : Triangle2 K) (p : V2 K) (solid : Bool) (h : Tri2Ok s) :
    letI := fieldNum K sq
    (solid = true ∨ ¬ s.Mem p) → s.Mem (s.projectLoc p solid).1.pt := by
  letI := fieldNum K sq
  intro hc
  rcases tri2_cases sq s p solid h with ⟨h1, h2, _⟩ | ⟨h1, _, _, _⟩
  · rcases hc with hc | hc
    · rw [h1] at hc; exact absurd hc (by simp)
    · exact absurd h2 hc
  · exact h1

/-- **optimality**: for `solid = true`, or for a point outside, no point of the triangle is closer than the projection
(all seven Voronoi regions). -/
theorem tri2_project_optimal (s : Triangle2 K) (p q : V2 K) (solid : Bool) (h : Tri2Ok s) :
    letI := fieldNum K sq
    s.Mem q → (solid = true ∨ ¬ s.Mem p) → dsq2 p (s.projectLoc p solid).1.pt ≤ dsq2 p q := by
  letI := fieldNum K sq
  intro hq hc
  rcases tri2_cases sq s p solid h with ⟨h1, h2, _⟩ | ⟨_, h2, _, _⟩
  · rcases hc with hc | hc
    · rw [h1] at hc; exact absurd hc (by simp)
    · exact absurd h2 hc
  · exact opt_of_var2 _ _ _ _ _ _ (h2 q hq)

/-- **inside flag**: `is_inside ⇔ p ∈ triangle`, both flags (2-D uses exact equality `proj == pt`). -/
theorem tri2_inside_iff (s : Triangle2 K) (p : V2 K) (solid : Bool) (h : Tri2Ok s) :
    letI := fieldNum K sq
    (s.projectLoc p solid).1.inside = true ↔ s.Mem p := by
  letI := fieldNum K sq
  rcases tri2_cases sq s p solid h with ⟨_, h2, h3, _⟩ | ⟨h1, h2, h3, _⟩
  · exact ⟨fun _ => h2, fun _ => h3⟩
  · rw [h3]
    constructor
    · intro e; rw [← e]; exact h1
    · intro hm
      have h4 := opt_of_var2 _ _ _ _ _ _ (h2 p hm)
      have h0 : (p.x - p.x) * (p.x - p.x) + (p.y - p.y) * (p.y - p.y) = (0 : K) := by ring
      rw [h0] at h4
      obtain ⟨hx, hy⟩ := sumsq2_eq_zero h4
      exact (v2_ext (by linarith) (by linarith)).symm

/-- every boundary point lies on one of the three edge lines -/
theorem triBnd_line (s : Triangle2 K) (x : V2 K) : TriBnd s x → TriLine s x := by
  rintro ⟨Px, Py, Qx, Qy, κ, hE, _, _, hx, hy⟩
  exact ⟨Px, Py, Qx, Qy, κ, hE, v2_ext hx hy⟩

/-- **`solid = false`** (the hollow triangle): for every query point — inside, outside or on the boundary — the returned point lies
on one of the three edges, and no point of the three edge lines (a fortiori no boundary point) is closer.  For an interior
point this is the tail of `point_triangle.rs` that compares the three line distances `d_ab, d_ac, d_bc`. -/
theorem tri2_project_hollow (s : Triangle2 K) (p : V2 K) (h : Tri2Ok s) :
    letI := fieldNum K sq
    TriBnd s (s.projectLoc p false).1.pt ∧
    ∀ q, TriBnd s q → dsq2 p (s.projectLoc p false).1.pt ≤ dsq2 p q := by
  letI := fieldNum K sq
  rcases tri2_cases sq s p false h with ⟨_, _, _, h4, h5⟩ | ⟨_, h2, _, h4⟩
  · exact ⟨h4, fun q hq => h5 q (triBnd_line s q hq)⟩
  · refine ⟨h4 rfl, fun q hq => ?_⟩
    apply opt_of_var2
    apply h2
    -- a boundary point is a member
    obtain ⟨Px, Py, Qx, Qy, κ, hE, k0, k1, hx, hy⟩ := hq
    rcases hE with ⟨rfl, rfl, rfl, rfl⟩ | ⟨rfl, rfl, rfl, rfl⟩ | ⟨rfl, rfl, rfl, rfl⟩
    · exact ⟨κ, 0, k0, le_refl _, by linarith, v2_ext (by simp only [V2.add, V2.sub, V2.smul]; rw [hx]; ring) (by simp only [V2.add, V2.sub, V2.smul]; rw [hy]; ring)⟩
    · exact ⟨1 - κ, κ, by linarith, k0, by linarith, v2_ext (by simp only [V2.add, V2.sub, V2.smul]; rw [hx]; ring) (by simp only [V2.add, V2.sub, V2.smul]; rw [hy]; ring)⟩
    · exact ⟨0, κ, le_refl _, k0, by linarith, v2_ext (by simp only [V2.add, V2.sub, V2.smul]; rw [hx]; ring) (by simp only [V2.add, V2.sub, V2.smul]; rw [hy]; ring)⟩

/-- `contains_local_point` (default method) `⇔ Mem` -/
theorem tri2_contains_iff (s : Triangle2 K) (p : V2 K) (h : Tri2Ok s) :
    letI := fieldNum K sq
    defaultContains2 (s.project) p = true ↔ s.Mem p :=
  tri2_inside_iff sq s p true h

example : Tri2Ok (⟨⟨0, 0⟩, ⟨4, 0⟩, ⟨0, 3⟩⟩ : Triangle2 ℚ) ∧ (⟨⟨0, 0⟩, ⟨4, 0⟩, ⟨0, 3⟩⟩ : Triangle2 ℚ).Mem ⟨1, 1⟩ := by
  refine ⟨by simp only [Tri2Ok]; norm_num, ⟨1/4, 1/3, by norm_num, by norm_num, by norm_num, ?_⟩⟩
  simp only [V2.add, V2.sub, V2.smul]; norm_num

/-- **location**: the reported `TrianglePointLocation` reproduces the projection — `OnVertex(i)` is vertex `i`; `OnEdge(i,[b0,b1])`
has `b0 + b1 = 1` and `proj = b0·P + b1·Q` for the edge's end points (`0: ab`, `1: bc`, `2: ac`); `OnFace` never occurs in 2-D;
`OnSolid` only with `solid = true`, and then `proj = pt`. -/
theorem tri2_location_sound (s : Triangle2 K) (p : V2 K) (solid : Bool) :
    letI := fieldNum K sq
    match (s.projectLoc p solid).2 with
    | .vertex i => (i = 0 ∧ (s.projectLoc p solid).1.pt = s.a) ∨ (i = 1 ∧ (s.projectLoc p solid).1.pt = s.b)
        ∨ (i = 2 ∧ (s.projectLoc p solid).1.pt = s.c)
    | .edge i b0 b1 => b0 + b1 = 1 ∧ ((i = 0 ∧ (s.projectLoc p solid).1.pt = (s.a.smul b0).add (s.b.smul b1))
        ∨ (i = 1 ∧ (s.projectLoc p solid).1.pt = (s.b.smul b0).add (s.c.smul b1))
        ∨ (i = 2 ∧ (s.projectLoc p solid).1.pt = (s.a.smul b0).add (s.c.smul b1)))
    | .face _ _ _ _ => False
    | .solid => (s.projectLoc p solid).1.pt = p ∧ solid = true := by
  letI := fieldNum K sq
  exact tri2_flat_location sq s.a s.b s.c p _ _ _ _ _ _ _ _ _ _ _ _ solid _ (tri2_projectLoc_eq_flat sq s p solid)

/-! ## Default methods of `PointQuery` and posed forms (generic in the shape's `project_local_point`) -/

/-- **`distance_to_local_point` (default)**: magnitude `|p - proj|`; negative only if `solid = false` and the projection
reports `is_inside`; and then it *is* negative unless `proj = p`.  Together with the `*_inside_iff` theorems this is
"the sign of the distance agrees with membership". -/
theorem default_distance_spec3 (hs : LawfulSqrt sq) (project : V3 K → Bool → PP3 K) (p : V3 K) (solid : Bool) :
    letI := fieldNum K sq
    defaultDistance3 project p solid * defaultDistance3 project p solid = dsq3 p (project p solid).pt ∧
    (defaultDistance3 project p solid < 0 → solid = false ∧ (project p solid).inside = true) ∧
    (solid = false → (project p solid).inside = true → (project p solid).pt ≠ p → defaultDistance3 project p solid < 0) := by
  letI := fieldNum K sq
  have hnn : 0 ≤ ((project p solid).pt.sub p).normSq := by
    simp only [V3.normSq, V3.dot]
    nlinarith [mul_self_nonneg ((project p solid).pt.sub p).x, mul_self_nonneg ((project p solid).pt.sub p).y,
      mul_self_nonneg ((project p solid).pt.sub p).z]
  have h2 := hs.sq_mul _ hnn
  have h0 := hs.nonneg _ hnn
  have hd : ((project p solid).pt.sub p).normSq = dsq3 p (project p solid).pt := by
    simp only [V3.normSq, V3.dot, V3.sub, dsq3]; ring
  simp only [defaultDistance3, V3.norm, fieldNum_sqrt]
  refine ⟨?_, ?_, ?_⟩
  · split_ifs <;> rw [← hd] <;> linear_combination h2
  · split_ifs with c
    · intro h; exact absurd h (not_lt.mpr h0)
    · intro _
      simp only [Bool.or_eq_true, Bool.not_eq_true', not_or, Bool.not_eq_false] at c
      exact ⟨by simpa using c.1, c.2⟩
  · intro h1 h2' h3
    subst h1
    simp only [h2', Bool.false_or, Bool.not_true, Bool.false_eq_true, if_false]
    have hpos : 0 < sq ((project p false).pt.sub p).normSq := by
      rcases lt_or_eq_of_le h0 with h | h
      · exact h
      · exfalso
        apply h3
        rw [← h] at h2
        have hz : ((project p false).pt.sub p).normSq = 0 := by linarith
        simp only [V3.normSq, V3.dot, V3.sub] at hz
        obtain ⟨ex, ey, ez⟩ := sumsq3_eq_zero (le_of_eq hz)
        exact v3_ext (by linarith) (by linarith) (by linarith)
    linarith

/-- **`contains_local_point` (default)** is the inside flag of the solid projection -/
theorem default_contains_spec3 (project : V3 K → Bool → PP3 K) (p : V3 K) :
    letI := fieldNum K sq
    defaultContains3 project p = (project p true).inside := rfl

/-- **`project_local_point_with_max_dist` (default)**: `None` exactly when the projection is farther than `max_dist`. -/
theorem default_maxdist_spec3 (hs : LawfulSqrt sq) (project : V3 K → Bool → PP3 K) (p : V3 K) (solid : Bool) (m : K) :
    letI := fieldNum K sq
    0 ≤ m →
    ((defaultMaxDist3 project p solid m = none ↔ m * m < dsq3 p (project p solid).pt) ∧
     (∀ r, defaultMaxDist3 project p solid m = some r → r = project p solid)) := by
  letI := fieldNum K sq
  intro hm
  have hnn : 0 ≤ (p.sub (project p solid).pt).normSq := by
    simp only [V3.normSq, V3.dot]
    nlinarith [mul_self_nonneg (p.sub (project p solid).pt).x, mul_self_nonneg (p.sub (project p solid).pt).y,
      mul_self_nonneg (p.sub (project p solid).pt).z]
  have h2 := hs.sq_mul _ hnn
  have h0 := hs.nonneg _ hnn
  have hd : (p.sub (project p solid).pt).normSq = dsq3 p (project p solid).pt := by
    simp only [V3.normSq, V3.dot, V3.sub, dsq3]
  simp only [defaultMaxDist3]
  split_ifs with c <;> simp only [V3.norm, fieldNum_sqrt] at c
  · refine ⟨⟨fun _ => ?_, fun _ => rfl⟩, fun r h => by simp at h⟩
    rw [← hd]; nlinarith
  · refine ⟨⟨fun h => by simp at h, fun h => ?_⟩, fun r h => by simpa using h.symm⟩
    exfalso; rw [← hd] at h; push Not at c; nlinarith

/-- a unit quaternion -/
def Iso3.Unit (m : Iso3 K) : Prop := m.qi * m.qi + m.qj * m.qj + m.qk * m.qk + m.qw * m.qw = 1
def Iso2.Unit (m : Iso2 K) : Prop := m.re * m.re + m.im * m.im = 1

theorem iso3_invAct_act (m : Iso3 K) (x : V3 K) (hm : Iso3.Unit m) :
    letI := fieldNum K sq
    m.invAct (m.act x) = x := by
  letI := fieldNum K sq
  simp only [Iso3.invAct, Iso3.act]
  have : ((m.rot x).add m.t).sub m.t = m.rot x := by
    apply v3_ext <;> simp [V3.add, V3.sub]
  rw [this]; exact iso3_invRot_rot sq m x hm

theorem iso3_act_invAct (m : Iso3 K) (x : V3 K) (hm : Iso3.Unit m) :
    letI := fieldNum K sq
    m.act (m.invAct x) = x := by
  letI := fieldNum K sq
  simp only [Iso3.invAct, Iso3.act]
  rw [iso3_rot_invRot sq m _ hm]
  apply v3_ext <;> simp [V3.add, V3.sub]

/-- an isometry preserves squared distances -/
theorem iso3_act_dsq (m : Iso3 K) (x y : V3 K) (hm : Iso3.Unit m) :
    letI := fieldNum K sq
    dsq3 (m.act x) (m.act y) = dsq3 x y := by
  letI := fieldNum K sq
  rw [← iso3_rot_dsq sq m x y hm]
  simp only [Iso3.act, dsq3, V3.add]; ring

/-- **posed = local ∘ inverse transform** (definitional) -/
theorem posed_project_def3 (project : V3 K → Bool → PP3 K) (m : Iso3 K) (pt : V3 K) (solid : Bool) :
    letI := fieldNum K sq
    posedProject3 project m pt solid = ⟨(project (m.invAct pt) solid).inside, m.act (project (m.invAct pt) solid).pt⟩ := rfl
theorem posed_distance_def3 (distance : V3 K → Bool → K) (m : Iso3 K) (pt : V3 K) (solid : Bool) :
    letI := fieldNum K sq
    posedDistance3 distance m pt solid = distance (m.invAct pt) solid := rfl
theorem posed_contains_def3 (contains : V3 K → Bool) (m : Iso3 K) (pt : V3 K) :
    letI := fieldNum K sq
    posedContains3 contains m pt = contains (m.invAct pt) := rfl

/-- **posed projection transfers the local guarantees**: if, at the local point `m⁻¹ pt`, the local projection is a member of
`S` that is at least as close as every member of `T`, then `project_point` returns a member of the world-space shape
`m·S = {x | S (m⁻¹ x)}` that is at least as close to `pt` as every point of `m·T`. -/
theorem posed_project_optimal3 (project : V3 K → Bool → PP3 K) (S T : V3 K → Prop) (m : Iso3 K) (pt : V3 K) (solid : Bool)
    (hm : Iso3.Unit m) :
    letI := fieldNum K sq
    S (project (m.invAct pt) solid).pt →
    (∀ q, T q → dsq3 (m.invAct pt) (project (m.invAct pt) solid).pt ≤ dsq3 (m.invAct pt) q) →
    S (m.invAct (posedProject3 project m pt solid).pt) ∧
    ∀ y, T (m.invAct y) → dsq3 pt (posedProject3 project m pt solid).pt ≤ dsq3 pt y := by
  letI := fieldNum K sq
  intro h1 h2
  simp only [posedProject3, PP3.transformBy]
  refine ⟨by rw [iso3_invAct_act sq m _ hm]; exact h1, fun y hy => ?_⟩
  have e1 := iso3_act_dsq sq m (m.invAct pt) (project (m.invAct pt) solid).pt hm
  have e2 := iso3_act_dsq sq m (m.invAct pt) (m.invAct y) hm
  rw [iso3_act_invAct sq m pt hm] at e1 e2
  rw [iso3_act_invAct sq m y hm] at e2
  rw [e1, e2]
  exact h2 _ hy

example : Iso3.Unit (⟨1/2, 1/2, 1/2, 1/2, ⟨1, 2, 3⟩⟩ : Iso3 ℚ) := by simp only [Iso3.Unit]; norm_num

/-! ## Capsule (segment + radius) -/

/-- `orthonormal_basis()[0]` of a unit vector is a unit vector orthogonal to it (Pixar's branchless formula) -/
theorem orthoBasis0_spec (v : V3 K) :
    letI := fieldNum K sq
    v.normSq = 1 → (orthoBasis0 v).normSq = 1 ∧ (orthoBasis0 v).dot v = 0 := by
  letI := fieldNum K sq
  intro hv
  simp only [orthoBasis0, V3.normSq, V3.dot] at *
  have e2 : v.x * v.x + v.y * v.y = 1 - v.z * v.z := by linear_combination hv
  split_ifs with hz
  · have hne : (-1 : K) + v.z ≠ 0 := by linarith
    have ha := div_mul_cancel₀ (-1 : K) hne
    generalize (-1 : K) / (-1 + v.z) = a at *
    have e : a * v.z = a - 1 := by linear_combination ha
    have e3 : a * a * (v.x * v.x + v.y * v.y) - 2 * a + 1 = 0 := by
      rw [e2]
      have : a * a * (1 - v.z * v.z) = a * a - (a * v.z) * (a * v.z) := by ring
      rw [this, e]; ring
    have e4 : a * (v.x * v.x + v.y * v.y) = 1 + v.z := by
      rw [e2]
      have : a * (1 - v.z * v.z) = (a - a * v.z) * (1 + v.z) := by ring
      rw [this, e]; ring
    constructor
    · linear_combination (v.x * v.x) * e3
    · linear_combination (-v.x) * e4
  · have hne : (1 : K) + v.z ≠ 0 := by push Not at hz; linarith
    have ha := div_mul_cancel₀ (-1 : K) hne
    generalize (-1 : K) / (1 + v.z) = a at *
    have e : a * v.z = -1 - a := by linear_combination ha
    have e3 : a * a * (v.x * v.x + v.y * v.y) + 2 * a + 1 = 0 := by
      rw [e2]
      have : a * a * (1 - v.z * v.z) = a * a - (a * v.z) * (a * v.z) := by ring
      rw [this, e]; ring
    have e4 : a * (v.x * v.x + v.y * v.y) = -1 + v.z := by
      rw [e2]
      have : a * (1 - v.z * v.z) = (a + a * v.z) * (1 - v.z) := by ring
      rw [this, e]; ring
    constructor
    · linear_combination (v.x * v.x) * e3
    · linear_combination (v.x) * e4

/-- positivity of `ε = 2⁻⁵²` -/
theorem eps_pos : (0 : K) < ((mkRat 1 4503599627370496 : ℚ) : K) := by
  have : (0 : ℚ) < mkRat 1 4503599627370496 := by norm_num
  exact_mod_cast this

/-- squared distance from `p` to the projection on the capsule's axis -/
def capAxisSq (s : Capsule3 K) (p : V3 K) : K :=
  letI := fieldNum K sq
  (p.sub ((⟨s.a, s.b⟩ : Segment3 K).projectLoc p).1.pt).normSq

/-- membership in the capsule ⇔ the axis projection is within `r` -/
theorem cap3_mem_iff (s : Capsule3 K) (p : V3 K) :
    letI := fieldNum K sq
    s.Mem p ↔ capAxisSq sq s p ≤ s.r * s.r := by
  letI := fieldNum K sq
  constructor
  · rintro ⟨q, hq, hle⟩
    have h := seg3_project_optimal sq ⟨s.a, s.b⟩ p q hq
    simp only [capAxisSq, V3.normSq, V3.dot, V3.sub, dsq3] at *
    linarith
  · intro h
    exact ⟨_, seg3_project_mem sq ⟨s.a, s.b⟩ p, h⟩

/-- the result shapes of `Capsule::project_local_point`: the query point itself (inside, solid), or the axis projection
`P` pushed by `r` along a unit vector `d` (which is the direction `P → p` whenever that is not degenerate). -/
private theorem cap3_cases (hs : LawfulSqrt sq) (s : Capsule3 K) (p : V3 K) (solid : Bool) :
    letI := fieldNum K sq
    ((mkRat 1 4503599627370496 : ℚ) : K) ≤ s.r →
    ((s.project p solid).inside = true ↔ capAxisSq sq s p ≤ s.r * s.r) ∧
    (((s.project p solid).pt = p ∧ capAxisSq sq s p ≤ s.r * s.r ∧ solid = true) ∨
     (∃ d : V3 K, d.normSq = 1 ∧ (s.project p solid).pt = ((⟨s.a, s.b⟩ : Segment3 K).projectLoc p).1.pt.add (d.smul s.r) ∧
        (((mkRat 1 4503599627370496 : ℚ) : K) * ((mkRat 1 4503599627370496 : ℚ) : K) < capAxisSq sq s p →
          (p.sub ((⟨s.a, s.b⟩ : Segment3 K).projectLoc p).1.pt) = d.smul (sq (capAxisSq sq s p))) ∧
        (capAxisSq sq s p ≤ s.r * s.r → solid = false))) := by
  letI := fieldNum K sq
  intro hr
  have he := eps_pos (K := K)
  have hnn : 0 ≤ capAxisSq sq s p := by
    simp only [capAxisSq, V3.normSq, V3.dot]
    nlinarith [mul_self_nonneg (p.sub ((⟨s.a, s.b⟩ : Segment3 K).projectLoc p).1.pt).x,
      mul_self_nonneg (p.sub ((⟨s.a, s.b⟩ : Segment3 K).projectLoc p).1.pt).y,
      mul_self_nonneg (p.sub ((⟨s.a, s.b⟩ : Segment3 K).projectLoc p).1.pt).z]
  have h2 := hs.sq_mul _ hnn
  have h0 := hs.nonneg _ hnn
  have hr0 : 0 ≤ s.r := le_trans he.le hr
  have hee : ((mkRat 1 4503599627370496 : ℚ) : K) * ((mkRat 1 4503599627370496 : ℚ) : K) ≤ s.r * s.r :=
    mul_self_le_mul_self he.le hr
  have hle : sq (capAxisSq sq s p) ≤ s.r ↔ capAxisSq sq s p ≤ s.r * s.r := by
    constructor
    · intro h; rw [← h2]; exact mul_self_le_mul_self h0 h
    · intro h; rw [← h2] at h; exact le_of_mul_self_le hr0 h
  simp only [capAxisSq] at *
  generalize hres : s.project p solid = res
  dsimp only [Capsule3.project] at hres
  split_ifs at hres with c1 c2 c3 c4 <;> subst hres <;>
    simp only [Bool.and_eq_true, decide_eq_true_eq, eps, fieldNum_lit, fieldNum_sqrt] at * <;>
    simp only [Segment3.project] at *
  · -- not on the axis, solid and inside
    exact ⟨⟨fun _ => hle.mp c2.2, fun _ => trivial⟩, Or.inl ⟨trivial, hle.mp c2.2, c2.1⟩⟩
  · -- not on the axis: push along the direction
    refine ⟨by rw [hle], Or.inr ⟨_, ?_, rfl, ?_, ?_⟩⟩
    · have hpos : 0 < (p.sub ((⟨s.a, s.b⟩ : Segment3 K).projectLoc p).1.pt).normSq := lt_trans (mul_pos he he) c1
      have hne : sq (p.sub ((⟨s.a, s.b⟩ : Segment3 K).projectLoc p).1.pt).normSq ≠ 0 := by
        intro h; rw [h] at h2; linarith
      generalize sq (p.sub ((⟨s.a, s.b⟩ : Segment3 K).projectLoc p).1.pt).normSq = d at *
      generalize (p.sub ((⟨s.a, s.b⟩ : Segment3 K).projectLoc p).1.pt) = w at *
      simp only [V3.normSq, V3.dot, V3.sdiv] at *
      field_simp
      linarith
    · intro _
      have hne : sq (p.sub ((⟨s.a, s.b⟩ : Segment3 K).projectLoc p).1.pt).normSq ≠ 0 := by
        intro h; rw [h] at h2; have := mul_pos he he; linarith
      apply v3_ext <;> simp only [V3.smul, V3.sdiv] <;> field_simp
    · intro hN
      by_contra hsol
      exact c2 ⟨by simpa using hsol, hle.mpr hN⟩
  · -- on the axis, solid
    push Not at c1
    exact ⟨⟨fun _ => le_trans c1 hee, fun _ => trivial⟩, Or.inl ⟨trivial, le_trans c1 hee, c3⟩⟩
  · -- on the axis, hollow: orthogonal direction
    push Not at c1
    refine ⟨⟨fun _ => le_trans c1 hee, fun _ => trivial⟩, Or.inr ⟨_, ?_, rfl, fun h => absurd h (not_lt.mpr c1), fun _ => by simpa using c3⟩⟩
    apply (orthoBasis0_spec sq _ _).1
    have hpos : 0 < (s.b.sub s.a).normSq := lt_trans (mul_pos he he) c4
    have h2' := hs.sq_mul _ hpos.le
    have hne : sq (s.b.sub s.a).normSq ≠ 0 := by
      intro h; rw [h] at h2'; linarith
    generalize sq (s.b.sub s.a).normSq = d at *
    generalize (s.b.sub s.a) = w at *
    simp only [V3.normSq, V3.dot, V3.sdiv] at *
    field_simp
    linarith
  · -- degenerate segment, hollow
    push Not at c1
    refine ⟨⟨fun _ => le_trans c1 hee, fun _ => trivial⟩, Or.inr ⟨⟨0, 1, 0⟩, by simp [V3.normSq, V3.dot], ?_, fun h => absurd h (not_lt.mpr c1), fun _ => by simpa using c3⟩⟩
    simp [V3.smul]

/-- domain: radius at least `ε = 2⁻⁵²` (the property's domain has `r ≥ 10⁻²`) -/
def CapOk3 (s : Capsule3 K) : Prop := ((mkRat 1 4503599627370496 : ℚ) : K) ≤ s.r

/-- **inside flag** ⇔ membership in the capsule -/
theorem cap3_inside_iff (hs : LawfulSqrt sq) (s : Capsule3 K) (p : V3 K) (solid : Bool) (h : CapOk3 s) :
    letI := fieldNum K sq
    (s.project p solid).inside = true ↔ s.Mem p := by
  rw [cap3_mem_iff]; exact (cap3_cases sq hs s p solid h).1

/-- `contains_local_point` (default) ⇔ membership -/
theorem cap3_contains_iff (hs : LawfulSqrt sq) (s : Capsule3 K) (p : V3 K) (h : CapOk3 s) :
    letI := fieldNum K sq
    defaultContains3 (s.project) p = true ↔ s.Mem p :=
  cap3_inside_iff sq hs s p true h

/-- **membership**: the projection is a point of the capsule (all branches, including the degenerate on-axis ones) -/
theorem cap3_project_mem (hs : LawfulSqrt sq) (s : Capsule3 K) (p : V3 K) (solid : Bool) (h : CapOk3 s) :
    letI := fieldNum K sq
    s.Mem (s.project p solid).pt := by
  letI := fieldNum K sq
  rcases (cap3_cases sq hs s p solid h).2 with ⟨e, hN, _⟩ | ⟨d, hd, e, _, _⟩
  · rw [e]; exact (cap3_mem_iff sq s p).mpr hN
  · rw [e]
    refine ⟨_, seg3_project_mem sq ⟨s.a, s.b⟩ p, ?_⟩
    generalize ((⟨s.a, s.b⟩ : Segment3 K).projectLoc p).1.pt = P
    simp only [V3.normSq, V3.dot, V3.sub, V3.add, V3.smul] at *
    apply le_of_eq
    linear_combination (s.r * s.r) * hd

/-- **optimality**: for `solid = true`, or for a point outside, no point of the capsule is closer than the projection. -/
theorem cap3_project_optimal (hs : LawfulSqrt sq) (s : Capsule3 K) (p y : V3 K) (solid : Bool) (h : CapOk3 s) :
    letI := fieldNum K sq
    s.Mem y → (solid = true ∨ ¬ s.Mem p) → dsq3 p (s.project p solid).pt ≤ dsq3 p y := by
  letI := fieldNum K sq
  intro hy hc
  rcases (cap3_cases sq hs s p solid h).2 with ⟨e, _, _⟩ | ⟨d, hd, e, hdir, hsol⟩
  · rw [e]; simp only [dsq3]
    nlinarith [mul_self_nonneg (p.x - y.x), mul_self_nonneg (p.y - y.y), mul_self_nonneg (p.z - y.z)]
  · have hnm : ¬ s.Mem p := by
      rcases hc with hc | hc
      · intro hm
        have := hsol ((cap3_mem_iff sq s p).mp hm)
        rw [hc] at this; exact absurd this (by simp)
      · exact hc
    rw [cap3_mem_iff] at hnm
    push Not at hnm
    have he := eps_pos (K := K)
    have hee : ((mkRat 1 4503599627370496 : ℚ) : K) * ((mkRat 1 4503599627370496 : ℚ) : K) ≤ s.r * s.r :=
      mul_self_le_mul_self he.le h
    have hr0 : 0 ≤ s.r := le_trans he.le h
    have hdir' := hdir (lt_of_le_of_lt hee hnm)
    have hnn : 0 ≤ capAxisSq sq s p := le_trans (mul_self_nonneg _) hnm.le
    have h2 := hs.sq_mul _ hnn
    have h0 := hs.nonneg _ hnn
    have hDr : s.r < sq (capAxisSq sq s p) := by
      by_contra hcon; push Not at hcon
      have := mul_self_le_mul_self h0 hcon
      linarith
    obtain ⟨q', hq', hyq⟩ := hy
    have hvar := seg3_project_variational sq ⟨s.a, s.b⟩ p q' hq'
    rw [e]
    apply opt_of_var3
    generalize sq (capAxisSq sq s p) = D at *
    generalize ((⟨s.a, s.b⟩ : Segment3 K).projectLoc p).1.pt = P at *
    have hpx : p.x = P.x + d.x * D := by have := congrArg V3.x hdir'; simp only [V3.sub, V3.smul] at this; linarith
    have hpy : p.y = P.y + d.y * D := by have := congrArg V3.y hdir'; simp only [V3.sub, V3.smul] at this; linarith
    have hpz : p.z = P.z + d.z * D := by have := congrArg V3.z hdir'; simp only [V3.sub, V3.smul] at this; linarith
    have hda := dot_le3 d.x d.y d.z (y.x - q'.x) (y.y - q'.y) (y.z - q'.z) 1 s.r
      (by simpa [V3.normSq, V3.dot] using le_of_eq hd) (by simpa [V3.normSq, V3.dot, V3.sub] using hyq) zero_le_one hr0
    have hdw : d.x * (q'.x - P.x) + d.y * (q'.y - P.y) + d.z * (q'.z - P.z) ≤ 0 := by
      simp only [V3.dot, V3.sub] at hvar
      rw [hpx, hpy, hpz] at hvar
      have hDpos : 0 < D := lt_of_le_of_lt hr0 hDr
      by_contra hcon; push Not at hcon
      have := mul_pos hcon hDpos
      nlinarith
    simp only [V3.add, V3.smul, V3.normSq, V3.dot] at hd ⊢
    rw [hpx, hpy, hpz]
    have e1 : (P.x + d.x * D - (P.x + d.x * s.r)) * (y.x - (P.x + d.x * s.r)) + (P.y + d.y * D - (P.y + d.y * s.r)) * (y.y - (P.y + d.y * s.r))
        + (P.z + d.z * D - (P.z + d.z * s.r)) * (y.z - (P.z + d.z * s.r))
        = (D - s.r) * ((d.x * (y.x - q'.x) + d.y * (y.y - q'.y) + d.z * (y.z - q'.z))
            + (d.x * (q'.x - P.x) + d.y * (q'.y - P.y) + d.z * (q'.z - P.z)) - s.r) := by
      linear_combination (-(D - s.r) * s.r) * hd
    rw [e1]
    apply mul_nonpos_of_nonneg_of_nonpos (by linarith)
    linarith

example : CapOk3 (⟨⟨0, 0, 0⟩, ⟨1, 0, 0⟩, 1/2⟩ : Capsule3 ℚ) := by simp only [CapOk3]; norm_num

/-- **boundary** (off the axis): with `solid = false`, or for a point outside, the projection is at distance exactly `r` from
the axis point `P` and at distance `≥ r` from every point of the axis — i.e. on the capsule's surface. -/
theorem cap3_project_on_boundary (hs : LawfulSqrt sq) (s : Capsule3 K) (p : V3 K) (solid : Bool) (h : CapOk3 s) :
    letI := fieldNum K sq
    (solid = false ∨ ¬ s.Mem p) →
    ((mkRat 1 4503599627370496 : ℚ) : K) * ((mkRat 1 4503599627370496 : ℚ) : K) < capAxisSq sq s p →
    ∀ q, (⟨s.a, s.b⟩ : Segment3 K).Mem q → s.r * s.r ≤ dsq3 (s.project p solid).pt q := by
  letI := fieldNum K sq
  intro hc hN q hq
  have he := eps_pos (K := K)
  have hr0 : 0 ≤ s.r := le_trans he.le h
  have hnn : 0 ≤ capAxisSq sq s p := le_trans (mul_self_nonneg _) hN.le
  have h2 := hs.sq_mul _ hnn
  have h0 := hs.nonneg _ hnn
  have hDpos : 0 < sq (capAxisSq sq s p) := by
    rcases lt_or_eq_of_le h0 with h' | h'
    · exact h'
    · rw [← h'] at h2; have := mul_pos he he; linarith
  rcases (cap3_cases sq hs s p solid h).2 with ⟨e, hle, hsol⟩ | ⟨d, hd, e, hdir, _⟩
  · exfalso
    rcases hc with hc | hc
    · rw [hc] at hsol; exact absurd hsol (by simp)
    · exact hc ((cap3_mem_iff sq s p).mpr hle)
  · have hdir' := hdir hN
    have hvar := seg3_project_variational sq ⟨s.a, s.b⟩ p q hq
    rw [e]
    generalize sq (capAxisSq sq s p) = D at *
    generalize ((⟨s.a, s.b⟩ : Segment3 K).projectLoc p).1.pt = P at *
    have hpx : p.x = P.x + d.x * D := by have := congrArg V3.x hdir'; simp only [V3.sub, V3.smul] at this; linarith
    have hpy : p.y = P.y + d.y * D := by have := congrArg V3.y hdir'; simp only [V3.sub, V3.smul] at this; linarith
    have hpz : p.z = P.z + d.z * D := by have := congrArg V3.z hdir'; simp only [V3.sub, V3.smul] at this; linarith
    have hdw : d.x * (q.x - P.x) + d.y * (q.y - P.y) + d.z * (q.z - P.z) ≤ 0 := by
      simp only [V3.dot, V3.sub] at hvar
      rw [hpx, hpy, hpz] at hvar
      by_contra hcon; push Not at hcon
      have := mul_pos hcon hDpos
      nlinarith
    simp only [V3.add, V3.smul, V3.normSq, V3.dot, dsq3] at hd ⊢
    nlinarith [mul_self_nonneg (q.x - P.x), mul_self_nonneg (q.y - P.y), mul_self_nonneg (q.z - P.z), mul_nonneg hr0 (neg_nonneg.2 hdw)]

/-- **optimality w.r.t. the surface** (`solid = false`, interior point off the axis): every point `y` at distance `≥ r` from the
axis point `P` — in particular every point of the capsule's surface — is at least as far from `p` as the projection. -/
theorem cap3_project_optimal_hollow (hs : LawfulSqrt sq) (s : Capsule3 K) (p y : V3 K) (h : CapOk3 s) :
    letI := fieldNum K sq
    s.Mem p →
    ((mkRat 1 4503599627370496 : ℚ) : K) * ((mkRat 1 4503599627370496 : ℚ) : K) < capAxisSq sq s p →
    s.r * s.r ≤ dsq3 y ((⟨s.a, s.b⟩ : Segment3 K).projectLoc p).1.pt →
    dsq3 p (s.project p false).pt ≤ dsq3 p y := by
  letI := fieldNum K sq
  intro hm hN hy
  have he := eps_pos (K := K)
  have hr0 : 0 ≤ s.r := le_trans he.le h
  have hnn : 0 ≤ capAxisSq sq s p := le_trans (mul_self_nonneg _) hN.le
  have h2 := hs.sq_mul _ hnn
  have h0 := hs.nonneg _ hnn
  have hle := (cap3_mem_iff sq s p).mp hm
  have hDr : sq (capAxisSq sq s p) ≤ s.r := by
    apply le_of_mul_self_le hr0; rw [h2]; exact hle
  rcases (cap3_cases sq hs s p false h).2 with ⟨_, _, hsol⟩ | ⟨d, hd, e, hdir, _⟩
  · exact absurd hsol (by simp)
  · have hdir' := hdir hN
    rw [e]
    have hyn : 0 ≤ dsq3 y ((⟨s.a, s.b⟩ : Segment3 K).projectLoc p).1.pt := le_trans (mul_self_nonneg _) hy
    have g2 := hs.sq_mul _ hyn
    have g0 := hs.nonneg _ hyn
    have hηr : s.r ≤ sq (dsq3 y ((⟨s.a, s.b⟩ : Segment3 K).projectLoc p).1.pt) := by
      apply le_of_mul_self_le g0; rw [g2]; exact hy
    generalize sq (capAxisSq sq s p) = D at *
    generalize ((⟨s.a, s.b⟩ : Segment3 K).projectLoc p).1.pt = P at *
    have hpx : p.x = P.x + d.x * D := by have := congrArg V3.x hdir'; simp only [V3.sub, V3.smul] at this; linarith
    have hpy : p.y = P.y + d.y * D := by have := congrArg V3.y hdir'; simp only [V3.sub, V3.smul] at this; linarith
    have hpz : p.z = P.z + d.z * D := by have := congrArg V3.z hdir'; simp only [V3.sub, V3.smul] at this; linarith
    have hdy := dot_le3 d.x d.y d.z (y.x - P.x) (y.y - P.y) (y.z - P.z) 1 (sq (dsq3 y P))
      (by simpa [V3.normSq, V3.dot] using le_of_eq hd) (by rw [g2]; simp only [dsq3]; exact le_refl _) zero_le_one g0
    generalize sq (dsq3 y P) = η at *
    simp only [V3.add, V3.smul, V3.normSq, V3.dot, dsq3] at hd g2 ⊢
    rw [hpx, hpy, hpz]
    have e1 : (P.x + d.x * D - (P.x + d.x * s.r)) * (P.x + d.x * D - (P.x + d.x * s.r))
        + (P.y + d.y * D - (P.y + d.y * s.r)) * (P.y + d.y * D - (P.y + d.y * s.r))
        + (P.z + d.z * D - (P.z + d.z * s.r)) * (P.z + d.z * D - (P.z + d.z * s.r)) = (s.r - D) * (s.r - D) := by
      linear_combination ((s.r - D) * (s.r - D)) * hd
    have e2 : (P.x + d.x * D - y.x) * (P.x + d.x * D - y.x) + (P.y + d.y * D - y.y) * (P.y + d.y * D - y.y)
        + (P.z + d.z * D - y.z) * (P.z + d.z * D - y.z)
        = D * D - 2 * D * (d.x * (y.x - P.x) + d.y * (y.y - P.y) + d.z * (y.z - P.z)) + η * η := by
      linear_combination (D * D) * hd - g2
    rw [e1, e2]
    nlinarith [mul_nonneg h0 (sub_nonneg.2 (by linarith : d.x * (y.x - P.x) + d.y * (y.y - P.y) + d.z * (y.z - P.z) ≤ η)),
      mul_nonneg (sub_nonneg.2 hηr) (by linarith : 0 ≤ η + s.r - 2 * D)]

/-! ## Cylinder (model = corrected cap selection on the mid-plane, see fixes/C05-cylinder-midplane-tie.diff) -/

/-- domain: non-negative half-height, radius at least `ε` -/
def CylOk (s : Cylinder K) : Prop := 0 ≤ s.hh ∧ ((mkRat 1 4503599627370496 : ℚ) : K) ≤ s.r
/-- surface of the cylinder: a member on a cap plane or on the lateral surface -/
def CylBnd (s : Cylinder K) (x : V3 K) : Prop :=
  letI := fieldNum K sq
  s.Mem x ∧ (x.y = s.hh ∨ x.y = -s.hh ∨ x.x * x.x + x.z * x.z = s.r * s.r)

/-- the radial direction used by the code: a unit vector, equal to `(x,z)/ρ` when `ρ > ε` -/
private theorem cyl_dir (hs : LawfulSqrt sq) (x z : K) :
    letI := fieldNum K sq
    0 ≤ (⟨x, z⟩ : V2 K).norm ∧ (⟨x, z⟩ : V2 K).norm * (⟨x, z⟩ : V2 K).norm = x * x + z * z ∧
    ((if (⟨x, z⟩ : V2 K).norm ≤ eps then (⟨1, 0⟩ : V2 K) else (⟨x, z⟩ : V2 K).sdiv (⟨x, z⟩ : V2 K).norm).normSq = 1) ∧
    (((mkRat 1 4503599627370496 : ℚ) : K) < (⟨x, z⟩ : V2 K).norm →
      x = (if (⟨x, z⟩ : V2 K).norm ≤ eps then (⟨1, 0⟩ : V2 K) else (⟨x, z⟩ : V2 K).sdiv (⟨x, z⟩ : V2 K).norm).x * (⟨x, z⟩ : V2 K).norm ∧
      z = (if (⟨x, z⟩ : V2 K).norm ≤ eps then (⟨1, 0⟩ : V2 K) else (⟨x, z⟩ : V2 K).sdiv (⟨x, z⟩ : V2 K).norm).y * (⟨x, z⟩ : V2 K).norm) ∧
    ((⟨x, z⟩ : V2 K).norm ≤ ((mkRat 1 4503599627370496 : ℚ) : K) →
      (if (⟨x, z⟩ : V2 K).norm ≤ eps then (⟨1, 0⟩ : V2 K) else (⟨x, z⟩ : V2 K).sdiv (⟨x, z⟩ : V2 K).norm) = ⟨1, 0⟩) := by
  letI := fieldNum K sq
  have he := eps_pos (K := K)
  have hnn : 0 ≤ x * x + z * z := by nlinarith [mul_self_nonneg x, mul_self_nonneg z]
  have h2 := hs.sq_mul _ hnn
  have h0 := hs.nonneg _ hnn
  have hnorm : (⟨x, z⟩ : V2 K).norm = sq (x * x + z * z) := by
    simp only [V2.norm, V2.normSq, V2.dot, fieldNum_sqrt]
  have heps : (eps : K) = ((mkRat 1 4503599627370496 : ℚ) : K) := by simp only [eps, fieldNum_lit]
  by_cases c : (⟨x, z⟩ : V2 K).norm ≤ eps
  · rw [if_pos c]
    rw [hnorm, heps] at c
    rw [hnorm]
    exact ⟨h0, h2, by simp [V2.normSq, V2.dot], fun c' => absurd c (not_le.mpr c'), fun _ => rfl⟩
  · rw [if_neg c]
    rw [hnorm, heps] at c
    rw [hnorm]
    push Not at c
    have hne : sq (x * x + z * z) ≠ 0 := ne_of_gt (lt_trans he c)
    refine ⟨h0, h2, ?_, fun _ => ?_, fun c' => absurd c' (not_le.mpr c)⟩
    · simp only [V2.sdiv, V2.normSq, V2.dot]
      rw [div_mul_div_comm, div_mul_div_comm, ← add_div, h2]
      exact div_self (by rw [← h2]; exact mul_self_ne_zero.mpr hne)
    · simp only [V2.sdiv]
      exact ⟨(div_mul_cancel₀ x hne).symm, (div_mul_cancel₀ z hne).symm⟩

/-- structural description of `Cylinder::project_local_point`: radial distance `ρ`, radial unit direction `d`, and which of the
eight result shapes was produced together with the comparisons that selected it. -/
private theorem cyl_cases (hs : LawfulSqrt sq) (s : Cylinder K) (p : V3 K) (solid : Bool) :
    letI := fieldNum K sq
    ∃ (ρ : K) (d : V2 K), 0 ≤ ρ ∧ ρ * ρ = p.x * p.x + p.z * p.z ∧ d.normSq = 1 ∧
      (((mkRat 1 4503599627370496 : ℚ) : K) < ρ → p.x = d.x * ρ ∧ p.z = d.y * ρ) ∧
      (ρ ≤ ((mkRat 1 4503599627370496 : ℚ) : K) → d = ⟨1, 0⟩) ∧
      (((-s.hh ≤ p.y ∧ p.y ≤ s.hh ∧ ρ ≤ s.r) ∧ (s.project p solid).inside = true ∧
          ((solid = true ∧ (s.project p solid).pt = p) ∨
           (solid = false ∧
            (((s.project p solid).pt = ⟨p.x, s.hh, p.z⟩ ∧ s.hh - p.y ≤ p.y - (-s.hh) ∧ s.hh - p.y ≤ s.r - ρ) ∨
             ((s.project p solid).pt = ⟨p.x, -s.hh, p.z⟩ ∧ p.y - (-s.hh) ≤ s.hh - p.y ∧ p.y - (-s.hh) ≤ s.r - ρ) ∨
             ((s.project p solid).pt = ⟨d.x * s.r, p.y, d.y * s.r⟩ ∧ s.r - ρ ≤ s.hh - p.y ∧ s.r - ρ ≤ p.y - (-s.hh)))))) ∨
       (¬(-s.hh ≤ p.y ∧ p.y ≤ s.hh ∧ ρ ≤ s.r) ∧ (s.project p solid).inside = false ∧
          ((s.hh < p.y ∧ ρ ≤ s.r ∧ (s.project p solid).pt = ⟨p.x, s.hh, p.z⟩) ∨
           (s.hh < p.y ∧ s.r < ρ ∧ (s.project p solid).pt = ⟨d.x * s.r, s.hh, d.y * s.r⟩) ∨
           (p.y < -s.hh ∧ ρ ≤ s.r ∧ (s.project p solid).pt = ⟨p.x, -s.hh, p.z⟩) ∨
           (p.y < -s.hh ∧ s.r < ρ ∧ (s.project p solid).pt = ⟨d.x * s.r, -s.hh, d.y * s.r⟩) ∨
           (-s.hh ≤ p.y ∧ p.y ≤ s.hh ∧ s.r < ρ ∧ (s.project p solid).pt = ⟨d.x * s.r, p.y, d.y * s.r⟩)))) := by
  letI := fieldNum K sq
  obtain ⟨f1, f2, f3, f4, f5⟩ := cyl_dir sq hs p.x p.z
  generalize hres : s.project p solid = res
  dsimp only [Cylinder.project] at hres
  generalize (⟨p.x, p.z⟩ : V2 K).norm = ρ at *
  generalize (if ρ ≤ eps then (⟨1, 0⟩ : V2 K) else (⟨p.x, p.z⟩ : V2 K).sdiv ρ) = d at *
  refine ⟨ρ, d, f1, f2, f3, f4, f5, ?_⟩
  split_ifs at hres with c1 c2 c3 c4 c5 c6 c7 c8 <;> subst hres
  · exact Or.inl ⟨c1, rfl, Or.inl ⟨c2, rfl⟩⟩
  · exact Or.inl ⟨c1, rfl, Or.inr ⟨by simpa using c2, Or.inl ⟨rfl, c3.1, c3.2.le⟩⟩⟩
  · exact Or.inl ⟨c1, rfl, Or.inr ⟨by simpa using c2, Or.inr (Or.inl ⟨rfl, c4.1.le, c4.2.le⟩)⟩⟩
  · refine Or.inl ⟨c1, rfl, Or.inr ⟨by simpa using c2, Or.inr (Or.inr ⟨rfl, ?_, ?_⟩)⟩⟩
    · by_contra h; push Not at h
      rcases le_or_gt (s.hh - p.y) (p.y - (-s.hh)) with h' | h'
      · exact c3 ⟨h', h⟩
      · exact c4 ⟨h', by linarith⟩
    · by_contra h; push Not at h
      rcases le_or_gt (s.hh - p.y) (p.y - (-s.hh)) with h' | h'
      · exact c3 ⟨h', by linarith⟩
      · exact c4 ⟨h', h⟩
  · exact Or.inr ⟨c1, rfl, Or.inl ⟨c5, c6, rfl⟩⟩
  · exact Or.inr ⟨c1, rfl, Or.inr (Or.inl ⟨c5, not_le.mp c6, rfl⟩)⟩
  · exact Or.inr ⟨c1, rfl, Or.inr (Or.inr (Or.inl ⟨c7, c8, rfl⟩))⟩
  · exact Or.inr ⟨c1, rfl, Or.inr (Or.inr (Or.inr (Or.inl ⟨c7, not_le.mp c8, rfl⟩)))⟩
  · refine Or.inr ⟨c1, rfl, Or.inr (Or.inr (Or.inr (Or.inr ⟨not_lt.mp c7, not_lt.mp c5, ?_, rfl⟩)))⟩
    by_contra h; push Not at h
    exact c1 ⟨not_lt.mp c7, not_lt.mp c5, h⟩

private theorem cyl_rho_le (ρ r x z : K) (h0 : 0 ≤ ρ) (h2 : ρ * ρ = x * x + z * z) (hr : 0 ≤ r) :
    ρ ≤ r ↔ x * x + z * z ≤ r * r := by
  rw [← h2]
  exact ⟨fun h => mul_self_le_mul_self h0 h, fun h => le_of_mul_self_le hr h⟩

/-- **inside flag** ⇔ membership in the cylinder -/
theorem cyl_inside_iff (hs : LawfulSqrt sq) (s : Cylinder K) (p : V3 K) (solid : Bool) (hok : CylOk s) :
    letI := fieldNum K sq
    (s.project p solid).inside = true ↔ s.Mem p := by
  letI := fieldNum K sq
  have hr0 : 0 ≤ s.r := le_trans (eps_pos (K := K)).le hok.2
  obtain ⟨ρ, d, h0, h2, _, _, _, hc⟩ := cyl_cases sq hs s p solid
  have hle := cyl_rho_le ρ s.r p.x p.z h0 h2 hr0
  simp only [Cylinder.Mem]
  rcases hc with ⟨⟨c1, c2, c3⟩, hin, _⟩ | ⟨c, hin, _⟩
  · rw [hin]; exact ⟨fun _ => ⟨⟨c1, c2⟩, hle.mp c3⟩, fun _ => rfl⟩
  · rw [hin]
    exact ⟨fun h => absurd h (by simp), fun ⟨⟨a, b⟩, c'⟩ => absurd ⟨a, b, hle.mpr c'⟩ c⟩

/-- `contains_local_point` (default) ⇔ membership -/
theorem cyl_contains_iff (hs : LawfulSqrt sq) (s : Cylinder K) (p : V3 K) (hok : CylOk s) :
    letI := fieldNum K sq
    defaultContains3 (s.project) p = true ↔ s.Mem p :=
  cyl_inside_iff sq hs s p true hok

/-- **membership and boundary**: the projection is a point of the cylinder; with `solid = false`, or for an outside point, it
lies on a cap or on the lateral surface. -/
theorem cyl_project_mem (hs : LawfulSqrt sq) (s : Cylinder K) (p : V3 K) (solid : Bool) (hok : CylOk s) :
    letI := fieldNum K sq
    s.Mem (s.project p solid).pt ∧ ((solid = false ∨ ¬ s.Mem p) → CylBnd sq s (s.project p solid).pt) := by
  letI := fieldNum K sq
  have hr0 : 0 ≤ s.r := le_trans (eps_pos (K := K)).le hok.2
  have hh0 := hok.1
  have hin := cyl_inside_iff sq hs s p solid hok
  obtain ⟨ρ, d, h0, h2, hd, _, _, hc⟩ := cyl_cases sq hs s p solid
  have hle := cyl_rho_le ρ s.r p.x p.z h0 h2 hr0
  have hside : ∀ y' : K, -s.hh ≤ y' → y' ≤ s.hh → (⟨d.x * s.r, y', d.y * s.r⟩ : V3 K).x * (⟨d.x * s.r, y', d.y * s.r⟩ : V3 K).x
      + (⟨d.x * s.r, y', d.y * s.r⟩ : V3 K).z * (⟨d.x * s.r, y', d.y * s.r⟩ : V3 K).z = s.r * s.r := by
    intro y' _ _
    simp only [V2.normSq, V2.dot] at hd
    simp only []
    linear_combination (s.r * s.r) * hd
  simp only [CylBnd, Cylinder.Mem] at *
  rcases hc with ⟨⟨c1, c2, c3⟩, hi, ⟨hsol, e⟩ | ⟨hsol, ⟨e, _, _⟩ | ⟨e, _, _⟩ | ⟨e, _, _⟩⟩⟩ |
      ⟨c, hi, ⟨c1, c2, e⟩ | ⟨c1, c2, e⟩ | ⟨c1, c2, e⟩ | ⟨c1, c2, e⟩ | ⟨c1, c2, c3, e⟩⟩ <;> rw [e]
  · refine ⟨⟨⟨c1, c2⟩, hle.mp c3⟩, fun h => ?_⟩
    rcases h with h | h
    · rw [hsol] at h; exact absurd h (by simp)
    · exact absurd ⟨⟨c1, c2⟩, hle.mp c3⟩ h
  · exact ⟨⟨⟨by linarith, le_refl _⟩, hle.mp c3⟩, fun _ => ⟨⟨⟨by linarith, le_refl _⟩, hle.mp c3⟩, Or.inl rfl⟩⟩
  · exact ⟨⟨⟨le_refl _, by linarith⟩, hle.mp c3⟩, fun _ => ⟨⟨⟨le_refl _, by linarith⟩, hle.mp c3⟩, Or.inr (Or.inl rfl)⟩⟩
  · have := hside p.y c1 c2
    exact ⟨⟨⟨c1, c2⟩, le_of_eq this⟩, fun _ => ⟨⟨⟨c1, c2⟩, le_of_eq this⟩, Or.inr (Or.inr this)⟩⟩
  · exact ⟨⟨⟨by linarith, le_refl _⟩, hle.mp c2⟩, fun _ => ⟨⟨⟨by linarith, le_refl _⟩, hle.mp c2⟩, Or.inl rfl⟩⟩
  · have := hside s.hh (by linarith) (le_refl _)
    exact ⟨⟨⟨by linarith, le_refl _⟩, le_of_eq this⟩, fun _ => ⟨⟨⟨by linarith, le_refl _⟩, le_of_eq this⟩, Or.inl rfl⟩⟩
  · exact ⟨⟨⟨le_refl _, by linarith⟩, hle.mp c2⟩, fun _ => ⟨⟨⟨le_refl _, by linarith⟩, hle.mp c2⟩, Or.inr (Or.inl rfl)⟩⟩
  · have := hside (-s.hh) (le_refl _) (by linarith)
    exact ⟨⟨⟨le_refl _, by linarith⟩, le_of_eq this⟩, fun _ => ⟨⟨⟨le_refl _, by linarith⟩, le_of_eq this⟩, Or.inr (Or.inl rfl)⟩⟩
  · have := hside p.y c1 c2
    exact ⟨⟨⟨c1, c2⟩, le_of_eq this⟩, fun _ => ⟨⟨⟨c1, c2⟩, le_of_eq this⟩, Or.inr (Or.inr this)⟩⟩

/-- radial lower bound: a point at radial distance `ρ` is at least `|r - ρ|` away (in the `xz`-plane) from the circle of radius `r` -/
private theorem rad_lb (ρ r x z qx qz : K) (h0 : 0 ≤ ρ) (h2 : ρ * ρ = x * x + z * z) (hr : 0 ≤ r) (hq : qx * qx + qz * qz = r * r) :
    (r - ρ) * (r - ρ) ≤ (x - qx) * (x - qx) + (z - qz) * (z - qz) := by
  have := dot_le2 x z qx qz ρ r (le_of_eq h2.symm) (le_of_eq hq) h0 hr
  nlinarith

/-- **optimality w.r.t. the solid cylinder**: for `solid = true`, or for a point outside, no point of the cylinder is closer
(caps, rims and lateral surface). -/
theorem cyl_project_optimal (hs : LawfulSqrt sq) (s : Cylinder K) (p q : V3 K) (solid : Bool) (hok : CylOk s) :
    letI := fieldNum K sq
    s.Mem q → (solid = true ∨ ¬ s.Mem p) → dsq3 p (s.project p solid).pt ≤ dsq3 p q := by
  letI := fieldNum K sq
  intro hq hcnd
  have he := eps_pos (K := K)
  have hr0 : 0 ≤ s.r := le_trans he.le hok.2
  obtain ⟨ρ, d, h0, h2, hd, hdir, _, hc⟩ := cyl_cases sq hs s p solid
  have hle := cyl_rho_le ρ s.r p.x p.z h0 h2 hr0
  simp only [Cylinder.Mem] at hq hcnd
  obtain ⟨⟨q1, q2⟩, q3⟩ := hq
  simp only [V2.normSq, V2.dot] at hd
  have hdq := dot_le2 d.x d.y q.x q.z 1 s.r (by linarith) q3 zero_le_one hr0
  rcases hc with ⟨⟨c1, c2, c3⟩, hi, ⟨hsol, e⟩ | ⟨hsol, _⟩⟩ |
      ⟨c, hi, ⟨c1, c2, e⟩ | ⟨c1, c2, e⟩ | ⟨c1, c2, e⟩ | ⟨c1, c2, e⟩ | ⟨c1, c2, c3, e⟩⟩
  · rw [e]; simp only [dsq3]
    nlinarith [mul_self_nonneg (p.x - q.x), mul_self_nonneg (p.y - q.y), mul_self_nonneg (p.z - q.z)]
  · exfalso
    rcases hcnd with h | h
    · rw [hsol] at h; exact absurd h (by simp)
    · exact h ⟨⟨c1, c2⟩, hle.mp c3⟩
  · rw [e]; apply opt_of_var3; simp only []
    nlinarith [mul_nonneg (sub_nonneg.2 c1.le) (sub_nonneg.2 q2)]
  · obtain ⟨ex, ez⟩ := hdir (lt_of_le_of_lt hok.2 c2)
    rw [e]; apply opt_of_var3; simp only []
    rw [ex, ez]
    have e1 : (d.x * ρ - d.x * s.r) * (q.x - d.x * s.r) + (p.y - s.hh) * (q.y - s.hh) + (d.y * ρ - d.y * s.r) * (q.z - d.y * s.r)
        = (ρ - s.r) * ((d.x * q.x + d.y * q.z) - s.r) + (p.y - s.hh) * (q.y - s.hh) := by
      linear_combination (-(ρ - s.r) * s.r) * hd
    rw [e1]
    nlinarith [mul_nonneg (sub_nonneg.2 c1.le) (sub_nonneg.2 q2), mul_nonneg (sub_nonneg.2 c2.le) (sub_nonneg.2 hdq)]
  · rw [e]; apply opt_of_var3; simp only []
    nlinarith [mul_nonneg (sub_nonneg.2 c1.le) (sub_nonneg.2 q1)]
  · obtain ⟨ex, ez⟩ := hdir (lt_of_le_of_lt hok.2 c2)
    rw [e]; apply opt_of_var3; simp only []
    rw [ex, ez]
    have e1 : (d.x * ρ - d.x * s.r) * (q.x - d.x * s.r) + (p.y - -s.hh) * (q.y - -s.hh) + (d.y * ρ - d.y * s.r) * (q.z - d.y * s.r)
        = (ρ - s.r) * ((d.x * q.x + d.y * q.z) - s.r) + (p.y - -s.hh) * (q.y - -s.hh) := by
      linear_combination (-(ρ - s.r) * s.r) * hd
    rw [e1]
    nlinarith [mul_nonneg (sub_nonneg.2 c1.le) (sub_nonneg.2 q1), mul_nonneg (sub_nonneg.2 c2.le) (sub_nonneg.2 hdq)]
  · obtain ⟨ex, ez⟩ := hdir (lt_of_le_of_lt hok.2 c3)
    rw [e]; apply opt_of_var3; simp only []
    rw [ex, ez]
    have e1 : (d.x * ρ - d.x * s.r) * (q.x - d.x * s.r) + (p.y - p.y) * (q.y - p.y) + (d.y * ρ - d.y * s.r) * (q.z - d.y * s.r)
        = (ρ - s.r) * ((d.x * q.x + d.y * q.z) - s.r) := by
      linear_combination (-(ρ - s.r) * s.r) * hd
    rw [e1]
    nlinarith [mul_nonneg (sub_nonneg.2 c3.le) (sub_nonneg.2 hdq)]

/-- **optimality w.r.t. the surface** (any flag; this is the clause for `solid = false` and an interior point): no point of the
caps or of the lateral surface is closer than the projection.  Hypothesis: the radial distance is `0` or `> ε`
(for `0 < ρ ≤ ε` the code substitutes the direction `(1,0)`, which is optimal only up to `2ε`). -/
theorem cyl_project_optimal_boundary (hs : LawfulSqrt sq) (s : Cylinder K) (p q : V3 K) (solid : Bool) (hok : CylOk s) :
    letI := fieldNum K sq
    CylBnd sq s q →
    (p.x * p.x + p.z * p.z = 0 ∨ ((mkRat 1 4503599627370496 : ℚ) : K) * ((mkRat 1 4503599627370496 : ℚ) : K) < p.x * p.x + p.z * p.z) →
    dsq3 p (s.project p solid).pt ≤ dsq3 p q := by
  letI := fieldNum K sq
  intro hq hrad
  by_cases hcnd : solid = true ∨ ¬ s.Mem p
  · exact cyl_project_optimal sq hs s p q solid hok hq.1 hcnd
  · push Not at hcnd
    have he := eps_pos (K := K)
    have hr0 : 0 ≤ s.r := le_trans he.le hok.2
    obtain ⟨ρ, d, h0, h2, hd, hdir, hd1, hc⟩ := cyl_cases sq hs s p solid
    have hle := cyl_rho_le ρ s.r p.x p.z h0 h2 hr0
    simp only [CylBnd, Cylinder.Mem] at hq hcnd
    obtain ⟨⟨⟨q1, q2⟩, q3⟩, hf⟩ := hq
    obtain ⟨hsol, ⟨m1, m2⟩, m3⟩ := hcnd
    simp only [V2.normSq, V2.dot] at hd
    -- every surface point is at least as far as each of the three candidate distances
    have key : ∀ δ : K, 0 ≤ δ → δ ≤ s.hh - p.y → δ ≤ p.y - (-s.hh) → δ ≤ s.r - ρ → δ * δ ≤ dsq3 p q := by
      intro δ hδ a1 a2 a3
      simp only [dsq3]
      have sx := mul_self_nonneg (p.x - q.x); have sy := mul_self_nonneg (p.y - q.y); have sz := mul_self_nonneg (p.z - q.z)
      rcases hf with e | e | e
      · have : δ * δ ≤ (p.y - q.y) * (p.y - q.y) := by rw [e]; have := mul_self_le_mul_self hδ a1; nlinarith
        linarith
      · have : δ * δ ≤ (p.y - q.y) * (p.y - q.y) := by rw [e]; have := mul_self_le_mul_self hδ a2; nlinarith
        linarith
      · have h1 := rad_lb ρ s.r p.x p.z q.x q.z h0 h2 hr0 e
        have h3 := mul_self_le_mul_self hδ a3
        linarith
    rcases hc with ⟨⟨c1, c2, c3⟩, hi, ⟨hs', _⟩ | ⟨_, ⟨e, b1, b2⟩ | ⟨e, b1, b2⟩ | ⟨e, b1, b2⟩⟩⟩ | ⟨c, _, _⟩
    · rw [hs'] at hsol; exact absurd hsol (by simp)
    · rw [e]
      have := key (s.hh - p.y) (by linarith) (le_refl _) b1 b2
      simp only [dsq3] at this ⊢
      nlinarith
    · rw [e]
      have := key (p.y - (-s.hh)) (by linarith) b1 (le_refl _) b2
      simp only [dsq3] at this ⊢
      nlinarith
    · rw [e]
      have := key (s.r - ρ) (by linarith) b1 b2 (le_refl _)
      have hd2 : dsq3 p (⟨d.x * s.r, p.y, d.y * s.r⟩ : V3 K) = (s.r - ρ) * (s.r - ρ) := by
        rcases hrad with hz | hz
        · have hρ : ρ = 0 := by
            have : ρ * ρ = 0 := by rw [h2, hz]
            exact mul_self_eq_zero.mp this
          obtain ⟨ex, ez⟩ := sumsq2_eq_zero (le_of_eq hz)
          have hd' := hd1 (by rw [hρ]; exact he.le)
          rw [hd', hρ]; simp only [dsq3]; rw [ex, ez]; ring
        · have hlt : ((mkRat 1 4503599627370496 : ℚ) : K) < ρ := by
            by_contra hcon; push Not at hcon
            have := mul_self_le_mul_self h0 hcon
            rw [h2] at this; linarith
          obtain ⟨ex, ez⟩ := hdir hlt
          simp only [dsq3]
          rw [ex, ez]
          linear_combination ((ρ - s.r) * (ρ - s.r)) * hd
      rw [hd2]; exact this
    · exact absurd ⟨m1, m2, hle.mpr m3⟩ c

example : CylOk (⟨1/10, 10⟩ : Cylinder ℚ) ∧ CylBnd (fun x => x) (⟨1/10, 10⟩ : Cylinder ℚ) ⟨0, 1/10, 0⟩ := by
  simp only [CylOk, CylBnd, Cylinder.Mem]; norm_num

/-! ## Negated theorem on the pinned tree (cylinder defect) -/

/-- **negated theorem for the pinned tree** (cylinder): flat cylinder `hh = 1/10`, `r = 10`, query point at the centre,
`solid = false`: the pinned cap selection (both tests strict) returns the lateral point `(10,0,0)` at distance `10`, although
the cap point `(0,1/10,0)` returned by the corrected model is at distance `1/10`.  (`sqrt` is only evaluated at `0` here.) -/
theorem cyl_pinned_not_nearest :
    (@Cylinder.projectPinned ℚ (fieldNum ℚ (fun _ => 0)) (⟨1/10, 10⟩ : Cylinder ℚ) (⟨0, 0, 0⟩ : V3 ℚ) false).pt = ⟨10, 0, 0⟩ ∧
    (@Cylinder.project ℚ (fieldNum ℚ (fun _ => 0)) (⟨1/10, 10⟩ : Cylinder ℚ) (⟨0, 0, 0⟩ : V3 ℚ) false).pt = ⟨0, 1/10, 0⟩ := by
  constructor
  · simp only [Cylinder.projectPinned, V2.norm, V2.normSq, V2.dot, fieldNum_sqrt, eps, fieldNum_lit, V2.smul]
    norm_num
  · simp only [Cylinder.project, V2.norm, V2.normSq, V2.dot, fieldNum_sqrt, eps, fieldNum_lit, V2.smul]
    norm_num


--2D-BEGIN  (generated by tools/c05_gen2d.py from the 3-D blocks above: do not edit by hand)
/-! ## Segment (2-D) -/

/-- **membership**: the projection is a point `a + t (b - a)`, `t ∈ [0,1]` of the segment. -/
theorem seg2_project_mem (s : Segment2 K) (p : V2 K) :
    letI := fieldNum K sq
    s.Mem (s.projectLoc p).1.pt := by
  letI := fieldNum K sq
  simp only [Segment2.projectLoc, Segment2.Mem]
  split_ifs with h1 h2
  · exact ⟨0, le_refl _, zero_le_one, v2_ext (by simp [V2.add, V2.smul]) (by simp [V2.add, V2.smul])⟩
  · exact ⟨1, zero_le_one, le_refl _, v2_ext (by simp [V2.add, V2.smul, V2.sub]) (by simp [V2.add, V2.smul, V2.sub])⟩
  · push Not at h1 h2
    have hpos : 0 < (s.b.sub s.a).normSq := lt_trans h1 h2
    exact ⟨_, div_nonneg h1.le hpos.le, (div_le_one hpos).mpr h2.le, rfl⟩

/-- **variational inequality**: `⟨p - proj, q - proj⟩ ≤ 0` for every point `q` of the segment. -/
theorem seg2_project_variational (s : Segment2 K) (p q : V2 K) :
    letI := fieldNum K sq
    s.Mem q → ((p.sub (s.projectLoc p).1.pt).dot (q.sub (s.projectLoc p).1.pt)) ≤ 0 := by
  letI := fieldNum K sq
  intro hq
  obtain ⟨t, ht0, ht1, rfl⟩ := hq
  simp only [Segment2.projectLoc]
  split_ifs with h1 h2
  · simp only [V2.dot, V2.sub, V2.add, V2.smul, V2.normSq] at *
    nlinarith [mul_nonneg ht0 (neg_nonneg.mpr h1)]
  · simp only [V2.dot, V2.sub, V2.add, V2.smul, V2.normSq] at *
    nlinarith [mul_nonneg (sub_nonneg.mpr ht1) (sub_nonneg.mpr h2)]
  · push Not at h1 h2
    have hpos : 0 < (s.b.sub s.a).normSq := lt_trans h1 h2
    have hu := div_mul_cancel₀ ((s.b.sub s.a).dot (p.sub s.a)) (ne_of_gt hpos)
    generalize (s.b.sub s.a).dot (p.sub s.a) / (s.b.sub s.a).normSq = u at hu
    simp only [V2.dot, V2.sub, V2.add, V2.smul, V2.normSq] at *
    apply le_of_eq
    linear_combination (u - t) * hu

/-- **optimality**: no point of the segment is closer to `p` than the projection. -/
theorem seg2_project_optimal (s : Segment2 K) (p q : V2 K) :
    letI := fieldNum K sq
    s.Mem q → dsq2 p (s.projectLoc p).1.pt ≤ dsq2 p q := by
  letI := fieldNum K sq
  intro hq
  have h := seg2_project_variational sq s p q hq
  simp only [V2.dot, V2.sub] at h
  exact opt_of_var2 _ _ _ _ _ _ h


/-- **location**: the reported `SegmentPointLocation` reproduces the projection — `OnVertex(i)` is vertex `i`,
`OnEdge([b0,b1])` has non-negative barycentric coordinates summing to one with `proj = b0·a + b1·b`. -/
theorem seg2_location_sound (s : Segment2 K) (p : V2 K) :
    letI := fieldNum K sq
    match (s.projectLoc p).2 with
    | .vertex i => (i = 0 ∧ (s.projectLoc p).1.pt = s.a) ∨ (i = 1 ∧ (s.projectLoc p).1.pt = s.b)
    | .edge b0 b1 => 0 ≤ b0 ∧ 0 ≤ b1 ∧ b0 + b1 = 1 ∧ (s.projectLoc p).1.pt = (s.a.smul b0).add (s.b.smul b1) := by
  letI := fieldNum K sq
  simp only [Segment2.projectLoc]
  split_ifs with h1 h2
  · simp
  · simp
  · push Not at h1 h2
    have hpos : 0 < (s.b.sub s.a).normSq := lt_trans h1 h2
    have hu0 : 0 ≤ (s.b.sub s.a).dot (p.sub s.a) / (s.b.sub s.a).normSq := div_nonneg h1.le hpos.le
    have hu1 : (s.b.sub s.a).dot (p.sub s.a) / (s.b.sub s.a).normSq ≤ 1 := (div_le_one hpos).mpr h2.le
    refine ⟨by linarith, hu0, by ring, ?_⟩
    generalize (s.b.sub s.a).dot (p.sub s.a) / (s.b.sub s.a).normSq = u
    apply v2_ext <;> simp only [V2.add, V2.smul, V2.sub] <;> ring

/-- **inside flag, exact part**: a point of the segment is its own projection and is reported inside. -/
theorem seg2_inside_of_mem (s : Segment2 K) (p : V2 K) :
    letI := fieldNum K sq
    s.Mem p → (s.projectLoc p).1.pt = p ∧ (s.projectLoc p).1.inside = true := by
  letI := fieldNum K sq
  intro hp
  have h := seg2_project_optimal sq s p p hp
  have hpt : (@Segment2.projectLoc K (fieldNum K sq) s p).1.pt = p := by
    simp only [dsq2] at h
    have h0 : (p.x - p.x) * (p.x - p.x) + (p.y - p.y) * (p.y - p.y) = (0 : K) := by ring
    rw [h0] at h
    obtain ⟨hx, hy⟩ := sumsq2_eq_zero h
    exact (v2_ext (by linarith) (by linarith)).symm
  refine ⟨hpt, ?_⟩
  have hin : (@Segment2.projectLoc K (fieldNum K sq) s p).1.inside
      = @V2.relEq K (fieldNum K sq) (@Segment2.projectLoc K (fieldNum K sq) s p).1.pt p := by
    simp only [Segment2.projectLoc]
    split_ifs <;> rfl
  rw [hin, hpt]
  simp [V2.relEq, relEq, neq]

/-- **inside flag, tolerance part**: `is_inside` is `relative_eq!(proj, pt)` — true exactly when every coordinate of
the projection is within `ε` (absolute or relative) of the query point. -/
theorem seg2_inside_iff_close (s : Segment2 K) (p : V2 K) :
    letI := fieldNum K sq
    (s.projectLoc p).1.inside = true ↔
      (RelClose (s.projectLoc p).1.pt.x p.x ∧ RelClose (s.projectLoc p).1.pt.y p.y) := by
  letI := fieldNum K sq
  have hin : (@Segment2.projectLoc K (fieldNum K sq) s p).1.inside
      = @V2.relEq K (fieldNum K sq) (@Segment2.projectLoc K (fieldNum K sq) s p).1.pt p := by
    simp only [Segment2.projectLoc]
    split_ifs <;> rfl
  rw [hin]
  simp only [V2.relEq, Bool.and_eq_true, relEq_iff, and_assoc]


/-! ## Ball (2-D) (model = corrected behaviour at the centre, see fixes/C05-ball-center-nan.diff) -/

/-- **inside flag**: `is_inside ⇔ |p|² ≤ r²`, for both `solid` flags and also at the centre. -/
theorem ball2_inside_iff (s : Ball K) (p : V2 K) (solid : Bool) :
    letI := fieldNum K sq
    (s.project2 p solid).inside = true ↔ s.Mem2 p := by
  letI := fieldNum K sq
  simp only [Ball.project2, Ball.Mem2]
  split_ifs <;> simp_all

/-- `contains_local_point ⇔ Mem` -/
theorem ball2_contains_iff (s : Ball K) (p : V2 K) :
    letI := fieldNum K sq
    s.contains2 p = true ↔ s.Mem2 p := by
  simp [Ball.contains2, Ball.Mem2]

/-- key computation: off the `solid ∧ inside` branch the projection is on the sphere and `|p - proj|² = (|p| - r)²`. -/
private theorem ball2_core (hs : LawfulSqrt sq) (s : Ball K) (p : V2 K) (solid : Bool) :
    letI := fieldNum K sq
    (solid = false ∨ ¬ s.Mem2 p) →
      (s.project2 p solid).pt.normSq = s.r * s.r ∧
      dsq2 p (s.project2 p solid).pt = (sq p.normSq - s.r) * (sq p.normSq - s.r) := by
  letI := fieldNum K sq
  intro h
  have hnn : 0 ≤ p.normSq := by
    simp only [V2.normSq, V2.dot]; nlinarith [mul_self_nonneg p.x, mul_self_nonneg p.y]
  have hd2 := hs.sq_mul _ hnn
  have hd0 := hs.nonneg _ hnn
  simp only [Ball.project2, Ball.Mem2] at *
  split_ifs with c1 c2
  · simp at c1; rcases h with h | h
    · simp [h] at c1
    · exact absurd c1.1 h
  · simp only [neq, Bool.and_eq_true, decide_eq_true_eq] at c2
    have hz : p.normSq = 0 := le_antisymm c2.1 c2.2
    have hd : sq p.normSq = 0 := by
      have : sq p.normSq * sq p.normSq = 0 := by rw [hd2, hz]
      exact mul_self_eq_zero.mp this
    simp only [V2.normSq, V2.dot] at hz
    obtain ⟨hx, hy⟩ := sumsq2_eq_zero (le_of_eq hz)
    refine ⟨by simp [V2.normSq, V2.dot], ?_⟩
    rw [hd]; simp only [dsq2, hx, hy]; ring
  · have hne : p.normSq ≠ 0 := by
      intro h0; apply c2; simp [neq, h0]
    have hdne : sq p.normSq ≠ 0 := by
      intro h0; rw [h0] at hd2; exact hne (by linarith)
    have hk := div_mul_cancel₀ s.r hdne
    generalize s.r / sq p.normSq = k at hk
    generalize sq p.normSq = d at *
    simp only [V2.normSq, V2.dot, V2.smul, dsq2] at *
    refine ⟨?_, ?_⟩
    · linear_combination (k * k) * (-hd2) + (k * d + s.r) * hk
    · linear_combination ((1 - k) * (1 - k)) * (-hd2) - (2 * d - k * d - s.r) * hk

/-- **boundary**: when `solid = false` or the point is outside, the projection lies on the sphere `|x|² = r²`. -/
theorem ball2_project_on_sphere (hs : LawfulSqrt sq) (s : Ball K) (p : V2 K) (solid : Bool) :
    letI := fieldNum K sq
    (solid = false ∨ ¬ s.Mem2 p) → (s.project2 p solid).pt.normSq = s.r * s.r :=
  fun h => (ball2_core sq hs s p solid h).1

/-- **membership**: the projection is a point of the ball. -/
theorem ball2_project_mem (hs : LawfulSqrt sq) (s : Ball K) (p : V2 K) (solid : Bool) :
    letI := fieldNum K sq
    s.Mem2 (s.project2 p solid).pt := by
  letI := fieldNum K sq
  by_cases h : solid = false ∨ ¬ s.Mem2 p
  · exact le_of_eq (ball2_project_on_sphere sq hs s p solid h)
  · push Not at h
    have h1 : solid = true := by simpa using h.1
    have h2 := h.2
    simp only [Ball.project2, Ball.Mem2] at *
    simp [h1, h2]

/-- **optimality w.r.t. the sphere** (both flags, inside or outside): no point of the sphere is closer than the projection. -/
theorem ball2_project_optimal_boundary (hs : LawfulSqrt sq) (s : Ball K) (p q : V2 K) (solid : Bool) :
    letI := fieldNum K sq
    0 ≤ s.r → q.normSq = s.r * s.r → dsq2 p (s.project2 p solid).pt ≤ dsq2 p q := by
  letI := fieldNum K sq
  intro hr hq
  by_cases h : solid = false ∨ ¬ s.Mem2 p
  · rw [(ball2_core sq hs s p solid h).2]
    have hnn : 0 ≤ p.normSq := by
      simp only [V2.normSq, V2.dot]; nlinarith [mul_self_nonneg p.x, mul_self_nonneg p.y]
    have hd2 := hs.sq_mul _ hnn
    have hd0 := hs.nonneg _ hnn
    have hdot := dot_le2 p.x p.y q.x q.y (sq p.normSq) s.r (by simpa [V2.normSq, V2.dot] using le_of_eq hd2.symm)
      (by simpa [V2.normSq, V2.dot] using le_of_eq hq) hd0 hr
    generalize sq p.normSq = d at *
    simp only [V2.normSq, V2.dot, dsq2] at *
    nlinarith
  · push Not at h
    have h1 : solid = true := by simpa using h.1
    have h2 := h.2
    have : (@Ball.project2 K (fieldNum K sq) s p solid).pt = p := by
      simp only [Ball.project2, Ball.Mem2] at *
      simp [h1, h2]
    rw [this]
    simp only [dsq2]
    nlinarith [mul_self_nonneg (p.x - q.x), mul_self_nonneg (p.y - q.y)]

/-- **optimality w.r.t. the solid ball**: for `solid = true`, or for an outside point, no point of the ball is closer. -/
theorem ball2_project_optimal (hs : LawfulSqrt sq) (s : Ball K) (p q : V2 K) (solid : Bool) :
    letI := fieldNum K sq
    0 ≤ s.r → s.Mem2 q → (solid = true ∨ ¬ s.Mem2 p) → dsq2 p (s.project2 p solid).pt ≤ dsq2 p q := by
  letI := fieldNum K sq
  intro hr hq hc
  by_cases h2 : s.Mem2 p
  · have h1 : solid = true := by rcases hc with h | h; exact h; exact absurd h2 h
    have : (@Ball.project2 K (fieldNum K sq) s p solid).pt = p := by
      simp only [Ball.project2, Ball.Mem2] at *
      simp [h1, h2]
    rw [this]
    simp only [dsq2]
    nlinarith [mul_self_nonneg (p.x - q.x), mul_self_nonneg (p.y - q.y)]
  · rw [(ball2_core sq hs s p solid (Or.inr h2)).2]
    have hnn : 0 ≤ p.normSq := by
      simp only [V2.normSq, V2.dot]; nlinarith [mul_self_nonneg p.x, mul_self_nonneg p.y]
    have hd2 := hs.sq_mul _ hnn
    have hd0 := hs.nonneg _ hnn
    have hdot := dot_le2 p.x p.y q.x q.y (sq p.normSq) s.r (by simpa [V2.normSq, V2.dot] using le_of_eq hd2.symm)
      (by simpa [Ball.Mem2, V2.normSq, V2.dot] using hq) hd0 hr
    have hrd : s.r ≤ sq p.normSq := by
      apply le_of_mul_self_le hd0
      rw [hd2]; simp only [Ball.Mem2] at h2; exact le_of_lt (not_le.mp h2)
    have hqn : 0 ≤ q.normSq := by
      simp only [V2.normSq, V2.dot]; nlinarith [mul_self_nonneg q.x, mul_self_nonneg q.y]
    have he2 := hs.sq_mul _ hqn
    have he0 := hs.nonneg _ hqn
    have her : sq q.normSq ≤ s.r := by
      apply le_of_mul_self_le hr
      rw [he2]; exact hq
    have hdot' := dot_le2 p.x p.y q.x q.y (sq p.normSq) (sq q.normSq)
      (by simpa [V2.normSq, V2.dot] using le_of_eq hd2.symm) (by simpa [V2.normSq, V2.dot] using le_of_eq he2.symm) hd0 he0
    generalize sq p.normSq = d at *
    generalize sq q.normSq = e at *
    simp only [Ball.Mem2, V2.normSq, V2.dot, dsq2] at *
    nlinarith [mul_nonneg (sub_nonneg.2 her) (by linarith : 0 ≤ 2 * d - e - s.r)]


/-- **distance**: `distance_to_local_point` has the magnitude `|p - proj|` and is negative exactly for interior
points with `solid = false`; it is `0` for inside points when `solid = true`. -/
theorem ball2_distance_spec (hs : LawfulSqrt sq) (s : Ball K) (p : V2 K) (solid : Bool) :
    letI := fieldNum K sq
    0 ≤ s.r →
      s.distance2 p solid * s.distance2 p solid = dsq2 p (s.project2 p solid).pt ∧
      (s.distance2 p solid < 0 ↔ (solid = false ∧ p.normSq < s.r * s.r)) := by
  letI := fieldNum K sq
  intro hr
  have hnn : 0 ≤ p.normSq := by
    simp only [V2.normSq, V2.dot]; nlinarith [mul_self_nonneg p.x, mul_self_nonneg p.y]
  have hd2 := hs.sq_mul _ hnn
  have hd0 := hs.nonneg _ hnn
  have hlt : sq p.normSq - s.r < 0 ↔ p.normSq < s.r * s.r := by
    constructor
    · intro h; rw [← hd2]; nlinarith
    · intro h; rw [← hd2] at h; by_contra hc; push Not at hc; nlinarith
  by_cases h : solid = false ∨ ¬ s.Mem2 p
  · have e := (ball2_core sq hs s p solid h).2
    rw [e]
    simp only [Ball.distance2, V2.norm, fieldNum_sqrt]
    rcases h with h | h
    · subst h; simpa using hlt
    · have h3 : ¬ (sq p.normSq - s.r < 0) := by
        rw [hlt]; simp only [Ball.Mem2] at h; push Not at h ⊢; exact h.le
      have h4 : ¬ (p.normSq < s.r * s.r) := by rwa [← hlt]
      simp [h3, h4]
  · push Not at h
    have h1 : solid = true := by simpa using h.1
    have h2 := h.2
    have hp : (@Ball.project2 K (fieldNum K sq) s p solid).pt = p := by
      simp only [Ball.project2, Ball.Mem2] at *
      simp [h1, h2]
    rw [hp]
    subst h1
    simp only [Ball.distance2, V2.norm, Ball.Mem2, fieldNum_sqrt] at *
    by_cases h3 : sq p.normSq - s.r < 0
    · simp [h3, dsq2]
    · have h5 : sq p.normSq - s.r = 0 := by
        have h6 : ¬ (p.normSq < s.r * s.r) := by rwa [← hlt]
        have h7 : p.normSq = s.r * s.r := le_antisymm h2 (not_lt.mp h6)
        have h4 : sq p.normSq * sq p.normSq = s.r * s.r := by rw [hd2, h7]
        have := le_of_mul_self_le hr (le_of_eq h4)
        push Not at h3; linarith
      simp [h5, dsq2]


/-! ## HalfSpace (2-D) `{x | n·x ≤ 0}` with a unit normal -/

/-- **inside flag** -/
theorem hs2_inside_iff (s : HalfSpace2 K) (p : V2 K) (solid : Bool) :
    letI := fieldNum K sq
    (s.project p solid).inside = true ↔ s.Mem p := by
  letI := fieldNum K sq
  simp only [HalfSpace2.project, HalfSpace2.Mem]
  split_ifs <;> simp_all

theorem hs2_contains_iff (s : HalfSpace2 K) (p : V2 K) :
    letI := fieldNum K sq
    s.contains p = true ↔ s.Mem p := by
  simp [HalfSpace2.contains, HalfSpace2.Mem]

/-- **boundary**: when `solid = false` or the point is outside, the projection is on the plane `n·x = 0`. -/
theorem hs2_project_on_plane (s : HalfSpace2 K) (p : V2 K) (solid : Bool) :
    letI := fieldNum K sq
    s.n.normSq = 1 → (solid = false ∨ ¬ s.Mem p) → s.n.dot (s.project p solid).pt = 0 := by
  letI := fieldNum K sq
  intro hn h
  simp only [HalfSpace2.project, HalfSpace2.Mem] at *
  split_ifs with c
  · simp at c; rcases h with h | h
    · simp [h] at c
    · exact absurd c.1 h
  · simp only [V2.dot, V2.add, V2.smul, V2.neg, V2.normSq] at *
    linear_combination (-(s.n.x * p.x + s.n.y * p.y)) * hn

/-- **membership** -/
theorem hs2_project_mem (s : HalfSpace2 K) (p : V2 K) (solid : Bool) :
    letI := fieldNum K sq
    s.n.normSq = 1 → s.Mem (s.project p solid).pt := by
  letI := fieldNum K sq
  intro hn
  by_cases h : solid = false ∨ ¬ s.Mem p
  · exact le_of_eq (hs2_project_on_plane sq s p solid hn h)
  · push Not at h
    have h1 : solid = true := by simpa using h.1
    have h2 := h.2
    simp only [HalfSpace2.project, HalfSpace2.Mem] at *
    simp [h1, h2]

/-- **optimality w.r.t. the boundary plane** (both flags) -/
theorem hs2_project_optimal_boundary (s : HalfSpace2 K) (p q : V2 K) (solid : Bool) :
    letI := fieldNum K sq
    s.n.normSq = 1 → s.n.dot q = 0 → dsq2 p (s.project p solid).pt ≤ dsq2 p q := by
  letI := fieldNum K sq
  intro hn hq
  simp only [HalfSpace2.project]
  split_ifs with c
  · simp only [dsq2]
    nlinarith [mul_self_nonneg (p.x - q.x), mul_self_nonneg (p.y - q.y)]
  · apply opt_of_var2
    simp only [V2.dot, V2.add, V2.smul, V2.neg, V2.normSq] at *
    apply le_of_eq
    linear_combination ((s.n.x * p.x + s.n.y * p.y)^2) * hn
      + (s.n.x * p.x + s.n.y * p.y) * hq

/-- **optimality w.r.t. the half-space**: for `solid = true`, or for an outside point, no member is closer. -/
theorem hs2_project_optimal (s : HalfSpace2 K) (p q : V2 K) (solid : Bool) :
    letI := fieldNum K sq
    s.n.normSq = 1 → s.Mem q → (solid = true ∨ ¬ s.Mem p) → dsq2 p (s.project p solid).pt ≤ dsq2 p q := by
  letI := fieldNum K sq
  intro hn hq hc
  simp only [HalfSpace2.project, HalfSpace2.Mem] at *
  split_ifs with c
  · simp only [dsq2]
    nlinarith [mul_self_nonneg (p.x - q.x), mul_self_nonneg (p.y - q.y)]
  · have hd : 0 < s.n.dot p := by
      rcases hc with h | h
      · simp [h] at c; exact c
      · exact not_le.mp h
    apply opt_of_var2
    simp only [V2.dot, V2.add, V2.smul, V2.neg, V2.normSq] at *
    have e : (p.x - (p.x + -s.n.x * (s.n.x * p.x + s.n.y * p.y))) * (q.x - (p.x + -s.n.x * (s.n.x * p.x + s.n.y * p.y)))
        + (p.y - (p.y + -s.n.y * (s.n.x * p.x + s.n.y * p.y))) * (q.y - (p.y + -s.n.y * (s.n.x * p.x + s.n.y * p.y)))
        = (s.n.x * p.x + s.n.y * p.y) * (s.n.x * q.x + s.n.y * q.y) := by
      linear_combination ((s.n.x * p.x + s.n.y * p.y)^2) * hn
    rw [e]
    exact mul_nonpos_of_nonneg_of_nonpos hd.le hq


/-- **distance**: magnitude `|p - proj|`, negative exactly for strictly interior points with `solid = false`. -/
theorem hs2_distance_spec (s : HalfSpace2 K) (p : V2 K) (solid : Bool) :
    letI := fieldNum K sq
    s.n.normSq = 1 →
      s.distance p solid * s.distance p solid = dsq2 p (s.project p solid).pt ∧
      (s.distance p solid < 0 ↔ (solid = false ∧ s.n.dot p < 0)) := by
  letI := fieldNum K sq
  intro hn
  simp only [HalfSpace2.distance, HalfSpace2.project]
  have key : ∀ d : K, d = s.n.dot p → dsq2 p (p.add (s.n.neg.smul d)) = d * d := by
    intro d hd
    simp only [V2.dot, V2.add, V2.smul, V2.neg, V2.normSq, dsq2] at *
    linear_combination (d * d) * hn
  cases solid
  · simp [key _ rfl]
  · by_cases h : s.n.dot p < 0
    · have h' : s.n.dot p ≤ 0 := h.le
      simp [h, h', dsq2]
    · by_cases h2 : s.n.dot p ≤ 0
      · have h3 : s.n.dot p = 0 := le_antisymm h2 (not_lt.mp h)
        simp [h, h2, dsq2, h3]
      · simp [h, h2, key _ rfl]


/-! ## (2-D) Default methods of `PointQuery` and posed forms (generic in the shape's `project_local_point`) -/

/-- **`distance_to_local_point` (default)**: magnitude `|p - proj|`; negative only if `solid = false` and the projection
reports `is_inside`; and then it *is* negative unless `proj = p`.  Together with the `*_inside_iff` theorems this is
"the sign of the distance agrees with membership". -/
theorem default_distance_spec2 (hs : LawfulSqrt sq) (project : V2 K → Bool → PP2 K) (p : V2 K) (solid : Bool) :
    letI := fieldNum K sq
    defaultDistance2 project p solid * defaultDistance2 project p solid = dsq2 p (project p solid).pt ∧
    (defaultDistance2 project p solid < 0 → solid = false ∧ (project p solid).inside = true) ∧
    (solid = false → (project p solid).inside = true → (project p solid).pt ≠ p → defaultDistance2 project p solid < 0) := by
  letI := fieldNum K sq
  have hnn : 0 ≤ ((project p solid).pt.sub p).normSq := by
    simp only [V2.normSq, V2.dot]
    nlinarith [mul_self_nonneg ((project p solid).pt.sub p).x, mul_self_nonneg ((project p solid).pt.sub p).y]
  have h2 := hs.sq_mul _ hnn
  have h0 := hs.nonneg _ hnn
  have hd : ((project p solid).pt.sub p).normSq = dsq2 p (project p solid).pt := by
    simp only [V2.normSq, V2.dot, V2.sub, dsq2]; ring
  simp only [defaultDistance2, V2.norm, fieldNum_sqrt]
  refine ⟨?_, ?_, ?_⟩
  · split_ifs <;> rw [← hd] <;> linear_combination h2
  · split_ifs with c
    · intro h; exact absurd h (not_lt.mpr h0)
    · intro _
      simp only [Bool.or_eq_true, Bool.not_eq_true', not_or, Bool.not_eq_false] at c
      exact ⟨by simpa using c.1, c.2⟩
  · intro h1 h2' h3
    subst h1
    simp only [h2', Bool.false_or, Bool.not_true, Bool.false_eq_true, if_false]
    have hpos : 0 < sq ((project p false).pt.sub p).normSq := by
      rcases lt_or_eq_of_le h0 with h | h
      · exact h
      · exfalso
        apply h3
        rw [← h] at h2
        have hz : ((project p false).pt.sub p).normSq = 0 := by linarith
        simp only [V2.normSq, V2.dot, V2.sub] at hz
        obtain ⟨ex, ey⟩ := sumsq2_eq_zero (le_of_eq hz)
        exact v2_ext (by linarith) (by linarith)
    linarith

/-- **`contains_local_point` (default)** is the inside flag of the solid projection -/
theorem default_contains_spec2 (project : V2 K → Bool → PP2 K) (p : V2 K) :
    letI := fieldNum K sq
    defaultContains2 project p = (project p true).inside := rfl

/-- **`project_local_point_with_max_dist` (default)**: `None` exactly when the projection is farther than `max_dist`. -/
theorem default_maxdist_spec2 (hs : LawfulSqrt sq) (project : V2 K → Bool → PP2 K) (p : V2 K) (solid : Bool) (m : K) :
    letI := fieldNum K sq
    0 ≤ m →
    ((defaultMaxDist2 project p solid m = none ↔ m * m < dsq2 p (project p solid).pt) ∧
     (∀ r, defaultMaxDist2 project p solid m = some r → r = project p solid)) := by
  letI := fieldNum K sq
  intro hm
  have hnn : 0 ≤ (p.sub (project p solid).pt).normSq := by
    simp only [V2.normSq, V2.dot]
    nlinarith [mul_self_nonneg (p.sub (project p solid).pt).x, mul_self_nonneg (p.sub (project p solid).pt).y]
  have h2 := hs.sq_mul _ hnn
  have h0 := hs.nonneg _ hnn
  have hd : (p.sub (project p solid).pt).normSq = dsq2 p (project p solid).pt := by
    simp only [V2.normSq, V2.dot, V2.sub, dsq2]
  simp only [defaultMaxDist2]
  split_ifs with c <;> simp only [V2.norm, fieldNum_sqrt] at c
  · refine ⟨⟨fun _ => ?_, fun _ => rfl⟩, fun r h => by simp at h⟩
    rw [← hd]; nlinarith
  · refine ⟨⟨fun h => by simp at h, fun h => ?_⟩, fun r h => by simpa using h.symm⟩
    exfalso; rw [← hd] at h; push Not at c; nlinarith


theorem iso2_invAct_act (m : Iso2 K) (x : V2 K) (hm : Iso2.Unit m) :
    letI := fieldNum K sq
    m.invAct (m.act x) = x := by
  letI := fieldNum K sq
  simp only [Iso2.invAct, Iso2.act]
  have : ((m.rot x).add m.t).sub m.t = m.rot x := by
    apply v2_ext <;> simp [V2.add, V2.sub]
  rw [this]; exact iso2_invRot_rot sq m x hm

theorem iso2_act_invAct (m : Iso2 K) (x : V2 K) (hm : Iso2.Unit m) :
    letI := fieldNum K sq
    m.act (m.invAct x) = x := by
  letI := fieldNum K sq
  simp only [Iso2.invAct, Iso2.act]
  rw [iso2_rot_invRot sq m _ hm]
  apply v2_ext <;> simp [V2.add, V2.sub]

/-- an isometry preserves squared distances -/
theorem iso2_act_dsq (m : Iso2 K) (x y : V2 K) (hm : Iso2.Unit m) :
    letI := fieldNum K sq
    dsq2 (m.act x) (m.act y) = dsq2 x y := by
  letI := fieldNum K sq
  rw [← iso2_rot_dsq sq m x y hm]
  simp only [Iso2.act, dsq2, V2.add]; ring

/-- **posed = local ∘ inverse transform** (definitional) -/
theorem posed_project_def2 (project : V2 K → Bool → PP2 K) (m : Iso2 K) (pt : V2 K) (solid : Bool) :
    letI := fieldNum K sq
    posedProject2 project m pt solid = ⟨(project (m.invAct pt) solid).inside, m.act (project (m.invAct pt) solid).pt⟩ := rfl
theorem posed_distance_def2 (distance : V2 K → Bool → K) (m : Iso2 K) (pt : V2 K) (solid : Bool) :
    letI := fieldNum K sq
    posedDistance2 distance m pt solid = distance (m.invAct pt) solid := rfl
theorem posed_contains_def2 (contains : V2 K → Bool) (m : Iso2 K) (pt : V2 K) :
    letI := fieldNum K sq
    posedContains2 contains m pt = contains (m.invAct pt) := rfl

/-- **posed projection transfers the local guarantees**: if, at the local point `m⁻¹ pt`, the local projection is a member of
`S` that is at least as close as every member of `T`, then `project_point` returns a member of the world-space shape
`m·S = {x | S (m⁻¹ x)}` that is at least as close to `pt` as every point of `m·T`. -/
theorem posed_project_optimal2 (project : V2 K → Bool → PP2 K) (S T : V2 K → Prop) (m : Iso2 K) (pt : V2 K) (solid : Bool)
    (hm : Iso2.Unit m) :
    letI := fieldNum K sq
    S (project (m.invAct pt) solid).pt →
    (∀ q, T q → dsq2 (m.invAct pt) (project (m.invAct pt) solid).pt ≤ dsq2 (m.invAct pt) q) →
    S (m.invAct (posedProject2 project m pt solid).pt) ∧
    ∀ y, T (m.invAct y) → dsq2 pt (posedProject2 project m pt solid).pt ≤ dsq2 pt y := by
  letI := fieldNum K sq
  intro h1 h2
  simp only [posedProject2, PP2.transformBy]
  refine ⟨by rw [iso2_invAct_act sq m _ hm]; exact h1, fun y hy => ?_⟩
  have e1 := iso2_act_dsq sq m (m.invAct pt) (project (m.invAct pt) solid).pt hm
  have e2 := iso2_act_dsq sq m (m.invAct pt) (m.invAct y) hm
  rw [iso2_act_invAct sq m pt hm] at e1 e2
  rw [iso2_act_invAct sq m y hm] at e2
  rw [e1, e2]
  exact h2 _ hy



/-! ## Aabb / Cuboid (2-D) -/

def BoxMem2 (lo hi x : V2 K) : Prop := (lo.x ≤ x.x ∧ x.x ≤ hi.x) ∧ (lo.y ≤ x.y ∧ x.y ≤ hi.y)
def BoxBnd2 (lo hi x : V2 K) : Prop :=
  BoxMem2 lo hi x ∧ (x.x = lo.x ∨ x.x = hi.x ∨ x.y = lo.y ∨ x.y = hi.y)
def BoxOk2 (lo hi : V2 K) : Prop := lo.x ≤ hi.x ∧ lo.y ≤ hi.y

private theorem aabb2_shift_zero (lo hi p : V2 K) (hok : BoxOk2 lo hi) :
    letI := fieldNum K sq
    (((lo.sub p).sup V2.zero).sub ((p.sub hi).sup V2.zero)).isZero = true ↔ BoxMem2 lo hi p := by
  letI := fieldNum K sq
  simp only [V2.isZero, V2.sub, V2.sup, V2.zero, fieldNum_nmax, Bool.and_eq_true, neq_zero_iff, BoxMem2]
  rw [(clamp_shift lo.x hi.x p.x hok.1).1, (clamp_shift lo.y hi.y p.y hok.2).1]

private theorem aabb2_branch_out (lo hi p : V2 K) (solid : Bool) (hok : BoxOk2 lo hi) (hm : ¬ BoxMem2 lo hi p) :
    letI := fieldNum K sq
    aabbProject2 lo hi p solid = ⟨false, p.add (((lo.sub p).sup V2.zero).sub ((p.sub hi).sup V2.zero))⟩ := by
  letI := fieldNum K sq
  have hz := aabb2_shift_zero sq lo hi p hok
  have hZ : (((lo.sub p).sup V2.zero).sub ((p.sub hi).sup V2.zero)).isZero = false := by
    rw [← Bool.not_eq_true]; exact fun h => hm (hz.mp h)
  simp only [aabbProject2, aabbDoProject2, hZ, Bool.not_false, if_true]
private theorem aabb2_branch_solid (lo hi p : V2 K) (hok : BoxOk2 lo hi) (hm : BoxMem2 lo hi p) :
    letI := fieldNum K sq
    aabbProject2 lo hi p true = ⟨true, p⟩ := by
  letI := fieldNum K sq
  have hZ := (aabb2_shift_zero sq lo hi p hok).mpr hm
  simp [aabbProject2, aabbDoProject2, hZ]
private theorem aabb2_branch_hollow (lo hi p : V2 K) (hok : BoxOk2 lo hi) (hm : BoxMem2 lo hi p) :
    letI := fieldNum K sq
    (aabbProject2 lo hi p false).inside = true := by
  letI := fieldNum K sq
  have hZ := (aabb2_shift_zero sq lo hi p hok).mpr hm
  simp [aabbProject2, aabbDoProject2, hZ]

/-- **inside flag** (`Aabb::project_local_point`, 2-D) -/
theorem aabb2_inside_iff (lo hi p : V2 K) (solid : Bool) (hok : BoxOk2 lo hi) :
    letI := fieldNum K sq
    (aabbProject2 lo hi p solid).inside = true ↔ BoxMem2 lo hi p := by
  letI := fieldNum K sq
  by_cases hm : BoxMem2 lo hi p
  · cases solid
    · simp [aabb2_branch_hollow sq lo hi p hok hm, hm]
    · simp [aabb2_branch_solid sq lo hi p hok hm, hm]
  · simp [aabb2_branch_out sq lo hi p solid hok hm, hm]

private theorem aabb2_solid_core (lo hi p : V2 K) (solid : Bool) (hok : BoxOk2 lo hi)
    (hc : solid = true ∨ ¬ BoxMem2 lo hi p) :
    letI := fieldNum K sq
    BoxMem2 lo hi (aabbProject2 lo hi p solid).pt ∧
    (¬ BoxMem2 lo hi p → BoxBnd2 lo hi (aabbProject2 lo hi p solid).pt) ∧
    ∀ q, BoxMem2 lo hi q → ((p.sub (aabbProject2 lo hi p solid).pt).dot (q.sub (aabbProject2 lo hi p solid).pt)) ≤ 0 := by
  letI := fieldNum K sq
  obtain ⟨x1, x2, x3, x4⟩ := clamp_shift lo.x hi.x p.x hok.1
  obtain ⟨y1, y2, y3, y4⟩ := clamp_shift lo.y hi.y p.y hok.2
  by_cases hm : BoxMem2 lo hi p
  · have hs : solid = true := by rcases hc with h | h; exact h; exact absurd hm h
    subst hs
    rw [aabb2_branch_solid sq lo hi p hok hm]
    refine ⟨hm, fun h => absurd hm h, ?_⟩
    intro q _
    simp [V2.dot, V2.sub]
  · rw [aabb2_branch_out sq lo hi p solid hok hm]
    simp only [V2.sub, V2.sup, V2.zero, V2.add, fieldNum_nmax, V2.dot, BoxMem2, BoxBnd2]
    refine ⟨⟨⟨x2, x3⟩, ⟨y2, y3⟩⟩, fun _ => ⟨⟨⟨x2, x3⟩, ⟨y2, y3⟩⟩, ?_⟩, ?_⟩
    · simp only [BoxMem2] at hm
      by_contra hcon
      push Not at hcon
      apply hm
      have hx : lo.x ≤ p.x ∧ p.x ≤ hi.x := by
        rcases lt_or_ge p.x lo.x with h | h
        · exfalso; apply hcon.1; rw [max_eq_left (by linarith), max_eq_right (by linarith)]; ring
        · rcases lt_or_ge hi.x p.x with h' | h'
          · exfalso; apply hcon.2.1; rw [max_eq_right (by linarith), max_eq_left (by linarith)]; ring
          · exact ⟨h, h'⟩
      have hy : lo.y ≤ p.y ∧ p.y ≤ hi.y := by
        rcases lt_or_ge p.y lo.y with h | h
        · exfalso; apply hcon.2.2.1; rw [max_eq_left (by linarith), max_eq_right (by linarith)]; ring
        · rcases lt_or_ge hi.y p.y with h' | h'
          · exfalso; apply hcon.2.2.2; rw [max_eq_right (by linarith), max_eq_left (by linarith)]; ring
          · exact ⟨h, h'⟩
      exact ⟨hx, hy⟩
    · intro q ⟨⟨qx1, qx2⟩, ⟨qy1, qy2⟩⟩
      have := x4 q.x qx1 qx2; have := y4 q.y qy1 qy2
      linarith

/-- the non-solid interior branch (2-D) moves `p` onto one edge, and that edge is at least as near as each of the four -/
private theorem aabb2_hollow_select (lo hi p : V2 K) (hok : BoxOk2 lo hi) (hm : BoxMem2 lo hi p) :
    letI := fieldNum K sq
    ∃ δ : K, (δ ≤ p.x - lo.x ∧ δ ≤ hi.x - p.x ∧ δ ≤ p.y - lo.y ∧ δ ≤ hi.y - p.y) ∧
      (((aabbProject2 lo hi p false).pt = ⟨lo.x, p.y⟩ ∧ δ = p.x - lo.x) ∨
       ((aabbProject2 lo hi p false).pt = ⟨hi.x, p.y⟩ ∧ δ = hi.x - p.x) ∨
       ((aabbProject2 lo hi p false).pt = ⟨p.x, lo.y⟩ ∧ δ = p.y - lo.y) ∨
       ((aabbProject2 lo hi p false).pt = ⟨p.x, hi.y⟩ ∧ δ = hi.y - p.y)) := by
  letI := fieldNum K sq
  have hZ := (aabb2_shift_zero sq lo hi p hok).mpr hm
  obtain ⟨⟨mx1, mx2⟩, ⟨my1, my2⟩⟩ := hm
  simp only [aabbProject2, aabbDoProject2, hZ, Bool.not_true, Bool.false_eq_true, if_false, aabbStep_eq]
  simp only [V2.sub, decide_true, if_true]
  have lx1 := le_max_left (lo.x - p.x) (p.x - hi.x); have lx2 := le_max_right (lo.x - p.x) (p.x - hi.x)
  have ly1 := le_max_left (lo.y - p.y) (p.y - hi.y); have ly2 := le_max_right (lo.y - p.y) (p.y - hi.y)
  by_cases h1 : max (lo.x - p.x) (p.x - hi.x) < max (lo.y - p.y) (p.y - hi.y)
  · simp only [h1, decide_true, if_true, Option.getD_some]
    by_cases f : p.y - hi.y ≤ lo.y - p.y
    · have e := max_eq_left f
      simp only [f, decide_true, if_true]
      refine ⟨p.y - lo.y, ⟨?_, ?_, ?_, ?_⟩, (fun h => Or.inr (Or.inr (Or.inl h))) ⟨v2_ext ?_ ?_, rfl⟩⟩ <;>
        first | linarith | (simp [V2.add, V2.set, V2.zero, e])
    · simp only [f, decide_false, Bool.false_eq_true, if_false]
      push Not at f
      have e := max_eq_right f.le
      refine ⟨hi.y - p.y, ⟨?_, ?_, ?_, ?_⟩, (fun h => Or.inr (Or.inr (Or.inr h))) ⟨v2_ext ?_ ?_, rfl⟩⟩ <;>
        first | linarith | (simp [V2.add, V2.set, V2.zero, e])
  · simp only [h1, decide_false, Bool.false_eq_true, if_false, Option.getD_some]
    push Not at h1
    by_cases f : p.x - hi.x ≤ lo.x - p.x
    · have e := max_eq_left f
      simp only [f, decide_true, if_true]
      refine ⟨p.x - lo.x, ⟨?_, ?_, ?_, ?_⟩, Or.inl ⟨v2_ext ?_ ?_, rfl⟩⟩ <;>
        first | linarith | (simp [V2.add, V2.set, V2.zero, e])
    · simp only [f, decide_false, Bool.false_eq_true, if_false]
      push Not at f
      have e := max_eq_right f.le
      refine ⟨hi.x - p.x, ⟨?_, ?_, ?_, ?_⟩, (fun h => Or.inr (Or.inl h)) ⟨v2_ext ?_ ?_, rfl⟩⟩ <;>
        first | linarith | (simp [V2.add, V2.set, V2.zero, e])

/-- **membership** (2-D, both flags) -/
theorem aabb2_project_mem (lo hi p : V2 K) (solid : Bool) (hok : BoxOk2 lo hi) :
    letI := fieldNum K sq
    BoxMem2 lo hi (aabbProject2 lo hi p solid).pt := by
  letI := fieldNum K sq
  by_cases hc : solid = true ∨ ¬ BoxMem2 lo hi p
  · exact (aabb2_solid_core sq lo hi p solid hok hc).1
  · push Not at hc
    have hs : solid = false := by simpa using hc.1
    subst hs
    obtain ⟨⟨mx1, mx2⟩, ⟨my1, my2⟩⟩ := hc.2
    obtain ⟨δ, _, h | h | h | h⟩ := aabb2_hollow_select sq lo hi p hok hc.2 <;>
      (rw [h.1]; simp only [BoxMem2]; refine ⟨⟨?_, ?_⟩, ⟨?_, ?_⟩⟩ <;> first | assumption | exact le_refl _ | exact hok.1 | exact hok.2)

/-- **boundary** (2-D) -/
theorem aabb2_project_on_boundary (lo hi p : V2 K) (solid : Bool) (hok : BoxOk2 lo hi) :
    letI := fieldNum K sq
    (solid = false ∨ ¬ BoxMem2 lo hi p) → BoxBnd2 lo hi (aabbProject2 lo hi p solid).pt := by
  letI := fieldNum K sq
  intro h
  by_cases hm : BoxMem2 lo hi p
  · have hs : solid = false := by rcases h with h | h; exact h; exact absurd hm h
    subst hs
    refine ⟨aabb2_project_mem sq lo hi p false hok, ?_⟩
    obtain ⟨δ, _, h | h | h | h⟩ := aabb2_hollow_select sq lo hi p hok hm <;> rw [h.1] <;> simp
  · exact (aabb2_solid_core sq lo hi p solid hok (Or.inr hm)).2.1 hm

/-- **optimality w.r.t. the solid box** (2-D) -/
theorem aabb2_project_optimal (lo hi p q : V2 K) (solid : Bool) (hok : BoxOk2 lo hi) :
    letI := fieldNum K sq
    BoxMem2 lo hi q → (solid = true ∨ ¬ BoxMem2 lo hi p) → dsq2 p (aabbProject2 lo hi p solid).pt ≤ dsq2 p q := by
  letI := fieldNum K sq
  intro hq hc
  have h := (aabb2_solid_core sq lo hi p solid hok hc).2.2 q hq
  simp only [V2.dot, V2.sub] at h
  exact opt_of_var2 _ _ _ _ _ _ h

/-- **optimality w.r.t. the boundary** (2-D, both flags) -/
theorem aabb2_project_optimal_boundary (lo hi p q : V2 K) (solid : Bool) (hok : BoxOk2 lo hi) :
    letI := fieldNum K sq
    BoxBnd2 lo hi q → dsq2 p (aabbProject2 lo hi p solid).pt ≤ dsq2 p q := by
  letI := fieldNum K sq
  intro hq
  by_cases hc : solid = true ∨ ¬ BoxMem2 lo hi p
  · exact aabb2_project_optimal sq lo hi p q solid hok hq.1 hc
  · push Not at hc
    have hs : solid = false := by simpa using hc.1
    subst hs
    obtain ⟨⟨mx1, mx2⟩, ⟨my1, my2⟩⟩ := hc.2
    obtain ⟨δ, ⟨d1, d2, d3, d4⟩, hsel⟩ := aabb2_hollow_select sq lo hi p hok hc.2
    have hδ : 0 ≤ δ := by rcases hsel with h | h | h | h <;> rw [h.2] <;> linarith
    have hd : dsq2 p (@aabbProject2 K (fieldNum K sq) lo hi p false).pt = δ * δ := by
      rcases hsel with h | h | h | h <;> rw [h.1, h.2] <;> simp only [dsq2] <;> ring
    rw [hd]
    obtain ⟨⟨⟨qx1, qx2⟩, ⟨qy1, qy2⟩⟩, hf⟩ := hq
    simp only [dsq2]
    have sx := mul_self_nonneg (p.x - q.x); have sy := mul_self_nonneg (p.y - q.y)
    rcases hf with e | e | e | e
    · have : δ * δ ≤ (p.x - q.x) * (p.x - q.x) := by rw [e]; exact mul_self_le_mul_self hδ d1
      linarith
    · have : δ * δ ≤ (p.x - q.x) * (p.x - q.x) := by
        rw [e]; have := mul_self_le_mul_self hδ d2; nlinarith
      linarith
    · have : δ * δ ≤ (p.y - q.y) * (p.y - q.y) := by rw [e]; exact mul_self_le_mul_self hδ d3
      linarith
    · have : δ * δ ≤ (p.y - q.y) * (p.y - q.y) := by
        rw [e]; have := mul_self_le_mul_self hδ d4; nlinarith
      linarith

example : BoxOk2 (⟨-1, -2⟩ : V2 ℚ) ⟨1, 2⟩ ∧ BoxBnd2 (⟨-1, -2⟩ : V2 ℚ) ⟨1, 2⟩ ⟨1, 0⟩ := by
  simp only [BoxOk2, BoxBnd2, BoxMem2]; norm_num

def CubBnd2 (s : Cuboid2 K) (x : V2 K) : Prop := BoxBnd2 ⟨-s.he.x, -s.he.y⟩ s.he x
def CubOk2 (s : Cuboid2 K) : Prop := 0 ≤ s.he.x ∧ 0 ≤ s.he.y

private theorem cubOk2 (s : Cuboid2 K) (h : CubOk2 s) : BoxOk2 (⟨-s.he.x, -s.he.y⟩ : V2 K) s.he := by
  obtain ⟨a, b⟩ := h
  exact ⟨by simp only []; linarith, by simp only []; linarith⟩

theorem cub2_inside_iff (s : Cuboid2 K) (p : V2 K) (solid : Bool) (h : CubOk2 s) :
    letI := fieldNum K sq
    (s.project p solid).inside = true ↔ s.Mem p :=
  aabb2_inside_iff sq _ _ p solid (cubOk2 s h)
theorem cub2_contains_iff (s : Cuboid2 K) (p : V2 K) (h : CubOk2 s) :
    letI := fieldNum K sq
    s.contains p = true ↔ s.Mem p :=
  aabb2_inside_iff sq _ _ p true (cubOk2 s h)
theorem cub2_project_mem (s : Cuboid2 K) (p : V2 K) (solid : Bool) (h : CubOk2 s) :
    letI := fieldNum K sq
    s.Mem (s.project p solid).pt :=
  aabb2_project_mem sq _ _ p solid (cubOk2 s h)
theorem cub2_project_on_boundary (s : Cuboid2 K) (p : V2 K) (solid : Bool) (h : CubOk2 s) :
    letI := fieldNum K sq
    (solid = false ∨ ¬ s.Mem p) → CubBnd2 s (s.project p solid).pt :=
  aabb2_project_on_boundary sq _ _ p solid (cubOk2 s h)
theorem cub2_project_optimal (s : Cuboid2 K) (p q : V2 K) (solid : Bool) (h : CubOk2 s) :
    letI := fieldNum K sq
    s.Mem q → (solid = true ∨ ¬ s.Mem p) → dsq2 p (s.project p solid).pt ≤ dsq2 p q :=
  aabb2_project_optimal sq _ _ p q solid (cubOk2 s h)
theorem cub2_project_optimal_boundary (s : Cuboid2 K) (p q : V2 K) (solid : Bool) (h : CubOk2 s) :
    letI := fieldNum K sq
    CubBnd2 s q → dsq2 p (s.project p solid).pt ≤ dsq2 p q :=
  aabb2_project_optimal_boundary sq _ _ p q solid (cubOk2 s h)

example : (⟨⟨0, 0⟩, ⟨4, 0⟩⟩ : Segment2 ℚ).Mem ⟨1, 0⟩ :=
  ⟨1/4, by norm_num, by norm_num, by simp [V2.add, V2.sub, V2.smul]⟩
example : (⟨2⟩ : Ball ℚ).Mem2 ⟨1, 1⟩ ∧ ¬ (⟨2⟩ : Ball ℚ).Mem2 ⟨2, 1⟩ := by
  simp only [Ball.Mem2, V2.normSq, V2.dot]; norm_num
example : (⟨⟨3/5, 4/5⟩⟩ : HalfSpace2 ℚ).n.normSq = 1 ∧ ¬ (⟨⟨3/5, 4/5⟩⟩ : HalfSpace2 ℚ).Mem ⟨1, 1⟩ := by
  simp only [HalfSpace2.Mem, V2.normSq, V2.dot]; norm_num
example : Iso2.Unit (⟨3/5, 4/5, ⟨1, 2⟩⟩ : Iso2 ℚ) := by simp only [Iso2.Unit]; norm_num
--2D-END

end C05
