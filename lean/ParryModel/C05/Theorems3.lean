import ParryModel.Field
import ParryModel.C05.Model
import ParryModel.C05.Lemmas
import ParryModel.C05.Tri2
import ParryModel.C05.Tri3
import ParryModel.C05.Theorems1
import ParryModel.C05.Theorems2
set_option linter.style.haveILetI false
set_option linter.unusedSimpArgs false
set_option linter.unusedVariables false
/-!
# C05 property theorems, part 3 (growth): the reported triangle location *contains* the projection

`tri2_location_sound` / `tri3_location_sound` say that the barycentric coordinates of the reported `TrianglePointLocation`
sum to one and reproduce the projection — which only places the projection on the supporting *line* of the reported edge
(plane of the face).  The clause of the property is stronger: "the reported feature/location identifies a feature
**containing** the projection".  For a non-degenerate triangle this is the statement that every reported barycentric
coordinate is non-negative (with sum one: in `[0,1]`), i.e. `OnEdge(i,[b0,b1])` is a point of the edge *segment* and
`OnFace(_, [b0,b1,b2])` a point of the face.  It is exactly what the guards `ab_ap >= 0`, `ab_bp <= 0`, … of the edge-region
tests of `stable_check_edges_voronoi` are there for: without `ab_ap >= 0` a point behind `a` along `ab` (obtuse angle at
`a`) is reported `OnEdge(0,[1-v,v])` with `v < 0`.

Proof: barycentric coordinates w.r.t. a non-degenerate triangle are unique; the projection is a member of the triangle
(`tri3_project_mem`, `tri2_project_mem` / `tri2_project_hollow`), so the reported coordinates are the member's.
-/
namespace C05
open Model

variable {K : Type} [Field K] [LinearOrder K] [IsStrictOrderedRing K] (sq : K → K)

/-- uniqueness of barycentric coordinates, 3-D, scalar form: if `q = b0·a + b1·b + b2·c` with `b0+b1+b2 = 1` is a member of the
non-degenerate triangle `abc` then `b0, b1, b2 ≥ 0`. -/
private theorem bary_nonneg3 (ax ay az bx by' bz cx cy cz qx qy qz b0 b1 b2 : K)
    (hn : ((bx - ax) * (bx - ax) + (by' - ay) * (by' - ay) + (bz - az) * (bz - az)) * ((cx - ax) * (cx - ax) + (cy - ay) * (cy - ay) + (cz - az) * (cz - az)) - ((bx - ax) * (cx - ax) + (by' - ay) * (cy - ay) + (bz - az) * (cz - az)) * ((bx - ax) * (cx - ax) + (by' - ay) * (cy - ay) + (bz - az) * (cz - az)) ≠ 0)
    (hsum : b0 + b1 + b2 = 1)
    (hx : qx = ax * b0 + bx * b1 + cx * b2) (hy : qy = ay * b0 + by' * b1 + cy * b2) (hz : qz = az * b0 + bz * b1 + cz * b2)
    (hm : letI := fieldNum K sq; (⟨⟨ax, ay, az⟩, ⟨bx, by', bz⟩, ⟨cx, cy, cz⟩⟩ : Triangle3 K).Mem ⟨qx, qy, qz⟩) :
    0 ≤ b0 ∧ 0 ≤ b1 ∧ 0 ≤ b2 := by
  letI := fieldNum K sq
  rw [tri3_mem_iff] at hm
  obtain ⟨u, v, hu, hv, huv, ex, ey, ez⟩ := hm
  rw [hx] at ex; rw [hy] at ey; rw [hz] at ez
  have h1 : (b1 - u) * (((bx - ax) * (bx - ax) + (by' - ay) * (by' - ay) + (bz - az) * (bz - az)) * ((cx - ax) * (cx - ax) + (cy - ay) * (cy - ay) + (cz - az) * (cz - az)) - ((bx - ax) * (cx - ax) + (by' - ay) * (cy - ay) + (bz - az) * (cz - az)) * ((bx - ax) * (cx - ax) + (by' - ay) * (cy - ay) + (bz - az) * (cz - az))) = 0 := by
    linear_combination
      (((cx - ax) * (cx - ax) + (cy - ay) * (cy - ay) + (cz - az) * (cz - az)) * (bx - ax) - ((bx - ax) * (cx - ax) + (by' - ay) * (cy - ay) + (bz - az) * (cz - az)) * (cx - ax)) * ex
      + (((cx - ax) * (cx - ax) + (cy - ay) * (cy - ay) + (cz - az) * (cz - az)) * (by' - ay) - ((bx - ax) * (cx - ax) + (by' - ay) * (cy - ay) + (bz - az) * (cz - az)) * (cy - ay)) * ey
      + (((cx - ax) * (cx - ax) + (cy - ay) * (cy - ay) + (cz - az) * (cz - az)) * (bz - az) - ((bx - ax) * (cx - ax) + (by' - ay) * (cy - ay) + (bz - az) * (cz - az)) * (cz - az)) * ez
      - ((((cx - ax) * (cx - ax) + (cy - ay) * (cy - ay) + (cz - az) * (cz - az)) * (bx - ax) - ((bx - ax) * (cx - ax) + (by' - ay) * (cy - ay) + (bz - az) * (cz - az)) * (cx - ax)) * ax
        + (((cx - ax) * (cx - ax) + (cy - ay) * (cy - ay) + (cz - az) * (cz - az)) * (by' - ay) - ((bx - ax) * (cx - ax) + (by' - ay) * (cy - ay) + (bz - az) * (cz - az)) * (cy - ay)) * ay
        + (((cx - ax) * (cx - ax) + (cy - ay) * (cy - ay) + (cz - az) * (cz - az)) * (bz - az) - ((bx - ax) * (cx - ax) + (by' - ay) * (cy - ay) + (bz - az) * (cz - az)) * (cz - az)) * az) * hsum
  have h2 : (b2 - v) * (((bx - ax) * (bx - ax) + (by' - ay) * (by' - ay) + (bz - az) * (bz - az)) * ((cx - ax) * (cx - ax) + (cy - ay) * (cy - ay) + (cz - az) * (cz - az)) - ((bx - ax) * (cx - ax) + (by' - ay) * (cy - ay) + (bz - az) * (cz - az)) * ((bx - ax) * (cx - ax) + (by' - ay) * (cy - ay) + (bz - az) * (cz - az))) = 0 := by
    linear_combination
      (((bx - ax) * (bx - ax) + (by' - ay) * (by' - ay) + (bz - az) * (bz - az)) * (cx - ax) - ((bx - ax) * (cx - ax) + (by' - ay) * (cy - ay) + (bz - az) * (cz - az)) * (bx - ax)) * ex
      + (((bx - ax) * (bx - ax) + (by' - ay) * (by' - ay) + (bz - az) * (bz - az)) * (cy - ay) - ((bx - ax) * (cx - ax) + (by' - ay) * (cy - ay) + (bz - az) * (cz - az)) * (by' - ay)) * ey
      + (((bx - ax) * (bx - ax) + (by' - ay) * (by' - ay) + (bz - az) * (bz - az)) * (cz - az) - ((bx - ax) * (cx - ax) + (by' - ay) * (cy - ay) + (bz - az) * (cz - az)) * (bz - az)) * ez
      - ((((bx - ax) * (bx - ax) + (by' - ay) * (by' - ay) + (bz - az) * (bz - az)) * (cx - ax) - ((bx - ax) * (cx - ax) + (by' - ay) * (cy - ay) + (bz - az) * (cz - az)) * (bx - ax)) * ax
        + (((bx - ax) * (bx - ax) + (by' - ay) * (by' - ay) + (bz - az) * (bz - az)) * (cy - ay) - ((bx - ax) * (cx - ax) + (by' - ay) * (cy - ay) + (bz - az) * (cz - az)) * (by' - ay)) * ay
        + (((bx - ax) * (bx - ax) + (by' - ay) * (by' - ay) + (bz - az) * (bz - az)) * (cz - az) - ((bx - ax) * (cx - ax) + (by' - ay) * (cy - ay) + (bz - az) * (cz - az)) * (bz - az)) * az) * hsum
  have e1 : b1 = u := by
    rcases mul_eq_zero.1 h1 with h | h
    · linarith
    · exact absurd h hn
  have e2 : b2 = v := by
    rcases mul_eq_zero.1 h2 with h | h
    · linarith
    · exact absurd h hn
  subst e1 e2
  exact ⟨by linarith, hu, hv⟩

/-- uniqueness of barycentric coordinates, 2-D, scalar form -/
private theorem bary_nonneg2 (ax ay bx by' cx cy qx qy b0 b1 b2 : K)
    (hn : (bx - ax) * (cy - ay) - (by' - ay) * (cx - ax) ≠ 0)
    (hsum : b0 + b1 + b2 = 1)
    (hx : qx = ax * b0 + bx * b1 + cx * b2) (hy : qy = ay * b0 + by' * b1 + cy * b2)
    (hm : letI := fieldNum K sq; (⟨⟨ax, ay⟩, ⟨bx, by'⟩, ⟨cx, cy⟩⟩ : Triangle2 K).Mem ⟨qx, qy⟩) :
    0 ≤ b0 ∧ 0 ≤ b1 ∧ 0 ≤ b2 := by
  letI := fieldNum K sq
  rw [tri2_mem_iff] at hm
  obtain ⟨u, v, hu, hv, huv, ex, ey⟩ := hm
  rw [hx] at ex; rw [hy] at ey
  have h1 : (b1 - u) * ((bx - ax) * (cy - ay) - (by' - ay) * (cx - ax)) = 0 := by
    linear_combination (cy - ay) * ex - (cx - ax) * ey - ((cy - ay) * ax - (cx - ax) * ay) * hsum
  have h2 : (b2 - v) * ((bx - ax) * (cy - ay) - (by' - ay) * (cx - ax)) = 0 := by
    linear_combination (bx - ax) * ey - (by' - ay) * ex - ((bx - ax) * ay - (by' - ay) * ax) * hsum
  have e1 : b1 = u := by
    rcases mul_eq_zero.1 h1 with h | h
    · linarith
    · exact absurd h hn
  have e2 : b2 = v := by
    rcases mul_eq_zero.1 h2 with h | h
    · linarith
    · exact absurd h hn
  subst e1 e2
  exact ⟨by linarith, hu, hv⟩

/-- in 3-D the `OnSolid` tail is reached only when `va + vb + vc = 0` -/
private theorem tri3_flat_solid (a b c pt ab ac bc : V3 K) (ab_ap ac_ap ab_bp ac_bp ab_cp ac_cp vc vb va apn bpn bc_bp nap : K) (solid : Bool) :
    letI := fieldNum K sq
    (tri3Flat a b c pt ab ac bc ab_ap ac_ap ab_bp ac_bp ab_cp ac_cp vc vb va apn bpn bc_bp nap solid).2 = TriLoc.solid →
      va + vb + vc = 0 := by
  letI := fieldNum K sq
  unfold tri3Flat
  intro h
  by_cases t7 : (!(neq (va + vb + vc) 0)) = true
  · exfalso
    revert h
    simp only [t7]
    split_ifs <;> simp
  · simpa [neq_iff] using t7

/-- **the reported location contains the projection** (3-D, non-degenerate triangle, every query point, both flags): vertex
ids are `0,1,2`; edge ids are `0,1,2` and both edge coordinates are `≥ 0` — with `b0 + b1 = 1` of `tri3_location_sound` the
projection `b0·P + b1·Q` is a point of the edge *segment* `[P,Q]`, not merely of its supporting line; the three face
coordinates are `≥ 0` (a point of the face); `OnSolid` is never reported. -/
theorem tri3_location_contains (s : Triangle3 K) (p : V3 K) (solid : Bool) (h : Tri3Ok s) :
    letI := fieldNum K sq
    match (s.projectLoc p solid).2 with
    | .vertex i => i < 3
    | .edge i b0 b1 => i < 3 ∧ 0 ≤ b0 ∧ 0 ≤ b1
    | .face _ b0 b1 b2 => 0 ≤ b0 ∧ 0 ≤ b1 ∧ 0 ≤ b2
    | .solid => False := by
  letI := fieldNum K sq
  have hl := tri3_location_sound sq s p solid
  have hm := tri3_project_mem sq s p solid h
  have hsol : (@Triangle3.projectLoc K (fieldNum K sq) s p solid).2 = TriLoc.solid → False := by
    intro e
    rw [tri3_projectLoc_eq_flat] at e
    have h0 := tri3_flat_solid sq _ _ _ _ _ _ _ _ _ _ _ _ _ _ _ _ _ _ _ _ _ e
    obtain ⟨⟨ax, ay, az⟩, ⟨bx, by', bz⟩, ⟨cx, cy, cz⟩⟩ := s
    obtain ⟨px, py, pz⟩ := p
    obtain ⟨_, _, _, _, _, _, g3, _, _⟩ := tri3_relations ax ay az bx by' bz cx cy cz px py pz _ _ _ _ _ _ _ _ _ _
      rfl rfl rfl rfl rfl rfl rfl rfl rfl rfl
    simp only [V3.dot, V3.cross, V3.sub] at h0
    exact h (by rw [← g3]; exact h0)
  obtain ⟨⟨ax, ay, az⟩, ⟨bx, by', bz⟩, ⟨cx, cy, cz⟩⟩ := s
  simp only [Tri3Ok] at h
  generalize @Triangle3.projectLoc K (fieldNum K sq) ⟨⟨ax, ay, az⟩, ⟨bx, by', bz⟩, ⟨cx, cy, cz⟩⟩ p solid = r at hl hm hsol ⊢
  obtain ⟨⟨ins, ⟨qx, qy, qz⟩⟩, loc⟩ := r
  cases loc with
  | vertex i =>
    dsimp only at hl ⊢
    rcases hl with ⟨rfl, _⟩ | ⟨rfl, _⟩ | ⟨rfl, _⟩ <;> norm_num
  | edge i b0 b1 =>
    dsimp only at hl hm ⊢
    obtain ⟨hs, ⟨rfl, e⟩ | ⟨rfl, e⟩ | ⟨rfl, e⟩⟩ := hl
    · simp only [V3.add, V3.smul, V3.mk.injEq] at e
      obtain ⟨ex, ey, ez⟩ := e
      have := bary_nonneg3 sq ax ay az bx by' bz cx cy cz qx qy qz b0 b1 0 h (by linarith) (by rw [ex]; ring) (by rw [ey]; ring) (by rw [ez]; ring) hm
      exact ⟨by norm_num, this.1, this.2.1⟩
    · simp only [V3.add, V3.smul, V3.mk.injEq] at e
      obtain ⟨ex, ey, ez⟩ := e
      have := bary_nonneg3 sq ax ay az bx by' bz cx cy cz qx qy qz 0 b0 b1 h (by linarith) (by rw [ex]; ring) (by rw [ey]; ring) (by rw [ez]; ring) hm
      exact ⟨by norm_num, this.2.1, this.2.2⟩
    · simp only [V3.add, V3.smul, V3.mk.injEq] at e
      obtain ⟨ex, ey, ez⟩ := e
      have := bary_nonneg3 sq ax ay az bx by' bz cx cy cz qx qy qz b0 0 b1 h (by linarith) (by rw [ex]; ring) (by rw [ey]; ring) (by rw [ez]; ring) hm
      exact ⟨by norm_num, this.1, this.2.2⟩
  | face sd b0 b1 b2 =>
    dsimp only at hl hm ⊢
    obtain ⟨_, hs, e⟩ := hl
    simp only [V3.add, V3.smul, V3.mk.injEq] at e
    obtain ⟨ex, ey, ez⟩ := e
    exact bary_nonneg3 sq ax ay az bx by' bz cx cy cz qx qy qz b0 b1 b2 h hs ex ey ez hm
  | solid => exact hsol rfl

/-- non-vacuity, and the narrow case the guard `ab_ap >= 0` exists for: obtuse angle at `a`, query point behind `a` along `ab`
(`ab·ap = -1 < 0`), outside the line `ab` (`vc < 0`), `ac·ap = 4/5 > 0`: it is *not* in the region of `ab` (there `v = -1`
would be reported) but in that of `ac`, location `OnEdge(2, [3/5, 2/5])`, projection `(-2/5, 2/5, 0)`. -/
example : letI := fieldNum ℚ (fun x => x)
    Tri3Ok (⟨⟨0, 0, 0⟩, ⟨1, 0, 0⟩, ⟨-1, 1, 0⟩⟩ : Triangle3 ℚ) ∧
    (Triangle3.projectLoc (⟨⟨0, 0, 0⟩, ⟨1, 0, 0⟩, ⟨-1, 1, 0⟩⟩ : Triangle3 ℚ) ⟨-1, -1/5, 1⟩ true).2 = TriLoc.edge 2 (3/5) (2/5) ∧
    (Triangle3.projectLoc (⟨⟨0, 0, 0⟩, ⟨1, 0, 0⟩, ⟨-1, 1, 0⟩⟩ : Triangle3 ℚ) ⟨-1, -1/5, 1⟩ true).1.pt = ⟨-2/5, 2/5, 0⟩ := by
  letI := fieldNum ℚ (fun x => x)
  refine ⟨by simp only [Tri3Ok]; norm_num, ?_, ?_⟩ <;>
  · rw [tri3_projectLoc_eq_flat]
    simp only [tri3Flat, V3.sub, V3.dot, V3.cross, V3.normSq, V3.add, V3.smul]
    norm_num

/-- a point of the boundary (one of the three edge segments) is a member of the 2-D triangle -/
private theorem triBnd_mem (s : Triangle2 K) (x : V2 K) :
    letI := fieldNum K sq
    TriBnd s x → s.Mem x := by
  letI := fieldNum K sq
  rintro ⟨Px, Py, Qx, Qy, κ, hE, k0, k1, hx, hy⟩
  rcases hE with ⟨rfl, rfl, rfl, rfl⟩ | ⟨rfl, rfl, rfl, rfl⟩ | ⟨rfl, rfl, rfl, rfl⟩
  · exact ⟨κ, 0, k0, le_refl _, by linarith, v2_ext (by simp only [V2.add, V2.sub, V2.smul]; rw [hx]; ring) (by simp only [V2.add, V2.sub, V2.smul]; rw [hy]; ring)⟩
  · exact ⟨1 - κ, κ, by linarith, k0, by linarith, v2_ext (by simp only [V2.add, V2.sub, V2.smul]; rw [hx]; ring) (by simp only [V2.add, V2.sub, V2.smul]; rw [hy]; ring)⟩
  · exact ⟨0, κ, le_refl _, k0, by linarith, v2_ext (by simp only [V2.add, V2.sub, V2.smul]; rw [hx]; ring) (by simp only [V2.add, V2.sub, V2.smul]; rw [hy]; ring)⟩

/-- **membership, unconditionally** (2-D): for every query point and both flags the returned point is a point of the triangle
(`tri2_project_mem` covers `solid = true` or an outside point, `tri2_project_hollow` the interior point with `solid = false`). -/
theorem tri2_project_mem_all (s : Triangle2 K) (p : V2 K) (solid : Bool) (h : Tri2Ok s) :
    letI := fieldNum K sq
    s.Mem (s.projectLoc p solid).1.pt := by
  letI := fieldNum K sq
  cases solid with
  | true => exact tri2_project_mem sq s p true h (Or.inl rfl)
  | false => exact triBnd_mem sq s _ (tri2_project_hollow sq s p h).1

/-- **the reported location contains the projection** (2-D, non-degenerate triangle, every query point, both flags, including the
`solid = false` interior tail that picks the nearest of the three edge lines): vertex and edge ids are `0,1,2` and both edge
coordinates are `≥ 0`, so that with `b0 + b1 = 1` (`tri2_location_sound`) the projection is a point of the reported edge
segment. -/
theorem tri2_location_contains (s : Triangle2 K) (p : V2 K) (solid : Bool) (h : Tri2Ok s) :
    letI := fieldNum K sq
    match (s.projectLoc p solid).2 with
    | .vertex i => i < 3
    | .edge i b0 b1 => i < 3 ∧ 0 ≤ b0 ∧ 0 ≤ b1
    | .face _ _ _ _ => False
    | .solid => solid = true := by
  letI := fieldNum K sq
  have hl := tri2_location_sound sq s p solid
  have hm := tri2_project_mem_all sq s p solid h
  obtain ⟨⟨ax, ay⟩, ⟨bx, by'⟩, ⟨cx, cy⟩⟩ := s
  simp only [Tri2Ok] at h
  generalize @Triangle2.projectLoc K (fieldNum K sq) ⟨⟨ax, ay⟩, ⟨bx, by'⟩, ⟨cx, cy⟩⟩ p solid = r at hl hm ⊢
  obtain ⟨⟨ins, ⟨qx, qy⟩⟩, loc⟩ := r
  cases loc with
  | vertex i =>
    dsimp only at hl ⊢
    rcases hl with ⟨rfl, _⟩ | ⟨rfl, _⟩ | ⟨rfl, _⟩ <;> norm_num
  | edge i b0 b1 =>
    dsimp only at hl hm ⊢
    obtain ⟨hs, ⟨rfl, e⟩ | ⟨rfl, e⟩ | ⟨rfl, e⟩⟩ := hl
    · simp only [V2.add, V2.smul, V2.mk.injEq] at e
      obtain ⟨ex, ey⟩ := e
      have := bary_nonneg2 sq ax ay bx by' cx cy qx qy b0 b1 0 h (by linarith) (by rw [ex]; ring) (by rw [ey]; ring) hm
      exact ⟨by norm_num, this.1, this.2.1⟩
    · simp only [V2.add, V2.smul, V2.mk.injEq] at e
      obtain ⟨ex, ey⟩ := e
      have := bary_nonneg2 sq ax ay bx by' cx cy qx qy 0 b0 b1 h (by linarith) (by rw [ex]; ring) (by rw [ey]; ring) hm
      exact ⟨by norm_num, this.2.1, this.2.2⟩
    · simp only [V2.add, V2.smul, V2.mk.injEq] at e
      obtain ⟨ex, ey⟩ := e
      have := bary_nonneg2 sq ax ay bx by' cx cy qx qy b0 0 b1 h (by linarith) (by rw [ex]; ring) (by rw [ey]; ring) hm
      exact ⟨by norm_num, this.1, this.2.2⟩
  | face sd b0 b1 b2 => exact hl
  | solid => exact hl.2

example : letI := fieldNum ℚ (fun x => x)
    Tri2Ok (⟨⟨0, 0⟩, ⟨1, 0⟩, ⟨-1, 1⟩⟩ : Triangle2 ℚ) ∧
    (Triangle2.projectLoc (⟨⟨0, 0⟩, ⟨1, 0⟩, ⟨-1, 1⟩⟩ : Triangle2 ℚ) ⟨-1, -1/5⟩ false).2 = TriLoc.edge 2 (3/5) (2/5) ∧
    (Triangle2.projectLoc (⟨⟨0, 0⟩, ⟨1, 0⟩, ⟨-1, 1⟩⟩ : Triangle2 ℚ) ⟨-1, -1/5⟩ false).1.pt = ⟨-2/5, 2/5⟩ := by
  letI := fieldNum ℚ (fun x => x)
  refine ⟨by simp only [Tri2Ok]; norm_num, ?_, ?_⟩ <;>
  · rw [tri2_projectLoc_eq_flat]
    simp only [tri2Flat, V2.sub, V2.dot, V2.perp, V2.normSq, V2.add, V2.smul]
    norm_num

end C05
