import ParryModel.Field
import ParryModel.C05.Mesh
import ParryModel.C05.Theorems4
import ParryModel.C05.Theorems7
set_option linter.style.haveILetI false
set_option linter.unusedSimpArgs false
set_option linter.unusedVariables false
set_option linter.unusedSectionVars false
/-!
# C05 property theorems, part 16 (fu5): the vertex pseudo-normal test of the ACTUAL `compute_pseudo_normals`, local form

`tm_pn_vertex_inside_convex` (Theorems7) asks the query direction to be on the inner side of EVERY face of the mesh (true only
for convex meshes).  Only the faces incident to the vertex contribute to its pseudo-normal, so the hypotheses can be local:
* `tm_pn_vertex_inside_local` — `d = pt - x` on the inner side of every face INCIDENT to `v` (locally convex corner, any mesh):
  the model's own vertex normal reports inside, for any `acos ≥ 0`.
* `tm_pn_vertex_outside_local` — `d` on the outer side of every incident face (a reflex corner, or the normal cone of a blunt
  convex corner, where `d = Σ λᵢ nᵢ` and `nᵢ·nⱼ ≥ 0`), and some triangle contributes strictly (`0 < d · contribution`, i.e.
  positive angle and `d·n > 0`): reported outside, for any `acos ≥ 0`.
The sharp-convex / saddle cases (where the true angles matter: `tm_vertex_sharp_needs_angles`) remain oracle-only.
-/
namespace C05
open Model Model.PM

variable {K : Type} [Field K] [LinearOrder K] [IsStrictOrderedRing K] (sq : K → K)

private theorem dot_vadd' (d a b : V3 K) : dotK d (vaddK a b) = dotK d a + dotK d b := by
  simp only [dotK, vaddK]; ring

private theorem dot_vsum_nonpos' (d : V3 K) (l : List (V3 K)) (h : ∀ c ∈ l, dotK d c ≤ 0) : dotK d (vsumK l) ≤ 0 := by
  induction l with
  | nil => simp [vsumK, dotK]
  | cons c l ih =>
    rw [vsumK, dot_vadd']
    have := h c (by simp)
    have := ih (fun x hx => h x (by simp [hx]))
    linarith

private theorem dot_vsum_nonneg' (d : V3 K) (l : List (V3 K)) (h : ∀ c ∈ l, 0 ≤ dotK d c) : 0 ≤ dotK d (vsumK l) := by
  induction l with
  | nil => simp [vsumK, dotK]
  | cons c l ih =>
    rw [vsumK, dot_vadd']
    have := h c (by simp)
    have := ih (fun x hx => h x (by simp [hx]))
    linarith

private theorem dot_vsum_pos' (d : V3 K) (l : List (V3 K)) (h : ∀ c ∈ l, 0 ≤ dotK d c) (c0 : V3 K) (hc0 : c0 ∈ l)
    (hpos : 0 < dotK d c0) : 0 < dotK d (vsumK l) := by
  induction l with
  | nil => simp at hc0
  | cons c l ih =>
    rw [vsumK, dot_vadd']
    have h1 := h c (by simp)
    have h2 := dot_vsum_nonneg' d l (fun x hx => h x (by simp [hx]))
    rcases List.mem_cons.mp hc0 with e | e
    · subst e; linarith
    · have := ih (fun x hx => h x (by simp [hx])) e
      linarith

private theorem angle_nonneg' (acos : K → K) (hac : ∀ x, 0 ≤ acos x) (u w : V3 K) :
    letI := fieldNum K sq
    0 ≤ V3.angle acos u w := by
  letI := fieldNum K sq
  simp only [V3.angle]
  split_ifs
  · exact le_refl _
  · exact hac _

/-- sign of one contribution: if `σ·(d·n) ≤ 0` for the normal of every incident face then `σ·(d·contribution) ≤ 0` -/
private theorem contrib_sign (acos : K → K) (hac : ∀ x, 0 ≤ acos x) (m : Mesh K) (v f : Nat) (d : V3 K) (σ : K)
    (hin : letI := fieldNum K sq
      ∀ i0 i1 i2 t n, m.idx[f]? = some (i0, i1, i2) → (i0 = v ∨ i1 = v ∨ i2 = v) → m.tri? f = some t →
        triNormal? t = some n → σ * dotK d n ≤ 0) :
    σ * dotK d (pnContrib sq acos m f v) ≤ 0 := by
  letI := fieldNum K sq
  simp only [pnContrib]
  cases hidx : m.idx[f]? with
  | none => simp [dotK]
  | some ijk =>
    obtain ⟨i0, i1, i2⟩ := ijk
    cases htri : m.tri? f with
    | none => simp [dotK]
    | some t =>
      cases hn : triNormal? t with
      | none => simp [dotK, hn]
      | some n =>
        simp only [hn]
        have a1 : 0 ≤ (triAngles acos t).1 := angle_nonneg' sq acos hac _ _
        have a2 : 0 ≤ (triAngles acos t).2.1 := angle_nonneg' sq acos hac _ _
        have a3 : 0 ≤ (triAngles acos t).2.2 := angle_nonneg' sq acos hac _ _
        have key : ∀ a : K, 0 ≤ a → (i0 = v ∨ i1 = v ∨ i2 = v) → σ * dotK d (n.smul a) ≤ 0 := by
          intro a ha hv
          have hdn := hin i0 i1 i2 t n hidx hv htri hn
          have := mul_nonpos_of_nonneg_of_nonpos ha hdn
          simp only [dotK, V3.smul] at this ⊢
          nlinarith [this]
        have z : σ * dotK d (⟨0, 0, 0⟩ : V3 K) ≤ 0 := by simp [dotK]
        simp only [dot_vadd', mul_add]
        have t1 : σ * dotK d (if i0 = v then n.smul (triAngles acos t).1 else ⟨0, 0, 0⟩) ≤ 0 := by
          split_ifs with e
          · exact key _ a1 (Or.inl e)
          · exact z
        have t2 : σ * dotK d (if i1 = v then n.smul (triAngles acos t).2.1 else ⟨0, 0, 0⟩) ≤ 0 := by
          split_ifs with e
          · exact key _ a2 (Or.inr (Or.inl e))
          · exact z
        have t3 : σ * dotK d (if i2 = v then n.smul (triAngles acos t).2.2 else ⟨0, 0, 0⟩) ≤ 0 := by
          split_ifs with e
          · exact key _ a3 (Or.inr (Or.inr e))
          · exact z
        linarith

theorem tm_pn_vertex_inside_local (acos : K → K) (hac : ∀ x, 0 ≤ acos x) (m : Mesh K) (hd : DistinctIdx m)
    (pn : PseudoNormals K) (h : letI := fieldNum K sq; computePseudoNormals acos m = some pn)
    (v : Nat) (hv : v < m.verts.size) (pt x : V3 K)
    (hin : letI := fieldNum K sq
      ∀ f i0 i1 i2 t n, m.idx[f]? = some (i0, i1, i2) → (i0 = v ∨ i1 = v ∨ i2 = v) → m.tri? f = some t →
        triNormal? t = some n → dotK ⟨pt.x - x.x, pt.y - x.y, pt.z - x.z⟩ n ≤ 0) :
    letI := fieldNum K sq
    ∃ N, pn.vertexN[v]? = some N ∧ insideBy pt x N = true := by
  letI := fieldNum K sq
  refine ⟨_, tm_pn_vertex_sum sq acos m hd pn h v hv, ?_⟩
  rw [tm_inside_decision]
  apply dot_vsum_nonpos'
  intro c hc
  obtain ⟨f, _, rfl⟩ := List.mem_map.mp hc
  have := contrib_sign sq acos hac m v f ⟨pt.x - x.x, pt.y - x.y, pt.z - x.z⟩ 1
    (fun i0 i1 i2 t n h1 h2 h3 h4 => by rw [one_mul]; exact hin f i0 i1 i2 t n h1 h2 h3 h4)
  rwa [one_mul] at this

theorem tm_pn_vertex_outside_local (acos : K → K) (hac : ∀ x, 0 ≤ acos x) (m : Mesh K) (hd : DistinctIdx m)
    (pn : PseudoNormals K) (h : letI := fieldNum K sq; computePseudoNormals acos m = some pn)
    (v : Nat) (hv : v < m.verts.size) (pt x : V3 K)
    (hout : letI := fieldNum K sq
      ∀ f i0 i1 i2 t n, m.idx[f]? = some (i0, i1, i2) → (i0 = v ∨ i1 = v ∨ i2 = v) → m.tri? f = some t →
        triNormal? t = some n → 0 ≤ dotK ⟨pt.x - x.x, pt.y - x.y, pt.z - x.z⟩ n)
    (f0 : Nat) (hf0 : f0 < m.idx.size)
    (hpos : 0 < dotK ⟨pt.x - x.x, pt.y - x.y, pt.z - x.z⟩ (pnContrib sq acos m f0 v)) :
    letI := fieldNum K sq
    ∃ N, pn.vertexN[v]? = some N ∧ insideBy pt x N = false := by
  letI := fieldNum K sq
  refine ⟨_, tm_pn_vertex_sum sq acos m hd pn h v hv, ?_⟩
  rw [Bool.eq_false_iff]
  intro hins
  have hle := (tm_inside_decision sq pt x _).mp hins
  have hgt : 0 < dotK ⟨pt.x - x.x, pt.y - x.y, pt.z - x.z⟩
      (vsumK ((List.range m.idx.size).map fun f => pnContrib sq acos m f v)) := by
    apply dot_vsum_pos' _ _ _ (pnContrib sq acos m f0 v) (List.mem_map.mpr ⟨f0, List.mem_range.mpr hf0, rfl⟩) hpos
    intro c hc
    obtain ⟨f, _, rfl⟩ := List.mem_map.mp hc
    have := contrib_sign sq acos hac m v f ⟨pt.x - x.x, pt.y - x.y, pt.z - x.z⟩ (-1)
      (fun i0 i1 i2 t n h1 h2 h3 h4 => by
        have := hout f i0 i1 i2 t n h1 h2 h3 h4
        linarith)
    linarith
  linarith

/-- non-vacuity of the hypotheses of `tm_pn_vertex_outside_local` / `_inside_local`: one triangle `(0,0,0),(1,0,0),(0,1,0)`
(normal `(0,0,1)`, `sqrt 1 = 1`), constant `acos = 1`, vertex 0, query direction `±(0,0,1)` -/
example :
    letI := fieldNum ℚ (fun x => if x = 1 then 1 else 0)
    let m : Mesh ℚ := ⟨#[⟨0, 0, 0⟩, ⟨1, 0, 0⟩, ⟨0, 1, 0⟩], #[(0, 1, 2)]⟩
    (computePseudoNormals (fun _ => (1 : ℚ)) m).isSome = true ∧
    0 < dotK (⟨0, 0, 1⟩ : V3 ℚ) (pnContrib (fun x => if x = 1 then 1 else 0) (fun _ => (1 : ℚ)) m 0 0) := by
  constructor
  · simp [computePseudoNormals, pnLoop, pnStep, Mesh.tri?, triNormal?, triScaledNormal, triAngles, V3.angle, List.range_succ,
      V3.cross, V3.sub, V3.dot, V3.normSq, V3.norm, V3.sdiv, V3.smul, V3.add, V3.zero, neq, nclamp, lit, Num.sqrt, Num.ofRat,
      bind, Option.bind, edgeAdd, sortedPair]
    norm_num
  · simp [pnContrib, Mesh.tri?, triNormal?, triScaledNormal, triAngles, V3.angle, vaddK, dotK,
      V3.cross, V3.sub, V3.dot, V3.normSq, V3.norm, V3.sdiv, V3.smul, neq, nclamp, lit, Num.sqrt, Num.ofRat, bind, Option.bind]
    norm_num

end C05
