import ParryModel.Field
import ParryModel.C05.Mesh
import ParryModel.C05.Theorems8
import ParryModel.C05.Theorems9
set_option linter.style.haveILetI false
set_option linter.unusedSimpArgs false
set_option linter.unusedVariables false
set_option linter.unusedSectionVars false
/-!
# C05 property theorems, part 11 (fu4): the nearest-point theorem for an actual height field

* `hf_triangles_ok` — every triangle yielded by `HeightField::triangles()` of a field with at least 2×2 heights and non-zero `x` and
  `z` scale is non-degenerate;
* `hf_project_nearest_field` — therefore `project_local_point` of such a height field (with at least one triangle) returns a point of
  one of its triangles, and no point of any of its triangles is closer to the query point — no further hypothesis.
-/
namespace C05
open Model Model.PM

variable {K : Type} [Field K] [LinearOrder K] [IsStrictOrderedRing K] (sq : K → K)

private theorem foldlM_mem {α β : Type} (F : List β → α → Option (List β)) (P : α → β → Prop) (l : List α)
    (h : ∀ acc x r, x ∈ l → F acc x = some r → ∀ y ∈ r, y ∈ acc ∨ P x y) (init r : List β)
    (hr : l.foldlM F init = some r) : ∀ y ∈ r, y ∈ init ∨ ∃ x ∈ l, P x y := by
  induction l generalizing init with
  | nil => simp at hr; subst hr; intro y hy; exact Or.inl hy
  | cons x xs ih =>
    simp only [List.foldlM_cons, bind, Option.bind] at hr
    split at hr
    · simp at hr
    · rename_i r1 h1
      intro y hy
      rcases ih (fun acc x' r' hx' => h acc x' r' (by simp [hx'])) r1 hr y hy with h2 | ⟨x', hx', hp⟩
      · rcases h init x r1 (by simp) h1 y h2 with h3 | h3
        · exact Or.inl h3
        · exact Or.inr ⟨x, by simp, h3⟩
      · exact Or.inr ⟨x', by simp [hx'], hp⟩

theorem hf_triangles_ok (f : HField K) (hnr : 2 ≤ f.nr) (hnc : 2 ≤ f.nc) (hsx : f.scale.x ≠ 0) (hsz : f.scale.z ≠ 0)
    (ts : List (Triangle3 K)) (hts : letI := fieldNum K sq; hfTriangles f = some ts) :
    ∀ t ∈ ts, Tri3Ok t := by
  letI := fieldNum K sq
  have hcw : f.cellW ≠ 0 := by
    simp only [HField.cellW, fieldNum_lit]
    have : (2 : K) ≤ (f.nc : K) := by exact_mod_cast hnc
    have h1 : ((mkRat (f.nc : Int) 1 : ℚ) : K) = (f.nc : K) := by simp [Rat.mkRat_one]
    rw [h1]
    have : (f.nc : K) - 1 ≠ 0 := by linarith
    exact one_div_ne_zero this
  have hch : f.cellH ≠ 0 := by
    simp only [HField.cellH, fieldNum_lit]
    have : (2 : K) ≤ (f.nr : K) := by exact_mod_cast hnr
    have h1 : ((mkRat (f.nr : Int) 1 : ℚ) : K) = (f.nr : K) := by simp [Rat.mkRat_one]
    rw [h1]
    have : (f.nr : K) - 1 ≠ 0 := by linarith
    exact one_div_ne_zero this
  intro t ht
  have key : ∀ i j pr, hfTrianglesAt f i j = some pr → ∀ y ∈ optList pr, Tri3Ok y := by
    intro i j pr hpr y hy
    simp only [hfTrianglesAt] at hpr
    split_ifs at hpr with hb
    · simp only [Option.some.injEq] at hpr; subst hpr; simp [optList] at hy
    · cases hs : f.st? i j with
      | none => simp [hs] at hpr
      | some s =>
        cases h00 : f.h? i j with
        | none => simp [hs, h00] at hpr; obtain ⟨_, rfl⟩ := hpr; simp [optList] at hy
        | some y00 =>
          cases h10 : f.h? (i + 1) j with
          | none => simp [hs, h00, h10] at hpr; obtain ⟨_, rfl⟩ := hpr; simp [optList] at hy
          | some y10 =>
            cases h01 : f.h? i (j + 1) with
            | none => simp [hs, h00, h10, h01] at hpr; obtain ⟨_, rfl⟩ := hpr; simp [optList] at hy
            | some y01 =>
              cases h11 : f.h? (i + 1) (j + 1) with
              | none => simp [hs, h00, h10, h01, h11] at hpr; obtain ⟨_, rfl⟩ := hpr; simp [optList] at hy
              | some y11 =>
                simp only [hs, h00, h10, h01, h11, bind, Option.bind, pure] at hpr
                split_ifs at hpr with hrem
                · simp only [Option.some.injEq] at hpr; subst hpr; simp [optList] at hy
                · simp only [Option.some.injEq, V3.cmul] at hpr
                  subst hpr
                  refine hf_cell_triangles_ok s _ _ _ _ _ _ _ _ ?_ ?_ y hy
                  · intro e
                    have : f.cellW * f.scale.x = 0 := by
                      simp only [fieldNum_lit] at e
                      push_cast at e
                      have h1 : ((mkRat ((j : Int) + 1) 1 : ℚ) : K) = ((mkRat (j : Int) 1 : ℚ) : K) + 1 := by
                        simp [Rat.mkRat_one]
                      rw [h1] at e
                      linear_combination -e
                    rcases mul_eq_zero.mp this with h | h
                    · exact hcw h
                    · exact hsx h
                  · intro e
                    have : f.cellH * f.scale.z = 0 := by
                      simp only [fieldNum_lit] at e
                      push_cast at e
                      have h1 : ((mkRat ((i : Int) + 1) 1 : ℚ) : K) = ((mkRat (i : Int) 1 : ℚ) : K) + 1 := by
                        simp [Rat.mkRat_one]
                      rw [h1] at e
                      linear_combination -e
                    rcases mul_eq_zero.mp this with h | h
                    · exact hch h
                    · exact hsz h
  simp only [hfTriangles] at hts
  have := foldlM_mem
    (F := fun acc j => (List.range (f.nr - 1)).foldlM (fun acc i => do
        let t ← hfTrianglesAt f i j
        pure (acc ++ optList t)) acc)
    (P := fun _ y => Tri3Ok y) (List.range (f.nc - 1))
    (by
      intro acc j r _ hr y hy
      have := foldlM_mem
        (F := fun acc i => do
          let t ← hfTrianglesAt f i j
          pure (acc ++ optList t))
        (P := fun _ y => Tri3Ok y) (List.range (f.nr - 1))
        (by
          intro acc' i r' _ hr' y' hy'
          simp only [bind, Option.bind, pure] at hr'
          split at hr'
          · simp at hr'
          · rename_i pr hpr
            simp only [Option.some.injEq] at hr'
            subst hr'
            rcases List.mem_append.mp hy' with h | h
            · exact Or.inl h
            · exact Or.inr (key i j pr hpr y' h))
        acc r hr y hy
      rcases this with h | ⟨_, _, h⟩
      · exact Or.inl h
      · exact Or.inr h)
    [] ts hts t ht
  rcases this with h | ⟨_, _, h⟩
  · simp at h
  · exact h

/-- **nearest point on a height field**, no side condition on the triangles -/
theorem hf_project_nearest_field (f : HField K) (pt : V3 K) (hnr : 2 ≤ f.nr) (hnc : 2 ≤ f.nc)
    (hsx : f.scale.x ≠ 0) (hsz : f.scale.z ≠ 0) (ts : List (Triangle3 K))
    (hts : letI := fieldNum K sq; hfTriangles f = some ts) (hne : ts ≠ []) :
    letI := fieldNum K sq
    ∃ pp, hfProject f pt = some pp ∧ (∃ t ∈ ts, t.Mem pp.pt) ∧
      ∀ t ∈ ts, ∀ q, t.Mem q → dsq3 pt pp.pt ≤ dsq3 pt q :=
  hf_project_nearest sq f pt ts hts hne (hf_triangles_ok sq f hnr hnc hsx hsz ts hts)

end C05
