import ParryModel.Field
import ParryModel.C05.Mesh
set_option linter.style.haveILetI false
set_option linter.unusedSimpArgs false
set_option linter.unusedVariables false
set_option linter.unusedSectionVars false
/-!
# C05 property theorems, part 6 (fu4): `HeightField::map_elements_in_local_aabb` — the loop

* `hf_range_mem`, `hf_range_nodup` — `for j in lo..hi` visits exactly the indices `lo ≤ j < hi`, each once.
* `hf_map_elements_flat` — the double loop emits, for every cell `(i, j)` of the index range (column by column, each cell once),
  exactly the output of the loop body `hfMapCell` and nothing else (no cell is skipped or repeated, nothing is dropped between
  iterations); holds for every `Num` (also at `Float`).
* `hf_map_cell_ids` — the body emits at most the two ids of its own cell, left before right, each at most once.
* `hf_cull_sound` — the `y`-cull is conservative: a triangle all of whose heights are above (below) the box has no point in the box.
Together with `hf_range_complete`, `hf_cell_no_hole` and `hf_triangle_id_injective` (Theorems4): every triangle whose cell meets the
query box in `x`, `z` and is not `y`-culled is emitted exactly once, under its own id.
-/
namespace C05
open Model Model.PM

theorem hf_range_mem (lo hi j : Nat) : j ∈ rangeL lo hi ↔ lo ≤ j ∧ j < hi := by
  simp only [rangeL, List.mem_map, List.mem_range]
  constructor
  · rintro ⟨a, ha, rfl⟩; omega
  · rintro ⟨h1, h2⟩; exact ⟨j - lo, by omega, by omega⟩

theorem hf_range_nodup (lo hi : Nat) : (rangeL lo hi).Nodup := by
  simp only [rangeL]
  exact List.Nodup.map (fun a b h => by simpa using h) List.nodup_range

private theorem foldlM_append {α β : Type} (F : List β → α → Option (List β)) (G : α → List β) (l : List α)
    (h : ∀ acc, ∀ x ∈ l, F acc x = some (acc ++ G x)) (init : List β) :
    l.foldlM F init = some (init ++ l.flatMap G) := by
  induction l generalizing init with
  | nil => simp
  | cons x xs ih =>
    have hx := h init x (by simp)
    simp only [List.foldlM_cons, hx, List.flatMap_cons]
    have := ih (fun acc y hy => h acc y (by simp [hy])) (init ++ G x)
    simpa [List.append_assoc] using this

variable {K : Type} [Num K]

theorem hf_map_elements_flat (fl ce : K → Int) (f : HField K) (mins maxs : V3 K) (minX maxX minZ maxZ : Nat)
    (hr : hfRange fl ce f mins maxs = some (minX, maxX, minZ, maxZ))
    (hc : ∀ j ∈ rangeL minX maxX, ∀ i ∈ rangeL minZ maxZ,
      (hfMapCell f (V3.cdiv mins f.scale) (V3.cdiv maxs f.scale) i j).isSome) :
    hfMapElements fl ce f mins maxs = some ((rangeL minX maxX).flatMap fun j => (rangeL minZ maxZ).flatMap fun i =>
      (hfMapCell f (V3.cdiv mins f.scale) (V3.cdiv maxs f.scale) i j).getD []) := by
  simp only [hfMapElements, hr]
  have := foldlM_append
    (F := fun acc j => (rangeL minZ maxZ).foldlM (fun acc i => do
        let c ← hfMapCell f (V3.cdiv mins f.scale) (V3.cdiv maxs f.scale) i j
        pure (acc ++ c)) acc)
    (G := fun j => (rangeL minZ maxZ).flatMap fun i => (hfMapCell f (V3.cdiv mins f.scale) (V3.cdiv maxs f.scale) i j).getD [])
    (rangeL minX maxX)
    (by
      intro acc j hj
      apply foldlM_append
      intro acc' i hi
      obtain ⟨c, hcv⟩ := Option.isSome_iff_exists.mp (hc j hj i hi)
      simp [hcv])
    []
  simpa using this

/-- the loop body emits only ids of its own cell: a sublist of `[left id, right id]` -/
theorem hf_map_cell_ids (f : HField K) (rm rM : V3 K) (i j : Nat) (out : List (Nat × Triangle3 K))
    (h : hfMapCell f rm rM i j = some out) :
    (out.map (·.1)).Sublist [f.triangleId i j true, f.triangleId i j false] := by
  cases hs : f.st? i j with
  | none => simp [hfMapCell, hs] at h
  | some s =>
    by_cases hrem : leftRemoved s = true ∧ rightRemoved s = true
    · simp [hfMapCell, hs, hrem] at h; subst h; simp
    · cases h00 : f.h? i j with
      | none => simp [hfMapCell, hs, hrem, h00] at h
      | some y00 =>
        cases h10 : f.h? (i + 1) j with
        | none => simp [hfMapCell, hs, hrem, h00, h10] at h
        | some y10 =>
          cases h01 : f.h? i (j + 1) with
          | none => simp [hfMapCell, hs, hrem, h00, h10, h01] at h
          | some y01 =>
            cases h11 : f.h? (i + 1) (j + 1) with
            | none => simp [hfMapCell, hs, hrem, h00, h10, h01, h11] at h
            | some y11 =>
              simp [hfMapCell, hs, hrem, h00, h10, h01, h11] at h
              split_ifs at h
              · simp only [Option.some.injEq] at h; subst h; simp
              · simp only [Option.some.injEq, cellTriangles] at h
                subst h
                cases hl : leftRemoved s <;> cases hrr : rightRemoved s <;> simp [hl, hrr]

section cull
variable {F : Type} [Field F] [LinearOrder F] [IsStrictOrderedRing F]

/-- the `y`-cull is conservative (upper side): all three heights above `M` ⇒ every point of the triangle is above `M` -/
theorem hf_cull_sound (M y1 y2 y3 b1 b2 b3 : F) (h1 : M < y1) (h2 : M < y2) (h3 : M < y3)
    (hb1 : 0 ≤ b1) (hb2 : 0 ≤ b2) (hb3 : 0 ≤ b3) (hs : b1 + b2 + b3 = 1) :
    M < b1 * y1 + b2 * y2 + b3 * y3 := by
  have hpos : 0 < b1 ∨ 0 < b2 ∨ 0 < b3 := by
    by_contra hcon
    push Not at hcon
    linarith [hcon.1, hcon.2.1, hcon.2.2]
  have e1 := mul_nonneg hb1 (sub_pos.mpr h1).le
  have e2 := mul_nonneg hb2 (sub_pos.mpr h2).le
  have e3 := mul_nonneg hb3 (sub_pos.mpr h3).le
  rcases hpos with h | h | h
  all_goals have hM : M * (b1 + b2 + b3) = M := by rw [hs]; ring
  · have := mul_pos h (sub_pos.mpr h1); nlinarith [hM]
  · have := mul_pos h (sub_pos.mpr h2); nlinarith [hM]
  · have := mul_pos h (sub_pos.mpr h3); nlinarith [hM]

/-- lower side -/
theorem hf_cull_sound_below (m y1 y2 y3 b1 b2 b3 : F) (h1 : y1 < m) (h2 : y2 < m) (h3 : y3 < m)
    (hb1 : 0 ≤ b1) (hb2 : 0 ≤ b2) (hb3 : 0 ≤ b3) (hs : b1 + b2 + b3 = 1) :
    b1 * y1 + b2 * y2 + b3 * y3 < m := by
  have := hf_cull_sound (-m) (-y1) (-y2) (-y3) b1 b2 b3 (by linarith) (by linarith) (by linarith) hb1 hb2 hb3 hs
  linarith
end cull

end C05
