import ParryModel.Field
import ParryModel.C05.Model
import ParryModel.C05.Lemmas
set_option linter.style.haveILetI false
set_option linter.unusedSimpArgs false
/-!
# C05: 2-D triangle projection, branch-by-branch core (used by `Theorems.lean`)
-/
namespace C05
open Model

/-- `Triangle2.projectLoc` with every intermediate quantity as a parameter (so that case analysis is cheap) -/
def tri2Flat {K : Type} [Num K] (a b c pt ab ac bc : V2 K) (ab_ap ac_ap ab_bp ac_bp ab_cp ac_cp vc vb va apn bpn bc_bp : K) (solid : Bool) :
    PP2 K × TriLoc K :=
  if ab_ap ≤ 0 ∧ ac_ap ≤ 0 then (⟨V2.beq pt a, a⟩, TriLoc.vertex 0)
  else if 0 ≤ ab_bp ∧ ac_bp ≤ ab_bp then (⟨V2.beq pt b, b⟩, TriLoc.vertex 1)
  else if 0 ≤ ac_cp ∧ ab_cp ≤ ac_cp then (⟨V2.beq pt c, c⟩, TriLoc.vertex 2)
  else if vc < 0 ∧ 0 ≤ ab_ap ∧ ab_bp ≤ 0 then
    (⟨V2.beq pt (a.add (ab.smul (ab_ap / ab.normSq))), a.add (ab.smul (ab_ap / ab.normSq))⟩,
      TriLoc.edge 0 (1 - ab_ap / ab.normSq) (ab_ap / ab.normSq))
  else if vb < 0 ∧ 0 ≤ ac_ap ∧ ac_cp ≤ 0 then
    (⟨V2.beq pt (a.add (ac.smul (ac_ap / ac.normSq))), a.add (ac.smul (ac_ap / ac.normSq))⟩,
      TriLoc.edge 2 (1 - ac_ap / ac.normSq) (ac_ap / ac.normSq))
  else if va < 0 ∧ 0 ≤ ac_bp - ab_bp ∧ 0 ≤ ab_cp - ac_cp then
    (⟨V2.beq pt (b.add (bc.smul (bc_bp / bc.normSq))), b.add (bc.smul (bc_bp / bc.normSq))⟩,
      TriLoc.edge 1 (1 - bc_bp / bc.normSq) (bc_bp / bc.normSq))
  else if solid then (⟨true, pt⟩, TriLoc.solid)
  else
    let v := ab_ap / (ab_ap - ab_bp)
    let w := ac_ap / (ac_ap - ac_cp)
    let u := (ac_bp - ab_bp) / (ac_bp - ab_bp + ab_cp - ac_cp)
    let d_ab := apn - (ab.normSq * v * v)
    let d_ac := apn - (ac.normSq * w * w)
    let d_bc := bpn - (bc.normSq * u * u)
    if d_ab < d_ac then
      if d_ab < d_bc then (⟨true, a.add (ab.smul v)⟩, TriLoc.edge 0 (1 - v) v)
      else (⟨true, b.add (bc.smul u)⟩, TriLoc.edge 1 (1 - u) u)
    else if d_ac < d_bc then (⟨true, a.add (ac.smul w)⟩, TriLoc.edge 2 (1 - w) w)
    else (⟨true, b.add (bc.smul u)⟩, TriLoc.edge 1 (1 - u) u)

variable {K : Type} [Field K] [LinearOrder K] [IsStrictOrderedRing K] (sq : K → K)

theorem neq_iff (a b : K) : @neq K (fieldNum K sq) a b = true ↔ a = b := by
  simp only [neq, Bool.and_eq_true, decide_eq_true_eq]
  exact ⟨fun ⟨h1, h2⟩ => le_antisymm h1 h2, fun h => by subst h; exact ⟨le_refl _, le_refl _⟩⟩

theorem eq_comm2 {α : Type} {a b c d : α} : (a = b ∧ c = d) ↔ (b = a ∧ d = c) :=
  ⟨fun ⟨h1, h2⟩ => ⟨h1.symm, h2.symm⟩, fun ⟨h1, h2⟩ => ⟨h1.symm, h2.symm⟩⟩

/-- membership in scalar form -/
theorem tri2_mem_iff (ax ay bx by' cx cy qx qy : K) :
    letI := fieldNum K sq
    (⟨⟨ax, ay⟩, ⟨bx, by'⟩, ⟨cx, cy⟩⟩ : Triangle2 K).Mem ⟨qx, qy⟩ ↔
      ∃ u v : K, 0 ≤ u ∧ 0 ≤ v ∧ u + v ≤ 1 ∧ qx = ax + (bx - ax) * u + (cx - ax) * v ∧ qy = ay + (by' - ay) * u + (cy - ay) * v := by
  simp only [Triangle2.Mem, V2.add, V2.sub, V2.smul, V2.mk.injEq]

theorem tri2_projectLoc_eq_flat (s : Triangle2 K) (pt : V2 K) (solid : Bool) :
    letI := fieldNum K sq
    s.projectLoc pt solid =
      tri2Flat s.a s.b s.c pt (s.b.sub s.a) (s.c.sub s.a) (s.c.sub s.b)
        ((s.b.sub s.a).dot (pt.sub s.a)) ((s.c.sub s.a).dot (pt.sub s.a))
        ((s.b.sub s.a).dot (pt.sub s.b)) ((s.c.sub s.a).dot (pt.sub s.b))
        ((s.b.sub s.a).dot (pt.sub s.c)) ((s.c.sub s.a).dot (pt.sub s.c))
        ((s.b.sub s.a).perp (s.c.sub s.a) * (s.b.sub s.a).perp (pt.sub s.a))
        (-(s.b.sub s.a).perp (s.c.sub s.a) * (s.c.sub s.a).perp (pt.sub s.c))
        ((s.b.sub s.a).perp (s.c.sub s.a) * (s.c.sub s.b).perp (pt.sub s.b))
        (pt.sub s.a).normSq (pt.sub s.b).normSq ((s.c.sub s.b).dot (pt.sub s.b)) solid := rfl

/-- Gram facts of a non-degenerate triangle: `|ab|² > 0`, `|ac|² > 0`, `|bc|² > 0`, `|ab|²|ac|² - (ab·ac)² = n² > 0` -/
theorem tri2_gram (ax ay bx by' cx cy : K) (hn : (bx - ax) * (cy - ay) - (by' - ay) * (cx - ax) ≠ 0) :
    0 < (bx - ax) * (bx - ax) + (by' - ay) * (by' - ay) ∧
    0 < (cx - ax) * (cx - ax) + (cy - ay) * (cy - ay) ∧
    0 < (cx - bx) * (cx - bx) + (cy - by') * (cy - by') ∧
    0 < ((bx - ax) * (bx - ax) + (by' - ay) * (by' - ay)) * ((cx - ax) * (cx - ax) + (cy - ay) * (cy - ay))
      - ((bx - ax) * (cx - ax) + (by' - ay) * (cy - ay)) * ((bx - ax) * (cx - ax) + (by' - ay) * (cy - ay)) := by
  refine ⟨?_, ?_, ?_, ?_⟩
  · by_contra h; push Not at h
    obtain ⟨e1, e2⟩ := sumsq2_eq_zero h
    apply hn; rw [e1, e2]; ring
  · by_contra h; push Not at h
    obtain ⟨e1, e2⟩ := sumsq2_eq_zero h
    apply hn; rw [e1, e2]; ring
  · by_contra h; push Not at h
    obtain ⟨e1, e2⟩ := sumsq2_eq_zero h
    apply hn
    have e1' : cx = bx := by linarith
    have e2' : cy = by' := by linarith
    rw [e1', e2']; ring
  · have : ((bx - ax) * (bx - ax) + (by' - ay) * (by' - ay)) * ((cx - ax) * (cx - ax) + (cy - ay) * (cy - ay))
      - ((bx - ax) * (cx - ax) + (by' - ay) * (cy - ay)) * ((bx - ax) * (cx - ax) + (by' - ay) * (cy - ay))
      = ((bx - ax) * (cy - ay) - (by' - ay) * (cx - ax)) * ((bx - ax) * (cy - ay) - (by' - ay) * (cx - ax)) := by ring
    rw [this]; exact mul_self_pos.mpr hn

/-- **face region**: if none of the six Voronoi tests fires, the query point is in the triangle. -/
theorem tri2_face_mem (ax ay bx by' cx cy px py : K)
    (hn : (bx - ax) * (cy - ay) - (by' - ay) * (cx - ax) ≠ 0)
    (ab_ap ac_ap ab_bp ac_bp ab_cp ac_cp vc vb va : K)
    (e1 : ab_ap = (bx - ax) * (px - ax) + (by' - ay) * (py - ay))
    (e2 : ac_ap = (cx - ax) * (px - ax) + (cy - ay) * (py - ay))
    (e3 : ab_bp = (bx - ax) * (px - bx) + (by' - ay) * (py - by'))
    (e4 : ac_bp = (cx - ax) * (px - bx) + (cy - ay) * (py - by'))
    (e5 : ab_cp = (bx - ax) * (px - cx) + (by' - ay) * (py - cy))
    (e6 : ac_cp = (cx - ax) * (px - cx) + (cy - ay) * (py - cy))
    (e7 : vc = ((bx - ax) * (cy - ay) - (by' - ay) * (cx - ax)) * ((bx - ax) * (py - ay) - (by' - ay) * (px - ax)))
    (e8 : vb = -((bx - ax) * (cy - ay) - (by' - ay) * (cx - ax)) * ((cx - ax) * (py - cy) - (cy - ay) * (px - cx)))
    (e9 : va = ((bx - ax) * (cy - ay) - (by' - ay) * (cx - ax)) * ((cx - bx) * (py - by') - (cy - by') * (px - bx)))
    (t1 : ¬(ab_ap ≤ 0 ∧ ac_ap ≤ 0))
    (t2 : ¬(0 ≤ ab_bp ∧ ac_bp ≤ ab_bp))
    (t3 : ¬(0 ≤ ac_cp ∧ ab_cp ≤ ac_cp))
    (t4 : ¬(vc < 0 ∧ 0 ≤ ab_ap ∧ ab_bp ≤ 0))
    (t5 : ¬(vb < 0 ∧ 0 ≤ ac_ap ∧ ac_cp ≤ 0))
    (t6 : ¬(va < 0 ∧ 0 ≤ ac_bp - ab_bp ∧ 0 ≤ ab_cp - ac_cp)) :
    ∃ u v : K, 0 ≤ u ∧ 0 ≤ v ∧ u + v ≤ 1 ∧ px = ax + (bx - ax) * u + (cx - ax) * v ∧ py = ay + (by' - ay) * u + (cy - ay) * v := by
  obtain ⟨hA, hC, hBC, hD⟩ := tri2_gram ax ay bx by' cx cy hn
  have hnn : 0 < ((bx - ax) * (cy - ay) - (by' - ay) * (cx - ax)) * ((bx - ax) * (cy - ay) - (by' - ay) * (cx - ax)) :=
    mul_self_pos.mpr hn
  have hs := div_mul_cancel₀ ((px - ax) * (cy - ay) - (py - ay) * (cx - ax)) hn
  have ht := div_mul_cancel₀ ((bx - ax) * (py - ay) - (by' - ay) * (px - ax)) hn
  obtain ⟨s, t, hpx, hpy⟩ : ∃ s t : K, px = ax + s * (bx - ax) + t * (cx - ax) ∧ py = ay + s * (by' - ay) + t * (cy - ay) := by
    refine ⟨((px - ax) * (cy - ay) - (py - ay) * (cx - ax)) / ((bx - ax) * (cy - ay) - (by' - ay) * (cx - ax)),
     ((bx - ax) * (py - ay) - (by' - ay) * (px - ax)) / ((bx - ax) * (cy - ay) - (by' - ay) * (cx - ax)), ?_, ?_⟩
    · apply mul_left_cancel₀ hn
      linear_combination (-(bx - ax)) * hs + (-(cx - ax)) * ht
    · apply mul_left_cancel₀ hn
      linear_combination (-(by' - ay)) * hs + (-(cy - ay)) * ht
  clear hs ht
  subst hpx hpy e1 e2 e3 e4 e5 e6 e7 e8 e9
  generalize hN : (bx - ax) * (cy - ay) - (by' - ay) * (cx - ax) = n at *
  have h := tri_face_inside ((bx - ax) * (bx - ax) + (by' - ay) * (by' - ay)) ((bx - ax) * (cx - ax) + (by' - ay) * (cy - ay))
    ((cx - ax) * (cx - ax) + (cy - ay) * (cy - ay)) s t hA hC hD
    (fun ⟨x, y⟩ => t1 ⟨by linarith, by linarith⟩)
    (fun ⟨x, y⟩ => t2 ⟨by linarith, by linarith⟩)
    (fun ⟨x, y⟩ => t3 ⟨by linarith, by linarith⟩)
    (fun ⟨x, y, z⟩ => t4 ⟨by
        have h1 : t * (n * n) < 0 := mul_neg_of_neg_of_pos x hnn
        have h2 : n * ((bx - ax) * (ay + s * (by' - ay) + t * (cy - ay) - ay) - (by' - ay) * (ax + s * (bx - ax) + t * (cx - ax) - ax))
            = t * (n * n) := by rw [← hN]; ring
        linarith, by linarith, by linarith⟩)
    (fun ⟨x, y, z⟩ => t5 ⟨by
        have h1 : s * (n * n) < 0 := mul_neg_of_neg_of_pos x hnn
        have h2 : -n * ((cx - ax) * (ay + s * (by' - ay) + t * (cy - ay) - cy) - (cy - ay) * (ax + s * (bx - ax) + t * (cx - ax) - cx))
            = s * (n * n) := by rw [← hN]; ring
        linarith, by linarith, by linarith⟩)
    (fun ⟨x, y, z⟩ => t6 ⟨by
        have h1 : (1 - s - t) * (n * n) < 0 := mul_neg_of_neg_of_pos x hnn
        have h2 : n * ((cx - bx) * (ay + s * (by' - ay) + t * (cy - ay) - by') - (cy - by') * (ax + s * (bx - ax) + t * (cx - ax) - bx))
            = (1 - s - t) * (n * n) := by rw [← hN]; ring
        linarith, by linarith, by linarith⟩)
  exact ⟨s, t, h.1, h.2.1, h.2.2, by ring, by ring⟩

set_option maxHeartbeats 1000000 in
/-- everything about one evaluation of `project_local_point_and_get_location` (2-D), branch by branch:
either we are in the non-solid interior tail, or the result is a member satisfying the variational inequality
and the inside flag is `proj == pt`. -/
theorem tri2_flat_core (ax ay bx by' cx cy px py : K) (solid : Bool)
    (hn : (bx - ax) * (cy - ay) - (by' - ay) * (cx - ax) ≠ 0)
    (ab_ap ac_ap ab_bp ac_bp ab_cp ac_cp vc vb va apn bpn bc_bp : K)
    (e1 : ab_ap = (bx - ax) * (px - ax) + (by' - ay) * (py - ay))
    (e2 : ac_ap = (cx - ax) * (px - ax) + (cy - ay) * (py - ay))
    (e3 : ab_bp = (bx - ax) * (px - bx) + (by' - ay) * (py - by'))
    (e4 : ac_bp = (cx - ax) * (px - bx) + (cy - ay) * (py - by'))
    (e5 : ab_cp = (bx - ax) * (px - cx) + (by' - ay) * (py - cy))
    (e6 : ac_cp = (cx - ax) * (px - cx) + (cy - ay) * (py - cy))
    (e7 : vc = ((bx - ax) * (cy - ay) - (by' - ay) * (cx - ax)) * ((bx - ax) * (py - ay) - (by' - ay) * (px - ax)))
    (e8 : vb = -((bx - ax) * (cy - ay) - (by' - ay) * (cx - ax)) * ((cx - ax) * (py - cy) - (cy - ay) * (px - cx)))
    (e9 : va = ((bx - ax) * (cy - ay) - (by' - ay) * (cx - ax)) * ((cx - bx) * (py - by') - (cy - by') * (px - bx)))
    (e10 : bc_bp = (cx - bx) * (px - bx) + (cy - by') * (py - by')) :
    letI := fieldNum K sq
    ∀ r : PP2 K × TriLoc K,
      r = tri2Flat ⟨ax, ay⟩ ⟨bx, by'⟩ ⟨cx, cy⟩ ⟨px, py⟩ ⟨bx - ax, by' - ay⟩ ⟨cx - ax, cy - ay⟩ ⟨cx - bx, cy - by'⟩
            ab_ap ac_ap ab_bp ac_bp ab_cp ac_cp vc vb va apn bpn bc_bp solid →
    (solid = false ∧ (⟨⟨ax, ay⟩, ⟨bx, by'⟩, ⟨cx, cy⟩⟩ : Triangle2 K).Mem ⟨px, py⟩ ∧ r.1.inside = true) ∨
    ((⟨⟨ax, ay⟩, ⟨bx, by'⟩, ⟨cx, cy⟩⟩ : Triangle2 K).Mem r.1.pt ∧
      (∀ qx qy : K, (⟨⟨ax, ay⟩, ⟨bx, by'⟩, ⟨cx, cy⟩⟩ : Triangle2 K).Mem ⟨qx, qy⟩ →
        (px - r.1.pt.x) * (qx - r.1.pt.x) + (py - r.1.pt.y) * (qy - r.1.pt.y) ≤ 0) ∧
      (r.1.inside = true ↔ r.1.pt = ⟨px, py⟩)) := by
  letI := fieldNum K sq
  obtain ⟨hA, hC, hBC, hD⟩ := tri2_gram ax ay bx by' cx cy hn
  intro r hr
  unfold tri2Flat at hr
  split_ifs at hr with t1 t2 t3 t4 t5 t6 t7 <;> subst hr
  · -- vertex a
    simp only [V2.add, V2.smul, V2.normSq, V2.dot, V2.beq, Bool.and_eq_true, neq_iff, V2.mk.injEq, tri2_mem_iff]
    subst e1 e2
    right
    refine ⟨⟨0, 0, le_refl _, le_refl _, by norm_num, by ring, by ring⟩, ?_, eq_comm2⟩
    rintro qx qy ⟨u, v, hu, hv, _, rfl, rfl⟩
    linarith [mul_nonneg hu (neg_nonneg.2 t1.1), mul_nonneg hv (neg_nonneg.2 t1.2)]
  · -- vertex b
    simp only [V2.add, V2.smul, V2.normSq, V2.dot, V2.beq, Bool.and_eq_true, neq_iff, V2.mk.injEq, tri2_mem_iff]
    subst e3 e4
    right
    refine ⟨⟨1, 0, by norm_num, le_refl _, by norm_num, by ring, by ring⟩, ?_, eq_comm2⟩
    rintro qx qy ⟨u, v, hu, hv, huv, rfl, rfl⟩
    linarith [mul_nonneg (sub_nonneg.2 huv) t2.1, mul_nonneg hv (sub_nonneg.2 t2.2)]
  · -- vertex c
    simp only [V2.add, V2.smul, V2.normSq, V2.dot, V2.beq, Bool.and_eq_true, neq_iff, V2.mk.injEq, tri2_mem_iff]
    subst e5 e6
    right
    refine ⟨⟨0, 1, le_refl _, by norm_num, by norm_num, by ring, by ring⟩, ?_, eq_comm2⟩
    rintro qx qy ⟨u, v, hu, hv, huv, rfl, rfl⟩
    linarith [mul_nonneg (sub_nonneg.2 huv) t3.1, mul_nonneg hu (sub_nonneg.2 t3.2)]
  · -- edge ab
    simp only [V2.add, V2.smul, V2.normSq, V2.dot, V2.beq, Bool.and_eq_true, neq_iff, V2.mk.injEq, tri2_mem_iff]
    subst e1 e3 e7
    right
    obtain ⟨tv, tp, tb⟩ := t4
    have hk := div_mul_cancel₀ ((bx - ax) * (px - ax) + (by' - ay) * (py - ay)) (ne_of_gt hA)
    have hk0 : 0 ≤ ((bx - ax) * (px - ax) + (by' - ay) * (py - ay)) / ((bx - ax) * (bx - ax) + (by' - ay) * (by' - ay)) :=
      div_nonneg tp hA.le
    have hk1 : ((bx - ax) * (px - ax) + (by' - ay) * (py - ay)) / ((bx - ax) * (bx - ax) + (by' - ay) * (by' - ay)) ≤ 1 := by
      rw [div_le_one hA]; linarith
    generalize ((bx - ax) * (px - ax) + (by' - ay) * (py - ay)) / ((bx - ax) * (bx - ax) + (by' - ay) * (by' - ay)) = k at *
    refine ⟨⟨k, 0, hk0, le_refl _, by linarith, by ring, by ring⟩, ?_, eq_comm2⟩
    rintro qx qy ⟨u, v, hu, hv, huv, rfl, rfl⟩
    have hX : ((cx - ax) * (px - ax) + (cy - ay) * (py - ay) - k * ((bx - ax) * (cx - ax) + (by' - ay) * (cy - ay)))
        * ((bx - ax) * (bx - ax) + (by' - ay) * (by' - ay))
        = ((bx - ax) * (cy - ay) - (by' - ay) * (cx - ax)) * ((bx - ax) * (py - ay) - (by' - ay) * (px - ax)) := by
      linear_combination (-((bx - ax) * (cx - ax) + (by' - ay) * (cy - ay))) * hk
    have hneg : (cx - ax) * (px - ax) + (cy - ay) * (py - ay) - k * ((bx - ax) * (cx - ax) + (by' - ay) * (cy - ay)) < 0 := by
      by_contra h; push Not at h
      have := mul_nonneg h hA.le
      linarith
    have e : (px - (ax + (bx - ax) * k)) * (ax + (bx - ax) * u + (cx - ax) * v - (ax + (bx - ax) * k))
        + (py - (ay + (by' - ay) * k)) * (ay + (by' - ay) * u + (cy - ay) * v - (ay + (by' - ay) * k))
        = v * ((cx - ax) * (px - ax) + (cy - ay) * (py - ay) - k * ((bx - ax) * (cx - ax) + (by' - ay) * (cy - ay))) := by
      linear_combination (-(u - k)) * hk
    rw [e]
    exact mul_nonpos_of_nonneg_of_nonpos hv hneg.le
  · -- edge ac
    simp only [V2.add, V2.smul, V2.normSq, V2.dot, V2.beq, Bool.and_eq_true, neq_iff, V2.mk.injEq, tri2_mem_iff]
    subst e2 e6 e8
    right
    obtain ⟨tv, tp, tb⟩ := t5
    have hk := div_mul_cancel₀ ((cx - ax) * (px - ax) + (cy - ay) * (py - ay)) (ne_of_gt hC)
    have hk0 : 0 ≤ ((cx - ax) * (px - ax) + (cy - ay) * (py - ay)) / ((cx - ax) * (cx - ax) + (cy - ay) * (cy - ay)) :=
      div_nonneg tp hC.le
    have hk1 : ((cx - ax) * (px - ax) + (cy - ay) * (py - ay)) / ((cx - ax) * (cx - ax) + (cy - ay) * (cy - ay)) ≤ 1 := by
      rw [div_le_one hC]; linarith
    generalize ((cx - ax) * (px - ax) + (cy - ay) * (py - ay)) / ((cx - ax) * (cx - ax) + (cy - ay) * (cy - ay)) = k at *
    refine ⟨⟨0, k, le_refl _, hk0, by linarith, by ring, by ring⟩, ?_, eq_comm2⟩
    rintro qx qy ⟨u, v, hu, hv, huv, rfl, rfl⟩
    have hX : ((bx - ax) * (px - ax) + (by' - ay) * (py - ay) - k * ((bx - ax) * (cx - ax) + (by' - ay) * (cy - ay)))
        * ((cx - ax) * (cx - ax) + (cy - ay) * (cy - ay))
        = -((bx - ax) * (cy - ay) - (by' - ay) * (cx - ax)) * ((cx - ax) * (py - cy) - (cy - ay) * (px - cx)) := by
      linear_combination (-((bx - ax) * (cx - ax) + (by' - ay) * (cy - ay))) * hk
    have hneg : (bx - ax) * (px - ax) + (by' - ay) * (py - ay) - k * ((bx - ax) * (cx - ax) + (by' - ay) * (cy - ay)) < 0 := by
      by_contra h; push Not at h
      have := mul_nonneg h hC.le
      linarith
    have e : (px - (ax + (cx - ax) * k)) * (ax + (bx - ax) * u + (cx - ax) * v - (ax + (cx - ax) * k))
        + (py - (ay + (cy - ay) * k)) * (ay + (by' - ay) * u + (cy - ay) * v - (ay + (cy - ay) * k))
        = u * ((bx - ax) * (px - ax) + (by' - ay) * (py - ay) - k * ((bx - ax) * (cx - ax) + (by' - ay) * (cy - ay))) := by
      linear_combination (-(v - k)) * hk
    rw [e]
    exact mul_nonpos_of_nonneg_of_nonpos hu hneg.le
  · -- edge bc
    simp only [V2.add, V2.smul, V2.normSq, V2.dot, V2.beq, Bool.and_eq_true, neq_iff, V2.mk.injEq, tri2_mem_iff]
    subst e3 e4 e5 e6 e9 e10
    right
    obtain ⟨tv, tp, tb⟩ := t6
    have hk := div_mul_cancel₀ ((cx - bx) * (px - bx) + (cy - by') * (py - by')) (ne_of_gt hBC)
    have hk0 : 0 ≤ ((cx - bx) * (px - bx) + (cy - by') * (py - by')) / ((cx - bx) * (cx - bx) + (cy - by') * (cy - by')) :=
      div_nonneg (by linarith) hBC.le
    have hk1 : ((cx - bx) * (px - bx) + (cy - by') * (py - by')) / ((cx - bx) * (cx - bx) + (cy - by') * (cy - by')) ≤ 1 := by
      rw [div_le_one hBC]; linarith
    generalize ((cx - bx) * (px - bx) + (cy - by') * (py - by')) / ((cx - bx) * (cx - bx) + (cy - by') * (cy - by')) = k at *
    refine ⟨⟨1 - k, k, by linarith, hk0, by linarith, by ring, by ring⟩, ?_, eq_comm2⟩
    rintro qx qy ⟨u, v, hu, hv, huv, rfl, rfl⟩
    have hX : ((ax - bx) * (px - bx) + (ay - by') * (py - by') - k * ((ax - bx) * (cx - bx) + (ay - by') * (cy - by')))
        * ((cx - bx) * (cx - bx) + (cy - by') * (cy - by'))
        = ((bx - ax) * (cy - ay) - (by' - ay) * (cx - ax)) * ((cx - bx) * (py - by') - (cy - by') * (px - bx)) := by
      linear_combination (-((ax - bx) * (cx - bx) + (ay - by') * (cy - by'))) * hk
    have hneg : (ax - bx) * (px - bx) + (ay - by') * (py - by') - k * ((ax - bx) * (cx - bx) + (ay - by') * (cy - by')) < 0 := by
      by_contra h; push Not at h
      have := mul_nonneg h hBC.le
      linarith
    have e : (px - (bx + (cx - bx) * k)) * (ax + (bx - ax) * u + (cx - ax) * v - (bx + (cx - bx) * k))
        + (py - (by' + (cy - by') * k)) * (ay + (by' - ay) * u + (cy - ay) * v - (by' + (cy - by') * k))
        = (1 - u - v) * ((ax - bx) * (px - bx) + (ay - by') * (py - by') - k * ((ax - bx) * (cx - bx) + (ay - by') * (cy - by'))) := by
      linear_combination (-(v - k)) * hk
    rw [e]
    exact mul_nonpos_of_nonneg_of_nonpos (by linarith) hneg.le
  · -- face, solid
    simp only [V2.add, V2.smul, V2.normSq, V2.dot, V2.beq, Bool.and_eq_true, neq_iff, V2.mk.injEq, tri2_mem_iff]
    right
    refine ⟨tri2_face_mem ax ay bx by' cx cy px py hn ab_ap ac_ap ab_bp ac_bp ab_cp ac_cp vc vb va e1 e2 e3 e4 e5 e6 e7 e8 e9 t1 t2 t3 t4 t5 t6, ?_, by simp⟩
    intro qx qy _
    simp
  · -- non-solid interior tail
    left
    refine ⟨by simpa using t7, ?_, ?_⟩
    · rw [tri2_mem_iff]
      exact tri2_face_mem ax ay bx by' cx cy px py hn ab_ap ac_ap ab_bp ac_bp ab_cp ac_cp vc vb va e1 e2 e3 e4 e5 e6 e7 e8 e9 t1 t2 t3 t4 t5 t6
    · dsimp only
      split_ifs <;> rfl

end C05
