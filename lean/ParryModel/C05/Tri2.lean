import ParryModel.Field
import ParryModel.C05.Model
import ParryModel.C05.Lemmas
set_option linter.style.haveILetI false
set_option linter.unusedSimpArgs false
/-!
# C05: 2-D triangle projection, branch-by-branch core (used by `Theorems.lean`)
-/
namespace C05
open Model

/-- `Triangle2.projectLoc` with every intermediate quantity as a parameter (so that case analysis is cheap) -/
def tri2Flat {K : Type} [Num K] (a b c pt ab ac bc : V2 K) (ab_ap ac_ap ab_bp ac_bp ab_cp ac_cp vc vb va apn bpn bc_bp : K) (solid : Bool) :
    PP2 K × TriLoc K :=
  if ab_ap ≤ 0 ∧ ac_ap ≤ 0 then (⟨V2.beq pt a, a⟩, TriLoc.vertex 0)
  else if 0 ≤ ab_bp ∧ ac_bp ≤ ab_bp then (⟨V2.beq pt b, b⟩, TriLoc.vertex 1)
  else if 0 ≤ ac_cp ∧ ab_cp ≤ ac_cp then (⟨V2.beq pt c, c⟩, TriLoc.vertex 2)
  else if vc < 0 ∧ 0 ≤ ab_ap ∧ ab_bp ≤ 0 then
    (⟨V2.beq pt (a.add (ab.smul (ab_ap / ab.normSq))), a.add (ab.smul (ab_ap / ab.normSq))⟩,
      TriLoc.edge 0 (1 - ab_ap / ab.normSq) (ab_ap / ab.normSq))
  else if vb < 0 ∧ 0 ≤ ac_ap ∧ ac_cp ≤ 0 then
    (⟨V2.beq pt (a.add (ac.smul (ac_ap / ac.normSq))), a.add (ac.smul (ac_ap / ac.normSq))⟩,
      TriLoc.edge 2 (1 - ac_ap / ac.normSq) (ac_ap / ac.normSq))
  else if va < 0 ∧ 0 ≤ ac_bp - ab_bp ∧ 0 ≤ ab_cp - ac_cp then
    (⟨V2.beq pt (b.add (bc.smul (bc_bp / bc.normSq))), b.add (bc.smul (bc_bp / bc.normSq))⟩,
      TriLoc.edge 1 (1 - bc_bp / bc.normSq) (bc_bp / bc.normSq))
  else if solid then (⟨true, pt⟩, TriLoc.solid)
  else
    let v := ab_ap / (ab_ap - ab_bp)
    let w := ac_ap / (ac_ap - ac_cp)
    let u := (ac_bp - ab_bp) / (ac_bp - ab_bp + ab_cp - ac_cp)
    let d_ab := apn - (ab.normSq * v * v)
    let d_ac := apn - (ac.normSq * w * w)
    let d_bc := bpn - (bc.normSq * u * u)
    if d_ab < d_ac then
      if d_ab < d_bc then (⟨true, a.add (ab.smul v)⟩, TriLoc.edge 0 (1 - v) v)
      else (⟨true, b.add (bc.smul u)⟩, TriLoc.edge 1 (1 - u) u)
    else if d_ac < d_bc then (⟨true, a.add (ac.smul w)⟩, TriLoc.edge 2 (1 - w) w)
    else (⟨true, b.add (bc.smul u)⟩, TriLoc.edge 1 (1 - u) u)

variable {K : Type} [Field K] [LinearOrder K] [IsStrictOrderedRing K] (sq : K → K)

theorem neq_iff (a b : K) : @neq K (fieldNum K sq) a b = true ↔ a = b := by
  simp only [neq, Bool.and_eq_true, decide_eq_true_eq]
  exact ⟨fun ⟨h1, h2⟩ => le_antisymm h1 h2, fun h => by subst h; exact ⟨le_refl _, le_refl _⟩⟩

theorem eq_comm2 {α : Type} {a b c d : α} : (a = b ∧ c = d) ↔ (b = a ∧ d = c) :=
  ⟨fun ⟨h1, h2⟩ => ⟨h1.symm, h2.symm⟩, fun ⟨h1, h2⟩ => ⟨h1.symm, h2.symm⟩⟩

/-- membership in scalar form -/
theorem tri2_mem_iff (ax ay bx by' cx cy qx qy : K) :
    letI := fieldNum K sq
    (⟨⟨ax, ay⟩, ⟨bx, by'⟩, ⟨cx, cy⟩⟩ : Triangle2 K).Mem ⟨qx, qy⟩ ↔
      ∃ u v : K, 0 ≤ u ∧ 0 ≤ v ∧ u + v ≤ 1 ∧ qx = ax + (bx - ax) * u + (cx - ax) * v ∧ qy = ay + (by' - ay) * u + (cy - ay) * v := by
  simp only [Triangle2.Mem, V2.add, V2.sub, V2.smul, V2.mk.injEq]

theorem tri2_projectLoc_eq_flat (s : Triangle2 K) (pt : V2 K) (solid : Bool) :
    letI := fieldNum K sq
    s.projectLoc pt solid =
      tri2Flat s.a s.b s.c pt (s.b.sub s.a) (s.c.sub s.a) (s.c.sub s.b)
        ((s.b.sub s.a).dot (pt.sub s.a)) ((s.c.sub s.a).dot (pt.sub s.a))
        ((s.b.sub s.a).dot (pt.sub s.b)) ((s.c.sub s.a).dot (pt.sub s.b))
        ((s.b.sub s.a).dot (pt.sub s.c)) ((s.c.sub s.a).dot (pt.sub s.c))
        ((s.b.sub s.a).perp (s.c.sub s.a) * (s.b.sub s.a).perp (pt.sub s.a))
        (-(s.b.sub s.a).perp (s.c.sub s.a) * (s.c.sub s.a).perp (pt.sub s.c))
        ((s.b.sub s.a).perp (s.c.sub s.a) * (s.c.sub s.b).perp (pt.sub s.b))
        (pt.sub s.a).normSq (pt.sub s.b).normSq ((s.c.sub s.b).dot (pt.sub s.b)) solid := rfl

/-- Gram facts of a non-degenerate triangle: `|ab|² > 0`, `|ac|² > 0`, `|bc|² > 0`, `|ab|²|ac|² - (ab·ac)² = n² > 0` -/
theorem tri2_gram (ax ay bx by' cx cy : K) (hn : (bx - ax) * (cy - ay) - (by' - ay) * (cx - ax) ≠ 0) :
    0 < (bx - ax) * (bx - ax) + (by' - ay) * (by' - ay) ∧
    0 < (cx - ax) * (cx - ax) + (cy - ay) * (cy - ay) ∧
    0 < (cx - bx) * (cx - bx) + (cy - by') * (cy - by') ∧
    0 < ((bx - ax) * (bx - ax) + (by' - ay) * (by' - ay)) * ((cx - ax) * (cx - ax) + (cy - ay) * (cy - ay))
      - ((bx - ax) * (cx - ax) + (by' - ay) * (cy - ay)) * ((bx - ax) * (cx - ax) + (by' - ay) * (cy - ay)) := by
  refine ⟨?_, ?_, ?_, ?_⟩
  · by_contra h; push Not at h
    obtain ⟨e1, e2⟩ := sumsq2_eq_zero h
    apply hn; rw [e1, e2]; ring
  · by_contra h; push Not at h
    obtain ⟨e1, e2⟩ := sumsq2_eq_zero h
    apply hn; rw [e1, e2]; ring
  · by_contra h; push Not at h
    obtain ⟨e1, e2⟩ := sumsq2_eq_zero h
    apply hn
    have e1' : cx = bx := by linarith
    have e2' : cy = by' := by linarith
    rw [e1', e2']; ring
  · have : ((bx - ax) * (bx - ax) + (by' - ay) * (by' - ay)) * ((cx - ax) * (cx - ax) + (cy - ay) * (cy - ay))
      - ((bx - ax) * (cx - ax) + (by' - ay) * (cy - ay)) * ((bx - ax) * (cx - ax) + (by' - ay) * (cy - ay))
      = ((bx - ax) * (cy - ay) - (by' - ay) * (cx - ax)) * ((bx - ax) * (cy - ay) - (by' - ay) * (cx - ax)) := by ring
    rw [this]; exact mul_self_pos.mpr hn

/-- **face region**: if none of the six Voronoi tests fires, the query point is in the triangle. -/
theorem tri2_face_mem (ax ay bx by' cx cy px py : K)
    (hn : (bx - ax) * (cy - ay) - (by' - ay) * (cx - ax) ≠ 0)
    (ab_ap ac_ap ab_bp ac_bp ab_cp ac_cp vc vb va : K)
    (e1 : ab_ap = (bx - ax) * (px - ax) + (by' - ay) * (py - ay))
    (e2 : ac_ap = (cx - ax) * (px - ax) + (cy - ay) * (py - ay))
    (e3 : ab_bp = (bx - ax) * (px - bx) + (by' - ay) * (py - by'))
    (e4 : ac_bp = (cx - ax) * (px - bx) + (cy - ay) * (py - by'))
    (e5 : ab_cp = (bx - ax) * (px - cx) + (by' - ay) * (py - cy))
    (e6 : ac_cp = (cx - ax) * (px - cx) + (cy - ay) * (py - cy))
    (e7 : vc = ((bx - ax) * (cy - ay) - (by' - ay) * (cx - ax)) * ((bx - ax) * (py - ay) - (by' - ay) * (px - ax)))
    (e8 : vb = -((bx - ax) * (cy - ay) - (by' - ay) * (cx - ax)) * ((cx - ax) * (py - cy) - (cy - ay) * (px - cx)))
    (e9 : va = ((bx - ax) * (cy - ay) - (by' - ay) * (cx - ax)) * ((cx - bx) * (py - by') - (cy - by') * (px - bx)))
    (t1 : ¬(ab_ap ≤ 0 ∧ ac_ap ≤ 0))
    (t2 : ¬(0 ≤ ab_bp ∧ ac_bp ≤ ab_bp))
    (t3 : ¬(0 ≤ ac_cp ∧ ab_cp ≤ ac_cp))
    (t4 : ¬(vc < 0 ∧ 0 ≤ ab_ap ∧ ab_bp ≤ 0))
    (t5 : ¬(vb < 0 ∧ 0 ≤ ac_ap ∧ ac_cp ≤ 0))
    (t6 : ¬(va < 0 ∧ 0 ≤ ac_bp - ab_bp ∧ 0 ≤ ab_cp - ac_cp)) :
    ∃ u v : K, 0 ≤ u ∧ 0 ≤ v ∧ u + v ≤ 1 ∧ px = ax + (bx - ax) * u + (cx - ax) * v ∧ py = ay + (by' - ay) * u + (cy - ay) * v := by
  obtain ⟨hA, hC, hBC, hD⟩ := tri2_gram ax ay bx by' cx cy hn
  have hnn : 0 < ((bx - ax) * (cy - ay) - (by' - ay) * (cx - ax)) * ((bx - ax) * (cy - ay) - (by' - ay) * (cx - ax)) :=
    mul_self_pos.mpr hn
  have hs := div_mul_cancel₀ ((px - ax) * (cy - ay) - (py - ay) * (cx - ax)) hn
  have ht := div_mul_cancel₀ ((bx - ax) * (py - ay) - (by' - ay) * (px - ax)) hn
  obtain ⟨s, t, hpx, hpy⟩ : ∃ s t : K, px = ax + s * (bx - ax) + t * (cx - ax) ∧ py = ay + s * (by' - ay) + t * (cy - ay) := by
    refine ⟨((px - ax) * (cy - ay) - (py - ay) * (cx - ax)) / ((bx - ax) * (cy - ay) - (by' - ay) * (cx - ax)),
     ((bx - ax) * (py - ay) - (by' - ay) * (px - ax)) / ((bx - ax) * (cy - ay) - (by' - ay) * (cx - ax)), ?_, ?_⟩
    · apply mul_left_cancel₀ hn
      linear_combination (-(bx - ax)) * hs + (-(cx - ax)) * ht
    · apply mul_left_cancel₀ hn
      linear_combination (-(by' - ay)) * hs + (-(cy - ay)) * ht
  clear hs ht
  subst hpx hpy e1 e2 e3 e4 e5 e6 e7 e8 e9
  generalize hN : (bx - ax) * (cy - ay) - (by' - ay) * (cx - ax) = n at *
  have h := tri_face_inside ((bx - ax) * (bx - ax) + (by' - ay) * (by' - ay)) ((bx - ax) * (cx - ax) + (by' - ay) * (cy - ay))
    ((cx - ax) * (cx - ax) + (cy - ay) * (cy - ay)) s t hA hC hD
    (fun ⟨x, y⟩ => t1 ⟨by linarith, by linarith⟩)
    (fun ⟨x, y⟩ => t2 ⟨by linarith, by linarith⟩)
    (fun ⟨x, y⟩ => t3 ⟨by linarith, by linarith⟩)
    (fun ⟨x, y, z⟩ => t4 ⟨by
        have h1 : t * (n * n) < 0 := mul_neg_of_neg_of_pos x hnn
        have h2 : n * ((bx - ax) * (ay + s * (by' - ay) + t * (cy - ay) - ay) - (by' - ay) * (ax + s * (bx - ax) + t * (cx - ax) - ax))
            = t * (n * n) := by rw [← hN]; ring
        linarith, by linarith, by linarith⟩)
    (fun ⟨x, y, z⟩ => t5 ⟨by
        have h1 : s * (n * n) < 0 := mul_neg_of_neg_of_pos x hnn
        have h2 : -n * ((cx - ax) * (ay + s * (by' - ay) + t * (cy - ay) - cy) - (cy - ay) * (ax + s * (bx - ax) + t * (cx - ax) - cx))
            = s * (n * n) := by rw [← hN]; ring
        linarith, by linarith, by linarith⟩)
    (fun ⟨x, y, z⟩ => t6 ⟨by
        have h1 : (1 - s - t) * (n * n) < 0 := mul_neg_of_neg_of_pos x hnn
        have h2 : n * ((cx - bx) * (ay + s * (by' - ay) + t * (cy - ay) - by') - (cy - by') * (ax + s * (bx - ax) + t * (cx - ax) - bx))
            = (1 - s - t) * (n * n) := by rw [← hN]; ring
        linarith, by linarith, by linarith⟩)
  exact ⟨s, t, h.1, h.2.1, h.2.2, by ring, by ring⟩

/-- boundary of the triangle in scalar form: a point `P + κ (Q - P)`, `κ ∈ [0,1]`, of one of the three edges -/
def TriBndRaw (ax ay bx by' cx cy x y : K) : Prop :=
  ∃ (Px Py Qx Qy κ : K),
    ((Px = ax ∧ Py = ay ∧ Qx = bx ∧ Qy = by') ∨ (Px = bx ∧ Py = by' ∧ Qx = cx ∧ Qy = cy) ∨ (Px = ax ∧ Py = ay ∧ Qx = cx ∧ Qy = cy)) ∧
    0 ≤ κ ∧ κ ≤ 1 ∧ x = Px + (Qx - Px) * κ ∧ y = Py + (Qy - Py) * κ

/-- squared distance from `a + s·ab + t·ac` to the point `a + κ·ab` of the line `ab`, in Gram form, is at least the squared
distance to the line, `t²D/|ab|²` -/
theorem line_dist_lb (A B C s t κ : K) (hA : 0 < A) :
    t * t * (A * C - B * B) ≤ ((s - κ) * (s - κ) * A + 2 * (s - κ) * t * B + t * t * C) * A := by
  nlinarith [mul_self_nonneg ((s - κ) * A + t * B)]

set_option maxHeartbeats 1600000 in
/-- **non-solid interior tail** (2-D triangle): for a point `p = a + s·ab + t·ac` of the triangle, the returned point lies on
one of the three edges (parameter in `[0,1]`) and no point of the three edge lines is closer. -/
theorem tri2_hollow (ax ay bx by' cx cy px py s t : K)
    (hn : (bx - ax) * (cy - ay) - (by' - ay) * (cx - ax) ≠ 0) (hs : 0 ≤ s) (ht : 0 ≤ t) (hst : s + t ≤ 1)
    (hpx : px = ax + (bx - ax) * s + (cx - ax) * t) (hpy : py = ay + (by' - ay) * s + (cy - ay) * t)
    (ab_ap ac_ap ab_bp ac_bp ab_cp ac_cp vc vb va apn bpn bc_bp : K)
    (e1 : ab_ap = (bx - ax) * (px - ax) + (by' - ay) * (py - ay))
    (e2 : ac_ap = (cx - ax) * (px - ax) + (cy - ay) * (py - ay))
    (e3 : ab_bp = (bx - ax) * (px - bx) + (by' - ay) * (py - by'))
    (e4 : ac_bp = (cx - ax) * (px - bx) + (cy - ay) * (py - by'))
    (e5 : ab_cp = (bx - ax) * (px - cx) + (by' - ay) * (py - cy))
    (e6 : ac_cp = (cx - ax) * (px - cx) + (cy - ay) * (py - cy))
    (e7 : apn = (px - ax) * (px - ax)
        + (py - ay) * (py - ay))
    (e8 : bpn = (px - bx) * (px - bx)
        + (py - by') * (py - by'))
    (t1 : ¬(ab_ap ≤ 0 ∧ ac_ap ≤ 0)) (t2 : ¬(0 ≤ ab_bp ∧ ac_bp ≤ ab_bp)) (t3 : ¬(0 ≤ ac_cp ∧ ab_cp ≤ ac_cp))
    (t4 : ¬(vc < 0 ∧ 0 ≤ ab_ap ∧ ab_bp ≤ 0)) (t5 : ¬(vb < 0 ∧ 0 ≤ ac_ap ∧ ac_cp ≤ 0))
    (t6 : ¬(va < 0 ∧ 0 ≤ ac_bp - ab_bp ∧ 0 ≤ ab_cp - ac_cp)) :
    letI := fieldNum K sq
    ∀ r : PP2 K × TriLoc K,
      r = tri2Flat ⟨ax, ay⟩ ⟨bx, by'⟩ ⟨cx, cy⟩ ⟨px, py⟩
            ⟨bx - ax, by' - ay⟩ ⟨cx - ax, cy - ay⟩ ⟨cx - bx, cy - by'⟩
            ab_ap ac_ap ab_bp ac_bp ab_cp ac_cp vc vb va apn bpn bc_bp false →
      ∃ (Px Py Qx Qy κ : K),
        ((Px = ax ∧ Py = ay ∧ Qx = bx ∧ Qy = by') ∨ (Px = bx ∧ Py = by' ∧ Qx = cx ∧ Qy = cy) ∨ (Px = ax ∧ Py = ay ∧ Qx = cx ∧ Qy = cy)) ∧
        0 ≤ κ ∧ κ ≤ 1 ∧ r.1.pt = ⟨Px + (Qx - Px) * κ, Py + (Qy - Py) * κ⟩ ∧
        ∀ (Rx Ry Sx Sy lam : K),
          ((Rx = ax ∧ Ry = ay ∧ Sx = bx ∧ Sy = by') ∨ (Rx = bx ∧ Ry = by' ∧ Sx = cx ∧ Sy = cy) ∨ (Rx = ax ∧ Ry = ay ∧ Sx = cx ∧ Sy = cy)) →
          dsq2 ⟨px, py⟩ r.1.pt
            ≤ dsq2 ⟨px, py⟩ ⟨Rx + (Sx - Rx) * lam, Ry + (Sy - Ry) * lam⟩ := by
  letI := fieldNum K sq
  obtain ⟨hA, hC, hBC, hD⟩ := tri2_gram ax ay bx by' cx cy hn
  intro r hr
  unfold tri2Flat at hr
  rw [if_neg t1, if_neg t2, if_neg t3, if_neg t4, if_neg t5, if_neg t6] at hr
  simp only [Bool.false_eq_true, if_false] at hr
  -- name the three foot parameters and the three line distances
  have hden1 : ab_ap - ab_bp = (bx - ax) * (bx - ax) + (by' - ay) * (by' - ay) := by rw [e1, e3]; ring
  have hden2 : ac_ap - ac_cp = (cx - ax) * (cx - ax) + (cy - ay) * (cy - ay) := by rw [e2, e6]; ring
  have hden3 : ac_bp - ab_bp + ab_cp - ac_cp = (cx - bx) * (cx - bx) + (cy - by') * (cy - by') := by rw [e3, e4, e5, e6]; ring
  have hv := div_mul_cancel₀ ab_ap (by rw [hden1]; exact ne_of_gt hA : ab_ap - ab_bp ≠ 0)
  have hw := div_mul_cancel₀ ac_ap (by rw [hden2]; exact ne_of_gt hC : ac_ap - ac_cp ≠ 0)
  have hu := div_mul_cancel₀ (ac_bp - ab_bp) (by rw [hden3]; exact ne_of_gt hBC : ac_bp - ab_bp + ab_cp - ac_cp ≠ 0)
  generalize ab_ap / (ab_ap - ab_bp) = v at hr hv
  generalize ac_ap / (ac_ap - ac_cp) = w at hr hw
  generalize (ac_bp - ab_bp) / (ac_bp - ab_bp + ab_cp - ac_cp) = u at hr hu
  generalize hdab : apn - (⟨bx - ax, by' - ay⟩ : V2 K).normSq * v * v = dab at hr
  generalize hdac : apn - (⟨cx - ax, cy - ay⟩ : V2 K).normSq * w * w = dac at hr
  generalize hdbc : bpn - (⟨cx - bx, cy - by'⟩ : V2 K).normSq * u * u = dbc at hr
  simp only [V2.normSq, V2.dot] at hdab hdac hdbc
  rw [hden1] at hv; rw [hden2] at hw; rw [hden3] at hu
  have habs := tri_hollow_abs ((bx - ax) * (bx - ax) + (by' - ay) * (by' - ay)) ((bx - ax) * (cx - ax) + (by' - ay) * (cy - ay))
    ((cx - ax) * (cx - ax) + (cy - ay) * (cy - ay)) s t v w u dab dac dbc hA hC hD hs ht hst
    (by rw [hv, e1, hpx, hpy]; ring) (by rw [hw, e2, hpx, hpy]; ring)
    (by have : (bx - ax) * (bx - ax) + (by' - ay) * (by' - ay) - 2 * ((bx - ax) * (cx - ax) + (by' - ay) * (cy - ay))
          + ((cx - ax) * (cx - ax) + (cy - ay) * (cy - ay)) = (cx - bx) * (cx - bx) + (cy - by') * (cy - by') := by ring
        rw [this, hu, e3, e4, hpx, hpy]; ring)
    (by rw [← hdab, e7, hpx, hpy]; ring) (by rw [← hdac, e7, hpx, hpy]; ring)
    (by rw [← hdbc, e8, hpx, hpy]; ring)
  obtain ⟨hC', g1, g2, g3, sel1, sel2, sel3⟩ := habs
  have hC'' : 0 < (cx - bx) * (cx - bx) + (cy - by') * (cy - by') := hBC
  -- lower bounds: every point of a line is at least the line distance away
  have lbAB : ∀ κ : K, dab ≤ dsq2 ⟨px, py⟩ ⟨ax + (bx - ax) * κ, ay + (by' - ay) * κ⟩ := by
    intro κ
    have h := line_dist_lb ((bx - ax) * (bx - ax) + (by' - ay) * (by' - ay)) ((bx - ax) * (cx - ax) + (by' - ay) * (cy - ay))
      ((cx - ax) * (cx - ax) + (cy - ay) * (cy - ay)) s t κ hA
    rw [← g1] at h
    have e : dsq2 (⟨px, py⟩ : V2 K) ⟨ax + (bx - ax) * κ, ay + (by' - ay) * κ⟩
        = (s - κ) * (s - κ) * ((bx - ax) * (bx - ax) + (by' - ay) * (by' - ay)) + 2 * (s - κ) * t * ((bx - ax) * (cx - ax) + (by' - ay) * (cy - ay))
          + t * t * ((cx - ax) * (cx - ax) + (cy - ay) * (cy - ay)) := by simp only [dsq2]; rw [hpx, hpy]; ring
    rw [e]; exact le_of_mul_le_mul_right h hA
  have lbAC : ∀ κ : K, dac ≤ dsq2 ⟨px, py⟩ ⟨ax + (cx - ax) * κ, ay + (cy - ay) * κ⟩ := by
    intro κ
    have h := line_dist_lb ((cx - ax) * (cx - ax) + (cy - ay) * (cy - ay)) ((bx - ax) * (cx - ax) + (by' - ay) * (cy - ay))
      ((bx - ax) * (bx - ax) + (by' - ay) * (by' - ay)) t s κ hC
    have g2' : dac * ((cx - ax) * (cx - ax) + (cy - ay) * (cy - ay)) = s * s * (((cx - ax) * (cx - ax) + (cy - ay) * (cy - ay)) * ((bx - ax) * (bx - ax) + (by' - ay) * (by' - ay))
        - ((bx - ax) * (cx - ax) + (by' - ay) * (cy - ay)) * ((bx - ax) * (cx - ax) + (by' - ay) * (cy - ay))) := by rw [g2]; ring
    rw [← g2'] at h
    have e : dsq2 (⟨px, py⟩ : V2 K) ⟨ax + (cx - ax) * κ, ay + (cy - ay) * κ⟩
        = (t - κ) * (t - κ) * ((cx - ax) * (cx - ax) + (cy - ay) * (cy - ay)) + 2 * (t - κ) * s * ((bx - ax) * (cx - ax) + (by' - ay) * (cy - ay))
          + s * s * ((bx - ax) * (bx - ax) + (by' - ay) * (by' - ay)) := by simp only [dsq2]; rw [hpx, hpy]; ring
    rw [e]; exact le_of_mul_le_mul_right h hC
  have lbBC : ∀ κ : K, dbc ≤ dsq2 ⟨px, py⟩ ⟨bx + (cx - bx) * κ, by' + (cy - by') * κ⟩ := by
    intro κ
    have h := line_dist_lb ((cx - bx) * (cx - bx) + (cy - by') * (cy - by')) ((ax - bx) * (cx - bx) + (ay - by') * (cy - by'))
      ((bx - ax) * (bx - ax) + (by' - ay) * (by' - ay)) t (1 - s - t) κ hC''
    have g3' : dbc * ((cx - bx) * (cx - bx) + (cy - by') * (cy - by')) = (1 - s - t) * (1 - s - t) * (((cx - bx) * (cx - bx) + (cy - by') * (cy - by')) * ((bx - ax) * (bx - ax) + (by' - ay) * (by' - ay))
        - ((ax - bx) * (cx - bx) + (ay - by') * (cy - by')) * ((ax - bx) * (cx - bx) + (ay - by') * (cy - by'))) := by
      have : (cx - bx) * (cx - bx) + (cy - by') * (cy - by') = (bx - ax) * (bx - ax) + (by' - ay) * (by' - ay) - 2 * ((bx - ax) * (cx - ax) + (by' - ay) * (cy - ay))
          + ((cx - ax) * (cx - ax) + (cy - ay) * (cy - ay)) := by ring
      rw [this, g3]; ring
    rw [← g3'] at h
    have e : dsq2 (⟨px, py⟩ : V2 K) ⟨bx + (cx - bx) * κ, by' + (cy - by') * κ⟩
        = (t - κ) * (t - κ) * ((cx - bx) * (cx - bx) + (cy - by') * (cy - by')) + 2 * (t - κ) * (1 - s - t) * ((ax - bx) * (cx - bx) + (ay - by') * (cy - by'))
          + (1 - s - t) * (1 - s - t) * ((bx - ax) * (bx - ax) + (by' - ay) * (by' - ay)) := by simp only [dsq2]; rw [hpx, hpy]; ring
    rw [e]; exact le_of_mul_le_mul_right h hC''
  -- the feet realise the line distances
  have eqAB : dsq2 (⟨px, py⟩ : V2 K) ⟨ax + (bx - ax) * v, ay + (by' - ay) * v⟩ = dab := by
    rw [← hdab, e7]; simp only [dsq2]; rw [e1] at hv
    linear_combination (2 * v) * hv
  have eqAC : dsq2 (⟨px, py⟩ : V2 K) ⟨ax + (cx - ax) * w, ay + (cy - ay) * w⟩ = dac := by
    rw [← hdac, e7]; simp only [dsq2]; rw [e2] at hw
    linear_combination (2 * w) * hw
  have eqBC : dsq2 (⟨px, py⟩ : V2 K) ⟨bx + (cx - bx) * u, by' + (cy - by') * u⟩ = dbc := by
    rw [← hdbc, e8]; simp only [dsq2]; rw [e3, e4] at hu
    linear_combination (2 * u) * hu
  -- all three lower bounds, for an arbitrary edge
  have lball : ∀ d : K, d ≤ dab → d ≤ dac → d ≤ dbc → ∀ (Rx Ry Sx Sy lam : K),
      ((Rx = ax ∧ Ry = ay ∧ Sx = bx ∧ Sy = by') ∨ (Rx = bx ∧ Ry = by' ∧ Sx = cx ∧ Sy = cy) ∨ (Rx = ax ∧ Ry = ay ∧ Sx = cx ∧ Sy = cy)) →
      d ≤ dsq2 ⟨px, py⟩ ⟨Rx + (Sx - Rx) * lam, Ry + (Sy - Ry) * lam⟩ := by
    intro d h1 h2 h3 Rx Ry Sx Sy lam hR
    rcases hR with ⟨rfl, rfl, rfl, rfl⟩ | ⟨rfl, rfl, rfl, rfl⟩ | ⟨rfl, rfl, rfl, rfl⟩
    · exact le_trans h1 (lbAB lam)
    · exact le_trans h3 (lbBC lam)
    · exact le_trans h2 (lbAC lam)
  simp only [V2.add, V2.smul] at hr
  split_ifs at hr with c1 c2 c3 <;> subst hr
  · obtain ⟨k0, k1⟩ := sel1 c1 c2
    refine ⟨ax, ay, bx, by', v, Or.inl ⟨rfl, rfl, rfl, rfl⟩, k0, k1, rfl, ?_⟩
    simp only []; rw [eqAB]
    exact lball dab (le_refl _) c1.le c2.le
  · push Not at c2
    obtain ⟨k0, k1⟩ := sel3 c2 (le_trans c2 c1.le)
    refine ⟨bx, by', cx, cy, u, Or.inr (Or.inl ⟨rfl, rfl, rfl, rfl⟩), k0, k1, rfl, ?_⟩
    simp only []; rw [eqBC]
    exact lball dbc c2 (le_trans c2 c1.le) (le_refl _)
  · push Not at c1
    obtain ⟨k0, k1⟩ := sel2 (not_lt.mpr c1) c3
    refine ⟨ax, ay, cx, cy, w, Or.inr (Or.inr ⟨rfl, rfl, rfl, rfl⟩), k0, k1, rfl, ?_⟩
    simp only []; rw [eqAC]
    exact lball dac c1 (le_refl _) c3.le
  · push Not at c1 c3
    obtain ⟨k0, k1⟩ := sel3 (le_trans c3 c1) c3
    refine ⟨bx, by', cx, cy, u, Or.inr (Or.inl ⟨rfl, rfl, rfl, rfl⟩), k0, k1, rfl, ?_⟩
    simp only []; rw [eqBC]
    exact lball dbc (le_trans c3 c1) c3 (le_refl _)

set_option maxHeartbeats 1000000 in
/-- everything about one evaluation of `project_local_point_and_get_location` (2-D), branch by branch:
either we are in the non-solid interior tail, or the result is a member satisfying the variational inequality
and the inside flag is `proj == pt`. -/
theorem tri2_flat_core (ax ay bx by' cx cy px py : K) (solid : Bool)
    (hn : (bx - ax) * (cy - ay) - (by' - ay) * (cx - ax) ≠ 0)
    (ab_ap ac_ap ab_bp ac_bp ab_cp ac_cp vc vb va apn bpn bc_bp : K)
    (e1 : ab_ap = (bx - ax) * (px - ax) + (by' - ay) * (py - ay))
    (e2 : ac_ap = (cx - ax) * (px - ax) + (cy - ay) * (py - ay))
    (e3 : ab_bp = (bx - ax) * (px - bx) + (by' - ay) * (py - by'))
    (e4 : ac_bp = (cx - ax) * (px - bx) + (cy - ay) * (py - by'))
    (e5 : ab_cp = (bx - ax) * (px - cx) + (by' - ay) * (py - cy))
    (e6 : ac_cp = (cx - ax) * (px - cx) + (cy - ay) * (py - cy))
    (e7 : vc = ((bx - ax) * (cy - ay) - (by' - ay) * (cx - ax)) * ((bx - ax) * (py - ay) - (by' - ay) * (px - ax)))
    (e8 : vb = -((bx - ax) * (cy - ay) - (by' - ay) * (cx - ax)) * ((cx - ax) * (py - cy) - (cy - ay) * (px - cx)))
    (e9 : va = ((bx - ax) * (cy - ay) - (by' - ay) * (cx - ax)) * ((cx - bx) * (py - by') - (cy - by') * (px - bx)))
    (e10 : bc_bp = (cx - bx) * (px - bx) + (cy - by') * (py - by'))
    (e11 : apn = (px - ax) * (px - ax) + (py - ay) * (py - ay))
    (e12 : bpn = (px - bx) * (px - bx) + (py - by') * (py - by')) :
    letI := fieldNum K sq
    ∀ r : PP2 K × TriLoc K,
      r = tri2Flat ⟨ax, ay⟩ ⟨bx, by'⟩ ⟨cx, cy⟩ ⟨px, py⟩ ⟨bx - ax, by' - ay⟩ ⟨cx - ax, cy - ay⟩ ⟨cx - bx, cy - by'⟩
            ab_ap ac_ap ab_bp ac_bp ab_cp ac_cp vc vb va apn bpn bc_bp solid →
    (solid = false ∧ (⟨⟨ax, ay⟩, ⟨bx, by'⟩, ⟨cx, cy⟩⟩ : Triangle2 K).Mem ⟨px, py⟩ ∧ r.1.inside = true ∧
      TriBndRaw ax ay bx by' cx cy r.1.pt.x r.1.pt.y ∧
      (∀ (Rx Ry Sx Sy lam : K),
          ((Rx = ax ∧ Ry = ay ∧ Sx = bx ∧ Sy = by') ∨ (Rx = bx ∧ Ry = by' ∧ Sx = cx ∧ Sy = cy) ∨ (Rx = ax ∧ Ry = ay ∧ Sx = cx ∧ Sy = cy)) →
          dsq2 ⟨px, py⟩ r.1.pt ≤ dsq2 ⟨px, py⟩ ⟨Rx + (Sx - Rx) * lam, Ry + (Sy - Ry) * lam⟩)) ∨
    ((⟨⟨ax, ay⟩, ⟨bx, by'⟩, ⟨cx, cy⟩⟩ : Triangle2 K).Mem r.1.pt ∧
      (∀ qx qy : K, (⟨⟨ax, ay⟩, ⟨bx, by'⟩, ⟨cx, cy⟩⟩ : Triangle2 K).Mem ⟨qx, qy⟩ →
        (px - r.1.pt.x) * (qx - r.1.pt.x) + (py - r.1.pt.y) * (qy - r.1.pt.y) ≤ 0) ∧
      (r.1.inside = true ↔ r.1.pt = ⟨px, py⟩) ∧
      (solid = false → TriBndRaw ax ay bx by' cx cy r.1.pt.x r.1.pt.y)) := by
  letI := fieldNum K sq
  obtain ⟨hA, hC, hBC, hD⟩ := tri2_gram ax ay bx by' cx cy hn
  intro r hr
  have hr0 := hr
  unfold tri2Flat at hr
  split_ifs at hr with t1 t2 t3 t4 t5 t6 t7 <;> subst hr
  · -- vertex a
    simp only [V2.add, V2.smul, V2.normSq, V2.dot, V2.beq, Bool.and_eq_true, neq_iff, V2.mk.injEq, tri2_mem_iff]
    subst e1 e2
    right
    refine ⟨⟨0, 0, le_refl _, le_refl _, by norm_num, by ring, by ring⟩, ?_, eq_comm2,
      fun _ => ⟨ax, ay, bx, by', 0, Or.inl ⟨rfl, rfl, rfl, rfl⟩, le_refl _, zero_le_one, by ring, by ring⟩⟩
    rintro qx qy ⟨u, v, hu, hv, _, rfl, rfl⟩
    linarith [mul_nonneg hu (neg_nonneg.2 t1.1), mul_nonneg hv (neg_nonneg.2 t1.2)]
  · -- vertex b
    simp only [V2.add, V2.smul, V2.normSq, V2.dot, V2.beq, Bool.and_eq_true, neq_iff, V2.mk.injEq, tri2_mem_iff]
    subst e3 e4
    right
    refine ⟨⟨1, 0, by norm_num, le_refl _, by norm_num, by ring, by ring⟩, ?_, eq_comm2,
      fun _ => ⟨ax, ay, bx, by', 1, Or.inl ⟨rfl, rfl, rfl, rfl⟩, zero_le_one, le_refl _, by ring, by ring⟩⟩
    rintro qx qy ⟨u, v, hu, hv, huv, rfl, rfl⟩
    linarith [mul_nonneg (sub_nonneg.2 huv) t2.1, mul_nonneg hv (sub_nonneg.2 t2.2)]
  · -- vertex c
    simp only [V2.add, V2.smul, V2.normSq, V2.dot, V2.beq, Bool.and_eq_true, neq_iff, V2.mk.injEq, tri2_mem_iff]
    subst e5 e6
    right
    refine ⟨⟨0, 1, le_refl _, by norm_num, by norm_num, by ring, by ring⟩, ?_, eq_comm2,
      fun _ => ⟨ax, ay, cx, cy, 1, Or.inr (Or.inr ⟨rfl, rfl, rfl, rfl⟩), zero_le_one, le_refl _, by ring, by ring⟩⟩
    rintro qx qy ⟨u, v, hu, hv, huv, rfl, rfl⟩
    linarith [mul_nonneg (sub_nonneg.2 huv) t3.1, mul_nonneg hu (sub_nonneg.2 t3.2)]
  · -- edge ab
    simp only [V2.add, V2.smul, V2.normSq, V2.dot, V2.beq, Bool.and_eq_true, neq_iff, V2.mk.injEq, tri2_mem_iff]
    subst e1 e3 e7
    right
    obtain ⟨tv, tp, tb⟩ := t4
    have hk := div_mul_cancel₀ ((bx - ax) * (px - ax) + (by' - ay) * (py - ay)) (ne_of_gt hA)
    have hk0 : 0 ≤ ((bx - ax) * (px - ax) + (by' - ay) * (py - ay)) / ((bx - ax) * (bx - ax) + (by' - ay) * (by' - ay)) :=
      div_nonneg tp hA.le
    have hk1 : ((bx - ax) * (px - ax) + (by' - ay) * (py - ay)) / ((bx - ax) * (bx - ax) + (by' - ay) * (by' - ay)) ≤ 1 := by
      rw [div_le_one hA]; linarith
    generalize ((bx - ax) * (px - ax) + (by' - ay) * (py - ay)) / ((bx - ax) * (bx - ax) + (by' - ay) * (by' - ay)) = k at *
    refine ⟨⟨k, 0, hk0, le_refl _, by linarith, by ring, by ring⟩, ?_, eq_comm2,
      fun _ => ⟨ax, ay, bx, by', k, Or.inl ⟨rfl, rfl, rfl, rfl⟩, hk0, hk1, rfl, rfl⟩⟩
    rintro qx qy ⟨u, v, hu, hv, huv, rfl, rfl⟩
    have hX : ((cx - ax) * (px - ax) + (cy - ay) * (py - ay) - k * ((bx - ax) * (cx - ax) + (by' - ay) * (cy - ay)))
        * ((bx - ax) * (bx - ax) + (by' - ay) * (by' - ay))
        = ((bx - ax) * (cy - ay) - (by' - ay) * (cx - ax)) * ((bx - ax) * (py - ay) - (by' - ay) * (px - ax)) := by
      linear_combination (-((bx - ax) * (cx - ax) + (by' - ay) * (cy - ay))) * hk
    have hneg : (cx - ax) * (px - ax) + (cy - ay) * (py - ay) - k * ((bx - ax) * (cx - ax) + (by' - ay) * (cy - ay)) < 0 := by
      by_contra h; push Not at h
      have := mul_nonneg h hA.le
      linarith
    have e : (px - (ax + (bx - ax) * k)) * (ax + (bx - ax) * u + (cx - ax) * v - (ax + (bx - ax) * k))
        + (py - (ay + (by' - ay) * k)) * (ay + (by' - ay) * u + (cy - ay) * v - (ay + (by' - ay) * k))
        = v * ((cx - ax) * (px - ax) + (cy - ay) * (py - ay) - k * ((bx - ax) * (cx - ax) + (by' - ay) * (cy - ay))) := by
      linear_combination (-(u - k)) * hk
    rw [e]
    exact mul_nonpos_of_nonneg_of_nonpos hv hneg.le
  · -- edge ac
    simp only [V2.add, V2.smul, V2.normSq, V2.dot, V2.beq, Bool.and_eq_true, neq_iff, V2.mk.injEq, tri2_mem_iff]
    subst e2 e6 e8
    right
    obtain ⟨tv, tp, tb⟩ := t5
    have hk := div_mul_cancel₀ ((cx - ax) * (px - ax) + (cy - ay) * (py - ay)) (ne_of_gt hC)
    have hk0 : 0 ≤ ((cx - ax) * (px - ax) + (cy - ay) * (py - ay)) / ((cx - ax) * (cx - ax) + (cy - ay) * (cy - ay)) :=
      div_nonneg tp hC.le
    have hk1 : ((cx - ax) * (px - ax) + (cy - ay) * (py - ay)) / ((cx - ax) * (cx - ax) + (cy - ay) * (cy - ay)) ≤ 1 := by
      rw [div_le_one hC]; linarith
    generalize ((cx - ax) * (px - ax) + (cy - ay) * (py - ay)) / ((cx - ax) * (cx - ax) + (cy - ay) * (cy - ay)) = k at *
    refine ⟨⟨0, k, le_refl _, hk0, by linarith, by ring, by ring⟩, ?_, eq_comm2,
      fun _ => ⟨ax, ay, cx, cy, k, Or.inr (Or.inr ⟨rfl, rfl, rfl, rfl⟩), hk0, hk1, rfl, rfl⟩⟩
    rintro qx qy ⟨u, v, hu, hv, huv, rfl, rfl⟩
    have hX : ((bx - ax) * (px - ax) + (by' - ay) * (py - ay) - k * ((bx - ax) * (cx - ax) + (by' - ay) * (cy - ay)))
        * ((cx - ax) * (cx - ax) + (cy - ay) * (cy - ay))
        = -((bx - ax) * (cy - ay) - (by' - ay) * (cx - ax)) * ((cx - ax) * (py - cy) - (cy - ay) * (px - cx)) := by
      linear_combination (-((bx - ax) * (cx - ax) + (by' - ay) * (cy - ay))) * hk
    have hneg : (bx - ax) * (px - ax) + (by' - ay) * (py - ay) - k * ((bx - ax) * (cx - ax) + (by' - ay) * (cy - ay)) < 0 := by
      by_contra h; push Not at h
      have := mul_nonneg h hC.le
      linarith
    have e : (px - (ax + (cx - ax) * k)) * (ax + (bx - ax) * u + (cx - ax) * v - (ax + (cx - ax) * k))
        + (py - (ay + (cy - ay) * k)) * (ay + (by' - ay) * u + (cy - ay) * v - (ay + (cy - ay) * k))
        = u * ((bx - ax) * (px - ax) + (by' - ay) * (py - ay) - k * ((bx - ax) * (cx - ax) + (by' - ay) * (cy - ay))) := by
      linear_combination (-(v - k)) * hk
    rw [e]
    exact mul_nonpos_of_nonneg_of_nonpos hu hneg.le
  · -- edge bc
    simp only [V2.add, V2.smul, V2.normSq, V2.dot, V2.beq, Bool.and_eq_true, neq_iff, V2.mk.injEq, tri2_mem_iff]
    subst e3 e4 e5 e6 e9 e10
    right
    obtain ⟨tv, tp, tb⟩ := t6
    have hk := div_mul_cancel₀ ((cx - bx) * (px - bx) + (cy - by') * (py - by')) (ne_of_gt hBC)
    have hk0 : 0 ≤ ((cx - bx) * (px - bx) + (cy - by') * (py - by')) / ((cx - bx) * (cx - bx) + (cy - by') * (cy - by')) :=
      div_nonneg (by linarith) hBC.le
    have hk1 : ((cx - bx) * (px - bx) + (cy - by') * (py - by')) / ((cx - bx) * (cx - bx) + (cy - by') * (cy - by')) ≤ 1 := by
      rw [div_le_one hBC]; linarith
    generalize ((cx - bx) * (px - bx) + (cy - by') * (py - by')) / ((cx - bx) * (cx - bx) + (cy - by') * (cy - by')) = k at *
    refine ⟨⟨1 - k, k, by linarith, hk0, by linarith, by ring, by ring⟩, ?_, eq_comm2,
      fun _ => ⟨bx, by', cx, cy, k, Or.inr (Or.inl ⟨rfl, rfl, rfl, rfl⟩), hk0, hk1, rfl, rfl⟩⟩
    rintro qx qy ⟨u, v, hu, hv, huv, rfl, rfl⟩
    have hX : ((ax - bx) * (px - bx) + (ay - by') * (py - by') - k * ((ax - bx) * (cx - bx) + (ay - by') * (cy - by')))
        * ((cx - bx) * (cx - bx) + (cy - by') * (cy - by'))
        = ((bx - ax) * (cy - ay) - (by' - ay) * (cx - ax)) * ((cx - bx) * (py - by') - (cy - by') * (px - bx)) := by
      linear_combination (-((ax - bx) * (cx - bx) + (ay - by') * (cy - by'))) * hk
    have hneg : (ax - bx) * (px - bx) + (ay - by') * (py - by') - k * ((ax - bx) * (cx - bx) + (ay - by') * (cy - by')) < 0 := by
      by_contra h; push Not at h
      have := mul_nonneg h hBC.le
      linarith
    have e : (px - (bx + (cx - bx) * k)) * (ax + (bx - ax) * u + (cx - ax) * v - (bx + (cx - bx) * k))
        + (py - (by' + (cy - by') * k)) * (ay + (by' - ay) * u + (cy - ay) * v - (by' + (cy - by') * k))
        = (1 - u - v) * ((ax - bx) * (px - bx) + (ay - by') * (py - by') - k * ((ax - bx) * (cx - bx) + (ay - by') * (cy - by'))) := by
      linear_combination (-(v - k)) * hk
    rw [e]
    exact mul_nonpos_of_nonneg_of_nonpos (by linarith) hneg.le
  · -- face, solid
    simp only [V2.add, V2.smul, V2.normSq, V2.dot, V2.beq, Bool.and_eq_true, neq_iff, V2.mk.injEq, tri2_mem_iff]
    right
    refine ⟨tri2_face_mem ax ay bx by' cx cy px py hn ab_ap ac_ap ab_bp ac_bp ab_cp ac_cp vc vb va e1 e2 e3 e4 e5 e6 e7 e8 e9 t1 t2 t3 t4 t5 t6, ?_, by simp, fun h => by rw [h] at t7; exact absurd t7 (by simp)⟩
    intro qx qy _
    simp
  · -- non-solid interior tail
    left
    have hsol : solid = false := by simpa using t7
    have hmem := tri2_face_mem ax ay bx by' cx cy px py hn ab_ap ac_ap ab_bp ac_bp ab_cp ac_cp vc vb va e1 e2 e3 e4 e5 e6 e7 e8 e9 t1 t2 t3 t4 t5 t6
    obtain ⟨s', t', hs', ht', hst', hpx, hpy⟩ := hmem
    rw [hsol] at hr0
    obtain ⟨Px, Py, Qx, Qy, κ, hedge, hk0, hk1, hpt, hopt⟩ := tri2_hollow sq ax ay bx by' cx cy px py s' t' hn hs' ht' hst' hpx hpy
      ab_ap ac_ap ab_bp ac_bp ab_cp ac_cp vc vb va apn bpn bc_bp e1 e2 e3 e4 e5 e6 e11 e12 t1 t2 t3 t4 t5 t6 _ hr0
    refine ⟨hsol, ?_, ?_, ⟨Px, Py, Qx, Qy, κ, hedge, hk0, hk1, by rw [hpt], by rw [hpt]⟩, hopt⟩
    · rw [tri2_mem_iff]
      exact ⟨s', t', hs', ht', hst', hpx, hpy⟩
    · dsimp only
      split_ifs <;> rfl

/-- the location tag reproduces the projection (all branches, including the non-solid interior tail) -/
theorem tri2_flat_location (a b c pt : V2 K) (ab_ap ac_ap ab_bp ac_bp ab_cp ac_cp vc vb va apn bpn bc_bp : K) (solid : Bool) :
    letI := fieldNum K sq
    ∀ r : PP2 K × TriLoc K,
      r = tri2Flat a b c pt (b.sub a) (c.sub a) (c.sub b) ab_ap ac_ap ab_bp ac_bp ab_cp ac_cp vc vb va apn bpn bc_bp solid →
      match r.2 with
      | .vertex i => (i = 0 ∧ r.1.pt = a) ∨ (i = 1 ∧ r.1.pt = b) ∨ (i = 2 ∧ r.1.pt = c)
      | .edge i b0 b1 => b0 + b1 = 1 ∧ ((i = 0 ∧ r.1.pt = (a.smul b0).add (b.smul b1)) ∨ (i = 1 ∧ r.1.pt = (b.smul b0).add (c.smul b1))
          ∨ (i = 2 ∧ r.1.pt = (a.smul b0).add (c.smul b1)))
      | .face _ _ _ _ => False
      | .solid => r.1.pt = pt ∧ solid = true := by
  letI := fieldNum K sq
  intro r hr
  unfold tri2Flat at hr
  split_ifs at hr with t1 t2 t3 t4 t5 t6 t7 <;> subst hr
  · exact Or.inl ⟨rfl, rfl⟩
  · exact Or.inr (Or.inl ⟨rfl, rfl⟩)
  · exact Or.inr (Or.inr ⟨rfl, rfl⟩)
  · refine ⟨by ring, Or.inl ⟨rfl, ?_⟩⟩
    apply v2_ext <;> simp only [V2.add, V2.smul, V2.sub] <;> ring
  · refine ⟨by ring, Or.inr (Or.inr ⟨rfl, ?_⟩)⟩
    apply v2_ext <;> simp only [V2.add, V2.smul, V2.sub] <;> ring
  · refine ⟨by ring, Or.inr (Or.inl ⟨rfl, ?_⟩)⟩
    apply v2_ext <;> simp only [V2.add, V2.smul, V2.sub] <;> ring
  · exact ⟨rfl, t7⟩
  · dsimp only
    split_ifs
    · refine ⟨by ring, Or.inl ⟨rfl, ?_⟩⟩
      apply v2_ext <;> simp only [V2.add, V2.smul, V2.sub] <;> ring
    · refine ⟨by ring, Or.inr (Or.inl ⟨rfl, ?_⟩)⟩
      apply v2_ext <;> simp only [V2.add, V2.smul, V2.sub] <;> ring
    · refine ⟨by ring, Or.inr (Or.inr ⟨rfl, ?_⟩)⟩
      apply v2_ext <;> simp only [V2.add, V2.smul, V2.sub] <;> ring
    · refine ⟨by ring, Or.inr (Or.inl ⟨rfl, ?_⟩)⟩
      apply v2_ext <;> simp only [V2.add, V2.smul, V2.sub] <;> ring

end C05
