import ParryModel.Field
import ParryModel.C05.Mesh
import ParryModel.C05.Theorems7
set_option linter.style.haveILetI false
set_option linter.unusedSimpArgs false
set_option linter.unusedVariables false
set_option linter.unusedSectionVars false
/-!
# C05 property theorems, part 10 (fu4): the edge pseudo-normals of `compute_pseudo_normals`

* `pnEdgeContrib m f k` — what triangle `f` adds to the entry of the (sorted) edge key `k`: its unit normal if `k` is one of its
  three edges and it has a normal, else `0`;
* `tm_pn_edge_sum` — after `computePseudoNormals`, the three edge pseudo-normals stored for triangle `g` are, for each of its edges
  `(i0,i1)`, `(i1,i2)`, `(i2,i0)`, the sum over the index buffer of the normals of the triangles that contain that edge
  (for a closed manifold mesh: `n1 + n2` of the two incident faces — the vector `tm_edge_convex_outside / tm_edge_inside` are about).
-/
namespace C05
open Model Model.PM

variable {K : Type} [Field K] [LinearOrder K] [IsStrictOrderedRing K] (sq : K → K)

def pnEdgeContrib (m : Mesh K) (f : Nat) (k : Nat × Nat) : V3 K :=
  letI := fieldNum K sq
  match m.idx[f]?, m.tri? f with
  | some (i0, i1, i2), some t =>
    match triNormal? t with
    | none => ⟨0, 0, 0⟩
    | some n => if sortedPair i0 i1 = k ∨ sortedPair i0 i2 = k ∨ sortedPair i1 i2 = k then n else ⟨0, 0, 0⟩
  | _, _ => ⟨0, 0, 0⟩

private theorem vadd_zero' (x : V3 K) : vaddK x ⟨0, 0, 0⟩ = x := by cases x; simp [vaddK]

private theorem edgeGet_add_same (l : List ((Nat × Nat) × V3 K)) (k : Nat × Nat) (n : V3 K) :
    letI := fieldNum K sq
    edgeGet (edgeAdd l k n) k = vaddK (edgeGet l k) n := by
  letI := fieldNum K sq
  induction l with
  | nil => simp [edgeAdd, edgeGet, vaddK, V3.add, V3.zero]
  | cons p l ih =>
    obtain ⟨k', v⟩ := p
    by_cases h : k' = k
    · simp [edgeAdd, edgeGet, h, vaddK, V3.add]
    · simp [edgeAdd, edgeGet, h, ih]

private theorem edgeGet_add_other (l : List ((Nat × Nat) × V3 K)) (k k2 : Nat × Nat) (n : V3 K) (hk : k ≠ k2) :
    letI := fieldNum K sq
    edgeGet (edgeAdd l k n) k2 = edgeGet l k2 := by
  letI := fieldNum K sq
  induction l with
  | nil => simp [edgeAdd, edgeGet, hk]
  | cons p l ih =>
    obtain ⟨k', v⟩ := p
    by_cases h : k' = k
    · subst h
      simp [edgeAdd, edgeGet, hk]
    · by_cases h2 : k' = k2
      · subst h2
        simp [edgeAdd, edgeGet, h]
      · simp [edgeAdd, edgeGet, h, h2, ih]

private theorem sortedPair_ne (a b c d : Nat) (hab : a ≠ b) (hcd : c ≠ d) (h : ¬ ((a = c ∧ b = d) ∨ (a = d ∧ b = c))) :
    sortedPair a b ≠ sortedPair c d := by
  simp only [sortedPair]
  split_ifs <;> simp only [ne_eq, Prod.mk.injEq] <;> omega

private theorem pnStep_edge (acos : K → K) (m : Mesh K) (hd : DistinctIdx m)
    (st st' : Array (V3 K) × List ((Nat × Nat) × V3 K)) (f : Nat)
    (h : letI := fieldNum K sq; pnStep acos m st f = some st') (k : Nat × Nat) :
    letI := fieldNum K sq
    edgeGet st'.2 k = vaddK (edgeGet st.2 k) (pnEdgeContrib sq m f k) := by
  letI := fieldNum K sq
  cases hidx : m.idx[f]? with
  | none => simp [pnStep, hidx] at h
  | some ijk =>
    obtain ⟨i0, i1, i2⟩ := ijk
    obtain ⟨h01, h12, h02⟩ := hd f i0 i1 i2 hidx
    cases htri : m.tri? f with
    | none => simp [pnStep, hidx, htri] at h
    | some t =>
      cases hn : triNormal? t with
      | none =>
        simp [pnStep, hidx, htri, hn] at h
        subst h
        simp [pnEdgeContrib, hidx, htri, hn, vadd_zero']
      | some n =>
        have e12 : sortedPair i0 i1 ≠ sortedPair i0 i2 := sortedPair_ne _ _ _ _ h01 h02 (by omega)
        have e13 : sortedPair i0 i1 ≠ sortedPair i1 i2 := sortedPair_ne _ _ _ _ h01 h12 (by omega)
        have e23 : sortedPair i0 i2 ≠ sortedPair i1 i2 := sortedPair_ne _ _ _ _ h02 h12 (by omega)
        cases hv0 : st.1[i0]? with
        | none => simp [pnStep, hidx, htri, hn, hv0] at h
        | some v0 =>
          cases hv1 : st.1[i1]? with
          | none => simp [pnStep, hidx, htri, hn, hv0, Array.getElem?_setIfInBounds, h01, hv1] at h
          | some v1 =>
            cases hv2 : st.1[i2]? with
            | none =>
              simp [pnStep, hidx, htri, hn, hv0, Array.getElem?_setIfInBounds, h01, hv1, h12, h02, hv2] at h
            | some v2 =>
              simp [pnStep, hidx, htri, hn, hv0, Array.getElem?_setIfInBounds, h01, hv1, h12, h02, hv2] at h
              rw [← h]
              simp only [pnEdgeContrib, hidx, htri, hn]
              by_cases c3 : sortedPair i1 i2 = k
              · subst c3
                rw [edgeGet_add_same sq, edgeGet_add_other sq _ _ _ _ e23, edgeGet_add_other sq _ _ _ _ e13]
                simp
              · by_cases c2 : sortedPair i0 i2 = k
                · subst c2
                  rw [edgeGet_add_other sq _ _ _ _ c3, edgeGet_add_same sq,
                    edgeGet_add_other sq _ _ _ _ e12]
                  simp
                · by_cases c1 : sortedPair i0 i1 = k
                  · subst c1
                    rw [edgeGet_add_other sq _ _ _ _ c3, edgeGet_add_other sq _ _ _ _ c2, edgeGet_add_same sq]
                    simp
                  · rw [edgeGet_add_other sq _ _ _ _ c3, edgeGet_add_other sq _ _ _ _ c2, edgeGet_add_other sq _ _ _ _ c1]
                    simp [c1, c2, c3, vadd_zero']

private theorem vadd_assoc' (a b c : V3 K) : vaddK (vaddK a b) c = vaddK a (vaddK b c) := by
  simp [vaddK, add_assoc]

private theorem pnLoop_edge (acos : K → K) (m : Mesh K) (hd : DistinctIdx m) (fs : List Nat)
    (st st' : Array (V3 K) × List ((Nat × Nat) × V3 K))
    (h : letI := fieldNum K sq; pnLoop acos m fs st = some st') (k : Nat × Nat) :
    letI := fieldNum K sq
    edgeGet st'.2 k = vaddK (edgeGet st.2 k) (vsumK (fs.map fun f => pnEdgeContrib sq m f k)) := by
  letI := fieldNum K sq
  induction fs generalizing st with
  | nil =>
    simp only [pnLoop, Option.some.injEq] at h
    subst h
    simp [vsumK, vadd_zero']
  | cons f fs ih =>
    simp only [pnLoop] at h
    cases hs : pnStep acos m st f with
    | none => simp [hs] at h
    | some st1 =>
      simp only [hs] at h
      rw [ih st1 h, pnStep_edge sq acos m hd st st1 f hs k]
      simp [vsumK, vadd_assoc']

/-- the edge pseudo-normals stored for triangle `g`: each is the sum, over the index buffer, of the unit normals of the triangles
containing that edge -/
theorem tm_pn_edge_sum (acos : K → K) (m : Mesh K) (hd : DistinctIdx m) (pn : PseudoNormals K)
    (h : letI := fieldNum K sq; computePseudoNormals acos m = some pn) (g i0 i1 i2 : Nat)
    (hg : m.idx[g]? = some (i0, i1, i2)) :
    pn.edgeN[g]? = some
      (vsumK ((List.range m.idx.size).map fun f => pnEdgeContrib sq m f (sortedPair i0 i1)),
       vsumK ((List.range m.idx.size).map fun f => pnEdgeContrib sq m f (sortedPair i1 i2)),
       vsumK ((List.range m.idx.size).map fun f => pnEdgeContrib sq m f (sortedPair i2 i0))) := by
  letI := fieldNum K sq
  simp only [computePseudoNormals, bind, Option.bind] at h
  split at h
  · simp at h
  · rename_i r hr
    obtain ⟨vs, es⟩ := r
    simp only [pure, Option.some.injEq] at h
    rw [← h]
    have e := fun k => pnLoop_edge sq acos m hd _ _ _ hr k
    simp only [edgeGet] at e
    have z : ∀ x : V3 K, vaddK (V3.zero : V3 K) x = x := by intro x; cases x; simp [vaddK, V3.zero]
    simp only [z] at e
    simp [Array.getElem?_map, hg, e]

/-- non-vacuity: the index buffer of the corner tetrahedron satisfies `DistinctIdx` -/
example : DistinctIdx (⟨#[⟨0, 0, 0⟩, ⟨1, 0, 0⟩, ⟨0, 1, 0⟩, ⟨0, 0, 1⟩], #[(0, 2, 1), (0, 1, 3), (1, 2, 3), (2, 0, 3)]⟩ : Mesh ℚ) := by
  intro f i0 i1 i2 h
  match f with
  | 0 => simp at h; omega
  | 1 => simp at h; omega
  | 2 => simp at h; omega
  | 3 => simp at h; omega
  | n + 4 => simp at h

end C05
