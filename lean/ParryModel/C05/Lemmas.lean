import ParryModel.Field
import ParryModel.C05.Model
set_option linter.style.haveILetI false
/-!
# C05 helper lemmas (ordered-field algebra shared by the projection theorems)
-/
namespace C05
open Model

variable {K : Type} [Field K] [LinearOrder K] [IsStrictOrderedRing K]

omit [Field K] [LinearOrder K] [IsStrictOrderedRing K] in
theorem v3_ext {a b : V3 K} (hx : a.x = b.x) (hy : a.y = b.y) (hz : a.z = b.z) : a = b := by
  cases a; cases b; simp_all
omit [Field K] [LinearOrder K] [IsStrictOrderedRing K] in
theorem v2_ext {a b : V2 K} (hx : a.x = b.x) (hy : a.y = b.y) : a = b := by
  cases a; cases b; simp_all

/-- variational inequality ⇒ optimality (3-D): if `⟨p - c, q - c⟩ ≤ 0` then `c` is at least as close to `p` as `q`. -/
theorem opt_of_var3 (px py pz cx cy cz qx qy qz : K)
    (h : (px - cx) * (qx - cx) + (py - cy) * (qy - cy) + (pz - cz) * (qz - cz) ≤ 0) :
    (px - cx) * (px - cx) + (py - cy) * (py - cy) + (pz - cz) * (pz - cz)
      ≤ (px - qx) * (px - qx) + (py - qy) * (py - qy) + (pz - qz) * (pz - qz) := by
  nlinarith [sq_nonneg (qx - cx), sq_nonneg (qy - cy), sq_nonneg (qz - cz)]

theorem opt_of_var2 (px py cx cy qx qy : K)
    (h : (px - cx) * (qx - cx) + (py - cy) * (qy - cy) ≤ 0) :
    (px - cx) * (px - cx) + (py - cy) * (py - cy)
      ≤ (px - qx) * (px - qx) + (py - qy) * (py - qy) := by
  nlinarith [sq_nonneg (qx - cx), sq_nonneg (qy - cy)]

/-- Cauchy–Schwarz, 3-D (Lagrange identity) -/
theorem cs3 (a b c x y z : K) :
    (a * x + b * y + c * z) * (a * x + b * y + c * z) ≤ (a * a + b * b + c * c) * (x * x + y * y + z * z) := by
  nlinarith [sq_nonneg (a * y - b * x), sq_nonneg (a * z - c * x), sq_nonneg (b * z - c * y)]
theorem cs2 (a b x y : K) :
    (a * x + b * y) * (a * x + b * y) ≤ (a * a + b * b) * (x * x + y * y) := by
  nlinarith [sq_nonneg (a * y - b * x)]

/-- `u ≤ s t` from `u² ≤ A B`, `A ≤ s²`, `B ≤ t²`, `s, t ≥ 0` -/
theorem le_of_sq_le_mul {u A B s t : K} (h : u * u ≤ A * B) (hA0 : 0 ≤ A) (hB0 : 0 ≤ B) (hA : A ≤ s * s) (hB : B ≤ t * t)
    (hs : 0 ≤ s) (ht : 0 ≤ t) : u ≤ s * t := by
  have h1 : A * B ≤ (s * s) * (t * t) := mul_le_mul hA hB hB0 (le_trans hA0 hA)
  have h2 : u * u ≤ (s * t) * (s * t) := by nlinarith
  by_contra hc
  push Not at hc
  have : 0 ≤ s * t := mul_nonneg hs ht
  nlinarith

/-- dot product bound, 3-D -/
theorem dot_le3 (a b c x y z s t : K) (hA : a * a + b * b + c * c ≤ s * s) (hB : x * x + y * y + z * z ≤ t * t)
    (hs : 0 ≤ s) (ht : 0 ≤ t) : a * x + b * y + c * z ≤ s * t :=
  le_of_sq_le_mul (cs3 a b c x y z) (by nlinarith [mul_self_nonneg a, mul_self_nonneg b, mul_self_nonneg c])
    (by nlinarith [mul_self_nonneg x, mul_self_nonneg y, mul_self_nonneg z]) hA hB hs ht
theorem dot_le2 (a b x y s t : K) (hA : a * a + b * b ≤ s * s) (hB : x * x + y * y ≤ t * t)
    (hs : 0 ≤ s) (ht : 0 ≤ t) : a * x + b * y ≤ s * t :=
  le_of_sq_le_mul (cs2 a b x y) (by nlinarith [mul_self_nonneg a, mul_self_nonneg b])
    (by nlinarith [mul_self_nonneg x, mul_self_nonneg y]) hA hB hs ht

theorem sumsq3_eq_zero {a b c : K} (h : a * a + b * b + c * c ≤ 0) : a = 0 ∧ b = 0 ∧ c = 0 := by
  have ha := mul_self_nonneg a; have hb := mul_self_nonneg b; have hc := mul_self_nonneg c
  refine ⟨?_, ?_, ?_⟩ <;> apply mul_self_eq_zero.mp <;> linarith
theorem sumsq2_eq_zero {a b : K} (h : a * a + b * b ≤ 0) : a = 0 ∧ b = 0 := by
  have ha := mul_self_nonneg a; have hb := mul_self_nonneg b
  refine ⟨?_, ?_⟩ <;> apply mul_self_eq_zero.mp <;> linarith

/-- `x ≤ y` from squares, `y ≥ 0` -/
theorem le_of_mul_self_le {x y : K} (hy : 0 ≤ y) (h : x * x ≤ y * y) : x ≤ y := by
  by_contra hc
  push Not at hc
  nlinarith

/-- one coordinate of `Aabb::do_project_local_point`: the shift `max(lo-x,0) - max(x-hi,0)` clamps `x` into `[lo,hi]` -/
theorem clamp_shift (lo hi x : K) (h : lo ≤ hi) :
    (max (lo - x) 0 - max (x - hi) 0 = 0 ↔ lo ≤ x ∧ x ≤ hi) ∧
    lo ≤ x + (max (lo - x) 0 - max (x - hi) 0) ∧ x + (max (lo - x) 0 - max (x - hi) 0) ≤ hi ∧
    (∀ y, lo ≤ y → y ≤ hi → (x - (x + (max (lo - x) 0 - max (x - hi) 0))) * (y - (x + (max (lo - x) 0 - max (x - hi) 0))) ≤ 0) := by
  rcases lt_or_ge x lo with h1 | h1
  · have e1 : max (lo - x) 0 = lo - x := max_eq_left (by linarith)
    have e2 : max (x - hi) 0 = 0 := max_eq_right (by linarith)
    rw [e1, e2]
    refine ⟨⟨fun h' => by exfalso; linarith, fun h' => by exfalso; linarith [h'.1]⟩, by linarith, by linarith, ?_⟩
    intro y hy1 hy2
    nlinarith [mul_nonneg (sub_nonneg.2 h1.le) (sub_nonneg.2 hy1)]
  · rcases lt_or_ge hi x with h2 | h2
    · have e1 : max (lo - x) 0 = 0 := max_eq_right (by linarith)
      have e2 : max (x - hi) 0 = x - hi := max_eq_left (by linarith)
      rw [e1, e2]
      refine ⟨⟨fun h' => by exfalso; linarith, fun h' => by exfalso; linarith [h'.2]⟩, by linarith, by linarith, ?_⟩
      intro y hy1 hy2
      nlinarith [mul_nonneg (sub_nonneg.2 h2.le) (sub_nonneg.2 hy2)]
    · have e1 : max (lo - x) 0 = 0 := max_eq_right (by linarith)
      have e2 : max (x - hi) 0 = 0 := max_eq_right (by linarith)
      rw [e1, e2]
      refine ⟨⟨fun _ => ⟨h1, h2⟩, fun _ => by ring⟩, by linarith, by linarith, ?_⟩
      intro y _ _
      simp

theorem neq_zero_iff (sq : K → K) (a : K) : @neq K (fieldNum K sq) a 0 = true ↔ a = 0 := by
  simp only [neq, Bool.and_eq_true, decide_eq_true_eq]
  exact ⟨fun ⟨h1, h2⟩ => le_antisymm h1 h2, fun h => by subst h; exact ⟨le_refl _, le_refl _⟩⟩

/-! ## Triangle Voronoi regions in Gram coordinates
`A = |ab|²`, `B = ab·ac`, `C = |ac|²`, `p = a + s·ab + t·ac`; `P1 = ab·ap = sA + tB`, `P2 = ac·ap = sB + tC`.
The six tests of `point_triangle.rs` (vertex a, b, c; edge ab, ac, bc) are written in these coordinates. -/

/-- core case: `t < 0` and `ab·ap < 0` contradict the failure of the tests for vertex `a`, edge `ac`, vertex `c`. -/
theorem tri_L (A B C s t : K) (hA : 0 < A) (hD : 0 < A * C - B * B) (ht : t < 0)
    (hP1 : s * A + t * B < 0)
    (ha : ¬(s * A + t * B ≤ 0 ∧ s * B + t * C ≤ 0))
    (hac : ¬(s < 0 ∧ 0 ≤ s * B + t * C ∧ s * B + t * C - C ≤ 0))
    (hc : ¬(0 ≤ s * B + t * C - C ∧ s * A + t * B - B ≤ s * B + t * C - C)) : False := by
  have hP2 : 0 < s * B + t * C := by
    by_contra h; exact ha ⟨hP1.le, not_lt.1 h⟩
  rcases le_or_gt (s * B + t * C) C with h | h
  · have hs : 0 ≤ s := by
      by_contra h'; exact hac ⟨not_le.1 h', hP2.le, by linarith⟩
    rcases le_total 0 B with hB | hB
    · nlinarith [mul_pos hA hP2, mul_nonneg hB (neg_nonneg.2 hP1.le), mul_pos (neg_pos.2 ht) hD]
    · nlinarith [mul_nonneg hs hA.le, mul_nonneg (neg_nonneg.2 ht.le) (neg_nonneg.2 hB)]
  · have h2 : s * B + t * C - C < s * A + t * B - B := by
      by_contra h'; exact hc ⟨by linarith, not_lt.1 h'⟩
    have hB : B < 0 := by linarith
    have hPB : 0 < s * A + t * B - B := by linarith
    nlinarith [mul_pos hA (sub_pos.2 h), mul_pos (neg_pos.2 hB) hPB, mul_pos (neg_pos.2 ht) hD]

/-- if all six Voronoi tests fail then the `ac`-coordinate `t` is non-negative -/
theorem tri_t_nonneg (A B C s t : K) (hA : 0 < A) (hD : 0 < A * C - B * B)
    (ha : ¬(s * A + t * B ≤ 0 ∧ s * B + t * C ≤ 0))
    (hb : ¬(0 ≤ s * A + t * B - A ∧ s * B + t * C - B ≤ s * A + t * B - A))
    (hc : ¬(0 ≤ s * B + t * C - C ∧ s * A + t * B - B ≤ s * B + t * C - C))
    (hab : ¬(t < 0 ∧ 0 ≤ s * A + t * B ∧ s * A + t * B - A ≤ 0))
    (hac : ¬(s < 0 ∧ 0 ≤ s * B + t * C ∧ s * B + t * C - C ≤ 0))
    (hbc : ¬(1 - s - t < 0 ∧ 0 ≤ (s * B + t * C - B) - (s * A + t * B - A) ∧ 0 ≤ (s * A + t * B - B) - (s * B + t * C - C))) :
    0 ≤ t := by
  by_contra ht
  push Not at ht
  have h12 : s * A + t * B < 0 ∨ A < s * A + t * B := by
    by_contra h; push Not at h; exact hab ⟨ht, h.1, by linarith [h.2]⟩
  rcases h12 with h1 | h1
  · exact tri_L A B C s t hA hD ht h1 ha hac hc
  · have hD' : 0 < A * (A - 2 * B + C) - (A - B) * (A - B) := by
      have : A * (A - 2 * B + C) - (A - B) * (A - B) = A * C - B * B := by ring
      rw [this]; exact hD
    refine tri_L A (A - B) (A - 2 * B + C) (1 - s - t) t hA hD' ht (by linarith) ?_ ?_ ?_
    · exact fun ⟨h1', h2'⟩ => hb ⟨by linarith, by linarith⟩
    · exact fun ⟨h1', h2', h3'⟩ => hbc ⟨h1', by linarith, by linarith⟩
    · exact fun ⟨h1', h2'⟩ => hc ⟨by linarith, by linarith⟩

/-- **face region**: if none of the six Voronoi tests fires, the point has barycentric coordinates in the triangle. -/
theorem tri_face_inside (A B C s t : K) (hA : 0 < A) (hC : 0 < C) (hD : 0 < A * C - B * B)
    (ha : ¬(s * A + t * B ≤ 0 ∧ s * B + t * C ≤ 0))
    (hb : ¬(0 ≤ s * A + t * B - A ∧ s * B + t * C - B ≤ s * A + t * B - A))
    (hc : ¬(0 ≤ s * B + t * C - C ∧ s * A + t * B - B ≤ s * B + t * C - C))
    (hab : ¬(t < 0 ∧ 0 ≤ s * A + t * B ∧ s * A + t * B - A ≤ 0))
    (hac : ¬(s < 0 ∧ 0 ≤ s * B + t * C ∧ s * B + t * C - C ≤ 0))
    (hbc : ¬(1 - s - t < 0 ∧ 0 ≤ (s * B + t * C - B) - (s * A + t * B - A) ∧ 0 ≤ (s * A + t * B - B) - (s * B + t * C - C))) :
    0 ≤ s ∧ 0 ≤ t ∧ s + t ≤ 1 := by
  have h1 := tri_t_nonneg A B C s t hA hD ha hb hc hab hac hbc
  have hD2 : 0 < C * A - B * B := by linarith
  have h2 : 0 ≤ s := by
    refine tri_t_nonneg C B A t s hC hD2 ?_ ?_ ?_ ?_ ?_ ?_
    · exact fun ⟨x, y⟩ => ha ⟨by linarith, by linarith⟩
    · exact fun ⟨x, y⟩ => hc ⟨by linarith, by linarith⟩
    · exact fun ⟨x, y⟩ => hb ⟨by linarith, by linarith⟩
    · exact fun ⟨x, y, z⟩ => hac ⟨x, by linarith, by linarith⟩
    · exact fun ⟨x, y, z⟩ => hab ⟨x, by linarith, by linarith⟩
    · exact fun ⟨x, y, z⟩ => hbc ⟨by linarith, by linarith, by linarith⟩
  have hC' : 0 < A - 2 * B + C := by
    by_contra h; push Not at h
    nlinarith [mul_self_nonneg (A - B), mul_nonneg hA.le (neg_nonneg.2 h)]
  have hD3 : 0 < (A - 2 * B + C) * A - (A - B) * (A - B) := by
    have : (A - 2 * B + C) * A - (A - B) * (A - B) = A * C - B * B := by ring
    rw [this]; exact hD
  have h3 : 0 ≤ 1 - s - t := by
    refine tri_t_nonneg (A - 2 * B + C) (A - B) A t (1 - s - t) hC' hD3 ?_ ?_ ?_ ?_ ?_ ?_
    · exact fun ⟨x, y⟩ => hb ⟨by linarith, by linarith⟩
    · exact fun ⟨x, y⟩ => hc ⟨by linarith, by linarith⟩
    · exact fun ⟨x, y⟩ => ha ⟨by linarith, by linarith⟩
    · exact fun ⟨x, y, z⟩ => hbc ⟨x, by linarith, by linarith⟩
    · exact fun ⟨x, y, z⟩ => hab ⟨x, by linarith, by linarith⟩
    · exact fun ⟨x, y, z⟩ => hac ⟨by linarith, by linarith, by linarith⟩
  exact ⟨h2, h1, by linarith⟩

/-- interior point, Gram coordinates: if the foot of `p` on the line `ac` falls before `a` (`ac·ap < 0`) then the line `ab`
is strictly nearer than the line `ac` (`t²C < s²A`, i.e. `t²D/A < s²D/C`). -/
theorem tri_M (A B C s t : K) (hC : 0 < C) (hD : 0 < A * C - B * B) (hs : 0 ≤ s) (ht : 0 ≤ t)
    (h : s * B + t * C < 0) : t * t * C < s * s * A := by
  have h1 : 0 < -(s * B) - t * C := by linarith
  have h2 : 0 < -(s * B) + t * C := by nlinarith [mul_nonneg ht hC.le]
  have h3 := mul_pos h1 h2
  have h4 : 0 ≤ s * s * (A * C - B * B) := mul_nonneg (mul_self_nonneg s) hD.le
  have h5 : 0 < C * (s * s * A - t * t * C) := by nlinarith
  by_contra hcon; push Not at hcon
  have := mul_nonneg hC.le (sub_nonneg.2 hcon)
  nlinarith

/-- comparison of two quantities given as `p·D/X` and `q·D/Y` -/
theorem tri_cmp (D x y X Y p q : K) (hD : 0 < D) (hX : 0 < X) (hY : 0 < Y) (ex : x * X = p * D) (ey : y * Y = q * D) :
    x < y ↔ p * Y < q * X := by
  have key : (y - x) * (X * Y) = D * (q * X - p * Y) := by linear_combination X * ey - Y * ex
  constructor
  · intro h
    have h1 := mul_pos (sub_pos.2 h) (mul_pos hX hY)
    rw [key] at h1
    have := (mul_pos_iff_of_pos_left hD).mp h1
    linarith
  · intro h
    have h1 : 0 < D * (q * X - p * Y) := mul_pos hD (by linarith)
    rw [← key] at h1
    have := (mul_pos_iff_of_pos_right (mul_pos hX hY)).mp h1
    linarith

set_option maxHeartbeats 800000 in
/-- non-solid interior tail of `point_triangle`, in Gram coordinates: the selected edge has its foot inside the edge, and the
three line distances are `t²D/A`, `s²D/C`, `(1-s-t)²D/|bc|²`. -/
theorem tri_hollow_abs (A B C s t v w u dab dac dbc : K) (hA : 0 < A) (hC : 0 < C) (hD : 0 < A * C - B * B)
    (hs : 0 ≤ s) (ht : 0 ≤ t) (hst : s + t ≤ 1)
    (hv : v * A = s * A + t * B) (hw : w * C = s * B + t * C)
    (hu : u * (A - 2 * B + C) = (s * B + t * C - B) - (s * A + t * B - A))
    (hdab : dab = (s * s * A + 2 * s * t * B + t * t * C) - A * v * v)
    (hdac : dac = (s * s * A + 2 * s * t * B + t * t * C) - C * w * w)
    (hdbc : dbc = ((s - 1) * (s - 1) * A + 2 * (s - 1) * t * B + t * t * C) - (A - 2 * B + C) * u * u) :
    0 < A - 2 * B + C ∧
    dab * A = t * t * (A * C - B * B) ∧ dac * C = s * s * (A * C - B * B) ∧
    dbc * (A - 2 * B + C) = (1 - s - t) * (1 - s - t) * (A * C - B * B) ∧
    (dab < dac → dab < dbc → 0 ≤ v ∧ v ≤ 1) ∧
    (¬ dab < dac → dac < dbc → 0 ≤ w ∧ w ≤ 1) ∧
    (dbc ≤ dab → dbc ≤ dac → 0 ≤ u ∧ u ≤ 1) := by
  have hC' : 0 < A - 2 * B + C := by
    by_contra h; push Not at h
    nlinarith [mul_self_nonneg (A - B), mul_nonneg hA.le (neg_nonneg.2 h)]
  have e1 : dab * A = t * t * (A * C - B * B) := by
    rw [hdab]; linear_combination (-(v * A) - (s * A + t * B)) * hv
  have e2 : dac * C = s * s * (A * C - B * B) := by
    rw [hdac]; linear_combination (-(w * C) - (s * B + t * C)) * hw
  have e3 : dbc * (A - 2 * B + C) = (1 - s - t) * (1 - s - t) * (A * C - B * B) := by
    rw [hdbc]; linear_combination (-(u * (A - 2 * B + C)) - ((s * B + t * C - B) - (s * A + t * B - A))) * hu
  have hD' : 0 < A * (A - 2 * B + C) - (A - B) * (A - B) := by
    have : A * (A - 2 * B + C) - (A - B) * (A - B) = A * C - B * B := by ring
    rw [this]; exact hD
  have hD'' : 0 < (A - 2 * B + C) * C - (C - B) * (C - B) := by
    have : (A - 2 * B + C) * C - (C - B) * (C - B) = A * C - B * B := by ring
    rw [this]; exact hD
  have hs' : 0 ≤ 1 - s - t := by linarith
  refine ⟨hC', e1, e2, e3, ?_, ?_, ?_⟩
  · intro h1 h2
    constructor
    · -- v < 0 would make `ac` strictly nearer than `ab`
      by_contra hc; push Not at hc
      have hP : t * B + s * A < 0 := by nlinarith
      have := tri_M C B A t s hA (by linarith) ht hs hP
      have h1' := (tri_cmp _ _ _ _ _ _ _ hD hA hC e1 e2).mp h1
      linarith
    · by_contra hc; push Not at hc
      have hP : (1 - s - t) * A + t * (A - B) < 0 := by nlinarith
      have hM := tri_M (A - 2 * B + C) (A - B) A t (1 - s - t) hA (by linarith) ht hs' (by linarith)
      have h2' := (tri_cmp _ _ _ _ _ _ _ hD hA hC' e1 e3).mp h2
      linarith
  · intro h1 h2
    constructor
    · by_contra hc; push Not at hc
      have hP : s * B + t * C < 0 := by nlinarith
      have hM := tri_M A B C s t hC hD hs ht hP
      exact h1 ((tri_cmp _ _ _ _ _ _ _ hD hA hC e1 e2).mpr (by linarith))
    · by_contra hc; push Not at hc
      have hP : (1 - s - t) * C + s * (C - B) < 0 := by nlinarith
      have hM := tri_M (A - 2 * B + C) (C - B) C s (1 - s - t) hC (by linarith) hs hs' (by linarith)
      have h2' := (tri_cmp _ _ _ _ _ _ _ hD hC hC' e2 e3).mp h2
      linarith
  · intro h1 h2
    constructor
    · -- u < 0: `bc·bp < 0`, then `ba` is strictly nearer than `bc`
      by_contra hc; push Not at hc
      have hP : (1 - s - t) * (A - B) + t * (A - 2 * B + C) < 0 := by nlinarith
      have hM := tri_M A (A - B) (A - 2 * B + C) (1 - s - t) t hC' hD' hs' ht hP
      have := (tri_cmp _ _ _ _ _ _ _ hD hA hC' e1 e3).mpr (by linarith)
      linarith
    · by_contra hc; push Not at hc
      have hP : (1 - s - t) * (C - B) + s * (A - 2 * B + C) < 0 := by nlinarith
      have hM := tri_M C (C - B) (A - 2 * B + C) (1 - s - t) s hC' (by linarith) hs' hs hP
      have := (tri_cmp _ _ _ _ _ _ _ hD hC hC' e2 e3).mpr (by linarith)
      linarith

/-! ## Isometries: a unit quaternion / unit complex acts as a distance-preserving bijection -/

/-- squared distance (the specification's metric) -/
def dsq3 (p q : V3 K) : K := (p.x - q.x) * (p.x - q.x) + (p.y - q.y) * (p.y - q.y) + (p.z - q.z) * (p.z - q.z)
def dsq2 (p q : V2 K) : K := (p.x - q.x) * (p.x - q.x) + (p.y - q.y) * (p.y - q.y)

section iso
variable (sq : K → K)

theorem iso3_invRot_rot (m : Iso3 K) (v : V3 K)
    (hq : m.qi * m.qi + m.qj * m.qj + m.qk * m.qk + m.qw * m.qw = 1) :
    @Iso3.invRot K (fieldNum K sq) m (@Iso3.rot K (fieldNum K sq) m v) = v := by
  letI := fieldNum K sq
  apply v3_ext <;> simp only [Iso3.invRot, Iso3.rot, Iso3.rotQ, Iso3.qv, V3.cross, V3.smul, V3.add, V3.neg, fieldNum_two]
  · linear_combination (-4 * (m.qj * (m.qi * v.y - m.qj * v.x) - m.qk * (m.qk * v.x - m.qi * v.z))) * hq
  · linear_combination (-4 * (m.qk * (m.qj * v.z - m.qk * v.y) - m.qi * (m.qi * v.y - m.qj * v.x))) * hq
  · linear_combination (-4 * (m.qi * (m.qk * v.x - m.qi * v.z) - m.qj * (m.qj * v.z - m.qk * v.y))) * hq

theorem iso3_rot_invRot (m : Iso3 K) (v : V3 K)
    (hq : m.qi * m.qi + m.qj * m.qj + m.qk * m.qk + m.qw * m.qw = 1) :
    @Iso3.rot K (fieldNum K sq) m (@Iso3.invRot K (fieldNum K sq) m v) = v := by
  letI := fieldNum K sq
  apply v3_ext <;> simp only [Iso3.invRot, Iso3.rot, Iso3.rotQ, Iso3.qv, V3.cross, V3.smul, V3.add, V3.neg, fieldNum_two]
  · linear_combination (-4 * (m.qj * (m.qi * v.y - m.qj * v.x) - m.qk * (m.qk * v.x - m.qi * v.z))) * hq
  · linear_combination (-4 * (m.qk * (m.qj * v.z - m.qk * v.y) - m.qi * (m.qi * v.y - m.qj * v.x))) * hq
  · linear_combination (-4 * (m.qi * (m.qk * v.x - m.qi * v.z) - m.qj * (m.qj * v.z - m.qk * v.y))) * hq

theorem iso3_rot_dsq (m : Iso3 K) (x y : V3 K)
    (hq : m.qi * m.qi + m.qj * m.qj + m.qk * m.qk + m.qw * m.qw = 1) :
    dsq3 (@Iso3.rot K (fieldNum K sq) m x) (@Iso3.rot K (fieldNum K sq) m y) = dsq3 x y := by
  letI := fieldNum K sq
  simp only [dsq3, Iso3.rot, Iso3.rotQ, Iso3.qv, V3.cross, V3.smul, V3.add, fieldNum_two]
  linear_combination (4 * ((m.qj * (x.z - y.z) - m.qk * (x.y - y.y)) ^ 2 + (m.qk * (x.x - y.x) - m.qi * (x.z - y.z)) ^ 2
    + (m.qi * (x.y - y.y) - m.qj * (x.x - y.x)) ^ 2)) * hq

theorem iso2_invRot_rot (m : Iso2 K) (v : V2 K) (hq : m.re * m.re + m.im * m.im = 1) :
    @Iso2.invRot K (fieldNum K sq) m (@Iso2.rot K (fieldNum K sq) m v) = v := by
  letI := fieldNum K sq
  apply v2_ext <;> simp only [Iso2.invRot, Iso2.rot]
  · linear_combination (v.x) * hq
  · linear_combination (v.y) * hq

theorem iso2_rot_invRot (m : Iso2 K) (v : V2 K) (hq : m.re * m.re + m.im * m.im = 1) :
    @Iso2.rot K (fieldNum K sq) m (@Iso2.invRot K (fieldNum K sq) m v) = v := by
  letI := fieldNum K sq
  apply v2_ext <;> simp only [Iso2.invRot, Iso2.rot]
  · linear_combination (v.x) * hq
  · linear_combination (v.y) * hq

theorem iso2_rot_dsq (m : Iso2 K) (x y : V2 K) (hq : m.re * m.re + m.im * m.im = 1) :
    dsq2 (@Iso2.rot K (fieldNum K sq) m x) (@Iso2.rot K (fieldNum K sq) m y) = dsq2 x y := by
  letI := fieldNum K sq
  simp only [dsq2, Iso2.rot]
  linear_combination ((x.x - y.x) ^ 2 + (x.y - y.y) ^ 2) * hq

end iso

end C05
