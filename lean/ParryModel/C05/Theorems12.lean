import ParryModel.Field
import ParryModel.C05.Model
import ParryModel.C05.Theorems5
set_option linter.style.haveILetI false
set_option linter.unusedSimpArgs false
set_option linter.unusedVariables false
set_option linter.unusedSectionVars false
/-!
# C05 property theorems, part 12 (fu5): tetrahedron — face Voronoi regions (`check_face`)

Until now the face branch of `Tetrahedron::project_local_point_and_get_location` was correspondence + oracle only.

Notation: the face is `a, b = a + ab, c = a + ac`; `ad` is the edge vector to the opposite vertex; `n = ab × ac`;
`ap = pt - a`, `bp = ap - ab`, `cp = ap - ac`; the three edge determinants handed down by the edge tests are
`d1 = (ap × ab)·n`, `d2 = (bp × (ac - ab))·n`, `d3 = (ap × ac)·(-n)` (in this or any other order: `tet_face_perm*`).

* `tet_face_sound` — when `check_face` answers, the answer is never the `assert!(denom != 0)` panic; it is
  `a·b0 + b·b1 + c·b2` with `b0, b1, b2 > 0`, `b0 + b1 + b2 = 1` (a point of the open face triangle, tagged `OnFace(i, [b0,b1,b2])`,
  flag `false`), `pt - proj` is orthogonal to `ab` and to `ac` (it is the foot of the perpendicular on the face plane), and the
  query point and the opposite vertex are on strictly opposite sides of the face plane.
* `tet_face_optimal` — hence no member `a + β·ab + γ·ac + δ·ad`, `δ ≥ 0` (any `β, γ`: the whole half-space behind the face,
  which contains the tetrahedron) is closer to `pt` than the returned point.
* `tet_face_not_member` — the face test never fires for a member of the tetrahedron (so the flag `false` is right).
* `tet_face_perm12`, `tet_face_perm23` — `check_face` is symmetric in its three determinant arguments (the code passes them in
  a different order for face `abd`).
-/
namespace C05
open Model

variable {K : Type} [Field K] [LinearOrder K] [IsStrictOrderedRing K] (sq : K → K)

private theorem nearest_of_nonacute' (p v q : V3 K)
    (h : (p.x - v.x) * (q.x - v.x) + (p.y - v.y) * (q.y - v.y) + (p.z - v.z) * (q.z - v.z) ≤ 0) :
    dist2K p v ≤ dist2K p q := by
  simp only [dist2K]
  nlinarith [sq_nonneg (q.x - v.x), sq_nonneg (q.y - v.y), sq_nonneg (q.z - v.z)]

private theorem sdiv_dot (n X : V3 K) (r : K) :
    letI := fieldNum K sq
    (n.sdiv r).dot X = n.dot X / r := by
  letI := fieldNum K sq
  simp only [V3.sdiv, V3.dot]
  ring

private theorem cross_sum (ap ab ac : V3 K) :
    letI := fieldNum K sq
    (ab.cross ac).dot ((ap.sub ab).cross (ap.sub ac)) + (ab.cross ac).dot ((ap.sub ac).cross ap)
      + (ab.cross ac).dot (ap.cross (ap.sub ab)) = (ab.cross ac).dot (ab.cross ac) := by
  letI := fieldNum K sq
  simp only [V3.cross, V3.dot, V3.sub]
  ring

private theorem face_norm_pos (hs : LawfulSqrt sq) (n : V3 K)
    (h : letI := fieldNum K sq; ¬ n.norm ≤ eps) :
    letI := fieldNum K sq
    0 < sq (n.dot n) ∧ sq (n.dot n) * sq (n.dot n) = n.dot n ∧ 0 < n.dot n := by
  letI := fieldNum K sq
  have hNnn : 0 ≤ n.dot n := by
    simp only [V3.dot]
    nlinarith [mul_self_nonneg n.x, mul_self_nonneg n.y, mul_self_nonneg n.z]
  have hepos : (0 : K) < eps := by
    simp only [eps, fieldNum_lit]; norm_num
  have hrpos : 0 < sq (n.dot n) := by
    have h2 := lt_trans hepos (not_le.mp h)
    simp only [V3.norm, V3.normSq, fieldNum_sqrt] at h2
    exact h2
  have hrr := hs.sq_mul _ hNnn
  refine ⟨hrpos, hrr, ?_⟩
  rw [← hrr]; exact mul_pos hrpos hrpos

private theorem face_denom (hs : LawfulSqrt sq) (ap ab ac : V3 K)
    (h : letI := fieldNum K sq; ¬ (ab.cross ac).norm ≤ eps) :
    letI := fieldNum K sq
    (((ab.cross ac).sdiv (ab.cross ac).norm).dot ((ap.sub ab).cross (ap.sub ac))
      + ((ab.cross ac).sdiv (ab.cross ac).norm).dot ((ap.sub ac).cross ap)
      + ((ab.cross ac).sdiv (ab.cross ac).norm).dot (ap.cross (ap.sub ab))) = sq ((ab.cross ac).dot (ab.cross ac)) := by
  letI := fieldNum K sq
  obtain ⟨hrpos, hrr, hNpos⟩ := face_norm_pos sq hs (ab.cross ac) h
  rw [sdiv_dot, sdiv_dot, sdiv_dot, ← add_div, ← add_div, cross_sum]
  simp only [V3.norm, V3.normSq, fieldNum_sqrt]
  rw [div_eq_iff (ne_of_gt hrpos)]
  exact hrr.symm

theorem tet_face_perm12 (i : Nat) (a b c ap bp cp ab ac ad : V3 K) (d1 d2 d3 : K) :
    letI := fieldNum K sq
    tetCheckFace i a b c ap bp cp ab ac ad d1 d2 d3 = tetCheckFace i a b c ap bp cp ab ac ad d2 d1 d3 := by
  letI := fieldNum K sq
  simp only [tetCheckFace]
  rw [Bool.and_comm (decide (d1 < 0)) (decide (d2 < 0))]

theorem tet_face_perm23 (i : Nat) (a b c ap bp cp ab ac ad : V3 K) (d1 d2 d3 : K) :
    letI := fieldNum K sq
    tetCheckFace i a b c ap bp cp ab ac ad d1 d2 d3 = tetCheckFace i a b c ap bp cp ab ac ad d1 d3 d2 := by
  letI := fieldNum K sq
  simp only [tetCheckFace]
  rw [Bool.and_assoc, Bool.and_comm (decide (d2 < 0)) (decide (d3 < 0)), ← Bool.and_assoc]

/-- `check_face` soundness. -/
theorem tet_face_sound (hs : LawfulSqrt sq) (i : Nat) (a ap ab ac ad : V3 K) (res : TetRes K)
    (h : letI := fieldNum K sq
      tetCheckFace i a (a.add ab) (a.add ac) ap (ap.sub ab) (ap.sub ac) ab ac ad
        ((ap.cross ab).dot (ab.cross ac)) (((ap.sub ab).cross (ac.sub ab)).dot (ab.cross ac))
        ((ap.cross ac).dot (ab.cross ac).neg) = some res) :
    letI := fieldNum K sq
    ∃ b0 b1 b2 : K, 0 < b0 ∧ 0 < b1 ∧ 0 < b2 ∧ b0 + b1 + b2 = 1 ∧
      res = TetRes.ok ⟨false, ((a.smul b0).add ((a.add ab).smul b1)).add ((a.add ac).smul b2)⟩ (TetLoc.face i b0 b1 b2) ∧
      (ap.sub ((ab.smul b1).add (ac.smul b2))).dot ab = 0 ∧ (ap.sub ((ab.smul b1).add (ac.smul b2))).dot ac = 0 ∧
      (ab.cross ac).dot ad * (ab.cross ac).dot ap < 0 := by
  letI := fieldNum K sq
  simp only [tetCheckFace] at h
  split_ifs at h with hd hside hnrm hden
  all_goals simp only [Bool.and_eq_true, decide_eq_true_eq] at hd
  all_goals obtain ⟨⟨hd1, hd2⟩, hd3⟩ := hd
  all_goals obtain ⟨hrpos, hrr, hNpos⟩ := face_norm_pos sq hs (ab.cross ac) hnrm
  all_goals have hden_eq := face_denom sq hs ap ab ac hnrm
  · -- the assert: denom = |n| ≠ 0
    exfalso
    rw [hden_eq] at hden
    simp only [neq, Bool.and_eq_true, decide_eq_true_eq] at hden
    exact absurd (le_antisymm hden.1 hden.2) (ne_of_gt hrpos)
  · simp only [Option.some.injEq] at h
    rw [hden_eq] at h
    simp only [sdiv_dot] at h
    simp only [V3.norm, V3.normSq, fieldNum_sqrt] at h
    set r := sq ((ab.cross ac).dot (ab.cross ac)) with hr
    set N := (ab.cross ac).dot (ab.cross ac) with hN
    have hrne : r ≠ 0 := ne_of_gt hrpos
    have hNne : N ≠ 0 := ne_of_gt hNpos
    have e0 : (ab.cross ac).dot ((ap.sub ab).cross (ap.sub ac)) / r * (1 / r)
        = -(((ap.sub ab).cross (ac.sub ab)).dot (ab.cross ac)) / N := by
      rw [← hrr]; field_simp
      simp only [V3.cross, V3.dot, V3.sub]; ring
    have e1 : (ab.cross ac).dot ((ap.sub ac).cross ap) / r * (1 / r) = -((ap.cross ac).dot (ab.cross ac).neg) / N := by
      rw [← hrr]; field_simp
      simp only [V3.cross, V3.dot, V3.sub, V3.neg]; ring
    have e2 : (ab.cross ac).dot (ap.cross (ap.sub ab)) / r * (1 / r) = -((ap.cross ab).dot (ab.cross ac)) / N := by
      rw [← hrr]; field_simp
      simp only [V3.cross, V3.dot, V3.sub]; ring
    refine ⟨_, _, _, ?_, ?_, ?_, ?_, h.symm, ?_, ?_, ?_⟩
    · rw [e0]; exact div_pos (neg_pos.mpr hd2) hNpos
    · rw [e1]; exact div_pos (neg_pos.mpr hd3) hNpos
    · rw [e2]; exact div_pos (neg_pos.mpr hd1) hNpos
    · rw [e0, e1, e2, ← add_div, ← add_div, div_eq_iff hNne, hN]
      simp only [V3.cross, V3.dot, V3.sub, V3.neg]; ring
    · rw [e1, e2]
      simp only [V3.cross, V3.dot, V3.sub, V3.neg, V3.smul, V3.add] at hN ⊢
      field_simp
      rw [hN]; ring
    · rw [e1, e2]
      simp only [V3.cross, V3.dot, V3.sub, V3.neg, V3.smul, V3.add] at hN ⊢
      field_simp
      rw [hN]; ring
    · exact hside

/-- no point of the closed half-space behind the face (`δ ≥ 0`; it contains the whole tetrahedron) is closer to `pt = a + ap`
than the point returned by `check_face` -/
theorem tet_face_optimal (hs : LawfulSqrt sq) (i : Nat) (a ap ab ac ad : V3 K) (pp : PP3 K) (l : TetLoc K)
    (h : letI := fieldNum K sq
      tetCheckFace i a (a.add ab) (a.add ac) ap (ap.sub ab) (ap.sub ac) ab ac ad
        ((ap.cross ab).dot (ab.cross ac)) (((ap.sub ab).cross (ac.sub ab)).dot (ab.cross ac))
        ((ap.cross ac).dot (ab.cross ac).neg) = some (TetRes.ok pp l))
    (β γ δ : K) (hδ : 0 ≤ δ) :
    letI := fieldNum K sq
    dist2K (a.add ap) pp.pt ≤ dist2K (a.add ap) (((a.add (ab.smul β)).add (ac.smul γ)).add (ad.smul δ)) := by
  letI := fieldNum K sq
  obtain ⟨b0, b1, b2, _, _, _, hsum, hres, hp1, hp2, hside⟩ := tet_face_sound sq hs i a ap ab ac ad _ h
  simp only [TetRes.ok.injEq] at hres
  obtain ⟨hpp, _⟩ := hres
  have hb0 : b0 = 1 - b1 - b2 := by linarith
  obtain ⟨hrpos, hrr, hNpos⟩ : 0 < sq ((ab.cross ac).dot (ab.cross ac)) ∧ _ ∧ 0 < (ab.cross ac).dot (ab.cross ac) := by
    have hn : ¬ (ab.cross ac).norm ≤ eps := by
      intro hle
      simp only [tetCheckFace] at h
      split_ifs at h
    exact face_norm_pos sq hs (ab.cross ac) hn
  apply nearest_of_nonacute'
  rw [hpp, hb0]
  simp only [V3.add, V3.sub, V3.smul, V3.dot, V3.cross] at hp1 hp2 hside hNpos ⊢
  -- N · (w·ad) = (n·ap)(n·ad) + c1 (w·ab) + c2 (w·ac)
  have key : ((ab.y * ac.z - ab.z * ac.y) * (ab.y * ac.z - ab.z * ac.y) + (ab.z * ac.x - ab.x * ac.z) * (ab.z * ac.x - ab.x * ac.z)
        + (ab.x * ac.y - ab.y * ac.x) * (ab.x * ac.y - ab.y * ac.x))
      * ((ap.x - (ab.x * b1 + ac.x * b2)) * ad.x + (ap.y - (ab.y * b1 + ac.y * b2)) * ad.y + (ap.z - (ab.z * b1 + ac.z * b2)) * ad.z)
      = ((ab.y * ac.z - ab.z * ac.y) * ad.x + (ab.z * ac.x - ab.x * ac.z) * ad.y + (ab.x * ac.y - ab.y * ac.x) * ad.z)
        * ((ab.y * ac.z - ab.z * ac.y) * ap.x + (ab.z * ac.x - ab.x * ac.z) * ap.y + (ab.x * ac.y - ab.y * ac.x) * ap.z) := by
    linear_combination ((ac.x * ac.x + ac.y * ac.y + ac.z * ac.z) * (ab.x * ad.x + ab.y * ad.y + ab.z * ad.z)
        - (ab.x * ac.x + ab.y * ac.y + ab.z * ac.z) * (ac.x * ad.x + ac.y * ad.y + ac.z * ad.z)) * hp1
      + ((ab.x * ab.x + ab.y * ab.y + ab.z * ab.z) * (ac.x * ad.x + ac.y * ad.y + ac.z * ad.z)
        - (ab.x * ac.x + ab.y * ac.y + ab.z * ac.z) * (ab.x * ad.x + ab.y * ad.y + ab.z * ad.z)) * hp2
  have hwad : (ap.x - (ab.x * b1 + ac.x * b2)) * ad.x + (ap.y - (ab.y * b1 + ac.y * b2)) * ad.y
      + (ap.z - (ab.z * b1 + ac.z * b2)) * ad.z < 0 := by
    by_contra hc
    push Not at hc
    have := mul_nonneg hNpos.le hc
    linarith
  have e1 : (β - b1) * ((ap.x - (ab.x * b1 + ac.x * b2)) * ab.x + (ap.y - (ab.y * b1 + ac.y * b2)) * ab.y
      + (ap.z - (ab.z * b1 + ac.z * b2)) * ab.z) = 0 := by rw [hp1]; ring
  have e2 : (γ - b2) * ((ap.x - (ab.x * b1 + ac.x * b2)) * ac.x + (ap.y - (ab.y * b1 + ac.y * b2)) * ac.y
      + (ap.z - (ab.z * b1 + ac.z * b2)) * ac.z) = 0 := by rw [hp2]; ring
  have e3 := mul_nonpos_of_nonneg_of_nonpos hδ hwad.le
  linarith [e1, e2, e3]

/-- the face test never fires for a point `a + β·ab + γ·ac + δ·ad` with `δ ≥ 0` — in particular for no member of the
tetrahedron: a face answer (flag `false`) is only given for points outside. -/
theorem tet_face_not_member (i : Nat) (a b c ap bp cp ab ac ad : V3 K) (d1 d2 d3 β γ δ : K) (hδ : 0 ≤ δ)
    (hap : letI := fieldNum K sq; ap = ((ab.smul β).add (ac.smul γ)).add (ad.smul δ)) :
    letI := fieldNum K sq
    tetCheckFace i a b c ap bp cp ab ac ad d1 d2 d3 = none := by
  letI := fieldNum K sq
  simp only [tetCheckFace]
  have hside : ¬ ((ab.cross ac).dot ad * (ab.cross ac).dot ap < 0) := by
    rw [hap]
    simp only [V3.add, V3.smul, V3.dot, V3.cross]
    have e : ((ab.y * ac.z - ab.z * ac.y) * ad.x + (ab.z * ac.x - ab.x * ac.z) * ad.y + (ab.x * ac.y - ab.y * ac.x) * ad.z)
        * ((ab.y * ac.z - ab.z * ac.y) * (ab.x * β + ac.x * γ + ad.x * δ) + (ab.z * ac.x - ab.x * ac.z) * (ab.y * β + ac.y * γ + ad.y * δ)
          + (ab.x * ac.y - ab.y * ac.x) * (ab.z * β + ac.z * γ + ad.z * δ))
        = δ * (((ab.y * ac.z - ab.z * ac.y) * ad.x + (ab.z * ac.x - ab.x * ac.z) * ad.y + (ab.x * ac.y - ab.y * ac.x) * ad.z)
          * ((ab.y * ac.z - ab.z * ac.y) * ad.x + (ab.z * ac.x - ab.x * ac.z) * ad.y + (ab.x * ac.y - ab.y * ac.x) * ad.z)) := by ring
    rw [e]
    exact not_lt.mpr (mul_nonneg hδ (mul_self_nonneg _))
  split_ifs <;> rfl

/-- non-vacuity: the face test fires for the unit corner tetrahedron and a point below the face `abc` (here `sqrt 1 = 1`) -/
example :
    letI := fieldNum ℚ (fun x => if x = 1 then 1 else 0)
    let a : V3 ℚ := ⟨0, 0, 0⟩; let ap : V3 ℚ := ⟨1/4, 1/4, -1⟩
    let ab : V3 ℚ := ⟨1, 0, 0⟩; let ac : V3 ℚ := ⟨0, 1, 0⟩; let ad : V3 ℚ := ⟨0, 0, 1⟩
    (tetCheckFace 0 a (a.add ab) (a.add ac) ap (ap.sub ab) (ap.sub ac) ab ac ad
        ((ap.cross ab).dot (ab.cross ac)) (((ap.sub ab).cross (ac.sub ab)).dot (ab.cross ac))
        ((ap.cross ac).dot (ab.cross ac).neg)).isSome = true := by
  simp [tetCheckFace, V3.cross, V3.dot, V3.sub, V3.add, V3.neg, V3.norm, V3.normSq, V3.sdiv, V3.smul, neq, eps, lit,
    Num.sqrt, Num.ofRat]
  norm_num

end C05
