import ParryModel.Field
import ParryModel.C05.Tet
import ParryModel.C05.Theorems1
import ParryModel.C05.Theorems14
set_option linter.style.haveILetI false
set_option linter.unusedSimpArgs false
set_option linter.unusedVariables false
set_option linter.unusedSectionVars false
/-!
# C05 property theorems, part 15 (fu5): the tetrahedron's other `PointQuery` methods (`Tet.lean`)

`projectT` / `panics` split the location form into its value and its panic; the default methods are the generic
`defaultDistance3` … `posedContains3` applied to `projectT`, so the generic theorems of `Theorems1` apply verbatim.
* `tet_projectT_nearest` — where it does not panic and does not answer `OnSolid`, `project_local_point` returns a boundary
  point of the tetrahedron and no member is closer (restatement of `tet_project_nearest` for the total function).
* `tet_panics_only_nonsolid` — `project_local_point(.., true)`, `contains_local_point`, `contains_point`,
  `distance_to_local_point(.., true)` never panic.
* `tet_contains_interior` — `contains_local_point = true` for every strictly interior point of a non-degenerate tetrahedron.
* `tet_contains_fixed` — `contains_local_point = true` only if `project_local_point(pt, true)` is `(true, pt)`.
* `tet_distance_nonneg` — `distance_to_local_point` is never negative for a tetrahedron (the flag `true` never comes with
  `solid = false`), and its square is the squared distance to the returned point.
* `tet_max_dist_spec` — `project_local_point_with_max_dist`: `None` exactly when the projection is farther than the bound,
  `Some` carries the unbounded projection.
* `tet_posed_nearest` — `project_point` with a unit rotation: the answer is `m·(boundary point)` and no point of the posed
  tetrahedron `{y | m⁻¹ y ∈ tet}` is closer to the world-space query point.
-/
namespace C05
open Model

variable {K : Type} [Field K] [LinearOrder K] [IsStrictOrderedRing K] (sq : K → K)

private theorem dist2K_eq_dsq3 (p q : V3 K) : dist2K p q = dsq3 p q := rfl

private theorem projectT_of_ok (s : Tetrahedron K) (pt : V3 K) (solid : Bool) (pp : PP3 K) (l : TetLoc K)
    (h : letI := fieldNum K sq; s.projectLoc pt solid = TetRes.ok pp l) :
    letI := fieldNum K sq
    s.projectT pt solid = pp ∧ s.panics pt solid = false := by
  letI := fieldNum K sq
  simp only [Tetrahedron.projectT, Tetrahedron.panics, h, and_self]

theorem tet_projectT_nearest (hs : LawfulSqrt sq) (s : Tetrahedron K) (pt : V3 K) (solid : Bool) (pp : PP3 K) (l : TetLoc K)
    (h : letI := fieldNum K sq; s.projectLoc pt solid = TetRes.ok pp l) (hl : l ≠ TetLoc.solid) :
    letI := fieldNum K sq
    s.panics pt solid = false ∧ (s.projectT pt solid).inside = false ∧ TetBdry s (s.projectT pt solid).pt ∧
      ∀ q, TetMem s q → dist2K pt (s.projectT pt solid).pt ≤ dist2K pt q := by
  letI := fieldNum K sq
  obtain ⟨e, hp⟩ := projectT_of_ok sq s pt solid pp l h
  rw [e]
  exact ⟨hp, tet_project_nearest sq hs s pt solid pp l h hl⟩

theorem tet_panics_only_nonsolid (hs : LawfulSqrt sq) (s : Tetrahedron K) (pt : V3 K) :
    letI := fieldNum K sq
    s.panics pt true = false ∧ s.contains? pt ≠ none ∧ s.distance? pt true ≠ none ∧
      ∀ m : Iso3 K, s.posedContains? m pt ≠ none := by
  letI := fieldNum K sq
  have hp : ∀ p : V3 K, s.panics p true = false := by
    intro p
    have := tet_project_no_assert sq hs s p
    simp only [Tetrahedron.panics]
    cases hres : s.projectLoc p true with
    | panic => exact absurd hres this
    | ok pp l => rfl
  refine ⟨hp pt, ?_, ?_, fun m => ?_⟩
  · simp [Tetrahedron.contains?, hp pt]
  · simp [Tetrahedron.distance?, hp pt]
  · simp [Tetrahedron.posedContains?, hp (m.invAct pt)]

theorem tet_contains_interior (hs : LawfulSqrt sq) (s : Tetrahedron K) (pt : V3 K)
    (hdet : letI := fieldNum K sq; (s.b.sub s.a).dot ((s.c.sub s.a).cross (s.d.sub s.a)) ≠ 0)
    (β γ δ : K) (hβ : 0 < β) (hγ : 0 < γ) (hδ : 0 < δ) (hsum : β + γ + δ < 1)
    (hx : pt.x = s.a.x + β * (s.b.x - s.a.x) + γ * (s.c.x - s.a.x) + δ * (s.d.x - s.a.x))
    (hy : pt.y = s.a.y + β * (s.b.y - s.a.y) + γ * (s.c.y - s.a.y) + δ * (s.d.y - s.a.y))
    (hz : pt.z = s.a.z + β * (s.b.z - s.a.z) + γ * (s.c.z - s.a.z) + δ * (s.d.z - s.a.z)) :
    letI := fieldNum K sq
    s.contains? pt = some true := by
  letI := fieldNum K sq
  have h := tet_interior_solid sq hs s pt hdet β γ δ hβ hγ hδ hsum hx hy hz
  obtain ⟨e, hp⟩ := projectT_of_ok sq s pt true _ _ h
  simp only [Tetrahedron.contains?, hp, defaultContains3, e]
  rfl

theorem tet_contains_fixed (hs : LawfulSqrt sq) (s : Tetrahedron K) (pt : V3 K)
    (h : letI := fieldNum K sq; s.contains? pt = some true) :
    letI := fieldNum K sq
    s.projectLoc pt true = TetRes.ok ⟨true, pt⟩ TetLoc.solid := by
  letI := fieldNum K sq
  cases hres : s.projectLoc pt true with
  | panic => exact absurd hres (tet_project_no_assert sq hs s pt)
  | ok pp l =>
    obtain ⟨e, hp⟩ := projectT_of_ok sq s pt true pp l hres
    simp only [Tetrahedron.contains?, hp, defaultContains3, e] at h
    have hin : pp.inside = true := by simpa using h
    obtain ⟨hl, _, hpt⟩ := tet_flag_true_is_solid sq hs s pt true pp l hres hin
    subst hl
    cases pp
    simp only at hin hpt
    rw [hin, hpt]

theorem tet_distance_nonneg (hs : LawfulSqrt sq) (s : Tetrahedron K) (pt : V3 K) (solid : Bool) (d : K)
    (h : letI := fieldNum K sq; s.distance? pt solid = some d) :
    letI := fieldNum K sq
    0 ≤ d ∧ d * d = dsq3 pt (s.projectT pt solid).pt := by
  letI := fieldNum K sq
  simp only [Tetrahedron.distance?] at h
  split_ifs at h with hp
  simp only [Option.some.injEq] at h
  obtain ⟨h1, h2, _⟩ := default_distance_spec3 sq hs s.projectT pt solid
  rw [h] at h1 h2
  refine ⟨?_, h1⟩
  by_contra hneg
  push Not at hneg
  obtain ⟨hso, hin⟩ := h2 hneg
  -- the flag `true` with `solid = false` is impossible
  subst hso
  cases hres : s.projectLoc pt false with
  | panic => simp [Tetrahedron.panics, hres] at hp
  | ok pp l =>
    obtain ⟨e, _⟩ := projectT_of_ok sq s pt false pp l hres
    rw [e] at hin
    obtain ⟨_, hso, _⟩ := tet_flag_true_is_solid sq hs s pt false pp l hres hin
    exact absurd hso (by simp)

theorem tet_max_dist_spec (hs : LawfulSqrt sq) (s : Tetrahedron K) (pt : V3 K) (solid : Bool) (m : K) (hm : 0 ≤ m)
    (r : Option (PP3 K))
    (h : letI := fieldNum K sq; s.maxDist? pt solid m = some r) :
    letI := fieldNum K sq
    s.panics pt solid = false ∧ (r = none ↔ m * m < dsq3 pt (s.projectT pt solid).pt) ∧
      (∀ pp, r = some pp → pp = s.projectT pt solid) := by
  letI := fieldNum K sq
  simp only [Tetrahedron.maxDist?] at h
  split_ifs at h with hp
  simp only [Option.some.injEq] at h
  obtain ⟨h1, h2⟩ := default_maxdist_spec3 sq hs s.projectT pt solid m hm
  rw [h] at h1 h2
  exact ⟨by simpa using hp, h1, h2⟩

theorem tet_posed_nearest (hs : LawfulSqrt sq) (s : Tetrahedron K) (m : Iso3 K) (hm : Iso3.Unit m) (pt : V3 K) (solid : Bool)
    (pp : PP3 K) (l : TetLoc K)
    (h : letI := fieldNum K sq; s.projectLoc (m.invAct pt) solid = TetRes.ok pp l) (hl : l ≠ TetLoc.solid) :
    letI := fieldNum K sq
    ∃ r, s.posedProject? m pt solid = some r ∧ r.inside = false ∧ TetBdry s (m.invAct r.pt) ∧
      ∀ y, TetMem s (m.invAct y) → dsq3 pt r.pt ≤ dsq3 pt y := by
  letI := fieldNum K sq
  obtain ⟨hp, hin, hb, hn⟩ := tet_projectT_nearest sq hs s (m.invAct pt) solid pp l h hl
  refine ⟨posedProject3 s.projectT m pt solid, by simp [Tetrahedron.posedProject?, hp], ?_, ?_⟩
  · simp only [posedProject3, PP3.transformBy]; exact hin
  · exact posed_project_optimal3 sq s.projectT (TetBdry s) (TetMem s) m pt solid hm hb hn

end C05
