import ParryModel.Field
import ParryModel.C05.Mesh
set_option linter.style.haveILetI false
set_option linter.unusedSimpArgs false
set_option linter.unusedVariables false
/-!
# C05 property theorems, part 4 (fu4): oriented `TriMesh` inside flag and `HeightField` enumeration

## Pseudo-normal sign test (`TriMesh::project_local_point_and_get_location_with_max_dist`, ORIENTED meshes)

The code sets `is_inside = (pt - proj) · pn <= 0` where `pn` is the face normal, the summed normal of the two faces of an
edge, or the *angle-weighted* sum of the incident face normals of a vertex (Baerentzen–Aanaes).  Proved here, in exact
arithmetic over every ordered field:

* `tm_inside_decision` — the decision function is exactly that sign test;
* `tm_face_sign` — on a face it is the side of the oriented face plane;
* `tm_edge_convex_outside / tm_edge_inside` — for an edge with unit face normals `n1, n2` (`n1 ≠ -n2`) every point of the normal
  cone `λ1 n1 + λ2 n2` (the whole Voronoi region of a convex edge) is reported outside, every point with `d·n1 ≤ 0`, `d·n2 ≤ 0` inside;
* `tm_vertex_inside_convex` — ANY non-negative weights report every point of a convex corner (`d·nᵢ ≤ 0` for all incident faces) inside;
* `tm_vertex_outside_blunt` — if the incident normals are pairwise non-obtuse (`nᵢ·nⱼ ≥ 0`: cube corners, blunt pyramids) ANY
  non-negative weights report the whole normal cone `Σ λᵢ nᵢ` outside;
* `tm_vertex_sharp_needs_angles` — for a sharp convex corner (some `nᵢ·nⱼ < 0`) positive weights are NOT enough: a worked
  counterexample where the wrong positive weights flip the sign for a point of the normal cone.  This is why the weights must be
  the incident angles.
* `tm_vertex_partial` packages the two proved halves; the GAP: for a sharp or non-convex vertex the sign of
  `d · Σ αᵢ nᵢ` with the true incident angles `αᵢ` (the Baerentzen–Aanaes theorem, whose proof integrates over the spherical
  polygon of the vertex) is not proved — it is covered by the exact winding-number oracle on generated sharp / saddle vertices and
  by the `tm_pn` oracle (each vertex normal is the angle-weighted sum, recomputed independently).

## Height field

* `hf_cell_no_hole` — the triangles emitted for a cell with no removed triangle tile its footprint, for both subdivisions:
  every `(x0 + u·dx, z0 + v·dz)`, `u, v ∈ [0,1]`, is a convex combination of the (x, z) of one emitted triangle;
* `hf_range_complete` — the index range `quantize_floor .. quantize_ceil` of `map_elements_in_local_aabb` contains every cell whose
  interval meets the query interval (for any `floor` / `ceil` with the defining inequalities);
* `hf_triangle_id_injective` — distinct (cell, side) pairs get distinct triangle ids (so "emitted once" can be read off the ids).
-/
namespace C05
open Model Model.PM

variable {K : Type} [Field K] [LinearOrder K] [IsStrictOrderedRing K] (sq : K → K)

/-- plain dot product over the field (no `Num` instance needed in statements) -/
def dotK (d n : V3 K) : K := d.x * n.x + d.y * n.y + d.z * n.z

/-- `Σ wᵢ nᵢ` — the shape of a vertex pseudo-normal (weights = incident angles) -/
def wsum : List (K × V3 K) → V3 K
  | [] => ⟨0, 0, 0⟩
  | (w, n) :: l => ⟨n.x * w + (wsum l).x, n.y * w + (wsum l).y, n.z * w + (wsum l).z⟩

theorem tm_inside_decision (pt proj n : V3 K) :
    letI := fieldNum K sq
    insideBy pt proj n = true ↔ dotK ⟨pt.x - proj.x, pt.y - proj.y, pt.z - proj.z⟩ n ≤ 0 := by
  letI := fieldNum K sq
  simp only [insideBy, V3.sub, V3.dot, dotK]
  exact decide_eq_true_iff

/-- on a face: the sign test with the scaled face normal is the side of the oriented plane through `a` (when `proj` is in the plane) -/
theorem tm_face_sign (t : Triangle3 K) (pt proj : V3 K)
    (hplane : letI := fieldNum K sq; dotK ⟨proj.x - t.a.x, proj.y - t.a.y, proj.z - t.a.z⟩ (triScaledNormal t) = 0) :
    letI := fieldNum K sq
    insideBy pt proj (triScaledNormal t) = true ↔
      dotK ⟨pt.x - t.a.x, pt.y - t.a.y, pt.z - t.a.z⟩ (triScaledNormal t) ≤ 0 := by
  letI := fieldNum K sq
  rw [tm_inside_decision]
  simp only [dotK] at hplane ⊢
  constructor <;> intro h <;> nlinarith [h, hplane]

private theorem wsum_dot_nonpos (d : V3 K) (l : List (K × V3 K))
    (h : ∀ p ∈ l, 0 ≤ p.1 ∧ dotK d p.2 ≤ 0) : dotK d (wsum l) ≤ 0 := by
  induction l with
  | nil => simp [wsum, dotK]
  | cons p l ih =>
    obtain ⟨w, n⟩ := p
    have hp := h (w, n) (by simp)
    have hl := ih (fun q hq => h q (by simp [hq]))
    simp only [wsum, dotK] at hl ⊢
    have := mul_nonpos_of_nonneg_of_nonpos hp.1 hp.2
    simp only [dotK] at this
    nlinarith [this, hl]

private theorem wsum_dot_nonneg (d : V3 K) (l : List (K × V3 K))
    (h : ∀ p ∈ l, 0 ≤ p.1 ∧ 0 ≤ dotK d p.2) : 0 ≤ dotK d (wsum l) := by
  induction l with
  | nil => simp [wsum, dotK]
  | cons p l ih =>
    obtain ⟨w, n⟩ := p
    have hp := h (w, n) (by simp)
    have hl := ih (fun q hq => h q (by simp [hq]))
    simp only [wsum, dotK] at hl ⊢
    have := mul_nonneg hp.1 hp.2
    simp only [dotK] at this
    nlinarith [this, hl]

private theorem wsum_dot_ge_term (d : V3 K) (l : List (K × V3 K))
    (h : ∀ p ∈ l, 0 ≤ p.1 ∧ 0 ≤ dotK d p.2) (p0 : K × V3 K) (hp0 : p0 ∈ l) :
    p0.1 * dotK d p0.2 ≤ dotK d (wsum l) := by
  induction l with
  | nil => simp at hp0
  | cons p l ih =>
    obtain ⟨w, n⟩ := p
    have hp := h (w, n) (by simp)
    have hrest : ∀ q ∈ l, 0 ≤ q.1 ∧ 0 ≤ dotK d q.2 := fun q hq => h q (by simp [hq])
    have hl := wsum_dot_nonneg d l hrest
    have hwn := mul_nonneg hp.1 hp.2
    rcases List.mem_cons.mp hp0 with heq | hin
    · subst heq
      simp only [wsum, dotK] at hl hwn ⊢
      nlinarith [hl, hwn]
    · have := ih hrest hin
      simp only [wsum, dotK] at this hl hwn ⊢
      nlinarith [this, hwn]

private theorem dotK_comm (a b : V3 K) : dotK a b = dotK b a := by simp only [dotK]; ring

/-- Convex corner, inside half: if the query direction `d = pt - v` is on the inner side of every incident face, the vertex
pseudo-normal `Σ wᵢ nᵢ` with ANY non-negative weights reports `is_inside = true`. -/
theorem tm_vertex_inside_convex (pt v : V3 K) (l : List (K × V3 K))
    (h : ∀ p ∈ l, 0 ≤ p.1 ∧ dotK ⟨pt.x - v.x, pt.y - v.y, pt.z - v.z⟩ p.2 ≤ 0) :
    letI := fieldNum K sq
    insideBy pt v (wsum l) = true := by
  letI := fieldNum K sq
  rw [tm_inside_decision]
  exact wsum_dot_nonpos _ l h

/-- Blunt convex corner, outside half: incident normals pairwise non-obtuse, `d = pt - v = Σ λᵢ nᵢ` in the normal cone
(`λᵢ ≥ 0`), weights `wᵢ ≥ 0`, and some face with `λ > 0`, `w > 0`, `n ≠ 0`: reported outside — for ANY such weights. -/
theorem tm_vertex_outside_blunt (pt v : V3 K) (l : List (K × K × V3 K))
    (hpos : ∀ p ∈ l, 0 ≤ p.1 ∧ 0 ≤ p.2.1)
    (hblunt : ∀ p ∈ l, ∀ q ∈ l, 0 ≤ dotK p.2.2 q.2.2)
    (hd : (⟨pt.x - v.x, pt.y - v.y, pt.z - v.z⟩ : V3 K) = wsum (l.map fun p => (p.1, p.2.2)))
    (p0 : K × K × V3 K) (hp0 : p0 ∈ l) (hl0 : 0 < p0.1) (hw0 : 0 < p0.2.1) (hn0 : 0 < dotK p0.2.2 p0.2.2) :
    letI := fieldNum K sq
    insideBy pt v (wsum (l.map fun p => (p.2.1, p.2.2))) = false := by
  letI := fieldNum K sq
  have hdec := tm_inside_decision sq pt v (wsum (l.map fun p => (p.2.1, p.2.2)))
  rw [Bool.eq_false_iff]
  intro hins
  have hle := hdec.mp hins
  rw [hd] at hle
  set D := wsum (l.map fun p => (p.1, p.2.2)) with hD
  -- D · nⱼ ≥ 0 for every incident normal, and D · n₀ ≥ λ₀ |n₀|² > 0
  have hDn : ∀ q ∈ l, 0 ≤ dotK D q.2.2 := by
    intro q hq
    rw [dotK_comm]
    apply wsum_dot_nonneg
    intro r hr
    obtain ⟨p, hp, rfl⟩ := List.mem_map.mp hr
    exact ⟨(hpos p hp).1, by rw [dotK_comm]; exact hblunt p hp q hq⟩
  have hDn0 : p0.1 * dotK p0.2.2 p0.2.2 ≤ dotK D p0.2.2 := by
    rw [dotK_comm D]
    have := wsum_dot_ge_term p0.2.2 (l.map fun p => (p.1, p.2.2))
      (by intro r hr
          obtain ⟨p, hp, rfl⟩ := List.mem_map.mp hr
          exact ⟨(hpos p hp).1, by rw [dotK_comm]; exact hblunt p hp p0 hp0⟩)
      (p0.1, p0.2.2) (List.mem_map.mpr ⟨p0, hp0, rfl⟩)
    simpa using this
  have hall : ∀ r ∈ (l.map fun p => (p.2.1, p.2.2)), 0 ≤ r.1 ∧ 0 ≤ dotK D r.2 := by
    intro r hr
    obtain ⟨p, hp, rfl⟩ := List.mem_map.mp hr
    exact ⟨(hpos p hp).2, hDn p hp⟩
  have hterm := wsum_dot_ge_term D _ hall (p0.2.1, p0.2.2) (List.mem_map.mpr ⟨p0, hp0, rfl⟩)
  have h1 : 0 < p0.1 * dotK p0.2.2 p0.2.2 := mul_pos hl0 hn0
  have h2 : 0 < p0.2.1 * dotK D p0.2.2 := mul_pos hw0 (lt_of_lt_of_le h1 hDn0)
  simp only at hterm
  linarith

/-- non-vacuity: the cube corner at the origin with normals `-e1, -e2, -e3`… here the outward corner `e1, e2, e3`, weights π/2 ≈ 3/2 -/
example : ∃ (pt v : V3 ℚ) (l : List (ℚ × ℚ × V3 ℚ)),
    (∀ p ∈ l, 0 ≤ p.1 ∧ 0 ≤ p.2.1) ∧ (∀ p ∈ l, ∀ q ∈ l, 0 ≤ dotK p.2.2 q.2.2) ∧
    (⟨pt.x - v.x, pt.y - v.y, pt.z - v.z⟩ : V3 ℚ) = wsum (l.map fun p => (p.1, p.2.2)) ∧ l ≠ [] :=
  ⟨⟨1, 2, 0⟩, ⟨0, 0, 0⟩, [(1, 3/2, ⟨1, 0, 0⟩), (2, 3/2, ⟨0, 1, 0⟩), (0, 3/2, ⟨0, 0, 1⟩)],
    by simp; norm_num, by simp [dotK], by simp [wsum], by simp⟩

/-- Sharp convex corner: positive weights alone do NOT give the right sign.  Unit normals `n1 = (1,0,0)`, `n2 = (-4/5,3/5,0)`
(`n1·n2 < 0`), query direction `d = n1` (in the normal cone: the point is outside and nearest to the vertex), weights `1, 10`:
`d · (1·n1 + 10·n2) = -7 < 0` → reported inside.  With the true incident angles the sign is right (Baerentzen–Aanaes). -/
theorem tm_vertex_sharp_needs_angles :
    ∃ (d : V3 ℚ) (l : List (ℚ × V3 ℚ)), (∀ p ∈ l, 0 < p.1 ∧ dotK p.2 p.2 = 1) ∧
      (∃ lam : List (ℚ × V3 ℚ), (∀ p ∈ lam, 0 ≤ p.1) ∧ lam.map (·.2) = l.map (·.2) ∧ d = wsum lam) ∧
      dotK d (wsum l) < 0 :=
  ⟨⟨1, 0, 0⟩, [(1, ⟨1, 0, 0⟩), (10, ⟨-4/5, 3/5, 0⟩)],
    by simp [dotK]; norm_num,
    ⟨[(1, ⟨1, 0, 0⟩), (0, ⟨-4/5, 3/5, 0⟩)], by simp, by simp, by simp [wsum]⟩,
    by simp [dotK, wsum]; norm_num⟩

/-- What is proved of the vertex case: both halves for convex corners (`inside` for every convex corner and any non-negative
weights; `outside` over the whole normal cone for blunt corners and any non-negative weights).  Gap: sharp convex corners and
non-convex (saddle) vertices need the angle weights — `tm_vertex_sharp_needs_angles` shows the weights matter there. -/
theorem tm_vertex_partial (pt v : V3 K) :
    (∀ l : List (K × V3 K), (∀ p ∈ l, 0 ≤ p.1 ∧ dotK ⟨pt.x - v.x, pt.y - v.y, pt.z - v.z⟩ p.2 ≤ 0) →
      (letI := fieldNum K sq; insideBy pt v (wsum l) = true)) ∧
    (∀ l : List (K × V3 K), (∀ p ∈ l, 0 ≤ p.1 ∧ 0 ≤ dotK ⟨pt.x - v.x, pt.y - v.y, pt.z - v.z⟩ p.2) →
      (∃ p ∈ l, 0 < p.1 ∧ 0 < dotK ⟨pt.x - v.x, pt.y - v.y, pt.z - v.z⟩ p.2) →
      (letI := fieldNum K sq; insideBy pt v (wsum l) = false)) := by
  letI := fieldNum K sq
  refine ⟨fun l h => tm_vertex_inside_convex sq pt v l h, fun l h ⟨p, hp, hw, hd⟩ => ?_⟩
  rw [Bool.eq_false_iff]
  intro hins
  have hle := (tm_inside_decision sq pt v (wsum l)).mp hins
  have := wsum_dot_ge_term _ l h p hp
  have hpos := mul_pos hw hd
  linarith

/-- Edge, outside half: unit face normals, not opposite; every point of the normal cone of the edge is reported outside by `n1 + n2`. -/
theorem tm_edge_convex_outside (pt proj n1 n2 : V3 K) (l1 l2 : K)
    (hu1 : dotK n1 n1 = 1) (hu2 : dotK n2 n2 = 1) (hc : -1 < dotK n1 n2)
    (hl1 : 0 ≤ l1) (hl2 : 0 ≤ l2) (hl : 0 < l1 + l2)
    (hx : pt.x - proj.x = n1.x * l1 + n2.x * l2) (hy : pt.y - proj.y = n1.y * l1 + n2.y * l2)
    (hz : pt.z - proj.z = n1.z * l1 + n2.z * l2) :
    letI := fieldNum K sq
    insideBy pt proj ⟨n1.x + n2.x, n1.y + n2.y, n1.z + n2.z⟩ = false := by
  letI := fieldNum K sq
  rw [Bool.eq_false_iff]
  intro hins
  have hle := (tm_inside_decision sq pt proj _).mp hins
  simp only [dotK] at hle hu1 hu2 hc
  rw [hx, hy, hz] at hle
  have key : (n1.x * l1 + n2.x * l2) * (n1.x + n2.x) + (n1.y * l1 + n2.y * l2) * (n1.y + n2.y) + (n1.z * l1 + n2.z * l2) * (n1.z + n2.z)
      = (l1 + l2) * (1 + (n1.x * n2.x + n1.y * n2.y + n1.z * n2.z)) := by
    linear_combination l1 * hu1 + l2 * hu2
  rw [key] at hle
  have : 0 < (l1 + l2) * (1 + (n1.x * n2.x + n1.y * n2.y + n1.z * n2.z)) := mul_pos hl (by linarith)
  linarith

/-- Edge, inside half: on the inner side of both incident faces ⇒ reported inside. -/
theorem tm_edge_inside (pt proj n1 n2 : V3 K)
    (h1 : dotK ⟨pt.x - proj.x, pt.y - proj.y, pt.z - proj.z⟩ n1 ≤ 0)
    (h2 : dotK ⟨pt.x - proj.x, pt.y - proj.y, pt.z - proj.z⟩ n2 ≤ 0) :
    letI := fieldNum K sq
    insideBy pt proj ⟨n1.x + n2.x, n1.y + n2.y, n1.z + n2.z⟩ = true := by
  letI := fieldNum K sq
  rw [tm_inside_decision]
  simp only [dotK] at h1 h2 ⊢
  nlinarith [h1, h2]

example : ∃ (n1 n2 : V3 ℚ), dotK n1 n1 = 1 ∧ dotK n2 n2 = 1 ∧ -1 < dotK n1 n2 ∧ dotK n1 n2 < 0 :=
  ⟨⟨1, 0, 0⟩, ⟨-4/5, 3/5, 0⟩, by norm_num [dotK], by norm_num [dotK], by norm_num [dotK], by norm_num [dotK]⟩

/-! ## Height field -/

/-- the triangles emitted for a cell without removed triangles tile the footprint of the cell (both subdivisions) -/
theorem hf_cell_no_hole (s : Nat) (x0 x1 z0 z1 y00 y10 y01 y11 u v : K)
    (hl : leftRemoved s = false) (hr : rightRemoved s = false)
    (hu : 0 ≤ u ∧ u ≤ 1) (hv : 0 ≤ v ∧ v ≤ 1) :
    ∃ t ∈ optList (cellTriangles s (⟨x0, y00, z0⟩ : V3 K) ⟨x0, y10, z1⟩ ⟨x1, y01, z0⟩ ⟨x1, y11, z1⟩),
      ∃ b0 b1 b2 : K, 0 ≤ b0 ∧ 0 ≤ b1 ∧ 0 ≤ b2 ∧ b0 + b1 + b2 = 1 ∧
        b0 * t.a.x + b1 * t.b.x + b2 * t.c.x = x0 + u * (x1 - x0) ∧
        b0 * t.a.z + b1 * t.b.z + b2 * t.c.z = z0 + v * (z1 - z0) := by
  cases hz : zigzag s
  · -- diagonal p10–p01
    rcases le_total (u + v) 1 with h | h
    · refine ⟨⟨⟨x0, y00, z0⟩, ⟨x0, y10, z1⟩, ⟨x1, y01, z0⟩⟩, by simp [cellTriangles, optList, hl, hr, hz], 1 - u - v, v, u,
        by linarith, hv.1, hu.1, by ring, by ring, by ring⟩
    · refine ⟨⟨⟨x0, y10, z1⟩, ⟨x1, y11, z1⟩, ⟨x1, y01, z0⟩⟩, by simp [cellTriangles, optList, hl, hr, hz], 1 - u, u + v - 1, 1 - v,
        by linarith [hu.2], by linarith, by linarith [hv.2], by ring, by ring, by ring⟩
  · -- diagonal p00–p11
    rcases le_total u v with h | h
    · refine ⟨⟨⟨x0, y00, z0⟩, ⟨x0, y10, z1⟩, ⟨x1, y11, z1⟩⟩, by simp [cellTriangles, optList, hl, hr, hz], 1 - v, v - u, u,
        by linarith [hv.2], by linarith, hu.1, by ring, by ring, by ring⟩
    · refine ⟨⟨⟨x0, y00, z0⟩, ⟨x1, y11, z1⟩, ⟨x1, y01, z0⟩⟩, by simp [cellTriangles, optList, hl, hr, hz], 1 - u, v, u - v,
        by linarith [hu.2], hv.1, by linarith, by ring, by ring, by ring⟩

/-- completeness of the cell range: every cell `j < n` whose interval `[-1/2 + cw·j, -1/2 + cw·(j+1)]` meets the open query
interval `(m, M)` lies in `quantize_floor(m) .. quantize_ceil(M)` (`fl`, `ce` any functions with the inequalities of floor / ceil). -/
theorem hf_range_complete (fl ce : K → Int)
    (hfl : ∀ x : K, ((fl x : Int) : K) ≤ x) (hce : ∀ x : K, x ≤ ((ce x : Int) : K))
    (m M cw : K) (n j : Nat) (hcw : 0 < cw) (hj : j < n)
    (hlo : m < -1/2 + cw * ((j : K) + 1)) (hhi : -1/2 + cw * (j : K) < M) :
    letI := fieldNum K sq
    quantFloor fl m cw n ≤ j ∧ j < quantCeil ce M cw n := by
  letI := fieldNum K sq
  have hlit : (lit 1 2 : K) = 1 / 2 := by rw [fieldNum_lit]; norm_num
  have h1 : (m + 1 / 2) / cw < (j : K) + 1 := by rw [div_lt_iff₀ hcw]; linarith
  have h2 : (j : K) < (M + 1 / 2) / cw := by rw [lt_div_iff₀ hcw]; linarith
  have hf : fl ((m + 1 / 2) / cw) ≤ (j : Int) := by
    have : ((fl ((m + 1 / 2) / cw) : Int) : K) < ((j + 1 : Int) : K) := by
      push_cast; exact lt_of_le_of_lt (hfl _) h1
    have := Int.cast_lt.mp this
    omega
  have hc : (j : Int) < ce ((M + 1 / 2) / cw) := by
    have : ((j : Int) : K) < ((ce ((M + 1 / 2) / cw) : Int) : K) := by
      push_cast; exact lt_of_lt_of_le h2 (hce _)
    exact Int.cast_lt.mp this
  simp only [quantFloor, quantCeil, hlit]
  constructor
  · split_ifs <;> omega
  · split_ifs <;> omega

example : ∃ (m M cw : ℚ) (n j : Nat), 0 < cw ∧ j < n ∧ m < -1/2 + cw * ((j : ℚ) + 1) ∧ -1/2 + cw * (j : ℚ) < M :=
  ⟨-1/4, 1/4, 1/4, 4, 1, by norm_num, by norm_num, by norm_num, by norm_num⟩

/-- distinct (cell, side) ⇒ distinct triangle id -/
theorem hf_triangle_id_injective (f : HField K) (i j i' j' : Nat) (left left' : Bool)
    (hi : i < f.nr - 1) (hj : j < f.nc - 1) (hi' : i' < f.nr - 1) (hj' : j' < f.nc - 1)
    (h : f.triangleId i j left = f.triangleId i' j' left') : i = i' ∧ j = j' ∧ left = left' := by
  simp only [HField.triangleId, HField.numTriangles] at h
  set r := f.nr - 1 with hr
  set c := f.nc - 1 with hc
  have hhalf : r * c * 2 / 2 = r * c := by omega
  rw [hhalf] at h
  have hb : j * r + i < r * c := by
    calc j * r + i < j * r + r := by omega
      _ = (j + 1) * r := by ring
      _ ≤ c * r := Nat.mul_le_mul_right r (by omega)
      _ = r * c := by ring
  have hb' : j' * r + i' < r * c := by
    calc j' * r + i' < j' * r + r := by omega
      _ = (j' + 1) * r := by ring
      _ ≤ c * r := Nat.mul_le_mul_right r (by omega)
      _ = r * c := by ring
  have hrpos : 0 < r := by omega
  have key : ∀ a b a' b' : Nat, a < r → a' < r → b * r + a = b' * r + a' → a = a' ∧ b = b' := by
    intro a b a' b' ha ha' e
    have e1 : (b * r + a) % r = (b' * r + a') % r := by rw [e]
    have e2 : (b * r + a) / r = (b' * r + a') / r := by rw [e]
    rw [Nat.mul_comm b r, Nat.mul_comm b' r, Nat.mul_add_mod, Nat.mul_add_mod, Nat.mod_eq_of_lt ha, Nat.mod_eq_of_lt ha'] at e1
    rw [Nat.mul_comm b r, Nat.mul_comm b' r, Nat.mul_add_div hrpos, Nat.mul_add_div hrpos, Nat.div_eq_of_lt ha, Nat.div_eq_of_lt ha'] at e2
    exact ⟨e1, by omega⟩
  cases left <;> cases left' <;> simp only [Bool.false_eq_true, if_false, if_true] at h
  · obtain ⟨a, b⟩ := key i j i' j' hi hi' (by omega); exact ⟨a, b, rfl⟩
  · omega
  · omega
  · obtain ⟨a, b⟩ := key i j i' j' hi hi' h; exact ⟨a, b, rfl⟩

end C05
