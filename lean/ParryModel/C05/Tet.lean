import ParryModel.C05.Model
/-!
# C05 model, tetrahedron glue (fu5): the `PointQuery` methods of `Tetrahedron` other than the location form

`Tetrahedron` overrides only `project_local_point` (= `.0` of `project_local_point_and_get_location`) and
`project_local_point_and_get_feature`; everything else is the trait's default method, i.e. `defaultDistance3`, `defaultContains3`,
`defaultMaxDist3`, `posedProject3`, `posedDistance3`, `posedContains3` of `Model.lean` applied to the total function `projectT`.
The code's panics (`unimplemented!()` for `solid = false` on interior / boundary points) are tracked by `panics`; a panic of the
local projection is a panic of every method that calls it.
-/
namespace Model
variable {K : Type} [Num K]

/-- does `project_local_point(pt, solid)` panic? -/
def Tetrahedron.panics (s : Tetrahedron K) (pt : V3 K) (solid : Bool) : Bool :=
  match s.projectLoc pt solid with
  | .panic => true
  | .ok _ _ => false

/-- `Tetrahedron::project_local_point` where it does not panic (the value at a panic is never observed) -/
def Tetrahedron.projectT (s : Tetrahedron K) (pt : V3 K) (solid : Bool) : PP3 K :=
  match s.projectLoc pt solid with
  | .ok pp _ => pp
  | .panic => ⟨false, pt⟩

/-- `distance_to_local_point`; `none` = panic -/
def Tetrahedron.distance? (s : Tetrahedron K) (pt : V3 K) (solid : Bool) : Option K :=
  if s.panics pt solid then none else some (defaultDistance3 s.projectT pt solid)
/-- `contains_local_point` -/
def Tetrahedron.contains? (s : Tetrahedron K) (pt : V3 K) : Option Bool :=
  if s.panics pt true then none else some (defaultContains3 s.projectT pt)
/-- `project_local_point_with_max_dist` -/
def Tetrahedron.maxDist? (s : Tetrahedron K) (pt : V3 K) (solid : Bool) (maxDist : K) : Option (Option (PP3 K)) :=
  if s.panics pt solid then none else some (defaultMaxDist3 s.projectT pt solid maxDist)
/-- `project_point` -/
def Tetrahedron.posedProject? (s : Tetrahedron K) (m : Iso3 K) (pt : V3 K) (solid : Bool) : Option (PP3 K) :=
  if s.panics (m.invAct pt) solid then none else some (posedProject3 s.projectT m pt solid)
/-- `distance_to_point` -/
def Tetrahedron.posedDistance? (s : Tetrahedron K) (m : Iso3 K) (pt : V3 K) (solid : Bool) : Option K :=
  if s.panics (m.invAct pt) solid then none else some (posedDistance3 (defaultDistance3 s.projectT) m pt solid)
/-- `contains_point` -/
def Tetrahedron.posedContains? (s : Tetrahedron K) (m : Iso3 K) (pt : V3 K) : Option Bool :=
  if s.panics (m.invAct pt) true then none else some (posedContains3 (defaultContains3 s.projectT) m pt)

end Model
