import ParryModel.Field
import ParryModel.C05.Model
import ParryModel.C05.Theorems5
import ParryModel.C05.Theorems12
set_option linter.style.haveILetI false
set_option linter.unusedSimpArgs false
set_option linter.unusedVariables false
set_option linter.unusedSectionVars false
/-!
# C05 property theorems, part 13 (fu5): tetrahedron — the whole cascade of `project_local_point_and_get_location`

* `tet_project_nearest` — for EVERY tetrahedron (degenerate or not), query point and flag: whenever the model of
  `Tetrahedron::project_local_point_and_get_location` returns a vertex / edge / face location, the flag is `false`, the returned
  point is a boundary point of the tetrahedron (`TetBdry`: a convex combination of the four vertices with a zero weight; `tetBdry_mem`: a member) and no member is closer to the query
  point.  This goes through all 4 vertex tests, 6 `check_edge` calls and 4 `check_face` calls with the arguments the code passes
  (normals reused with flipped signs, determinants reused in permuted order).
* `tet_project_location` — the location tag reproduces the returned point: `OnVertex(i)` is vertex `i`, `OnEdge(i, [b0,b1])`
  is `b0·A + b1·B` on the code's edge `i` (`0:ab 1:ac 2:ad 3:bc 4:bd 5:cd`), `OnFace(i, [b0,b1,b2])` is `b0·A + b1·B + b2·C` on
  the code's face `i` (`0:abc 1:abd 2:acd 3:bcd`), all weights non-negative with sum 1 (`TetLocOk`).
* `tet_project_solid` — the only other non-panicking answer is `(true, pt)` tagged `OnSolid`, and only for `solid = true`.
* `tet_project_no_assert` — the `assert!(denom != 0.0)` of `check_face` never fires; the only panic of the function is the
  documented `unimplemented!()` of the final `solid = false` branch.
Not proved: exhaustiveness (that the final branch is reached only for members of a non-degenerate tetrahedron).
-/
namespace C05
open Model

variable {K : Type} [Field K] [LinearOrder K] [IsStrictOrderedRing K] (sq : K → K)

/-- boundary of the tetrahedron by definition: a convex combination of the four vertices with (at least) one zero weight,
i.e. a point of one of the four face triangles -/
def TetBdry (s : Tetrahedron K) (q : V3 K) : Prop :=
  ∃ t0 t1 t2 t3 : K, 0 ≤ t0 ∧ 0 ≤ t1 ∧ 0 ≤ t2 ∧ 0 ≤ t3 ∧ t0 + t1 + t2 + t3 = 1 ∧ (t0 = 0 ∨ t1 = 0 ∨ t2 = 0 ∨ t3 = 0) ∧
    q.x = t0 * s.a.x + t1 * s.b.x + t2 * s.c.x + t3 * s.d.x ∧
    q.y = t0 * s.a.y + t1 * s.b.y + t2 * s.c.y + t3 * s.d.y ∧
    q.z = t0 * s.a.z + t1 * s.b.z + t2 * s.c.z + t3 * s.d.z

/-- boundary points are members -/
theorem tetBdry_mem (s : Tetrahedron K) (q : V3 K) (h : TetBdry s q) : TetMem s q := by
  obtain ⟨t0, t1, t2, t3, h0, h1, h2, h3, hsum, _, hx, hy, hz⟩ := h
  have e : t0 = 1 - t1 - t2 - t3 := by linarith
  subst e
  exact ⟨t1, t2, t3, h1, h2, h3, by linarith, by rw [hx]; ring, by rw [hy]; ring, by rw [hz]; ring⟩

/-- the code's edge numbering `0:ab 1:ac 2:ad 3:bc 4:bd 5:cd` -/
def tetEdgeOf (s : Tetrahedron K) (i : Nat) : Option (V3 K × V3 K) :=
  match i with
  | 0 => some (s.a, s.b) | 1 => some (s.a, s.c) | 2 => some (s.a, s.d)
  | 3 => some (s.b, s.c) | 4 => some (s.b, s.d) | 5 => some (s.c, s.d) | _ => none
/-- the code's face numbering `0:abc 1:abd 2:acd 3:bcd` -/
def tetFaceOf (s : Tetrahedron K) (i : Nat) : Option (V3 K × V3 K × V3 K) :=
  match i with
  | 0 => some (s.a, s.b, s.c) | 1 => some (s.a, s.b, s.d) | 2 => some (s.a, s.c, s.d) | 3 => some (s.b, s.c, s.d) | _ => none
def tetVertexOf (s : Tetrahedron K) (i : Nat) : Option (V3 K) :=
  match i with | 0 => some s.a | 1 => some s.b | 2 => some s.c | 3 => some s.d | _ => none

/-- the location tag describes the point: `OnVertex(i)` = vertex `i`; `OnEdge(i, [b0, b1])` = `b0·A + b1·B` on edge `i = (A, B)`
with `b0, b1 ≥ 0`, `b0 + b1 = 1`; `OnFace(i, [b0, b1, b2])` = `b0·A + b1·B + b2·C` on face `i = (A, B, C)` with non-negative
weights of sum 1 -/
def TetLocOk (s : Tetrahedron K) (l : TetLoc K) (q : V3 K) : Prop :=
  letI := fieldNum K (fun x => x)
  match l with
  | .vertex i => tetVertexOf s i = some q
  | .edge i b0 b1 => 0 ≤ b0 ∧ 0 ≤ b1 ∧ b0 + b1 = 1 ∧
      ∃ A B, tetEdgeOf s i = some (A, B) ∧ q = (A.smul b0).add (B.smul b1)
  | .face i b0 b1 b2 => 0 ≤ b0 ∧ 0 ≤ b1 ∧ 0 ≤ b2 ∧ b0 + b1 + b2 = 1 ∧
      ∃ A B C, tetFaceOf s i = some (A, B, C) ∧ q = ((A.smul b0).add (B.smul b1)).add (C.smul b2)
  | .solid => True

private theorem nearest_mono (p v q q' : V3 K) (h : dist2K p v ≤ dist2K p q') (e : q = q') : dist2K p v ≤ dist2K p q := by
  rw [e]; exact h

/-- generic finisher for an edge branch -/
private theorem edge_finish (s : Tetrahedron K) (pt : V3 K) (i : Nat) (A AP AB w1 w2 n1 n2 : V3 K) (y : K)
    (r : PP3 K × TetLoc K)
    (hn1 : letI := fieldNum K sq; n1 = AB.cross w1) (hn2 : letI := fieldNum K sq; n2 = AB.cross w2)
    (hy : letI := fieldNum K sq; y = AP.dot AB - AB.dot AB)
    (hpt : letI := fieldNum K sq; pt = A.add AP)
    (h : letI := fieldNum K sq; (tetCheckEdge i A n1 n2 AP AB (AP.dot AB) y).2.2 = some r)
    (hrep : letI := fieldNum K sq; ∀ q, TetMem s q → ∃ β γ δ : K, 0 ≤ γ ∧ 0 ≤ δ ∧
      q = ((A.add (AB.smul β)).add (w1.smul γ)).add (w2.smul δ))
    (hseg : letI := fieldNum K sq; ∀ u : K, 0 ≤ u → u ≤ 1 → TetBdry s (A.add (AB.smul u)))
    (hloc : letI := fieldNum K sq; ∀ u : K, 0 ≤ u → u ≤ 1 → TetLocOk s (TetLoc.edge i (1 - u) u) (A.add (AB.smul u))) :
    r.1.inside = false ∧ TetBdry s r.1.pt ∧ (∀ q, TetMem s q → dist2K pt r.1.pt ≤ dist2K pt q) ∧ TetLocOk s r.2 r.1.pt := by
  letI := fieldNum K sq
  subst hn1 hn2 hy hpt
  obtain ⟨u, hu0, hu1, hp, htag, hins, _, _, _⟩ := tet_edge_sound sq i A AP AB w1 w2 r h
  refine ⟨hins, ?_, ?_, by rw [hp, htag]; exact hloc u hu0 hu1⟩
  · rw [hp]; exact hseg u hu0 hu1
  · intro q hq
    obtain ⟨β, γ, δ, hγ, hδ, e⟩ := hrep q hq
    exact nearest_mono _ _ _ _ (tet_edge_optimal sq i A AP AB w1 w2 r h β γ δ hγ hδ) e

/-- generic finisher for a face branch -/
private theorem face_finish (hs : LawfulSqrt sq) (s : Tetrahedron K) (pt : V3 K) (i : Nat)
    (A B C AP BP CP AB AC AD : V3 K) (d1 d2 d3 : K) (pp : PP3 K) (l : TetLoc K)
    (hB : letI := fieldNum K sq; B = A.add AB) (hC : letI := fieldNum K sq; C = A.add AC)
    (hBP : letI := fieldNum K sq; BP = AP.sub AB) (hCP : letI := fieldNum K sq; CP = AP.sub AC)
    (hd1 : letI := fieldNum K sq; d1 = (AP.cross AB).dot (AB.cross AC))
    (hd2 : letI := fieldNum K sq; d2 = ((AP.sub AB).cross (AC.sub AB)).dot (AB.cross AC))
    (hd3 : letI := fieldNum K sq; d3 = (AP.cross AC).dot (AB.cross AC).neg)
    (hpt : letI := fieldNum K sq; pt = A.add AP)
    (h : letI := fieldNum K sq; tetCheckFace i A B C AP BP CP AB AC AD d1 d2 d3 = some (TetRes.ok pp l))
    (hrep : letI := fieldNum K sq; ∀ q, TetMem s q → ∃ β γ δ : K, 0 ≤ δ ∧
      q = ((A.add (AB.smul β)).add (AC.smul γ)).add (AD.smul δ))
    (htri : letI := fieldNum K sq; ∀ b0 b1 b2 : K, 0 ≤ b0 → 0 ≤ b1 → 0 ≤ b2 → b0 + b1 + b2 = 1 →
      TetBdry s (((A.smul b0).add ((A.add AB).smul b1)).add ((A.add AC).smul b2)))
    (hloc : letI := fieldNum K sq; ∀ b0 b1 b2 : K, 0 ≤ b0 → 0 ≤ b1 → 0 ≤ b2 → b0 + b1 + b2 = 1 →
      TetLocOk s (TetLoc.face i b0 b1 b2) (((A.smul b0).add ((A.add AB).smul b1)).add ((A.add AC).smul b2))) :
    pp.inside = false ∧ TetBdry s pp.pt ∧ (∀ q, TetMem s q → dist2K pt pp.pt ≤ dist2K pt q) ∧ TetLocOk s l pp.pt := by
  letI := fieldNum K sq
  subst hB hC hBP hCP hd1 hd2 hd3 hpt
  obtain ⟨b0, b1, b2, h0, h1, h2, hsum, hres, _, _, _⟩ := tet_face_sound sq hs i A AP AB AC AD _ h
  simp only [TetRes.ok.injEq] at hres
  obtain ⟨hpp, hl⟩ := hres
  refine ⟨by rw [hpp], ?_, ?_, by rw [hpp, hl]; exact hloc b0 b1 b2 h0.le h1.le h2.le hsum⟩
  · rw [hpp]; exact htri b0 b1 b2 h0.le h1.le h2.le hsum
  · intro q hq
    obtain ⟨β, γ, δ, hδ, e⟩ := hrep q hq
    exact nearest_mono _ _ _ _ (tet_face_optimal sq hs i A AP AB AC AD pp l h β γ δ hδ) e

private theorem edge_fst (i : Nat) (a n1 n2 ap ab : V3 K) (x y : K) :
    letI := fieldNum K sq
    (tetCheckEdge i a n1 n2 ap ab x y).1 = (ap.cross ab).dot n1 := by
  letI := fieldNum K sq
  simp only [tetCheckEdge]; split_ifs <;> rfl

private theorem edge_snd (i : Nat) (a n1 n2 ap ab : V3 K) (x y : K) :
    letI := fieldNum K sq
    (tetCheckEdge i a n1 n2 ap ab x y).2.1 = (ap.cross ab).dot n2 := by
  letI := fieldNum K sq
  simp only [tetCheckEdge]; split_ifs <;> rfl

private theorem v3_eq (p q : V3 K) (hx : p.x = q.x) (hy : p.y = q.y) (hz : p.z = q.z) : p = q := by
  cases p; cases q; simp only [V3.mk.injEq]; exact ⟨hx, hy, hz⟩

macro "v3ring" : tactic =>
  `(tactic| first | rfl | (apply v3_eq <;> simp only [V3.cross, V3.neg, V3.sub, V3.add, V3.smul] <;> ring))

/-- boundary membership from barycentric weights -/
private theorem tetBdry_bary (s : Tetrahedron K) (t0 t1 t2 t3 : K) (q : V3 K)
    (h0 : 0 ≤ t0) (h1 : 0 ≤ t1) (h2 : 0 ≤ t2) (h3 : 0 ≤ t3) (hsum : t0 + t1 + t2 + t3 = 1)
    (hzero : t0 = 0 ∨ t1 = 0 ∨ t2 = 0 ∨ t3 = 0)
    (hx : q.x = t0 * s.a.x + t1 * s.b.x + t2 * s.c.x + t3 * s.d.x)
    (hy : q.y = t0 * s.a.y + t1 * s.b.y + t2 * s.c.y + t3 * s.d.y)
    (hz : q.z = t0 * s.a.z + t1 * s.b.z + t2 * s.c.z + t3 * s.d.z) : TetBdry s q :=
  ⟨t0, t1, t2, t3, h0, h1, h2, h3, hsum, hzero, hx, hy, hz⟩

private theorem tetMem_a (s : Tetrahedron K) : TetBdry s s.a :=
  tetBdry_bary s 1 0 0 0 _ (by norm_num) le_rfl le_rfl le_rfl (by ring) (by simp) (by ring) (by ring) (by ring)
private theorem tetMem_b (s : Tetrahedron K) : TetBdry s s.b :=
  tetBdry_bary s 0 1 0 0 _ le_rfl (by norm_num) le_rfl le_rfl (by ring) (by simp) (by ring) (by ring) (by ring)
private theorem tetMem_c (s : Tetrahedron K) : TetBdry s s.c :=
  tetBdry_bary s 0 0 1 0 _ le_rfl le_rfl (by norm_num) le_rfl (by ring) (by simp) (by ring) (by ring) (by ring)
private theorem tetMem_d (s : Tetrahedron K) : TetBdry s s.d :=
  tetBdry_bary s 0 0 0 1 _ le_rfl le_rfl le_rfl (by norm_num) (by ring) (by simp) (by ring) (by ring) (by ring)

set_option maxHeartbeats 1600000 in
/-- every vertex / edge / face answer of the tetrahedron projection is a point of the boundary of the tetrahedron, flagged
`false`, and no member is closer to the query point -/
private theorem tet_cascade (hs : LawfulSqrt sq) (s : Tetrahedron K) (pt : V3 K) (solid : Bool) (pp : PP3 K) (l : TetLoc K)
    (h : letI := fieldNum K sq; s.projectLoc pt solid = TetRes.ok pp l) (hl : l ≠ TetLoc.solid) :
    pp.inside = false ∧ TetBdry s pp.pt ∧ (∀ q, TetMem s q → dist2K pt pp.pt ≤ dist2K pt q) ∧ TetLocOk s l pp.pt := by
  letI := fieldNum K sq
  simp only [Tetrahedron.projectLoc, edge_fst sq, edge_snd sq] at h
  split at h
  rename_i hv
  · simp only [TetRes.ok.injEq] at h
    obtain ⟨h1, h2⟩ := h
    subst h1 h2
    simp only [Bool.and_eq_true, decide_eq_true_eq] at hv
    refine ⟨rfl, tetMem_a s, fun q hq => tet_vertex_a_optimal sq s pt q hq ⟨hv.1.1, hv.1.2, hv.2⟩, by simp [TetLocOk, tetVertexOf]⟩
  split at h
  rename_i hv0 hv
  · simp only [TetRes.ok.injEq] at h
    obtain ⟨h1, h2⟩ := h
    subst h1 h2
    simp only [Bool.and_eq_true, decide_eq_true_eq] at hv
    refine ⟨rfl, tetMem_b s, fun q hq => tet_vertex_b_optimal sq s pt q hq ⟨hv.1.1, hv.1.2, hv.2⟩, by simp [TetLocOk, tetVertexOf]⟩
  split at h
  rename_i hv1 hv
  · simp only [TetRes.ok.injEq] at h
    obtain ⟨h1, h2⟩ := h
    subst h1 h2
    simp only [Bool.and_eq_true, decide_eq_true_eq] at hv
    refine ⟨rfl, tetMem_c s, fun q hq => tet_vertex_c_optimal sq s pt q hq ⟨hv.1.1, hv.1.2, hv.2⟩, by simp [TetLocOk, tetVertexOf]⟩
  split at h
  rename_i hv2 hv
  · simp only [TetRes.ok.injEq] at h
    obtain ⟨h1, h2⟩ := h
    subst h1 h2
    simp only [Bool.and_eq_true, decide_eq_true_eq] at hv
    refine ⟨rfl, tetMem_d s, fun q hq => tet_vertex_d_optimal sq s pt q hq ⟨hv.1.1, hv.1.2, hv.2⟩, by simp [TetLocOk, tetVertexOf]⟩
  split at h
  · rename_i r he
    simp only [TetRes.ok.injEq] at h
    obtain ⟨h1, h2⟩ := h
    subst h1 h2
    refine edge_finish sq s pt 0 s.a (pt.sub s.a) (s.b.sub s.a) (s.c.sub s.a) (s.d.sub s.a) _ _ _ r (by v3ring) (by v3ring) ?_ (by v3ring) he ?_ ?_ ?_
    · simp only [V3.dot, V3.sub]; ring
    · rintro q ⟨β, γ, δ, hβ, hγ, hδ, hsum, hx, hy, hz⟩
      refine ⟨β, γ, δ, by linarith, by linarith, ?_⟩
      apply v3_eq <;> simp only [V3.add, V3.smul, V3.sub, V3.neg] <;> first | (rw [hx]; ring) | (rw [hy]; ring) | (rw [hz]; ring)
    · intro u hu0 hu1
      refine tetBdry_bary s (1 - u) u 0 0 _ (by linarith) (by linarith) (by linarith) (by linarith) (by ring) (by simp) ?_ ?_ ?_ <;>
        simp only [V3.add, V3.smul, V3.sub] <;> ring
    · intro u hu0 hu1
      simp only [TetLocOk, tetEdgeOf]
      refine ⟨by linarith, hu0, by ring, _, _, rfl, ?_⟩
      apply v3_eq <;> simp only [V3.add, V3.smul, V3.sub] <;> ring
  split at h
  · rename_i r he
    simp only [TetRes.ok.injEq] at h
    obtain ⟨h1, h2⟩ := h
    subst h1 h2
    refine edge_finish sq s pt 1 s.a (pt.sub s.a) (s.c.sub s.a) (s.d.sub s.a) (s.b.sub s.a) _ _ _ r (by v3ring) (by v3ring) ?_ (by v3ring) he ?_ ?_ ?_
    · simp only [V3.dot, V3.sub]; ring
    · rintro q ⟨β, γ, δ, hβ, hγ, hδ, hsum, hx, hy, hz⟩
      refine ⟨γ, δ, β, by linarith, by linarith, ?_⟩
      apply v3_eq <;> simp only [V3.add, V3.smul, V3.sub, V3.neg] <;> first | (rw [hx]; ring) | (rw [hy]; ring) | (rw [hz]; ring)
    · intro u hu0 hu1
      refine tetBdry_bary s (1 - u) 0 u 0 _ (by linarith) (by linarith) (by linarith) (by linarith) (by ring) (by simp) ?_ ?_ ?_ <;>
        simp only [V3.add, V3.smul, V3.sub] <;> ring
    · intro u hu0 hu1
      simp only [TetLocOk, tetEdgeOf]
      refine ⟨by linarith, hu0, by ring, _, _, rfl, ?_⟩
      apply v3_eq <;> simp only [V3.add, V3.smul, V3.sub] <;> ring
  split at h
  · rename_i r he
    simp only [TetRes.ok.injEq] at h
    obtain ⟨h1, h2⟩ := h
    subst h1 h2
    refine edge_finish sq s pt 2 s.a (pt.sub s.a) (s.d.sub s.a) (s.b.sub s.a) (s.c.sub s.a) _ _ _ r (by v3ring) (by v3ring) ?_ (by v3ring) he ?_ ?_ ?_
    · simp only [V3.dot, V3.sub]; ring
    · rintro q ⟨β, γ, δ, hβ, hγ, hδ, hsum, hx, hy, hz⟩
      refine ⟨δ, β, γ, by linarith, by linarith, ?_⟩
      apply v3_eq <;> simp only [V3.add, V3.smul, V3.sub, V3.neg] <;> first | (rw [hx]; ring) | (rw [hy]; ring) | (rw [hz]; ring)
    · intro u hu0 hu1
      refine tetBdry_bary s (1 - u) 0 0 u _ (by linarith) (by linarith) (by linarith) (by linarith) (by ring) (by simp) ?_ ?_ ?_ <;>
        simp only [V3.add, V3.smul, V3.sub] <;> ring
    · intro u hu0 hu1
      simp only [TetLocOk, tetEdgeOf]
      refine ⟨by linarith, hu0, by ring, _, _, rfl, ?_⟩
      apply v3_eq <;> simp only [V3.add, V3.smul, V3.sub] <;> ring
  split at h
  · rename_i r he
    simp only [TetRes.ok.injEq] at h
    obtain ⟨h1, h2⟩ := h
    subst h1 h2
    refine edge_finish sq s pt 3 s.b (pt.sub s.b) (s.c.sub s.b) (s.a.sub s.b) (s.d.sub s.b) _ _ _ r (by v3ring) (by v3ring) ?_ (by v3ring) he ?_ ?_ ?_
    · simp only [V3.dot, V3.sub]; ring
    · rintro q ⟨β, γ, δ, hβ, hγ, hδ, hsum, hx, hy, hz⟩
      refine ⟨γ, (1 - β - γ - δ), δ, by linarith, by linarith, ?_⟩
      apply v3_eq <;> simp only [V3.add, V3.smul, V3.sub, V3.neg] <;> first | (rw [hx]; ring) | (rw [hy]; ring) | (rw [hz]; ring)
    · intro u hu0 hu1
      refine tetBdry_bary s 0 (1 - u) u 0 _ (by linarith) (by linarith) (by linarith) (by linarith) (by ring) (by simp) ?_ ?_ ?_ <;>
        simp only [V3.add, V3.smul, V3.sub] <;> ring
    · intro u hu0 hu1
      simp only [TetLocOk, tetEdgeOf]
      refine ⟨by linarith, hu0, by ring, _, _, rfl, ?_⟩
      apply v3_eq <;> simp only [V3.add, V3.smul, V3.sub] <;> ring
  split at h
  · rename_i r he
    simp only [TetRes.ok.injEq] at h
    obtain ⟨h1, h2⟩ := h
    subst h1 h2
    refine edge_finish sq s pt 4 s.b (pt.sub s.b) (s.d.sub s.b) (s.c.sub s.b) (s.a.sub s.b) _ _ _ r (by v3ring) (by v3ring) ?_ (by v3ring) he ?_ ?_ ?_
    · simp only [V3.dot, V3.sub]; ring
    · rintro q ⟨β, γ, δ, hβ, hγ, hδ, hsum, hx, hy, hz⟩
      refine ⟨δ, γ, (1 - β - γ - δ), by linarith, by linarith, ?_⟩
      apply v3_eq <;> simp only [V3.add, V3.smul, V3.sub, V3.neg] <;> first | (rw [hx]; ring) | (rw [hy]; ring) | (rw [hz]; ring)
    · intro u hu0 hu1
      refine tetBdry_bary s 0 (1 - u) 0 u _ (by linarith) (by linarith) (by linarith) (by linarith) (by ring) (by simp) ?_ ?_ ?_ <;>
        simp only [V3.add, V3.smul, V3.sub] <;> ring
    · intro u hu0 hu1
      simp only [TetLocOk, tetEdgeOf]
      refine ⟨by linarith, hu0, by ring, _, _, rfl, ?_⟩
      apply v3_eq <;> simp only [V3.add, V3.smul, V3.sub] <;> ring
  split at h
  · rename_i r he
    simp only [TetRes.ok.injEq] at h
    obtain ⟨h1, h2⟩ := h
    subst h1 h2
    refine edge_finish sq s pt 5 s.c (pt.sub s.c) (s.d.sub s.c) (s.a.sub s.c) (s.b.sub s.c) _ _ _ r (by v3ring) (by v3ring) ?_ (by v3ring) he ?_ ?_ ?_
    · simp only [V3.dot, V3.sub]; ring
    · rintro q ⟨β, γ, δ, hβ, hγ, hδ, hsum, hx, hy, hz⟩
      refine ⟨δ, (1 - β - γ - δ), β, by linarith, by linarith, ?_⟩
      apply v3_eq <;> simp only [V3.add, V3.smul, V3.sub, V3.neg] <;> first | (rw [hx]; ring) | (rw [hy]; ring) | (rw [hz]; ring)
    · intro u hu0 hu1
      refine tetBdry_bary s 0 0 (1 - u) u _ (by linarith) (by linarith) (by linarith) (by linarith) (by ring) (by simp) ?_ ?_ ?_ <;>
        simp only [V3.add, V3.smul, V3.sub] <;> ring
    · intro u hu0 hu1
      simp only [TetLocOk, tetEdgeOf]
      refine ⟨by linarith, hu0, by ring, _, _, rfl, ?_⟩
      apply v3_eq <;> simp only [V3.add, V3.smul, V3.sub] <;> ring
  split at h
  · rename_i r hf
    subst h
    refine face_finish sq hs s pt 0 s.a s.b s.c (pt.sub s.a) (pt.sub s.b) (pt.sub s.c) (s.b.sub s.a) (s.c.sub s.a) (s.d.sub s.a) _ _ _ pp l
      (by v3ring) (by v3ring) (by v3ring) (by v3ring) ?_ ?_ ?_ (by v3ring) hf ?_ ?_ ?_
    · simp only [V3.dot, V3.sub, V3.cross, V3.neg] <;> ring
    · simp only [V3.dot, V3.sub, V3.cross, V3.neg] <;> ring
    · simp only [V3.dot, V3.sub, V3.cross, V3.neg] <;> ring
    · rintro q ⟨β, γ, δ, hβ, hγ, hδ, hsum, hx, hy, hz⟩
      refine ⟨β, γ, δ, by linarith, ?_⟩
      apply v3_eq <;> simp only [V3.add, V3.smul, V3.sub, V3.neg] <;> first | (rw [hx]; ring) | (rw [hy]; ring) | (rw [hz]; ring)
    · intro b0 b1 b2 h0 h1 h2 hsum
      refine tetBdry_bary s b0 b1 b2 0 _ (by linarith) (by linarith) (by linarith) (by linarith) (by linarith) (by simp) ?_ ?_ ?_ <;>
        simp only [V3.add, V3.smul, V3.sub] <;> ring
    · intro b0 b1 b2 h0 h1 h2 hsum
      simp only [TetLocOk, tetFaceOf]
      refine ⟨h0, h1, h2, hsum, _, _, _, rfl, ?_⟩
      apply v3_eq <;> simp only [V3.add, V3.smul, V3.sub] <;> ring
  split at h
  · rename_i r hf
    subst h
    rw [tet_face_perm12, tet_face_perm23] at hf
    refine face_finish sq hs s pt 1 s.a s.b s.d (pt.sub s.a) (pt.sub s.b) (pt.sub s.d) (s.b.sub s.a) (s.d.sub s.a) (s.c.sub s.a) _ _ _ pp l
      (by v3ring) (by v3ring) (by v3ring) (by v3ring) ?_ ?_ ?_ (by v3ring) hf ?_ ?_ ?_
    · simp only [V3.dot, V3.sub, V3.cross, V3.neg] <;> ring
    · simp only [V3.dot, V3.sub, V3.cross, V3.neg] <;> ring
    · simp only [V3.dot, V3.sub, V3.cross, V3.neg] <;> ring
    · rintro q ⟨β, γ, δ, hβ, hγ, hδ, hsum, hx, hy, hz⟩
      refine ⟨β, δ, γ, by linarith, ?_⟩
      apply v3_eq <;> simp only [V3.add, V3.smul, V3.sub, V3.neg] <;> first | (rw [hx]; ring) | (rw [hy]; ring) | (rw [hz]; ring)
    · intro b0 b1 b2 h0 h1 h2 hsum
      refine tetBdry_bary s b0 b1 0 b2 _ (by linarith) (by linarith) (by linarith) (by linarith) (by linarith) (by simp) ?_ ?_ ?_ <;>
        simp only [V3.add, V3.smul, V3.sub] <;> ring
    · intro b0 b1 b2 h0 h1 h2 hsum
      simp only [TetLocOk, tetFaceOf]
      refine ⟨h0, h1, h2, hsum, _, _, _, rfl, ?_⟩
      apply v3_eq <;> simp only [V3.add, V3.smul, V3.sub] <;> ring
  split at h
  · rename_i r hf
    subst h
    refine face_finish sq hs s pt 2 s.a s.c s.d (pt.sub s.a) (pt.sub s.c) (pt.sub s.d) (s.c.sub s.a) (s.d.sub s.a) (s.b.sub s.a) _ _ _ pp l
      (by v3ring) (by v3ring) (by v3ring) (by v3ring) ?_ ?_ ?_ (by v3ring) hf ?_ ?_ ?_
    · simp only [V3.dot, V3.sub, V3.cross, V3.neg] <;> ring
    · simp only [V3.dot, V3.sub, V3.cross, V3.neg] <;> ring
    · simp only [V3.dot, V3.sub, V3.cross, V3.neg] <;> ring
    · rintro q ⟨β, γ, δ, hβ, hγ, hδ, hsum, hx, hy, hz⟩
      refine ⟨γ, δ, β, by linarith, ?_⟩
      apply v3_eq <;> simp only [V3.add, V3.smul, V3.sub, V3.neg] <;> first | (rw [hx]; ring) | (rw [hy]; ring) | (rw [hz]; ring)
    · intro b0 b1 b2 h0 h1 h2 hsum
      refine tetBdry_bary s b0 0 b1 b2 _ (by linarith) (by linarith) (by linarith) (by linarith) (by linarith) (by simp) ?_ ?_ ?_ <;>
        simp only [V3.add, V3.smul, V3.sub] <;> ring
    · intro b0 b1 b2 h0 h1 h2 hsum
      simp only [TetLocOk, tetFaceOf]
      refine ⟨h0, h1, h2, hsum, _, _, _, rfl, ?_⟩
      apply v3_eq <;> simp only [V3.add, V3.smul, V3.sub] <;> ring
  split at h
  · rename_i r hf
    subst h
    refine face_finish sq hs s pt 3 s.b s.c s.d (pt.sub s.b) (pt.sub s.c) (pt.sub s.d) (s.c.sub s.b) (s.d.sub s.b) (s.b.sub s.a).neg _ _ _ pp l
      (by v3ring) (by v3ring) (by v3ring) (by v3ring) ?_ ?_ ?_ (by v3ring) hf ?_ ?_ ?_
    · simp only [V3.dot, V3.sub, V3.cross, V3.neg] <;> ring
    · simp only [V3.dot, V3.sub, V3.cross, V3.neg] <;> ring
    · simp only [V3.dot, V3.sub, V3.cross, V3.neg] <;> ring
    · rintro q ⟨β, γ, δ, hβ, hγ, hδ, hsum, hx, hy, hz⟩
      refine ⟨γ, δ, (1 - β - γ - δ), by linarith, ?_⟩
      apply v3_eq <;> simp only [V3.add, V3.smul, V3.sub, V3.neg] <;> first | (rw [hx]; ring) | (rw [hy]; ring) | (rw [hz]; ring)
    · intro b0 b1 b2 h0 h1 h2 hsum
      refine tetBdry_bary s 0 b0 b1 b2 _ (by linarith) (by linarith) (by linarith) (by linarith) (by linarith) (by simp) ?_ ?_ ?_ <;>
        simp only [V3.add, V3.smul, V3.sub] <;> ring
    · intro b0 b1 b2 h0 h1 h2 hsum
      simp only [TetLocOk, tetFaceOf]
      refine ⟨h0, h1, h2, hsum, _, _, _, rfl, ?_⟩
      apply v3_eq <;> simp only [V3.add, V3.smul, V3.sub] <;> ring
  split at h
  · exact absurd h (by simp)
  · simp only [TetRes.ok.injEq] at h
    exact absurd h.2.symm hl

/-- every vertex / edge / face answer of the tetrahedron projection is a point of the boundary of the tetrahedron, flagged
`false`, and no member is closer to the query point -/
theorem tet_project_nearest (hs : LawfulSqrt sq) (s : Tetrahedron K) (pt : V3 K) (solid : Bool) (pp : PP3 K) (l : TetLoc K)
    (h : letI := fieldNum K sq; s.projectLoc pt solid = TetRes.ok pp l) (hl : l ≠ TetLoc.solid) :
    pp.inside = false ∧ TetBdry s pp.pt ∧ ∀ q, TetMem s q → dist2K pt pp.pt ≤ dist2K pt q := by
  obtain ⟨h1, h2, h3, _⟩ := tet_cascade sq hs s pt solid pp l h hl
  exact ⟨h1, h2, h3⟩

/-- the location tag reproduces the returned point barycentrically, with the code's vertex / edge / face numbering -/
theorem tet_project_location (hs : LawfulSqrt sq) (s : Tetrahedron K) (pt : V3 K) (solid : Bool) (pp : PP3 K) (l : TetLoc K)
    (h : letI := fieldNum K sq; s.projectLoc pt solid = TetRes.ok pp l) : TetLocOk s l pp.pt := by
  by_cases hl : l = TetLoc.solid
  · subst hl; simp [TetLocOk]
  · exact (tet_cascade sq hs s pt solid pp l h hl).2.2.2

private theorem face_no_panic (hs : LawfulSqrt sq) (i : Nat)
    (A B C AP BP CP AB AC AD : V3 K) (d1 d2 d3 : K)
    (hB : letI := fieldNum K sq; B = A.add AB) (hC : letI := fieldNum K sq; C = A.add AC)
    (hBP : letI := fieldNum K sq; BP = AP.sub AB) (hCP : letI := fieldNum K sq; CP = AP.sub AC)
    (hd1 : letI := fieldNum K sq; d1 = (AP.cross AB).dot (AB.cross AC))
    (hd2 : letI := fieldNum K sq; d2 = ((AP.sub AB).cross (AC.sub AB)).dot (AB.cross AC))
    (hd3 : letI := fieldNum K sq; d3 = (AP.cross AC).dot (AB.cross AC).neg)
    (h : letI := fieldNum K sq; tetCheckFace i A B C AP BP CP AB AC AD d1 d2 d3 = some TetRes.panic) : False := by
  letI := fieldNum K sq
  subst hB hC hBP hCP hd1 hd2 hd3
  obtain ⟨b0, b1, b2, _, _, _, _, hres, _⟩ := tet_face_sound sq hs i A AP AB AC AD _ h
  exact absurd hres (by simp)

/-- `check_edge` answers carry the tag `OnEdge(i, ..)` and `check_face` answers the tag `OnFace(i, ..)` -/
private theorem edge_tag (i : Nat) (a n1 n2 ap ab : V3 K) (x y : K) (r : PP3 K × TetLoc K)
    (h : letI := fieldNum K sq; (tetCheckEdge i a n1 n2 ap ab x y).2.2 = some r) : r.2 ≠ TetLoc.solid := by
  letI := fieldNum K sq
  simp only [tetCheckEdge] at h
  split_ifs at h
  simp only [Option.some.injEq] at h
  rw [← h]
  simp

private theorem face_tag (i : Nat) (a b c ap bp cp ab ac ad : V3 K) (d1 d2 d3 : K) (pp : PP3 K)
    (h : letI := fieldNum K sq; tetCheckFace i a b c ap bp cp ab ac ad d1 d2 d3 = some (TetRes.ok pp TetLoc.solid)) : False := by
  letI := fieldNum K sq
  simp only [tetCheckFace] at h
  split_ifs at h <;> simp at h

set_option maxHeartbeats 1600000 in
/-- with `solid = true` the function never panics: the `assert!(denom != 0.0)` of `check_face` never fires (the only panic of
the function is the documented `unimplemented!()` of the final `solid = false` branch) -/
theorem tet_project_no_assert (hs : LawfulSqrt sq) (s : Tetrahedron K) (pt : V3 K) :
    letI := fieldNum K sq
    s.projectLoc pt true ≠ TetRes.panic := by
  letI := fieldNum K sq
  intro h
  simp only [Tetrahedron.projectLoc, edge_fst sq, edge_snd sq] at h
  split at h
  · exact absurd h (by simp)
  split at h
  · exact absurd h (by simp)
  split at h
  · exact absurd h (by simp)
  split at h
  · exact absurd h (by simp)
  split at h
  · exact absurd h (by simp)
  split at h
  · exact absurd h (by simp)
  split at h
  · exact absurd h (by simp)
  split at h
  · exact absurd h (by simp)
  split at h
  · exact absurd h (by simp)
  split at h
  · exact absurd h (by simp)
  split at h
  · rename_i r hf
    subst h
    refine face_no_panic sq hs 0 s.a s.b s.c (pt.sub s.a) (pt.sub s.b) (pt.sub s.c) (s.b.sub s.a) (s.c.sub s.a) (s.d.sub s.a) _ _ _
      (by v3ring) (by v3ring) (by v3ring) (by v3ring) ?_ ?_ ?_ hf
    · simp only [V3.dot, V3.sub, V3.cross, V3.neg] <;> ring
    · simp only [V3.dot, V3.sub, V3.cross, V3.neg] <;> ring
    · simp only [V3.dot, V3.sub, V3.cross, V3.neg] <;> ring
  split at h
  · rename_i r hf
    subst h
    rw [tet_face_perm12, tet_face_perm23] at hf
    refine face_no_panic sq hs 1 s.a s.b s.d (pt.sub s.a) (pt.sub s.b) (pt.sub s.d) (s.b.sub s.a) (s.d.sub s.a) (s.c.sub s.a) _ _ _
      (by v3ring) (by v3ring) (by v3ring) (by v3ring) ?_ ?_ ?_ hf
    · simp only [V3.dot, V3.sub, V3.cross, V3.neg] <;> ring
    · simp only [V3.dot, V3.sub, V3.cross, V3.neg] <;> ring
    · simp only [V3.dot, V3.sub, V3.cross, V3.neg] <;> ring
  split at h
  · rename_i r hf
    subst h
    refine face_no_panic sq hs 2 s.a s.c s.d (pt.sub s.a) (pt.sub s.c) (pt.sub s.d) (s.c.sub s.a) (s.d.sub s.a) (s.b.sub s.a) _ _ _
      (by v3ring) (by v3ring) (by v3ring) (by v3ring) ?_ ?_ ?_ hf
    · simp only [V3.dot, V3.sub, V3.cross, V3.neg] <;> ring
    · simp only [V3.dot, V3.sub, V3.cross, V3.neg] <;> ring
    · simp only [V3.dot, V3.sub, V3.cross, V3.neg] <;> ring
  split at h
  · rename_i r hf
    subst h
    refine face_no_panic sq hs 3 s.b s.c s.d (pt.sub s.b) (pt.sub s.c) (pt.sub s.d) (s.c.sub s.b) (s.d.sub s.b) (s.b.sub s.a).neg _ _ _
      (by v3ring) (by v3ring) (by v3ring) (by v3ring) ?_ ?_ ?_ hf
    · simp only [V3.dot, V3.sub, V3.cross, V3.neg] <;> ring
    · simp only [V3.dot, V3.sub, V3.cross, V3.neg] <;> ring
    · simp only [V3.dot, V3.sub, V3.cross, V3.neg] <;> ring
  simp at h

/-- the `OnSolid` answer is only given for `solid = true`, with flag `true` and the query point itself -/
theorem tet_project_solid (s : Tetrahedron K) (pt : V3 K) (solid : Bool) (pp : PP3 K)
    (h : letI := fieldNum K sq; s.projectLoc pt solid = TetRes.ok pp TetLoc.solid) :
    solid = true ∧ pp = ⟨true, pt⟩ := by
  letI := fieldNum K sq
  simp only [Tetrahedron.projectLoc, edge_fst sq, edge_snd sq] at h
  split at h
  · simp only [TetRes.ok.injEq] at h; exact absurd h.2 (by simp)
  split at h
  · simp only [TetRes.ok.injEq] at h; exact absurd h.2 (by simp)
  split at h
  · simp only [TetRes.ok.injEq] at h; exact absurd h.2 (by simp)
  split at h
  · simp only [TetRes.ok.injEq] at h; exact absurd h.2 (by simp)
  split at h
  · rename_i r he
    simp only [TetRes.ok.injEq] at h
    exact absurd h.2 (edge_tag sq _ _ _ _ _ _ _ _ r he)
  split at h
  · rename_i r he
    simp only [TetRes.ok.injEq] at h
    exact absurd h.2 (edge_tag sq _ _ _ _ _ _ _ _ r he)
  split at h
  · rename_i r he
    simp only [TetRes.ok.injEq] at h
    exact absurd h.2 (edge_tag sq _ _ _ _ _ _ _ _ r he)
  split at h
  · rename_i r he
    simp only [TetRes.ok.injEq] at h
    exact absurd h.2 (edge_tag sq _ _ _ _ _ _ _ _ r he)
  split at h
  · rename_i r he
    simp only [TetRes.ok.injEq] at h
    exact absurd h.2 (edge_tag sq _ _ _ _ _ _ _ _ r he)
  split at h
  · rename_i r he
    simp only [TetRes.ok.injEq] at h
    exact absurd h.2 (edge_tag sq _ _ _ _ _ _ _ _ r he)
  split at h
  · rename_i r hf
    subst h
    exact (face_tag sq _ _ _ _ _ _ _ _ _ _ _ _ _ pp hf).elim
  split at h
  · rename_i r hf
    subst h
    exact (face_tag sq _ _ _ _ _ _ _ _ _ _ _ _ _ pp hf).elim
  split at h
  · rename_i r hf
    subst h
    exact (face_tag sq _ _ _ _ _ _ _ _ _ _ _ _ _ pp hf).elim
  split at h
  · rename_i r hf
    subst h
    exact (face_tag sq _ _ _ _ _ _ _ _ _ _ _ _ _ pp hf).elim
  split at h
  · exact absurd h (by simp)
  · simp only [TetRes.ok.injEq] at h
    rename_i hso
    refine ⟨by simpa using hso, h.1.symm⟩

/-- non-vacuity of the hypothesis of `tet_project_nearest`: for the unit corner tetrahedron and the point `(1/4, 1/4, -1)` below
the face `abc` the whole cascade runs through to `check_face(0)` and answers `OnFace(0, [1/2, 1/4, 1/4])` at `(1/4, 1/4, 0)`
(only `sqrt 1 = 1` is used) -/
example :
    letI := fieldNum ℚ (fun x => if x = 1 then 1 else 0)
    (⟨⟨0, 0, 0⟩, ⟨1, 0, 0⟩, ⟨0, 1, 0⟩, ⟨0, 0, 1⟩⟩ : Tetrahedron ℚ).projectLoc ⟨1/4, 1/4, -1⟩ false
      = TetRes.ok ⟨false, ⟨1/4, 1/4, 0⟩⟩ (TetLoc.face 0 (1/2) (1/4) (1/4)) := by
  simp [Tetrahedron.projectLoc, tetCheckEdge, tetCheckFace, V3.cross, V3.dot, V3.sub, V3.add, V3.neg, V3.norm, V3.normSq,
    V3.sdiv, V3.smul, neq, eps, lit, Num.sqrt, Num.ofRat]
  norm_num

end C05
