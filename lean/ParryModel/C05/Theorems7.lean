import ParryModel.Field
import ParryModel.C05.Mesh
import ParryModel.C05.Theorems4
set_option linter.style.haveILetI false
set_option linter.unusedSimpArgs false
set_option linter.unusedVariables false
set_option linter.unusedSectionVars false
/-!
# C05 property theorems, part 7 (fu4): `compute_pseudo_normals` really is the angle-weighted sum

Links the model function `computePseudoNormals` (array updates, loop over the index buffer) to the abstract weighted sums of
`Theorems4`:

* `pnContrib acos m f v` — what triangle `f` adds to the pseudo-normal of vertex `v`: `n·angle_at_v` if `v` is a vertex of `f`
  and `f` has a normal, else `0`;
* `tm_pn_vertex_sum` — after `computePseudoNormals`, the vertex pseudo-normal of every vertex `v` is `Σ_f pnContrib f v` (sum in
  index-buffer order), for a mesh whose index triples are pairwise distinct;
* `tm_pn_vertex_inside_convex` — hence, with any `acos ≥ 0`: if the query direction `pt - x` is on the inner side of every face that
  has a normal (in particular of every face incident to `v`), the decision with the MODEL's vertex pseudo-normal is `inside`.
-/
namespace C05
open Model Model.PM

variable {K : Type} [Field K] [LinearOrder K] [IsStrictOrderedRing K] (sq : K → K)

def vaddK (a b : V3 K) : V3 K := ⟨a.x + b.x, a.y + b.y, a.z + b.z⟩
def vsumK : List (V3 K) → V3 K
  | [] => ⟨0, 0, 0⟩
  | c :: l => vaddK c (vsumK l)

/-- contribution of triangle `f` to the pseudo-normal of vertex `v` -/
def pnContrib (acos : K → K) (m : Mesh K) (f v : Nat) : V3 K :=
  letI := fieldNum K sq
  match m.idx[f]?, m.tri? f with
  | some (i0, i1, i2), some t =>
    match triNormal? t with
    | none => ⟨0, 0, 0⟩
    | some n =>
      vaddK (if i0 = v then n.smul (triAngles acos t).1 else ⟨0, 0, 0⟩)
        (vaddK (if i1 = v then n.smul (triAngles acos t).2.1 else ⟨0, 0, 0⟩)
          (if i2 = v then n.smul (triAngles acos t).2.2 else ⟨0, 0, 0⟩))
  | _, _ => ⟨0, 0, 0⟩

/-- index triples pairwise distinct (a repeated index gives a zero normal anyway) -/
def DistinctIdx (m : Mesh K) : Prop :=
  ∀ (f i0 i1 i2 : Nat), m.idx[f]? = some (i0, i1, i2) → i0 ≠ i1 ∧ i1 ≠ i2 ∧ i0 ≠ i2

private theorem vadd_zero (x : V3 K) : vaddK x ⟨0, 0, 0⟩ = x := by
  cases x; simp [vaddK]

private theorem pnStep_vertex (acos : K → K) (m : Mesh K) (hd : DistinctIdx m)
    (st st' : Array (V3 K) × List ((Nat × Nat) × V3 K)) (f : Nat)
    (h : letI := fieldNum K sq; pnStep acos m st f = some st') (v : Nat) :
    st'.1[v]? = (st.1[v]?).map (fun x => vaddK x (pnContrib sq acos m f v)) := by
  letI := fieldNum K sq
  cases hidx : m.idx[f]? with
  | none => simp [pnStep, hidx] at h
  | some ijk =>
    obtain ⟨i0, i1, i2⟩ := ijk
    obtain ⟨h01, h12, h02⟩ := hd f i0 i1 i2 hidx
    cases htri : m.tri? f with
    | none => simp [pnStep, hidx, htri] at h
    | some t =>
      cases hn : triNormal? t with
      | none =>
        simp [pnStep, hidx, htri, hn] at h
        subst h
        simp [pnContrib, hidx, htri, hn, vadd_zero]
      | some n =>
        cases hv0 : st.1[i0]? with
        | none => simp [pnStep, hidx, htri, hn, hv0] at h
        | some v0 =>
          cases hv1 : st.1[i1]? with
          | none => simp [pnStep, hidx, htri, hn, hv0, Array.getElem?_setIfInBounds, h01, hv1] at h
          | some v1 =>
            cases hv2 : st.1[i2]? with
            | none =>
              simp [pnStep, hidx, htri, hn, hv0, Array.getElem?_setIfInBounds, h01, hv1, h12, h02, hv2] at h
            | some v2 =>
              have b0 : i0 < st.1.size := by
                by_contra hcon; simp [Array.getElem?_eq_none (Nat.le_of_not_lt hcon)] at hv0
              have b1 : i1 < st.1.size := by
                by_contra hcon; simp [Array.getElem?_eq_none (Nat.le_of_not_lt hcon)] at hv1
              have b2 : i2 < st.1.size := by
                by_contra hcon; simp [Array.getElem?_eq_none (Nat.le_of_not_lt hcon)] at hv2
              have g0 : st.1[i0] = v0 := by simpa [Array.getElem?_eq_getElem b0] using hv0
              have g1 : st.1[i1] = v1 := by simpa [Array.getElem?_eq_getElem b1] using hv1
              have g2 : st.1[i2] = v2 := by simpa [Array.getElem?_eq_getElem b2] using hv2
              simp [pnStep, hidx, htri, hn, hv0, Array.getElem?_setIfInBounds, h01, hv1, h12, h02, hv2] at h
              rw [← h]
              simp only [pnContrib, hidx, htri, hn, Array.getElem?_setIfInBounds, Array.size_setIfInBounds]
              by_cases e2 : i2 = v
              · subst e2
                simp [hv2, b2, h02, h12, vaddK, V3.add, V3.smul, g2]
              · by_cases e1 : i1 = v
                · subst e1
                  simp [hv1, b1, h01, e2, vaddK, V3.add, V3.smul, g1]
                · by_cases e0 : i0 = v
                  · subst e0
                    simp [hv0, b0, e1, e2, vaddK, V3.add, V3.smul, g0]
                  · simp [e0, e1, e2, vadd_zero]

private theorem vadd_assoc (a b c : V3 K) : vaddK (vaddK a b) c = vaddK a (vaddK b c) := by
  simp [vaddK, add_assoc]

private theorem pnLoop_vertex (acos : K → K) (m : Mesh K) (hd : DistinctIdx m) (fs : List Nat)
    (st st' : Array (V3 K) × List ((Nat × Nat) × V3 K))
    (h : letI := fieldNum K sq; pnLoop acos m fs st = some st') (v : Nat) :
    st'.1[v]? = (st.1[v]?).map (fun x => vaddK x (vsumK (fs.map fun f => pnContrib sq acos m f v))) := by
  letI := fieldNum K sq
  induction fs generalizing st with
  | nil =>
    simp only [pnLoop, Option.some.injEq] at h
    subst h
    cases st.1[v]? <;> simp [vsumK, vadd_zero]
  | cons f fs ih =>
    simp only [pnLoop] at h
    cases hs : pnStep acos m st f with
    | none => simp [hs] at h
    | some st1 =>
      simp only [hs] at h
      rw [ih st1 h, pnStep_vertex sq acos m hd st st1 f hs v]
      cases st.1[v]? <;> simp [vsumK, vadd_assoc]

/-- after `compute_pseudo_normals` the pseudo-normal of vertex `v` is the sum of the contributions of all triangles, in
index-buffer order -/
theorem tm_pn_vertex_sum (acos : K → K) (m : Mesh K) (hd : DistinctIdx m) (pn : PseudoNormals K)
    (h : letI := fieldNum K sq; computePseudoNormals acos m = some pn) (v : Nat) (hv : v < m.verts.size) :
    pn.vertexN[v]? = some (vsumK ((List.range m.idx.size).map fun f => pnContrib sq acos m f v)) := by
  letI := fieldNum K sq
  simp only [computePseudoNormals, bind, Option.bind] at h
  split at h
  · simp at h
  · rename_i r hr
    obtain ⟨vs, es⟩ := r
    simp only [pure, Option.some.injEq] at h
    rw [← h]
    have := pnLoop_vertex sq acos m hd _ _ _ hr v
    simp only at this
    rw [this]
    simp [hv, V3.zero, vaddK]

private theorem dot_vadd (d a b : V3 K) : dotK d (vaddK a b) = dotK d a + dotK d b := by
  simp only [dotK, vaddK]; ring

private theorem dot_vsum_nonpos (d : V3 K) (l : List (V3 K)) (h : ∀ c ∈ l, dotK d c ≤ 0) : dotK d (vsumK l) ≤ 0 := by
  induction l with
  | nil => simp [vsumK, dotK]
  | cons c l ih =>
    rw [vsumK, dot_vadd]
    have := h c (by simp)
    have := ih (fun x hx => h x (by simp [hx]))
    linarith

private theorem angle_nonneg (acos : K → K) (hac : ∀ x, 0 ≤ acos x) (u w : V3 K) :
    letI := fieldNum K sq
    0 ≤ V3.angle acos u w := by
  letI := fieldNum K sq
  simp only [V3.angle]
  split_ifs
  · exact le_refl _
  · exact hac _

/-- The model's vertex pseudo-normal reports every point on the inner side of all faces (that have a normal) as inside —
the convex-corner inside half for the ACTUAL `computePseudoNormals`, any `acos ≥ 0`. -/
theorem tm_pn_vertex_inside_convex (acos : K → K) (hac : ∀ x, 0 ≤ acos x) (m : Mesh K) (hd : DistinctIdx m)
    (pn : PseudoNormals K) (h : letI := fieldNum K sq; computePseudoNormals acos m = some pn)
    (v : Nat) (hv : v < m.verts.size) (pt x : V3 K)
    (hin : letI := fieldNum K sq
      ∀ f t n, m.tri? f = some t → triNormal? t = some n → dotK ⟨pt.x - x.x, pt.y - x.y, pt.z - x.z⟩ n ≤ 0) :
    letI := fieldNum K sq
    ∃ N, pn.vertexN[v]? = some N ∧ insideBy pt x N = true := by
  letI := fieldNum K sq
  refine ⟨_, tm_pn_vertex_sum sq acos m hd pn h v hv, ?_⟩
  rw [tm_inside_decision]
  apply dot_vsum_nonpos
  intro c hc
  obtain ⟨f, _, rfl⟩ := List.mem_map.mp hc
  simp only [pnContrib]
  cases hidx : m.idx[f]? with
  | none => simp [dotK]
  | some ijk =>
    obtain ⟨i0, i1, i2⟩ := ijk
    cases htri : m.tri? f with
    | none => simp [dotK]
    | some t =>
      cases hn : triNormal? t with
      | none => simp [dotK, hn]
      | some n =>
        simp only [hn]
        have hdn := hin f t n htri hn
        have a1 : 0 ≤ (triAngles acos t).1 := angle_nonneg sq acos hac _ _
        have a2 : 0 ≤ (triAngles acos t).2.1 := angle_nonneg sq acos hac _ _
        have a3 : 0 ≤ (triAngles acos t).2.2 := angle_nonneg sq acos hac _ _
        have key : ∀ a : K, 0 ≤ a → dotK ⟨pt.x - x.x, pt.y - x.y, pt.z - x.z⟩ (n.smul a) ≤ 0 := by
          intro a ha
          have := mul_nonpos_of_nonneg_of_nonpos ha hdn
          simp only [dotK, V3.smul] at this ⊢
          nlinarith [this]
        have z : dotK ⟨pt.x - x.x, pt.y - x.y, pt.z - x.z⟩ (⟨0, 0, 0⟩ : V3 K) ≤ 0 := by simp [dotK]
        simp only [dot_vadd]
        have t1 : dotK ⟨pt.x - x.x, pt.y - x.y, pt.z - x.z⟩ (if i0 = v then n.smul (triAngles acos t).1 else ⟨0, 0, 0⟩) ≤ 0 := by
          split_ifs; exact key _ a1; exact z
        have t2 : dotK ⟨pt.x - x.x, pt.y - x.y, pt.z - x.z⟩ (if i1 = v then n.smul (triAngles acos t).2.1 else ⟨0, 0, 0⟩) ≤ 0 := by
          split_ifs; exact key _ a2; exact z
        have t3 : dotK ⟨pt.x - x.x, pt.y - x.y, pt.z - x.z⟩ (if i2 = v then n.smul (triAngles acos t).2.2 else ⟨0, 0, 0⟩) ≤ 0 := by
          split_ifs; exact key _ a3; exact z
        linarith

end C05
