import ParryModel.Shapes
/-!
# C05 model: `query/point/point_{segment,ball,halfspace,aabb,cuboid,capsule,cylinder,cone,triangle}.rs`
and the default methods of `PointQuery` / `PointQueryWithLocation` (`point_query.rs`).

Literal transliteration (same branch order, comparison strictness and operation order) so that the
`Float` instance is bit-exact with `parry{2d,3d}-f64`.  Two places follow the *corrected* behaviour
(fixes/C05-*.diff), not the pinned tree:
* `Ball.project*` at the exact centre (pinned tree: `0 * (r / 0) = NaN`);
* `Cylinder.project`, interior point, `solid = false`, `dist_to_top == dist_to_bottom` (pinned tree: both
  strict tests fail and the point is sent to the side even when a cap is nearer);
* `aabbFeature*`, point already on a `+` face: `ls_pt[i] >= maxs[i] - ε` (pinned tree: `>`, which is never true once
  `maxs[i] - ε` rounds to `maxs[i]`, i.e. for half-extents `≥ 4`, and `FeatureId::Unknown` is returned).
Conventions: `Bounded::max_value()` in `Aabb::do_project_local_point` is modelled by `none : Option K`
(`x > -f64::MAX` holds for every finite `x` of the valid domain); `copy_sign_to(1)` is `if z < 0 then -1 else 1`
(differs from the bit operation only at `z = -0.0`); `relative_eq!`'s infinity test is dropped (finite domain).
-/
namespace Model
variable {K : Type} [Num K]

/-- `PointProjection` -/
structure PP2 (K : Type) where
  inside : Bool
  pt : V2 K
structure PP3 (K : Type) where
  inside : Bool
  pt : V3 K

/-- `FeatureId` -/
inductive Feat where
  | vertex (i : Nat) | edge (i : Nat) | face (i : Nat) | unknown
deriving Repr, DecidableEq

/-- `f64::EPSILON` = `DEFAULT_EPSILON` = 2⁻⁵² -/
@[inline] def eps : K := lit 1 4503599627370496

/-- `approx::RelativeEq for f64` with `epsilon = max_relative = f64::EPSILON` (`self = a`, `other = b`). -/
def relEq (a b : K) : Bool :=
  if neq a b then true else
  let d := nabs (a - b)
  if d ≤ eps then true else
  let aa := nabs a
  let ab := nabs b
  let largest := if aa < ab then ab else aa
  decide (d ≤ largest * eps)

def V2.relEq (a b : V2 K) : Bool := Model.relEq a.x b.x && Model.relEq a.y b.y
def V3.relEq (a b : V3 K) : Bool := Model.relEq a.x b.x && Model.relEq a.y b.y && Model.relEq a.z b.z
/-- `Point == Point` -/
def V2.beq (a b : V2 K) : Bool := neq a.x b.x && neq a.y b.y
def V3.beq (a b : V3 K) : Bool := neq a.x b.x && neq a.y b.y && neq a.z b.z
/-- `Vector::is_zero` -/
def V2.isZero (a : V2 K) : Bool := neq a.x 0 && neq a.y 0
def V3.isZero (a : V3 K) : Bool := neq a.x 0 && neq a.y 0 && neq a.z 0

/-! ## Segment (`point_segment.rs`) -/

/-- `SegmentPointLocation` -/
inductive SegLoc (K : Type) where
  | vertex (i : Nat)
  | edge (b0 b1 : K)

/-- `Segment::project_local_point_and_get_location` (3-D); the `solid` flag is ignored by the code. -/
def Segment3.projectLoc (s : Segment3 K) (pt : V3 K) : PP3 K × SegLoc K :=
  let ab := s.b.sub s.a
  let ap := pt.sub s.a
  let ab_ap := ab.dot ap
  let sqnab := ab.normSq
  if ab_ap ≤ 0 then (⟨V3.relEq s.a pt, s.a⟩, SegLoc.vertex 0)
  else if sqnab ≤ ab_ap then (⟨V3.relEq s.b pt, s.b⟩, SegLoc.vertex 1)
  else
    let u := ab_ap / sqnab
    let proj := s.a.add (ab.smul u)
    (⟨V3.relEq proj pt, proj⟩, SegLoc.edge (1 - u) u)

def Segment2.projectLoc (s : Segment2 K) (pt : V2 K) : PP2 K × SegLoc K :=
  let ab := s.b.sub s.a
  let ap := pt.sub s.a
  let ab_ap := ab.dot ap
  let sqnab := ab.normSq
  if ab_ap ≤ 0 then (⟨V2.relEq s.a pt, s.a⟩, SegLoc.vertex 0)
  else if sqnab ≤ ab_ap then (⟨V2.relEq s.b pt, s.b⟩, SegLoc.vertex 1)
  else
    let u := ab_ap / sqnab
    let proj := s.a.add (ab.smul u)
    (⟨V2.relEq proj pt, proj⟩, SegLoc.edge (1 - u) u)

/-- `Segment::project_local_point` -/
def Segment3.project (s : Segment3 K) (pt : V3 K) (_solid : Bool) : PP3 K := (s.projectLoc pt).1
def Segment2.project (s : Segment2 K) (pt : V2 K) (_solid : Bool) : PP2 K := (s.projectLoc pt).1

/-- `Segment::project_local_point_and_get_feature` (3-D) -/
def Segment3.projectFeature (s : Segment3 K) (pt : V3 K) : PP3 K × Feat :=
  let r := s.projectLoc pt
  (r.1, match r.2 with | .vertex i => Feat.vertex i | .edge _ _ => Feat.edge 0)

/-- `Segment::project_local_point_and_get_feature` (2-D): side of the supporting line -/
def Segment2.projectFeature (s : Segment2 K) (pt : V2 K) : PP2 K × Feat :=
  let r := s.projectLoc pt
  (r.1, match r.2 with
    | .vertex i => Feat.vertex i
    | .edge _ _ =>
      let dir := s.b.sub s.a
      let dpt := pt.sub r.1.pt
      if 0 ≤ dpt.perp dir then Feat.face 0 else Feat.face 1)

/-! ## Ball (`point_ball.rs`) — corrected at the centre -/

def Ball.project3 (s : Ball K) (pt : V3 K) (solid : Bool) : PP3 K :=
  let d2 := pt.normSq
  let inside := decide (d2 ≤ s.r * s.r)
  if inside && solid then ⟨true, pt⟩
  else if neq d2 0 then ⟨inside, ⟨0, s.r, 0⟩⟩
  else ⟨inside, pt.smul (s.r / Num.sqrt d2)⟩

def Ball.project2 (s : Ball K) (pt : V2 K) (solid : Bool) : PP2 K :=
  let d2 := pt.normSq
  let inside := decide (d2 ≤ s.r * s.r)
  if inside && solid then ⟨true, pt⟩
  else if neq d2 0 then ⟨inside, ⟨0, s.r⟩⟩
  else ⟨inside, pt.smul (s.r / Num.sqrt d2)⟩

/-- `Ball::distance_to_local_point` (own implementation, not the default) -/
def Ball.distance3 (s : Ball K) (pt : V3 K) (solid : Bool) : K :=
  let dist := pt.norm - s.r
  if solid && decide (dist < 0) then 0 else dist
def Ball.distance2 (s : Ball K) (pt : V2 K) (solid : Bool) : K :=
  let dist := pt.norm - s.r
  if solid && decide (dist < 0) then 0 else dist
def Ball.contains3 (s : Ball K) (pt : V3 K) : Bool := decide (pt.normSq ≤ s.r * s.r)
def Ball.contains2 (s : Ball K) (pt : V2 K) : Bool := decide (pt.normSq ≤ s.r * s.r)

/-! ## HalfSpace (`point_halfspace.rs`) -/

def HalfSpace3.project (s : HalfSpace3 K) (pt : V3 K) (solid : Bool) : PP3 K :=
  let d := s.n.dot pt
  let inside := decide (d ≤ 0)
  if inside && solid then ⟨true, pt⟩ else ⟨inside, pt.add (s.n.neg.smul d)⟩
def HalfSpace2.project (s : HalfSpace2 K) (pt : V2 K) (solid : Bool) : PP2 K :=
  let d := s.n.dot pt
  let inside := decide (d ≤ 0)
  if inside && solid then ⟨true, pt⟩ else ⟨inside, pt.add (s.n.neg.smul d)⟩
def HalfSpace3.distance (s : HalfSpace3 K) (pt : V3 K) (solid : Bool) : K :=
  let dist := s.n.dot pt
  if decide (dist < 0) && solid then 0 else dist
def HalfSpace2.distance (s : HalfSpace2 K) (pt : V2 K) (solid : Bool) : K :=
  let dist := s.n.dot pt
  if decide (dist < 0) && solid then 0 else dist
def HalfSpace3.contains (s : HalfSpace3 K) (pt : V3 K) : Bool := decide (s.n.dot pt ≤ 0)
def HalfSpace2.contains (s : HalfSpace2 K) (pt : V2 K) : Bool := decide (s.n.dot pt ≤ 0)

/-! ## Aabb / Cuboid (`point_aabb.rs`, `point_cuboid.rs`) -/

/-- loop state of the non-solid interior branch: `(best, is_mins, best_id)`; `none` = `-f64::MAX` -/
abbrev BestSt (K : Type) := Option K × Bool × Nat

/-- one iteration of `for i in 0..DIM` -/
def aabbStep (mp pm : K) (i : Nat) (st : BestSt K) : BestSt K :=
  let gt (x : K) : Bool := match st.1 with
    | none => true
    | some b => decide (b < x)
  if mp < pm then
    if gt pm then (some pm, false, i) else st
  else if gt mp then (some mp, true, i) else st

/-- `Aabb::do_project_local_point` (3-D): `(inside, projection, shift)` -/
def aabbDoProject3 (mins maxs pt : V3 K) (solid : Bool) : Bool × V3 K × V3 K :=
  let mins_pt := mins.sub pt
  let pt_maxs := pt.sub maxs
  let shift := (mins_pt.sup V3.zero).sub (pt_maxs.sup V3.zero)
  let inside := shift.isZero
  if !inside then (false, pt.add shift, shift)
  else if solid then (true, pt, shift)
  else
    let st0 : BestSt K := (none, false, 0)
    let st1 := aabbStep mins_pt.x pt_maxs.x 0 st0
    let st2 := aabbStep mins_pt.y pt_maxs.y 1 st1
    let st3 := aabbStep mins_pt.z pt_maxs.z 2 st2
    let best : K := st3.1.getD 0
    let sh : V3 K := V3.zero.set st3.2.2 (if st3.2.1 then best else -best)
    (inside, pt.add sh, sh)

def aabbDoProject2 (mins maxs pt : V2 K) (solid : Bool) : Bool × V2 K × V2 K :=
  let mins_pt := mins.sub pt
  let pt_maxs := pt.sub maxs
  let shift := (mins_pt.sup V2.zero).sub (pt_maxs.sup V2.zero)
  let inside := shift.isZero
  if !inside then (false, pt.add shift, shift)
  else if solid then (true, pt, shift)
  else
    let st0 : BestSt K := (none, false, 0)
    let st1 := aabbStep mins_pt.x pt_maxs.x 0 st0
    let st2 := aabbStep mins_pt.y pt_maxs.y 1 st1
    let best : K := st2.1.getD 0
    let sh : V2 K := V2.zero.set st2.2.2 (if st2.2.1 then best else -best)
    (inside, pt.add sh, sh)

/-- `Aabb::project_local_point` -/
def aabbProject3 (mins maxs pt : V3 K) (solid : Bool) : PP3 K :=
  let r := aabbDoProject3 mins maxs pt solid
  ⟨r.1, r.2.1⟩
def aabbProject2 (mins maxs pt : V2 K) (solid : Bool) : PP2 K :=
  let r := aabbDoProject2 mins maxs pt solid
  ⟨r.1, r.2.1⟩

/-- `Aabb::project_local_point_and_get_feature` (3-D) -/
def aabbFeature3 (mins maxs pt : V3 K) : PP3 K × Feat :=
  let r := aabbDoProject3 mins maxs pt false
  let ls := r.2.1
  let shift := r.2.2
  let proj : PP3 K := ⟨r.1, ls⟩
  let z0 := neq shift.x 0; let z1 := neq shift.y 0; let z2 := neq shift.z 0
  let nzero := (if z0 then 1 else 0) + (if z1 then 1 else 0) + (if z2 then 1 else 0)
  let lastZero := if z2 then 2 else if z1 then 1 else 0
  let lastNotZero := if !z2 then 2 else if !z1 then 1 else 0
  if nzero = 3 then
    let rec go (fuel i : Nat) : Feat :=
      match fuel with
      | 0 => Feat.unknown
      | fuel + 1 =>
        if maxs.get i - eps ≤ ls.get i then Feat.face i
        else if ls.get i ≤ mins.get i + eps then Feat.face (i + 3)
        else go fuel (i + 1)
    (proj, go 3 0)
  else
    let c := V3.center mins maxs
    if nzero = 2 then
      if ls.get lastNotZero < c.get lastNotZero then (proj, Feat.face (lastNotZero + 3))
      else (proj, Feat.face lastNotZero)
    else
      let id := (if ls.x < c.x then 1 else 0) + (if ls.y < c.y then 2 else 0) + (if ls.z < c.z then 4 else 0)
      if nzero = 0 then (proj, Feat.vertex id) else (proj, Feat.edge (id * 4 + lastZero))

def aabbFeature2 (mins maxs pt : V2 K) : PP2 K × Feat :=
  let r := aabbDoProject2 mins maxs pt false
  let ls := r.2.1
  let shift := r.2.2
  let proj : PP2 K := ⟨r.1, ls⟩
  let z0 := neq shift.x 0; let z1 := neq shift.y 0
  let nzero := (if z0 then 1 else 0) + (if z1 then 1 else 0)
  let lastNotZero := if !z1 then 1 else 0
  if nzero = 2 then
    let rec go (fuel i : Nat) : Feat :=
      match fuel with
      | 0 => Feat.unknown
      | fuel + 1 =>
        if maxs.get i - eps ≤ ls.get i then Feat.face i
        else if ls.get i ≤ mins.get i + eps then Feat.face (i + 2)
        else go fuel (i + 1)
    (proj, go 2 0)
  else
    let c := V2.center mins maxs
    if nzero = 1 then
      if ls.get lastNotZero < c.get lastNotZero then (proj, Feat.face (lastNotZero + 2))
      else (proj, Feat.face lastNotZero)
    else
      let id := (if ls.x < c.x then 1 else 0) + (if ls.y < c.y then 2 else 0)
      (proj, Feat.vertex id)

/-- `Aabb::distance_to_local_point` (own implementation) -/
def aabbDistance3 (mins maxs pt : V3 K) (solid : Bool) : K :=
  let mins_pt := mins.sub pt
  let pt_maxs := pt.sub maxs
  let shift := (mins_pt.sup pt_maxs).sup V3.zero
  if solid || !shift.isZero then shift.norm
  else -((aabbProject3 mins maxs pt solid).pt.sub pt).norm
def aabbDistance2 (mins maxs pt : V2 K) (solid : Bool) : K :=
  let mins_pt := mins.sub pt
  let pt_maxs := pt.sub maxs
  let shift := (mins_pt.sup pt_maxs).sup V2.zero
  if solid || !shift.isZero then shift.norm
  else -((aabbProject2 mins maxs pt solid).pt.sub pt).norm

/-- `Cuboid::*` : `Aabb::new(-he, he)` -/
def Cuboid3.project (s : Cuboid3 K) (pt : V3 K) (solid : Bool) : PP3 K := aabbProject3 s.he.neg s.he pt solid
def Cuboid2.project (s : Cuboid2 K) (pt : V2 K) (solid : Bool) : PP2 K := aabbProject2 s.he.neg s.he pt solid
def Cuboid3.projectFeature (s : Cuboid3 K) (pt : V3 K) : PP3 K × Feat := aabbFeature3 s.he.neg s.he pt
def Cuboid2.projectFeature (s : Cuboid2 K) (pt : V2 K) : PP2 K × Feat := aabbFeature2 s.he.neg s.he pt
def Cuboid3.distance (s : Cuboid3 K) (pt : V3 K) (solid : Bool) : K := aabbDistance3 s.he.neg s.he pt solid
def Cuboid2.distance (s : Cuboid2 K) (pt : V2 K) (solid : Bool) : K := aabbDistance2 s.he.neg s.he pt solid
/-- `Cuboid::contains_local_point` = `Aabb::contains_local_point` = default = `project(pt, true).is_inside` -/
def Cuboid3.contains (s : Cuboid3 K) (pt : V3 K) : Bool := (s.project pt true).inside
def Cuboid2.contains (s : Cuboid2 K) (pt : V2 K) : Bool := (s.project pt true).inside

/-! ## Capsule (`point_capsule.rs`) -/

/-- `Vector3::orthonormal_basis()[0]` (utils/wops.rs) -/
def orthoBasis0 (v : V3 K) : V3 K :=
  let sign : K := if v.z < 0 then -1 else 1
  let a := -1 / (sign + v.z)
  let b := v.x * v.y * a
  ⟨1 + sign * v.x * v.x * a, sign * b, -sign * v.x⟩

def Capsule3.project (s : Capsule3 K) (pt : V3 K) (solid : Bool) : PP3 K :=
  let seg : Segment3 K := ⟨s.a, s.b⟩
  let proj := seg.project pt solid
  let dproj := pt.sub proj.pt
  let sqn := dproj.normSq
  if eps * eps < sqn then
    let dist := Num.sqrt sqn
    let dir := dproj.sdiv dist
    let inside := decide (dist ≤ s.r)
    if solid && inside then ⟨true, pt⟩ else ⟨inside, proj.pt.add (dir.smul s.r)⟩
  else if solid then ⟨true, pt⟩
  else
    let sd := s.b.sub s.a
    let sdn := sd.normSq
    if eps * eps < sdn then
      let dir := sd.sdiv (Num.sqrt sdn)
      ⟨true, proj.pt.add ((orthoBasis0 dir).smul s.r)⟩
    else ⟨true, proj.pt.add ⟨0, s.r, 0⟩⟩

def Capsule2.project (s : Capsule2 K) (pt : V2 K) (solid : Bool) : PP2 K :=
  let seg : Segment2 K := ⟨s.a, s.b⟩
  let proj := seg.project pt solid
  let dproj := pt.sub proj.pt
  let sqn := dproj.normSq
  if eps * eps < sqn then
    let dist := Num.sqrt sqn
    let dir := dproj.sdiv dist
    let inside := decide (dist ≤ s.r)
    if solid && inside then ⟨true, pt⟩ else ⟨inside, proj.pt.add (dir.smul s.r)⟩
  else if solid then ⟨true, pt⟩
  else
    let sd := s.b.sub s.a
    let nrm : V2 K := ⟨sd.y, -sd.x⟩
    let nn := nrm.normSq
    if eps * eps < nn then
      let dir := nrm.sdiv (Num.sqrt nn)
      ⟨true, proj.pt.add (dir.smul s.r)⟩
    else ⟨true, proj.pt.add ⟨0, s.r⟩⟩

/-! ## Cylinder (`point_cylinder.rs`) — corrected on the mid-plane tie -/

def Cylinder.project (s : Cylinder K) (pt : V3 K) (solid : Bool) : PP3 K :=
  let d0 : V2 K := ⟨pt.x, pt.z⟩
  let planar := d0.norm
  let dir : V2 K := if planar ≤ eps then ⟨1, 0⟩ else d0.sdiv planar
  let proj2d := dir.smul s.r
  if -s.hh ≤ pt.y ∧ pt.y ≤ s.hh ∧ planar ≤ s.r then
    if solid then ⟨true, pt⟩
    else
      let top := s.hh - pt.y
      let bot := pt.y - (-s.hh)
      let side := s.r - planar
      if top ≤ bot ∧ top < side then ⟨true, ⟨pt.x, s.hh, pt.z⟩⟩
      else if bot < top ∧ bot < side then ⟨true, ⟨pt.x, -s.hh, pt.z⟩⟩
      else ⟨true, ⟨proj2d.x, pt.y, proj2d.y⟩⟩
  else if s.hh < pt.y then
    if planar ≤ s.r then ⟨false, ⟨pt.x, s.hh, pt.z⟩⟩
    else ⟨false, ⟨proj2d.x, s.hh, proj2d.y⟩⟩
  else if pt.y < -s.hh then
    if planar ≤ s.r then ⟨false, ⟨pt.x, -s.hh, pt.z⟩⟩
    else ⟨false, ⟨proj2d.x, -s.hh, proj2d.y⟩⟩
  else ⟨false, ⟨proj2d.x, pt.y, proj2d.y⟩⟩

/-- pinned-tree cap selection (both tests strict) — kept for the negated theorem -/
def Cylinder.projectPinned (s : Cylinder K) (pt : V3 K) (solid : Bool) : PP3 K :=
  let d0 : V2 K := ⟨pt.x, pt.z⟩
  let planar := d0.norm
  let dir : V2 K := if planar ≤ eps then ⟨1, 0⟩ else d0.sdiv planar
  let proj2d := dir.smul s.r
  if -s.hh ≤ pt.y ∧ pt.y ≤ s.hh ∧ planar ≤ s.r then
    if solid then ⟨true, pt⟩
    else
      let top := s.hh - pt.y
      let bot := pt.y - (-s.hh)
      let side := s.r - planar
      if top < bot ∧ top < side then ⟨true, ⟨pt.x, s.hh, pt.z⟩⟩
      else if bot < top ∧ bot < side then ⟨true, ⟨pt.x, -s.hh, pt.z⟩⟩
      else ⟨true, ⟨proj2d.x, pt.y, proj2d.y⟩⟩
  else if s.hh < pt.y then
    if planar ≤ s.r then ⟨false, ⟨pt.x, s.hh, pt.z⟩⟩
    else ⟨false, ⟨proj2d.x, s.hh, proj2d.y⟩⟩
  else if pt.y < -s.hh then
    if planar ≤ s.r then ⟨false, ⟨pt.x, -s.hh, pt.z⟩⟩
    else ⟨false, ⟨proj2d.x, -s.hh, proj2d.y⟩⟩
  else ⟨false, ⟨proj2d.x, pt.y, proj2d.y⟩⟩

/-! ## Cone (`point_cone.rs`) -/

def Cone.project (s : Cone K) (pt : V3 K) (solid : Bool) : PP3 K :=
  let d0 : V2 K := ⟨pt.x, pt.z⟩
  let planar := d0.norm
  let dir : V2 K := if planar ≤ eps then ⟨1, 0⟩ else d0.sdiv planar
  let onBasis : V3 K := ⟨pt.x, -s.hh, pt.z⟩
  if pt.y < -s.hh ∧ planar ≤ s.r then ⟨false, onBasis⟩
  else
    let proj2d := dir.smul s.r
    let onCircle : V3 K := ⟨proj2d.x, -s.hh, proj2d.y⟩
    let apex : V3 K := ⟨0, s.hh, 0⟩
    let seg : Segment3 K := ⟨apex, onCircle⟩
    let segDir := onCircle.sub apex
    let proj := seg.project pt true
    let apexToBasis : V3 K := ⟨0, -two * s.hh, 0⟩
    if -s.hh ≤ pt.y ∧ pt.y ≤ s.hh ∧
        0 ≤ (segDir.cross (pt.sub apex)).dot (segDir.cross apexToBasis) then
      if solid then ⟨true, pt⟩
      else if (onBasis.sub pt).normSq < (proj.pt.sub pt).normSq then ⟨true, onBasis⟩
      else ⟨true, proj.pt⟩
    else proj

/-! ## Triangle (`point_triangle.rs`) -/

/-- `TrianglePointLocation` -/
inductive TriLoc (K : Type) where
  | vertex (i : Nat)
  | edge (i : Nat) (b0 b1 : K)
  | face (side : Nat) (b0 b1 b2 : K)
  | solid

/-- 2-D `Triangle::project_local_point_and_get_location`; `compute_result` is `*pt == proj`. -/
def Triangle2.projectLoc (s : Triangle2 K) (pt : V2 K) (solid : Bool) : PP2 K × TriLoc K :=
  let a := s.a; let b := s.b; let c := s.c
  let ab := b.sub a
  let ac := c.sub a
  let ap := pt.sub a
  let ab_ap := ab.dot ap
  let ac_ap := ac.dot ap
  if ab_ap ≤ 0 ∧ ac_ap ≤ 0 then (⟨V2.beq pt a, a⟩, TriLoc.vertex 0)
  else
  let bp := pt.sub b
  let ab_bp := ab.dot bp
  let ac_bp := ac.dot bp
  if 0 ≤ ab_bp ∧ ac_bp ≤ ab_bp then (⟨V2.beq pt b, b⟩, TriLoc.vertex 1)
  else
  let cp := pt.sub c
  let ab_cp := ab.dot cp
  let ac_cp := ac.dot cp
  if 0 ≤ ac_cp ∧ ab_cp ≤ ac_cp then (⟨V2.beq pt c, c⟩, TriLoc.vertex 2)
  else
  let bc := c.sub b
  let n := ab.perp ac
  let vc := n * ab.perp ap
  if vc < 0 ∧ 0 ≤ ab_ap ∧ ab_bp ≤ 0 then
    let v := ab_ap / ab.normSq
    let res := a.add (ab.smul v)
    (⟨V2.beq pt res, res⟩, TriLoc.edge 0 (1 - v) v)
  else
  let vb := -n * ac.perp cp
  if vb < 0 ∧ 0 ≤ ac_ap ∧ ac_cp ≤ 0 then
    let w := ac_ap / ac.normSq
    let res := a.add (ac.smul w)
    (⟨V2.beq pt res, res⟩, TriLoc.edge 2 (1 - w) w)
  else
  let va := n * bc.perp bp
  if va < 0 ∧ 0 ≤ ac_bp - ab_bp ∧ 0 ≤ ab_cp - ac_cp then
    let w := bc.dot bp / bc.normSq
    let res := b.add (bc.smul w)
    (⟨V2.beq pt res, res⟩, TriLoc.edge 1 (1 - w) w)
  else
  -- `OnFace` in 2-D: the point is inside the triangle
  if solid then (⟨true, pt⟩, TriLoc.solid)
  else
    let v := ab_ap / (ab_ap - ab_bp)
    let w := ac_ap / (ac_ap - ac_cp)
    let u := (ac_bp - ab_bp) / (ac_bp - ab_bp + ab_cp - ac_cp)
    let d_ab := ap.normSq - (ab.normSq * v * v)
    let d_ac := ap.normSq - (ac.normSq * w * w)
    let d_bc := bp.normSq - (bc.normSq * u * u)
    if d_ab < d_ac then
      if d_ab < d_bc then (⟨true, a.add (ab.smul v)⟩, TriLoc.edge 0 (1 - v) v)
      else (⟨true, b.add (bc.smul u)⟩, TriLoc.edge 1 (1 - u) u)
    else if d_ac < d_bc then (⟨true, a.add (ac.smul w)⟩, TriLoc.edge 2 (1 - w) w)
    else (⟨true, b.add (bc.smul u)⟩, TriLoc.edge 1 (1 - u) u)

def Triangle2.project (s : Triangle2 K) (pt : V2 K) (solid : Bool) : PP2 K := (s.projectLoc pt solid).1

/-- 2-D `project_local_point_and_get_feature`: location with `solid = false`; edges are faces in 2-D -/
def Triangle2.projectFeature (s : Triangle2 K) (pt : V2 K) : PP2 K × Feat :=
  let r := s.projectLoc pt false
  (r.1, match r.2 with
    | .vertex i => Feat.vertex i
    | .edge i _ _ => Feat.face i
    | .face i _ _ _ => Feat.face i
    | .solid => Feat.face 0)

/-- 3-D `Triangle::project_local_point_and_get_location`; `compute_result` is `relative_eq!(proj, *pt)`. -/
def Triangle3.projectLoc (s : Triangle3 K) (pt : V3 K) (solid : Bool) : PP3 K × TriLoc K :=
  let a := s.a; let b := s.b; let c := s.c
  let ab := b.sub a
  let ac := c.sub a
  let ap := pt.sub a
  let ab_ap := ab.dot ap
  let ac_ap := ac.dot ap
  if ab_ap ≤ 0 ∧ ac_ap ≤ 0 then (⟨V3.relEq a pt, a⟩, TriLoc.vertex 0)
  else
  let bp := pt.sub b
  let ab_bp := ab.dot bp
  let ac_bp := ac.dot bp
  if 0 ≤ ab_bp ∧ ac_bp ≤ ab_bp then (⟨V3.relEq b pt, b⟩, TriLoc.vertex 1)
  else
  let cp := pt.sub c
  let ab_cp := ab.dot cp
  let ac_cp := ac.dot cp
  if 0 ≤ ac_cp ∧ ab_cp ≤ ac_cp then (⟨V3.relEq c pt, c⟩, TriLoc.vertex 2)
  else
  let bc := c.sub b
  let n := ab.cross ac
  let vc := n.dot (ab.cross ap)
  if vc < 0 ∧ 0 ≤ ab_ap ∧ ab_bp ≤ 0 then
    let v := ab_ap / ab.normSq
    let res := a.add (ab.smul v)
    (⟨V3.relEq res pt, res⟩, TriLoc.edge 0 (1 - v) v)
  else
  let vb := -(n.dot (ac.cross cp))
  if vb < 0 ∧ 0 ≤ ac_ap ∧ ac_cp ≤ 0 then
    let w := ac_ap / ac.normSq
    let res := a.add (ac.smul w)
    (⟨V3.relEq res pt, res⟩, TriLoc.edge 2 (1 - w) w)
  else
  let va := n.dot (bc.cross bp)
  if va < 0 ∧ 0 ≤ ac_bp - ab_bp ∧ 0 ≤ ab_cp - ac_cp then
    let w := bc.dot bp / bc.normSq
    let res := b.add (bc.smul w)
    (⟨V3.relEq res pt, res⟩, TriLoc.edge 1 (1 - w) w)
  else
  let side : Nat := if 0 ≤ n.dot ap then 0 else 1
  if !(neq (va + vb + vc) 0) then
    let denom := 1 / (va + vb + vc)
    let v := vb * denom
    let w := vc * denom
    let res := (a.add (ab.smul v)).add (ac.smul w)
    (⟨V3.relEq res pt, res⟩, TriLoc.face side (1 - v - w) v w)
  else
  if solid then (⟨true, pt⟩, TriLoc.solid)
  else
    let v := ab_ap / (ab_ap - ab_bp)
    let w := ac_ap / (ac_ap - ac_cp)
    let u := (ac_bp - ab_bp) / (ac_bp - ab_bp + ab_cp - ac_cp)
    let d_ab := ap.normSq - (ab.normSq * v * v)
    let d_ac := ap.normSq - (ac.normSq * w * w)
    let d_bc := bp.normSq - (bc.normSq * u * u)
    if d_ab < d_ac then
      if d_ab < d_bc then (⟨true, a.add (ab.smul v)⟩, TriLoc.edge 0 (1 - v) v)
      else (⟨true, b.add (bc.smul u)⟩, TriLoc.edge 1 (1 - u) u)
    else if d_ac < d_bc then (⟨true, a.add (ac.smul w)⟩, TriLoc.edge 2 (1 - w) w)
    else (⟨true, b.add (bc.smul u)⟩, TriLoc.edge 1 (1 - u) u)

def Triangle3.project (s : Triangle3 K) (pt : V3 K) (solid : Bool) : PP3 K := (s.projectLoc pt solid).1

/-- 3-D `project_local_point_and_get_feature`: location with `solid = true` -/
def Triangle3.projectFeature (s : Triangle3 K) (pt : V3 K) : PP3 K × Feat :=
  let r := s.projectLoc pt true
  (r.1, match r.2 with
    | .vertex i => Feat.vertex i
    | .edge i _ _ => Feat.edge i
    | .face i _ _ _ => Feat.face i
    | .solid => Feat.face 0)

/-! ## Default methods of `PointQuery` (`point_query.rs`), generic in the shape's `project_local_point` -/

/-- `distance_to_local_point` (default) -/
def defaultDistance3 (project : V3 K → Bool → PP3 K) (pt : V3 K) (solid : Bool) : K :=
  let proj := project pt solid
  let dist := (proj.pt.sub pt).norm
  if solid || !proj.inside then dist else -dist
def defaultDistance2 (project : V2 K → Bool → PP2 K) (pt : V2 K) (solid : Bool) : K :=
  let proj := project pt solid
  let dist := (proj.pt.sub pt).norm
  if solid || !proj.inside then dist else -dist
/-- `contains_local_point` (default) -/
def defaultContains3 (project : V3 K → Bool → PP3 K) (pt : V3 K) : Bool := (project pt true).inside
def defaultContains2 (project : V2 K → Bool → PP2 K) (pt : V2 K) : Bool := (project pt true).inside
/-- `project_local_point_with_max_dist` (default) -/
def defaultMaxDist3 (project : V3 K → Bool → PP3 K) (pt : V3 K) (solid : Bool) (maxDist : K) : Option (PP3 K) :=
  let proj := project pt solid
  if maxDist < (pt.sub proj.pt).norm then none else some proj
def defaultMaxDist2 (project : V2 K → Bool → PP2 K) (pt : V2 K) (solid : Bool) (maxDist : K) : Option (PP2 K) :=
  let proj := project pt solid
  if maxDist < (pt.sub proj.pt).norm then none else some proj
/-- `PointProjection::transform_by` -/
def PP3.transformBy (p : PP3 K) (m : Iso3 K) : PP3 K := ⟨p.inside, m.act p.pt⟩
def PP2.transformBy (p : PP2 K) (m : Iso2 K) : PP2 K := ⟨p.inside, m.act p.pt⟩
/-- `project_point` : `project_local_point(m⁻¹ pt).transform_by(m)` -/
def posedProject3 (project : V3 K → Bool → PP3 K) (m : Iso3 K) (pt : V3 K) (solid : Bool) : PP3 K :=
  (project (m.invAct pt) solid).transformBy m
def posedProject2 (project : V2 K → Bool → PP2 K) (m : Iso2 K) (pt : V2 K) (solid : Bool) : PP2 K :=
  (project (m.invAct pt) solid).transformBy m
/-- `distance_to_point` -/
def posedDistance3 (distance : V3 K → Bool → K) (m : Iso3 K) (pt : V3 K) (solid : Bool) : K :=
  distance (m.invAct pt) solid
def posedDistance2 (distance : V2 K → Bool → K) (m : Iso2 K) (pt : V2 K) (solid : Bool) : K :=
  distance (m.invAct pt) solid
/-- `contains_point` -/
def posedContains3 (contains : V3 K → Bool) (m : Iso3 K) (pt : V3 K) : Bool := contains (m.invAct pt)
def posedContains2 (contains : V2 K → Bool) (m : Iso2 K) (pt : V2 K) : Bool := contains (m.invAct pt)

/-! ## Tetrahedron (`point_tetrahedron.rs`) -/

structure Tetrahedron (K : Type) where
  a : V3 K
  b : V3 K
  c : V3 K
  d : V3 K

/-- `TetrahedronPointLocation` -/
inductive TetLoc (K : Type) where
  | vertex (i : Nat)
  | edge (i : Nat) (b0 b1 : K)
  | face (i : Nat) (b0 b1 b2 : K)
  | solid

/-- result of the projection, or the code's `unimplemented!()` / `assert!` panic -/
inductive TetRes (K : Type) where
  | ok (p : PP3 K) (l : TetLoc K)
  | panic

/-- `check_edge`: `(dabc, dabd, Some(result))` -/
def tetCheckEdge (i : Nat) (a nabc nabd ap ab : V3 K) (ap_ab bp_ab : K) : K × K × Option (PP3 K × TetLoc K) :=
  let ab_ab := ap_ab - bp_ab
  let ap_x_ab := ap.cross ab
  let dabc := ap_x_ab.dot nabc
  let dabd := ap_x_ab.dot nabd
  if !(neq ab_ab 0) && decide (0 ≤ dabc) && decide (0 ≤ dabd) && decide (0 ≤ ap_ab) && decide (ap_ab ≤ ab_ab) then
    let u := ap_ab / ab_ab
    (dabc, dabd, some (⟨false, a.add (ab.smul u)⟩, TetLoc.edge i (1 - u) u))
  else (dabc, dabd, none)

/-- `check_face`: `none` = not this face (including a failed `try_normalize`); `some panic` = the `assert!(denom != 0.0)` -/
def tetCheckFace (i : Nat) (a b c ap bp cp ab ac ad : V3 K) (dabc dbca dacb : K) : Option (TetRes K) :=
  if decide (dabc < 0) && decide (dbca < 0) && decide (dacb < 0) then
    let n := ab.cross ac
    if n.dot ad * n.dot ap < 0 then
      let nrm := n.norm
      if nrm ≤ eps then none
      else
        let normal := n.sdiv nrm
        let vc := normal.dot (ap.cross bp)
        let va := normal.dot (bp.cross cp)
        let vb := normal.dot (cp.cross ap)
        let denom := va + vb + vc
        if neq denom 0 then some TetRes.panic
        else
          let inv := 1 / denom
          let b0 := va * inv; let b1 := vb * inv; let b2 := vc * inv
          some (TetRes.ok ⟨false, ((a.smul b0).add (b.smul b1)).add (c.smul b2)⟩ (TetLoc.face i b0 b1 b2))
    else none
  else none

/-- `Tetrahedron::project_local_point_and_get_location` -/
def Tetrahedron.projectLoc (s : Tetrahedron K) (pt : V3 K) (solid : Bool) : TetRes K :=
  let ab := s.b.sub s.a; let ac := s.c.sub s.a; let ad := s.d.sub s.a; let ap := pt.sub s.a
  let ap_ab := ap.dot ab; let ap_ac := ap.dot ac; let ap_ad := ap.dot ad
  if decide (ap_ab ≤ 0) && decide (ap_ac ≤ 0) && decide (ap_ad ≤ 0) then TetRes.ok ⟨false, s.a⟩ (TetLoc.vertex 0) else
  let bc := s.c.sub s.b; let bd := s.d.sub s.b; let bp := pt.sub s.b
  let bp_bc := bp.dot bc; let bp_bd := bp.dot bd; let bp_ab := bp.dot ab
  if decide (bp_bc ≤ 0) && decide (bp_bd ≤ 0) && decide (0 ≤ bp_ab) then TetRes.ok ⟨false, s.b⟩ (TetLoc.vertex 1) else
  let cd := s.d.sub s.c; let cp := pt.sub s.c
  let cp_ac := cp.dot ac; let cp_bc := cp.dot bc; let cp_cd := cp.dot cd
  if decide (cp_cd ≤ 0) && decide (0 ≤ cp_bc) && decide (0 ≤ cp_ac) then TetRes.ok ⟨false, s.c⟩ (TetLoc.vertex 2) else
  let dp := pt.sub s.d
  let dp_cd := dp.dot cd; let dp_bd := dp.dot bd; let dp_ad := dp.dot ad
  if decide (0 ≤ dp_ad) && decide (0 ≤ dp_bd) && decide (0 ≤ dp_cd) then TetRes.ok ⟨false, s.d⟩ (TetLoc.vertex 3) else
  let nabc := ab.cross ac
  let nabd := ab.cross ad
  let e0 := tetCheckEdge 0 s.a nabc nabd ap ab ap_ab bp_ab
  match e0.2.2 with
  | some r => TetRes.ok r.1 r.2
  | none =>
  let dabc := e0.1; let dabd := e0.2.1
  let nacd := ac.cross ad
  let e1 := tetCheckEdge 1 s.a nacd nabc.neg ap ac ap_ac cp_ac
  match e1.2.2 with
  | some r => TetRes.ok r.1 r.2
  | none =>
  let dacd := e1.1; let dacb := e1.2.1
  let e2 := tetCheckEdge 2 s.a nabd.neg nacd.neg ap ad ap_ad dp_ad
  match e2.2.2 with
  | some r => TetRes.ok r.1 r.2
  | none =>
  let dadb := e2.1; let dadc := e2.2.1
  let nbcd := bc.cross bd
  let e3 := tetCheckEdge 3 s.b nabc nbcd bp bc bp_bc cp_bc
  match e3.2.2 with
  | some r => TetRes.ok r.1 r.2
  | none =>
  let dbca := e3.1; let dbcd := e3.2.1
  let e4 := tetCheckEdge 4 s.b nbcd.neg nabd bp bd bp_bd dp_bd
  match e4.2.2 with
  | some r => TetRes.ok r.1 r.2
  | none =>
  let dbdc := e4.1; let dbda := e4.2.1
  let e5 := tetCheckEdge 5 s.c nacd nbcd cp cd cp_cd dp_cd
  match e5.2.2 with
  | some r => TetRes.ok r.1 r.2
  | none =>
  let dcda := e5.1; let dcdb := e5.2.1
  match tetCheckFace 0 s.a s.b s.c ap bp cp ab ac ad dabc dbca dacb with
  | some r => r
  | none =>
  match tetCheckFace 1 s.a s.b s.d ap bp dp ab ad ac dadb dabd dbda with
  | some r => r
  | none =>
  match tetCheckFace 2 s.a s.c s.d ap cp dp ac ad ab dacd dcda dadc with
  | some r => r
  | none =>
  match tetCheckFace 3 s.b s.c s.d bp cp dp bc bd ab.neg dbcd dcdb dbdc with
  | some r => r
  | none =>
  if !solid then TetRes.panic else TetRes.ok ⟨true, pt⟩ TetLoc.solid

end Model
