import ParryModel.C05.Model
/-!
# C05 — composite shapes: oriented `TriMesh` (pseudo-normal inside test) and 3-D `HeightField`

Literal transliterations (model leg, no Mathlib):

* `V3.angle`            — nalgebra `Matrix::angle` (`acos` is a parameter: `Num` has no inverse cosine; at `Float` it is libm `acos`);
* `Triangle3.normal?`   — `Triangle::normal` = `Unit::try_new(scaled_normal, DEFAULT_EPSILON)`;
* `computePseudoNormals`— `TriMesh::compute_pseudo_normals` (angle-weighted vertex normals, summed edge normals; the two hash
                           maps are association lists keyed by the sorted index pair — the sums are accumulated in triangle order);
* `trimeshLocate`       — the tail of `TriMesh::project_local_point_and_get_location_with_max_dist`: given the part chosen by the
                           best-first traversal (`fid`, an argument: the traversal itself is C07/C08), the triangle projection with its
                           location, then the pseudo-normal decision `is_inside = dpt · pn <= 0`;
* `hfTrianglesAt`, `hfTriangles`, `hfMapElements`, `hfProject`, `hfProjectMaxDist` — `HeightField::{triangles_at, triangles,
  map_elements_in_local_aabb}` and `PointQuery for HeightField`.
-/
namespace Model
namespace PM
variable {K : Type} [Num K]

/-! ## TriMesh pseudo-normals -/

/-- nalgebra `Matrix::angle` (real case): `acos(clamp(u·v / (|u| |v|), -1, 1))`, `0` when a norm is zero. -/
def V3.angle (acos : K → K) (u v : V3 K) : K :=
  let prod := u.dot v
  let n1 := u.norm
  let n2 := v.norm
  if neq n1 0 || neq n2 0 then 0
  else acos (nclamp (prod / (n1 * n2)) (-1) 1)

def triScaledNormal (t : Triangle3 K) : V3 K := (t.b.sub t.a).cross (t.c.sub t.a)

/-- `Triangle::normal`: `Unit::try_new(scaled_normal, f64::EPSILON)`. -/
def triNormal? (t : Triangle3 K) : Option (V3 K) :=
  let v := triScaledNormal t
  let sq := v.normSq
  let eps : K := lit 1 4503599627370496
  if eps * eps < sq then some (v.sdiv (Num.sqrt sq)) else none

structure Mesh (K : Type) where
  verts : Array (V3 K)
  idx : Array (Nat × Nat × Nat)

def Mesh.tri? (m : Mesh K) (f : Nat) : Option (Triangle3 K) := do
  let (i0, i1, i2) ← m.idx[f]?
  let a ← m.verts[i0]?
  let b ← m.verts[i1]?
  let c ← m.verts[i2]?
  pure ⟨a, b, c⟩

def sortedPair (a b : Nat) : Nat × Nat := if a ≤ b then (a, b) else (b, a)

/-- `*map.entry(k).or_insert_with(zeros) += n` -/
def edgeAdd (m : List ((Nat × Nat) × V3 K)) (k : Nat × Nat) (n : V3 K) : List ((Nat × Nat) × V3 K) :=
  match m with
  | [] => [(k, (V3.zero : V3 K).add n)]
  | (k', v) :: rest => if k' = k then (k', v.add n) :: rest else (k', v) :: edgeAdd rest k n

def edgeGet (m : List ((Nat × Nat) × V3 K)) (k : Nat × Nat) : V3 K :=
  match m with
  | [] => V3.zero
  | (k', v) :: rest => if k' = k then v else edgeGet rest k

structure PseudoNormals (K : Type) where
  vertexN : Array (V3 K)
  edgeN : Array (V3 K × V3 K × V3 K)

/-- the three incident angles of a triangle, as `compute_pseudo_normals` computes them -/
def triAngles (acos : K → K) (t : Triangle3 K) : K × K × K :=
  (V3.angle acos (t.b.sub t.a) (t.c.sub t.a),
   V3.angle acos (t.a.sub t.b) (t.c.sub t.b),
   V3.angle acos (t.b.sub t.c) (t.a.sub t.c))

/-- one iteration of the first loop of `compute_pseudo_normals`; `none` = index out of bounds (panic). -/
def pnStep (acos : K → K) (m : Mesh K) (st : Array (V3 K) × List ((Nat × Nat) × V3 K)) (f : Nat) :
    Option (Array (V3 K) × List ((Nat × Nat) × V3 K)) := do
  let (i0, i1, i2) ← m.idx[f]?
  let t ← m.tri? f
  match triNormal? t with
  | none => pure st
  | some n =>
    let (a1, a2, a3) := triAngles acos t
    let v0 ← st.1[i0]?
    let vs := st.1.setIfInBounds i0 (v0.add (n.smul a1))
    let v1 ← vs[i1]?
    let vs := vs.setIfInBounds i1 (v1.add (n.smul a2))
    let v2 ← vs[i2]?
    let vs := vs.setIfInBounds i2 (v2.add (n.smul a3))
    let es := edgeAdd st.2 (sortedPair i0 i1) n
    let es := edgeAdd es (sortedPair i0 i2) n
    let es := edgeAdd es (sortedPair i1 i2) n
    pure (vs, es)

def pnLoop (acos : K → K) (m : Mesh K) : List Nat → Array (V3 K) × List ((Nat × Nat) × V3 K) →
    Option (Array (V3 K) × List ((Nat × Nat) × V3 K))
  | [], st => some st
  | f :: fs, st => match pnStep acos m st f with
    | none => none
    | some st' => pnLoop acos m fs st'

/-- `TriMesh::compute_pseudo_normals` -/
def computePseudoNormals (acos : K → K) (m : Mesh K) : Option (PseudoNormals K) := do
  let (vs, es) ← pnLoop acos m (List.range m.idx.size) (Array.replicate m.verts.size V3.zero, [])
  let en := m.idx.map (fun (i0, i1, i2) =>
    (edgeGet es (sortedPair i0 i1), edgeGet es (sortedPair i1 i2), edgeGet es (sortedPair i2 i0)))
  pure ⟨vs, en⟩

/-- the pseudo-normal selected by the location (`None` = `.get()` out of range: the flag of the triangle is kept) -/
def pseudoNormalAt (m : Mesh K) (pn : PseudoNormals K) (fid : Nat) (t : Triangle3 K) (loc : TriLoc K) : Option (V3 K) :=
  match loc with
  | .face _ _ _ _ => some (triScaledNormal t)
  | .solid => some (triScaledNormal t)
  | .edge i _ _ => match pn.edgeN[fid]? with
    | none => none
    | some (e0, e1, e2) => some (if i = 0 then e0 else if i = 1 then e1 else e2)
  | .vertex i => match m.idx[fid]? with
    | none => none
    | some (i0, i1, i2) => pn.vertexN[if i = 0 then i0 else if i = 1 then i1 else i2]?

/-- the decision itself: `dpt.dot(&pseudo_normal) <= 0.0` -/
def insideBy (pt proj pn : V3 K) : Bool := decide ((pt.sub proj).dot pn ≤ 0)

/-- Tail of `TriMesh::project_local_point_and_get_location_with_max_dist` for an ORIENTED mesh with pseudo-normals `pn`
(`none` for a mesh without them), on the part `fid` returned by the best-first traversal. -/
def trimeshLocate (m : Mesh K) (pn : Option (PseudoNormals K)) (fid : Nat) (pt : V3 K) (solid : Bool) :
    Option (PP3 K × TriLoc K) := do
  let t ← m.tri? fid
  let (proj, loc) := t.projectLoc pt solid
  match pn with
  | none => pure (proj, loc)
  | some pn =>
    match pseudoNormalAt m pn fid t loc with
    | none => pure (proj, loc)
    | some n => pure (⟨insideBy pt proj.pt n, proj.pt⟩, loc)

/-- `..._with_max_dist`: the best-first search starts with `best_cost = max_dist`; the leaf is accepted when its weight
`|pt - proj| < max_dist`, or — `solid` and the triangle's own (tolerant) inside flag — by the visitor's early exit; the root
is not even visited when `max_dist / 2 >= max_dist`. -/
def trimeshLocateMaxDist (m : Mesh K) (pn : Option (PseudoNormals K)) (fid : Nat) (pt : V3 K) (solid : Bool) (maxDist : K) :
    Option (Option (PP3 K × TriLoc K)) := do
  let t ← m.tri? fid
  let r ← trimeshLocate m pn fid pt solid
  let own := (t.projectLoc pt solid).1
  if maxDist ≤ maxDist / two then pure none
  else if (solid && own.inside) || decide ((r.1.pt.sub pt).norm < maxDist) then pure (some r)
  else pure none

/-! ## HeightField (3-D) -/

/-- `heights` and `status` are column-major (`DMatrix`): entry `(i, j)` is at `i + j * nrows`. -/
structure HField (K : Type) where
  nr : Nat            -- heights.nrows()
  nc : Nat            -- heights.ncols()
  heights : Array K
  status : Array Nat  -- (nr-1) × (nc-1), bit 0 zig-zag, bit 1 left removed, bit 2 right removed
  scale : V3 K

namespace HField
def h? (f : HField K) (i j : Nat) : Option K := if i < f.nr ∧ j < f.nc then f.heights[i + j * f.nr]? else none
def st? (f : HField K) (i j : Nat) : Option Nat := if i < f.nr - 1 ∧ j < f.nc - 1 then f.status[i + j * (f.nr - 1)]? else none
def cellW (f : HField K) : K := 1 / ((lit (f.nc : Int) : K) - 1)
def cellH (f : HField K) : K := 1 / ((lit (f.nr : Int) : K) - 1)
def numTriangles (f : HField K) : Nat := (f.nr - 1) * (f.nc - 1) * 2
def triangleId (f : HField K) (i j : Nat) (left : Bool) : Nat :=
  let tid := j * (f.nr - 1) + i
  if left then tid else tid + f.numTriangles / 2
end HField

def zigzag (s : Nat) : Bool := s % 2 = 1
def leftRemoved (s : Nat) : Bool := (s / 2) % 2 = 1
def rightRemoved (s : Nat) : Bool := (s / 4) % 2 = 1

/-- the two triangles of a cell from its four (scaled) corners, shared by both enumerations -/
def cellTriangles (s : Nat) (p00 p10 p01 p11 : V3 K) : Option (Triangle3 K) × Option (Triangle3 K) :=
  (if leftRemoved s then none else some (if zigzag s then ⟨p00, p10, p11⟩ else ⟨p00, p10, p01⟩),
   if rightRemoved s then none else some (if zigzag s then ⟨p00, p11, p01⟩ else ⟨p10, p11, p01⟩))

/-- `HeightField::triangles_at(i, j)`; outer `none` = matrix index panic (cannot happen for a well-formed field). -/
def hfTrianglesAt (f : HField K) (i j : Nat) : Option (Option (Triangle3 K) × Option (Triangle3 K)) :=
  if f.nr - 1 ≤ i ∨ f.nc - 1 ≤ j then some (none, none) else do
  let s ← f.st? i j
  if leftRemoved s && rightRemoved s then pure (none, none) else
  let cw := f.cellW
  let ch := f.cellH
  let z0 := (lit (-1) 2 : K) + ch * (lit (i : Int))
  let z1 := (lit (-1) 2 : K) + ch * (lit ((i + 1 : Nat) : Int))
  let x0 := (lit (-1) 2 : K) + cw * (lit (j : Int))
  let x1 := (lit (-1) 2 : K) + cw * (lit ((j + 1 : Nat) : Int))
  let y00 ← f.h? i j
  let y10 ← f.h? (i + 1) j
  let y01 ← f.h? i (j + 1)
  let y11 ← f.h? (i + 1) (j + 1)
  let p00 := (⟨x0, y00, z0⟩ : V3 K).cmul f.scale
  let p10 := (⟨x0, y10, z1⟩ : V3 K).cmul f.scale
  let p01 := (⟨x1, y01, z0⟩ : V3 K).cmul f.scale
  let p11 := (⟨x1, y11, z1⟩ : V3 K).cmul f.scale
  pure (cellTriangles s p00 p10 p01 p11)

def optList {α} : Option α × Option α → List α
  | (some a, some b) => [a, b]
  | (some a, none) => [a]
  | (none, some b) => [b]
  | (none, none) => []

/-- `HeightField::triangles()`: column by column (`j` outer, `i` inner). -/
def hfTriangles (f : HField K) : Option (List (Triangle3 K)) :=
  (List.range (f.nc - 1)).foldlM (fun acc j =>
    (List.range (f.nr - 1)).foldlM (fun acc i => do
      let t ← hfTrianglesAt f i j
      pure (acc ++ optList t)) acc) []

/-- `PointQuery::project_local_point` for `HeightField` (the `solid` flag is ignored; every triangle is projected with `false`). -/
def hfProject (f : HField K) (pt : V3 K) : Option (PP3 K) := do
  let ts ← hfTriangles f
  let r := ts.foldl (fun (st : Option K × PP3 K) t =>
    let proj := t.project pt false
    let d := (proj.pt.sub pt).normSq
    match st.1 with
    | none => (some d, proj)
    | some s => if d < s then (some d, proj) else st) (none, ⟨false, pt⟩)
  pure r.2

/-- `quantize_floor`: `clamp(floor((val + 0.5) / cell), 0, n - 1) as usize` (`fl` = floor to an integer). -/
def quantFloor (fl : K → Int) (v cell : K) (n : Nat) : Nat :=
  let x := fl ((v + lit 1 2) / cell)
  if x ≤ 0 then 0 else if ((n - 1 : Nat) : Int) ≤ x then n - 1 else x.toNat
/-- `quantize_ceil`: `clamp(ceil((val + 0.5) / cell), 0, n) as usize`. -/
def quantCeil (ce : K → Int) (v cell : K) (n : Nat) : Nat :=
  let x := ce ((v + lit 1 2) / cell)
  if x ≤ 0 then 0 else if (n : Int) ≤ x then n else x.toNat

/-- body of the double loop of `map_elements_in_local_aabb` for the cell `(i, j)`. -/
def hfMapCell (f : HField K) (refMins refMaxs : V3 K) (i j : Nat) : Option (List (Nat × Triangle3 K)) := do
  let s ← f.st? i j
  if leftRemoved s && rightRemoved s then pure [] else
  let cw := f.cellW
  let ch := f.cellH
  let z0 := (lit (-1) 2 : K) + ch * (lit (i : Int))
  let z1 := z0 + ch
  let x0 := (lit (-1) 2 : K) + cw * (lit (j : Int))
  let x1 := x0 + cw
  let y00 ← f.h? i j
  let y10 ← f.h? (i + 1) j
  let y01 ← f.h? i (j + 1)
  let y11 ← f.h? (i + 1) (j + 1)
  if (refMaxs.y < y00 ∧ refMaxs.y < y10 ∧ refMaxs.y < y01 ∧ refMaxs.y < y11)
      ∨ (y00 < refMins.y ∧ y10 < refMins.y ∧ y01 < refMins.y ∧ y11 < refMins.y) then pure [] else
  let p00 := (⟨x0, y00, z0⟩ : V3 K).cmul f.scale
  let p10 := (⟨x0, y10, z1⟩ : V3 K).cmul f.scale
  let p01 := (⟨x1, y01, z0⟩ : V3 K).cmul f.scale
  let p11 := (⟨x1, y11, z1⟩ : V3 K).cmul f.scale
  let ts := cellTriangles s p00 p10 p01 p11
  pure ((match ts.1 with | some t => [(f.triangleId i j true, t)] | none => []) ++
        (match ts.2 with | some t => [(f.triangleId i j false, t)] | none => []))

def V3.cdiv (a b : V3 K) : V3 K := ⟨a.x / b.x, a.y / b.y, a.z / b.z⟩

/-- the cell range `(min_x, max_x, min_z, max_z)` of `map_elements_in_local_aabb`; `none` = early return. -/
def hfRange (fl ce : K → Int) (f : HField K) (mins maxs : V3 K) : Option (Nat × Nat × Nat × Nat) :=
  let refMins := V3.cdiv mins f.scale
  let refMaxs := V3.cdiv maxs f.scale
  if refMaxs.x ≤ lit (-1) 2 ∨ refMaxs.z ≤ lit (-1) 2 ∨ (lit 1 2 : K) ≤ refMins.x ∨ (lit 1 2 : K) ≤ refMins.z then none
  else some (quantFloor fl refMins.x f.cellW (f.nc - 1), quantCeil ce refMaxs.x f.cellW (f.nc - 1),
             quantFloor fl refMins.z f.cellH (f.nr - 1), quantCeil ce refMaxs.z f.cellH (f.nr - 1))

/-- `for j in lo..hi` as a list -/
def rangeL (lo hi : Nat) : List Nat := (List.range (hi - lo)).map (· + lo)

/-- `HeightField::map_elements_in_local_aabb`: the emitted `(triangle id, triangle)` sequence. -/
def hfMapElements (fl ce : K → Int) (f : HField K) (mins maxs : V3 K) : Option (List (Nat × Triangle3 K)) :=
  match hfRange fl ce f mins maxs with
  | none => some []
  | some (minX, maxX, minZ, maxZ) =>
    let refMins := V3.cdiv mins f.scale
    let refMaxs := V3.cdiv maxs f.scale
    (rangeL minX maxX).foldlM (fun acc j =>
      (rangeL minZ maxZ).foldlM (fun acc i => do
        let c ← hfMapCell f refMins refMaxs i j
        pure (acc ++ c)) acc) []

/-- `HeightField::project_local_point_with_max_dist`. -/
def hfProjectMaxDist (fl ce : K → Int) (f : HField K) (pt : V3 K) (solid : Bool) (maxDist : K) : Option (Option (PP3 K)) := do
  let r : V3 K := ⟨maxDist, maxDist, maxDist⟩
  let ts ← hfMapElements fl ce f (pt.sub r) (pt.add r)
  let res := ts.foldl (fun (st : Option K × Option (PP3 K)) (t : Nat × Triangle3 K) =>
    let proj := t.2.project pt solid
    let d := (proj.pt.sub pt).normSq
    let better := match st.1 with | none => true | some s => decide (d < s)
    if better then (some d, if Num.sqrt d ≤ maxDist then some proj else st.2) else st) (none, none)
  pure res.2

end PM
end Model
