import ParryModel.C05.Theorems1
import ParryModel.C05.Theorems2
import ParryModel.C05.Theorems3
import ParryModel.C05.Theorems4
import ParryModel.C05.Theorems5
import ParryModel.C05.Theorems6
import ParryModel.C05.Theorems7
import ParryModel.C05.Theorems8
import ParryModel.C05.Theorems9
import ParryModel.C05.Theorems10
import ParryModel.C05.Theorems11
import ParryModel.C05.Theorems12
import ParryModel.C05.Theorems13
import ParryModel.C05.Theorems14
import ParryModel.C05.Theorems15
import ParryModel.C05.Theorems16
import ParryModel.C05.Theorems17
import ParryModel.C05.Theorems18
/-!
# C05 property theorems (umbrella file)

* `Theorems1.lean` — segment, ball, half-space, Aabb/cuboid, 2-D triangle, default methods, posed forms, 3-D capsule, cylinder
  (the original 108 theorems, unchanged).
* `Theorems2.lean` — growth: 3-D triangle, cone, 2-D capsule, Aabb/cuboid feature ids, composite glue.
* `Theorems3.lean` — growth 2: the reported triangle location *contains* the projection (edge / face barycentric coordinates are
  non-negative, 2-D and 3-D), unconditional 2-D membership.
* `Theorems4.lean` — fu4: oriented-TriMesh pseudo-normal sign test (face / edge / vertex), HeightField cell tiling, cell-range
  completeness, triangle-id injectivity.
* `Theorems5.lean` — fu4: tetrahedron vertex regions (returned + optimal) and `check_edge` (sound + optimal).
* `Theorems6.lean` — fu4: `map_elements_in_local_aabb` loop structure (each cell of the range once), per-cell ids, y-cull soundness.
* `Theorems7.lean` — fu4: `compute_pseudo_normals` is the angle-weighted sum; convex-inside half for the model's own vertex normal.
* `Theorems8.lean` — fu4: nearest point on a height field (`project_local_point`, `_with_max_dist`), TriMesh query glue.
* `Theorems9.lean` — fu4: height-field cell triangles are non-degenerate; tetrahedron vertex c / d branches.
* `Theorems10.lean` — fu4: the edge pseudo-normals of `compute_pseudo_normals` are the sums of the normals of the faces sharing the edge.
* `Theorems11.lean` — fu4: every triangle of `HeightField::triangles()` is non-degenerate; nearest-point theorem for an actual field.
* `Theorems12.lean` — fu5: tetrahedron face regions (`check_face` sound / optimal / never for members / symmetric in the determinants).
* `Theorems13.lean` — fu5: the whole tetrahedron cascade: every vertex / edge / face answer is the nearest member; no assert; `OnSolid` only for `solid = true`.
* `Theorems14.lean` — fu5: tetrahedron members are fixed; interior points of a non-degenerate tetrahedron get `(true, pt)` / `OnSolid` (`solid = true`) or the documented `unimplemented!()` (`solid = false`); flag `true` only with `OnSolid`.
* `Theorems15.lean` — fu5: the tetrahedron's default methods (`Tet.lean`): no panic with `solid = true`, `contains` on interior points, distance never negative, max-dist, posed projection nearest in the posed tetrahedron.
* `Theorems16.lean` — fu5: local forms of the vertex pseudo-normal test for the model's own `compute_pseudo_normals` (only incident faces; inside at locally convex corners, outside at reflex corners / blunt normal cones).
* `Theorems17.lean` — fu5: tetrahedron `distance_to_local_point` / `_with_max_dist` against the set (distance to the tetrahedron; `None` iff the bound is below it).
* `Theorems18.lean` — fu5: converses `tet_edge_complete` / `tet_face_complete`: the edge and face tests of the tetrahedron cascade fire on the whole Voronoi region of their feature.
`./mkaudit C05` collects the public `theorem`s of every `Theorems*.lean`.
-/
