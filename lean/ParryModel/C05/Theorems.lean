import ParryModel.C05.Theorems1
import ParryModel.C05.Theorems2
/-!
# C05 property theorems (umbrella file)

* `Theorems1.lean` — segment, ball, half-space, Aabb/cuboid, 2-D triangle, default methods, posed forms, 3-D capsule, cylinder
  (the original 108 theorems, unchanged).
* `Theorems2.lean` — growth: 3-D triangle, cone, 2-D capsule, Aabb/cuboid feature ids, composite glue.
`./mkaudit C05` collects the public `theorem`s of every `Theorems*.lean`.
-/
