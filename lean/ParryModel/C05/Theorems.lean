import ParryModel.Field
import ParryModel.C05.Model
import ParryModel.C05.Lemmas
import ParryModel.C05.Tri2
set_option linter.style.haveILetI false
/-!
# C05 property theorems: point projection, for every linearly ordered field

All statements are about the model functions of `C05/Model.lean` at the lawful instance `fieldNum K sq`.
Specifications are the `Mem` predicates of `Shapes.lean`; `dsq p q = |p - q|²`.
For each shape: the returned point is a member (a boundary point when asked), no member is closer
(`∀ q, Mem q → |p - proj|² ≤ |p - q|²`), and `is_inside` is exact membership.
-/
namespace C05
open Model

variable {K : Type} [Field K] [LinearOrder K] [IsStrictOrderedRing K] (sq : K → K)

/-- squared distance (the specification's metric) -/
def dsq3 (p q : V3 K) : K := (p.x - q.x) * (p.x - q.x) + (p.y - q.y) * (p.y - q.y) + (p.z - q.z) * (p.z - q.z)
def dsq2 (p q : V2 K) : K := (p.x - q.x) * (p.x - q.x) + (p.y - q.y) * (p.y - q.y)

/-- `relative_eq!` as a predicate: equal, or absolutely / relatively within `ε = 2⁻⁵²` -/
def RelClose (a b : K) : Prop :=
  a = b ∨ |a - b| ≤ ((mkRat 1 4503599627370496 : ℚ) : K) ∨ |a - b| ≤ max |a| |b| * ((mkRat 1 4503599627370496 : ℚ) : K)

theorem relEq_iff (a b : K) :
    letI := fieldNum K sq
    relEq a b = true ↔ RelClose a b := by
  simp only [relEq, neq, eps, fieldNum_lit, fieldNum_nabs, RelClose]
  have hmax : (if |a| < |b| then |b| else |a|) = max |a| |b| := by
    split_ifs with h
    · exact (max_eq_right h.le).symm
    · exact (max_eq_left (not_lt.mp h)).symm
  rw [hmax]
  by_cases h1 : a = b
  · subst h1; simp
  · have : ¬ (a ≤ b ∧ b ≤ a) := fun ⟨x, y⟩ => h1 (le_antisymm x y)
    by_cases h2 : |a - b| ≤ ((mkRat 1 4503599627370496 : ℚ) : K)
    · simp [h2]
    · simp [h1, h2, this]

theorem fieldNum_sqrt (x : K) : @Num.sqrt K (fieldNum K sq) x = sq x := rfl

/-! ## Segment -/

/-- **membership**: the projection is a point `a + t (b - a)`, `t ∈ [0,1]` of the segment. -/
theorem seg3_project_mem (s : Segment3 K) (p : V3 K) :
    letI := fieldNum K sq
    s.Mem (s.projectLoc p).1.pt := by
  letI := fieldNum K sq
  simp only [Segment3.projectLoc, Segment3.Mem]
  split_ifs with h1 h2
  · exact ⟨0, le_refl _, zero_le_one, v3_ext (by simp [V3.add, V3.smul]) (by simp [V3.add, V3.smul]) (by simp [V3.add, V3.smul])⟩
  · exact ⟨1, zero_le_one, le_refl _, v3_ext (by simp [V3.add, V3.smul, V3.sub]) (by simp [V3.add, V3.smul, V3.sub]) (by simp [V3.add, V3.smul, V3.sub])⟩
  · push Not at h1 h2
    have hpos : 0 < (s.b.sub s.a).normSq := lt_trans h1 h2
    exact ⟨_, div_nonneg h1.le hpos.le, (div_le_one hpos).mpr h2.le, rfl⟩

/-- **variational inequality**: `⟨p - proj, q - proj⟩ ≤ 0` for every point `q` of the segment. -/
theorem seg3_project_variational (s : Segment3 K) (p q : V3 K) :
    letI := fieldNum K sq
    s.Mem q → ((p.sub (s.projectLoc p).1.pt).dot (q.sub (s.projectLoc p).1.pt)) ≤ 0 := by
  letI := fieldNum K sq
  intro hq
  obtain ⟨t, ht0, ht1, rfl⟩ := hq
  simp only [Segment3.projectLoc]
  split_ifs with h1 h2
  · simp only [V3.dot, V3.sub, V3.add, V3.smul, V3.normSq] at *
    nlinarith [mul_nonneg ht0 (neg_nonneg.mpr h1)]
  · simp only [V3.dot, V3.sub, V3.add, V3.smul, V3.normSq] at *
    nlinarith [mul_nonneg (sub_nonneg.mpr ht1) (sub_nonneg.mpr h2)]
  · push Not at h1 h2
    have hpos : 0 < (s.b.sub s.a).normSq := lt_trans h1 h2
    have hu := div_mul_cancel₀ ((s.b.sub s.a).dot (p.sub s.a)) (ne_of_gt hpos)
    generalize (s.b.sub s.a).dot (p.sub s.a) / (s.b.sub s.a).normSq = u at hu
    simp only [V3.dot, V3.sub, V3.add, V3.smul, V3.normSq] at *
    apply le_of_eq
    linear_combination (u - t) * hu

/-- **optimality**: no point of the segment is closer to `p` than the projection. -/
theorem seg3_project_optimal (s : Segment3 K) (p q : V3 K) :
    letI := fieldNum K sq
    s.Mem q → dsq3 p (s.projectLoc p).1.pt ≤ dsq3 p q := by
  letI := fieldNum K sq
  intro hq
  have h := seg3_project_variational sq s p q hq
  simp only [V3.dot, V3.sub] at h
  exact opt_of_var3 _ _ _ _ _ _ _ _ _ h

example : (⟨⟨0, 0, 0⟩, ⟨4, 0, 0⟩⟩ : Segment3 ℚ).Mem ⟨1, 0, 0⟩ :=
  ⟨1/4, by norm_num, by norm_num, by simp [V3.add, V3.sub, V3.smul]⟩

/-- **location**: the reported `SegmentPointLocation` reproduces the projection — `OnVertex(i)` is vertex `i`,
`OnEdge([b0,b1])` has non-negative barycentric coordinates summing to one with `proj = b0·a + b1·b`. -/
theorem seg3_location_sound (s : Segment3 K) (p : V3 K) :
    letI := fieldNum K sq
    match (s.projectLoc p).2 with
    | .vertex i => (i = 0 ∧ (s.projectLoc p).1.pt = s.a) ∨ (i = 1 ∧ (s.projectLoc p).1.pt = s.b)
    | .edge b0 b1 => 0 ≤ b0 ∧ 0 ≤ b1 ∧ b0 + b1 = 1 ∧ (s.projectLoc p).1.pt = (s.a.smul b0).add (s.b.smul b1) := by
  letI := fieldNum K sq
  simp only [Segment3.projectLoc]
  split_ifs with h1 h2
  · simp
  · simp
  · push Not at h1 h2
    have hpos : 0 < (s.b.sub s.a).normSq := lt_trans h1 h2
    have hu0 : 0 ≤ (s.b.sub s.a).dot (p.sub s.a) / (s.b.sub s.a).normSq := div_nonneg h1.le hpos.le
    have hu1 : (s.b.sub s.a).dot (p.sub s.a) / (s.b.sub s.a).normSq ≤ 1 := (div_le_one hpos).mpr h2.le
    refine ⟨by linarith, hu0, by ring, ?_⟩
    generalize (s.b.sub s.a).dot (p.sub s.a) / (s.b.sub s.a).normSq = u
    apply v3_ext <;> simp only [V3.add, V3.smul, V3.sub] <;> ring

/-- **inside flag, exact part**: a point of the segment is its own projection and is reported inside. -/
theorem seg3_inside_of_mem (s : Segment3 K) (p : V3 K) :
    letI := fieldNum K sq
    s.Mem p → (s.projectLoc p).1.pt = p ∧ (s.projectLoc p).1.inside = true := by
  letI := fieldNum K sq
  intro hp
  have h := seg3_project_optimal sq s p p hp
  have hpt : (@Segment3.projectLoc K (fieldNum K sq) s p).1.pt = p := by
    simp only [dsq3] at h
    have h0 : (p.x - p.x) * (p.x - p.x) + (p.y - p.y) * (p.y - p.y) + (p.z - p.z) * (p.z - p.z) = (0 : K) := by ring
    rw [h0] at h
    obtain ⟨hx, hy, hz⟩ := sumsq3_eq_zero h
    exact (v3_ext (by linarith) (by linarith) (by linarith)).symm
  refine ⟨hpt, ?_⟩
  have hin : (@Segment3.projectLoc K (fieldNum K sq) s p).1.inside
      = @V3.relEq K (fieldNum K sq) (@Segment3.projectLoc K (fieldNum K sq) s p).1.pt p := by
    simp only [Segment3.projectLoc]
    split_ifs <;> rfl
  rw [hin, hpt]
  simp [V3.relEq, relEq, neq]

/-- **inside flag, tolerance part**: `is_inside` is `relative_eq!(proj, pt)` — true exactly when every coordinate of
the projection is within `ε` (absolute or relative) of the query point. -/
theorem seg3_inside_iff_close (s : Segment3 K) (p : V3 K) :
    letI := fieldNum K sq
    (s.projectLoc p).1.inside = true ↔
      (RelClose (s.projectLoc p).1.pt.x p.x ∧ RelClose (s.projectLoc p).1.pt.y p.y ∧ RelClose (s.projectLoc p).1.pt.z p.z) := by
  letI := fieldNum K sq
  have hin : (@Segment3.projectLoc K (fieldNum K sq) s p).1.inside
      = @V3.relEq K (fieldNum K sq) (@Segment3.projectLoc K (fieldNum K sq) s p).1.pt p := by
    simp only [Segment3.projectLoc]
    split_ifs <;> rfl
  rw [hin]
  simp only [V3.relEq, Bool.and_eq_true, relEq_iff, and_assoc]

/-! ## Ball (model = corrected behaviour at the centre, see fixes/C05-ball-center-nan.diff) -/

/-- **inside flag**: `is_inside ⇔ |p|² ≤ r²`, for both `solid` flags and also at the centre. -/
theorem ball3_inside_iff (s : Ball K) (p : V3 K) (solid : Bool) :
    letI := fieldNum K sq
    (s.project3 p solid).inside = true ↔ s.Mem3 p := by
  letI := fieldNum K sq
  simp only [Ball.project3, Ball.Mem3]
  split_ifs <;> simp_all

/-- `contains_local_point ⇔ Mem` -/
theorem ball3_contains_iff (s : Ball K) (p : V3 K) :
    letI := fieldNum K sq
    s.contains3 p = true ↔ s.Mem3 p := by
  simp [Ball.contains3, Ball.Mem3]

/-- key computation: off the `solid ∧ inside` branch the projection is on the sphere and `|p - proj|² = (|p| - r)²`. -/
private theorem ball3_core (hs : LawfulSqrt sq) (s : Ball K) (p : V3 K) (solid : Bool) :
    letI := fieldNum K sq
    (solid = false ∨ ¬ s.Mem3 p) →
      (s.project3 p solid).pt.normSq = s.r * s.r ∧
      dsq3 p (s.project3 p solid).pt = (sq p.normSq - s.r) * (sq p.normSq - s.r) := by
  letI := fieldNum K sq
  intro h
  have hnn : 0 ≤ p.normSq := by
    simp only [V3.normSq, V3.dot]; nlinarith [mul_self_nonneg p.x, mul_self_nonneg p.y, mul_self_nonneg p.z]
  have hd2 := hs.sq_mul _ hnn
  have hd0 := hs.nonneg _ hnn
  simp only [Ball.project3, Ball.Mem3] at *
  split_ifs with c1 c2
  · simp at c1; rcases h with h | h
    · simp [h] at c1
    · exact absurd c1.1 h
  · simp only [neq, Bool.and_eq_true, decide_eq_true_eq] at c2
    have hz : p.normSq = 0 := le_antisymm c2.1 c2.2
    have hd : sq p.normSq = 0 := by
      have : sq p.normSq * sq p.normSq = 0 := by rw [hd2, hz]
      exact mul_self_eq_zero.mp this
    simp only [V3.normSq, V3.dot] at hz
    obtain ⟨hx, hy, hz'⟩ := sumsq3_eq_zero (le_of_eq hz)
    refine ⟨by simp [V3.normSq, V3.dot], ?_⟩
    rw [hd]; simp only [dsq3, hx, hy, hz']; ring
  · have hne : p.normSq ≠ 0 := by
      intro h0; apply c2; simp [neq, h0]
    have hdne : sq p.normSq ≠ 0 := by
      intro h0; rw [h0] at hd2; exact hne (by linarith)
    have hk := div_mul_cancel₀ s.r hdne
    generalize s.r / sq p.normSq = k at hk
    generalize sq p.normSq = d at *
    simp only [V3.normSq, V3.dot, V3.smul, dsq3] at *
    refine ⟨?_, ?_⟩
    · linear_combination (k * k) * (-hd2) + (k * d + s.r) * hk
    · linear_combination ((1 - k) * (1 - k)) * (-hd2) - (2 * d - k * d - s.r) * hk

/-- **boundary**: when `solid = false` or the point is outside, the projection lies on the sphere `|x|² = r²`. -/
theorem ball3_project_on_sphere (hs : LawfulSqrt sq) (s : Ball K) (p : V3 K) (solid : Bool) :
    letI := fieldNum K sq
    (solid = false ∨ ¬ s.Mem3 p) → (s.project3 p solid).pt.normSq = s.r * s.r :=
  fun h => (ball3_core sq hs s p solid h).1

/-- **membership**: the projection is a point of the ball. -/
theorem ball3_project_mem (hs : LawfulSqrt sq) (s : Ball K) (p : V3 K) (solid : Bool) :
    letI := fieldNum K sq
    s.Mem3 (s.project3 p solid).pt := by
  letI := fieldNum K sq
  by_cases h : solid = false ∨ ¬ s.Mem3 p
  · exact le_of_eq (ball3_project_on_sphere sq hs s p solid h)
  · push Not at h
    have h1 : solid = true := by simpa using h.1
    have h2 := h.2
    simp only [Ball.project3, Ball.Mem3] at *
    simp [h1, h2]

/-- **optimality w.r.t. the sphere** (both flags, inside or outside): no point of the sphere is closer than the projection. -/
theorem ball3_project_optimal_boundary (hs : LawfulSqrt sq) (s : Ball K) (p q : V3 K) (solid : Bool) :
    letI := fieldNum K sq
    0 ≤ s.r → q.normSq = s.r * s.r → dsq3 p (s.project3 p solid).pt ≤ dsq3 p q := by
  letI := fieldNum K sq
  intro hr hq
  by_cases h : solid = false ∨ ¬ s.Mem3 p
  · rw [(ball3_core sq hs s p solid h).2]
    have hnn : 0 ≤ p.normSq := by
      simp only [V3.normSq, V3.dot]; nlinarith [mul_self_nonneg p.x, mul_self_nonneg p.y, mul_self_nonneg p.z]
    have hd2 := hs.sq_mul _ hnn
    have hd0 := hs.nonneg _ hnn
    have hdot := dot_le3 p.x p.y p.z q.x q.y q.z (sq p.normSq) s.r (by simpa [V3.normSq, V3.dot] using le_of_eq hd2.symm)
      (by simpa [V3.normSq, V3.dot] using le_of_eq hq) hd0 hr
    generalize sq p.normSq = d at *
    simp only [V3.normSq, V3.dot, dsq3] at *
    nlinarith
  · push Not at h
    have h1 : solid = true := by simpa using h.1
    have h2 := h.2
    have : (@Ball.project3 K (fieldNum K sq) s p solid).pt = p := by
      simp only [Ball.project3, Ball.Mem3] at *
      simp [h1, h2]
    rw [this]
    simp only [dsq3]
    nlinarith [mul_self_nonneg (p.x - q.x), mul_self_nonneg (p.y - q.y), mul_self_nonneg (p.z - q.z)]

/-- **optimality w.r.t. the solid ball**: for `solid = true`, or for an outside point, no point of the ball is closer. -/
theorem ball3_project_optimal (hs : LawfulSqrt sq) (s : Ball K) (p q : V3 K) (solid : Bool) :
    letI := fieldNum K sq
    0 ≤ s.r → s.Mem3 q → (solid = true ∨ ¬ s.Mem3 p) → dsq3 p (s.project3 p solid).pt ≤ dsq3 p q := by
  letI := fieldNum K sq
  intro hr hq hc
  by_cases h2 : s.Mem3 p
  · have h1 : solid = true := by rcases hc with h | h; exact h; exact absurd h2 h
    have : (@Ball.project3 K (fieldNum K sq) s p solid).pt = p := by
      simp only [Ball.project3, Ball.Mem3] at *
      simp [h1, h2]
    rw [this]
    simp only [dsq3]
    nlinarith [mul_self_nonneg (p.x - q.x), mul_self_nonneg (p.y - q.y), mul_self_nonneg (p.z - q.z)]
  · rw [(ball3_core sq hs s p solid (Or.inr h2)).2]
    have hnn : 0 ≤ p.normSq := by
      simp only [V3.normSq, V3.dot]; nlinarith [mul_self_nonneg p.x, mul_self_nonneg p.y, mul_self_nonneg p.z]
    have hd2 := hs.sq_mul _ hnn
    have hd0 := hs.nonneg _ hnn
    have hdot := dot_le3 p.x p.y p.z q.x q.y q.z (sq p.normSq) s.r (by simpa [V3.normSq, V3.dot] using le_of_eq hd2.symm)
      (by simpa [Ball.Mem3, V3.normSq, V3.dot] using hq) hd0 hr
    have hrd : s.r ≤ sq p.normSq := by
      apply le_of_mul_self_le hd0
      rw [hd2]; simp only [Ball.Mem3] at h2; exact le_of_lt (not_le.mp h2)
    have hqn : 0 ≤ q.normSq := by
      simp only [V3.normSq, V3.dot]; nlinarith [mul_self_nonneg q.x, mul_self_nonneg q.y, mul_self_nonneg q.z]
    have he2 := hs.sq_mul _ hqn
    have he0 := hs.nonneg _ hqn
    have her : sq q.normSq ≤ s.r := by
      apply le_of_mul_self_le hr
      rw [he2]; exact hq
    have hdot' := dot_le3 p.x p.y p.z q.x q.y q.z (sq p.normSq) (sq q.normSq)
      (by simpa [V3.normSq, V3.dot] using le_of_eq hd2.symm) (by simpa [V3.normSq, V3.dot] using le_of_eq he2.symm) hd0 he0
    generalize sq p.normSq = d at *
    generalize sq q.normSq = e at *
    simp only [Ball.Mem3, V3.normSq, V3.dot, dsq3] at *
    nlinarith [mul_nonneg (sub_nonneg.2 her) (by linarith : 0 ≤ 2 * d - e - s.r)]

example : (⟨2⟩ : Ball ℚ).Mem3 ⟨1, 1, 1⟩ ∧ ¬ (⟨2⟩ : Ball ℚ).Mem3 ⟨2, 1, 0⟩ := by
  simp only [Ball.Mem3, V3.normSq, V3.dot]; norm_num

/-- **distance**: `distance_to_local_point` has the magnitude `|p - proj|` and is negative exactly for interior
points with `solid = false`; it is `0` for inside points when `solid = true`. -/
theorem ball3_distance_spec (hs : LawfulSqrt sq) (s : Ball K) (p : V3 K) (solid : Bool) :
    letI := fieldNum K sq
    0 ≤ s.r →
      s.distance3 p solid * s.distance3 p solid = dsq3 p (s.project3 p solid).pt ∧
      (s.distance3 p solid < 0 ↔ (solid = false ∧ p.normSq < s.r * s.r)) := by
  letI := fieldNum K sq
  intro hr
  have hnn : 0 ≤ p.normSq := by
    simp only [V3.normSq, V3.dot]; nlinarith [mul_self_nonneg p.x, mul_self_nonneg p.y, mul_self_nonneg p.z]
  have hd2 := hs.sq_mul _ hnn
  have hd0 := hs.nonneg _ hnn
  have hlt : sq p.normSq - s.r < 0 ↔ p.normSq < s.r * s.r := by
    constructor
    · intro h; rw [← hd2]; nlinarith
    · intro h; rw [← hd2] at h; by_contra hc; push Not at hc; nlinarith
  by_cases h : solid = false ∨ ¬ s.Mem3 p
  · have e := (ball3_core sq hs s p solid h).2
    rw [e]
    simp only [Ball.distance3, V3.norm, fieldNum_sqrt]
    rcases h with h | h
    · subst h; simpa using hlt
    · have h3 : ¬ (sq p.normSq - s.r < 0) := by
        rw [hlt]; simp only [Ball.Mem3] at h; push Not at h ⊢; exact h.le
      have h4 : ¬ (p.normSq < s.r * s.r) := by rwa [← hlt]
      simp [h3, h4]
  · push Not at h
    have h1 : solid = true := by simpa using h.1
    have h2 := h.2
    have hp : (@Ball.project3 K (fieldNum K sq) s p solid).pt = p := by
      simp only [Ball.project3, Ball.Mem3] at *
      simp [h1, h2]
    rw [hp]
    subst h1
    simp only [Ball.distance3, V3.norm, Ball.Mem3, fieldNum_sqrt] at *
    by_cases h3 : sq p.normSq - s.r < 0
    · simp [h3, dsq3]
    · have h5 : sq p.normSq - s.r = 0 := by
        have h6 : ¬ (p.normSq < s.r * s.r) := by rwa [← hlt]
        have h7 : p.normSq = s.r * s.r := le_antisymm h2 (not_lt.mp h6)
        have h4 : sq p.normSq * sq p.normSq = s.r * s.r := by rw [hd2, h7]
        have := le_of_mul_self_le hr (le_of_eq h4)
        push Not at h3; linarith
      simp [h5, dsq3]

/-! ## HalfSpace `{x | n·x ≤ 0}` with a unit normal -/

/-- **inside flag** -/
theorem hs3_inside_iff (s : HalfSpace3 K) (p : V3 K) (solid : Bool) :
    letI := fieldNum K sq
    (s.project p solid).inside = true ↔ s.Mem p := by
  letI := fieldNum K sq
  simp only [HalfSpace3.project, HalfSpace3.Mem]
  split_ifs <;> simp_all

theorem hs3_contains_iff (s : HalfSpace3 K) (p : V3 K) :
    letI := fieldNum K sq
    s.contains p = true ↔ s.Mem p := by
  simp [HalfSpace3.contains, HalfSpace3.Mem]

/-- **boundary**: when `solid = false` or the point is outside, the projection is on the plane `n·x = 0`. -/
theorem hs3_project_on_plane (s : HalfSpace3 K) (p : V3 K) (solid : Bool) :
    letI := fieldNum K sq
    s.n.normSq = 1 → (solid = false ∨ ¬ s.Mem p) → s.n.dot (s.project p solid).pt = 0 := by
  letI := fieldNum K sq
  intro hn h
  simp only [HalfSpace3.project, HalfSpace3.Mem] at *
  split_ifs with c
  · simp at c; rcases h with h | h
    · simp [h] at c
    · exact absurd c.1 h
  · simp only [V3.dot, V3.add, V3.smul, V3.neg, V3.normSq] at *
    linear_combination (-(s.n.x * p.x + s.n.y * p.y + s.n.z * p.z)) * hn

/-- **membership** -/
theorem hs3_project_mem (s : HalfSpace3 K) (p : V3 K) (solid : Bool) :
    letI := fieldNum K sq
    s.n.normSq = 1 → s.Mem (s.project p solid).pt := by
  letI := fieldNum K sq
  intro hn
  by_cases h : solid = false ∨ ¬ s.Mem p
  · exact le_of_eq (hs3_project_on_plane sq s p solid hn h)
  · push Not at h
    have h1 : solid = true := by simpa using h.1
    have h2 := h.2
    simp only [HalfSpace3.project, HalfSpace3.Mem] at *
    simp [h1, h2]

/-- **optimality w.r.t. the boundary plane** (both flags) -/
theorem hs3_project_optimal_boundary (s : HalfSpace3 K) (p q : V3 K) (solid : Bool) :
    letI := fieldNum K sq
    s.n.normSq = 1 → s.n.dot q = 0 → dsq3 p (s.project p solid).pt ≤ dsq3 p q := by
  letI := fieldNum K sq
  intro hn hq
  simp only [HalfSpace3.project]
  split_ifs with c
  · simp only [dsq3]
    nlinarith [mul_self_nonneg (p.x - q.x), mul_self_nonneg (p.y - q.y), mul_self_nonneg (p.z - q.z)]
  · apply opt_of_var3
    simp only [V3.dot, V3.add, V3.smul, V3.neg, V3.normSq] at *
    apply le_of_eq
    linear_combination ((s.n.x * p.x + s.n.y * p.y + s.n.z * p.z)^2) * hn
      + (s.n.x * p.x + s.n.y * p.y + s.n.z * p.z) * hq

/-- **optimality w.r.t. the half-space**: for `solid = true`, or for an outside point, no member is closer. -/
theorem hs3_project_optimal (s : HalfSpace3 K) (p q : V3 K) (solid : Bool) :
    letI := fieldNum K sq
    s.n.normSq = 1 → s.Mem q → (solid = true ∨ ¬ s.Mem p) → dsq3 p (s.project p solid).pt ≤ dsq3 p q := by
  letI := fieldNum K sq
  intro hn hq hc
  simp only [HalfSpace3.project, HalfSpace3.Mem] at *
  split_ifs with c
  · simp only [dsq3]
    nlinarith [mul_self_nonneg (p.x - q.x), mul_self_nonneg (p.y - q.y), mul_self_nonneg (p.z - q.z)]
  · have hd : 0 < s.n.dot p := by
      rcases hc with h | h
      · simp [h] at c; exact c
      · exact not_le.mp h
    apply opt_of_var3
    simp only [V3.dot, V3.add, V3.smul, V3.neg, V3.normSq] at *
    have e : (p.x - (p.x + -s.n.x * (s.n.x * p.x + s.n.y * p.y + s.n.z * p.z))) * (q.x - (p.x + -s.n.x * (s.n.x * p.x + s.n.y * p.y + s.n.z * p.z)))
        + (p.y - (p.y + -s.n.y * (s.n.x * p.x + s.n.y * p.y + s.n.z * p.z))) * (q.y - (p.y + -s.n.y * (s.n.x * p.x + s.n.y * p.y + s.n.z * p.z)))
        + (p.z - (p.z + -s.n.z * (s.n.x * p.x + s.n.y * p.y + s.n.z * p.z))) * (q.z - (p.z + -s.n.z * (s.n.x * p.x + s.n.y * p.y + s.n.z * p.z)))
        = (s.n.x * p.x + s.n.y * p.y + s.n.z * p.z) * (s.n.x * q.x + s.n.y * q.y + s.n.z * q.z) := by
      linear_combination ((s.n.x * p.x + s.n.y * p.y + s.n.z * p.z)^2) * hn
    rw [e]
    exact mul_nonpos_of_nonneg_of_nonpos hd.le hq

example : (⟨⟨3/5, 4/5, 0⟩⟩ : HalfSpace3 ℚ).n.normSq = 1 ∧ (⟨⟨3/5, 4/5, 0⟩⟩ : HalfSpace3 ℚ).Mem ⟨-1, 0, 7⟩
    ∧ ¬ (⟨⟨3/5, 4/5, 0⟩⟩ : HalfSpace3 ℚ).Mem ⟨1, 1, 0⟩ := by
  simp only [HalfSpace3.Mem, V3.normSq, V3.dot]; norm_num

/-- **distance**: magnitude `|p - proj|`, negative exactly for strictly interior points with `solid = false`. -/
theorem hs3_distance_spec (s : HalfSpace3 K) (p : V3 K) (solid : Bool) :
    letI := fieldNum K sq
    s.n.normSq = 1 →
      s.distance p solid * s.distance p solid = dsq3 p (s.project p solid).pt ∧
      (s.distance p solid < 0 ↔ (solid = false ∧ s.n.dot p < 0)) := by
  letI := fieldNum K sq
  intro hn
  simp only [HalfSpace3.distance, HalfSpace3.project]
  have key : ∀ d : K, d = s.n.dot p → dsq3 p (p.add (s.n.neg.smul d)) = d * d := by
    intro d hd
    simp only [V3.dot, V3.add, V3.smul, V3.neg, V3.normSq, dsq3] at *
    linear_combination (d * d) * hn
  cases solid
  · simp [key _ rfl]
  · by_cases h : s.n.dot p < 0
    · have h' : s.n.dot p ≤ 0 := h.le
      simp [h, h', dsq3]
    · by_cases h2 : s.n.dot p ≤ 0
      · have h3 : s.n.dot p = 0 := le_antisymm h2 (not_lt.mp h)
        simp [h, h2, dsq3, h3]
      · simp [h, h2, key _ rfl]

/-! ## Aabb / Cuboid -/

/-- the box `[lo, hi]` as a set, its boundary, and well-formedness -/
def BoxMem3 (lo hi x : V3 K) : Prop := (lo.x ≤ x.x ∧ x.x ≤ hi.x) ∧ (lo.y ≤ x.y ∧ x.y ≤ hi.y) ∧ (lo.z ≤ x.z ∧ x.z ≤ hi.z)
def BoxBnd3 (lo hi x : V3 K) : Prop :=
  BoxMem3 lo hi x ∧ (x.x = lo.x ∨ x.x = hi.x ∨ x.y = lo.y ∨ x.y = hi.y ∨ x.z = lo.z ∨ x.z = hi.z)
def BoxOk3 (lo hi : V3 K) : Prop := lo.x ≤ hi.x ∧ lo.y ≤ hi.y ∧ lo.z ≤ hi.z

private theorem aabb3_shift_zero (lo hi p : V3 K) (hok : BoxOk3 lo hi) :
    letI := fieldNum K sq
    (((lo.sub p).sup V3.zero).sub ((p.sub hi).sup V3.zero)).isZero = true ↔ BoxMem3 lo hi p := by
  letI := fieldNum K sq
  simp only [V3.isZero, V3.sub, V3.sup, V3.zero, fieldNum_nmax, Bool.and_eq_true, neq_zero_iff, BoxMem3]
  rw [(clamp_shift lo.x hi.x p.x hok.1).1, (clamp_shift lo.y hi.y p.y hok.2.1).1, (clamp_shift lo.z hi.z p.z hok.2.2).1]
  tauto

/-- the three branches of `Aabb::do_project_local_point`, selected by exact membership -/
private theorem aabb3_branch_out (lo hi p : V3 K) (solid : Bool) (hok : BoxOk3 lo hi) (hm : ¬ BoxMem3 lo hi p) :
    letI := fieldNum K sq
    aabbProject3 lo hi p solid = ⟨false, p.add (((lo.sub p).sup V3.zero).sub ((p.sub hi).sup V3.zero))⟩ := by
  letI := fieldNum K sq
  have hz := aabb3_shift_zero sq lo hi p hok
  have hZ : (((lo.sub p).sup V3.zero).sub ((p.sub hi).sup V3.zero)).isZero = false := by
    rw [← Bool.not_eq_true]; exact fun h => hm (hz.mp h)
  simp only [aabbProject3, aabbDoProject3, hZ, Bool.not_false, if_true]
private theorem aabb3_branch_solid (lo hi p : V3 K) (hok : BoxOk3 lo hi) (hm : BoxMem3 lo hi p) :
    letI := fieldNum K sq
    aabbProject3 lo hi p true = ⟨true, p⟩ := by
  letI := fieldNum K sq
  have hZ := (aabb3_shift_zero sq lo hi p hok).mpr hm
  simp [aabbProject3, aabbDoProject3, hZ]
private theorem aabb3_branch_hollow (lo hi p : V3 K) (hok : BoxOk3 lo hi) (hm : BoxMem3 lo hi p) :
    letI := fieldNum K sq
    (aabbProject3 lo hi p false).inside = true := by
  letI := fieldNum K sq
  have hZ := (aabb3_shift_zero sq lo hi p hok).mpr hm
  simp [aabbProject3, aabbDoProject3, hZ]

/-- **inside flag** (`Aabb::project_local_point`) -/
theorem aabb3_inside_iff (lo hi p : V3 K) (solid : Bool) (hok : BoxOk3 lo hi) :
    letI := fieldNum K sq
    (aabbProject3 lo hi p solid).inside = true ↔ BoxMem3 lo hi p := by
  letI := fieldNum K sq
  by_cases hm : BoxMem3 lo hi p
  · cases solid
    · simp [aabb3_branch_hollow sq lo hi p hok hm, hm]
    · simp [aabb3_branch_solid sq lo hi p hok hm, hm]
  · simp [aabb3_branch_out sq lo hi p solid hok hm, hm]

/-- for an outside point, or with `solid = true`: membership, boundary, and the variational inequality -/
private theorem aabb3_solid_core (lo hi p : V3 K) (solid : Bool) (hok : BoxOk3 lo hi)
    (hc : solid = true ∨ ¬ BoxMem3 lo hi p) :
    letI := fieldNum K sq
    BoxMem3 lo hi (aabbProject3 lo hi p solid).pt ∧
    (¬ BoxMem3 lo hi p → BoxBnd3 lo hi (aabbProject3 lo hi p solid).pt) ∧
    ∀ q, BoxMem3 lo hi q → ((p.sub (aabbProject3 lo hi p solid).pt).dot (q.sub (aabbProject3 lo hi p solid).pt)) ≤ 0 := by
  letI := fieldNum K sq
  obtain ⟨x1, x2, x3, x4⟩ := clamp_shift lo.x hi.x p.x hok.1
  obtain ⟨y1, y2, y3, y4⟩ := clamp_shift lo.y hi.y p.y hok.2.1
  obtain ⟨z1, z2, z3, z4⟩ := clamp_shift lo.z hi.z p.z hok.2.2
  by_cases hm : BoxMem3 lo hi p
  · have hs : solid = true := by rcases hc with h | h; exact h; exact absurd hm h
    subst hs
    rw [aabb3_branch_solid sq lo hi p hok hm]
    refine ⟨hm, fun h => absurd hm h, ?_⟩
    intro q _
    simp [V3.dot, V3.sub]
  · rw [aabb3_branch_out sq lo hi p solid hok hm]
    simp only [V3.sub, V3.sup, V3.zero, V3.add, fieldNum_nmax, V3.dot, BoxMem3, BoxBnd3]
    refine ⟨⟨⟨x2, x3⟩, ⟨y2, y3⟩, ⟨z2, z3⟩⟩, fun _ => ⟨⟨⟨x2, x3⟩, ⟨y2, y3⟩, ⟨z2, z3⟩⟩, ?_⟩, ?_⟩
    · -- some coordinate is outside its interval, and is clamped onto an end
      simp only [BoxMem3] at hm
      by_contra hcon
      push Not at hcon
      apply hm
      have hx : lo.x ≤ p.x ∧ p.x ≤ hi.x := by
        rcases lt_or_ge p.x lo.x with h | h
        · exfalso; apply hcon.1; rw [max_eq_left (by linarith), max_eq_right (by linarith)]; ring
        · rcases lt_or_ge hi.x p.x with h' | h'
          · exfalso; apply hcon.2.1; rw [max_eq_right (by linarith), max_eq_left (by linarith)]; ring
          · exact ⟨h, h'⟩
      have hy : lo.y ≤ p.y ∧ p.y ≤ hi.y := by
        rcases lt_or_ge p.y lo.y with h | h
        · exfalso; apply hcon.2.2.1; rw [max_eq_left (by linarith), max_eq_right (by linarith)]; ring
        · rcases lt_or_ge hi.y p.y with h' | h'
          · exfalso; apply hcon.2.2.2.1; rw [max_eq_right (by linarith), max_eq_left (by linarith)]; ring
          · exact ⟨h, h'⟩
      have hz' : lo.z ≤ p.z ∧ p.z ≤ hi.z := by
        rcases lt_or_ge p.z lo.z with h | h
        · exfalso; apply hcon.2.2.2.2.1; rw [max_eq_left (by linarith), max_eq_right (by linarith)]; ring
        · rcases lt_or_ge hi.z p.z with h' | h'
          · exfalso; apply hcon.2.2.2.2.2; rw [max_eq_right (by linarith), max_eq_left (by linarith)]; ring
          · exact ⟨h, h'⟩
      exact ⟨hx, hy, hz'⟩
    · intro q ⟨⟨qx1, qx2⟩, ⟨qy1, qy2⟩, ⟨qz1, qz2⟩⟩
      have := x4 q.x qx1 qx2; have := y4 q.y qy1 qy2; have := z4 q.z qz1 qz2
      linarith

private theorem aabbStep_eq (mp pm : K) (i : Nat) (st : BestSt K) :
    letI := fieldNum K sq
    aabbStep mp pm i st =
      (if (match st.1 with | none => true | some b => decide (b < max mp pm)) = true
        then (some (max mp pm), decide (pm ≤ mp), i) else st) := by
  letI := fieldNum K sq
  unfold aabbStep
  by_cases h : mp < pm
  · simp only [h, if_true, max_eq_right h.le, not_le.2 h, decide_false]; rfl
  · simp only [h, if_false, max_eq_left (not_lt.1 h), not_lt.1 h, decide_true]; rfl

/-- the non-solid interior branch moves `p` onto one face, and that face is at least as near as each of the six -/
private theorem aabb3_hollow_select (lo hi p : V3 K) (hok : BoxOk3 lo hi) (hm : BoxMem3 lo hi p) :
    letI := fieldNum K sq
    ∃ δ : K, (δ ≤ p.x - lo.x ∧ δ ≤ hi.x - p.x ∧ δ ≤ p.y - lo.y ∧ δ ≤ hi.y - p.y ∧ δ ≤ p.z - lo.z ∧ δ ≤ hi.z - p.z) ∧
      (((aabbProject3 lo hi p false).pt = ⟨lo.x, p.y, p.z⟩ ∧ δ = p.x - lo.x) ∨
       ((aabbProject3 lo hi p false).pt = ⟨hi.x, p.y, p.z⟩ ∧ δ = hi.x - p.x) ∨
       ((aabbProject3 lo hi p false).pt = ⟨p.x, lo.y, p.z⟩ ∧ δ = p.y - lo.y) ∨
       ((aabbProject3 lo hi p false).pt = ⟨p.x, hi.y, p.z⟩ ∧ δ = hi.y - p.y) ∨
       ((aabbProject3 lo hi p false).pt = ⟨p.x, p.y, lo.z⟩ ∧ δ = p.z - lo.z) ∨
       ((aabbProject3 lo hi p false).pt = ⟨p.x, p.y, hi.z⟩ ∧ δ = hi.z - p.z)) := by
  letI := fieldNum K sq
  have hZ := (aabb3_shift_zero sq lo hi p hok).mpr hm
  obtain ⟨⟨mx1, mx2⟩, ⟨my1, my2⟩, ⟨mz1, mz2⟩⟩ := hm
  simp only [aabbProject3, aabbDoProject3, hZ, Bool.not_true, Bool.false_eq_true, if_false, aabbStep_eq]
  simp only [V3.sub, decide_true, if_true]
  have lx1 := le_max_left (lo.x - p.x) (p.x - hi.x); have lx2 := le_max_right (lo.x - p.x) (p.x - hi.x)
  have ly1 := le_max_left (lo.y - p.y) (p.y - hi.y); have ly2 := le_max_right (lo.y - p.y) (p.y - hi.y)
  have lz1 := le_max_left (lo.z - p.z) (p.z - hi.z); have lz2 := le_max_right (lo.z - p.z) (p.z - hi.z)
  by_cases h1 : max (lo.x - p.x) (p.x - hi.x) < max (lo.y - p.y) (p.y - hi.y)
  · simp only [h1, decide_true, if_true]
    by_cases h2 : max (lo.y - p.y) (p.y - hi.y) < max (lo.z - p.z) (p.z - hi.z)
    · simp only [h2, decide_true, if_true, Option.getD_some]
      by_cases f : p.z - hi.z ≤ lo.z - p.z
      · have e := max_eq_left f
        simp only [f, decide_true, if_true]
        refine ⟨p.z - lo.z, ⟨?_, ?_, ?_, ?_, ?_, ?_⟩, (fun h => Or.inr (Or.inr (Or.inr (Or.inr (Or.inl h))))) ⟨v3_ext ?_ ?_ ?_, rfl⟩⟩ <;>
          first | linarith | (simp [V3.add, V3.set, V3.zero, e])
      · simp only [f, decide_false, Bool.false_eq_true, if_false]
        push Not at f
        have e := max_eq_right f.le
        refine ⟨hi.z - p.z, ⟨?_, ?_, ?_, ?_, ?_, ?_⟩, (fun h => Or.inr (Or.inr (Or.inr (Or.inr (Or.inr h))))) ⟨v3_ext ?_ ?_ ?_, rfl⟩⟩ <;>
          first | linarith | (simp [V3.add, V3.set, V3.zero, e])
    · simp only [h2, decide_false, Bool.false_eq_true, if_false, Option.getD_some]
      push Not at h2
      by_cases f : p.y - hi.y ≤ lo.y - p.y
      · have e := max_eq_left f
        simp only [f, decide_true, if_true]
        refine ⟨p.y - lo.y, ⟨?_, ?_, ?_, ?_, ?_, ?_⟩, (fun h => Or.inr (Or.inr (Or.inl h))) ⟨v3_ext ?_ ?_ ?_, rfl⟩⟩ <;>
          first | linarith | (simp [V3.add, V3.set, V3.zero, e])
      · simp only [f, decide_false, Bool.false_eq_true, if_false]
        push Not at f
        have e := max_eq_right f.le
        refine ⟨hi.y - p.y, ⟨?_, ?_, ?_, ?_, ?_, ?_⟩, (fun h => Or.inr (Or.inr (Or.inr (Or.inl h)))) ⟨v3_ext ?_ ?_ ?_, rfl⟩⟩ <;>
          first | linarith | (simp [V3.add, V3.set, V3.zero, e])
  · simp only [h1, decide_false, Bool.false_eq_true, if_false]
    push Not at h1
    by_cases h2 : max (lo.x - p.x) (p.x - hi.x) < max (lo.z - p.z) (p.z - hi.z)
    · simp only [h2, decide_true, if_true, Option.getD_some]
      by_cases f : p.z - hi.z ≤ lo.z - p.z
      · have e := max_eq_left f
        simp only [f, decide_true, if_true]
        refine ⟨p.z - lo.z, ⟨?_, ?_, ?_, ?_, ?_, ?_⟩, (fun h => Or.inr (Or.inr (Or.inr (Or.inr (Or.inl h))))) ⟨v3_ext ?_ ?_ ?_, rfl⟩⟩ <;>
          first | linarith | (simp [V3.add, V3.set, V3.zero, e])
      · simp only [f, decide_false, Bool.false_eq_true, if_false]
        push Not at f
        have e := max_eq_right f.le
        refine ⟨hi.z - p.z, ⟨?_, ?_, ?_, ?_, ?_, ?_⟩, (fun h => Or.inr (Or.inr (Or.inr (Or.inr (Or.inr h))))) ⟨v3_ext ?_ ?_ ?_, rfl⟩⟩ <;>
          first | linarith | (simp [V3.add, V3.set, V3.zero, e])
    · simp only [h2, decide_false, Bool.false_eq_true, if_false, Option.getD_some]
      push Not at h2
      by_cases f : p.x - hi.x ≤ lo.x - p.x
      · have e := max_eq_left f
        simp only [f, decide_true, if_true]
        refine ⟨p.x - lo.x, ⟨?_, ?_, ?_, ?_, ?_, ?_⟩, Or.inl ⟨v3_ext ?_ ?_ ?_, rfl⟩⟩ <;>
          first | linarith | (simp [V3.add, V3.set, V3.zero, e])
      · simp only [f, decide_false, Bool.false_eq_true, if_false]
        push Not at f
        have e := max_eq_right f.le
        refine ⟨hi.x - p.x, ⟨?_, ?_, ?_, ?_, ?_, ?_⟩, (fun h => Or.inr (Or.inl h)) ⟨v3_ext ?_ ?_ ?_, rfl⟩⟩ <;>
          first | linarith | (simp [V3.add, V3.set, V3.zero, e])

/-- **membership** (`Aabb::project_local_point`, both flags) -/
theorem aabb3_project_mem (lo hi p : V3 K) (solid : Bool) (hok : BoxOk3 lo hi) :
    letI := fieldNum K sq
    BoxMem3 lo hi (aabbProject3 lo hi p solid).pt := by
  letI := fieldNum K sq
  by_cases hc : solid = true ∨ ¬ BoxMem3 lo hi p
  · exact (aabb3_solid_core sq lo hi p solid hok hc).1
  · push Not at hc
    have hs : solid = false := by simpa using hc.1
    subst hs
    obtain ⟨⟨mx1, mx2⟩, ⟨my1, my2⟩, ⟨mz1, mz2⟩⟩ := hc.2
    obtain ⟨δ, _, h | h | h | h | h | h⟩ := aabb3_hollow_select sq lo hi p hok hc.2 <;>
      (rw [h.1]; simp only [BoxMem3]; refine ⟨⟨?_, ?_⟩, ⟨?_, ?_⟩, ⟨?_, ?_⟩⟩ <;> first | assumption | exact le_refl _ | exact hok.1 | exact hok.2.1 | exact hok.2.2)

/-- **boundary**: with `solid = false`, or for an outside point, the projection is on a face of the box. -/
theorem aabb3_project_on_boundary (lo hi p : V3 K) (solid : Bool) (hok : BoxOk3 lo hi) :
    letI := fieldNum K sq
    (solid = false ∨ ¬ BoxMem3 lo hi p) → BoxBnd3 lo hi (aabbProject3 lo hi p solid).pt := by
  letI := fieldNum K sq
  intro h
  by_cases hm : BoxMem3 lo hi p
  · have hs : solid = false := by rcases h with h | h; exact h; exact absurd hm h
    subst hs
    refine ⟨aabb3_project_mem sq lo hi p false hok, ?_⟩
    obtain ⟨δ, _, h | h | h | h | h | h⟩ := aabb3_hollow_select sq lo hi p hok hm <;> rw [h.1] <;> simp
  · exact (aabb3_solid_core sq lo hi p solid hok (Or.inr hm)).2.1 hm

/-- **optimality w.r.t. the solid box**: for `solid = true`, or for an outside point, no point of the box is closer. -/
theorem aabb3_project_optimal (lo hi p q : V3 K) (solid : Bool) (hok : BoxOk3 lo hi) :
    letI := fieldNum K sq
    BoxMem3 lo hi q → (solid = true ∨ ¬ BoxMem3 lo hi p) → dsq3 p (aabbProject3 lo hi p solid).pt ≤ dsq3 p q := by
  letI := fieldNum K sq
  intro hq hc
  have h := (aabb3_solid_core sq lo hi p solid hok hc).2.2 q hq
  simp only [V3.dot, V3.sub] at h
  exact opt_of_var3 _ _ _ _ _ _ _ _ _ h

/-- **optimality w.r.t. the boundary** (both flags; this is the clause for `solid = false` and an interior point):
no point of the six faces is closer than the projection. -/
theorem aabb3_project_optimal_boundary (lo hi p q : V3 K) (solid : Bool) (hok : BoxOk3 lo hi) :
    letI := fieldNum K sq
    BoxBnd3 lo hi q → dsq3 p (aabbProject3 lo hi p solid).pt ≤ dsq3 p q := by
  letI := fieldNum K sq
  intro hq
  by_cases hc : solid = true ∨ ¬ BoxMem3 lo hi p
  · exact aabb3_project_optimal sq lo hi p q solid hok hq.1 hc
  · push Not at hc
    have hs : solid = false := by simpa using hc.1
    subst hs
    obtain ⟨⟨mx1, mx2⟩, ⟨my1, my2⟩, ⟨mz1, mz2⟩⟩ := hc.2
    obtain ⟨δ, ⟨d1, d2, d3, d4, d5, d6⟩, hsel⟩ := aabb3_hollow_select sq lo hi p hok hc.2
    have hδ : 0 ≤ δ := by rcases hsel with h | h | h | h | h | h <;> rw [h.2] <;> linarith
    have hd : dsq3 p (@aabbProject3 K (fieldNum K sq) lo hi p false).pt = δ * δ := by
      rcases hsel with h | h | h | h | h | h <;> rw [h.1, h.2] <;> simp only [dsq3] <;> ring
    rw [hd]
    obtain ⟨⟨⟨qx1, qx2⟩, ⟨qy1, qy2⟩, ⟨qz1, qz2⟩⟩, hf⟩ := hq
    simp only [dsq3]
    have sx := mul_self_nonneg (p.x - q.x); have sy := mul_self_nonneg (p.y - q.y); have sz := mul_self_nonneg (p.z - q.z)
    rcases hf with e | e | e | e | e | e
    · have : δ * δ ≤ (p.x - q.x) * (p.x - q.x) := by rw [e]; exact mul_self_le_mul_self hδ d1
      linarith
    · have : δ * δ ≤ (p.x - q.x) * (p.x - q.x) := by
        rw [e]; have := mul_self_le_mul_self hδ d2; nlinarith
      linarith
    · have : δ * δ ≤ (p.y - q.y) * (p.y - q.y) := by rw [e]; exact mul_self_le_mul_self hδ d3
      linarith
    · have : δ * δ ≤ (p.y - q.y) * (p.y - q.y) := by
        rw [e]; have := mul_self_le_mul_self hδ d4; nlinarith
      linarith
    · have : δ * δ ≤ (p.z - q.z) * (p.z - q.z) := by rw [e]; exact mul_self_le_mul_self hδ d5
      linarith
    · have : δ * δ ≤ (p.z - q.z) * (p.z - q.z) := by
        rw [e]; have := mul_self_le_mul_self hδ d6; nlinarith
      linarith

example : BoxOk3 (⟨-1, -2, -3⟩ : V3 ℚ) ⟨1, 2, 3⟩ ∧ BoxBnd3 (⟨-1, -2, -3⟩ : V3 ℚ) ⟨1, 2, 3⟩ ⟨1, 0, 1⟩
    ∧ BoxMem3 (⟨-1, -2, -3⟩ : V3 ℚ) ⟨1, 2, 3⟩ ⟨0, 1/2, 0⟩ := by
  simp only [BoxOk3, BoxBnd3, BoxMem3]; norm_num

/-! ### Cuboid = `Aabb::new(-he, he)` -/

/-- boundary of the cuboid: a member with one coordinate at `± he` -/
def CubBnd3 (s : Cuboid3 K) (x : V3 K) : Prop :=
  BoxBnd3 ⟨-s.he.x, -s.he.y, -s.he.z⟩ s.he x
def CubOk3 (s : Cuboid3 K) : Prop := 0 ≤ s.he.x ∧ 0 ≤ s.he.y ∧ 0 ≤ s.he.z

private theorem cubOk (s : Cuboid3 K) (h : CubOk3 s) : BoxOk3 (⟨-s.he.x, -s.he.y, -s.he.z⟩ : V3 K) s.he := by
  obtain ⟨a, b, c⟩ := h
  exact ⟨by simp only []; linarith, by simp only []; linarith, by simp only []; linarith⟩

/-- **inside flag** ⇔ `Cuboid.Mem` -/
theorem cub3_inside_iff (s : Cuboid3 K) (p : V3 K) (solid : Bool) (h : CubOk3 s) :
    letI := fieldNum K sq
    (s.project p solid).inside = true ↔ s.Mem p :=
  aabb3_inside_iff sq _ _ p solid (cubOk s h)

/-- `contains_local_point ⇔ Mem` -/
theorem cub3_contains_iff (s : Cuboid3 K) (p : V3 K) (h : CubOk3 s) :
    letI := fieldNum K sq
    s.contains p = true ↔ s.Mem p :=
  aabb3_inside_iff sq _ _ p true (cubOk s h)

theorem cub3_project_mem (s : Cuboid3 K) (p : V3 K) (solid : Bool) (h : CubOk3 s) :
    letI := fieldNum K sq
    s.Mem (s.project p solid).pt :=
  aabb3_project_mem sq _ _ p solid (cubOk s h)

theorem cub3_project_on_boundary (s : Cuboid3 K) (p : V3 K) (solid : Bool) (h : CubOk3 s) :
    letI := fieldNum K sq
    (solid = false ∨ ¬ s.Mem p) → CubBnd3 s (s.project p solid).pt :=
  aabb3_project_on_boundary sq _ _ p solid (cubOk s h)

/-- **optimality**, solid cuboid (`solid = true` or outside point) -/
theorem cub3_project_optimal (s : Cuboid3 K) (p q : V3 K) (solid : Bool) (h : CubOk3 s) :
    letI := fieldNum K sq
    s.Mem q → (solid = true ∨ ¬ s.Mem p) → dsq3 p (s.project p solid).pt ≤ dsq3 p q :=
  aabb3_project_optimal sq _ _ p q solid (cubOk s h)

/-- **optimality**, hollow cuboid (any flag, in particular `solid = false` with an interior point) -/
theorem cub3_project_optimal_boundary (s : Cuboid3 K) (p q : V3 K) (solid : Bool) (h : CubOk3 s) :
    letI := fieldNum K sq
    CubBnd3 s q → dsq3 p (s.project p solid).pt ≤ dsq3 p q :=
  aabb3_project_optimal_boundary sq _ _ p q solid (cubOk s h)


/-! ## Triangle, 2-D (`point_triangle.rs`: Voronoi regions of the three vertices, three edges, and the face)

Hypothesis `Tri2Ok`: the triangle is non-degenerate (`perp(ab, ac) ≠ 0`, either orientation).  On a degenerate triangle
every edge test is disabled (`n = 0`) and the code reports points off the supporting line as inside; see the report. -/

def Tri2Ok (s : Triangle2 K) : Prop :=
  (s.b.x - s.a.x) * (s.c.y - s.a.y) - (s.b.y - s.a.y) * (s.c.x - s.a.x) ≠ 0

/-- branch-by-branch summary (see `Tri2.lean`): either the non-solid interior tail, or member + variational inequality
+ `is_inside = (proj == pt)`. -/
private theorem tri2_cases (s : Triangle2 K) (p : V2 K) (solid : Bool) (h : Tri2Ok s) :
    letI := fieldNum K sq
    (solid = false ∧ s.Mem p ∧ (s.projectLoc p solid).1.inside = true) ∨
    (s.Mem (s.projectLoc p solid).1.pt ∧
      (∀ q : V2 K, s.Mem q → (p.x - (s.projectLoc p solid).1.pt.x) * (q.x - (s.projectLoc p solid).1.pt.x)
          + (p.y - (s.projectLoc p solid).1.pt.y) * (q.y - (s.projectLoc p solid).1.pt.y) ≤ 0) ∧
      ((s.projectLoc p solid).1.inside = true ↔ (s.projectLoc p solid).1.pt = p)) := by
  letI := fieldNum K sq
  obtain ⟨⟨ax, ay⟩, ⟨bx, by'⟩, ⟨cx, cy⟩⟩ := s
  obtain ⟨px, py⟩ := p
  have := tri2_flat_core sq ax ay bx by' cx cy px py solid h _ _ _ _ _ _ _ _ _ _ _ _ rfl rfl rfl rfl rfl rfl rfl rfl rfl rfl
    (@Triangle2.projectLoc K (fieldNum K sq) ⟨⟨ax, ay⟩, ⟨bx, by'⟩, ⟨cx, cy⟩⟩ ⟨px, py⟩ solid)
    (tri2_projectLoc_eq_flat sq _ _ _)
  rcases this with h1 | ⟨h1, h2, h3⟩
  · exact Or.inl h1
  · exact Or.inr ⟨h1, fun q hq => h2 q.x q.y hq, h3⟩

/-- **membership**: for `solid = true`, or for a point outside the triangle, the projection is a point of the triangle. -/
theorem tri2_project_mem (s : Triangle2 K) (p : V2 K) (solid : Bool) (h : Tri2Ok s) :
    letI := fieldNum K sq
    (solid = true ∨ ¬ s.Mem p) → s.Mem (s.projectLoc p solid).1.pt := by
  letI := fieldNum K sq
  intro hc
  rcases tri2_cases sq s p solid h with ⟨h1, h2, _⟩ | ⟨h1, _, _⟩
  · rcases hc with hc | hc
    · rw [h1] at hc; exact absurd hc (by simp)
    · exact absurd h2 hc
  · exact h1

/-- **optimality**: for `solid = true`, or for a point outside, no point of the triangle is closer than the projection
(all seven Voronoi regions). -/
theorem tri2_project_optimal (s : Triangle2 K) (p q : V2 K) (solid : Bool) (h : Tri2Ok s) :
    letI := fieldNum K sq
    s.Mem q → (solid = true ∨ ¬ s.Mem p) → dsq2 p (s.projectLoc p solid).1.pt ≤ dsq2 p q := by
  letI := fieldNum K sq
  intro hq hc
  rcases tri2_cases sq s p solid h with ⟨h1, h2, _⟩ | ⟨_, h2, _⟩
  · rcases hc with hc | hc
    · rw [h1] at hc; exact absurd hc (by simp)
    · exact absurd h2 hc
  · exact opt_of_var2 _ _ _ _ _ _ (h2 q hq)

/-- **inside flag**: `is_inside ⇔ p ∈ triangle`, both flags (2-D uses exact equality `proj == pt`). -/
theorem tri2_inside_iff (s : Triangle2 K) (p : V2 K) (solid : Bool) (h : Tri2Ok s) :
    letI := fieldNum K sq
    (s.projectLoc p solid).1.inside = true ↔ s.Mem p := by
  letI := fieldNum K sq
  rcases tri2_cases sq s p solid h with ⟨_, h2, h3⟩ | ⟨h1, h2, h3⟩
  · exact ⟨fun _ => h2, fun _ => h3⟩
  · rw [h3]
    constructor
    · intro e; rw [← e]; exact h1
    · intro hm
      have h4 := opt_of_var2 _ _ _ _ _ _ (h2 p hm)
      have h0 : (p.x - p.x) * (p.x - p.x) + (p.y - p.y) * (p.y - p.y) = (0 : K) := by ring
      rw [h0] at h4
      obtain ⟨hx, hy⟩ := sumsq2_eq_zero h4
      exact (v2_ext (by linarith) (by linarith)).symm

/-- `contains_local_point` (default method) `⇔ Mem` -/
theorem tri2_contains_iff (s : Triangle2 K) (p : V2 K) (h : Tri2Ok s) :
    letI := fieldNum K sq
    defaultContains2 (s.project) p = true ↔ s.Mem p :=
  tri2_inside_iff sq s p true h

example : Tri2Ok (⟨⟨0, 0⟩, ⟨4, 0⟩, ⟨0, 3⟩⟩ : Triangle2 ℚ) ∧ (⟨⟨0, 0⟩, ⟨4, 0⟩, ⟨0, 3⟩⟩ : Triangle2 ℚ).Mem ⟨1, 1⟩ := by
  refine ⟨by simp only [Tri2Ok]; norm_num, ⟨1/4, 1/3, by norm_num, by norm_num, by norm_num, ?_⟩⟩
  simp only [V2.add, V2.sub, V2.smul]; norm_num

end C05
