import ParryModel.Field
import ParryModel.C05.Model
import ParryModel.C05.Lemmas
set_option linter.style.haveILetI false
/-!
# C05 property theorems: point projection, for every linearly ordered field

All statements are about the model functions of `C05/Model.lean` at the lawful instance `fieldNum K sq`.
Specifications are the `Mem` predicates of `Shapes.lean`; `dsq p q = |p - q|²`.
For each shape: the returned point is a member (a boundary point when asked), no member is closer
(`∀ q, Mem q → |p - proj|² ≤ |p - q|²`), and `is_inside` is exact membership.
-/
namespace C05
open Model

variable {K : Type} [Field K] [LinearOrder K] [IsStrictOrderedRing K] (sq : K → K)

/-- squared distance (the specification's metric) -/
def dsq3 (p q : V3 K) : K := (p.x - q.x) * (p.x - q.x) + (p.y - q.y) * (p.y - q.y) + (p.z - q.z) * (p.z - q.z)
def dsq2 (p q : V2 K) : K := (p.x - q.x) * (p.x - q.x) + (p.y - q.y) * (p.y - q.y)

/-- `relative_eq!` as a predicate: equal, or absolutely / relatively within `ε = 2⁻⁵²` -/
def RelClose (a b : K) : Prop :=
  a = b ∨ |a - b| ≤ ((mkRat 1 4503599627370496 : ℚ) : K) ∨ |a - b| ≤ max |a| |b| * ((mkRat 1 4503599627370496 : ℚ) : K)

theorem relEq_iff (a b : K) :
    letI := fieldNum K sq
    relEq a b = true ↔ RelClose a b := by
  simp only [relEq, neq, eps, fieldNum_lit, fieldNum_nabs, RelClose]
  have hmax : (if |a| < |b| then |b| else |a|) = max |a| |b| := by
    split_ifs with h
    · exact (max_eq_right h.le).symm
    · exact (max_eq_left (not_lt.mp h)).symm
  rw [hmax]
  by_cases h1 : a = b
  · subst h1; simp
  · have : ¬ (a ≤ b ∧ b ≤ a) := fun ⟨x, y⟩ => h1 (le_antisymm x y)
    by_cases h2 : |a - b| ≤ ((mkRat 1 4503599627370496 : ℚ) : K)
    · simp [h2]
    · simp [h1, h2, this]

/-! ## Segment -/

/-- **membership**: the projection is a point `a + t (b - a)`, `t ∈ [0,1]` of the segment. -/
theorem seg3_project_mem (s : Segment3 K) (p : V3 K) :
    letI := fieldNum K sq
    s.Mem (s.projectLoc p).1.pt := by
  letI := fieldNum K sq
  simp only [Segment3.projectLoc, Segment3.Mem]
  split_ifs with h1 h2
  · exact ⟨0, le_refl _, zero_le_one, v3_ext (by simp [V3.add, V3.smul]) (by simp [V3.add, V3.smul]) (by simp [V3.add, V3.smul])⟩
  · exact ⟨1, zero_le_one, le_refl _, v3_ext (by simp [V3.add, V3.smul, V3.sub]) (by simp [V3.add, V3.smul, V3.sub]) (by simp [V3.add, V3.smul, V3.sub])⟩
  · push Not at h1 h2
    have hpos : 0 < (s.b.sub s.a).normSq := lt_trans h1 h2
    exact ⟨_, div_nonneg h1.le hpos.le, (div_le_one hpos).mpr h2.le, rfl⟩

/-- **variational inequality**: `⟨p - proj, q - proj⟩ ≤ 0` for every point `q` of the segment. -/
theorem seg3_project_variational (s : Segment3 K) (p q : V3 K) :
    letI := fieldNum K sq
    s.Mem q → ((p.sub (s.projectLoc p).1.pt).dot (q.sub (s.projectLoc p).1.pt)) ≤ 0 := by
  letI := fieldNum K sq
  intro hq
  obtain ⟨t, ht0, ht1, rfl⟩ := hq
  simp only [Segment3.projectLoc]
  split_ifs with h1 h2
  · simp only [V3.dot, V3.sub, V3.add, V3.smul, V3.normSq] at *
    nlinarith [mul_nonneg ht0 (neg_nonneg.mpr h1)]
  · simp only [V3.dot, V3.sub, V3.add, V3.smul, V3.normSq] at *
    nlinarith [mul_nonneg (sub_nonneg.mpr ht1) (sub_nonneg.mpr h2)]
  · push Not at h1 h2
    have hpos : 0 < (s.b.sub s.a).normSq := lt_trans h1 h2
    have hu := div_mul_cancel₀ ((s.b.sub s.a).dot (p.sub s.a)) (ne_of_gt hpos)
    generalize (s.b.sub s.a).dot (p.sub s.a) / (s.b.sub s.a).normSq = u at hu
    simp only [V3.dot, V3.sub, V3.add, V3.smul, V3.normSq] at *
    apply le_of_eq
    linear_combination (u - t) * hu

/-- **optimality**: no point of the segment is closer to `p` than the projection. -/
theorem seg3_project_optimal (s : Segment3 K) (p q : V3 K) :
    letI := fieldNum K sq
    s.Mem q → dsq3 p (s.projectLoc p).1.pt ≤ dsq3 p q := by
  letI := fieldNum K sq
  intro hq
  have h := seg3_project_variational sq s p q hq
  simp only [V3.dot, V3.sub] at h
  exact opt_of_var3 _ _ _ _ _ _ _ _ _ h

example : (⟨⟨0, 0, 0⟩, ⟨4, 0, 0⟩⟩ : Segment3 ℚ).Mem ⟨1, 0, 0⟩ :=
  ⟨1/4, by norm_num, by norm_num, by simp [V3.add, V3.sub, V3.smul]⟩

/-- **location**: the reported `SegmentPointLocation` reproduces the projection — `OnVertex(i)` is vertex `i`,
`OnEdge([b0,b1])` has non-negative barycentric coordinates summing to one with `proj = b0·a + b1·b`. -/
theorem seg3_location_sound (s : Segment3 K) (p : V3 K) :
    letI := fieldNum K sq
    match (s.projectLoc p).2 with
    | .vertex i => (i = 0 ∧ (s.projectLoc p).1.pt = s.a) ∨ (i = 1 ∧ (s.projectLoc p).1.pt = s.b)
    | .edge b0 b1 => 0 ≤ b0 ∧ 0 ≤ b1 ∧ b0 + b1 = 1 ∧ (s.projectLoc p).1.pt = (s.a.smul b0).add (s.b.smul b1) := by
  letI := fieldNum K sq
  simp only [Segment3.projectLoc]
  split_ifs with h1 h2
  · simp
  · simp
  · push Not at h1 h2
    have hpos : 0 < (s.b.sub s.a).normSq := lt_trans h1 h2
    have hu0 : 0 ≤ (s.b.sub s.a).dot (p.sub s.a) / (s.b.sub s.a).normSq := div_nonneg h1.le hpos.le
    have hu1 : (s.b.sub s.a).dot (p.sub s.a) / (s.b.sub s.a).normSq ≤ 1 := (div_le_one hpos).mpr h2.le
    refine ⟨by linarith, hu0, by ring, ?_⟩
    generalize (s.b.sub s.a).dot (p.sub s.a) / (s.b.sub s.a).normSq = u
    apply v3_ext <;> simp only [V3.add, V3.smul, V3.sub] <;> ring

/-- **inside flag, exact part**: a point of the segment is its own projection and is reported inside. -/
theorem seg3_inside_of_mem (s : Segment3 K) (p : V3 K) :
    letI := fieldNum K sq
    s.Mem p → (s.projectLoc p).1.pt = p ∧ (s.projectLoc p).1.inside = true := by
  letI := fieldNum K sq
  intro hp
  have h := seg3_project_optimal sq s p p hp
  have hpt : (@Segment3.projectLoc K (fieldNum K sq) s p).1.pt = p := by
    simp only [dsq3] at h
    have h0 : (p.x - p.x) * (p.x - p.x) + (p.y - p.y) * (p.y - p.y) + (p.z - p.z) * (p.z - p.z) = (0 : K) := by ring
    rw [h0] at h
    obtain ⟨hx, hy, hz⟩ := sumsq3_eq_zero h
    exact (v3_ext (by linarith) (by linarith) (by linarith)).symm
  refine ⟨hpt, ?_⟩
  have hin : (@Segment3.projectLoc K (fieldNum K sq) s p).1.inside
      = @V3.relEq K (fieldNum K sq) (@Segment3.projectLoc K (fieldNum K sq) s p).1.pt p := by
    simp only [Segment3.projectLoc]
    split_ifs <;> rfl
  rw [hin, hpt]
  simp [V3.relEq, relEq, neq]

/-- **inside flag, tolerance part**: `is_inside` is `relative_eq!(proj, pt)` — true exactly when every coordinate of
the projection is within `ε` (absolute or relative) of the query point. -/
theorem seg3_inside_iff_close (s : Segment3 K) (p : V3 K) :
    letI := fieldNum K sq
    (s.projectLoc p).1.inside = true ↔
      (RelClose (s.projectLoc p).1.pt.x p.x ∧ RelClose (s.projectLoc p).1.pt.y p.y ∧ RelClose (s.projectLoc p).1.pt.z p.z) := by
  letI := fieldNum K sq
  have hin : (@Segment3.projectLoc K (fieldNum K sq) s p).1.inside
      = @V3.relEq K (fieldNum K sq) (@Segment3.projectLoc K (fieldNum K sq) s p).1.pt p := by
    simp only [Segment3.projectLoc]
    split_ifs <;> rfl
  rw [hin]
  simp only [V3.relEq, Bool.and_eq_true, relEq_iff, and_assoc]

end C05
