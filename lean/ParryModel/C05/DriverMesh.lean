import ParryModel.C05.DriverBase
import ParryModel.C05.Mesh
/-!
C05 protocol handlers for composite shapes: `tm_*` (ORIENTED `TriMesh`) and `hf_*` (3-D `HeightField`).

Oracles (exact `Rat`, independent of the model functions):
* nearest point: brute force over ALL triangles of the mesh / of the exact height-field surface (`triDist2_3`);
* inside flag of a closed oriented mesh: exact signed ray-crossing number (winding number) along a generic rational
  direction — `+1` for a crossing that leaves through an outward face, `-1` for one that enters; inside ⇔ the sum is `1`.
  The mesh must be closed and consistently oriented (every directed edge is matched by its opposite exactly once), else `skip`;
* pseudo-normals (`tm_pn`): each vertex normal is the angle-weighted sum of the incident unit face normals and each edge
  normal the sum of the unit normals of the faces that share the edge — recomputed with `atan2(|u×v|, u·v)` (not `acos`) in
  `Float`, compared within 1e-9;
* `hf_map`: every surface triangle whose Aabb overlaps the query box (by more than the tolerance) is emitted exactly once,
  no id twice, and every emitted triangle is the exact triangle of that id.
-/
namespace C05
open Model Model.PM Proto

def nan3 : V3 Float := ⟨0.0/0.0, 0.0/0.0, 0.0/0.0⟩
def pidx : P (Nat × Nat × Nat) := do let a ← pnat; let b ← pnat; let c ← pnat; pure (a, b, c)
def pmesh : P (Mesh Float) := do
  let vs ← plist pv3
  let is ← plist pidx
  pure ⟨vs.toArray, is.toArray⟩
def ptm : P (Mesh Float × Nat) := do let m ← pmesh; let f ← pnat; pure (m, f)

/-! ### exact mesh description -/

def meshTrisQ (m : Mesh Float) : List (V3 Rat × V3 Rat × V3 Rat) :=
  (List.range m.idx.size).filterMap fun f => (m.tri? f).map fun t => (q3 t.a, q3 t.b, q3 t.c)

def trisDist2 (ts : List (V3 Rat × V3 Rat × V3 Rat)) (p : V3 Rat) : Option Rat :=
  ts.foldl (fun acc (a, b, c) => let d := triDist2_3 a b c p
    match acc with | none => some d | some e => some (rmin e d)) none

def det3 (a b c : V3 Rat) : Rat := a.dot (b.cross c)

/-- signed crossing number of the ray `p + t d`, `t > 0`; `none` = the ray meets an edge / vertex / is coplanar. -/
def windRay (ts : List (V3 Rat × V3 Rat × V3 Rat)) (p d : V3 Rat) : Option Int :=
  ts.foldl (fun acc (a, b, c) => match acc with
    | none => none
    | some w =>
      let A := a.sub p; let B := b.sub p; let C := c.sub p
      let s1 := det3 d A B; let s2 := det3 d B C; let s3 := det3 d C A
      let pos := 0 < s1 || 0 < s2 || 0 < s3
      let neg := s1 < 0 || s2 < 0 || s3 < 0
      if pos && neg then some w
      else if s1 = 0 || s2 = 0 || s3 = 0 then none
      else
        let n := (B.sub A).cross (C.sub A)
        let dn := d.dot n
        if dn = 0 then none else
        let t := A.dot n / dn
        if t = 0 then none else if t < 0 then some w
        else some (if 0 < dn then w + 1 else w - 1)) (some 0)

def windDirs : List (V3 Rat) :=
  [⟨1, 3/7, 2/13⟩, ⟨-5/11, 1, 7/17⟩, ⟨3/19, -4/23, 1⟩, ⟨-1, 5/29, -3/31⟩, ⟨2/37, -1, -6/41⟩, ⟨7/43, 9/47, -1⟩,
   ⟨1, -11/53, 13/59⟩, ⟨-17/61, 1, -19/67⟩]
def winding (ts : List (V3 Rat × V3 Rat × V3 Rat)) (p : V3 Rat) : Option Int :=
  windDirs.foldl (fun acc d => match acc with | some w => some w | none => windRay ts p d) none

/-- closed and consistently oriented: every directed edge occurs once and its opposite occurs once; no degenerate index triple -/
def meshClosed (m : Mesh Float) : Bool :=
  let es := m.idx.toList.flatMap fun (a, b, c) => [(a, b), (b, c), (c, a)]
  m.idx.toList.all (fun (a, b, c) => a != b && b != c && a != c && a < m.verts.size && b < m.verts.size && c < m.verts.size) &&
  es.all fun (a, b) => es.count (a, b) == 1 && es.count (b, a) == 1

def meshSpec (m : Mesh Float) : Spec V3 :=
  let ts := meshTrisQ m
  let bd := fun p => match trisDist2 ts p with | some d => rsqrt d | none => 0
  { valid := meshClosed m && ts.all (fun (a, b, c) => ((b.sub a).cross (c.sub a)).normSq != 0) && m.verts.toList.all finite3
    mem := fun p => winding ts p == some 1 || trisDist2 ts p == some 0
    dist := bd
    bdist := bd }

def tmProject (s : Mesh Float × Nat) (p : V3 Float) (so : Bool) : Bool × V3 Float :=
  match computePseudoNormals Float.acos s.1 with
  | none => (false, nan3)
  | some pn => match trimeshLocate s.1 (some pn) s.2 p so with
    | some (pp, _) => (pp.inside, pp.pt)
    | none => (false, nan3)

def triOf (m : Mesh Float) (f : Nat) : Triangle3 Float := (m.tri? f).getD ⟨nan3, nan3, nan3⟩

def Htm : ShapeH V3 Iso3 (Mesh Float × Nat) where
  parse := ptm
  project := tmProject
  distance := fun s p so => defaultDistance3 (fun x b => unpp3 (tmProject s x b)) p so
  contains := fun s p => (tmProject s p true).1
  feature := fun s p => (tmProject s p false, Feat.face s.2)
  spec := fun s => meshSpec s.1
  featOk := fun s f p t => match f with
    | .face i => (triSpec3 (triOf s.1 i)).dist p ≤ t
    | _ => false

/-- `project_local_point_and_get_location(_with_max_dist)`; `md = none` is `Real::MAX` -/
def tmLocModel (s : Mesh Float × Nat) (p : V3 Float) (so : Bool) (md : Option Float) : String :=
  let body := fun (pp : PP3 Float) (loc : TriLoc Float) => s!"{fb pp.inside} {fv3 pp.pt} {s.2} {ftriLoc loc}"
  match computePseudoNormals Float.acos s.1 with
  | none => "panic"
  | some pn => match md with
    | none => match trimeshLocate s.1 (some pn) s.2 p so with
      | none => "panic"
      | some (pp, loc) => body pp loc
    | some d => match trimeshLocateMaxDist s.1 (some pn) s.2 p so d with
      | none => "panic"
      | some none => "none"
      | some (some (pp, loc)) => "some " ++ body pp loc

def tmLocJudge (s : Mesh Float × Nat) (P : V3 Rat) (so : Bool) (ins : Bool) (pr : V3 Float) (fid : Nat) (l : LocOut) : String :=
  let S := meshSpec s.1
  if vNan D3 pr then "fail nan-projection" else
  let R := q3 pr
  let j := judgeProj D3 S P so ins R
  if j != "pass" then j
  else
    let t := triOf s.1 fid
    if fid < s.1.idx.size && locOk3 (triVert3 t) (triEdge3 t) (triSpec3 t) l P R (ftol D3 P R) then "pass"
    else "fail location-does-not-reproduce-projection"

def pLocOut : P ((Bool × V3 Float) × Nat × LocOut) := do let r ← ppOut D3; let f ← pnat; let l ← ptriLocOut; pure (r, f, l)

def tmHandler (op : String) : Option Handler :=
  match op with
  | "loc" => some {
      model := fun a => run (do let s ← ptm; let p ← pv3; let so ← pbool; pure (tmLocModel s p so none)) a
      oracle := fun a o => match run (do let s ← ptm; let p ← pv3; let so ← pbool; pure (s, p, so)) a with
        | some (s, p, so) => if !(meshSpec s.1).valid then "skip shape-outside-domain" else
            withOut pLocOut o fun ((ins, pr), fid, l) => tmLocJudge s (q3 p) so ins pr fid l
        | none => "skip bad-args" }
  | "lmaxd" | "maxd" => some {
      model := fun a => run (do let s ← ptm; let p ← pv3; let so ← pbool; let d ← pf
                                let r := tmLocModel s p so (some d)
                                if op == "lmaxd" then pure r else
                                -- `project_local_point_with_max_dist` drops the location: keep `some inside x y z`
                                pure (String.intercalate " " ((r.splitOn " ").take 5))) a
      oracle := fun a o => match run (do let s ← ptm; let p ← pv3; let so ← pbool; let d ← pf; pure (s, p, so, d)) a with
        | some (s, p, so, d) =>
          let S := meshSpec s.1
          if !S.valid then "skip shape-outside-domain" else
          let P := q3 p
          let best := S.bdist P
          let t := ftol D3 P P
          match o with
          | ["none"] => if q d ≤ best + t then "pass" else s!"fail none-within-bound best={rf best}"
          | "some" :: rest =>
              if !(best ≤ q d + t) then s!"fail some-beyond-bound best={rf best}"
              else if op == "lmaxd" then withOut pLocOut rest fun ((ins, pr), fid, l) => tmLocJudge s P so ins pr fid l
              else withOut (ppOut D3) rest fun (ins, pr) =>
                if vNan D3 pr then "fail nan-projection" else judgeProj D3 S P so ins (q3 pr)
          | _ => "fail unparsable-output"
        | none => "skip bad-args" }
  | "pn" => some {
      model := fun a => run (do let m ← pmesh
                                match computePseudoNormals Float.acos m with
                                | none => pure "panic"
                                | some pn =>
                                  let vs := String.intercalate " " (pn.vertexN.toList.map fv3)
                                  let es := String.intercalate " " (pn.edgeN.toList.map fun (a, b, c) => s!"{fv3 a} {fv3 b} {fv3 c}")
                                  pure (s!"{pn.vertexN.size} {vs} {pn.edgeN.size} {es}".trimRight)) a
      oracle := fun a o => match run pmesh a with
        | some m =>
          if !(meshSpec m).valid then "skip shape-outside-domain" else
          withOut (do let vs ← plist (do let x ← pfo; let y ← pfo; let z ← pfo; pure (⟨x, y, z⟩ : V3 Float))
                      let es ← plist (do let x ← pvo3; let y ← pvo3; let z ← pvo3; pure (x, y, z)); pure (vs, es)) o fun (vs, es) =>
            -- independent recomputation: angle by atan2 of |u×v| and u·v
            let ang := fun (u v : V3 Float) => Float.atan2 (u.cross v).norm (u.dot v)
            let tris := (List.range m.idx.size).filterMap fun f => match m.idx[f]?, m.tri? f with
              | some i, some t => some (i, t) | _, _ => none
            let un := fun (t : Triangle3 Float) => let n := (t.b.sub t.a).cross (t.c.sub t.a); n.sdiv n.norm
            let close := fun (x y : V3 Float) => (x.sub y).norm ≤ 1e-9 * (1.0 + y.norm)
            let vexp := fun (v : Nat) => tris.foldl (fun (acc : V3 Float) ((i0, i1, i2), t) =>
              let acc := if i0 = v then acc.add ((un t).smul (ang (t.b.sub t.a) (t.c.sub t.a))) else acc
              let acc := if i1 = v then acc.add ((un t).smul (ang (t.a.sub t.b) (t.c.sub t.b))) else acc
              if i2 = v then acc.add ((un t).smul (ang (t.a.sub t.c) (t.b.sub t.c))) else acc) ⟨0.0, 0.0, 0.0⟩
            let eexp := fun (x y : Nat) => tris.foldl (fun (acc : V3 Float) ((i0, i1, i2), t) =>
              if (x = i0 || x = i1 || x = i2) && (y = i0 || y = i1 || y = i2) then acc.add (un t) else acc) ⟨0.0, 0.0, 0.0⟩
            if vs.length != m.verts.size || es.length != m.idx.size then "fail pseudo-normal-count" else
            match (List.range vs.length).find? (fun v => !(close (vs.getD v nan3) (vexp v))) with
            | some v => s!"fail vertex-pseudo-normal-not-angle-weighted v={v}"
            | none =>
              match (List.range es.length).find? (fun f => match m.idx[f]?, es[f]? with
                  | some (i0, i1, i2), some (e0, e1, e2) => !(close e0 (eexp i0 i1) && close e1 (eexp i1 i2) && close e2 (eexp i2 i0))
                  | _, _ => true) with
              | some f => s!"fail edge-pseudo-normal-not-face-sum f={f}"
              | none => "pass"
        | none => "skip bad-args" }
  | _ => mk D3 Htm op

/-! ### height field -/

def phf : P (HField Float) := do
  let nr ← pnat; let nc ← pnat
  let rec go {α} (p : P α) : Nat → P (List α)
    | 0 => pure []
    | k+1 => do let x ← p; let xs ← go p k; pure (x :: xs)
  let hs ← go pf (nr * nc)
  let st ← go pnat ((nr - 1) * (nc - 1))
  let sc ← pv3
  pure ⟨nr, nc, hs.toArray, st.toArray, sc⟩

def flF (x : Float) : Int := (Float.floor x).toInt64.toInt
def ceF (x : Float) : Int := (Float.ceil x).toInt64.toInt

/-- the exact surface: `(id, a, b, c)` for every triangle that exists -/
def hfTrisQ (f : HField Float) : List (Nat × V3 Rat × V3 Rat × V3 Rat) :=
  let sc := q3 f.scale
  let nrc := f.nr - 1; let ncc := f.nc - 1
  (List.range ncc).flatMap fun j => (List.range nrc).flatMap fun i =>
    match f.st? i j, f.h? i j, f.h? (i+1) j, f.h? i (j+1), f.h? (i+1) (j+1) with
    | some s, some y00, some y10, some y01, some y11 =>
      let X := fun (jj : Nat) => (-(1:Rat)/2 + (jj : Rat) / (ncc : Rat)) * sc.x
      let Z := fun (ii : Nat) => (-(1:Rat)/2 + (ii : Rat) / (nrc : Rat)) * sc.z
      let p00 : V3 Rat := ⟨X j, q y00 * sc.y, Z i⟩
      let p10 : V3 Rat := ⟨X j, q y10 * sc.y, Z (i+1)⟩
      let p01 : V3 Rat := ⟨X (j+1), q y01 * sc.y, Z i⟩
      let p11 : V3 Rat := ⟨X (j+1), q y11 * sc.y, Z (i+1)⟩
      let zz := s % 2 == 1
      let l := if (s / 2) % 2 == 1 then [] else [(j * nrc + i, if zz then (p00, p10, p11) else (p00, p10, p01))]
      let r := if (s / 4) % 2 == 1 then [] else [(j * nrc + i + nrc * ncc, if zz then (p00, p11, p01) else (p10, p11, p01))]
      l ++ r
    | _, _, _, _, _ => []

def hfValid (f : HField Float) : Bool :=
  2 ≤ f.nr && 2 ≤ f.nc && f.heights.size == f.nr * f.nc && f.status.size == (f.nr - 1) * (f.nc - 1) &&
  f.heights.toList.all FloatIO.isFinite && finite3 f.scale && 0 < q f.scale.x && 0 < q f.scale.y && 0 < q f.scale.z

def hfSpec (f : HField Float) : Spec V3 :=
  let ts := (hfTrisQ f).map (·.2)
  let bd := fun p => match trisDist2 ts p with | some d => rsqrt d | none => 0
  { valid := hfValid f && !ts.isEmpty
    mem := fun p => trisDist2 ts p == some 0
    dist := bd
    bdist := bd }

def hfProj (f : HField Float) (p : V3 Float) (_so : Bool) : Bool × V3 Float :=
  match hfProject f p with | some pp => (pp.inside, pp.pt) | none => (false, nan3)

def Hhf : ShapeH V3 Iso3 (HField Float) where
  parse := phf
  project := hfProj
  distance := fun s p so => defaultDistance3 (fun x b => unpp3 (hfProj s x b)) p so
  contains := fun _ _ => false
  feature := fun s p => (hfProj s p false, Feat.unknown)
  spec := hfSpec
  featOk := fun _ _ _ _ => false

def hfMaxModel (f : HField Float) (p : V3 Float) (so : Bool) (d : Float) (post : V3 Float → V3 Float) : String :=
  match hfProjectMaxDist flF ceF f p so d with
  | none => "panic"
  | some none => "none"
  | some (some pp) => s!"some {fb pp.inside} {fv3 (post pp.pt)}"

def hfMaxJudge (f : HField Float) (P : V3 Rat) (so : Bool) (d : Rat) (o : List String) (back : V3 Rat → V3 Rat) : String :=
  let S := hfSpec f
  if !S.valid then "skip shape-outside-domain" else
  let best := S.bdist P
  let t := ftol D3 P P
  match o with
  | ["none"] => if d ≤ best + t then "pass" else s!"fail none-within-bound best={rf best} bound={rf d}"
  | "some" :: rest => withOut (ppOut D3) rest fun (ins, pr) =>
      if vNan D3 pr then "fail nan-projection"
      else if !(best ≤ d + t) then s!"fail some-beyond-bound best={rf best}"
      else judgeProj D3 S P so ins (back (q3 pr))
  | _ => "fail unparsable-output"

def near3q (a b : V3 Rat) (t : Rat) : Bool := rabs (a.x - b.x) ≤ t && rabs (a.y - b.y) ≤ t && rabs (a.z - b.z) ≤ t

def hfHandler (op : String) : Option Handler :=
  match op with
  | "maxd" => some {
      model := fun a => run (do let f ← phf; let p ← pv3; let so ← pbool; let d ← pf; pure (hfMaxModel f p so d id)) a
      oracle := fun a o => match run (do let f ← phf; let p ← pv3; let so ← pbool; let d ← pf; pure (f, p, so, d)) a with
        | some (f, p, so, d) => hfMaxJudge f (q3 p) so (q d) o id
        | none => "skip bad-args" }
  | "wmaxd" => some {
      model := fun a => run (do let f ← phf; let m ← piso3; let p ← pv3; let so ← pbool; let d ← pf
                                pure (hfMaxModel f (m.invAct p) so d m.act)) a
      oracle := fun a o => match run (do let f ← phf; let m ← piso3; let p ← pv3; let so ← pbool; let d ← pf; pure (f, m, p, so, d)) a with
        | some (f, m, p, so, d) =>
          let M := qiso3 m
          if !D3.isoOk M then "skip non-unit-rotation" else hfMaxJudge f (M.invAct (q3 p)) so (q d) o M.invAct
        | none => "skip bad-args" }
  | "map" => some {
      model := fun a => run (do let f ← phf; let lo ← pv3; let hi ← pv3
                                match hfMapElements flF ceF f lo hi with
                                | none => pure "panic"
                                | some ts => pure (s!"{ts.length} " ++ String.intercalate " "
                                    (ts.map fun (id, t) => s!"{id} {fv3 t.a} {fv3 t.b} {fv3 t.c}")).trimAsciiEnd.toString) a
      oracle := fun a o => match run (do let f ← phf; let lo ← pv3; let hi ← pv3; pure (f, lo, hi)) a with
        | some (f, lo, hi) =>
          if !hfValid f then "skip shape-outside-domain" else
          withOut (plist (do let id ← pnat; let x ← pvo3; let y ← pvo3; let z ← pvo3; pure (id, x, y, z))) o fun out =>
            let ts := hfTrisQ f
            let L := q3 lo; let H := q3 hi
            let t := tol * (1 + D3.norm1Q L + D3.norm1Q H + D3.norm1Q (q3 f.scale))
            let ids := out.map (·.1)
            let mn := fun (a b c : Rat) => rmin a (rmin b c)
            let mx := fun (a b c : Rat) => rmax a (rmax b c)
            -- overlap deeper than the tolerance on all three axes
            let meets := fun ((a, b, c) : V3 Rat × V3 Rat × V3 Rat) =>
              mn a.x b.x c.x + t < H.x && L.x + t < mx a.x b.x c.x &&
              mn a.y b.y c.y + t < H.y && L.y + t < mx a.y b.y c.y &&
              mn a.z b.z c.z + t < H.z && L.z + t < mx a.z b.z c.z
            match ts.find? (fun (id, tr) => meets tr && ids.count id != 1) with
            | some (id, _) => s!"fail triangle-meeting-box-not-emitted-exactly-once id={id} count={ids.count id}"
            | none =>
              match out.find? (fun (id, x, y, z) => ids.count id != 1 || match ts.find? (fun e => e.1 == id) with
                  | some (_, a, b, c) => !(near3q (q3 x) a t && near3q (q3 y) b t && near3q (q3 z) c t)
                  | none => true) with
              | some (id, _) => s!"fail emitted-triangle-wrong-or-duplicate id={id}"
              | none => "pass"
        | none => "skip bad-args" }
  | _ => mk D3 Hhf op

def meshHandler (fn : String) : Option Handler :=
  match fn.splitOn "_" with
  | ["tm", op] => tmHandler op
  | ["hf", op] => hfHandler op
  | _ => none

end C05
