import ParryModel.C05.Theorems
#print axioms C05.relEq_iff
#print axioms C05.seg3_project_mem
#print axioms C05.seg3_project_variational
#print axioms C05.seg3_project_optimal
#print axioms C05.seg3_location_sound
#print axioms C05.seg3_inside_of_mem
#print axioms C05.seg3_inside_iff_close
