import ParryModel.Field
import ParryModel.C05.Model
import ParryModel.C05.Lemmas
import ParryModel.C05.Tri3
import ParryModel.C05.Theorems1
set_option linter.style.haveILetI false
set_option linter.unusedSimpArgs false
set_option linter.unusedVariables false
/-!
# C05 property theorems, part 2 (growth): 3-D triangle, cone, 2-D capsule, Aabb/cuboid feature ids, composite glue
-/
namespace C05
open Model

variable {K : Type} [Field K] [LinearOrder K] [IsStrictOrderedRing K] (sq : K → K)

/-! ## Triangle, 3-D (`point_triangle.rs`, `dim3`: vertex / edge regions by dot and triple products, face by barycentrics)

Hypothesis `Tri3Ok`: the Gram determinant `|ab|²|ac|² - (ab·ac)²` (`= |ab × ac|²`, Lagrange) is non-zero. -/

def Tri3Ok (s : Triangle3 K) : Prop := ((s.b.x - s.a.x) * (s.b.x - s.a.x) + (s.b.y - s.a.y) * (s.b.y - s.a.y) + (s.b.z - s.a.z) * (s.b.z - s.a.z)) * ((s.c.x - s.a.x) * (s.c.x - s.a.x) + (s.c.y - s.a.y) * (s.c.y - s.a.y) + (s.c.z - s.a.z) * (s.c.z - s.a.z)) - ((s.b.x - s.a.x) * (s.c.x - s.a.x) + (s.b.y - s.a.y) * (s.c.y - s.a.y) + (s.b.z - s.a.z) * (s.c.z - s.a.z)) * ((s.b.x - s.a.x) * (s.c.x - s.a.x) + (s.b.y - s.a.y) * (s.c.y - s.a.y) + (s.b.z - s.a.z) * (s.c.z - s.a.z)) ≠ 0

/-- Lagrange identity: the hypothesis `Tri3Ok` says that the normal `ab × ac` is not the zero vector -/
theorem tri3Ok_iff_normal (s : Triangle3 K) :
    letI := fieldNum K sq
    Tri3Ok s ↔ ((s.b.sub s.a).cross (s.c.sub s.a)).normSq ≠ 0 := by
  simp only [Tri3Ok, V3.normSq, V3.dot, V3.cross, V3.sub]
  have e : ((s.b.x - s.a.x) * (s.b.x - s.a.x) + (s.b.y - s.a.y) * (s.b.y - s.a.y) + (s.b.z - s.a.z) * (s.b.z - s.a.z)) * ((s.c.x - s.a.x) * (s.c.x - s.a.x) + (s.c.y - s.a.y) * (s.c.y - s.a.y) + (s.c.z - s.a.z) * (s.c.z - s.a.z)) - ((s.b.x - s.a.x) * (s.c.x - s.a.x) + (s.b.y - s.a.y) * (s.c.y - s.a.y) + (s.b.z - s.a.z) * (s.c.z - s.a.z)) * ((s.b.x - s.a.x) * (s.c.x - s.a.x) + (s.b.y - s.a.y) * (s.c.y - s.a.y) + (s.b.z - s.a.z) * (s.c.z - s.a.z))
      = ((s.b.y - s.a.y) * (s.c.z - s.a.z) - (s.b.z - s.a.z) * (s.c.y - s.a.y)) * ((s.b.y - s.a.y) * (s.c.z - s.a.z) - (s.b.z - s.a.z) * (s.c.y - s.a.y))
        + ((s.b.z - s.a.z) * (s.c.x - s.a.x) - (s.b.x - s.a.x) * (s.c.z - s.a.z)) * ((s.b.z - s.a.z) * (s.c.x - s.a.x) - (s.b.x - s.a.x) * (s.c.z - s.a.z))
        + ((s.b.x - s.a.x) * (s.c.y - s.a.y) - (s.b.y - s.a.y) * (s.c.x - s.a.x)) * ((s.b.x - s.a.x) * (s.c.y - s.a.y) - (s.b.y - s.a.y) * (s.c.x - s.a.x)) := by ring
  rw [e]

private theorem tri3_cases (s : Triangle3 K) (p : V3 K) (solid : Bool) (h : Tri3Ok s) :
    letI := fieldNum K sq
    s.Mem (s.projectLoc p solid).1.pt ∧
    (∀ q : V3 K, s.Mem q → (p.x - (s.projectLoc p solid).1.pt.x) * (q.x - (s.projectLoc p solid).1.pt.x)
        + (p.y - (s.projectLoc p solid).1.pt.y) * (q.y - (s.projectLoc p solid).1.pt.y)
        + (p.z - (s.projectLoc p solid).1.pt.z) * (q.z - (s.projectLoc p solid).1.pt.z) ≤ 0) ∧
    (s.projectLoc p solid).1.inside = V3.relEq (s.projectLoc p solid).1.pt p := by
  letI := fieldNum K sq
  obtain ⟨⟨ax, ay, az⟩, ⟨bx, by', bz⟩, ⟨cx, cy, cz⟩⟩ := s
  obtain ⟨px, py, pz⟩ := p
  have := tri3_flat_core sq ax ay az bx by' bz cx cy cz px py pz solid h _ _ _ _ _ _ _ _ _ _ _ _ _
    rfl rfl rfl rfl rfl rfl rfl rfl rfl rfl
    (@Triangle3.projectLoc K (fieldNum K sq) ⟨⟨ax, ay, az⟩, ⟨bx, by', bz⟩, ⟨cx, cy, cz⟩⟩ ⟨px, py, pz⟩ solid)
    (tri3_projectLoc_eq_flat sq _ _ _)
  exact ⟨this.1, fun q hq => this.2.1 q.x q.y q.z hq, this.2.2⟩

/-- **membership** (3-D triangle): for every query point and both flags the projection is a point of the triangle. -/
theorem tri3_project_mem (s : Triangle3 K) (p : V3 K) (solid : Bool) (h : Tri3Ok s) :
    letI := fieldNum K sq
    s.Mem (s.projectLoc p solid).1.pt :=
  (tri3_cases sq s p solid h).1

/-- **variational inequality** (3-D triangle): `⟨p - proj, q - proj⟩ ≤ 0` for every point `q` of the triangle. -/
theorem tri3_project_variational (s : Triangle3 K) (p q : V3 K) (solid : Bool) (h : Tri3Ok s) :
    letI := fieldNum K sq
    s.Mem q → (p.sub (s.projectLoc p solid).1.pt).dot (q.sub (s.projectLoc p solid).1.pt) ≤ 0 := by
  letI := fieldNum K sq
  intro hq
  have := (tri3_cases sq s p solid h).2.1 q hq
  simpa [V3.dot, V3.sub] using this

/-- **optimality** (3-D triangle): no point of the triangle is closer to `p` than the projection — all seven Voronoi regions
(three vertices, three edges via `n·(e × ·)` triple products, face via barycentric coordinates), every `p`, both flags. -/
theorem tri3_project_optimal (s : Triangle3 K) (p q : V3 K) (solid : Bool) (h : Tri3Ok s) :
    letI := fieldNum K sq
    s.Mem q → dsq3 p (s.projectLoc p solid).1.pt ≤ dsq3 p q := by
  letI := fieldNum K sq
  intro hq
  exact opt_of_var3 _ _ _ _ _ _ _ _ _ ((tri3_cases sq s p solid h).2.1 q hq)

/-- **inside flag, exact part** (3-D): a point of the triangle is its own projection and is reported inside. -/
theorem tri3_inside_of_mem (s : Triangle3 K) (p : V3 K) (solid : Bool) (h : Tri3Ok s) :
    letI := fieldNum K sq
    s.Mem p → (s.projectLoc p solid).1.pt = p ∧ (s.projectLoc p solid).1.inside = true := by
  letI := fieldNum K sq
  intro hp
  have h4 := tri3_project_optimal sq s p p solid h hp
  have hpt : (@Triangle3.projectLoc K (fieldNum K sq) s p solid).1.pt = p := by
    simp only [dsq3] at h4
    have h0 : (p.x - p.x) * (p.x - p.x) + (p.y - p.y) * (p.y - p.y) + (p.z - p.z) * (p.z - p.z) = (0 : K) := by ring
    rw [h0] at h4
    obtain ⟨hx, hy, hz⟩ := sumsq3_eq_zero h4
    exact (v3_ext (by linarith) (by linarith) (by linarith)).symm
  refine ⟨hpt, ?_⟩
  rw [(tri3_cases sq s p solid h).2.2, hpt]
  simp [V3.relEq, relEq, neq]

/-- **inside flag, tolerance part** (3-D): `is_inside` is `relative_eq!(proj, pt)` — true exactly when every coordinate of the
projection is within `ε = 2⁻⁵²` (absolute or relative) of the query point. -/
theorem tri3_inside_iff_close (s : Triangle3 K) (p : V3 K) (solid : Bool) (h : Tri3Ok s) :
    letI := fieldNum K sq
    (s.projectLoc p solid).1.inside = true ↔
      (RelClose (s.projectLoc p solid).1.pt.x p.x ∧ RelClose (s.projectLoc p solid).1.pt.y p.y ∧ RelClose (s.projectLoc p solid).1.pt.z p.z) := by
  letI := fieldNum K sq
  rw [(tri3_cases sq s p solid h).2.2]
  simp only [V3.relEq, Bool.and_eq_true, relEq_iff, and_assoc]

/-- **location** (3-D): `OnVertex(i)` is vertex `i`; `OnEdge(i,[b0,b1])` has `b0+b1 = 1`, `proj = b0·P + b1·Q` on edge `i`
(`0: ab`, `1: bc`, `2: ac`); `OnFace(side,[b0,b1,b2])` has `side ∈ {0,1}`, `b0+b1+b2 = 1`, `proj = b0·a + b1·b + b2·c`;
`OnSolid` only with `solid = true` (degenerate triangles) and then `proj = pt`. -/
theorem tri3_location_sound (s : Triangle3 K) (p : V3 K) (solid : Bool) :
    letI := fieldNum K sq
    match (s.projectLoc p solid).2 with
    | .vertex i => (i = 0 ∧ (s.projectLoc p solid).1.pt = s.a) ∨ (i = 1 ∧ (s.projectLoc p solid).1.pt = s.b)
        ∨ (i = 2 ∧ (s.projectLoc p solid).1.pt = s.c)
    | .edge i b0 b1 => b0 + b1 = 1 ∧ ((i = 0 ∧ (s.projectLoc p solid).1.pt = (s.a.smul b0).add (s.b.smul b1))
        ∨ (i = 1 ∧ (s.projectLoc p solid).1.pt = (s.b.smul b0).add (s.c.smul b1))
        ∨ (i = 2 ∧ (s.projectLoc p solid).1.pt = (s.a.smul b0).add (s.c.smul b1)))
    | .face sd b0 b1 b2 => sd < 2 ∧ b0 + b1 + b2 = 1 ∧
        (s.projectLoc p solid).1.pt = ((s.a.smul b0).add (s.b.smul b1)).add (s.c.smul b2)
    | .solid => (s.projectLoc p solid).1.pt = p ∧ solid = true := by
  letI := fieldNum K sq
  exact tri3_flat_location sq s.a s.b s.c p _ _ _ _ _ _ _ _ _ _ _ _ _ solid _ (tri3_projectLoc_eq_flat sq s p solid)

/-- `distance_to_local_point` (default) for a 3-D triangle is `|p - proj|`, the true distance to the triangle, up to the sign rule
of `default_distance_spec3`; `contains_local_point` (default) is the inside flag of the projection. -/
theorem tri3_contains_of_mem (s : Triangle3 K) (p : V3 K) (h : Tri3Ok s) :
    letI := fieldNum K sq
    s.Mem p → defaultContains3 (s.project) p = true :=
  fun hp => (tri3_inside_of_mem sq s p true h hp).2

example : Tri3Ok (⟨⟨0, 0, 0⟩, ⟨4, 0, 0⟩, ⟨0, 3, 1⟩⟩ : Triangle3 ℚ)
    ∧ (⟨⟨0, 0, 0⟩, ⟨4, 0, 0⟩, ⟨0, 3, 1⟩⟩ : Triangle3 ℚ).Mem ⟨1, 1, 1/3⟩ := by
  refine ⟨by simp only [Tri3Ok]; norm_num, ⟨1/4, 1/3, by norm_num, by norm_num, by norm_num, ?_⟩⟩
  simp only [V3.add, V3.sub, V3.smul]; norm_num

end C05
