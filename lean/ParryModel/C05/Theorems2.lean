import ParryModel.Field
import ParryModel.C05.Model
import ParryModel.C05.Lemmas
import ParryModel.C05.Tri3
import ParryModel.C05.Theorems1
import ParryModel.C07.Theorems
set_option linter.style.haveILetI false
set_option linter.unusedSimpArgs false
set_option linter.unusedVariables false
/-!
# C05 property theorems, part 2 (growth): 3-D triangle, cone, 2-D capsule, Aabb/cuboid feature ids, composite glue
-/
namespace C05
open Model

variable {K : Type} [Field K] [LinearOrder K] [IsStrictOrderedRing K] (sq : K → K)

/-! ## Triangle, 3-D (`point_triangle.rs`, `dim3`: vertex / edge regions by dot and triple products, face by barycentrics)

Hypothesis `Tri3Ok`: the Gram determinant `|ab|²|ac|² - (ab·ac)²` (`= |ab × ac|²`, Lagrange) is non-zero. -/

def Tri3Ok (s : Triangle3 K) : Prop := ((s.b.x - s.a.x) * (s.b.x - s.a.x) + (s.b.y - s.a.y) * (s.b.y - s.a.y) + (s.b.z - s.a.z) * (s.b.z - s.a.z)) * ((s.c.x - s.a.x) * (s.c.x - s.a.x) + (s.c.y - s.a.y) * (s.c.y - s.a.y) + (s.c.z - s.a.z) * (s.c.z - s.a.z)) - ((s.b.x - s.a.x) * (s.c.x - s.a.x) + (s.b.y - s.a.y) * (s.c.y - s.a.y) + (s.b.z - s.a.z) * (s.c.z - s.a.z)) * ((s.b.x - s.a.x) * (s.c.x - s.a.x) + (s.b.y - s.a.y) * (s.c.y - s.a.y) + (s.b.z - s.a.z) * (s.c.z - s.a.z)) ≠ 0

/-- Lagrange identity: the hypothesis `Tri3Ok` says that the normal `ab × ac` is not the zero vector -/
theorem tri3Ok_iff_normal (s : Triangle3 K) :
    letI := fieldNum K sq
    Tri3Ok s ↔ ((s.b.sub s.a).cross (s.c.sub s.a)).normSq ≠ 0 := by
  simp only [Tri3Ok, V3.normSq, V3.dot, V3.cross, V3.sub]
  have e : ((s.b.x - s.a.x) * (s.b.x - s.a.x) + (s.b.y - s.a.y) * (s.b.y - s.a.y) + (s.b.z - s.a.z) * (s.b.z - s.a.z)) * ((s.c.x - s.a.x) * (s.c.x - s.a.x) + (s.c.y - s.a.y) * (s.c.y - s.a.y) + (s.c.z - s.a.z) * (s.c.z - s.a.z)) - ((s.b.x - s.a.x) * (s.c.x - s.a.x) + (s.b.y - s.a.y) * (s.c.y - s.a.y) + (s.b.z - s.a.z) * (s.c.z - s.a.z)) * ((s.b.x - s.a.x) * (s.c.x - s.a.x) + (s.b.y - s.a.y) * (s.c.y - s.a.y) + (s.b.z - s.a.z) * (s.c.z - s.a.z))
      = ((s.b.y - s.a.y) * (s.c.z - s.a.z) - (s.b.z - s.a.z) * (s.c.y - s.a.y)) * ((s.b.y - s.a.y) * (s.c.z - s.a.z) - (s.b.z - s.a.z) * (s.c.y - s.a.y))
        + ((s.b.z - s.a.z) * (s.c.x - s.a.x) - (s.b.x - s.a.x) * (s.c.z - s.a.z)) * ((s.b.z - s.a.z) * (s.c.x - s.a.x) - (s.b.x - s.a.x) * (s.c.z - s.a.z))
        + ((s.b.x - s.a.x) * (s.c.y - s.a.y) - (s.b.y - s.a.y) * (s.c.x - s.a.x)) * ((s.b.x - s.a.x) * (s.c.y - s.a.y) - (s.b.y - s.a.y) * (s.c.x - s.a.x)) := by ring
  rw [e]

private theorem tri3_cases (s : Triangle3 K) (p : V3 K) (solid : Bool) (h : Tri3Ok s) :
    letI := fieldNum K sq
    s.Mem (s.projectLoc p solid).1.pt ∧
    (∀ q : V3 K, s.Mem q → (p.x - (s.projectLoc p solid).1.pt.x) * (q.x - (s.projectLoc p solid).1.pt.x)
        + (p.y - (s.projectLoc p solid).1.pt.y) * (q.y - (s.projectLoc p solid).1.pt.y)
        + (p.z - (s.projectLoc p solid).1.pt.z) * (q.z - (s.projectLoc p solid).1.pt.z) ≤ 0) ∧
    (s.projectLoc p solid).1.inside = V3.relEq (s.projectLoc p solid).1.pt p := by
  letI := fieldNum K sq
  obtain ⟨⟨ax, ay, az⟩, ⟨bx, by', bz⟩, ⟨cx, cy, cz⟩⟩ := s
  obtain ⟨px, py, pz⟩ := p
  have := tri3_flat_core sq ax ay az bx by' bz cx cy cz px py pz solid h _ _ _ _ _ _ _ _ _ _ _ _ _
    rfl rfl rfl rfl rfl rfl rfl rfl rfl rfl
    (@Triangle3.projectLoc K (fieldNum K sq) ⟨⟨ax, ay, az⟩, ⟨bx, by', bz⟩, ⟨cx, cy, cz⟩⟩ ⟨px, py, pz⟩ solid)
    (tri3_projectLoc_eq_flat sq _ _ _)
  exact ⟨this.1, fun q hq => this.2.1 q.x q.y q.z hq, this.2.2⟩

/-- **membership** (3-D triangle): for every query point and both flags the projection is a point of the triangle. -/
theorem tri3_project_mem (s : Triangle3 K) (p : V3 K) (solid : Bool) (h : Tri3Ok s) :
    letI := fieldNum K sq
    s.Mem (s.projectLoc p solid).1.pt :=
  (tri3_cases sq s p solid h).1

/-- **variational inequality** (3-D triangle): `⟨p - proj, q - proj⟩ ≤ 0` for every point `q` of the triangle. -/
theorem tri3_project_variational (s : Triangle3 K) (p q : V3 K) (solid : Bool) (h : Tri3Ok s) :
    letI := fieldNum K sq
    s.Mem q → (p.sub (s.projectLoc p solid).1.pt).dot (q.sub (s.projectLoc p solid).1.pt) ≤ 0 := by
  letI := fieldNum K sq
  intro hq
  have := (tri3_cases sq s p solid h).2.1 q hq
  simpa [V3.dot, V3.sub] using this

/-- **optimality** (3-D triangle): no point of the triangle is closer to `p` than the projection — all seven Voronoi regions
(three vertices, three edges via `n·(e × ·)` triple products, face via barycentric coordinates), every `p`, both flags. -/
theorem tri3_project_optimal (s : Triangle3 K) (p q : V3 K) (solid : Bool) (h : Tri3Ok s) :
    letI := fieldNum K sq
    s.Mem q → dsq3 p (s.projectLoc p solid).1.pt ≤ dsq3 p q := by
  letI := fieldNum K sq
  intro hq
  exact opt_of_var3 _ _ _ _ _ _ _ _ _ ((tri3_cases sq s p solid h).2.1 q hq)

/-- **inside flag, exact part** (3-D): a point of the triangle is its own projection and is reported inside. -/
theorem tri3_inside_of_mem (s : Triangle3 K) (p : V3 K) (solid : Bool) (h : Tri3Ok s) :
    letI := fieldNum K sq
    s.Mem p → (s.projectLoc p solid).1.pt = p ∧ (s.projectLoc p solid).1.inside = true := by
  letI := fieldNum K sq
  intro hp
  have h4 := tri3_project_optimal sq s p p solid h hp
  have hpt : (@Triangle3.projectLoc K (fieldNum K sq) s p solid).1.pt = p := by
    simp only [dsq3] at h4
    have h0 : (p.x - p.x) * (p.x - p.x) + (p.y - p.y) * (p.y - p.y) + (p.z - p.z) * (p.z - p.z) = (0 : K) := by ring
    rw [h0] at h4
    obtain ⟨hx, hy, hz⟩ := sumsq3_eq_zero h4
    exact (v3_ext (by linarith) (by linarith) (by linarith)).symm
  refine ⟨hpt, ?_⟩
  rw [(tri3_cases sq s p solid h).2.2, hpt]
  simp [V3.relEq, relEq, neq]

/-- **inside flag, tolerance part** (3-D): `is_inside` is `relative_eq!(proj, pt)` — true exactly when every coordinate of the
projection is within `ε = 2⁻⁵²` (absolute or relative) of the query point. -/
theorem tri3_inside_iff_close (s : Triangle3 K) (p : V3 K) (solid : Bool) (h : Tri3Ok s) :
    letI := fieldNum K sq
    (s.projectLoc p solid).1.inside = true ↔
      (RelClose (s.projectLoc p solid).1.pt.x p.x ∧ RelClose (s.projectLoc p solid).1.pt.y p.y ∧ RelClose (s.projectLoc p solid).1.pt.z p.z) := by
  letI := fieldNum K sq
  rw [(tri3_cases sq s p solid h).2.2]
  simp only [V3.relEq, Bool.and_eq_true, relEq_iff, and_assoc]

/-- **location** (3-D): `OnVertex(i)` is vertex `i`; `OnEdge(i,[b0,b1])` has `b0+b1 = 1`, `proj = b0·P + b1·Q` on edge `i`
(`0: ab`, `1: bc`, `2: ac`); `OnFace(side,[b0,b1,b2])` has `side ∈ {0,1}`, `b0+b1+b2 = 1`, `proj = b0·a + b1·b + b2·c`;
`OnSolid` only with `solid = true` (degenerate triangles) and then `proj = pt`. -/
theorem tri3_location_sound (s : Triangle3 K) (p : V3 K) (solid : Bool) :
    letI := fieldNum K sq
    match (s.projectLoc p solid).2 with
    | .vertex i => (i = 0 ∧ (s.projectLoc p solid).1.pt = s.a) ∨ (i = 1 ∧ (s.projectLoc p solid).1.pt = s.b)
        ∨ (i = 2 ∧ (s.projectLoc p solid).1.pt = s.c)
    | .edge i b0 b1 => b0 + b1 = 1 ∧ ((i = 0 ∧ (s.projectLoc p solid).1.pt = (s.a.smul b0).add (s.b.smul b1))
        ∨ (i = 1 ∧ (s.projectLoc p solid).1.pt = (s.b.smul b0).add (s.c.smul b1))
        ∨ (i = 2 ∧ (s.projectLoc p solid).1.pt = (s.a.smul b0).add (s.c.smul b1)))
    | .face sd b0 b1 b2 => sd < 2 ∧ b0 + b1 + b2 = 1 ∧
        (s.projectLoc p solid).1.pt = ((s.a.smul b0).add (s.b.smul b1)).add (s.c.smul b2)
    | .solid => (s.projectLoc p solid).1.pt = p ∧ solid = true := by
  letI := fieldNum K sq
  exact tri3_flat_location sq s.a s.b s.c p _ _ _ _ _ _ _ _ _ _ _ _ _ solid _ (tri3_projectLoc_eq_flat sq s p solid)

/-- `distance_to_local_point` (default) for a 3-D triangle is `|p - proj|`, the true distance to the triangle, up to the sign rule
of `default_distance_spec3`; `contains_local_point` (default) is the inside flag of the projection. -/
theorem tri3_contains_of_mem (s : Triangle3 K) (p : V3 K) (h : Tri3Ok s) :
    letI := fieldNum K sq
    s.Mem p → defaultContains3 (s.project) p = true :=
  fun hp => (tri3_inside_of_mem sq s p true h hp).2

example : Tri3Ok (⟨⟨0, 0, 0⟩, ⟨4, 0, 0⟩, ⟨0, 3, 1⟩⟩ : Triangle3 ℚ)
    ∧ (⟨⟨0, 0, 0⟩, ⟨4, 0, 0⟩, ⟨0, 3, 1⟩⟩ : Triangle3 ℚ).Mem ⟨1, 1, 1/3⟩ := by
  refine ⟨by simp only [Tri3Ok]; norm_num, ⟨1/4, 1/3, by norm_num, by norm_num, by norm_num, ?_⟩⟩
  simp only [V3.add, V3.sub, V3.smul]; norm_num

/-! ## Cone (`point_cone.rs`): apex `(0,hh,0)`, base disc of radius `r` in the plane `y = -hh`

The code works in the half-plane through the axis and the query point: it projects on the base (`y < -hh`, `ρ ≤ r`) or on the
slanted segment apex → rim point `(r·d, -hh)`, `d` the radial unit direction; an interior point with `solid = false` takes the
nearer of the two. -/

/-- domain: positive half-height, radius at least `ε = 2⁻⁵²` -/
def ConeOk (s : Cone K) : Prop := 0 < s.hh ∧ ((mkRat 1 4503599627370496 : ℚ) : K) ≤ s.r
/-- the radial distance of the query point is `0` or `> ε` (below `ε` the code substitutes the direction `(1,0)`) -/
def RadOk (p : V3 K) : Prop :=
  p.x * p.x + p.z * p.z = 0 ∨ ((mkRat 1 4503599627370496 : ℚ) : K) * ((mkRat 1 4503599627370496 : ℚ) : K) < p.x * p.x + p.z * p.z
/-- surface of the cone: a member on the base plane or on the lateral surface -/
def ConeBnd (s : Cone K) (x : V3 K) : Prop :=
  letI := fieldNum K sq
  s.Mem x ∧ (x.y = -s.hh ∨ (x.x * x.x + x.z * x.z) * ((2 * s.hh) * (2 * s.hh)) = (s.r * s.r) * ((s.hh - x.y) * (s.hh - x.y)))

/-- the radial direction used by the code: a unit vector, equal to `(x,z)/ρ` when `ρ > ε` -/
private theorem cone_dir (hs : LawfulSqrt sq) (x z : K) :
    letI := fieldNum K sq
    0 ≤ (⟨x, z⟩ : V2 K).norm ∧ (⟨x, z⟩ : V2 K).norm * (⟨x, z⟩ : V2 K).norm = x * x + z * z ∧
    ((if (⟨x, z⟩ : V2 K).norm ≤ eps then (⟨1, 0⟩ : V2 K) else (⟨x, z⟩ : V2 K).sdiv (⟨x, z⟩ : V2 K).norm).normSq = 1) ∧
    (((mkRat 1 4503599627370496 : ℚ) : K) < (⟨x, z⟩ : V2 K).norm →
      x = (if (⟨x, z⟩ : V2 K).norm ≤ eps then (⟨1, 0⟩ : V2 K) else (⟨x, z⟩ : V2 K).sdiv (⟨x, z⟩ : V2 K).norm).x * (⟨x, z⟩ : V2 K).norm ∧
      z = (if (⟨x, z⟩ : V2 K).norm ≤ eps then (⟨1, 0⟩ : V2 K) else (⟨x, z⟩ : V2 K).sdiv (⟨x, z⟩ : V2 K).norm).y * (⟨x, z⟩ : V2 K).norm) := by
  letI := fieldNum K sq
  have he := eps_pos (K := K)
  have hnn : 0 ≤ x * x + z * z := by nlinarith [mul_self_nonneg x, mul_self_nonneg z]
  have h2 := hs.sq_mul _ hnn
  have h0 := hs.nonneg _ hnn
  have hnorm : (⟨x, z⟩ : V2 K).norm = sq (x * x + z * z) := by
    simp only [V2.norm, V2.normSq, V2.dot, fieldNum_sqrt]
  have heps : (eps : K) = ((mkRat 1 4503599627370496 : ℚ) : K) := by simp only [eps, fieldNum_lit]
  by_cases c : (⟨x, z⟩ : V2 K).norm ≤ eps
  · rw [if_pos c]
    rw [hnorm, heps] at c
    rw [hnorm]
    exact ⟨h0, h2, by simp [V2.normSq, V2.dot], fun c' => absurd c (not_le.mpr c')⟩
  · rw [if_neg c]
    rw [hnorm, heps] at c
    rw [hnorm]
    push Not at c
    have hne : sq (x * x + z * z) ≠ 0 := ne_of_gt (lt_trans he c)
    refine ⟨h0, h2, ?_, fun _ => ?_⟩
    · simp only [V2.sdiv, V2.normSq, V2.dot]
      rw [div_mul_div_comm, div_mul_div_comm, ← add_div, h2]
      exact div_self (by rw [← h2]; exact mul_self_ne_zero.mpr hne)
    · simp only [V2.sdiv]
      exact ⟨(div_mul_cancel₀ x hne).symm, (div_mul_cancel₀ z hne).symm⟩

/-- structural description of `Cone::project_local_point`: radial distance `ρ`, radial unit direction `d`, the slanted segment
`apex → (r·d, -hh)` with the segment projection `P` of the query point, and which of the five result shapes was produced. -/
private theorem cone_cases (hs : LawfulSqrt sq) (s : Cone K) (p : V3 K) (solid : Bool) :
    letI := fieldNum K sq
    ∃ (ρ : K) (d : V2 K), 0 ≤ ρ ∧ ρ * ρ = p.x * p.x + p.z * p.z ∧ d.normSq = 1 ∧
      (((mkRat 1 4503599627370496 : ℚ) : K) < ρ → p.x = d.x * ρ ∧ p.z = d.y * ρ) ∧
      ((p.y < -s.hh ∧ ρ ≤ s.r ∧ s.project p solid = ⟨false, ⟨p.x, -s.hh, p.z⟩⟩) ∨
       (¬(p.y < -s.hh ∧ ρ ≤ s.r) ∧
        ((-s.hh ≤ p.y ∧ p.y ≤ s.hh ∧
            0 ≤ ((((⟨d.x * s.r, -s.hh, d.y * s.r⟩ : V3 K).sub ⟨0, s.hh, 0⟩).cross (p.sub ⟨0, s.hh, 0⟩)).dot
              (((⟨d.x * s.r, -s.hh, d.y * s.r⟩ : V3 K).sub ⟨0, s.hh, 0⟩).cross ⟨0, -2 * s.hh, 0⟩))) ∧
          ((solid = true ∧ s.project p solid = ⟨true, p⟩) ∨
           (solid = false ∧
              ((⟨p.x, -s.hh, p.z⟩ : V3 K).sub p).normSq < (((⟨⟨0, s.hh, 0⟩, ⟨d.x * s.r, -s.hh, d.y * s.r⟩⟩ : Segment3 K).projectLoc p).1.pt.sub p).normSq ∧
              s.project p solid = ⟨true, ⟨p.x, -s.hh, p.z⟩⟩) ∨
           (solid = false ∧
              ¬ ((⟨p.x, -s.hh, p.z⟩ : V3 K).sub p).normSq < (((⟨⟨0, s.hh, 0⟩, ⟨d.x * s.r, -s.hh, d.y * s.r⟩⟩ : Segment3 K).projectLoc p).1.pt.sub p).normSq ∧
              s.project p solid = ⟨true, ((⟨⟨0, s.hh, 0⟩, ⟨d.x * s.r, -s.hh, d.y * s.r⟩⟩ : Segment3 K).projectLoc p).1.pt⟩)) ∨
         (¬(-s.hh ≤ p.y ∧ p.y ≤ s.hh ∧
            0 ≤ ((((⟨d.x * s.r, -s.hh, d.y * s.r⟩ : V3 K).sub ⟨0, s.hh, 0⟩).cross (p.sub ⟨0, s.hh, 0⟩)).dot
              (((⟨d.x * s.r, -s.hh, d.y * s.r⟩ : V3 K).sub ⟨0, s.hh, 0⟩).cross ⟨0, -2 * s.hh, 0⟩))) ∧
          s.project p solid = ((⟨⟨0, s.hh, 0⟩, ⟨d.x * s.r, -s.hh, d.y * s.r⟩⟩ : Segment3 K).projectLoc p).1)))) := by
  letI := fieldNum K sq
  obtain ⟨f1, f2, f3, f4⟩ := cone_dir sq hs p.x p.z
  generalize hres : s.project p solid = res
  dsimp only [Cone.project] at hres
  generalize (⟨p.x, p.z⟩ : V2 K).norm = ρ at *
  generalize (if ρ ≤ eps then (⟨1, 0⟩ : V2 K) else (⟨p.x, p.z⟩ : V2 K).sdiv ρ) = d at *
  refine ⟨ρ, d, f1, f2, f3, f4, ?_⟩
  have h2 : (two : K) = 2 := fieldNum_two sq
  split_ifs at hres with c1 c2 c3 c4 <;> subst hres
  · exact Or.inl ⟨c1.1, c1.2, rfl⟩
  · refine Or.inr ⟨c1, Or.inl ⟨?_, Or.inl ⟨c3, rfl⟩⟩⟩
    simpa [V2.smul, h2] using c2
  · refine Or.inr ⟨c1, Or.inl ⟨?_, Or.inr (Or.inl ⟨by simpa using c3, c4, rfl⟩)⟩⟩
    simpa [V2.smul, h2] using c2
  · refine Or.inr ⟨c1, Or.inl ⟨?_, Or.inr (Or.inr ⟨by simpa using c3, c4, rfl⟩)⟩⟩
    simpa [V2.smul, h2] using c2
  · refine Or.inr ⟨c1, Or.inr ⟨?_, rfl⟩⟩
    simpa [V2.smul, h2] using c2

/-- membership in the cone in the radial half-plane: `-hh ≤ y ≤ hh` and `2hh·ρ ≤ r(hh - y)` -/
private theorem cone_mem_iff (s : Cone K) (p : V3 K) (ρ : K) (h0 : 0 ≤ ρ) (h2 : ρ * ρ = p.x * p.x + p.z * p.z)
    (hh0 : 0 < s.hh) (hr0 : 0 ≤ s.r) :
    letI := fieldNum K sq
    s.Mem p ↔ (-s.hh ≤ p.y ∧ p.y ≤ s.hh) ∧ 2 * s.hh * ρ ≤ s.r * (s.hh - p.y) := by
  letI := fieldNum K sq
  simp only [Cone.Mem, fieldNum_two]
  constructor
  · rintro ⟨⟨a, b⟩, c⟩
    refine ⟨⟨a, b⟩, ?_⟩
    apply le_of_mul_self_le (mul_nonneg hr0 (by linarith))
    rw [← h2] at c
    nlinarith
  · rintro ⟨⟨a, b⟩, c⟩
    refine ⟨⟨a, b⟩, ?_⟩
    rw [← h2]
    have := mul_self_le_mul_self (by positivity) c
    nlinarith

/-- the code's inside test `(segDir × (pt - apex))·(segDir × apexToBasis) ≥ 0` in closed form -/
private theorem cone_crossdot (s : Cone K) (d : V2 K) (p : V3 K) :
    letI := fieldNum K sq
    d.normSq = 1 →
    ((((⟨d.x * s.r, -s.hh, d.y * s.r⟩ : V3 K).sub ⟨0, s.hh, 0⟩).cross (p.sub ⟨0, s.hh, 0⟩)).dot
      (((⟨d.x * s.r, -s.hh, d.y * s.r⟩ : V3 K).sub ⟨0, s.hh, 0⟩).cross ⟨0, -2 * s.hh, 0⟩))
      = 2 * s.hh * s.r * (s.r * (s.hh - p.y) - 2 * s.hh * (d.x * p.x + d.y * p.z)) := by
  letI := fieldNum K sq
  intro hd
  simp only [V3.cross, V3.dot, V3.sub, V2.normSq, V2.dot] at *
  linear_combination (2 * s.hh * s.r * s.r * (s.hh - p.y)) * hd

/-- with `RadOk`, the radial component of the query point along `d` is `ρ` -/
private theorem cone_radial (p : V3 K) (ρ : K) (d : V2 K) (h0 : 0 ≤ ρ) (h2 : ρ * ρ = p.x * p.x + p.z * p.z)
    (hd : d.x * d.x + d.y * d.y = 1)
    (hdir : ((mkRat 1 4503599627370496 : ℚ) : K) < ρ → p.x = d.x * ρ ∧ p.z = d.y * ρ) (hrad : RadOk p) :
    p.x = d.x * ρ ∧ p.z = d.y * ρ := by
  have he := eps_pos (K := K)
  rcases hrad with hz | hz
  · have hρ : ρ = 0 := by
      have : ρ * ρ = 0 := by rw [h2, hz]
      exact mul_self_eq_zero.mp this
    obtain ⟨ex, ez⟩ := sumsq2_eq_zero (le_of_eq hz)
    rw [hρ, ex, ez]; simp
  · apply hdir
    by_contra hcon; push Not at hcon
    have := mul_self_le_mul_self h0 hcon
    rw [h2] at this; linarith

/-- facts about the projection `P` of `p = (ρ·d, y)` on the slanted segment `apex → (r·d, -hh)`: it is the point of parameter
`τ ∈ [0,1]`, it satisfies the variational inequality against every segment point, and no segment point is closer. -/
private theorem cone_seg_facts (s : Cone K) (p : V3 K) (ρ : K) (d : V2 K) (hd : d.x * d.x + d.y * d.y = 1)
    (hx : p.x = d.x * ρ) (hz : p.z = d.y * ρ) :
    letI := fieldNum K sq
    ∃ τ : K, 0 ≤ τ ∧ τ ≤ 1 ∧
      ((⟨⟨0, s.hh, 0⟩, ⟨d.x * s.r, -s.hh, d.y * s.r⟩⟩ : Segment3 K).projectLoc p).1.pt = ⟨d.x * s.r * τ, s.hh - 2 * s.hh * τ, d.y * s.r * τ⟩ ∧
      (∀ t : K, 0 ≤ t → t ≤ 1 → (t - τ) * ((ρ - s.r * τ) * s.r - 2 * s.hh * (p.y - s.hh + 2 * s.hh * τ)) ≤ 0) ∧
      (∀ t : K, 0 ≤ t → t ≤ 1 →
        dsq3 p ((⟨⟨0, s.hh, 0⟩, ⟨d.x * s.r, -s.hh, d.y * s.r⟩⟩ : Segment3 K).projectLoc p).1.pt
          ≤ dsq3 p ⟨d.x * s.r * t, s.hh - 2 * s.hh * t, d.y * s.r * t⟩) := by
  letI := fieldNum K sq
  have hmem := seg3_project_mem sq (⟨⟨0, s.hh, 0⟩, ⟨d.x * s.r, -s.hh, d.y * s.r⟩⟩ : Segment3 K) p
  have hvar := seg3_project_variational sq (⟨⟨0, s.hh, 0⟩, ⟨d.x * s.r, -s.hh, d.y * s.r⟩⟩ : Segment3 K) p
  have hopt := seg3_project_optimal sq (⟨⟨0, s.hh, 0⟩, ⟨d.x * s.r, -s.hh, d.y * s.r⟩⟩ : Segment3 K) p
  obtain ⟨τ, h0, h1, hP⟩ := hmem
  have hP' : ((⟨⟨0, s.hh, 0⟩, ⟨d.x * s.r, -s.hh, d.y * s.r⟩⟩ : Segment3 K).projectLoc p).1.pt
      = ⟨d.x * s.r * τ, s.hh - 2 * s.hh * τ, d.y * s.r * τ⟩ := by
    rw [hP]; apply v3_ext <;> simp only [V3.add, V3.sub, V3.smul] <;> ring
  have hq : ∀ t : K, 0 ≤ t → t ≤ 1 → (⟨⟨0, s.hh, 0⟩, ⟨d.x * s.r, -s.hh, d.y * s.r⟩⟩ : Segment3 K).Mem ⟨d.x * s.r * t, s.hh - 2 * s.hh * t, d.y * s.r * t⟩ :=
    fun t a b => ⟨t, a, b, by apply v3_ext <;> simp only [V3.add, V3.sub, V3.smul] <;> ring⟩
  refine ⟨τ, h0, h1, hP', ?_, ?_⟩
  · intro t a b
    have := hvar _ (hq t a b)
    rw [hP'] at this
    simp only [V3.dot, V3.sub] at this
    rw [hx, hz] at this
    have e : (d.x * ρ - d.x * s.r * τ) * (d.x * s.r * t - d.x * s.r * τ) + (p.y - (s.hh - 2 * s.hh * τ)) * (s.hh - 2 * s.hh * t - (s.hh - 2 * s.hh * τ))
        + (d.y * ρ - d.y * s.r * τ) * (d.y * s.r * t - d.y * s.r * τ)
        = (t - τ) * ((ρ - s.r * τ) * s.r - 2 * s.hh * (p.y - s.hh + 2 * s.hh * τ)) := by
      linear_combination ((t - τ) * (ρ - s.r * τ) * s.r) * hd
    rw [e] at this; exact this
  · intro t a b
    exact hopt _ (hq t a b)

/-- clean five-case description of `Cone::project_local_point` for a query point with `RadOk`: the point is `(ρ·d, y)`; `P`, the
projection on the slanted segment, is `(r τ·d, hh - 2hh τ)` with `τ ∈ [0,1]`; and the result is
(A) the base point below a point under the base disc, (B) `p` itself (member, solid), (C)/(D) the nearer of base point / `P`
(member, hollow), (E) `P` (non-member). -/
private theorem cone_shape (hs : LawfulSqrt sq) (s : Cone K) (p : V3 K) (solid : Bool) (hok : ConeOk s) (hrad : RadOk p) :
    letI := fieldNum K sq
    ∃ (ρ : K) (d : V2 K) (τ : K) (Ppt : V3 K) (Pin : Bool), 0 ≤ ρ ∧ ρ * ρ = p.x * p.x + p.z * p.z ∧ d.x * d.x + d.y * d.y = 1 ∧
      p.x = d.x * ρ ∧ p.z = d.y * ρ ∧ 0 ≤ τ ∧ τ ≤ 1 ∧ Ppt = ⟨d.x * s.r * τ, s.hh - 2 * s.hh * τ, d.y * s.r * τ⟩ ∧
      (∀ t : K, 0 ≤ t → t ≤ 1 → (t - τ) * ((ρ - s.r * τ) * s.r - 2 * s.hh * (p.y - s.hh + 2 * s.hh * τ)) ≤ 0) ∧
      (∀ t : K, 0 ≤ t → t ≤ 1 → dsq3 p Ppt ≤ dsq3 p ⟨d.x * s.r * t, s.hh - 2 * s.hh * t, d.y * s.r * t⟩) ∧
      (s.Mem p ↔ (-s.hh ≤ p.y ∧ p.y ≤ s.hh) ∧ 2 * s.hh * ρ ≤ s.r * (s.hh - p.y)) ∧
      (Pin = V3.relEq Ppt p) ∧
      ((p.y < -s.hh ∧ ρ ≤ s.r ∧ s.project p solid = ⟨false, ⟨p.x, -s.hh, p.z⟩⟩) ∨
       (¬(p.y < -s.hh ∧ ρ ≤ s.r) ∧ s.Mem p ∧ solid = true ∧ s.project p solid = ⟨true, p⟩) ∨
       (¬(p.y < -s.hh ∧ ρ ≤ s.r) ∧ s.Mem p ∧ solid = false ∧ dsq3 p ⟨p.x, -s.hh, p.z⟩ < dsq3 p Ppt ∧
          s.project p solid = ⟨true, ⟨p.x, -s.hh, p.z⟩⟩) ∨
       (¬(p.y < -s.hh ∧ ρ ≤ s.r) ∧ s.Mem p ∧ solid = false ∧ dsq3 p Ppt ≤ dsq3 p ⟨p.x, -s.hh, p.z⟩ ∧
          s.project p solid = ⟨true, Ppt⟩) ∨
       (¬(p.y < -s.hh ∧ ρ ≤ s.r) ∧ ¬ s.Mem p ∧ s.project p solid = ⟨Pin, Ppt⟩)) := by
  letI := fieldNum K sq
  have he := eps_pos (K := K)
  have hr0 : 0 ≤ s.r := le_trans he.le hok.2
  have hrpos : 0 < s.r := lt_of_lt_of_le he hok.2
  obtain ⟨ρ, d, h0, h2, hd, hdir, hc⟩ := cone_cases sq hs s p solid
  simp only [V2.normSq, V2.dot] at hd
  obtain ⟨hx, hz⟩ := cone_radial p ρ d h0 h2 hd hdir hrad
  obtain ⟨τ, t0, t1, hP, hvar, hopt⟩ := cone_seg_facts sq s p ρ d hd hx hz
  have hmem := cone_mem_iff sq s p ρ h0 h2 hok.1 hr0
  have hcd := cone_crossdot sq s d p (by simpa [V2.normSq, V2.dot] using hd)
  have hdp : d.x * p.x + d.y * p.z = ρ := by rw [hx, hz]; linear_combination ρ * hd
  -- the code's inside test is membership
  have hin : (-s.hh ≤ p.y ∧ p.y ≤ s.hh ∧
      0 ≤ ((((⟨d.x * s.r, -s.hh, d.y * s.r⟩ : V3 K).sub ⟨0, s.hh, 0⟩).cross (p.sub ⟨0, s.hh, 0⟩)).dot
        (((⟨d.x * s.r, -s.hh, d.y * s.r⟩ : V3 K).sub ⟨0, s.hh, 0⟩).cross ⟨0, -2 * s.hh, 0⟩))) ↔ s.Mem p := by
    rw [hmem, hcd, hdp]
    have hpos : 0 < 2 * s.hh * s.r := mul_pos (by linarith [hok.1]) hrpos
    constructor
    · rintro ⟨a, b, c⟩
      refine ⟨⟨a, b⟩, ?_⟩
      by_contra hcon; push Not at hcon
      have := mul_neg_of_pos_of_neg hpos (by linarith : s.r * (s.hh - p.y) - 2 * s.hh * ρ < 0)
      linarith
    · rintro ⟨⟨a, b⟩, c⟩
      exact ⟨a, b, mul_nonneg hpos.le (by linarith)⟩
  have hds : ∀ x : V3 K, (x.sub p).normSq = dsq3 p x := by
    intro x; simp only [V3.normSq, V3.dot, V3.sub, dsq3]; ring
  refine ⟨ρ, d, τ, _, _, h0, h2, hd, hx, hz, t0, t1, hP, hvar, hopt, hmem, rfl, ?_⟩
  rcases hc with ⟨a, b, e⟩ | ⟨na, ⟨hIN, ⟨hsol, e⟩ | ⟨hsol, hlt, e⟩ | ⟨hsol, hlt, e⟩⟩ | ⟨hnIN, e⟩⟩
  · exact Or.inl ⟨a, b, e⟩
  · exact Or.inr (Or.inl ⟨na, hin.mp hIN, hsol, e⟩)
  · rw [hds, hds] at hlt
    exact Or.inr (Or.inr (Or.inl ⟨na, hin.mp hIN, hsol, hlt, e⟩))
  · rw [hds, hds] at hlt
    exact Or.inr (Or.inr (Or.inr (Or.inl ⟨na, hin.mp hIN, hsol, not_lt.mp hlt, e⟩)))
  · refine Or.inr (Or.inr (Or.inr (Or.inr ⟨na, fun hm => hnIN (hin.mpr hm), ?_⟩)))
    rw [e]
    have hflag : ((⟨⟨0, s.hh, 0⟩, ⟨d.x * s.r, -s.hh, d.y * s.r⟩⟩ : Segment3 K).projectLoc p).1.inside
        = V3.relEq ((⟨⟨0, s.hh, 0⟩, ⟨d.x * s.r, -s.hh, d.y * s.r⟩⟩ : Segment3 K).projectLoc p).1.pt p := by
      simp only [Segment3.projectLoc]
      split_ifs <;> rfl
    cases hpp : ((⟨⟨0, s.hh, 0⟩, ⟨d.x * s.r, -s.hh, d.y * s.r⟩⟩ : Segment3 K).projectLoc p).1 with
    | mk ins pt => rw [hpp] at hflag; simp only at hflag ⊢; rw [hflag]

/-- the point `(r τ·d, hh - 2hh τ)` of the slanted segment is a member of the cone, on its lateral surface -/
private theorem cone_slant_bnd (s : Cone K) (d : V2 K) (τ : K) (hd : d.x * d.x + d.y * d.y = 1) (t0 : 0 ≤ τ) (t1 : τ ≤ 1)
    (hh0 : 0 < s.hh) :
    ConeBnd sq s ⟨d.x * s.r * τ, s.hh - 2 * s.hh * τ, d.y * s.r * τ⟩ := by
  have e : (d.x * s.r * τ * (d.x * s.r * τ) + d.y * s.r * τ * (d.y * s.r * τ)) * (2 * s.hh * (2 * s.hh))
      = s.r * s.r * ((s.hh - (s.hh - 2 * s.hh * τ)) * (s.hh - (s.hh - 2 * s.hh * τ))) := by
    linear_combination (s.r * s.r * τ * τ * (2 * s.hh * (2 * s.hh))) * hd
  simp only [ConeBnd, Cone.Mem, fieldNum_two]
  exact ⟨⟨⟨by nlinarith, by nlinarith⟩, le_of_eq e⟩, Or.inr e⟩

/-- **inside flag** (cone): a member is reported inside; conversely the flag is raised only for a member or — because an
outside point gets the `relative_eq!` flag of the segment projection — for a point within `ε = 2⁻⁵²` (coordinate-wise,
absolute or relative) of its own projection. -/
theorem cone_inside_spec (hs : LawfulSqrt sq) (s : Cone K) (p : V3 K) (solid : Bool) (hok : ConeOk s) (hrad : RadOk p) :
    letI := fieldNum K sq
    (s.Mem p → (s.project p solid).inside = true) ∧
    ((s.project p solid).inside = true → s.Mem p ∨
      (RelClose (s.project p solid).pt.x p.x ∧ RelClose (s.project p solid).pt.y p.y ∧ RelClose (s.project p solid).pt.z p.z)) := by
  letI := fieldNum K sq
  obtain ⟨ρ, d, τ, Ppt, Pin, h0, h2, hd, hx, hz, t0, t1, hP, hvar, hopt, hmem, hPin, hc⟩ := cone_shape sq hs s p solid hok hrad
  rcases hc with ⟨a, b, e⟩ | ⟨_, hm, _, e⟩ | ⟨_, hm, _, _, e⟩ | ⟨_, hm, _, _, e⟩ | ⟨_, hnm, e⟩ <;> rw [e]
  · have hnm : ¬ s.Mem p := fun hm => by have := (hmem.mp hm).1.1; linarith
    exact ⟨fun hm => absurd hm hnm, fun h => absurd h (by simp)⟩
  · exact ⟨fun _ => rfl, fun _ => Or.inl hm⟩
  · exact ⟨fun _ => rfl, fun _ => Or.inl hm⟩
  · exact ⟨fun _ => rfl, fun _ => Or.inl hm⟩
  · refine ⟨fun hm => absurd hm hnm, fun h => Or.inr ?_⟩
    simp only [hPin, V3.relEq, Bool.and_eq_true, relEq_iff, and_assoc] at h
    exact h

/-- **membership and boundary** (cone): the projection is a point of the cone; with `solid = false`, or for an outside point, it
lies on the base or on the lateral surface. -/
theorem cone_project_mem (hs : LawfulSqrt sq) (s : Cone K) (p : V3 K) (solid : Bool) (hok : ConeOk s) (hrad : RadOk p) :
    letI := fieldNum K sq
    s.Mem (s.project p solid).pt ∧ ((solid = false ∨ ¬ s.Mem p) → ConeBnd sq s (s.project p solid).pt) := by
  letI := fieldNum K sq
  have he := eps_pos (K := K)
  have hr0 : 0 ≤ s.r := le_trans he.le hok.2
  have hh0 := hok.1
  obtain ⟨ρ, d, τ, Ppt, Pin, h0, h2, hd, hx, hz, t0, t1, hP, hvar, hopt, hmem, hPin, hc⟩ := cone_shape sq hs s p solid hok hrad
  have hslant := cone_slant_bnd sq s d τ hd t0 t1 hh0
  -- a point of the base disc
  have hbase : ρ ≤ s.r → ConeBnd sq s ⟨p.x, -s.hh, p.z⟩ := by
    intro hρ
    have : p.x * p.x + p.z * p.z ≤ s.r * s.r := by rw [← h2]; exact mul_self_le_mul_self h0 hρ
    simp only [ConeBnd, Cone.Mem, fieldNum_two]
    refine ⟨⟨⟨le_refl _, by linarith⟩, ?_⟩, Or.inl trivial⟩
    have e : s.hh - -s.hh = 2 * s.hh := by ring
    rw [e]
    exact mul_le_mul_of_nonneg_right this (mul_self_nonneg _)
  have hρr : s.Mem p → ρ ≤ s.r := by
    intro hm
    obtain ⟨⟨a, b⟩, c⟩ := hmem.mp hm
    by_contra hcon; push Not at hcon
    nlinarith
  rcases hc with ⟨a, b, e⟩ | ⟨_, hm, hsol, e⟩ | ⟨_, hm, _, _, e⟩ | ⟨_, hm, _, _, e⟩ | ⟨_, hnm, e⟩ <;> rw [e]
  · exact ⟨(hbase b).1, fun _ => hbase b⟩
  · refine ⟨hm, fun h => ?_⟩
    rcases h with h | h
    · rw [hsol] at h; exact absurd h (by simp)
    · exact absurd hm h
  · exact ⟨(hbase (hρr hm)).1, fun _ => hbase (hρr hm)⟩
  · rw [hP]; exact ⟨hslant.1, fun _ => hslant⟩
  · rw [hP]; exact ⟨hslant.1, fun _ => hslant⟩

/-- every member `q` of the cone is dominated, in the radial direction `d`, by the slanted-segment point at its own height:
`d·q_xz ≤ r·t` with `t = (hh - q.y)/(2hh) ∈ [0,1]` -/
private theorem cone_member_radial (s : Cone K) (q : V3 K) (d : V2 K) (hd : d.x * d.x + d.y * d.y = 1)
    (hh0 : 0 < s.hh) (hr0 : 0 ≤ s.r) :
    letI := fieldNum K sq
    s.Mem q → ∃ t : K, 0 ≤ t ∧ t ≤ 1 ∧ q.y = s.hh - 2 * s.hh * t ∧ q.x * q.x + q.z * q.z ≤ (s.r * t) * (s.r * t) ∧
      d.x * q.x + d.y * q.z ≤ s.r * t := by
  letI := fieldNum K sq
  simp only [Cone.Mem, fieldNum_two]
  rintro ⟨⟨a, b⟩, c⟩
  have h2 : (2 : K) * s.hh ≠ 0 := by positivity
  have ht := div_mul_cancel₀ (s.hh - q.y) h2
  have ht0 : 0 ≤ (s.hh - q.y) / (2 * s.hh) := div_nonneg (by linarith) (by positivity)
  have ht1 : (s.hh - q.y) / (2 * s.hh) ≤ 1 := by rw [div_le_one (by positivity)]; linarith
  generalize (s.hh - q.y) / (2 * s.hh) = t at *
  have hq : q.x * q.x + q.z * q.z ≤ (s.r * t) * (s.r * t) := by
    have e : s.r * s.r * ((s.hh - q.y) * (s.hh - q.y)) = (s.r * t) * (s.r * t) * (2 * s.hh * (2 * s.hh)) := by rw [← ht]; ring
    rw [e] at c
    exact le_of_mul_le_mul_right c (by positivity)
  refine ⟨t, ht0, ht1, by linarith, hq, ?_⟩
  have := dot_le2 d.x d.y q.x q.z 1 (s.r * t) (by linarith) hq zero_le_one (mul_nonneg hr0 ht0)
  linarith

/-- **optimality w.r.t. the solid cone**: for `solid = true`, or for a point outside, no point of the cone is closer than the
projection (base disc below the base, slanted segment — apex, lateral surface, rim — elsewhere). -/
theorem cone_project_optimal (hs : LawfulSqrt sq) (s : Cone K) (p q : V3 K) (solid : Bool) (hok : ConeOk s) (hrad : RadOk p) :
    letI := fieldNum K sq
    s.Mem q → (solid = true ∨ ¬ s.Mem p) → dsq3 p (s.project p solid).pt ≤ dsq3 p q := by
  letI := fieldNum K sq
  intro hq hcnd
  have he := eps_pos (K := K)
  have hr0 : 0 ≤ s.r := le_trans he.le hok.2
  have hrpos : 0 < s.r := lt_of_lt_of_le he hok.2
  have hh0 := hok.1
  obtain ⟨ρ, d, τ, Ppt, Pin, h0, h2, hd, hx, hz, t0, t1, hP, hvar, hopt, hmem, hPin, hc⟩ := cone_shape sq hs s p solid hok hrad
  obtain ⟨t, ht0, ht1, hqy, hqr, hdq⟩ := cone_member_radial sq s q d hd hh0 hr0 hq
  rcases hc with ⟨a, b, e⟩ | ⟨_, hm, hsol, e⟩ | ⟨_, hm, hsol, _, e⟩ | ⟨_, hm, hsol, _, e⟩ | ⟨na, hnm, e⟩ <;> rw [e]
  · -- below the base disc
    apply opt_of_var3; simp only []
    nlinarith [mul_nonneg (by linarith : 0 ≤ -s.hh - p.y) (by nlinarith : 0 ≤ q.y - -s.hh)]
  · simp only [dsq3]
    nlinarith [mul_self_nonneg (p.x - q.x), mul_self_nonneg (p.y - q.y), mul_self_nonneg (p.z - q.z)]
  · exfalso; rcases hcnd with h | h
    · rw [hsol] at h; exact absurd h (by simp)
    · exact h hm
  · exfalso; rcases hcnd with h | h
    · rw [hsol] at h; exact absurd h (by simp)
    · exact h hm
  · -- outside: projection on the slanted segment
    rw [hP]
    apply opt_of_var3; simp only []
    -- the radial component of `p - P` is non-negative
    have hα : 0 ≤ ρ - s.r * τ := by
      by_contra hcon; push Not at hcon
      have hτ : 0 < τ := by
        by_contra h'; push Not at h'
        have : τ = 0 := le_antisymm h' t0
        rw [this] at hcon; linarith
      have hX : 0 ≤ (ρ - s.r * τ) * s.r - 2 * s.hh * (p.y - s.hh + 2 * s.hh * τ) := by
        have hv0 := hvar 0 (le_refl _) zero_le_one
        by_contra h'; push Not at h'
        have := mul_pos_of_neg_of_neg (neg_neg_of_pos hτ) h'
        have e : (0 - τ) * ((ρ - s.r * τ) * s.r - 2 * s.hh * (p.y - s.hh + 2 * s.hh * τ))
            = -τ * ((ρ - s.r * τ) * s.r - 2 * s.hh * (p.y - s.hh + 2 * s.hh * τ)) := by ring
        rw [e] at hv0; linarith
      have hαr := mul_neg_of_neg_of_pos hcon hrpos
      have hβ : p.y - s.hh + 2 * s.hh * τ < 0 := by
        by_contra h'; push Not at h'
        have := mul_nonneg (by linarith : (0 : K) ≤ 2 * s.hh) h'
        linarith
      have a1 := mul_neg_of_pos_of_neg (by linarith : (0 : K) < 2 * s.hh) hcon
      have a2 := mul_pos hrpos (neg_pos.2 hβ)
      have hslant : 2 * s.hh * ρ ≤ s.r * (s.hh - p.y) := by linarith
      have a3 := mul_nonneg (by linarith : (0 : K) ≤ 2 * s.hh) t0
      by_cases hy : -s.hh ≤ p.y
      · exact hnm (hmem.mpr ⟨⟨hy, by linarith⟩, hslant⟩)
      · push Not at hy
        have a4 := mul_le_of_le_one_right hr0 t1
        exact na ⟨hy, by linarith⟩
    have hv := hvar t ht0 ht1
    rw [hx, hz, hqy]
    have e1 : (d.x * ρ - d.x * s.r * τ) * (q.x - d.x * s.r * τ) + (p.y - (s.hh - 2 * s.hh * τ)) * (s.hh - 2 * s.hh * t - (s.hh - 2 * s.hh * τ))
        + (d.y * ρ - d.y * s.r * τ) * (q.z - d.y * s.r * τ)
        = (t - τ) * ((ρ - s.r * τ) * s.r - 2 * s.hh * (p.y - s.hh + 2 * s.hh * τ))
          + (ρ - s.r * τ) * ((d.x * q.x + d.y * q.z) - s.r * t) := by
      linear_combination (-(ρ - s.r * τ) * s.r * τ) * hd
    rw [e1]
    have := mul_nonpos_of_nonneg_of_nonpos hα (sub_nonpos.2 hdq)
    linarith

/-- **optimality w.r.t. the surface** (any flag; this is the clause for `solid = false` and an interior point): no point of the
base disc or of the lateral surface is closer than the projection. -/
theorem cone_project_optimal_boundary (hs : LawfulSqrt sq) (s : Cone K) (p q : V3 K) (solid : Bool) (hok : ConeOk s) (hrad : RadOk p) :
    letI := fieldNum K sq
    ConeBnd sq s q → dsq3 p (s.project p solid).pt ≤ dsq3 p q := by
  letI := fieldNum K sq
  intro hq
  by_cases hcnd : solid = true ∨ ¬ s.Mem p
  · exact cone_project_optimal sq hs s p q solid hok hrad hq.1 hcnd
  · push Not at hcnd
    have he := eps_pos (K := K)
    have hr0 : 0 ≤ s.r := le_trans he.le hok.2
    have hh0 := hok.1
    obtain ⟨ρ, d, τ, Ppt, Pin, h0, h2, hd, hx, hz, t0, t1, hP, hvar, hopt, hmem, hPin, hc⟩ := cone_shape sq hs s p solid hok hrad
    obtain ⟨hqm, hqf⟩ := hq
    obtain ⟨t, ht0, ht1, hqy, hqr, hdq⟩ := cone_member_radial sq s q d hd hh0 hr0 hqm
    obtain ⟨⟨m1, m2⟩, m3⟩ := hmem.mp hcnd.2
    -- both candidates bound the distance to any surface point
    have key : dsq3 p ⟨p.x, -s.hh, p.z⟩ ≤ dsq3 p q ∨ dsq3 p Ppt ≤ dsq3 p q := by
      rcases hqf with e | e
      · left
        simp only [dsq3]; rw [e]
        nlinarith [mul_self_nonneg (p.x - q.x), mul_self_nonneg (p.z - q.z)]
      · right
        refine le_trans (hopt t ht0 ht1) ?_
        -- on the lateral surface `|q_xz| = r t`; rotating `q` into the half-plane of `p` does not increase the distance
        have hqeq : q.x * q.x + q.z * q.z = (s.r * t) * (s.r * t) := by
          have h2' : (2 : K) * s.hh ≠ 0 := by positivity
          have e' : s.r * s.r * ((s.hh - q.y) * (s.hh - q.y)) = (s.r * t) * (s.r * t) * (2 * s.hh * (2 * s.hh)) := by rw [hqy]; ring
          rw [e'] at e
          exact mul_right_cancel₀ (mul_ne_zero h2' h2') e
        simp only [dsq3]
        rw [hx, hz, hqy]
        have hnn := mul_nonneg h0 (sub_nonneg.2 hdq)
        have e2 : ((d.x * ρ - q.x) * (d.x * ρ - q.x) + (p.y - (s.hh - 2 * s.hh * t)) * (p.y - (s.hh - 2 * s.hh * t)) + (d.y * ρ - q.z) * (d.y * ρ - q.z))
            - ((d.x * ρ - d.x * s.r * t) * (d.x * ρ - d.x * s.r * t) + (p.y - (s.hh - 2 * s.hh * t)) * (p.y - (s.hh - 2 * s.hh * t))
              + (d.y * ρ - d.y * s.r * t) * (d.y * ρ - d.y * s.r * t))
            = 2 * (ρ * (s.r * t - (d.x * q.x + d.y * q.z))) := by
          linear_combination hqeq + (2 * ρ * s.r * t - s.r * t * (s.r * t)) * hd
        linarith
    rcases hc with ⟨a, b, e⟩ | ⟨_, hm, hsol, e⟩ | ⟨_, hm, hsol, hlt, e⟩ | ⟨_, hm, hsol, hle, e⟩ | ⟨na, hnm, e⟩ <;> rw [e]
    · linarith
    · exact absurd hsol hcnd.1
    · rcases key with k | k
      · exact k
      · exact le_trans hlt.le k
    · rcases key with k | k
      · exact le_trans hle k
      · exact k
    · exact absurd hcnd.2 hnm

example : ConeOk (⟨1, 2⟩ : Cone ℚ) ∧ RadOk (⟨1, 0, 0⟩ : V3 ℚ) ∧ RadOk (⟨0, 5, 0⟩ : V3 ℚ)
    ∧ ConeBnd (fun x => x) (⟨1, 2⟩ : Cone ℚ) ⟨1, 0, 0⟩ := by
  simp only [ConeOk, RadOk, ConeBnd, Cone.Mem, fieldNum_two]; norm_num

/-! ## Capsule, 2-D (`point_capsule.rs`, `dim2`: the on-axis fallback direction is the segment normal) -/

/-- squared distance from `p` to the projection on the capsule's axis -/
def capAxisSq2 (s : Capsule2 K) (p : V2 K) : K :=
  letI := fieldNum K sq
  (p.sub ((⟨s.a, s.b⟩ : Segment2 K).projectLoc p).1.pt).normSq

/-- membership in the capsule ⇔ the axis projection is within `r` -/
theorem cap2_mem_iff (s : Capsule2 K) (p : V2 K) :
    letI := fieldNum K sq
    s.Mem p ↔ capAxisSq2 sq s p ≤ s.r * s.r := by
  letI := fieldNum K sq
  constructor
  · rintro ⟨q, hq, hle⟩
    have h := seg2_project_optimal sq ⟨s.a, s.b⟩ p q hq
    simp only [capAxisSq2, V2.normSq, V2.dot, V2.sub, dsq2] at *
    linarith
  · intro h
    exact ⟨_, seg2_project_mem sq ⟨s.a, s.b⟩ p, h⟩

/-- the result shapes of `Capsule::project_local_point`: the query point itself (inside, solid), or the axis projection
`P` pushed by `r` along a unit vector `d` (which is the direction `P → p` whenever that is not degenerate). -/
private theorem cap2_cases (hs : LawfulSqrt sq) (s : Capsule2 K) (p : V2 K) (solid : Bool) :
    letI := fieldNum K sq
    ((mkRat 1 4503599627370496 : ℚ) : K) ≤ s.r →
    ((s.project p solid).inside = true ↔ capAxisSq2 sq s p ≤ s.r * s.r) ∧
    (((s.project p solid).pt = p ∧ capAxisSq2 sq s p ≤ s.r * s.r ∧ solid = true) ∨
     (∃ d : V2 K, d.normSq = 1 ∧ (s.project p solid).pt = ((⟨s.a, s.b⟩ : Segment2 K).projectLoc p).1.pt.add (d.smul s.r) ∧
        (((mkRat 1 4503599627370496 : ℚ) : K) * ((mkRat 1 4503599627370496 : ℚ) : K) < capAxisSq2 sq s p →
          (p.sub ((⟨s.a, s.b⟩ : Segment2 K).projectLoc p).1.pt) = d.smul (sq (capAxisSq2 sq s p))) ∧
        (capAxisSq2 sq s p ≤ s.r * s.r → solid = false))) := by
  letI := fieldNum K sq
  intro hr
  have he := eps_pos (K := K)
  have hnn : 0 ≤ capAxisSq2 sq s p := by
    simp only [capAxisSq2, V2.normSq, V2.dot]
    nlinarith [mul_self_nonneg (p.sub ((⟨s.a, s.b⟩ : Segment2 K).projectLoc p).1.pt).x,
      mul_self_nonneg (p.sub ((⟨s.a, s.b⟩ : Segment2 K).projectLoc p).1.pt).y]
  have h2 := hs.sq_mul _ hnn
  have h0 := hs.nonneg _ hnn
  have hr0 : 0 ≤ s.r := le_trans he.le hr
  have hee : ((mkRat 1 4503599627370496 : ℚ) : K) * ((mkRat 1 4503599627370496 : ℚ) : K) ≤ s.r * s.r :=
    mul_self_le_mul_self he.le hr
  have hle : sq (capAxisSq2 sq s p) ≤ s.r ↔ capAxisSq2 sq s p ≤ s.r * s.r := by
    constructor
    · intro h; rw [← h2]; exact mul_self_le_mul_self h0 h
    · intro h; rw [← h2] at h; exact le_of_mul_self_le hr0 h
  simp only [capAxisSq2] at *
  generalize hres : s.project p solid = res
  dsimp only [Capsule2.project] at hres
  split_ifs at hres with c1 c2 c3 c4 <;> subst hres <;>
    simp only [Bool.and_eq_true, decide_eq_true_eq, eps, fieldNum_lit, fieldNum_sqrt] at * <;>
    simp only [Segment2.project] at *
  · -- not on the axis, solid and inside
    exact ⟨⟨fun _ => hle.mp c2.2, fun _ => trivial⟩, Or.inl ⟨trivial, hle.mp c2.2, c2.1⟩⟩
  · -- not on the axis: push along the direction
    refine ⟨by rw [hle], Or.inr ⟨_, ?_, rfl, ?_, ?_⟩⟩
    · have hpos : 0 < (p.sub ((⟨s.a, s.b⟩ : Segment2 K).projectLoc p).1.pt).normSq := lt_trans (mul_pos he he) c1
      have hne : sq (p.sub ((⟨s.a, s.b⟩ : Segment2 K).projectLoc p).1.pt).normSq ≠ 0 := by
        intro h; rw [h] at h2; linarith
      generalize sq (p.sub ((⟨s.a, s.b⟩ : Segment2 K).projectLoc p).1.pt).normSq = d at *
      generalize (p.sub ((⟨s.a, s.b⟩ : Segment2 K).projectLoc p).1.pt) = w at *
      simp only [V2.normSq, V2.dot, V2.sdiv] at *
      field_simp
      linarith
    · intro _
      have hne : sq (p.sub ((⟨s.a, s.b⟩ : Segment2 K).projectLoc p).1.pt).normSq ≠ 0 := by
        intro h; rw [h] at h2; have := mul_pos he he; linarith
      apply v2_ext <;> simp only [V2.smul, V2.sdiv] <;> field_simp
    · intro hN
      by_contra hsol
      exact c2 ⟨by simpa using hsol, hle.mpr hN⟩
  · -- on the axis, solid
    push Not at c1
    exact ⟨⟨fun _ => le_trans c1 hee, fun _ => trivial⟩, Or.inl ⟨trivial, le_trans c1 hee, c3⟩⟩
  · -- on the axis, hollow: orthogonal direction
    push Not at c1
    refine ⟨⟨fun _ => le_trans c1 hee, fun _ => trivial⟩, Or.inr ⟨_, ?_, rfl, fun h => absurd h (not_lt.mpr c1), fun _ => by simpa using c3⟩⟩
    have hpos : 0 < (⟨(s.b.sub s.a).y, -(s.b.sub s.a).x⟩ : V2 K).normSq := lt_trans (mul_pos he he) c4
    have h2' := hs.sq_mul _ hpos.le
    have hne : sq (⟨(s.b.sub s.a).y, -(s.b.sub s.a).x⟩ : V2 K).normSq ≠ 0 := by
      intro h; rw [h] at h2'; linarith
    generalize sq (⟨(s.b.sub s.a).y, -(s.b.sub s.a).x⟩ : V2 K).normSq = d at *
    generalize (⟨(s.b.sub s.a).y, -(s.b.sub s.a).x⟩ : V2 K) = w at *
    simp only [V2.normSq, V2.dot, V2.sdiv] at *
    field_simp
    linarith
  · -- degenerate segment, hollow
    push Not at c1
    refine ⟨⟨fun _ => le_trans c1 hee, fun _ => trivial⟩, Or.inr ⟨⟨0, 1⟩, by simp [V2.normSq, V2.dot], ?_, fun h => absurd h (not_lt.mpr c1), fun _ => by simpa using c3⟩⟩
    simp [V2.smul]

/-- domain: radius at least `ε = 2⁻⁵²` (the property's domain has `r ≥ 10⁻²`) -/
def CapOk2 (s : Capsule2 K) : Prop := ((mkRat 1 4503599627370496 : ℚ) : K) ≤ s.r

/-- **inside flag** ⇔ membership in the capsule -/
theorem cap2_inside_iff (hs : LawfulSqrt sq) (s : Capsule2 K) (p : V2 K) (solid : Bool) (h : CapOk2 s) :
    letI := fieldNum K sq
    (s.project p solid).inside = true ↔ s.Mem p := by
  rw [cap2_mem_iff]; exact (cap2_cases sq hs s p solid h).1

/-- `contains_local_point` (default) ⇔ membership -/
theorem cap2_contains_iff (hs : LawfulSqrt sq) (s : Capsule2 K) (p : V2 K) (h : CapOk2 s) :
    letI := fieldNum K sq
    defaultContains2 (s.project) p = true ↔ s.Mem p :=
  cap2_inside_iff sq hs s p true h

/-- **membership**: the projection is a point of the capsule (all branches, including the degenerate on-axis ones) -/
theorem cap2_project_mem (hs : LawfulSqrt sq) (s : Capsule2 K) (p : V2 K) (solid : Bool) (h : CapOk2 s) :
    letI := fieldNum K sq
    s.Mem (s.project p solid).pt := by
  letI := fieldNum K sq
  rcases (cap2_cases sq hs s p solid h).2 with ⟨e, hN, _⟩ | ⟨d, hd, e, _, _⟩
  · rw [e]; exact (cap2_mem_iff sq s p).mpr hN
  · rw [e]
    refine ⟨_, seg2_project_mem sq ⟨s.a, s.b⟩ p, ?_⟩
    generalize ((⟨s.a, s.b⟩ : Segment2 K).projectLoc p).1.pt = P
    simp only [V2.normSq, V2.dot, V2.sub, V2.add, V2.smul] at *
    apply le_of_eq
    linear_combination (s.r * s.r) * hd

/-- **optimality**: for `solid = true`, or for a point outside, no point of the capsule is closer than the projection. -/
theorem cap2_project_optimal (hs : LawfulSqrt sq) (s : Capsule2 K) (p y : V2 K) (solid : Bool) (h : CapOk2 s) :
    letI := fieldNum K sq
    s.Mem y → (solid = true ∨ ¬ s.Mem p) → dsq2 p (s.project p solid).pt ≤ dsq2 p y := by
  letI := fieldNum K sq
  intro hy hc
  rcases (cap2_cases sq hs s p solid h).2 with ⟨e, _, _⟩ | ⟨d, hd, e, hdir, hsol⟩
  · rw [e]; simp only [dsq2]
    nlinarith [mul_self_nonneg (p.x - y.x), mul_self_nonneg (p.y - y.y)]
  · have hnm : ¬ s.Mem p := by
      rcases hc with hc | hc
      · intro hm
        have := hsol ((cap2_mem_iff sq s p).mp hm)
        rw [hc] at this; exact absurd this (by simp)
      · exact hc
    rw [cap2_mem_iff] at hnm
    push Not at hnm
    have he := eps_pos (K := K)
    have hee : ((mkRat 1 4503599627370496 : ℚ) : K) * ((mkRat 1 4503599627370496 : ℚ) : K) ≤ s.r * s.r :=
      mul_self_le_mul_self he.le h
    have hr0 : 0 ≤ s.r := le_trans he.le h
    have hdir' := hdir (lt_of_le_of_lt hee hnm)
    have hnn : 0 ≤ capAxisSq2 sq s p := le_trans (mul_self_nonneg _) hnm.le
    have h2 := hs.sq_mul _ hnn
    have h0 := hs.nonneg _ hnn
    have hDr : s.r < sq (capAxisSq2 sq s p) := by
      by_contra hcon; push Not at hcon
      have := mul_self_le_mul_self h0 hcon
      linarith
    obtain ⟨q', hq', hyq⟩ := hy
    have hvar := seg2_project_variational sq ⟨s.a, s.b⟩ p q' hq'
    rw [e]
    apply opt_of_var2
    generalize sq (capAxisSq2 sq s p) = D at *
    generalize ((⟨s.a, s.b⟩ : Segment2 K).projectLoc p).1.pt = P at *
    have hpx : p.x = P.x + d.x * D := by have := congrArg V2.x hdir'; simp only [V2.sub, V2.smul] at this; linarith
    have hpy : p.y = P.y + d.y * D := by have := congrArg V2.y hdir'; simp only [V2.sub, V2.smul] at this; linarith
    have hda := dot_le2 d.x d.y (y.x - q'.x) (y.y - q'.y) 1 s.r
      (by simpa [V2.normSq, V2.dot] using le_of_eq hd) (by simpa [V2.normSq, V2.dot, V2.sub] using hyq) zero_le_one hr0
    have hdw : d.x * (q'.x - P.x) + d.y * (q'.y - P.y) ≤ 0 := by
      simp only [V2.dot, V2.sub] at hvar
      rw [hpx, hpy] at hvar
      have hDpos : 0 < D := lt_of_le_of_lt hr0 hDr
      by_contra hcon; push Not at hcon
      have := mul_pos hcon hDpos
      nlinarith
    simp only [V2.add, V2.smul, V2.normSq, V2.dot] at hd ⊢
    rw [hpx, hpy]
    have e1 : (P.x + d.x * D - (P.x + d.x * s.r)) * (y.x - (P.x + d.x * s.r)) + (P.y + d.y * D - (P.y + d.y * s.r)) * (y.y - (P.y + d.y * s.r))
        = (D - s.r) * ((d.x * (y.x - q'.x) + d.y * (y.y - q'.y))
            + (d.x * (q'.x - P.x) + d.y * (q'.y - P.y)) - s.r) := by
      linear_combination (-(D - s.r) * s.r) * hd
    rw [e1]
    apply mul_nonpos_of_nonneg_of_nonpos (by linarith)
    linarith


/-- **boundary** (off the axis): with `solid = false`, or for a point outside, the projection is at distance exactly `r` from
the axis point `P` and at distance `≥ r` from every point of the axis — i.e. on the capsule's surface. -/
theorem cap2_project_on_boundary (hs : LawfulSqrt sq) (s : Capsule2 K) (p : V2 K) (solid : Bool) (h : CapOk2 s) :
    letI := fieldNum K sq
    (solid = false ∨ ¬ s.Mem p) →
    ((mkRat 1 4503599627370496 : ℚ) : K) * ((mkRat 1 4503599627370496 : ℚ) : K) < capAxisSq2 sq s p →
    ∀ q, (⟨s.a, s.b⟩ : Segment2 K).Mem q → s.r * s.r ≤ dsq2 (s.project p solid).pt q := by
  letI := fieldNum K sq
  intro hc hN q hq
  have he := eps_pos (K := K)
  have hr0 : 0 ≤ s.r := le_trans he.le h
  have hnn : 0 ≤ capAxisSq2 sq s p := le_trans (mul_self_nonneg _) hN.le
  have h2 := hs.sq_mul _ hnn
  have h0 := hs.nonneg _ hnn
  have hDpos : 0 < sq (capAxisSq2 sq s p) := by
    rcases lt_or_eq_of_le h0 with h' | h'
    · exact h'
    · rw [← h'] at h2; have := mul_pos he he; linarith
  rcases (cap2_cases sq hs s p solid h).2 with ⟨e, hle, hsol⟩ | ⟨d, hd, e, hdir, _⟩
  · exfalso
    rcases hc with hc | hc
    · rw [hc] at hsol; exact absurd hsol (by simp)
    · exact hc ((cap2_mem_iff sq s p).mpr hle)
  · have hdir' := hdir hN
    have hvar := seg2_project_variational sq ⟨s.a, s.b⟩ p q hq
    rw [e]
    generalize sq (capAxisSq2 sq s p) = D at *
    generalize ((⟨s.a, s.b⟩ : Segment2 K).projectLoc p).1.pt = P at *
    have hpx : p.x = P.x + d.x * D := by have := congrArg V2.x hdir'; simp only [V2.sub, V2.smul] at this; linarith
    have hpy : p.y = P.y + d.y * D := by have := congrArg V2.y hdir'; simp only [V2.sub, V2.smul] at this; linarith
    have hdw : d.x * (q.x - P.x) + d.y * (q.y - P.y) ≤ 0 := by
      simp only [V2.dot, V2.sub] at hvar
      rw [hpx, hpy] at hvar
      by_contra hcon; push Not at hcon
      have := mul_pos hcon hDpos
      nlinarith
    simp only [V2.add, V2.smul, V2.normSq, V2.dot, dsq2] at hd ⊢
    nlinarith [mul_self_nonneg (q.x - P.x), mul_self_nonneg (q.y - P.y), mul_nonneg hr0 (neg_nonneg.2 hdw)]

/-- **optimality w.r.t. the surface** (`solid = false`, interior point off the axis): every point `y` at distance `≥ r` from the
axis point `P` — in particular every point of the capsule's surface — is at least as far from `p` as the projection. -/
theorem cap2_project_optimal_hollow (hs : LawfulSqrt sq) (s : Capsule2 K) (p y : V2 K) (h : CapOk2 s) :
    letI := fieldNum K sq
    s.Mem p →
    ((mkRat 1 4503599627370496 : ℚ) : K) * ((mkRat 1 4503599627370496 : ℚ) : K) < capAxisSq2 sq s p →
    s.r * s.r ≤ dsq2 y ((⟨s.a, s.b⟩ : Segment2 K).projectLoc p).1.pt →
    dsq2 p (s.project p false).pt ≤ dsq2 p y := by
  letI := fieldNum K sq
  intro hm hN hy
  have he := eps_pos (K := K)
  have hr0 : 0 ≤ s.r := le_trans he.le h
  have hnn : 0 ≤ capAxisSq2 sq s p := le_trans (mul_self_nonneg _) hN.le
  have h2 := hs.sq_mul _ hnn
  have h0 := hs.nonneg _ hnn
  have hle := (cap2_mem_iff sq s p).mp hm
  have hDr : sq (capAxisSq2 sq s p) ≤ s.r := by
    apply le_of_mul_self_le hr0; rw [h2]; exact hle
  rcases (cap2_cases sq hs s p false h).2 with ⟨_, _, hsol⟩ | ⟨d, hd, e, hdir, _⟩
  · exact absurd hsol (by simp)
  · have hdir' := hdir hN
    rw [e]
    have hyn : 0 ≤ dsq2 y ((⟨s.a, s.b⟩ : Segment2 K).projectLoc p).1.pt := le_trans (mul_self_nonneg _) hy
    have g2 := hs.sq_mul _ hyn
    have g0 := hs.nonneg _ hyn
    have hηr : s.r ≤ sq (dsq2 y ((⟨s.a, s.b⟩ : Segment2 K).projectLoc p).1.pt) := by
      apply le_of_mul_self_le g0; rw [g2]; exact hy
    generalize sq (capAxisSq2 sq s p) = D at *
    generalize ((⟨s.a, s.b⟩ : Segment2 K).projectLoc p).1.pt = P at *
    have hpx : p.x = P.x + d.x * D := by have := congrArg V2.x hdir'; simp only [V2.sub, V2.smul] at this; linarith
    have hpy : p.y = P.y + d.y * D := by have := congrArg V2.y hdir'; simp only [V2.sub, V2.smul] at this; linarith
    have hdy := dot_le2 d.x d.y (y.x - P.x) (y.y - P.y) 1 (sq (dsq2 y P))
      (by simpa [V2.normSq, V2.dot] using le_of_eq hd) (by rw [g2]; simp only [dsq2]; exact le_refl _) zero_le_one g0
    generalize sq (dsq2 y P) = η at *
    simp only [V2.add, V2.smul, V2.normSq, V2.dot, dsq2] at hd g2 ⊢
    rw [hpx, hpy]
    have e1 : (P.x + d.x * D - (P.x + d.x * s.r)) * (P.x + d.x * D - (P.x + d.x * s.r))
        + (P.y + d.y * D - (P.y + d.y * s.r)) * (P.y + d.y * D - (P.y + d.y * s.r)) = (s.r - D) * (s.r - D) := by
      linear_combination ((s.r - D) * (s.r - D)) * hd
    have e2 : (P.x + d.x * D - y.x) * (P.x + d.x * D - y.x) + (P.y + d.y * D - y.y) * (P.y + d.y * D - y.y)
        = D * D - 2 * D * (d.x * (y.x - P.x) + d.y * (y.y - P.y)) + η * η := by
      linear_combination (D * D) * hd - g2
    rw [e1, e2]
    nlinarith [mul_nonneg h0 (sub_nonneg.2 (by linarith : d.x * (y.x - P.x) + d.y * (y.y - P.y) ≤ η)),
      mul_nonneg (sub_nonneg.2 hηr) (by linarith : 0 ≤ η + s.r - 2 * D)]


example : CapOk2 (⟨⟨0, 0⟩, ⟨1, 0⟩, 1/2⟩ : Capsule2 ℚ) := by simp only [CapOk2]; norm_num

/-! ## Aabb / Cuboid feature ids (`Aabb::project_local_point_and_get_feature`, model = fixed `>=` on the `+` faces)

Feature-id tables of the 3-D box (the ones `Cuboid::feature_normal` decodes): `Face(i)`, `i < 3` is the `+` face of axis `i`,
`Face(i+3)` the `-` face; `Vertex(id)` has bit `i` of `id` set iff the vertex is on the `-` side of axis `i`;
`Edge(e)` runs along axis `e % 4` and the bits of `e / 4` give the sides of the two other axes (the bit of the edge's own axis
is not used by the decoder). -/

/-- the post-processing part of `aabbFeature3`: feature id from the projection `ls` and the shift -/
def featPost3 {K : Type} [Num K] (mins maxs ls shift : V3 K) : Feat :=
  let z0 := neq shift.x 0; let z1 := neq shift.y 0; let z2 := neq shift.z 0
  let nzero := (if z0 then 1 else 0) + (if z1 then 1 else 0) + (if z2 then 1 else 0)
  let lastZero := if z2 then 2 else if z1 then 1 else 0
  let lastNotZero := if !z2 then 2 else if !z1 then 1 else 0
  if nzero = 3 then aabbFeature3.go mins maxs ls 3 0
  else
    let c := V3.center mins maxs
    if nzero = 2 then
      if ls.get lastNotZero < c.get lastNotZero then Feat.face (lastNotZero + 3) else Feat.face lastNotZero
    else
      let id := (if ls.x < c.x then 1 else 0) + (if ls.y < c.y then 2 else 0) + (if ls.z < c.z then 4 else 0)
      if nzero = 0 then Feat.vertex id else Feat.edge (id * 4 + lastZero)

theorem aabbFeature3_eq_post (mins maxs pt : V3 K) :
    letI := fieldNum K sq
    ∀ r, r = aabbDoProject3 mins maxs pt false →
    aabbFeature3 mins maxs pt = (⟨r.1, r.2.1⟩, featPost3 mins maxs r.2.1 r.2.2) := by
  letI := fieldNum K sq
  intro r hr
  unfold aabbFeature3
  rw [← hr]
  unfold featPost3
  dsimp only
  generalize (((if neq r.2.2.x 0 = true then 1 else 0) + if neq r.2.2.y 0 = true then 1 else 0) + if neq r.2.2.z 0 = true then 1 else 0 : Nat) = n
  generalize (if (!neq r.2.2.z 0) = true then 2 else if (!neq r.2.2.y 0) = true then 1 else 0 : Nat) = j
  generalize (if neq r.2.2.z 0 = true then 2 else if neq r.2.2.y 0 = true then 1 else 0 : Nat) = a
  generalize (((if r.2.1.x < (mins.center maxs).x then 1 else 0) + if r.2.1.y < (mins.center maxs).y then 2 else 0) + if r.2.1.z < (mins.center maxs).z then 4 else 0 : Nat) = id
  split_ifs <;> rfl

/-- side of an axis selected by a bit: `-` (`lo`) if set, `+` (`hi`) otherwise -/
def sideOf (lo hi : K) (b : Prop) [Decidable b] : K := if b then lo else hi

/-- **the feature contains the point** (3-D box `[lo, hi]`), with the code's own `ε = 2⁻⁵²` slack on faces found by the
`nzero_shifts == DIM` scan. -/
def FeatContains3 (lo hi : V3 K) (f : Feat) (x : V3 K) : Prop :=
  match f with
  | .face 0 => hi.x - ((mkRat 1 4503599627370496 : ℚ) : K) ≤ x.x
  | .face 1 => hi.y - ((mkRat 1 4503599627370496 : ℚ) : K) ≤ x.y
  | .face 2 => hi.z - ((mkRat 1 4503599627370496 : ℚ) : K) ≤ x.z
  | .face 3 => x.x ≤ lo.x + ((mkRat 1 4503599627370496 : ℚ) : K)
  | .face 4 => x.y ≤ lo.y + ((mkRat 1 4503599627370496 : ℚ) : K)
  | .face 5 => x.z ≤ lo.z + ((mkRat 1 4503599627370496 : ℚ) : K)
  | .face _ => False
  | .vertex id => id < 8 ∧ x.x = sideOf lo.x hi.x (id % 2 = 1) ∧ x.y = sideOf lo.y hi.y ((id / 2) % 2 = 1)
      ∧ x.z = sideOf lo.z hi.z ((id / 4) % 2 = 1)
  | .edge e => e / 4 < 8 ∧
      ((e % 4 = 0 ∧ x.y = sideOf lo.y hi.y ((e / 4 / 2) % 2 = 1) ∧ x.z = sideOf lo.z hi.z ((e / 4 / 4) % 2 = 1)) ∨
       (e % 4 = 1 ∧ x.x = sideOf lo.x hi.x ((e / 4) % 2 = 1) ∧ x.z = sideOf lo.z hi.z ((e / 4 / 4) % 2 = 1)) ∨
       (e % 4 = 2 ∧ x.x = sideOf lo.x hi.x ((e / 4) % 2 = 1) ∧ x.y = sideOf lo.y hi.y ((e / 4 / 2) % 2 = 1)))
  | .unknown => False

/-- a clamped coordinate is on the side told by the comparison with the box centre -/
private theorem side_of_center (lo hi x : K) (h : lo ≤ hi) (hx : x = lo ∨ x = hi) :
    x = sideOf lo hi (x < (lo + hi) * ((mkRat 1 2 : ℚ) : K)) := by
  have hl : ((mkRat 1 2 : ℚ) : K) = 1 / 2 := by norm_num
  rw [hl]
  unfold sideOf
  split_ifs with c
  · rcases hx with e | e
    · exact e
    · rw [e] at c; exfalso; linarith
  · rcases hx with e | e
    · rw [e] at c ⊢; push Not at c; linarith
    · exact e

/-- bit table of the vertex id `b0 + 2 b1 + 4 b2` -/
private theorem id_bits (b0 b1 b2 : Prop) [Decidable b0] [Decidable b1] [Decidable b2] :
    ((if b0 then 1 else 0) + (if b1 then 2 else 0) + (if b2 then 4 else 0) : Nat) < 8 ∧
    ((((if b0 then 1 else 0) + (if b1 then 2 else 0) + (if b2 then 4 else 0) : Nat) % 2 = 1) ↔ b0) ∧
    (((((if b0 then 1 else 0) + (if b1 then 2 else 0) + (if b2 then 4 else 0) : Nat) / 2) % 2 = 1) ↔ b1) ∧
    (((((if b0 then 1 else 0) + (if b1 then 2 else 0) + (if b2 then 4 else 0) : Nat) / 4) % 2 = 1) ↔ b2) := by
  by_cases h0 : b0 <;> by_cases h1 : b1 <;> by_cases h2 : b2 <;> simp [h0, h1, h2]

private theorem sideOf_congr (lo hi : K) (b b' : Prop) [Decidable b] [Decidable b'] (h : b' ↔ b) :
    sideOf lo hi b = sideOf lo hi b' := by
  unfold sideOf
  by_cases hb : b
  · rw [if_pos hb, if_pos (h.mpr hb)]
  · rw [if_neg hb, if_neg (fun h' => hb (h.mp h'))]

private theorem neq_false_of_ne (a : K) (h : a ≠ 0) : @neq K (fieldNum K sq) a 0 = false := by
  rw [← Bool.not_eq_true]; exact fun h' => h ((neq_zero_iff sq a).mp h')

/-- the feature id computed from a point `ls` of the box and a shift whose non-zero coordinates are clamped onto a face
contains `ls` — and is never `Unknown` -/
theorem featPost3_contains (lo hi ls sh : V3 K) (hok : BoxOk3 lo hi) (hm : BoxMem3 lo hi ls)
    (hx : sh.x ≠ 0 → ls.x = lo.x ∨ ls.x = hi.x) (hy : sh.y ≠ 0 → ls.y = lo.y ∨ ls.y = hi.y)
    (hz : sh.z ≠ 0 → ls.z = lo.z ∨ ls.z = hi.z)
    (hall : sh.x = 0 → sh.y = 0 → sh.z = 0 →
      (ls.x = hi.x ∨ ls.x = lo.x ∨ ls.y = hi.y ∨ ls.y = lo.y ∨ ls.z = hi.z ∨ ls.z = lo.z)) :
    letI := fieldNum K sq
    FeatContains3 lo hi (featPost3 lo hi ls sh) ls := by
  letI := fieldNum K sq
  have he := eps_pos (K := K)
  obtain ⟨ok1, ok2, ok3⟩ := hok
  obtain ⟨⟨mx1, mx2⟩, ⟨my1, my2⟩, ⟨mz1, mz2⟩⟩ := hm
  have hcx : (V3.center lo hi).x = (lo.x + hi.x) * ((mkRat 1 2 : ℚ) : K) := by simp only [V3.center, V3.add, V3.smul, fieldNum_lit]
  have hcy : (V3.center lo hi).y = (lo.y + hi.y) * ((mkRat 1 2 : ℚ) : K) := by simp only [V3.center, V3.add, V3.smul, fieldNum_lit]
  have hcz : (V3.center lo hi).z = (lo.z + hi.z) * ((mkRat 1 2 : ℚ) : K) := by simp only [V3.center, V3.add, V3.smul, fieldNum_lit]
  have sx := fun h => side_of_center lo.x hi.x ls.x ok1 (hx h)
  have sy := fun h => side_of_center lo.y hi.y ls.y ok2 (hy h)
  have sz := fun h => side_of_center lo.z hi.z ls.z ok3 (hz h)
  rw [← hcx] at sx; rw [← hcy] at sy; rw [← hcz] at sz
  obtain ⟨ib, i0, i1, i2⟩ := id_bits (ls.x < (V3.center lo hi).x) (ls.y < (V3.center lo hi).y) (ls.z < (V3.center lo hi).z)
  unfold featPost3
  by_cases z0 : sh.x = 0 <;> by_cases z1 : sh.y = 0 <;> by_cases z2 : sh.z = 0
  · -- already on the boundary: scan of the faces
    have n0 := (neq_zero_iff sq _).mpr z0; have n1 := (neq_zero_iff sq _).mpr z1; have n2 := (neq_zero_iff sq _).mpr z2
    simp only [n0, n1, n2, if_true, Nat.reduceAdd, aabbFeature3.go, V3.get, eps, fieldNum_lit]
    simp only [Nat.reduceEqDiff, if_true, if_false, Nat.zero_add, Nat.reduceAdd, OfNat.ofNat_ne_zero, OfNat.ofNat_ne_one, one_ne_zero]
    have := hall z0 z1 z2
    split_ifs with c1 c2 c3 c4 c5 c6 <;> simp only [FeatContains3] <;> first | assumption | skip
    exfalso
    push Not at c1 c2 c3 c4 c5 c6
    rcases this with e | e | e | e | e | e <;> linarith
  · -- non-zero shift on: z
    have n0 := (neq_zero_iff sq _).mpr z0; have n1 := (neq_zero_iff sq _).mpr z1; have n2 := neq_false_of_ne sq _ z2
    simp only [n0, n1, n2, if_true, if_false, Bool.false_eq_true, Bool.not_true, Bool.not_false, Nat.reduceAdd, Nat.reduceEqDiff, V3.get, Nat.zero_add, Nat.add_zero, OfNat.ofNat_ne_zero, OfNat.ofNat_ne_one, one_ne_zero, zero_ne_one]
    have hs := sz z2
    split_ifs with c
    · have e : ls.z = lo.z := hs.trans (by unfold sideOf; exact if_pos c)
      simp only [FeatContains3]; linarith
    · have e : ls.z = hi.z := hs.trans (by unfold sideOf; exact if_neg c)
      simp only [FeatContains3]; linarith
  · -- non-zero shift on: y
    have n0 := (neq_zero_iff sq _).mpr z0; have n1 := neq_false_of_ne sq _ z1; have n2 := (neq_zero_iff sq _).mpr z2
    simp only [n0, n1, n2, if_true, if_false, Bool.false_eq_true, Bool.not_true, Bool.not_false, Nat.reduceAdd, Nat.reduceEqDiff, V3.get, Nat.zero_add, Nat.add_zero, OfNat.ofNat_ne_zero, OfNat.ofNat_ne_one, one_ne_zero, zero_ne_one]
    have hs := sy z1
    split_ifs with c
    · have e : ls.y = lo.y := hs.trans (by unfold sideOf; exact if_pos c)
      simp only [FeatContains3]; linarith
    · have e : ls.y = hi.y := hs.trans (by unfold sideOf; exact if_neg c)
      simp only [FeatContains3]; linarith
  · -- non-zero shift on: y,z
    have n0 := (neq_zero_iff sq _).mpr z0; have n1 := neq_false_of_ne sq _ z1; have n2 := neq_false_of_ne sq _ z2
    simp only [n0, n1, n2, if_true, if_false, Bool.false_eq_true, Bool.not_true, Bool.not_false, Nat.reduceAdd, Nat.reduceEqDiff, V3.get, Nat.zero_add, Nat.add_zero, OfNat.ofNat_ne_zero, OfNat.ofNat_ne_one, one_ne_zero, zero_ne_one]
    generalize (((if ls.x < (V3.center lo hi).x then 1 else 0) + if ls.y < (V3.center lo hi).y then 2 else 0) + if ls.z < (V3.center lo hi).z then 4 else 0 : Nat) = id at ib i0 i1 i2 ⊢
    have e4 : id * 4 / 4 = id := by omega
    have e4m : id * 4 % 4 = 0 := by omega
    simp only [FeatContains3, e4, e4m]
    exact ⟨ib, (Or.inl) ⟨trivial, (sy z1).trans (sideOf_congr _ _ _ _ i1), (sz z2).trans (sideOf_congr _ _ _ _ i2)⟩⟩
  · -- non-zero shift on: x
    have n0 := neq_false_of_ne sq _ z0; have n1 := (neq_zero_iff sq _).mpr z1; have n2 := (neq_zero_iff sq _).mpr z2
    simp only [n0, n1, n2, if_true, if_false, Bool.false_eq_true, Bool.not_true, Bool.not_false, Nat.reduceAdd, Nat.reduceEqDiff, V3.get, Nat.zero_add, Nat.add_zero, OfNat.ofNat_ne_zero, OfNat.ofNat_ne_one, one_ne_zero, zero_ne_one]
    have hs := sx z0
    split_ifs with c
    · have e : ls.x = lo.x := hs.trans (by unfold sideOf; exact if_pos c)
      simp only [FeatContains3]; linarith
    · have e : ls.x = hi.x := hs.trans (by unfold sideOf; exact if_neg c)
      simp only [FeatContains3]; linarith
  · -- non-zero shift on: x,z
    have n0 := neq_false_of_ne sq _ z0; have n1 := (neq_zero_iff sq _).mpr z1; have n2 := neq_false_of_ne sq _ z2
    simp only [n0, n1, n2, if_true, if_false, Bool.false_eq_true, Bool.not_true, Bool.not_false, Nat.reduceAdd, Nat.reduceEqDiff, V3.get, Nat.zero_add, Nat.add_zero, OfNat.ofNat_ne_zero, OfNat.ofNat_ne_one, one_ne_zero, zero_ne_one]
    generalize (((if ls.x < (V3.center lo hi).x then 1 else 0) + if ls.y < (V3.center lo hi).y then 2 else 0) + if ls.z < (V3.center lo hi).z then 4 else 0 : Nat) = id at ib i0 i1 i2 ⊢
    have e4 : (id * 4 + 1) / 4 = id := by omega
    have e4m : (id * 4 + 1) % 4 = 1 := by omega
    simp only [FeatContains3, e4, e4m]
    exact ⟨ib, (fun h => Or.inr (Or.inl h)) ⟨trivial, (sx z0).trans (sideOf_congr _ _ _ _ i0), (sz z2).trans (sideOf_congr _ _ _ _ i2)⟩⟩
  · -- non-zero shift on: x,y
    have n0 := neq_false_of_ne sq _ z0; have n1 := neq_false_of_ne sq _ z1; have n2 := (neq_zero_iff sq _).mpr z2
    simp only [n0, n1, n2, if_true, if_false, Bool.false_eq_true, Bool.not_true, Bool.not_false, Nat.reduceAdd, Nat.reduceEqDiff, V3.get, Nat.zero_add, Nat.add_zero, OfNat.ofNat_ne_zero, OfNat.ofNat_ne_one, one_ne_zero, zero_ne_one]
    generalize (((if ls.x < (V3.center lo hi).x then 1 else 0) + if ls.y < (V3.center lo hi).y then 2 else 0) + if ls.z < (V3.center lo hi).z then 4 else 0 : Nat) = id at ib i0 i1 i2 ⊢
    have e4 : (id * 4 + 2) / 4 = id := by omega
    have e4m : (id * 4 + 2) % 4 = 2 := by omega
    simp only [FeatContains3, e4, e4m]
    exact ⟨ib, (fun h => Or.inr (Or.inr h)) ⟨trivial, (sx z0).trans (sideOf_congr _ _ _ _ i0), (sy z1).trans (sideOf_congr _ _ _ _ i1)⟩⟩
  · -- non-zero shift on: x,y,z
    have n0 := neq_false_of_ne sq _ z0; have n1 := neq_false_of_ne sq _ z1; have n2 := neq_false_of_ne sq _ z2
    simp only [n0, n1, n2, if_true, if_false, Bool.false_eq_true, Bool.not_true, Bool.not_false, Nat.reduceAdd, Nat.reduceEqDiff, V3.get, Nat.zero_add, Nat.add_zero, OfNat.ofNat_ne_zero, OfNat.ofNat_ne_one, one_ne_zero, zero_ne_one]
    generalize (((if ls.x < (V3.center lo hi).x then 1 else 0) + if ls.y < (V3.center lo hi).y then 2 else 0) + if ls.z < (V3.center lo hi).z then 4 else 0 : Nat) = id at ib i0 i1 i2 ⊢
    simp only [FeatContains3]
    exact ⟨ib, (sx z0).trans (sideOf_congr _ _ _ _ i0), (sy z1).trans (sideOf_congr _ _ _ _ i1), (sz z2).trans (sideOf_congr _ _ _ _ i2)⟩

private theorem aabbStep_eq' (mp pm : K) (i : Nat) (st : BestSt K) :
    letI := fieldNum K sq
    aabbStep mp pm i st =
      (if (match st.1 with | none => true | some b => decide (b < max mp pm)) = true
        then (some (max mp pm), decide (pm ≤ mp), i) else st) := by
  letI := fieldNum K sq
  unfold aabbStep
  by_cases h : mp < pm
  · simp only [h, if_true, max_eq_right h.le, not_le.2 h, decide_false]; rfl
  · simp only [h, if_false, max_eq_left (not_lt.1 h), not_lt.1 h, decide_true]; rfl

private theorem box_shift_zero (lo hi p : V3 K) (hok : BoxOk3 lo hi) :
    letI := fieldNum K sq
    (((lo.sub p).sup V3.zero).sub ((p.sub hi).sup V3.zero)).isZero = true ↔ BoxMem3 lo hi p := by
  letI := fieldNum K sq
  simp only [V3.isZero, V3.sub, V3.sup, V3.zero, fieldNum_nmax, Bool.and_eq_true, neq_zero_iff, BoxMem3]
  rw [(clamp_shift lo.x hi.x p.x hok.1).1, (clamp_shift lo.y hi.y p.y hok.2.1).1, (clamp_shift lo.z hi.z p.z hok.2.2).1]
  tauto

/-- `Aabb::do_project_local_point(pt, solid = false)` for a point of the box: `(true, projection, shift)` moves one coordinate
onto its nearer face -/
private theorem aabb3_do_hollow (lo hi p : V3 K) (hok : BoxOk3 lo hi) (hm : BoxMem3 lo hi p) :
    letI := fieldNum K sq
    aabbDoProject3 lo hi p false = (true, ⟨lo.x, p.y, p.z⟩, ⟨lo.x - p.x, 0, 0⟩) ∨
    aabbDoProject3 lo hi p false = (true, ⟨hi.x, p.y, p.z⟩, ⟨hi.x - p.x, 0, 0⟩) ∨
    aabbDoProject3 lo hi p false = (true, ⟨p.x, lo.y, p.z⟩, ⟨0, lo.y - p.y, 0⟩) ∨
    aabbDoProject3 lo hi p false = (true, ⟨p.x, hi.y, p.z⟩, ⟨0, hi.y - p.y, 0⟩) ∨
    aabbDoProject3 lo hi p false = (true, ⟨p.x, p.y, lo.z⟩, ⟨0, 0, lo.z - p.z⟩) ∨
    aabbDoProject3 lo hi p false = (true, ⟨p.x, p.y, hi.z⟩, ⟨0, 0, hi.z - p.z⟩) := by
  letI := fieldNum K sq
  have hZ := (box_shift_zero sq lo hi p hok).mpr hm
  simp only [aabbDoProject3, hZ, Bool.not_true, Bool.false_eq_true, if_false, aabbStep_eq']
  simp only [V3.sub, decide_true, if_true]
  by_cases h1 : max (lo.x - p.x) (p.x - hi.x) < max (lo.y - p.y) (p.y - hi.y)
  · simp only [h1, decide_true, if_true]
    by_cases h2 : max (lo.y - p.y) (p.y - hi.y) < max (lo.z - p.z) (p.z - hi.z)
    · simp only [h2, decide_true, if_true, Option.getD_some]
      by_cases f : p.z - hi.z ≤ lo.z - p.z
      · have e := max_eq_left f
        simp only [f, decide_true, if_true]
        refine (fun h => Or.inr (Or.inr (Or.inr (Or.inr (Or.inl h))))) ?_
        refine Prod.ext rfl (Prod.ext (v3_ext ?_ ?_ ?_) (v3_ext ?_ ?_ ?_)) <;> simp [V3.add, V3.set, V3.zero, e]
      · simp only [f, decide_false, Bool.false_eq_true, if_false]
        push Not at f
        have e := max_eq_right f.le
        refine (fun h => Or.inr (Or.inr (Or.inr (Or.inr (Or.inr h))))) ?_
        refine Prod.ext rfl (Prod.ext (v3_ext ?_ ?_ ?_) (v3_ext ?_ ?_ ?_)) <;> simp [V3.add, V3.set, V3.zero, e]
    · simp only [h2, decide_false, Bool.false_eq_true, if_false, Option.getD_some]
      by_cases f : p.y - hi.y ≤ lo.y - p.y
      · have e := max_eq_left f
        simp only [f, decide_true, if_true]
        refine (fun h => Or.inr (Or.inr (Or.inl h))) ?_
        refine Prod.ext rfl (Prod.ext (v3_ext ?_ ?_ ?_) (v3_ext ?_ ?_ ?_)) <;> simp [V3.add, V3.set, V3.zero, e]
      · simp only [f, decide_false, Bool.false_eq_true, if_false]
        push Not at f
        have e := max_eq_right f.le
        refine (fun h => Or.inr (Or.inr (Or.inr (Or.inl h)))) ?_
        refine Prod.ext rfl (Prod.ext (v3_ext ?_ ?_ ?_) (v3_ext ?_ ?_ ?_)) <;> simp [V3.add, V3.set, V3.zero, e]
  · simp only [h1, decide_false, Bool.false_eq_true, if_false]
    by_cases h2 : max (lo.x - p.x) (p.x - hi.x) < max (lo.z - p.z) (p.z - hi.z)
    · simp only [h2, decide_true, if_true, Option.getD_some]
      by_cases f : p.z - hi.z ≤ lo.z - p.z
      · have e := max_eq_left f
        simp only [f, decide_true, if_true]
        refine (fun h => Or.inr (Or.inr (Or.inr (Or.inr (Or.inl h))))) ?_
        refine Prod.ext rfl (Prod.ext (v3_ext ?_ ?_ ?_) (v3_ext ?_ ?_ ?_)) <;> simp [V3.add, V3.set, V3.zero, e]
      · simp only [f, decide_false, Bool.false_eq_true, if_false]
        push Not at f
        have e := max_eq_right f.le
        refine (fun h => Or.inr (Or.inr (Or.inr (Or.inr (Or.inr h))))) ?_
        refine Prod.ext rfl (Prod.ext (v3_ext ?_ ?_ ?_) (v3_ext ?_ ?_ ?_)) <;> simp [V3.add, V3.set, V3.zero, e]
    · simp only [h2, decide_false, Bool.false_eq_true, if_false, Option.getD_some]
      by_cases f : p.x - hi.x ≤ lo.x - p.x
      · have e := max_eq_left f
        simp only [f, decide_true, if_true]
        refine Or.inl ?_
        refine Prod.ext rfl (Prod.ext (v3_ext ?_ ?_ ?_) (v3_ext ?_ ?_ ?_)) <;> simp [V3.add, V3.set, V3.zero, e]
      · simp only [f, decide_false, Bool.false_eq_true, if_false]
        push Not at f
        have e := max_eq_right f.le
        refine (fun h => Or.inr (Or.inl h)) ?_
        refine Prod.ext rfl (Prod.ext (v3_ext ?_ ?_ ?_) (v3_ext ?_ ?_ ?_)) <;> simp [V3.add, V3.set, V3.zero, e]

/-- one clamped coordinate: a non-zero shift puts the coordinate on an end of its interval -/
private theorem clamp_face (lo hi x : K) (h : lo ≤ hi) :
    max (lo - x) 0 - max (x - hi) 0 ≠ 0 →
      x + (max (lo - x) 0 - max (x - hi) 0) = lo ∨ x + (max (lo - x) 0 - max (x - hi) 0) = hi := by
  intro hne
  rcases lt_or_ge x lo with h1 | h1
  · left; rw [max_eq_left (by linarith : (0 : K) ≤ lo - x), max_eq_right (by linarith : x - hi ≤ 0)]; ring
  · rcases lt_or_ge hi x with h2 | h2
    · right; rw [max_eq_right (by linarith : lo - x ≤ 0), max_eq_left (by linarith : (0 : K) ≤ x - hi)]; ring
    · exfalso; apply hne
      rw [max_eq_right (by linarith : lo - x ≤ 0), max_eq_right (by linarith : x - hi ≤ 0)]; ring

/-- **`Aabb::project_local_point_and_get_feature`** (3-D): the projection is that of `project_local_point(pt, false)`, and the
reported feature — never `Unknown` — contains it: `Face(i)` / `Face(i+3)` is the `±` face of axis `i` the point lies on,
`Edge(e)` the edge along axis `e % 4` with the two other coordinates on the sides coded in `e / 4`, `Vertex(id)` the corner coded
by the three bits of `id`. -/
theorem aabb3_feature_spec (lo hi p : V3 K) (hok : BoxOk3 lo hi) :
    letI := fieldNum K sq
    (aabbFeature3 lo hi p).1 = aabbProject3 lo hi p false ∧
    FeatContains3 lo hi (aabbFeature3 lo hi p).2 (aabbFeature3 lo hi p).1.pt := by
  letI := fieldNum K sq
  rw [aabbFeature3_eq_post sq lo hi p _ rfl]
  refine ⟨rfl, ?_⟩
  simp only []
  by_cases hm : BoxMem3 lo hi p
  · obtain ⟨⟨mx1, mx2⟩, ⟨my1, my2⟩, ⟨mz1, mz2⟩⟩ := hm
    obtain ⟨ox, oy, oz⟩ := hok
    rcases aabb3_do_hollow sq lo hi p ⟨ox, oy, oz⟩ ⟨⟨mx1, mx2⟩, ⟨my1, my2⟩, ⟨mz1, mz2⟩⟩ with e | e | e | e | e | e
    · rw [e]
      exact featPost3_contains sq lo hi _ _ ⟨ox, oy, oz⟩
        ⟨⟨by first | exact le_refl _ | assumption, by first | exact le_refl _ | assumption⟩, ⟨by first | exact le_refl _ | assumption, by first | exact le_refl _ | assumption⟩, ⟨by first | exact le_refl _ | assumption, by first | exact le_refl _ | assumption⟩⟩
        (fun _ => Or.inl rfl) (fun h => absurd rfl h) (fun h => absurd rfl h) (fun _ _ _ => Or.inr (Or.inl rfl))
    · rw [e]
      exact featPost3_contains sq lo hi _ _ ⟨ox, oy, oz⟩
        ⟨⟨by first | exact le_refl _ | assumption, by first | exact le_refl _ | assumption⟩, ⟨by first | exact le_refl _ | assumption, by first | exact le_refl _ | assumption⟩, ⟨by first | exact le_refl _ | assumption, by first | exact le_refl _ | assumption⟩⟩
        (fun _ => Or.inr rfl) (fun h => absurd rfl h) (fun h => absurd rfl h) (fun _ _ _ => Or.inl rfl)
    · rw [e]
      exact featPost3_contains sq lo hi _ _ ⟨ox, oy, oz⟩
        ⟨⟨by first | exact le_refl _ | assumption, by first | exact le_refl _ | assumption⟩, ⟨by first | exact le_refl _ | assumption, by first | exact le_refl _ | assumption⟩, ⟨by first | exact le_refl _ | assumption, by first | exact le_refl _ | assumption⟩⟩
        (fun h => absurd rfl h) (fun _ => Or.inl rfl) (fun h => absurd rfl h) (fun _ _ _ => Or.inr (Or.inr (Or.inr (Or.inl rfl))))
    · rw [e]
      exact featPost3_contains sq lo hi _ _ ⟨ox, oy, oz⟩
        ⟨⟨by first | exact le_refl _ | assumption, by first | exact le_refl _ | assumption⟩, ⟨by first | exact le_refl _ | assumption, by first | exact le_refl _ | assumption⟩, ⟨by first | exact le_refl _ | assumption, by first | exact le_refl _ | assumption⟩⟩
        (fun h => absurd rfl h) (fun _ => Or.inr rfl) (fun h => absurd rfl h) (fun _ _ _ => Or.inr (Or.inr (Or.inl rfl)))
    · rw [e]
      exact featPost3_contains sq lo hi _ _ ⟨ox, oy, oz⟩
        ⟨⟨by first | exact le_refl _ | assumption, by first | exact le_refl _ | assumption⟩, ⟨by first | exact le_refl _ | assumption, by first | exact le_refl _ | assumption⟩, ⟨by first | exact le_refl _ | assumption, by first | exact le_refl _ | assumption⟩⟩
        (fun h => absurd rfl h) (fun h => absurd rfl h) (fun _ => Or.inl rfl) (fun _ _ _ => Or.inr (Or.inr (Or.inr (Or.inr (Or.inr (rfl))))))
    · rw [e]
      exact featPost3_contains sq lo hi _ _ ⟨ox, oy, oz⟩
        ⟨⟨by first | exact le_refl _ | assumption, by first | exact le_refl _ | assumption⟩, ⟨by first | exact le_refl _ | assumption, by first | exact le_refl _ | assumption⟩, ⟨by first | exact le_refl _ | assumption, by first | exact le_refl _ | assumption⟩⟩
        (fun h => absurd rfl h) (fun h => absurd rfl h) (fun _ => Or.inr rfl) (fun _ _ _ => Or.inr (Or.inr (Or.inr (Or.inr (Or.inl rfl)))))
  · have hZ : (((lo.sub p).sup V3.zero).sub ((p.sub hi).sup V3.zero)).isZero = false := by
      rw [← Bool.not_eq_true]; exact fun h => hm ((box_shift_zero sq lo hi p hok).mp h)
    have hr : aabbDoProject3 lo hi p false
        = (false, p.add (((lo.sub p).sup V3.zero).sub ((p.sub hi).sup V3.zero)), ((lo.sub p).sup V3.zero).sub ((p.sub hi).sup V3.zero)) := by
      simp only [aabbDoProject3, hZ, Bool.not_false, if_true]
    rw [hr]
    obtain ⟨x1, x2, x3, _⟩ := clamp_shift lo.x hi.x p.x hok.1
    obtain ⟨y1, y2, y3, _⟩ := clamp_shift lo.y hi.y p.y hok.2.1
    obtain ⟨z1, z2, z3, _⟩ := clamp_shift lo.z hi.z p.z hok.2.2
    refine featPost3_contains sq lo hi _ _ hok ?_ ?_ ?_ ?_ ?_
    · simp only [V3.sub, V3.sup, V3.zero, V3.add, fieldNum_nmax, BoxMem3]
      exact ⟨⟨x2, x3⟩, ⟨y2, y3⟩, ⟨z2, z3⟩⟩
    · simp only [V3.sub, V3.sup, V3.zero, V3.add, fieldNum_nmax]
      exact clamp_face lo.x hi.x p.x hok.1
    · simp only [V3.sub, V3.sup, V3.zero, V3.add, fieldNum_nmax]
      exact clamp_face lo.y hi.y p.y hok.2.1
    · simp only [V3.sub, V3.sup, V3.zero, V3.add, fieldNum_nmax]
      exact clamp_face lo.z hi.z p.z hok.2.2
    · simp only [V3.sub, V3.sup, V3.zero, V3.add, fieldNum_nmax]
      intro a b c
      exfalso
      exact hm ⟨x1.mp a, y1.mp b, z1.mp c⟩

/-- **`Cuboid::project_local_point_and_get_feature`** (3-D) -/
theorem cub3_feature_spec (s : Cuboid3 K) (p : V3 K) (h : CubOk3 s) :
    letI := fieldNum K sq
    (s.projectFeature p).1 = s.project p false ∧
    FeatContains3 ⟨-s.he.x, -s.he.y, -s.he.z⟩ s.he (s.projectFeature p).2 (s.projectFeature p).1.pt := by
  obtain ⟨a, b, c⟩ := h
  exact aabb3_feature_spec sq _ _ p ⟨by show -s.he.x ≤ s.he.x; linarith, by show -s.he.y ≤ s.he.y; linarith, by show -s.he.z ≤ s.he.z; linarith⟩

example : FeatContains3 (⟨-4, -4, -4⟩ : V3 ℚ) ⟨4, 4, 4⟩ (Feat.face 0) ⟨4, 0, 0⟩ ∧
    FeatContains3 (⟨-1, -2, -3⟩ : V3 ℚ) ⟨1, 2, 3⟩ (Feat.edge (6 * 4 + 0)) ⟨1/2, -2, -3⟩ ∧
    FeatContains3 (⟨-1, -2, -3⟩ : V3 ℚ) ⟨1, 2, 3⟩ (Feat.vertex 5) ⟨-1, 2, -3⟩ := by
  simp only [FeatContains3, sideOf]; norm_num

/-! ## Composite shapes (`point_composite_shape.rs`): projection = best-first minimum over the parts

`PointQuery for Compound / Polyline / TriMesh` runs the best-first BVH traversal of C07 with the lane weight
`aabb.distance_to_local_point(pt)` and the leaf cost `distance(pt, part.project_local_point(pt).point)`.
The corollary below combines C07's `bestFirst_optimal` with the per-part optimality theorems of this file: the part returned
by the traversal carries a point of the union that is nearest among *all* points of *all* parts.  (Costs are squared
distances — monotone in the distances the code compares.  The `solid && is_inside` early exit returns a projection equal to
the query point, whose cost is `0`; see `composite_early_exit_optimal`.) -/

open Model.Bvh Model.Bvh.Tree in
/-- **composite projection is the nearest point of the union**: let every part `d` come with a membership predicate `PartMem d`
and a projection `proj d` of the query point `p` that is a member and is nearest among the members (this is what the
`*_project_mem` / `*_project_optimal` theorems prove for each primitive), and let the lane weights be lower bounds of the
leaf costs below them (`C07.LB`; for box distances this is `axis_lower_bound`).  Then the best-first traversal returns a part
whose projection is a point of that part at least as close to `p` as every point of every part — or nothing iff there is no part. -/
theorem composite_project_optimal {B L : Type} (boxCost : B → K) (proj : L → V3 K) (PartMem : L → V3 K → Prop) (p : V3 K)
    (t : Tree B L)
    (hmem : ∀ d, PartMem d (proj d))
    (hpart : ∀ d q, PartMem d q → dsq3 p (proj d) ≤ dsq3 p q)
    (hlb : C07.LB boxCost (fun _ d => dsq3 p (proj d)) t) :
    ∃ res : Option (K × L), bestFirst C07.ltb boxCost (fun _ d => dsq3 p (proj d)) t = some res ∧
      (∀ (c : K) (d : L), res = some (c, d) →
        c = dsq3 p (proj d) ∧ (∃ b : B, (b, d) ∈ leaves t) ∧ PartMem d (proj d) ∧
        ∀ (b' : B) (d' : L), (b', d') ∈ leaves t → ∀ q, PartMem d' q → c ≤ dsq3 p q) ∧
      (res = none → leaves t = []) := by
  obtain ⟨res, hr, hopt, hnone⟩ := C07.bestFirst_optimal boxCost (fun _ d => dsq3 p (proj d)) t hlb
  refine ⟨res, hr, ?_, hnone⟩
  intro c d hres
  obtain ⟨⟨b, hb, hc⟩, hmin⟩ := hopt c d hres
  refine ⟨hc.symm, ⟨b, hb⟩, hmem d, ?_⟩
  intro b' d' hl q hq
  exact le_trans (hmin (b', d') hl) (hpart d' q hq)

/-- the `solid && is_inside` early exit: a part that returns the query point itself is optimal (cost `0`) -/
theorem composite_early_exit_optimal (p q : V3 K) : dsq3 p p ≤ dsq3 p q := by
  simp only [dsq3]
  nlinarith [mul_self_nonneg (p.x - q.x), mul_self_nonneg (p.y - q.y), mul_self_nonneg (p.z - q.z)]

/-- world-space projection on a posed cuboid (`project_point(pos, pt, solid = true)`), and membership in the posed cuboid -/
def posedCuboidProj (d : Iso3 K × Cuboid3 K) (p : V3 K) : V3 K :=
  letI := fieldNum K sq
  (posedProject3 (d.2.project) d.1 p true).pt
def posedCuboidMem (d : Iso3 K × Cuboid3 K) (q : V3 K) : Prop :=
  letI := fieldNum K sq
  d.2.Mem (d.1.invAct q)

theorem posedCuboid_nearest (d : Iso3 K × Cuboid3 K) (p : V3 K) (hu : Iso3.Unit d.1) (hc : CubOk3 d.2) :
    posedCuboidMem sq d (posedCuboidProj sq d p) ∧
    ∀ y, posedCuboidMem sq d y → dsq3 p (posedCuboidProj sq d p) ≤ dsq3 p y := by
  letI := fieldNum K sq
  unfold posedCuboidMem posedCuboidProj
  exact posed_project_optimal3 sq (d.2.project) d.2.Mem d.2.Mem d.1 p true hu
    (cub3_project_mem sq d.2 _ true hc)
    (fun q hq => cub3_project_optimal sq d.2 _ q true hc hq (Or.inl rfl))

attribute [irreducible] posedCuboidProj posedCuboidMem

open Model.Bvh Model.Bvh.Tree in
/-- instance of the corollary for a `Compound` of cuboid parts placed by unit isometries (solid posed projection): the part
returned by the traversal carries a point of its posed cuboid that is at least as close to `p` as every point of every posed
cuboid of the compound.  (Any other primitive of this file can be substituted for the cuboid: the only facts used are its
`*_project_mem` and `*_project_optimal` theorems, transported by `posed_project_optimal3`.) -/
theorem compound_cuboids_project_optimal {B : Type} (boxCost : B → K) (p : V3 K)
    (t : Tree B {d : Iso3 K × Cuboid3 K // Iso3.Unit d.1 ∧ CubOk3 d.2})
    (hlb : C07.LB boxCost (fun _ d => dsq3 p (posedCuboidProj sq d.1 p)) t) :
    ∃ res, bestFirst C07.ltb boxCost (fun _ d => dsq3 p (posedCuboidProj sq d.1 p)) t = some res ∧
      (∀ c d, res = some (c, d) →
        c = dsq3 p (posedCuboidProj sq d.1 p) ∧ (∃ b : B, (b, d) ∈ leaves t) ∧ posedCuboidMem sq d.1 (posedCuboidProj sq d.1 p) ∧
        ∀ b' d', (b', d') ∈ leaves t → ∀ q, posedCuboidMem sq d'.1 q → c ≤ dsq3 p q) ∧
      (res = none → leaves t = []) :=
  composite_project_optimal boxCost (fun d => posedCuboidProj sq d.1 p) (fun d q => posedCuboidMem sq d.1 q) p t
    (fun d => (posedCuboid_nearest sq d.1 p d.2.1 d.2.2).1) (fun d q hq => (posedCuboid_nearest sq d.1 p d.2.1 d.2.2).2 q hq) hlb

/-! ## Aabb / Cuboid feature ids, 2-D (`Face(i)`, `i < 2`: `+` edge of axis `i`; `Face(i+2)`: `-` edge; `Vertex(id)`: bit `i` set ⇔ `-` side) -/

def featPost2 {K : Type} [Num K] (mins maxs ls shift : V2 K) : Feat :=
  let z0 := neq shift.x 0; let z1 := neq shift.y 0
  let nzero := (if z0 then 1 else 0) + (if z1 then 1 else 0)
  let lastNotZero := if !z1 then 1 else 0
  if nzero = 2 then aabbFeature2.go mins maxs ls 2 0
  else
    let c := V2.center mins maxs
    if nzero = 1 then
      if ls.get lastNotZero < c.get lastNotZero then Feat.face (lastNotZero + 2) else Feat.face lastNotZero
    else
      let id := (if ls.x < c.x then 1 else 0) + (if ls.y < c.y then 2 else 0)
      Feat.vertex id

theorem aabbFeature2_eq_post (mins maxs pt : V2 K) :
    letI := fieldNum K sq
    ∀ r, r = aabbDoProject2 mins maxs pt false →
    aabbFeature2 mins maxs pt = (⟨r.1, r.2.1⟩, featPost2 mins maxs r.2.1 r.2.2) := by
  letI := fieldNum K sq
  intro r hr
  unfold aabbFeature2
  rw [← hr]
  unfold featPost2
  dsimp only
  generalize ((if neq r.2.2.x 0 = true then 1 else 0) + if neq r.2.2.y 0 = true then 1 else 0 : Nat) = n
  generalize (if (!neq r.2.2.y 0) = true then 1 else 0 : Nat) = j
  generalize ((if r.2.1.x < (mins.center maxs).x then 1 else 0) + if r.2.1.y < (mins.center maxs).y then 2 else 0 : Nat) = id
  split_ifs <;> rfl

/-- **the feature contains the point** (2-D box) -/
def FeatContains2 (lo hi : V2 K) (f : Feat) (x : V2 K) : Prop :=
  match f with
  | .face 0 => hi.x - ((mkRat 1 4503599627370496 : ℚ) : K) ≤ x.x
  | .face 1 => hi.y - ((mkRat 1 4503599627370496 : ℚ) : K) ≤ x.y
  | .face 2 => x.x ≤ lo.x + ((mkRat 1 4503599627370496 : ℚ) : K)
  | .face 3 => x.y ≤ lo.y + ((mkRat 1 4503599627370496 : ℚ) : K)
  | .face _ => False
  | .vertex id => id < 4 ∧ x.x = sideOf lo.x hi.x (id % 2 = 1) ∧ x.y = sideOf lo.y hi.y ((id / 2) % 2 = 1)
  | .edge _ => False
  | .unknown => False

private theorem id_bits2 (b0 b1 : Prop) [Decidable b0] [Decidable b1] :
    ((if b0 then 1 else 0) + (if b1 then 2 else 0) : Nat) < 4 ∧
    ((((if b0 then 1 else 0) + (if b1 then 2 else 0) : Nat) % 2 = 1) ↔ b0) ∧
    (((((if b0 then 1 else 0) + (if b1 then 2 else 0) : Nat) / 2) % 2 = 1) ↔ b1) := by
  by_cases h0 : b0 <;> by_cases h1 : b1 <;> simp [h0, h1]

theorem featPost2_contains (lo hi ls sh : V2 K) (hok : BoxOk2 lo hi) (hm : BoxMem2 lo hi ls)
    (hx : sh.x ≠ 0 → ls.x = lo.x ∨ ls.x = hi.x) (hy : sh.y ≠ 0 → ls.y = lo.y ∨ ls.y = hi.y)
    (hall : sh.x = 0 → sh.y = 0 → (ls.x = hi.x ∨ ls.x = lo.x ∨ ls.y = hi.y ∨ ls.y = lo.y)) :
    letI := fieldNum K sq
    FeatContains2 lo hi (featPost2 lo hi ls sh) ls := by
  letI := fieldNum K sq
  have he := eps_pos (K := K)
  obtain ⟨ok1, ok2⟩ := hok
  obtain ⟨⟨mx1, mx2⟩, ⟨my1, my2⟩⟩ := hm
  have hcx : (V2.center lo hi).x = (lo.x + hi.x) * ((mkRat 1 2 : ℚ) : K) := by simp only [V2.center, V2.add, V2.smul, fieldNum_lit]
  have hcy : (V2.center lo hi).y = (lo.y + hi.y) * ((mkRat 1 2 : ℚ) : K) := by simp only [V2.center, V2.add, V2.smul, fieldNum_lit]
  have sx := fun h => side_of_center lo.x hi.x ls.x ok1 (hx h)
  have sy := fun h => side_of_center lo.y hi.y ls.y ok2 (hy h)
  rw [← hcx] at sx; rw [← hcy] at sy
  obtain ⟨ib, i0, i1⟩ := id_bits2 (ls.x < (V2.center lo hi).x) (ls.y < (V2.center lo hi).y)
  unfold featPost2
  by_cases z0 : sh.x = 0 <;> by_cases z1 : sh.y = 0
  · have n0 := (neq_zero_iff sq _).mpr z0; have n1 := (neq_zero_iff sq _).mpr z1
    simp only [n0, n1, if_true, Nat.reduceAdd, aabbFeature2.go, V2.get, eps, fieldNum_lit]
    simp only [Nat.reduceEqDiff, if_true, if_false, Nat.zero_add, Nat.reduceAdd, OfNat.ofNat_ne_zero, OfNat.ofNat_ne_one, one_ne_zero]
    have := hall z0 z1
    split_ifs with c1 c2 c3 c4 <;> simp only [FeatContains2] <;> first | assumption | skip
    exfalso
    push Not at c1 c2 c3 c4
    rcases this with e | e | e | e <;> linarith
  · have n0 := (neq_zero_iff sq _).mpr z0; have n1 := neq_false_of_ne sq _ z1
    simp only [n0, n1, if_true, if_false, Bool.false_eq_true, Bool.not_true, Bool.not_false, Nat.reduceAdd, Nat.reduceEqDiff, V2.get, Nat.zero_add, Nat.add_zero, OfNat.ofNat_ne_zero, OfNat.ofNat_ne_one, one_ne_zero, zero_ne_one]
    have hs := sy z1
    split_ifs with c
    · have e : ls.y = lo.y := hs.trans (by unfold sideOf; exact if_pos c)
      simp only [FeatContains2]; linarith
    · have e : ls.y = hi.y := hs.trans (by unfold sideOf; exact if_neg c)
      simp only [FeatContains2]; linarith
  · have n0 := neq_false_of_ne sq _ z0; have n1 := (neq_zero_iff sq _).mpr z1
    simp only [n0, n1, if_true, if_false, Bool.false_eq_true, Bool.not_true, Bool.not_false, Nat.reduceAdd, Nat.reduceEqDiff, V2.get, Nat.zero_add, Nat.add_zero, OfNat.ofNat_ne_zero, OfNat.ofNat_ne_one, one_ne_zero, zero_ne_one]
    have hs := sx z0
    split_ifs with c
    · have e : ls.x = lo.x := hs.trans (by unfold sideOf; exact if_pos c)
      simp only [FeatContains2]; linarith
    · have e : ls.x = hi.x := hs.trans (by unfold sideOf; exact if_neg c)
      simp only [FeatContains2]; linarith
  · have n0 := neq_false_of_ne sq _ z0; have n1 := neq_false_of_ne sq _ z1
    simp only [n0, n1, if_true, if_false, Bool.false_eq_true, Bool.not_true, Bool.not_false, Nat.reduceAdd, Nat.reduceEqDiff, V2.get, Nat.zero_add, Nat.add_zero, OfNat.ofNat_ne_zero, OfNat.ofNat_ne_one, one_ne_zero, zero_ne_one]
    simp only [FeatContains2]
    exact ⟨ib, (sx z0).trans (sideOf_congr _ _ _ _ i0), (sy z1).trans (sideOf_congr _ _ _ _ i1)⟩

private theorem box_shift_zero2 (lo hi p : V2 K) (hok : BoxOk2 lo hi) :
    letI := fieldNum K sq
    (((lo.sub p).sup V2.zero).sub ((p.sub hi).sup V2.zero)).isZero = true ↔ BoxMem2 lo hi p := by
  letI := fieldNum K sq
  simp only [V2.isZero, V2.sub, V2.sup, V2.zero, fieldNum_nmax, Bool.and_eq_true, neq_zero_iff, BoxMem2]
  rw [(clamp_shift lo.x hi.x p.x hok.1).1, (clamp_shift lo.y hi.y p.y hok.2).1]

private theorem aabb2_do_hollow (lo hi p : V2 K) (hok : BoxOk2 lo hi) (hm : BoxMem2 lo hi p) :
    letI := fieldNum K sq
    aabbDoProject2 lo hi p false = (true, ⟨lo.x, p.y⟩, ⟨lo.x - p.x, 0⟩) ∨
    aabbDoProject2 lo hi p false = (true, ⟨hi.x, p.y⟩, ⟨hi.x - p.x, 0⟩) ∨
    aabbDoProject2 lo hi p false = (true, ⟨p.x, lo.y⟩, ⟨0, lo.y - p.y⟩) ∨
    aabbDoProject2 lo hi p false = (true, ⟨p.x, hi.y⟩, ⟨0, hi.y - p.y⟩) := by
  letI := fieldNum K sq
  have hZ := (box_shift_zero2 sq lo hi p hok).mpr hm
  simp only [aabbDoProject2, hZ, Bool.not_true, Bool.false_eq_true, if_false, aabbStep_eq']
  simp only [V2.sub, decide_true, if_true]
  by_cases h1 : max (lo.x - p.x) (p.x - hi.x) < max (lo.y - p.y) (p.y - hi.y)
  · simp only [h1, decide_true, if_true, Option.getD_some]
    by_cases f : p.y - hi.y ≤ lo.y - p.y
    · have e := max_eq_left f
      simp only [f, decide_true, if_true]
      refine (fun h => Or.inr (Or.inr (Or.inl h))) ?_
      refine Prod.ext rfl (Prod.ext (v2_ext ?_ ?_) (v2_ext ?_ ?_)) <;> simp [V2.add, V2.set, V2.zero, e]
    · simp only [f, decide_false, Bool.false_eq_true, if_false]
      push Not at f
      have e := max_eq_right f.le
      refine (fun h => Or.inr (Or.inr (Or.inr h))) ?_
      refine Prod.ext rfl (Prod.ext (v2_ext ?_ ?_) (v2_ext ?_ ?_)) <;> simp [V2.add, V2.set, V2.zero, e]
  · simp only [h1, decide_false, Bool.false_eq_true, if_false, Option.getD_some]
    by_cases f : p.x - hi.x ≤ lo.x - p.x
    · have e := max_eq_left f
      simp only [f, decide_true, if_true]
      refine Or.inl ?_
      refine Prod.ext rfl (Prod.ext (v2_ext ?_ ?_) (v2_ext ?_ ?_)) <;> simp [V2.add, V2.set, V2.zero, e]
    · simp only [f, decide_false, Bool.false_eq_true, if_false]
      push Not at f
      have e := max_eq_right f.le
      refine (fun h => Or.inr (Or.inl h)) ?_
      refine Prod.ext rfl (Prod.ext (v2_ext ?_ ?_) (v2_ext ?_ ?_)) <;> simp [V2.add, V2.set, V2.zero, e]

/-- **`Aabb::project_local_point_and_get_feature`** (2-D): the projection is that of `project_local_point(pt, false)`, and the
reported feature — never `Unknown` — contains it. -/
theorem aabb2_feature_spec (lo hi p : V2 K) (hok : BoxOk2 lo hi) :
    letI := fieldNum K sq
    (aabbFeature2 lo hi p).1 = aabbProject2 lo hi p false ∧
    FeatContains2 lo hi (aabbFeature2 lo hi p).2 (aabbFeature2 lo hi p).1.pt := by
  letI := fieldNum K sq
  rw [aabbFeature2_eq_post sq lo hi p _ rfl]
  refine ⟨rfl, ?_⟩
  simp only []
  by_cases hm : BoxMem2 lo hi p
  · obtain ⟨⟨mx1, mx2⟩, ⟨my1, my2⟩⟩ := hm
    obtain ⟨ox, oy⟩ := hok
    rcases aabb2_do_hollow sq lo hi p ⟨ox, oy⟩ ⟨⟨mx1, mx2⟩, ⟨my1, my2⟩⟩ with e | e | e | e
    · rw [e]
      exact featPost2_contains sq lo hi _ _ ⟨ox, oy⟩
        ⟨⟨by first | exact le_refl _ | assumption, by first | exact le_refl _ | assumption⟩, ⟨by first | exact le_refl _ | assumption, by first | exact le_refl _ | assumption⟩⟩
        (fun _ => Or.inl rfl) (fun h => absurd rfl h) (fun _ _ => Or.inr (Or.inl rfl))
    · rw [e]
      exact featPost2_contains sq lo hi _ _ ⟨ox, oy⟩
        ⟨⟨by first | exact le_refl _ | assumption, by first | exact le_refl _ | assumption⟩, ⟨by first | exact le_refl _ | assumption, by first | exact le_refl _ | assumption⟩⟩
        (fun _ => Or.inr rfl) (fun h => absurd rfl h) (fun _ _ => Or.inl rfl)
    · rw [e]
      exact featPost2_contains sq lo hi _ _ ⟨ox, oy⟩
        ⟨⟨by first | exact le_refl _ | assumption, by first | exact le_refl _ | assumption⟩, ⟨by first | exact le_refl _ | assumption, by first | exact le_refl _ | assumption⟩⟩
        (fun h => absurd rfl h) (fun _ => Or.inl rfl) (fun _ _ => Or.inr (Or.inr (Or.inr (rfl))))
    · rw [e]
      exact featPost2_contains sq lo hi _ _ ⟨ox, oy⟩
        ⟨⟨by first | exact le_refl _ | assumption, by first | exact le_refl _ | assumption⟩, ⟨by first | exact le_refl _ | assumption, by first | exact le_refl _ | assumption⟩⟩
        (fun h => absurd rfl h) (fun _ => Or.inr rfl) (fun _ _ => Or.inr (Or.inr (Or.inl rfl)))
  · have hZ : (((lo.sub p).sup V2.zero).sub ((p.sub hi).sup V2.zero)).isZero = false := by
      rw [← Bool.not_eq_true]; exact fun h => hm ((box_shift_zero2 sq lo hi p hok).mp h)
    have hr : aabbDoProject2 lo hi p false
        = (false, p.add (((lo.sub p).sup V2.zero).sub ((p.sub hi).sup V2.zero)), ((lo.sub p).sup V2.zero).sub ((p.sub hi).sup V2.zero)) := by
      simp only [aabbDoProject2, hZ, Bool.not_false, if_true]
    rw [hr]
    obtain ⟨x1, x2, x3, _⟩ := clamp_shift lo.x hi.x p.x hok.1
    obtain ⟨y1, y2, y3, _⟩ := clamp_shift lo.y hi.y p.y hok.2
    refine featPost2_contains sq lo hi _ _ hok ?_ ?_ ?_ ?_
    · simp only [V2.sub, V2.sup, V2.zero, V2.add, fieldNum_nmax, BoxMem2]
      exact ⟨⟨x2, x3⟩, ⟨y2, y3⟩⟩
    · simp only [V2.sub, V2.sup, V2.zero, V2.add, fieldNum_nmax]
      exact clamp_face lo.x hi.x p.x hok.1
    · simp only [V2.sub, V2.sup, V2.zero, V2.add, fieldNum_nmax]
      exact clamp_face lo.y hi.y p.y hok.2
    · simp only [V2.sub, V2.sup, V2.zero, V2.add, fieldNum_nmax]
      intro a b
      exfalso
      exact hm ⟨x1.mp a, y1.mp b⟩

/-- **`Cuboid::project_local_point_and_get_feature`** (2-D) -/
theorem cub2_feature_spec (s : Cuboid2 K) (p : V2 K) (h : CubOk2 s) :
    letI := fieldNum K sq
    (s.projectFeature p).1 = s.project p false ∧
    FeatContains2 ⟨-s.he.x, -s.he.y⟩ s.he (s.projectFeature p).2 (s.projectFeature p).1.pt := by
  obtain ⟨a, b⟩ := h
  exact aabb2_feature_spec sq _ _ p ⟨by show -s.he.x ≤ s.he.x; linarith, by show -s.he.y ≤ s.he.y; linarith⟩

example : FeatContains2 (⟨-4, -4⟩ : V2 ℚ) ⟨4, 4⟩ (Feat.face 1) ⟨0, 4⟩ ∧
    FeatContains2 (⟨-1, -2⟩ : V2 ℚ) ⟨1, 2⟩ (Feat.vertex 2) ⟨1, -2⟩ := by
  simp only [FeatContains2, sideOf]; norm_num

end C05
