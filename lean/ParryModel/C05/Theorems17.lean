import ParryModel.Field
import ParryModel.C05.Tet
import ParryModel.C05.Theorems15
set_option linter.style.haveILetI false
set_option linter.unusedSimpArgs false
set_option linter.unusedVariables false
set_option linter.unusedSectionVars false
/-!
# C05 property theorems, part 17 (fu5): `distance_to_local_point` / `_with_max_dist` of a tetrahedron against the SET

* `tet_distance_spec` — whenever the location form answers a vertex / edge / face, `distance_to_local_point` (either flag)
  returns `d ≥ 0` with `d² ≤ |pt - q|²` for every member `q` of the tetrahedron and `d² = |pt - q₀|²` for a boundary point
  `q₀`: it IS the distance to the tetrahedron.
* `tet_distance_interior_zero` — strictly interior point of a non-degenerate tetrahedron: `distance_to_local_point(pt, true) = 0`.
* `tet_max_dist_far` — `project_local_point_with_max_dist` answers `None` exactly when the bound is smaller than the distance to
  the tetrahedron: `None ↔ ∀ member q, max_dist² < |pt - q|²` (vertex / edge / face answers, `max_dist ≥ 0`).
-/
namespace C05
open Model

variable {K : Type} [Field K] [LinearOrder K] [IsStrictOrderedRing K] (sq : K → K)

theorem tet_distance_spec (hs : LawfulSqrt sq) (s : Tetrahedron K) (pt : V3 K) (solid : Bool) (pp : PP3 K) (l : TetLoc K)
    (h : letI := fieldNum K sq; s.projectLoc pt solid = TetRes.ok pp l) (hl : l ≠ TetLoc.solid) :
    letI := fieldNum K sq
    ∃ d, s.distance? pt solid = some d ∧ 0 ≤ d ∧ (∀ q, TetMem s q → d * d ≤ dist2K pt q) ∧
      ∃ q0, TetBdry s q0 ∧ d * d = dist2K pt q0 := by
  letI := fieldNum K sq
  obtain ⟨hp, _, hb, hn⟩ := tet_projectT_nearest sq hs s pt solid pp l h hl
  have hd : s.distance? pt solid = some (defaultDistance3 s.projectT pt solid) := by
    simp [Tetrahedron.distance?, hp]
  obtain ⟨h0, hsq⟩ := tet_distance_nonneg sq hs s pt solid _ hd
  refine ⟨_, hd, h0, fun q hq => ?_, _, hb, ?_⟩
  · rw [hsq]; exact hn q hq
  · rw [hsq]; rfl

theorem tet_distance_interior_zero (hs : LawfulSqrt sq) (s : Tetrahedron K) (pt : V3 K)
    (hdet : letI := fieldNum K sq; (s.b.sub s.a).dot ((s.c.sub s.a).cross (s.d.sub s.a)) ≠ 0)
    (β γ δ : K) (hβ : 0 < β) (hγ : 0 < γ) (hδ : 0 < δ) (hsum : β + γ + δ < 1)
    (hx : pt.x = s.a.x + β * (s.b.x - s.a.x) + γ * (s.c.x - s.a.x) + δ * (s.d.x - s.a.x))
    (hy : pt.y = s.a.y + β * (s.b.y - s.a.y) + γ * (s.c.y - s.a.y) + δ * (s.d.y - s.a.y))
    (hz : pt.z = s.a.z + β * (s.b.z - s.a.z) + γ * (s.c.z - s.a.z) + δ * (s.d.z - s.a.z)) :
    letI := fieldNum K sq
    s.distance? pt true = some 0 := by
  letI := fieldNum K sq
  have h := tet_interior_solid sq hs s pt hdet β γ δ hβ hγ hδ hsum hx hy hz
  have hp : s.panics pt true = false := by simp [Tetrahedron.panics, h]
  have hT : s.projectT pt true = ⟨true, pt⟩ := by simp [Tetrahedron.projectT, h]
  have hd : s.distance? pt true = some (defaultDistance3 s.projectT pt true) := by
    simp [Tetrahedron.distance?, hp]
  obtain ⟨h0, hsq⟩ := tet_distance_nonneg sq hs s pt true _ hd
  rw [hd]
  rw [hT] at hsq
  have hz0 : dsq3 pt pt = 0 := by simp only [dsq3]; ring
  rw [hz0] at hsq
  have : defaultDistance3 s.projectT pt true = 0 := mul_self_eq_zero.mp hsq
  rw [this]

theorem tet_max_dist_far (hs : LawfulSqrt sq) (s : Tetrahedron K) (pt : V3 K) (solid : Bool) (pp : PP3 K) (l : TetLoc K)
    (h : letI := fieldNum K sq; s.projectLoc pt solid = TetRes.ok pp l) (hl : l ≠ TetLoc.solid) (m : K) (hm : 0 ≤ m) :
    letI := fieldNum K sq
    ∃ r, s.maxDist? pt solid m = some r ∧ (r = none ↔ ∀ q, TetMem s q → m * m < dist2K pt q) ∧
      (∀ p', r = some p' → p' = pp) := by
  letI := fieldNum K sq
  obtain ⟨hp, _, hb, hn⟩ := tet_projectT_nearest sq hs s pt solid pp l h hl
  have hT : s.projectT pt solid = pp := by simp [Tetrahedron.projectT, h]
  have hmd : s.maxDist? pt solid m = some (defaultMaxDist3 s.projectT pt solid m) := by
    simp [Tetrahedron.maxDist?, hp]
  obtain ⟨_, h1, h2⟩ := tet_max_dist_spec sq hs s pt solid m hm _ hmd
  refine ⟨_, hmd, ?_, fun p' hp' => by rw [← hT]; exact h2 p' hp'⟩
  rw [h1]
  constructor
  · intro hlt q hq
    exact lt_of_lt_of_le hlt (hn q hq)
  · intro hall
    exact hall _ (tetBdry_mem s _ hb)

end C05
