import ParryModel.Field
import ParryModel.C05.Mesh
import ParryModel.C05.Theorems2
set_option linter.style.haveILetI false
set_option linter.unusedSimpArgs false
set_option linter.unusedVariables false
set_option linter.unusedSectionVars false
/-!
# C05 property theorems, part 8 (fu4): nearest point on a height field; glue of the TriMesh query

* `hf_project_nearest` — `PointQuery::project_local_point` for `HeightField`: the scan over `triangles()` returns the projection on
  one of the triangles (a point of the surface) and NO point of ANY triangle of the surface is closer to the query point
  (argmin of the fold + `tri3_project_optimal` for every triangle).
* `hf_max_dist_nearest` — `project_local_point_with_max_dist`: if it returns `Some(proj)`, `proj` is the projection on an emitted
  triangle, no point of any EMITTED triangle is closer, and `sqrt(dist²) ≤ max_dist`; if it returns `None` although triangles were
  emitted, the nearest emitted projection is beyond the bound.  (That every triangle within the bound IS emitted is
  `hf_range_complete` + `hf_map_elements_flat` + `hf_cull_sound`.)
* `tm_locate_spec` — `TriMesh::project_local_point_and_get_location` (tail): the point and the location are those of the triangle
  `fid`; the flag is the sign test with the pseudo-normal selected by the location (or the triangle's own flag when there is none).
* `tm_max_dist_spec` — `_with_max_dist` is `None` exactly when the (positive) bound is not beaten: `Some` ⇔ `|pt - proj| < max_dist`
  or the solid early exit.
-/
namespace C05
open Model Model.PM

variable {K : Type} [Field K] [LinearOrder K] [IsStrictOrderedRing K] (sq : K → K)

/-- squared distance of the projection on `t`, as the scan computes it -/
def hfKey (pt : V3 K) (solid : Bool) (t : Triangle3 K) : K :=
  letI := fieldNum K sq
  ((t.project pt solid).pt.sub pt).normSq

/-- the step of the `project_local_point` scan -/
def hfStep (pt : V3 K) (st : Option K × PP3 K) (t : Triangle3 K) : Option K × PP3 K :=
  letI := fieldNum K sq
  match st.1 with
  | none => (some (hfKey sq pt false t), t.project pt false)
  | some s => if hfKey sq pt false t < s then (some (hfKey sq pt false t), t.project pt false) else st

private theorem hfStep_fold (pt : V3 K) (l : List (Triangle3 K)) (st : Option K × PP3 K) :
    letI := fieldNum K sq
    (l.foldl (hfStep sq pt) st = st ∧ (∀ s, st.1 = some s → ∀ t ∈ l, s ≤ hfKey sq pt false t) ∧ (st.1 = none → l = [])) ∨
    (∃ tm ∈ l, l.foldl (hfStep sq pt) st = (some (hfKey sq pt false tm), tm.project pt false) ∧
      (∀ t ∈ l, hfKey sq pt false tm ≤ hfKey sq pt false t) ∧ (∀ s, st.1 = some s → hfKey sq pt false tm < s)) := by
  letI := fieldNum K sq
  induction l generalizing st with
  | nil => left; simp
  | cons t l ih =>
    simp only [List.foldl_cons]
    cases hst : st.1 with
    | none =>
      have e : hfStep sq pt st t = (some (hfKey sq pt false t), t.project pt false) := by simp [hfStep, hst]
      rw [e]
      right
      rcases ih (some (hfKey sq pt false t), t.project pt false) with ⟨h1, h2, _⟩ | ⟨tm, htm, h1, h2, h3⟩
      · refine ⟨t, by simp, h1, ?_, by simp⟩
        intro t' ht'
        rcases List.mem_cons.mp ht' with rfl | h
        · exact le_refl _
        · exact h2 _ rfl t' h
      · refine ⟨tm, by simp [htm], h1, ?_, by simp⟩
        intro t' ht'
        rcases List.mem_cons.mp ht' with rfl | h
        · exact (h3 _ rfl).le
        · exact h2 t' h
    | some s =>
      by_cases hlt : hfKey sq pt false t < s
      · have e : hfStep sq pt st t = (some (hfKey sq pt false t), t.project pt false) := by simp [hfStep, hst, hlt]
        rw [e]
        right
        rcases ih (some (hfKey sq pt false t), t.project pt false) with ⟨h1, h2, _⟩ | ⟨tm, htm, h1, h2, h3⟩
        · refine ⟨t, by simp, h1, ?_, ?_⟩
          · intro t' ht'
            rcases List.mem_cons.mp ht' with rfl | h
            · exact le_refl _
            · exact h2 _ rfl t' h
          · intro s' hs'; simp at hs'; subst hs'; exact hlt
        · refine ⟨tm, by simp [htm], h1, ?_, ?_⟩
          · intro t' ht'
            rcases List.mem_cons.mp ht' with rfl | h
            · exact (h3 _ rfl).le
            · exact h2 t' h
          · intro s' hs'; simp at hs'; subst hs'; exact lt_trans (h3 _ rfl) hlt
      · have e : hfStep sq pt st t = st := by simp [hfStep, hst, hlt]
        rw [e]
        rcases ih st with ⟨h1, h2, h3⟩ | ⟨tm, htm, h1, h2, h3⟩
        · left
          refine ⟨h1, ?_, by intro h; simp at h⟩
          intro s' hs' t' ht'
          simp at hs'; subst hs'
          rcases List.mem_cons.mp ht' with rfl | h
          · exact not_lt.mp hlt
          · exact h2 _ hst t' h
        · right
          refine ⟨tm, by simp [htm], h1, ?_, ?_⟩
          · intro t' ht'
            rcases List.mem_cons.mp ht' with rfl | h
            · exact le_trans (h3 _ hst).le (not_lt.mp hlt)
            · exact h2 t' h
          · intro s' hs'; simp at hs'; subst hs'; exact h3 _ hst

private theorem key_eq_dsq3 (pt : V3 K) (solid : Bool) (t : Triangle3 K) :
    letI := fieldNum K sq
    hfKey sq pt solid t = dsq3 pt (t.project pt solid).pt := by
  letI := fieldNum K sq
  simp only [hfKey, dsq3, V3.normSq, V3.dot, V3.sub]
  ring

/-- **nearest point on a height field** (`project_local_point`): the result is the projection on a triangle of the surface, and
no point of any triangle of the surface is closer. -/
theorem hf_project_nearest (f : HField K) (pt : V3 K) (ts : List (Triangle3 K))
    (hts : letI := fieldNum K sq; hfTriangles f = some ts) (hne : ts ≠ []) (hok : ∀ t ∈ ts, Tri3Ok t) :
    letI := fieldNum K sq
    ∃ pp, hfProject f pt = some pp ∧ (∃ t ∈ ts, t.Mem pp.pt) ∧
      ∀ t ∈ ts, ∀ q, t.Mem q → dsq3 pt pp.pt ≤ dsq3 pt q := by
  letI := fieldNum K sq
  have hfold : hfProject f pt = some (ts.foldl (hfStep sq pt) (none, ⟨false, pt⟩)).2 := by
    simp only [hfProject, hts]
    rfl
  rcases hfStep_fold sq pt ts (none, ⟨false, pt⟩) with ⟨_, _, h3⟩ | ⟨tm, htm, h1, h2, _⟩
  · exact absurd (h3 rfl) hne
  · refine ⟨_, hfold, ?_, ?_⟩
    · rw [h1]
      exact ⟨tm, htm, tri3_project_mem sq tm pt false (hok tm htm)⟩
    · intro t ht q hq
      rw [h1]
      have a := h2 t ht
      rw [key_eq_dsq3, key_eq_dsq3] at a
      exact le_trans a (tri3_project_optimal sq t pt q false (hok t ht) hq)

/-! ### `project_local_point_with_max_dist` of the height field -/

/-- the step of the `_with_max_dist` scan over the emitted triangles -/
def hfStepMax (pt : V3 K) (solid : Bool) (maxDist : K) (st : Option K × Option (PP3 K)) (t : Nat × Triangle3 K) :
    Option K × Option (PP3 K) :=
  letI := fieldNum K sq
  let better := match st.1 with | none => true | some s => decide (hfKey sq pt solid t.2 < s)
  if better then (some (hfKey sq pt solid t.2), if sq (hfKey sq pt solid t.2) ≤ maxDist then some (t.2.project pt solid) else st.2) else st

/-- invariant of the scan: the running minimum is the minimum of the keys seen, and the stored projection (if any) belongs to a
seen triangle whose key is within the bound … and is the running minimum whenever the minimum is within the bound. -/
private theorem hfStepMax_fold (pt : V3 K) (solid : Bool) (maxDist : K) (hmono : ∀ a b : K, a ≤ b → sq a ≤ sq b)
    (l : List (Nat × Triangle3 K)) (st : Option K × Option (PP3 K)) (seen : List (Nat × Triangle3 K))
    (hinv : letI := fieldNum K sq; (st.1 = none ∧ st.2 = none ∧ seen = []) ∨
      ∃ tm ∈ seen, st.1 = some (hfKey sq pt solid tm.2) ∧ (∀ t ∈ seen, hfKey sq pt solid tm.2 ≤ hfKey sq pt solid t.2) ∧
        ((sq (hfKey sq pt solid tm.2) ≤ maxDist ∧ st.2 = some (tm.2.project pt solid)) ∨
         (maxDist < sq (hfKey sq pt solid tm.2) ∧ st.2 = none))) :
    letI := fieldNum K sq
    let r := l.foldl (hfStepMax sq pt solid maxDist) st
    (r.1 = none ∧ r.2 = none ∧ seen ++ l = []) ∨
      ∃ tm ∈ seen ++ l, r.1 = some (hfKey sq pt solid tm.2) ∧ (∀ t ∈ seen ++ l, hfKey sq pt solid tm.2 ≤ hfKey sq pt solid t.2) ∧
        ((sq (hfKey sq pt solid tm.2) ≤ maxDist ∧ r.2 = some (tm.2.project pt solid)) ∨
         (maxDist < sq (hfKey sq pt solid tm.2) ∧ r.2 = none)) := by
  letI := fieldNum K sq
  induction l generalizing st seen with
  | nil => simpa using hinv
  | cons t l ih =>
    simp only [List.foldl_cons]
    have := ih (hfStepMax sq pt solid maxDist st t) (seen ++ [t]) ?_
    · simpa [List.append_assoc] using this
    · rcases hinv with ⟨h1, h2, h3⟩ | ⟨tm, htm, h1, h2, h3⟩
      · right
        subst h3
        refine ⟨t, by simp, ?_, by simp, ?_⟩
        · simp [hfStepMax, h1]
        · by_cases hb : sq (hfKey sq pt solid t.2) ≤ maxDist
          · left; exact ⟨hb, by simp [hfStepMax, h1, hb]⟩
          · right; exact ⟨not_le.mp hb, by simp [hfStepMax, h1, hb, h2]⟩
      · right
        by_cases hlt : hfKey sq pt solid t.2 < hfKey sq pt solid tm.2
        · refine ⟨t, by simp, ?_, ?_, ?_⟩
          · simp [hfStepMax, h1, hlt]
          · intro t' ht'
            rcases List.mem_append.mp ht' with h | h
            · exact le_trans hlt.le (h2 t' h)
            · simp at h; subst h; exact le_refl _
          · by_cases hb : sq (hfKey sq pt solid t.2) ≤ maxDist
            · left; exact ⟨hb, by simp [hfStepMax, h1, hlt, hb]⟩
            · right
              refine ⟨not_le.mp hb, ?_⟩
              rcases h3 with ⟨hb', _⟩ | ⟨_, hn⟩
              · exact absurd (le_trans (hmono _ _ hlt.le) hb') hb
              · simp [hfStepMax, h1, hlt, hb, hn]
        · refine ⟨tm, by simp [htm], ?_, ?_, ?_⟩
          · simp [hfStepMax, h1, hlt]
          · intro t' ht'
            rcases List.mem_append.mp ht' with h | h
            · exact h2 t' h
            · simp at h; subst h; exact not_lt.mp hlt
          · simpa [hfStepMax, h1, hlt] using h3

/-- **`project_local_point_with_max_dist` on the emitted triangles**: `Some(proj)` is the nearest projection over all emitted
triangles and within the bound; `None` (with something emitted) means the nearest emitted projection is beyond the bound. -/
theorem hf_max_dist_nearest (hmono : ∀ a b : K, a ≤ b → sq a ≤ sq b)
    (pt : V3 K) (solid : Bool) (maxDist : K) (ts : List (Nat × Triangle3 K)) (hne : ts ≠ []) (hok : ∀ t ∈ ts, Tri3Ok t.2) :
    letI := fieldNum K sq
    let r := (ts.foldl (hfStepMax sq pt solid maxDist) (none, none)).2
    ∃ tm ∈ ts, (∀ t ∈ ts, ∀ q, t.2.Mem q → dsq3 pt (tm.2.project pt solid).pt ≤ dsq3 pt q) ∧
      ((sq (dsq3 pt (tm.2.project pt solid).pt) ≤ maxDist ∧ r = some (tm.2.project pt solid)) ∨
       (maxDist < sq (dsq3 pt (tm.2.project pt solid).pt) ∧ r = none)) := by
  letI := fieldNum K sq
  have := hfStepMax_fold sq pt solid maxDist hmono ts (none, none) [] (Or.inl ⟨rfl, rfl, rfl⟩)
  simp only [List.nil_append] at this
  rcases this with ⟨_, _, h⟩ | ⟨tm, htm, _, h2, h3⟩
  · exact absurd h hne
  · refine ⟨tm, htm, ?_, ?_⟩
    · intro t ht q hq
      have a := h2 t ht
      rw [key_eq_dsq3, key_eq_dsq3] at a
      exact le_trans a (tri3_project_optimal sq t.2 pt q solid (hok t ht) hq)
    · rw [key_eq_dsq3] at h3
      exact h3

/-- the model's scan IS that fold -/
theorem hf_max_dist_is_fold (fl ce : K → Int) (f : HField K) (pt : V3 K) (solid : Bool) (maxDist : K)
    (ts : List (Nat × Triangle3 K))
    (hts : letI := fieldNum K sq
      hfMapElements fl ce f (pt.sub ⟨maxDist, maxDist, maxDist⟩) (pt.add ⟨maxDist, maxDist, maxDist⟩) = some ts) :
    letI := fieldNum K sq
    hfProjectMaxDist fl ce f pt solid maxDist = some (ts.foldl (hfStepMax sq pt solid maxDist) (none, none)).2 := by
  letI := fieldNum K sq
  simp only [hfProjectMaxDist, hts]
  rfl

/-! ### TriMesh glue -/

/-- the tail of `TriMesh::project_local_point_and_get_location`: point and location of the triangle `fid`; flag by the sign test -/
theorem tm_locate_spec (m : Mesh K) (pn : PseudoNormals K) (fid : Nat) (pt : V3 K) (solid : Bool) (t : Triangle3 K)
    (ht : m.tri? fid = some t) :
    letI := fieldNum K sq
    ∃ r, trimeshLocate m (some pn) fid pt solid = some r ∧ r.1.pt = (t.projectLoc pt solid).1.pt ∧ r.2 = (t.projectLoc pt solid).2 ∧
      (∀ n, pseudoNormalAt m pn fid t (t.projectLoc pt solid).2 = some n → r.1.inside = insideBy pt (t.projectLoc pt solid).1.pt n) ∧
      (pseudoNormalAt m pn fid t (t.projectLoc pt solid).2 = none → r.1.inside = (t.projectLoc pt solid).1.inside) := by
  letI := fieldNum K sq
  simp only [trimeshLocate, ht, bind, Option.bind, pure]
  cases hp : pseudoNormalAt m pn fid t (t.projectLoc pt solid).2 with
  | none => exact ⟨_, rfl, rfl, rfl, by simp, by simp⟩
  | some n => exact ⟨_, rfl, rfl, rfl, by intro n' hn'; simp at hn'; subst hn'; rfl, by simp⟩

/-- `_with_max_dist` for a positive bound: `Some` exactly when the bound is beaten (or the solid early exit fires) -/
theorem tm_max_dist_spec (m : Mesh K) (pn : PseudoNormals K) (fid : Nat) (pt : V3 K) (solid : Bool) (maxDist : K) (t : Triangle3 K)
    (ht : m.tri? fid = some t) (hpos : 0 < maxDist) (r : PP3 K × TriLoc K)
    (hr : letI := fieldNum K sq; trimeshLocate m (some pn) fid pt solid = some r) :
    letI := fieldNum K sq
    (trimeshLocateMaxDist m (some pn) fid pt solid maxDist = some (some r) ∧
        ((solid = true ∧ (t.projectLoc pt solid).1.inside = true) ∨ (r.1.pt.sub pt).norm < maxDist)) ∨
    (trimeshLocateMaxDist m (some pn) fid pt solid maxDist = some none ∧
        ¬ (solid = true ∧ (t.projectLoc pt solid).1.inside = true) ∧ maxDist ≤ (r.1.pt.sub pt).norm) := by
  letI := fieldNum K sq
  have h2 : ¬ (maxDist ≤ maxDist / (two : K)) := by
    rw [fieldNum_two]
    intro h
    have : maxDist / 2 < maxDist := by linarith [half_lt_self hpos]
    linarith
  simp only [trimeshLocateMaxDist, ht, hr, bind, Option.bind, pure, h2, if_false]
  by_cases hc : (solid && (t.projectLoc pt solid).1.inside) = true
  · left
    simp only [Bool.and_eq_true] at hc
    obtain ⟨hs, hi⟩ := hc
    subst hs
    simp [hi]
  · by_cases hd : (r.1.pt.sub pt).norm < maxDist
    · left
      simp [hd]
    · right
      simp only [Bool.and_eq_true] at hc
      refine ⟨by simp [hc, hd], hc, not_lt.mp hd⟩

end C05
