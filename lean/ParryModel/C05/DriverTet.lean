import ParryModel.C05.DriverBase
import ParryModel.C05.Tet
/-! C05 protocol, tetrahedron glue (fu5): `tet_{proj,maxd,wproj,wdist,wcont}` — the default `PointQuery` methods on top of the
modelled `project_local_point_and_get_location`.  Oracles: the exact tetrahedron description `tetSpec` (barycentric membership,
distance = minimum over the four face triangles), at the local point `m⁻¹ pt` for the posed forms; a panic is judged by
`tetPanicVerdict` (the documented `unimplemented!()` is the KNOWN finding; any other panic fails). -/
namespace C05
open Model Proto

def tetHandler2 (op : String) : Option Handler :=
  match op with
  | "proj" => some {
      model := fun a => run (do let s ← ptet; let p ← pv3; let so ← pbool
                                pure (if s.panics p so then "panic" else fpp D3 (pp3 (s.projectT p so)))) a
      oracle := fun a o => match run (do let s ← ptet; let p ← pv3; let so ← pbool; pure (s, p, so)) a with
        | some (s, p, so) =>
          let S := tetSpec s; let P := q3 p
          match o with
          | "panic" :: _ => tetPanicVerdict S P so
          | _ => withOut (ppOut D3) o fun (ins, pr) =>
              if !S.valid then "skip shape-outside-domain" else
              if vNan D3 pr then "fail nan-projection" else judgeProj D3 S P so ins (q3 pr)
        | none => "skip bad-args" }
  | "maxd" => some {
      model := fun a => run (do let s ← ptet; let p ← pv3; let so ← pbool; let d ← pf
                                pure (match s.maxDist? p so d with
                                  | none => "panic"
                                  | some none => "none"
                                  | some (some r) => "some " ++ fpp D3 (pp3 r))) a
      oracle := fun a o => match run (do let s ← ptet; let p ← pv3; let so ← pbool; let d ← pf; pure (s, p, so, d)) a with
        | some (s, p, so, d) =>
          let S := tetSpec s
          let P := q3 p
          match o with
          | "panic" :: _ => tetPanicVerdict S P so
          | _ =>
          if !S.valid then "skip shape-outside-domain" else
          let best := if so then S.dist P else S.bdist P
          let t := ftol D3 P P
          match o with
          | ["none"] => if q d ≤ best + t then "pass" else s!"fail none-within-bound best={rf best}"
          | "some" :: rest => withOut (ppOut D3) rest fun (ins, pr) =>
              if vNan D3 pr then "fail nan-projection"
              else if !(best ≤ q d + t) then s!"fail some-beyond-bound best={rf best}"
              else judgeProj D3 S P so ins (q3 pr)
          | _ => "fail unparsable-output"
        | none => "skip bad-args" }
  | "wproj" => some {
      model := fun a => run (do let s ← ptet; let m ← piso3; let p ← pv3; let so ← pbool
                                pure (match s.posedProject? m p so with
                                  | none => "panic" | some r => fpp D3 (pp3 r))) a
      oracle := fun a o => match run (do let s ← ptet; let m ← piso3; let p ← pv3; let so ← pbool; pure (s, m, p, so)) a with
        | some (s, m, p, so) =>
          let M := qiso3 m
          if !D3.isoOk M then "skip non-unit-rotation" else
          let S := tetSpec s
          let P := M.invAct (q3 p)
          match o with
          | "panic" :: _ => tetPanicVerdict S P so
          | _ => withOut (ppOut D3) o fun (ins, pr) =>
              if !S.valid then "skip shape-outside-domain"
              else if vNan D3 pr then "fail nan-projection"
              else judgeProj D3 S P so ins (M.invAct (q3 pr))
        | none => "skip bad-args" }
  | "wdist" => some {
      model := fun a => run (do let s ← ptet; let m ← piso3; let p ← pv3; let so ← pbool
                                pure (match s.posedDistance? m p so with
                                  | none => "panic" | some d => ff d)) a
      oracle := fun a o => match run (do let s ← ptet; let m ← piso3; let p ← pv3; let so ← pbool; pure (s, m, p, so)) a with
        | some (s, m, p, so) =>
          let M := qiso3 m
          if !D3.isoOk M then "skip non-unit-rotation" else
          let S := tetSpec s
          let P := M.invAct (q3 p)
          match o with
          | "panic" :: _ => tetPanicVerdict S P so
          | _ => withOut pfo o fun d =>
              if !S.valid then "skip shape-outside-domain"
              else if d.isNaN then "fail nan-distance"
              else tetTag S P (judgeDist D3 S P so (q d))
        | none => "skip bad-args" }
  | "wcont" => some {
      model := fun a => run (do let s ← ptet; let m ← piso3; let p ← pv3
                                pure (match s.posedContains? m p with
                                  | none => "panic" | some c => fb c)) a
      oracle := fun a o => match run (do let s ← ptet; let m ← piso3; let p ← pv3; pure (s, m, p)) a with
        | some (s, m, p) =>
          let M := qiso3 m
          if !D3.isoOk M then "skip non-unit-rotation" else
          let S := tetSpec s
          let P := M.invAct (q3 p)
          match o with
          | "panic" :: _ => tetPanicVerdict S P true
          | _ => withOut pbool o fun c => tetTag S P (judgeCont D3 S P c)
        | none => "skip bad-args" }
  | _ => none

end C05
