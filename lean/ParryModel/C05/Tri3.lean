import ParryModel.Field
import ParryModel.C05.Model
import ParryModel.C05.Lemmas
import ParryModel.C05.Tri2
set_option linter.style.haveILetI false
set_option linter.unusedSimpArgs false
set_option linter.unusedVariables false
/-!
# C05: 3-D triangle projection (`point_triangle.rs`, `dim3` branch), branch-by-branch core (used by `Theorems2.lean`)

The seven Voronoi regions are decided by the same six dot products as in 2-D plus the three triple products
`vc = n·(ab×ap)`, `vb = -n·(ac×cp)`, `va = n·(bc×bp)`, `n = ab×ac`.  By the Binet–Cauchy identity these are
`A·(ac·ap) - B·(ab·ap)`, `C·(ab·ap) - B·(ac·ap)` and `|n|² - vb - vc` in the Gram entries `A = |ab|²`, `B = ab·ac`, `C = |ac|²`,
so the whole case analysis reduces to the Gram-coordinate lemmas of `Lemmas.lean` (`tri_face_inside`).
-/
namespace C05
open Model

/-- `Triangle3.projectLoc` with every intermediate quantity as a parameter (so that case analysis is cheap) -/
def tri3Flat {K : Type} [Num K] (a b c pt ab ac bc : V3 K)
    (ab_ap ac_ap ab_bp ac_bp ab_cp ac_cp vc vb va apn bpn bc_bp nap : K) (solid : Bool) : PP3 K × TriLoc K :=
  if ab_ap ≤ 0 ∧ ac_ap ≤ 0 then (⟨V3.relEq a pt, a⟩, TriLoc.vertex 0)
  else if 0 ≤ ab_bp ∧ ac_bp ≤ ab_bp then (⟨V3.relEq b pt, b⟩, TriLoc.vertex 1)
  else if 0 ≤ ac_cp ∧ ab_cp ≤ ac_cp then (⟨V3.relEq c pt, c⟩, TriLoc.vertex 2)
  else if vc < 0 ∧ 0 ≤ ab_ap ∧ ab_bp ≤ 0 then
    (⟨V3.relEq (a.add (ab.smul (ab_ap / ab.normSq))) pt, a.add (ab.smul (ab_ap / ab.normSq))⟩,
      TriLoc.edge 0 (1 - ab_ap / ab.normSq) (ab_ap / ab.normSq))
  else if vb < 0 ∧ 0 ≤ ac_ap ∧ ac_cp ≤ 0 then
    (⟨V3.relEq (a.add (ac.smul (ac_ap / ac.normSq))) pt, a.add (ac.smul (ac_ap / ac.normSq))⟩,
      TriLoc.edge 2 (1 - ac_ap / ac.normSq) (ac_ap / ac.normSq))
  else if va < 0 ∧ 0 ≤ ac_bp - ab_bp ∧ 0 ≤ ab_cp - ac_cp then
    (⟨V3.relEq (b.add (bc.smul (bc_bp / bc.normSq))) pt, b.add (bc.smul (bc_bp / bc.normSq))⟩,
      TriLoc.edge 1 (1 - bc_bp / bc.normSq) (bc_bp / bc.normSq))
  else if !(neq (va + vb + vc) 0) then
    (⟨V3.relEq ((a.add (ab.smul (vb * (1 / (va + vb + vc))))).add (ac.smul (vc * (1 / (va + vb + vc))))) pt,
        (a.add (ab.smul (vb * (1 / (va + vb + vc))))).add (ac.smul (vc * (1 / (va + vb + vc))))⟩,
      TriLoc.face (if 0 ≤ nap then 0 else 1) (1 - vb * (1 / (va + vb + vc)) - vc * (1 / (va + vb + vc)))
        (vb * (1 / (va + vb + vc))) (vc * (1 / (va + vb + vc))))
  else if solid then (⟨true, pt⟩, TriLoc.solid)
  else
    let v := ab_ap / (ab_ap - ab_bp)
    let w := ac_ap / (ac_ap - ac_cp)
    let u := (ac_bp - ab_bp) / (ac_bp - ab_bp + ab_cp - ac_cp)
    let d_ab := apn - (ab.normSq * v * v)
    let d_ac := apn - (ac.normSq * w * w)
    let d_bc := bpn - (bc.normSq * u * u)
    if d_ab < d_ac then
      if d_ab < d_bc then (⟨true, a.add (ab.smul v)⟩, TriLoc.edge 0 (1 - v) v)
      else (⟨true, b.add (bc.smul u)⟩, TriLoc.edge 1 (1 - u) u)
    else if d_ac < d_bc then (⟨true, a.add (ac.smul w)⟩, TriLoc.edge 2 (1 - w) w)
    else (⟨true, b.add (bc.smul u)⟩, TriLoc.edge 1 (1 - u) u)

variable {K : Type} [Field K] [LinearOrder K] [IsStrictOrderedRing K] (sq : K → K)

theorem tri3_projectLoc_eq_flat (s : Triangle3 K) (pt : V3 K) (solid : Bool) :
    letI := fieldNum K sq
    s.projectLoc pt solid =
      tri3Flat s.a s.b s.c pt (s.b.sub s.a) (s.c.sub s.a) (s.c.sub s.b)
        ((s.b.sub s.a).dot (pt.sub s.a)) ((s.c.sub s.a).dot (pt.sub s.a))
        ((s.b.sub s.a).dot (pt.sub s.b)) ((s.c.sub s.a).dot (pt.sub s.b))
        ((s.b.sub s.a).dot (pt.sub s.c)) ((s.c.sub s.a).dot (pt.sub s.c))
        (((s.b.sub s.a).cross (s.c.sub s.a)).dot ((s.b.sub s.a).cross (pt.sub s.a)))
        (-(((s.b.sub s.a).cross (s.c.sub s.a)).dot ((s.c.sub s.a).cross (pt.sub s.c))))
        (((s.b.sub s.a).cross (s.c.sub s.a)).dot ((s.c.sub s.b).cross (pt.sub s.b)))
        (pt.sub s.a).normSq (pt.sub s.b).normSq ((s.c.sub s.b).dot (pt.sub s.b))
        (((s.b.sub s.a).cross (s.c.sub s.a)).dot (pt.sub s.a)) solid := rfl

/-- membership in scalar form -/
theorem tri3_mem_iff (ax ay az bx by' bz cx cy cz qx qy qz : K) :
    letI := fieldNum K sq
    (⟨⟨ax, ay, az⟩, ⟨bx, by', bz⟩, ⟨cx, cy, cz⟩⟩ : Triangle3 K).Mem ⟨qx, qy, qz⟩ ↔
      ∃ u v : K, 0 ≤ u ∧ 0 ≤ v ∧ u + v ≤ 1 ∧ qx = ax + (bx - ax) * u + (cx - ax) * v ∧ qy = ay + (by' - ay) * u + (cy - ay) * v
        ∧ qz = az + (bz - az) * u + (cz - az) * v := by
  simp only [Triangle3.Mem, V3.add, V3.sub, V3.smul, V3.mk.injEq]

/-- **face region in Gram form** (shared by 2-D and 3-D): with `vc = A·P2 - B·P1`, `vb = C·P1 - B·P2`, `va + vb + vc = D = AC - B²`
and `s = vb/D`, `t = vc/D`: if none of the six tests fires then `(s,t)` are barycentric coordinates of a point of the triangle
and `P1 = ab·ap = sA + tB`, `P2 = ac·ap = sB + tC` (the foot of `p` on the triangle's plane is `a + s·ab + t·ac`). -/
theorem tri_face_gram (A B C P1 P2 vc vb va s t : K) (hA : 0 < A) (hC : 0 < C) (hD : 0 < A * C - B * B)
    (G1 : vc = A * P2 - B * P1) (G2 : vb = C * P1 - B * P2) (G3 : va + vb + vc = A * C - B * B)
    (hs : s * (A * C - B * B) = vb) (ht : t * (A * C - B * B) = vc)
    (t1 : ¬(P1 ≤ 0 ∧ P2 ≤ 0))
    (t2 : ¬(0 ≤ P1 - A ∧ P2 - B ≤ P1 - A))
    (t3 : ¬(0 ≤ P2 - C ∧ P1 - B ≤ P2 - C))
    (t4 : ¬(vc < 0 ∧ 0 ≤ P1 ∧ P1 - A ≤ 0))
    (t5 : ¬(vb < 0 ∧ 0 ≤ P2 ∧ P2 - C ≤ 0))
    (t6 : ¬(va < 0 ∧ 0 ≤ (P2 - B) - (P1 - A) ∧ 0 ≤ (P1 - B) - (P2 - C))) :
    0 ≤ s ∧ 0 ≤ t ∧ s + t ≤ 1 ∧ P1 = s * A + t * B ∧ P2 = s * B + t * C := by
  have hDne : A * C - B * B ≠ 0 := ne_of_gt hD
  have hP1 : P1 = s * A + t * B := by
    apply mul_right_cancel₀ hDne
    linear_combination (-A) * hs + (-B) * ht - A * G2 - B * G1
  have hP2 : P2 = s * B + t * C := by
    apply mul_right_cancel₀ hDne
    linear_combination (-B) * hs + (-C) * ht - B * G2 - C * G1
  have hva : va = (1 - s - t) * (A * C - B * B) := by linear_combination G3 + hs + ht
  have h := tri_face_inside A B C s t hA hC hD
    (fun ⟨x, y⟩ => t1 ⟨by linarith, by linarith⟩)
    (fun ⟨x, y⟩ => t2 ⟨by linarith, by linarith⟩)
    (fun ⟨x, y⟩ => t3 ⟨by linarith, by linarith⟩)
    (fun ⟨x, y, z⟩ => t4 ⟨by rw [← ht]; exact mul_neg_of_neg_of_pos x hD, by linarith, by linarith⟩)
    (fun ⟨x, y, z⟩ => t5 ⟨by rw [← hs]; exact mul_neg_of_neg_of_pos x hD, by linarith, by linarith⟩)
    (fun ⟨x, y, z⟩ => t6 ⟨by rw [hva]; exact mul_neg_of_neg_of_pos x hD, by linarith, by linarith⟩)
  exact ⟨h.1, h.2.1, h.2.2, hP1, hP2⟩

/-- sign of `va` in the frame of vertex `b` (Gram form): `(ba·bp - k·(ba·bc))·|bc|² = va` when `k·|bc|² = bc·bp` -/
theorem tri3_edge_bc_sign (A B C N x y P1 P2 vc vb va k bcbp : K) (r3 : x = P1 - A) (r4 : y = P2 - B)
    (g1 : vc = A * P2 - B * P1) (g2 : vb = C * P1 - B * P2) (g3 : va + vb + vc = A * C - B * B)
    (r10 : bcbp = y - x) (rbc : N = A - 2 * B + C) (hk : k * N = bcbp) :
    (-x - k * (A - B)) * N = va := by
  subst r3 r4 g1 g2 r10 rbc
  linear_combination (-(A - B)) * hk - g3

/-- Gram facts of a non-degenerate 3-D triangle (`|ab × ac|² ≠ 0`) -/
theorem tri3_gram (ax ay az bx by' bz cx cy cz : K)
    (hn : ((bx - ax) * (bx - ax) + (by' - ay) * (by' - ay) + (bz - az) * (bz - az)) * ((cx - ax) * (cx - ax) + (cy - ay) * (cy - ay) + (cz - az) * (cz - az)) - ((bx - ax) * (cx - ax) + (by' - ay) * (cy - ay) + (bz - az) * (cz - az)) * ((bx - ax) * (cx - ax) + (by' - ay) * (cy - ay) + (bz - az) * (cz - az)) ≠ 0) :
    0 < ((bx - ax) * (bx - ax) + (by' - ay) * (by' - ay) + (bz - az) * (bz - az)) ∧ 0 < ((cx - ax) * (cx - ax) + (cy - ay) * (cy - ay) + (cz - az) * (cz - az)) ∧ 0 < (cx - bx) * (cx - bx) + (cy - by') * (cy - by') + (cz - bz) * (cz - bz) ∧ 0 < ((bx - ax) * (bx - ax) + (by' - ay) * (by' - ay) + (bz - az) * (bz - az)) * ((cx - ax) * (cx - ax) + (cy - ay) * (cy - ay) + (cz - az) * (cz - az)) - ((bx - ax) * (cx - ax) + (by' - ay) * (cy - ay) + (bz - az) * (cz - az)) * ((bx - ax) * (cx - ax) + (by' - ay) * (cy - ay) + (bz - az) * (cz - az)) := by
  have hD0 : 0 ≤ ((bx - ax) * (bx - ax) + (by' - ay) * (by' - ay) + (bz - az) * (bz - az)) * ((cx - ax) * (cx - ax) + (cy - ay) * (cy - ay) + (cz - az) * (cz - az)) - ((bx - ax) * (cx - ax) + (by' - ay) * (cy - ay) + (bz - az) * (cz - az)) * ((bx - ax) * (cx - ax) + (by' - ay) * (cy - ay) + (bz - az) * (cz - az)) := by
    have : ((bx - ax) * (bx - ax) + (by' - ay) * (by' - ay) + (bz - az) * (bz - az)) * ((cx - ax) * (cx - ax) + (cy - ay) * (cy - ay) + (cz - az) * (cz - az)) - ((bx - ax) * (cx - ax) + (by' - ay) * (cy - ay) + (bz - az) * (cz - az)) * ((bx - ax) * (cx - ax) + (by' - ay) * (cy - ay) + (bz - az) * (cz - az)) = ((by' - ay) * (cz - az) - (bz - az) * (cy - ay)) * ((by' - ay) * (cz - az) - (bz - az) * (cy - ay))
        + ((bz - az) * (cx - ax) - (bx - ax) * (cz - az)) * ((bz - az) * (cx - ax) - (bx - ax) * (cz - az))
        + ((bx - ax) * (cy - ay) - (by' - ay) * (cx - ax)) * ((bx - ax) * (cy - ay) - (by' - ay) * (cx - ax)) := by ring
    rw [this]
    nlinarith [mul_self_nonneg ((by' - ay) * (cz - az) - (bz - az) * (cy - ay)), mul_self_nonneg ((bz - az) * (cx - ax) - (bx - ax) * (cz - az)),
      mul_self_nonneg ((bx - ax) * (cy - ay) - (by' - ay) * (cx - ax))]
  have hD : 0 < ((bx - ax) * (bx - ax) + (by' - ay) * (by' - ay) + (bz - az) * (bz - az)) * ((cx - ax) * (cx - ax) + (cy - ay) * (cy - ay) + (cz - az) * (cz - az)) - ((bx - ax) * (cx - ax) + (by' - ay) * (cy - ay) + (bz - az) * (cz - az)) * ((bx - ax) * (cx - ax) + (by' - ay) * (cy - ay) + (bz - az) * (cz - az)) := lt_of_le_of_ne hD0 (Ne.symm hn)
  refine ⟨?_, ?_, ?_, hD⟩
  · by_contra h; push Not at h
    obtain ⟨e1, e2, e3⟩ := sumsq3_eq_zero h
    apply hn; rw [e1, e2, e3]; ring
  · by_contra h; push Not at h
    obtain ⟨e1, e2, e3⟩ := sumsq3_eq_zero h
    apply hn; rw [e1, e2, e3]; ring
  · by_contra h; push Not at h
    obtain ⟨e1, e2, e3⟩ := sumsq3_eq_zero h
    apply hn
    have e1' : cx = bx := by linarith
    have e2' : cy = by' := by linarith
    have e3' : cz = bz := by linarith
    rw [e1', e2', e3']; ring

/-- the Gram relations between the quantities computed by the 3-D code (Binet–Cauchy / Lagrange identities) -/
theorem tri3_relations (ax ay az bx by' bz cx cy cz px py pz : K)
    (ab_ap ac_ap ab_bp ac_bp ab_cp ac_cp vc vb va bc_bp : K)
    (e1 : ab_ap = (bx - ax) * (px - ax) + (by' - ay) * (py - ay) + (bz - az) * (pz - az))
    (e2 : ac_ap = (cx - ax) * (px - ax) + (cy - ay) * (py - ay) + (cz - az) * (pz - az))
    (e3 : ab_bp = (bx - ax) * (px - bx) + (by' - ay) * (py - by') + (bz - az) * (pz - bz))
    (e4 : ac_bp = (cx - ax) * (px - bx) + (cy - ay) * (py - by') + (cz - az) * (pz - bz))
    (e5 : ab_cp = (bx - ax) * (px - cx) + (by' - ay) * (py - cy) + (bz - az) * (pz - cz))
    (e6 : ac_cp = (cx - ax) * (px - cx) + (cy - ay) * (py - cy) + (cz - az) * (pz - cz))
    (e7 : vc = ((by' - ay) * (cz - az) - (bz - az) * (cy - ay)) * ((by' - ay) * (pz - az) - (bz - az) * (py - ay)) + ((bz - az) * (cx - ax) - (bx - ax) * (cz - az)) * ((bz - az) * (px - ax) - (bx - ax) * (pz - az)) + ((bx - ax) * (cy - ay) - (by' - ay) * (cx - ax)) * ((bx - ax) * (py - ay) - (by' - ay) * (px - ax)))
    (e8 : vb = -(((by' - ay) * (cz - az) - (bz - az) * (cy - ay)) * ((cy - ay) * (pz - cz) - (cz - az) * (py - cy)) + ((bz - az) * (cx - ax) - (bx - ax) * (cz - az)) * ((cz - az) * (px - cx) - (cx - ax) * (pz - cz)) + ((bx - ax) * (cy - ay) - (by' - ay) * (cx - ax)) * ((cx - ax) * (py - cy) - (cy - ay) * (px - cx))))
    (e9 : va = ((by' - ay) * (cz - az) - (bz - az) * (cy - ay)) * ((cy - by') * (pz - bz) - (cz - bz) * (py - by')) + ((bz - az) * (cx - ax) - (bx - ax) * (cz - az)) * ((cz - bz) * (px - bx) - (cx - bx) * (pz - bz)) + ((bx - ax) * (cy - ay) - (by' - ay) * (cx - ax)) * ((cx - bx) * (py - by') - (cy - by') * (px - bx)))
    (e10 : bc_bp = (cx - bx) * (px - bx) + (cy - by') * (py - by') + (cz - bz) * (pz - bz)) :
    ab_bp = ab_ap - ((bx - ax) * (bx - ax) + (by' - ay) * (by' - ay) + (bz - az) * (bz - az)) ∧ ac_bp = ac_ap - ((bx - ax) * (cx - ax) + (by' - ay) * (cy - ay) + (bz - az) * (cz - az)) ∧ ab_cp = ab_ap - ((bx - ax) * (cx - ax) + (by' - ay) * (cy - ay) + (bz - az) * (cz - az)) ∧ ac_cp = ac_ap - ((cx - ax) * (cx - ax) + (cy - ay) * (cy - ay) + (cz - az) * (cz - az)) ∧
    vc = ((bx - ax) * (bx - ax) + (by' - ay) * (by' - ay) + (bz - az) * (bz - az)) * ac_ap - ((bx - ax) * (cx - ax) + (by' - ay) * (cy - ay) + (bz - az) * (cz - az)) * ab_ap ∧ vb = ((cx - ax) * (cx - ax) + (cy - ay) * (cy - ay) + (cz - az) * (cz - az)) * ab_ap - ((bx - ax) * (cx - ax) + (by' - ay) * (cy - ay) + (bz - az) * (cz - az)) * ac_ap ∧
    va + vb + vc = ((bx - ax) * (bx - ax) + (by' - ay) * (by' - ay) + (bz - az) * (bz - az)) * ((cx - ax) * (cx - ax) + (cy - ay) * (cy - ay) + (cz - az) * (cz - az)) - ((bx - ax) * (cx - ax) + (by' - ay) * (cy - ay) + (bz - az) * (cz - az)) * ((bx - ax) * (cx - ax) + (by' - ay) * (cy - ay) + (bz - az) * (cz - az)) ∧
    bc_bp = ac_bp - ab_bp ∧ ((cx - bx) * (cx - bx) + (cy - by') * (cy - by') + (cz - bz) * (cz - bz)) = ((bx - ax) * (bx - ax) + (by' - ay) * (by' - ay) + (bz - az) * (bz - az)) - 2 * ((bx - ax) * (cx - ax) + (by' - ay) * (cy - ay) + (bz - az) * (cz - az)) + ((cx - ax) * (cx - ax) + (cy - ay) * (cy - ay) + (cz - az) * (cz - az)) := by
  subst e1 e2 e3 e4 e5 e6 e7 e8 e9 e10
  refine ⟨by ring, by ring, by ring, by ring, by ring, by ring, by ring, by ring, by ring⟩

set_option maxHeartbeats 1600000 in
/-- everything about one evaluation of the 3-D `project_local_point_and_get_location`, branch by branch: the result is a
member of the triangle and satisfies the variational inequality `⟨p - proj, q - proj⟩ ≤ 0` against every member `q`
(for every `p`, both flags; the degenerate `va+vb+vc = 0` tail is unreachable for a non-degenerate triangle). -/
theorem tri3_flat_core (ax ay az bx by' bz cx cy cz px py pz : K) (solid : Bool)
    (hn : ((bx - ax) * (bx - ax) + (by' - ay) * (by' - ay) + (bz - az) * (bz - az)) * ((cx - ax) * (cx - ax) + (cy - ay) * (cy - ay) + (cz - az) * (cz - az)) - ((bx - ax) * (cx - ax) + (by' - ay) * (cy - ay) + (bz - az) * (cz - az)) * ((bx - ax) * (cx - ax) + (by' - ay) * (cy - ay) + (bz - az) * (cz - az)) ≠ 0)
    (ab_ap ac_ap ab_bp ac_bp ab_cp ac_cp vc vb va apn bpn bc_bp nap : K)
    (e1 : ab_ap = (bx - ax) * (px - ax) + (by' - ay) * (py - ay) + (bz - az) * (pz - az))
    (e2 : ac_ap = (cx - ax) * (px - ax) + (cy - ay) * (py - ay) + (cz - az) * (pz - az))
    (e3 : ab_bp = (bx - ax) * (px - bx) + (by' - ay) * (py - by') + (bz - az) * (pz - bz))
    (e4 : ac_bp = (cx - ax) * (px - bx) + (cy - ay) * (py - by') + (cz - az) * (pz - bz))
    (e5 : ab_cp = (bx - ax) * (px - cx) + (by' - ay) * (py - cy) + (bz - az) * (pz - cz))
    (e6 : ac_cp = (cx - ax) * (px - cx) + (cy - ay) * (py - cy) + (cz - az) * (pz - cz))
    (e7 : vc = ((by' - ay) * (cz - az) - (bz - az) * (cy - ay)) * ((by' - ay) * (pz - az) - (bz - az) * (py - ay)) + ((bz - az) * (cx - ax) - (bx - ax) * (cz - az)) * ((bz - az) * (px - ax) - (bx - ax) * (pz - az)) + ((bx - ax) * (cy - ay) - (by' - ay) * (cx - ax)) * ((bx - ax) * (py - ay) - (by' - ay) * (px - ax)))
    (e8 : vb = -(((by' - ay) * (cz - az) - (bz - az) * (cy - ay)) * ((cy - ay) * (pz - cz) - (cz - az) * (py - cy)) + ((bz - az) * (cx - ax) - (bx - ax) * (cz - az)) * ((cz - az) * (px - cx) - (cx - ax) * (pz - cz)) + ((bx - ax) * (cy - ay) - (by' - ay) * (cx - ax)) * ((cx - ax) * (py - cy) - (cy - ay) * (px - cx))))
    (e9 : va = ((by' - ay) * (cz - az) - (bz - az) * (cy - ay)) * ((cy - by') * (pz - bz) - (cz - bz) * (py - by')) + ((bz - az) * (cx - ax) - (bx - ax) * (cz - az)) * ((cz - bz) * (px - bx) - (cx - bx) * (pz - bz)) + ((bx - ax) * (cy - ay) - (by' - ay) * (cx - ax)) * ((cx - bx) * (py - by') - (cy - by') * (px - bx)))
    (e10 : bc_bp = (cx - bx) * (px - bx) + (cy - by') * (py - by') + (cz - bz) * (pz - bz)) :
    letI := fieldNum K sq
    ∀ r : PP3 K × TriLoc K,
      r = tri3Flat ⟨ax, ay, az⟩ ⟨bx, by', bz⟩ ⟨cx, cy, cz⟩ ⟨px, py, pz⟩ ⟨bx - ax, by' - ay, bz - az⟩ ⟨cx - ax, cy - ay, cz - az⟩
            ⟨cx - bx, cy - by', cz - bz⟩ ab_ap ac_ap ab_bp ac_bp ab_cp ac_cp vc vb va apn bpn bc_bp nap solid →
      (⟨⟨ax, ay, az⟩, ⟨bx, by', bz⟩, ⟨cx, cy, cz⟩⟩ : Triangle3 K).Mem r.1.pt ∧
      (∀ qx qy qz : K, (⟨⟨ax, ay, az⟩, ⟨bx, by', bz⟩, ⟨cx, cy, cz⟩⟩ : Triangle3 K).Mem ⟨qx, qy, qz⟩ →
        (px - r.1.pt.x) * (qx - r.1.pt.x) + (py - r.1.pt.y) * (qy - r.1.pt.y) + (pz - r.1.pt.z) * (qz - r.1.pt.z) ≤ 0) ∧
      r.1.inside = V3.relEq r.1.pt ⟨px, py, pz⟩ := by
  letI := fieldNum K sq
  obtain ⟨hA, hC, hBC, hD⟩ := tri3_gram ax ay az bx by' bz cx cy cz hn
  obtain ⟨r3, r4, r5, r6, g1, g2, g3, r10, rbc⟩ := tri3_relations ax ay az bx by' bz cx cy cz px py pz
    ab_ap ac_ap ab_bp ac_bp ab_cp ac_cp vc vb va bc_bp e1 e2 e3 e4 e5 e6 e7 e8 e9 e10
  intro r hr
  unfold tri3Flat at hr
  by_cases t1 : ab_ap ≤ 0 ∧ ac_ap ≤ 0
  · -- vertex a
    rw [if_pos t1] at hr; subst hr
    simp only [V3.add, V3.smul, V3.normSq, V3.dot, tri3_mem_iff]
    refine ⟨⟨0, 0, le_refl _, le_refl _, by norm_num, by ring, by ring, by ring⟩, ?_, trivial⟩
    rintro qx qy qz ⟨u, v, hu, hv, _, rfl, rfl, rfl⟩
    rw [e1, e2] at t1
    linarith [mul_nonneg hu (neg_nonneg.2 t1.1), mul_nonneg hv (neg_nonneg.2 t1.2)]
  rw [if_neg t1] at hr
  by_cases t2 : 0 ≤ ab_bp ∧ ac_bp ≤ ab_bp
  · -- vertex b
    rw [if_pos t2] at hr; subst hr
    simp only [V3.add, V3.smul, V3.normSq, V3.dot, tri3_mem_iff]
    refine ⟨⟨1, 0, by norm_num, le_refl _, by norm_num, by ring, by ring, by ring⟩, ?_, trivial⟩
    rintro qx qy qz ⟨u, v, hu, hv, huv, rfl, rfl, rfl⟩
    rw [e3, e4] at t2
    linarith [mul_nonneg (sub_nonneg.2 huv) t2.1, mul_nonneg hv (sub_nonneg.2 t2.2)]
  rw [if_neg t2] at hr
  by_cases t3 : 0 ≤ ac_cp ∧ ab_cp ≤ ac_cp
  · -- vertex c
    rw [if_pos t3] at hr; subst hr
    simp only [V3.add, V3.smul, V3.normSq, V3.dot, tri3_mem_iff]
    refine ⟨⟨0, 1, le_refl _, by norm_num, by norm_num, by ring, by ring, by ring⟩, ?_, trivial⟩
    rintro qx qy qz ⟨u, v, hu, hv, huv, rfl, rfl, rfl⟩
    rw [e5, e6] at t3
    linarith [mul_nonneg (sub_nonneg.2 huv) t3.1, mul_nonneg hu (sub_nonneg.2 t3.2)]
  rw [if_neg t3] at hr
  by_cases t4 : vc < 0 ∧ 0 ≤ ab_ap ∧ ab_bp ≤ 0
  · -- edge ab
    rw [if_pos t4] at hr; subst hr
    simp only [V3.add, V3.smul, V3.normSq, V3.dot, tri3_mem_iff]
    obtain ⟨tv, tp, tb⟩ := t4
    have hk := div_mul_cancel₀ ab_ap (ne_of_gt hA)
    have hk0 : 0 ≤ ab_ap / ((bx - ax) * (bx - ax) + (by' - ay) * (by' - ay) + (bz - az) * (bz - az)) := div_nonneg tp hA.le
    have hk1 : ab_ap / ((bx - ax) * (bx - ax) + (by' - ay) * (by' - ay) + (bz - az) * (bz - az)) ≤ 1 := by rw [div_le_one hA]; linarith
    generalize ab_ap / ((bx - ax) * (bx - ax) + (by' - ay) * (by' - ay) + (bz - az) * (bz - az)) = k at *
    refine ⟨⟨k, 0, hk0, le_refl _, by linarith, by ring, by ring, by ring⟩, ?_, trivial⟩
    rintro qx qy qz ⟨u, v, hu, hv, huv, rfl, rfl, rfl⟩
    have hneg : ac_ap - k * ((bx - ax) * (cx - ax) + (by' - ay) * (cy - ay) + (bz - az) * (cz - az)) < 0 := by
      have hX : (ac_ap - k * ((bx - ax) * (cx - ax) + (by' - ay) * (cy - ay) + (bz - az) * (cz - az))) * ((bx - ax) * (bx - ax) + (by' - ay) * (by' - ay) + (bz - az) * (bz - az)) = vc := by rw [g1]; linear_combination (-((bx - ax) * (cx - ax) + (by' - ay) * (cy - ay) + (bz - az) * (cz - az))) * hk
      by_contra h; push Not at h
      have := mul_nonneg h hA.le
      linarith
    have e : (px - (ax + (bx - ax) * k)) * (ax + (bx - ax) * u + (cx - ax) * v - (ax + (bx - ax) * k))
        + (py - (ay + (by' - ay) * k)) * (ay + (by' - ay) * u + (cy - ay) * v - (ay + (by' - ay) * k))
        + (pz - (az + (bz - az) * k)) * (az + (bz - az) * u + (cz - az) * v - (az + (bz - az) * k))
        = v * (ac_ap - k * ((bx - ax) * (cx - ax) + (by' - ay) * (cy - ay) + (bz - az) * (cz - az))) + (u - k) * (ab_ap - k * ((bx - ax) * (bx - ax) + (by' - ay) * (by' - ay) + (bz - az) * (bz - az))) := by rw [e1, e2]; ring
    rw [e]
    have : (u - k) * (ab_ap - k * ((bx - ax) * (bx - ax) + (by' - ay) * (by' - ay) + (bz - az) * (bz - az))) = 0 := by rw [← hk]; ring
    rw [this, add_zero]
    exact mul_nonpos_of_nonneg_of_nonpos hv hneg.le
  rw [if_neg t4] at hr
  by_cases t5 : vb < 0 ∧ 0 ≤ ac_ap ∧ ac_cp ≤ 0
  · -- edge ac
    rw [if_pos t5] at hr; subst hr
    simp only [V3.add, V3.smul, V3.normSq, V3.dot, tri3_mem_iff]
    obtain ⟨tv, tp, tb⟩ := t5
    have hk := div_mul_cancel₀ ac_ap (ne_of_gt hC)
    have hk0 : 0 ≤ ac_ap / ((cx - ax) * (cx - ax) + (cy - ay) * (cy - ay) + (cz - az) * (cz - az)) := div_nonneg tp hC.le
    have hk1 : ac_ap / ((cx - ax) * (cx - ax) + (cy - ay) * (cy - ay) + (cz - az) * (cz - az)) ≤ 1 := by rw [div_le_one hC]; linarith
    generalize ac_ap / ((cx - ax) * (cx - ax) + (cy - ay) * (cy - ay) + (cz - az) * (cz - az)) = k at *
    refine ⟨⟨0, k, le_refl _, hk0, by linarith, by ring, by ring, by ring⟩, ?_, trivial⟩
    rintro qx qy qz ⟨u, v, hu, hv, huv, rfl, rfl, rfl⟩
    have hneg : ab_ap - k * ((bx - ax) * (cx - ax) + (by' - ay) * (cy - ay) + (bz - az) * (cz - az)) < 0 := by
      have hX : (ab_ap - k * ((bx - ax) * (cx - ax) + (by' - ay) * (cy - ay) + (bz - az) * (cz - az))) * ((cx - ax) * (cx - ax) + (cy - ay) * (cy - ay) + (cz - az) * (cz - az)) = vb := by rw [g2]; linear_combination (-((bx - ax) * (cx - ax) + (by' - ay) * (cy - ay) + (bz - az) * (cz - az))) * hk
      by_contra h; push Not at h
      have := mul_nonneg h hC.le
      linarith
    have e : (px - (ax + (cx - ax) * k)) * (ax + (bx - ax) * u + (cx - ax) * v - (ax + (cx - ax) * k))
        + (py - (ay + (cy - ay) * k)) * (ay + (by' - ay) * u + (cy - ay) * v - (ay + (cy - ay) * k))
        + (pz - (az + (cz - az) * k)) * (az + (bz - az) * u + (cz - az) * v - (az + (cz - az) * k))
        = u * (ab_ap - k * ((bx - ax) * (cx - ax) + (by' - ay) * (cy - ay) + (bz - az) * (cz - az))) + (v - k) * (ac_ap - k * ((cx - ax) * (cx - ax) + (cy - ay) * (cy - ay) + (cz - az) * (cz - az))) := by rw [e1, e2]; ring
    rw [e]
    have : (v - k) * (ac_ap - k * ((cx - ax) * (cx - ax) + (cy - ay) * (cy - ay) + (cz - az) * (cz - az))) = 0 := by rw [← hk]; ring
    rw [this, add_zero]
    exact mul_nonpos_of_nonneg_of_nonpos hu hneg.le
  rw [if_neg t5] at hr
  by_cases t6 : va < 0 ∧ 0 ≤ ac_bp - ab_bp ∧ 0 ≤ ab_cp - ac_cp
  · -- edge bc
    rw [if_pos t6] at hr; subst hr
    simp only [V3.add, V3.smul, V3.normSq, V3.dot, tri3_mem_iff]
    obtain ⟨tv, tp, tb⟩ := t6
    have hk := div_mul_cancel₀ bc_bp (ne_of_gt hBC)
    have hk0 : 0 ≤ bc_bp / ((cx - bx) * (cx - bx) + (cy - by') * (cy - by') + (cz - bz) * (cz - bz)) := div_nonneg (by linarith) hBC.le
    have hk1 : bc_bp / ((cx - bx) * (cx - bx) + (cy - by') * (cy - by') + (cz - bz) * (cz - bz)) ≤ 1 := by rw [div_le_one hBC, rbc]; linarith
    generalize bc_bp / ((cx - bx) * (cx - bx) + (cy - by') * (cy - by') + (cz - bz) * (cz - bz)) = k at *
    refine ⟨⟨1 - k, k, by linarith, hk0, by linarith, by ring, by ring, by ring⟩, ?_, trivial⟩
    rintro qx qy qz ⟨u, v, hu, hv, huv, rfl, rfl, rfl⟩
    -- in the frame of `b`: `ba·bp - k (ba·bc)` has the sign of `va`
    have hneg : -ab_bp - k * (((bx - ax) * (bx - ax) + (by' - ay) * (by' - ay) + (bz - az) * (bz - az)) - ((bx - ax) * (cx - ax) + (by' - ay) * (cy - ay) + (bz - az) * (cz - az))) < 0 := by
      have hX := tri3_edge_bc_sign _ _ _ _ _ _ _ _ _ _ _ _ _ r3 r4 g1 g2 g3 r10 rbc hk
      by_contra h; push Not at h
      have := mul_nonneg h hBC.le
      linarith
    have e : (px - (bx + (cx - bx) * k)) * (ax + (bx - ax) * u + (cx - ax) * v - (bx + (cx - bx) * k))
        + (py - (by' + (cy - by') * k)) * (ay + (by' - ay) * u + (cy - ay) * v - (by' + (cy - by') * k))
        + (pz - (bz + (cz - bz) * k)) * (az + (bz - az) * u + (cz - az) * v - (bz + (cz - bz) * k))
        = (1 - u - v) * (-ab_bp - k * (((bx - ax) * (bx - ax) + (by' - ay) * (by' - ay) + (bz - az) * (bz - az)) - ((bx - ax) * (cx - ax) + (by' - ay) * (cy - ay) + (bz - az) * (cz - az)))) + (v - k) * (bc_bp - k * ((cx - bx) * (cx - bx) + (cy - by') * (cy - by') + (cz - bz) * (cz - bz))) := by rw [e3, e10]; ring
    rw [e]
    have : (v - k) * (bc_bp - k * ((cx - bx) * (cx - bx) + (cy - by') * (cy - by') + (cz - bz) * (cz - bz))) = 0 := by rw [← hk]; ring
    rw [this, add_zero]
    exact mul_nonpos_of_nonneg_of_nonpos (by linarith) hneg.le
  rw [if_neg t6] at hr
  by_cases t7 : (!(neq (va + vb + vc) 0)) = true
  · -- face
    rw [if_pos t7] at hr; subst hr
    simp only [V3.add, V3.smul, V3.normSq, V3.dot, tri3_mem_iff]
    have hsum : va + vb + vc = ((bx - ax) * (bx - ax) + (by' - ay) * (by' - ay) + (bz - az) * (bz - az)) * ((cx - ax) * (cx - ax) + (cy - ay) * (cy - ay) + (cz - az) * (cz - az)) - ((bx - ax) * (cx - ax) + (by' - ay) * (cy - ay) + (bz - az) * (cz - az)) * ((bx - ax) * (cx - ax) + (by' - ay) * (cy - ay) + (bz - az) * (cz - az)) := g3
    have hDne : va + vb + vc ≠ 0 := by rw [hsum]; exact ne_of_gt hD
    have hs : vb * (1 / (va + vb + vc)) * (((bx - ax) * (bx - ax) + (by' - ay) * (by' - ay) + (bz - az) * (bz - az)) * ((cx - ax) * (cx - ax) + (cy - ay) * (cy - ay) + (cz - az) * (cz - az)) - ((bx - ax) * (cx - ax) + (by' - ay) * (cy - ay) + (bz - az) * (cz - az)) * ((bx - ax) * (cx - ax) + (by' - ay) * (cy - ay) + (bz - az) * (cz - az))) = vb := by rw [← hsum]; field_simp
    have ht : vc * (1 / (va + vb + vc)) * (((bx - ax) * (bx - ax) + (by' - ay) * (by' - ay) + (bz - az) * (bz - az)) * ((cx - ax) * (cx - ax) + (cy - ay) * (cy - ay) + (cz - az) * (cz - az)) - ((bx - ax) * (cx - ax) + (by' - ay) * (cy - ay) + (bz - az) * (cz - az)) * ((bx - ax) * (cx - ax) + (by' - ay) * (cy - ay) + (bz - az) * (cz - az))) = vc := by rw [← hsum]; field_simp
    generalize vb * (1 / (va + vb + vc)) = s at *
    generalize vc * (1 / (va + vb + vc)) = t at *
    obtain ⟨h0s, h0t, hst, hP1, hP2⟩ := tri_face_gram ((bx - ax) * (bx - ax) + (by' - ay) * (by' - ay) + (bz - az) * (bz - az)) ((bx - ax) * (cx - ax) + (by' - ay) * (cy - ay) + (bz - az) * (cz - az)) ((cx - ax) * (cx - ax) + (cy - ay) * (cy - ay) + (cz - az) * (cz - az)) ab_ap ac_ap vc vb va s t hA hC hD g1 g2 g3 hs ht
      t1 (by rw [r3, r4] at t2; exact t2) (by rw [r5, r6] at t3; exact t3) (by rw [r3] at t4; exact t4) (by rw [r6] at t5; exact t5)
      (by rw [r3, r4, r5, r6] at t6; exact t6)
    refine ⟨⟨s, t, h0s, h0t, hst, by ring, by ring, by ring⟩, ?_, trivial⟩
    rintro qx qy qz ⟨u, v, hu, hv, huv, rfl, rfl, rfl⟩
    have e : (px - (ax + (bx - ax) * s + (cx - ax) * t)) * (ax + (bx - ax) * u + (cx - ax) * v - (ax + (bx - ax) * s + (cx - ax) * t))
        + (py - (ay + (by' - ay) * s + (cy - ay) * t)) * (ay + (by' - ay) * u + (cy - ay) * v - (ay + (by' - ay) * s + (cy - ay) * t))
        + (pz - (az + (bz - az) * s + (cz - az) * t)) * (az + (bz - az) * u + (cz - az) * v - (az + (bz - az) * s + (cz - az) * t))
        = (u - s) * (ab_ap - (s * ((bx - ax) * (bx - ax) + (by' - ay) * (by' - ay) + (bz - az) * (bz - az)) + t * ((bx - ax) * (cx - ax) + (by' - ay) * (cy - ay) + (bz - az) * (cz - az)))) + (v - t) * (ac_ap - (s * ((bx - ax) * (cx - ax) + (by' - ay) * (cy - ay) + (bz - az) * (cz - az)) + t * ((cx - ax) * (cx - ax) + (cy - ay) * (cy - ay) + (cz - az) * (cz - az)))) := by rw [e1, e2]; ring
    rw [e, ← hP1, ← hP2]; simp
  · -- `va + vb + vc = |n|² ≠ 0`: the degenerate tail is unreachable
    exfalso
    simp only [Bool.not_eq_true', Bool.not_eq_false, neq_iff] at t7
    rw [g3] at t7
    exact hn t7

/-- the 3-D location tag reproduces the projection (all branches) -/
theorem tri3_flat_location (a b c pt : V3 K) (ab_ap ac_ap ab_bp ac_bp ab_cp ac_cp vc vb va apn bpn bc_bp nap : K) (solid : Bool) :
    letI := fieldNum K sq
    ∀ r : PP3 K × TriLoc K,
      r = tri3Flat a b c pt (b.sub a) (c.sub a) (c.sub b) ab_ap ac_ap ab_bp ac_bp ab_cp ac_cp vc vb va apn bpn bc_bp nap solid →
      match r.2 with
      | .vertex i => (i = 0 ∧ r.1.pt = a) ∨ (i = 1 ∧ r.1.pt = b) ∨ (i = 2 ∧ r.1.pt = c)
      | .edge i b0 b1 => b0 + b1 = 1 ∧ ((i = 0 ∧ r.1.pt = (a.smul b0).add (b.smul b1)) ∨ (i = 1 ∧ r.1.pt = (b.smul b0).add (c.smul b1))
          ∨ (i = 2 ∧ r.1.pt = (a.smul b0).add (c.smul b1)))
      | .face sd b0 b1 b2 => sd < 2 ∧ b0 + b1 + b2 = 1 ∧ r.1.pt = ((a.smul b0).add (b.smul b1)).add (c.smul b2)
      | .solid => r.1.pt = pt ∧ solid = true := by
  letI := fieldNum K sq
  intro r hr
  unfold tri3Flat at hr
  by_cases t1 : ab_ap ≤ 0 ∧ ac_ap ≤ 0
  · rw [if_pos t1] at hr; subst hr; exact Or.inl ⟨rfl, rfl⟩
  rw [if_neg t1] at hr
  by_cases t2 : 0 ≤ ab_bp ∧ ac_bp ≤ ab_bp
  · rw [if_pos t2] at hr; subst hr; exact Or.inr (Or.inl ⟨rfl, rfl⟩)
  rw [if_neg t2] at hr
  by_cases t3 : 0 ≤ ac_cp ∧ ab_cp ≤ ac_cp
  · rw [if_pos t3] at hr; subst hr; exact Or.inr (Or.inr ⟨rfl, rfl⟩)
  rw [if_neg t3] at hr
  by_cases t4 : vc < 0 ∧ 0 ≤ ab_ap ∧ ab_bp ≤ 0
  · rw [if_pos t4] at hr; subst hr
    refine ⟨by ring, Or.inl ⟨rfl, ?_⟩⟩
    apply v3_ext <;> simp only [V3.add, V3.smul, V3.sub] <;> ring
  rw [if_neg t4] at hr
  by_cases t5 : vb < 0 ∧ 0 ≤ ac_ap ∧ ac_cp ≤ 0
  · rw [if_pos t5] at hr; subst hr
    refine ⟨by ring, Or.inr (Or.inr ⟨rfl, ?_⟩)⟩
    apply v3_ext <;> simp only [V3.add, V3.smul, V3.sub] <;> ring
  rw [if_neg t5] at hr
  by_cases t6 : va < 0 ∧ 0 ≤ ac_bp - ab_bp ∧ 0 ≤ ab_cp - ac_cp
  · rw [if_pos t6] at hr; subst hr
    refine ⟨by ring, Or.inr (Or.inl ⟨rfl, ?_⟩)⟩
    apply v3_ext <;> simp only [V3.add, V3.smul, V3.sub] <;> ring
  rw [if_neg t6] at hr
  by_cases t7 : (!(neq (va + vb + vc) 0)) = true
  · rw [if_pos t7] at hr; subst hr
    refine ⟨by split_ifs <;> norm_num, by ring, ?_⟩
    apply v3_ext <;> simp only [V3.add, V3.smul, V3.sub] <;> ring
  rw [if_neg t7] at hr
  by_cases t8 : solid = true
  · rw [if_pos t8] at hr; subst hr; exact ⟨rfl, t8⟩
  rw [if_neg t8] at hr
  subst hr
  dsimp only
  split_ifs
  · refine ⟨by ring, Or.inl ⟨rfl, ?_⟩⟩
    apply v3_ext <;> simp only [V3.add, V3.smul, V3.sub] <;> ring
  · refine ⟨by ring, Or.inr (Or.inl ⟨rfl, ?_⟩)⟩
    apply v3_ext <;> simp only [V3.add, V3.smul, V3.sub] <;> ring
  · refine ⟨by ring, Or.inr (Or.inr ⟨rfl, ?_⟩)⟩
    apply v3_ext <;> simp only [V3.add, V3.smul, V3.sub] <;> ring
  · refine ⟨by ring, Or.inr (Or.inl ⟨rfl, ?_⟩)⟩
    apply v3_ext <;> simp only [V3.add, V3.smul, V3.sub] <;> ring

end C05
