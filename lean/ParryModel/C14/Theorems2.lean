import ParryModel.C14.Lemmas
/-!
# C14 property theorems, part 2: the 2-D capsule/capsule manifold generator
(`contact_manifold_capsule_capsule`, `dim2`; also the narrow phase of every 2-D HeightField cell).

Statements are about `capsuleCapsule2` of `C14/Model.lean` at the lawful instance `fieldNum K sq`, for EVERY
closest-point tie-breaking predicate `ulps` (`approx::ulps_eq!` in the code).
-/
namespace C14
open Model

variable {K : Type} [Field K] [LinearOrder K] [IsStrictOrderedRing K] (sq : K → K)

/-! ## 2-D rotation algebra -/

private theorem rot_invRot2 (m : Iso2 K) (v : V2 K) (h : UnitC m) :
    letI := fieldNum K sq
    m.rot (m.invRot v) = v := by
  unfold UnitC at h
  apply V2.ext' <;> simp only [Iso2.rot, Iso2.invRot]
  · linear_combination v.x * h
  · linear_combination v.y * h

private theorem invRot_rot2 (m : Iso2 K) (v : V2 K) (h : UnitC m) :
    letI := fieldNum K sq
    m.invRot (m.rot v) = v := by
  unfold UnitC at h
  apply V2.ext' <;> simp only [Iso2.rot, Iso2.invRot]
  · linear_combination v.x * h
  · linear_combination v.y * h

private theorem invRot_dot2 (m : Iso2 K) (u v : V2 K) (h : UnitC m) :
    letI := fieldNum K sq
    (m.invRot u).dot (m.invRot v) = u.dot v := by
  unfold UnitC at h
  simp only [Iso2.invRot, V2.dot]
  linear_combination (u.x * v.x + u.y * v.y) * h

private theorem act_invAct2 (m : Iso2 K) (p : V2 K) (h : UnitC m) :
    letI := fieldNum K sq
    m.act (m.invAct p) = p := by
  have := rot_invRot2 sq m (@V2.sub K (fieldNum K sq) p m.t) h
  simp only [Iso2.act, Iso2.invAct]
  rw [this]
  apply V2.ext' <;> simp only [V2.add, V2.sub] <;> ring

private theorem invAct_act2 (m : Iso2 K) (p : V2 K) (h : UnitC m) :
    letI := fieldNum K sq
    m.invAct (m.act p) = p := by
  have := invRot_rot2 sq m p h
  simp only [Iso2.act, Iso2.invAct]
  have e : @V2.sub K (fieldNum K sq) (@V2.add K (fieldNum K sq) (@Iso2.rot K (fieldNum K sq) m p) m.t) m.t
      = @Iso2.rot K (fieldNum K sq) m p := by
    apply V2.ext' <;> simp only [V2.add, V2.sub] <;> ring
  rw [e, this]

/-- an isometry maps `a + (b − a) u` to `act a + (act b − act a) u` -/
private theorem act_lerp2 (m : Iso2 K) (a b : V2 K) (u : K) :
    letI := fieldNum K sq
    m.act (a.add ((b.sub a).smul u)) = (m.act a).add (((m.act b).sub (m.act a)).smul u) := by
  apply V2.ext' <;> simp only [Iso2.act, Iso2.rot, V2.add, V2.sub, V2.smul] <;> ring

/-! ## segments -/

private theorem seg_mem_a (a b : V2 K) : letI := fieldNum K sq; (Segment2.mk a b).Mem a := by
  refine ⟨0, le_rfl, zero_le_one, ?_⟩
  apply V2.ext' <;> simp only [V2.add, V2.sub, V2.smul] <;> ring

private theorem seg_mem_b (a b : V2 K) : letI := fieldNum K sq; (Segment2.mk a b).Mem b := by
  refine ⟨1, zero_le_one, le_rfl, ?_⟩
  apply V2.ext' <;> simp only [V2.add, V2.sub, V2.smul] <;> ring

private theorem seg_mem_lerp (a b : V2 K) (u : K) (h0 : 0 ≤ u) (h1 : u ≤ 1) :
    letI := fieldNum K sq; (Segment2.mk a b).Mem (a.add ((b.sub a).smul u)) := ⟨u, h0, h1, rfl⟩

private theorem seg_mem_swap (a b p : V2 K) (h : letI := fieldNum K sq; (Segment2.mk b a).Mem p) :
    letI := fieldNum K sq; (Segment2.mk a b).Mem p := by
  obtain ⟨t, h0, h1, rfl⟩ := h
  refine ⟨1 - t, by linarith, by linarith, ?_⟩
  apply V2.ext' <;> simp only [V2.add, V2.sub, V2.smul] <;> ring

/-- the image of a segment point under an isometry with unit rotation pulls back into the segment -/
private theorem seg_mem_invAct (m : Iso2 K) (hq : UnitC m) (a b y : V2 K)
    (h : letI := fieldNum K sq; (Segment2.mk (m.act a) (m.act b)).Mem y) :
    letI := fieldNum K sq; (Segment2.mk a b).Mem (m.invAct y) := by
  obtain ⟨t, h0, h1, rfl⟩ := h
  refine ⟨t, h0, h1, ?_⟩
  rw [← act_lerp2, invAct_act2 sq m _ hq]

/-! ## `Unit::try_new` -/

private theorem normSq_nonneg2 (v : V2 K) : letI := fieldNum K sq; 0 ≤ v.normSq := by
  simp only [V2.normSq, V2.dot]; nlinarith [mul_self_nonneg v.x, mul_self_nonneg v.y]

/-- `Unit::try_new(v, e) = Some(n)`: `n` is a unit vector and `v = n (v·n)`. -/
private theorem tryNew2_some (hs : LawfulSqrt sq) (v n : V2 K) (e : K)
    (h : letI := fieldNum K sq; tryNew2 v e = some n) :
    letI := fieldNum K sq
    n.dot n = 1 ∧ v = n.smul (v.dot n) := by
  simp only [tryNew2] at h
  split_ifs at h with hpos
  simp only [Option.some.injEq] at h
  have hn := hs.sq_mul _ (normSq_nonneg2 sq v)
  have hnn := hs.nonneg _ (normSq_nonneg2 sq v)
  have hpos' : 0 < @V2.normSq K (fieldNum K sq) v := lt_of_le_of_lt (mul_self_nonneg e) hpos
  simp only [fieldNum_sqrt] at h
  set c := sq (@V2.normSq K (fieldNum K sq) v) with hc
  have hc0 : c ≠ 0 := by
    intro hz; rw [hz] at hn; simp at hn; rw [← hn] at hpos'; exact lt_irrefl _ hpos'
  subst h
  simp only [V2.normSq, V2.dot] at hn
  refine ⟨?_, ?_⟩
  · simp only [V2.dot, V2.sdiv]; field_simp; linear_combination (-1 : K) * hn
  · apply V2.ext' <;> simp only [V2.dot, V2.sdiv, V2.smul] <;> field_simp
    · linear_combination (v.x) * hn
    · linear_combination (v.y) * hn
/-! ## `clip_segment_segment_with_normal` -/

/-- the barycentric coordinate `(x − lo) · inv(hi − lo)` of a value `lo ≤ x ≤ hi` lies in `[0, 1]` and
interpolates back to `x` (also when `hi = lo`, where `utils::inv` returns 0) -/
private theorem clip_param (lo hi x : K) (h1 : lo ≤ x) (h2 : x ≤ hi) :
    letI := fieldNum K sq
    0 ≤ (x - lo) * inv0 (hi - lo) ∧ (x - lo) * inv0 (hi - lo) ≤ 1 ∧
      lo + (hi - lo) * ((x - lo) * inv0 (hi - lo)) = x := by
  by_cases hd : hi - lo = 0
  · have hx : x = lo := by linarith
    have hh : hi = lo := by linarith
    simp [inv0, neq, hx, hh]
  · have hpos : 0 < hi - lo := lt_of_le_of_ne (by linarith) (Ne.symm hd)
    have hnle : ¬ (hi - lo ≤ 0) := not_le.mpr hpos
    simp only [inv0, neq, hnle, decide_false, Bool.false_and, Bool.false_eq_true, if_false]
    refine ⟨mul_nonneg (by linarith) (by positivity), ?_, ?_⟩
    · rw [mul_one_div, div_le_one hpos]; linarith
    · field_simp; ring

/-- what a clipping point pair must satisfy: a point of each segment, with equal tangent coordinates -/
def ClipGood (t a1 b1 a2 b2 : V2 K) (c : ClipPt K) : Prop :=
  letI := fieldNum K sq
  (Segment2.mk a1 b1).Mem c.p1 ∧ (Segment2.mk a2 b2).Mem c.p2 ∧ c.p1.dot t = c.p2.dot t

private theorem clipLo_spec (t s10 s11 s20 s21 : V2 K) (r10 r11 r20 r21 : K)
    (e10 : letI := fieldNum K sq; s10.dot t = r10) (e11 : letI := fieldNum K sq; s11.dot t = r11)
    (e20 : letI := fieldNum K sq; s20.dot t = r20) (e21 : letI := fieldNum K sq; s21.dot t = r21)
    (_o1 : r10 ≤ r11) (_o2 : r20 ≤ r21) (v1 : ¬ r11 < r20) (v2 : ¬ r21 < r10) :
    letI := fieldNum K sq
    ClipGood sq t s10 s11 s20 s21 (clipLo r10 r11 r20 r21 s10 s11 s20 s21) := by
  simp only [ClipGood, clipLo]
  split_ifs with h
  · obtain ⟨b0, b1, b2⟩ := clip_param sq r10 r11 r20 (le_of_lt h) (not_lt.mp v1)
    refine ⟨seg_mem_lerp sq _ _ _ b0 b1, seg_mem_a sq _ _, ?_⟩
    set bc := (r20 - r10) * @inv0 K (fieldNum K sq) (r11 - r10) with hbc
    simp only [V2.dot, V2.add, V2.sub, V2.smul] at e10 e11 e20 e21 ⊢
    linear_combination e10 + bc * (e11 - e10) + b2 - e20
  · obtain ⟨b0, b1, b2⟩ := clip_param sq r20 r21 r10 (not_lt.mp h) (not_lt.mp v2)
    refine ⟨seg_mem_a sq _ _, seg_mem_lerp sq _ _ _ b0 b1, ?_⟩
    set bc := (r10 - r20) * @inv0 K (fieldNum K sq) (r21 - r20) with hbc
    simp only [V2.dot, V2.add, V2.sub, V2.smul] at e10 e11 e20 e21 ⊢
    linear_combination e10 - (e20 + bc * (e21 - e20) + b2)

private theorem clipHi_spec (t s10 s11 s20 s21 : V2 K) (r10 r11 r20 r21 : K)
    (e10 : letI := fieldNum K sq; s10.dot t = r10) (e11 : letI := fieldNum K sq; s11.dot t = r11)
    (e20 : letI := fieldNum K sq; s20.dot t = r20) (e21 : letI := fieldNum K sq; s21.dot t = r21)
    (_o1 : r10 ≤ r11) (_o2 : r20 ≤ r21) (v1 : ¬ r11 < r20) (v2 : ¬ r21 < r10) :
    letI := fieldNum K sq
    ClipGood sq t s10 s11 s20 s21 (clipHi r10 r11 r20 r21 s10 s11 s20 s21) := by
  simp only [ClipGood, clipHi]
  split_ifs with h
  · obtain ⟨b0, b1, b2⟩ := clip_param sq r10 r11 r21 (not_lt.mp v2) (le_of_lt h)
    refine ⟨seg_mem_lerp sq _ _ _ b0 b1, seg_mem_b sq _ _, ?_⟩
    set bc := (r21 - r10) * @inv0 K (fieldNum K sq) (r11 - r10) with hbc
    simp only [V2.dot, V2.add, V2.sub, V2.smul] at e10 e11 e20 e21 ⊢
    linear_combination e10 + bc * (e11 - e10) + b2 - e21
  · obtain ⟨b0, b1, b2⟩ := clip_param sq r20 r21 r11 (not_lt.mp v1) (not_lt.mp h)
    refine ⟨seg_mem_b sq _ _, seg_mem_lerp sq _ _ _ b0 b1, ?_⟩
    set bc := (r11 - r20) * @inv0 K (fieldNum K sq) (r21 - r20) with hbc
    simp only [V2.dot, V2.add, V2.sub, V2.smul] at e10 e11 e20 e21 ⊢
    linear_combination e11 - (e20 + bc * (e21 - e20) + b2)

private theorem clipOrdered_spec (t s10 s11 s20 s21 : V2 K) (r10 r11 r20 r21 : K)
    (e10 : letI := fieldNum K sq; s10.dot t = r10) (e11 : letI := fieldNum K sq; s11.dot t = r11)
    (e20 : letI := fieldNum K sq; s20.dot t = r20) (e21 : letI := fieldNum K sq; s21.dot t = r21)
    (o1 : r10 ≤ r11) (o2 : r20 ≤ r21) (ca cb : ClipPt K)
    (h : letI := fieldNum K sq; clipOrdered r10 r11 r20 r21 s10 s11 s20 s21 = some (ca, cb)) :
    ClipGood sq t s10 s11 s20 s21 ca ∧ ClipGood sq t s10 s11 s20 s21 cb := by
  simp only [clipOrdered] at h
  split_ifs at h with hv
  push Not at hv
  simp only [Option.some.injEq, Prod.mk.injEq] at h
  obtain ⟨rfl, rfl⟩ := h
  exact ⟨clipLo_spec sq t _ _ _ _ _ _ _ _ e10 e11 e20 e21 o1 o2 (not_lt.mpr hv.1) (not_lt.mpr hv.2),
    clipHi_spec sq t _ _ _ _ _ _ _ _ e10 e11 e20 e21 o1 o2 (not_lt.mpr hv.1) (not_lt.mpr hv.2)⟩

private theorem clipGood_swap1 (t a1 b1 a2 b2 : V2 K) (c : ClipPt K) (h : ClipGood sq t b1 a1 a2 b2 c) :
    ClipGood sq t a1 b1 a2 b2 c := ⟨seg_mem_swap sq _ _ _ h.1, h.2.1, h.2.2⟩
private theorem clipGood_swap2 (t a1 b1 a2 b2 : V2 K) (c : ClipPt K) (h : ClipGood sq t a1 b1 b2 a2 c) :
    ClipGood sq t a1 b1 a2 b2 c := ⟨h.1, seg_mem_swap sq _ _ _ h.2.1, h.2.2⟩

/-- **`clip_segment_segment_with_normal`.**  Whenever it returns a pair of clipping points, each of the two is made
of a point of segment 1 and a point of segment 2 that have the same coordinate along the tangent `(−n.y, n.x)`,
i.e. the two points face each other along the normal `n`. -/
theorem clipSegSegWithNormal_spec (a1 b1 a2 b2 n : V2 K) (ca cb : ClipPt K)
    (h : letI := fieldNum K sq; clipSegSegWithNormal a1 b1 a2 b2 n = some (ca, cb)) :
    ClipGood sq ⟨-n.y, n.x⟩ a1 b1 a2 b2 ca ∧ ClipGood sq ⟨-n.y, n.x⟩ a1 b1 a2 b2 cb := by
  simp only [clipSegSegWithNormal] at h
  split_ifs at h with h1 h2 h2
  · obtain ⟨x, y⟩ := clipOrdered_spec sq ⟨-n.y, n.x⟩ b1 a1 b2 a2 _ _ _ _ rfl rfl rfl rfl (le_of_lt h1) (le_of_lt h2) ca cb h
    exact ⟨clipGood_swap1 sq _ _ _ _ _ _ (clipGood_swap2 sq _ _ _ _ _ _ x), clipGood_swap1 sq _ _ _ _ _ _ (clipGood_swap2 sq _ _ _ _ _ _ y)⟩
  · obtain ⟨x, y⟩ := clipOrdered_spec sq ⟨-n.y, n.x⟩ b1 a1 a2 b2 _ _ _ _ rfl rfl rfl rfl (le_of_lt h1) (not_lt.mp h2) ca cb h
    exact ⟨clipGood_swap1 sq _ _ _ _ _ _ x, clipGood_swap1 sq _ _ _ _ _ _ y⟩
  · obtain ⟨x, y⟩ := clipOrdered_spec sq ⟨-n.y, n.x⟩ a1 b1 b2 a2 _ _ _ _ rfl rfl rfl rfl (not_lt.mp h1) (le_of_lt h2) ca cb h
    exact ⟨clipGood_swap2 sq _ _ _ _ _ _ x, clipGood_swap2 sq _ _ _ _ _ _ y⟩
  · exact clipOrdered_spec sq ⟨-n.y, n.x⟩ a1 b1 a2 b2 _ _ _ _ rfl rfl rfl rfl (not_lt.mp h1) (not_lt.mp h2) ca cb h

/-! ## the closest points of the two axes -/

private theorem clamp01_range (x : K) : letI := fieldNum K sq; 0 ≤ clamp01 x ∧ clamp01 x ≤ 1 := by
  simp only [clamp01]
  split_ifs with h1 h2
  · exact ⟨le_of_lt h1, le_of_lt h2⟩
  · exact ⟨zero_le_one, le_rfl⟩
  · exact ⟨le_rfl, zero_le_one⟩

/-- both parameters returned by `closest_points_segment_segment_with_locations_nD` lie in `[0, 1]` -/
private theorem segSegParams2_range (ulps : K → K → Bool) (a1 b1 a2 b2 : V2 K) :
    letI := fieldNum K sq
    (0 ≤ (segSegParams2 ulps a1 b1 a2 b2).1 ∧ (segSegParams2 ulps a1 b1 a2 b2).1 ≤ 1) ∧
    (0 ≤ (segSegParams2 ulps a1 b1 a2 b2).2 ∧ (segSegParams2 ulps a1 b1 a2 b2).2 ≤ 1) := by
  have z : (0 : K) ≤ 0 ∧ (0 : K) ≤ 1 := ⟨le_rfl, zero_le_one⟩
  have o : (0 : K) ≤ 1 ∧ (1 : K) ≤ 1 := ⟨zero_le_one, le_rfl⟩
  simp only [segSegParams2]
  split_ifs
  · exact ⟨z, z⟩
  · exact ⟨z, clamp01_range sq _⟩
  · exact ⟨clamp01_range sq _, z⟩
  · exact ⟨clamp01_range sq _, z⟩
  · exact ⟨clamp01_range sq _, o⟩
  · exact ⟨clamp01_range sq _, not_lt.mp (by assumption), not_lt.mp (by assumption)⟩
  · exact ⟨clamp01_range sq _, z⟩
  · exact ⟨clamp01_range sq _, o⟩
  · exact ⟨z, not_lt.mp (by assumption), not_lt.mp (by assumption)⟩

/-- `seg.a * bcoords[0] + seg.b * bcoords[1]` for the location of a parameter in `[0, 1]` is a point of the segment -/
private theorem baryPoint2_mem (a b : V2 K) (s : K) (h0 : 0 ≤ s) (h1 : s ≤ 1) :
    letI := fieldNum K sq; (Segment2.mk a b).Mem (baryPoint2 a b (bcoords s)) := by
  simp only [baryPoint2, bcoords]
  split_ifs
  · refine ⟨0, le_rfl, zero_le_one, ?_⟩
    apply V2.ext' <;> simp only [V2.add, V2.sub, V2.smul] <;> ring
  · refine ⟨1, zero_le_one, le_rfl, ?_⟩
    apply V2.ext' <;> simp only [V2.add, V2.sub, V2.smul] <;> ring
  · refine ⟨s, h0, h1, ?_⟩
    apply V2.ext' <;> simp only [V2.add, V2.sub, V2.smul] <;> ring

/-- `capsuleAxisPoints2`: a point of each axis and a unit normal -/
private theorem capsuleAxisPoints2_spec (hs : LawfulSqrt sq) (ulps : K → K → Bool) (a1 b1 a2 b2 : V2 K) :
    letI := fieldNum K sq
    (Segment2.mk a1 b1).Mem (capsuleAxisPoints2 ulps a1 b1 a2 b2).1 ∧
    (Segment2.mk a2 b2).Mem (capsuleAxisPoints2 ulps a1 b1 a2 b2).2.1 ∧
    (capsuleAxisPoints2 ulps a1 b1 a2 b2).2.2.dot (capsuleAxisPoints2 ulps a1 b1 a2 b2).2.2 = 1 := by
  obtain ⟨⟨s0, s1⟩, ⟨t0, t1⟩⟩ := segSegParams2_range sq ulps a1 b1 a2 b2
  simp only [capsuleAxisPoints2]
  refine ⟨baryPoint2_mem sq _ _ _ s0 s1, baryPoint2_mem sq _ _ _ t0 t1, ?_⟩
  split
  · rename_i n hn
    exact (tryNew2_some sq hs _ _ _ hn).1
  · simp [V2.dot]

/-! ## the second contact and the final radius shift -/

/-- every raw second contact is a clipping pair: a point `x` of axis 1 and a point `y` of axis 2 (frame of capsule 1)
that face each other along the normal, stored as `(x, pos12⁻¹ y, (y − x)·n1)` — the distance of ITS OWN pair. -/
private theorem secondContact2_spec (pos12 : Iso2 K) (a1 b1 a2' b2' lp1 n1 : V2 K) :
    letI := fieldNum K sq
    ∀ c ∈ secondContact2 pos12 a1 b1 a2' b2' lp1 n1,
      ∃ x y, (Segment2.mk a1 b1).Mem x ∧ (Segment2.mk a2' b2').Mem y ∧
        c = ⟨x, pos12.invAct y, (y.sub x).dot n1⟩ ∧ (y.sub x).dot ⟨-n1.y, n1.x⟩ = 0 := by
  intro c hc
  simp only [secondContact2] at hc
  split at hc
  · split_ifs at hc with h1
    · split at hc
      · rename_i ca cb hclip
        obtain ⟨ga, gb⟩ := clipSegSegWithNormal_spec sq a1 b1 a2' b2' n1 ca cb hclip
        split_ifs at hc with h3
        · simp only [List.mem_singleton] at hc
          refine ⟨ca.p1, ca.p2, ga.1, ga.2.1, hc, ?_⟩
          have := ga.2.2
          simp only [V2.dot, V2.sub] at this ⊢
          linear_combination (-1 : K) * this
        · simp only [List.mem_singleton] at hc
          refine ⟨cb.p1, cb.p2, gb.1, gb.2.1, hc, ?_⟩
          have := gb.2.2
          simp only [V2.dot, V2.sub] at this ⊢
          linear_combination (-1 : K) * this
      · simp at hc
    · simp at hc
  · simp at hc

private theorem secondContact2_length (pos12 : Iso2 K) (a1 b1 a2' b2' lp1 n1 : V2 K) :
    letI := fieldNum K sq
    (secondContact2 pos12 a1 b1 a2' b2' lp1 n1).length ≤ 1 := by
  simp only [secondContact2]
  split
  · split_ifs
    · split
      · split_ifs <;> simp
      · simp
    · simp
  · simp

/-- The property's per-contact clause at pose `pos12` (2-D): `dist = (pos12·local_p2 − local_p1)·local_n1`, and the two
witnesses lie in the given sets (`S1` in the frame of shape 1, `S2` in the frame of shape 2). -/
def GoodContact2 (pos12 : Iso2 K) (n1 : V2 K) (S1 S2 : V2 K → Prop) (c : Contact2 K) : Prop :=
  letI := fieldNum K sq
  c.dist = ((pos12.act c.p2).sub c.p1).dot n1 ∧ S1 c.p1 ∧ S2 c.p2

/-- The property's per-manifold clause (2-D): unit normals, exactly opposite (`pos12·n2 = −n1`), every contact good. -/
def GoodManifold2 (pos12 : Iso2 K) (S1 S2 : V2 K → Prop) (m : Manifold2 K) : Prop :=
  letI := fieldNum K sq
  m.n1.dot m.n1 = 1 ∧ m.n2.dot m.n2 = 1 ∧ pos12.rot m.n2 = m.n1.neg ∧
    ∀ c ∈ m.points, GoodContact2 sq pos12 m.n1 S1 S2 c

/-- the final loop of the generator applied to a raw contact `(x, pos12⁻¹ y, (y − x)·n1)` with `x` on axis 1, `y` on the
transformed axis 2, unit normals with `pos12·n2 = −n1`: the finished contact satisfies the `dist` identity, its witnesses
lie in the two capsules, and if `x`, `y` face each other along the normal then so do the finished witnesses. -/
private theorem applyRadii2_good (pos12 : Iso2 K) (hq : UnitC pos12) (a1 b1 a2 b2 n1 n2 x y : V2 K) (r1 r2 : K)
    (hn : letI := fieldNum K sq; n1.dot n1 = 1) (hn2 : letI := fieldNum K sq; n2.dot n2 = 1)
    (hr : letI := fieldNum K sq; pos12.rot n2 = n1.neg)
    (hx : letI := fieldNum K sq; (Segment2.mk a1 b1).Mem x)
    (hy : letI := fieldNum K sq; (Segment2.mk (pos12.act a2) (pos12.act b2)).Mem y) :
    letI := fieldNum K sq
    GoodContact2 sq pos12 n1 (Capsule2.Mem ⟨a1, b1, r1⟩) (Capsule2.Mem ⟨a2, b2, r2⟩)
      (applyRadii2 n1 n2 r1 r2 ⟨x, pos12.invAct y, (y.sub x).dot n1⟩) ∧
    ((y.sub x).dot ⟨-n1.y, n1.x⟩ = 0 →
      pos12.act (applyRadii2 n1 n2 r1 r2 ⟨x, pos12.invAct y, (y.sub x).dot n1⟩).p2 =
        (applyRadii2 n1 n2 r1 r2 ⟨x, pos12.invAct y, (y.sub x).dot n1⟩).p1.add
          (n1.smul (applyRadii2 n1 n2 r1 r2 ⟨x, pos12.invAct y, (y.sub x).dot n1⟩).dist)) := by
  have h1 := act_invAct2 sq pos12 y hq
  have e1 : @Iso2.act K (fieldNum K sq) pos12
      (@V2.add K (fieldNum K sq) (@Iso2.invAct K (fieldNum K sq) pos12 y) (@V2.smul K (fieldNum K sq) n2 r2))
      = @V2.sub K (fieldNum K sq) y (@V2.smul K (fieldNum K sq) n1 r2) := by
    have h1x := congrArg V2.x h1
    have h1y := congrArg V2.y h1
    have h2x := congrArg V2.x hr
    have h2y := congrArg V2.y hr
    simp only [Iso2.act, Iso2.rot, V2.add, V2.neg] at h1x h1y h2x h2y
    apply V2.ext' <;> simp only [Iso2.act, Iso2.rot, V2.add, V2.sub, V2.smul]
    · linear_combination h1x + r2 * h2x
    · linear_combination h1y + r2 * h2y
  simp only [applyRadii2, GoodContact2]
  refine ⟨⟨?_, ⟨x, hx, ?_⟩, ⟨@Iso2.invAct K (fieldNum K sq) pos12 y, seg_mem_invAct sq pos12 hq a2 b2 y hy, ?_⟩⟩, ?_⟩
  · rw [e1]
    simp only [V2.dot, V2.add, V2.sub, V2.smul] at hn ⊢
    linear_combination (r1 + r2) * hn
  · simp only [V2.normSq, V2.dot, V2.add, V2.sub, V2.smul] at hn ⊢
    apply le_of_eq; linear_combination (r1 * r1) * hn
  · simp only [V2.normSq, V2.dot, V2.add, V2.sub, V2.smul] at hn2 ⊢
    apply le_of_eq; linear_combination (r2 * r2) * hn2
  · intro hal
    rw [e1]
    apply V2.ext' <;> simp only [V2.dot, V2.add, V2.sub, V2.smul] at hn hal ⊢
    · linear_combination (-(y.x - x.x)) * hn - n1.y * hal
    · linear_combination (-(y.y - x.y)) * hn + n1.x * hal

/-! ## the generator -/

/-- **C14 (b), 2-D capsule/capsule (and every 2-D HeightField cell).**  Let `(p1, p2', n1)` be the closest points of
the two axes and the contact normal computed by the generator (frame of capsule 1) and `d = (p2' − p1)·n1`.
* If `¬ d ≤ prediction + r1 + r2` the manifold is cleared (no contact).
* Otherwise the manifold is *good* at `pos12` — `|n1| = |n2| = 1`, `pos12·n2 = −n1` exactly, and EVERY contact
  (the first one and the second one of the nearly-parallel branch, whichever clip point `clip_a`/`clip_b` it is
  taken from, i.e. for both tilt signs) satisfies `dist = (pos12·local_p2 − local_p1)·local_n1` with `local_p1` in
  capsule 1 and `local_p2` in capsule 2 — the first contact has `dist = d − (r1 + r2)`, there is at most one more
  contact, and the witnesses of that second contact face each other along the normal:
  `pos12·local_p2 = local_p1 + n1·dist`.
Holds for every tie-breaking predicate `ulps`, every prediction and radii of any sign. -/
theorem capsuleCapsule2_spec (hs : LawfulSqrt sq) (ulps : K → K → Bool) (pos12 : Iso2 K) (hq : UnitC pos12)
    (a1 b1 : V2 K) (r1 : K) (a2 b2 : V2 K) (r2 pred : K) (m : Manifold2 K) :
    letI := fieldNum K sq
    let ax := capsuleAxisPoints2 ulps a1 b1 (pos12.act a2) (pos12.act b2)
    let d := (ax.2.1.sub ax.1).dot ax.2.2
    let m' := capsuleCapsule2 ulps pos12 a1 b1 r1 a2 b2 r2 pred m
    (¬ d ≤ pred + r1 + r2 → m' = m.clear) ∧
    (d ≤ pred + r1 + r2 →
      GoodManifold2 sq pos12 (Capsule2.Mem ⟨a1, b1, r1⟩) (Capsule2.Mem ⟨a2, b2, r2⟩) m' ∧ m'.n1 = ax.2.2 ∧
      ∃ c0 rest, m'.points = c0 :: rest ∧ c0.dist = d - (r1 + r2) ∧ rest.length ≤ 1 ∧
        ∀ c ∈ rest, pos12.act c.p2 = c.p1.add (m'.n1.smul c.dist)) := by
  intro ax d m'
  obtain ⟨hm1, hm2, hn⟩ := capsuleAxisPoints2_spec sq hs ulps a1 b1
    (@Iso2.act K (fieldNum K sq) pos12 a2) (@Iso2.act K (fieldNum K sq) pos12 b2)
  refine ⟨?_, ?_⟩
  · intro h
    simp only [m', capsuleCapsule2]
    rw [if_neg h]
  · intro h
    have hn2 : @V2.dot K (fieldNum K sq) (@Iso2.invRot K (fieldNum K sq) pos12 (@V2.neg K (fieldNum K sq) ax.2.2))
        (@Iso2.invRot K (fieldNum K sq) pos12 (@V2.neg K (fieldNum K sq) ax.2.2)) = 1 := by
      rw [invRot_dot2 sq pos12 _ _ hq]
      simp only [V2.dot, V2.neg] at hn ⊢; linear_combination hn
    have hr := rot_invRot2 sq pos12 (@V2.neg K (fieldNum K sq) ax.2.2) hq
    have hm' : m' = ⟨(⟨ax.1, @Iso2.invAct K (fieldNum K sq) pos12 ax.2.1, d⟩ ::
          @secondContact2 K (fieldNum K sq) pos12 a1 b1 (@Iso2.act K (fieldNum K sq) pos12 a2)
            (@Iso2.act K (fieldNum K sq) pos12 b2) ax.1 ax.2.2).map
          (@applyRadii2 K (fieldNum K sq) ax.2.2 (@Iso2.invRot K (fieldNum K sq) pos12 (@V2.neg K (fieldNum K sq) ax.2.2)) r1 r2),
        ax.2.2, @Iso2.invRot K (fieldNum K sq) pos12 (@V2.neg K (fieldNum K sq) ax.2.2)⟩ := by
      simp only [m', capsuleCapsule2]
      rw [if_pos h]
    rw [hm']
    refine ⟨⟨hn, hn2, hr, ?_⟩, rfl, _, _, List.map_cons, rfl, ?_, ?_⟩
    · intro c hc
      simp only [List.map_cons, List.mem_cons, List.mem_map] at hc
      rcases hc with rfl | ⟨raw, hraw, rfl⟩
      · exact (applyRadii2_good sq pos12 hq a1 b1 a2 b2 ax.2.2 _ ax.1 ax.2.1 r1 r2 hn hn2 hr hm1 hm2).1
      · obtain ⟨x, y, hx, hy, rfl, -⟩ := secondContact2_spec sq pos12 a1 b1 _ _ ax.1 ax.2.2 raw hraw
        exact (applyRadii2_good sq pos12 hq a1 b1 a2 b2 ax.2.2 _ x y r1 r2 hn hn2 hr hx hy).1
    · rw [List.length_map]; exact secondContact2_length sq pos12 a1 b1 _ _ ax.1 ax.2.2
    · intro c hc
      simp only [List.mem_map] at hc
      obtain ⟨raw, hraw, rfl⟩ := hc
      obtain ⟨x, y, hx, hy, rfl, hal⟩ := secondContact2_spec sq pos12 a1 b1 _ _ ax.1 ax.2.2 raw hraw
      exact (applyRadii2_good sq pos12 hq a1 b1 a2 b2 ax.2.2 _ x y r1 r2 hn hn2 hr hx hy).2 hal

/-- **The property's `dist` clause for the 2-D capsule/capsule generator, stated alone.**  After
`contact_manifold_capsule_capsule(pos12, …)` EVERY contact of the manifold — one or two of them, the second taken from
either clip point — has `dist = (pos12·local_p2 − local_p1)·local_n1`, whatever the previous content of the manifold. -/
theorem capsuleCapsule2_dist_identity (hs : LawfulSqrt sq) (ulps : K → K → Bool) (pos12 : Iso2 K) (hq : UnitC pos12)
    (a1 b1 : V2 K) (r1 : K) (a2 b2 : V2 K) (r2 pred : K) (m : Manifold2 K) :
    letI := fieldNum K sq
    ∀ c ∈ (capsuleCapsule2 ulps pos12 a1 b1 r1 a2 b2 r2 pred m).points,
      c.dist = ((pos12.act c.p2).sub c.p1).dot (capsuleCapsule2 ulps pos12 a1 b1 r1 a2 b2 r2 pred m).n1 := by
  obtain ⟨h0, h1⟩ := capsuleCapsule2_spec sq hs ulps pos12 hq a1 b1 r1 a2 b2 r2 pred m
  intro c hc
  by_cases h : @V2.dot K (fieldNum K sq) (@V2.sub K (fieldNum K sq)
      (@capsuleAxisPoints2 K (fieldNum K sq) ulps a1 b1 (@Iso2.act K (fieldNum K sq) pos12 a2) (@Iso2.act K (fieldNum K sq) pos12 b2)).2.1
      (@capsuleAxisPoints2 K (fieldNum K sq) ulps a1 b1 (@Iso2.act K (fieldNum K sq) pos12 a2) (@Iso2.act K (fieldNum K sq) pos12 b2)).1)
      (@capsuleAxisPoints2 K (fieldNum K sq) ulps a1 b1 (@Iso2.act K (fieldNum K sq) pos12 a2) (@Iso2.act K (fieldNum K sq) pos12 b2)).2.2
      ≤ pred + r1 + r2
  · exact ((h1 h).1.2.2.2 c hc).1
  · rw [h0 h] at hc
    simp [Manifold2.clear] at hc

/-! ### non-vacuity and both tilt signs, evaluated over `ℚ`

Capsule 1: axis `(−3,0)–(3,0)`; capsule 2: an axis of length 5 tilted by `atan(7/24) ≈ 16.3°` above it, radii `1/4`,
prediction 1, identity pose.  Tilt up to the right: the closest points are at `x = −2.4`, the second contact comes from
`clip_a` (`x = 2.4`).  Tilt up to the left: the closest points are at `x = 2.4`, `clip_a` coincides with them and the
second contact comes from `clip_b` (`x = −2.4`).  In both cases the two contacts have `dist = 1/2` and `19/10`
(each the gap of its own point pair minus the radii). -/

private def exTiltA : Manifold2 ℚ :=
  capsuleCapsule2 (fun _ _ => false) ⟨1, 0, ⟨0, 0⟩⟩ ⟨-3, 0⟩ ⟨3, 0⟩ (1/4) ⟨-12/5, 1⟩ ⟨12/5, 12/5⟩ (1/4) 1 Manifold2.new
private def exTiltB : Manifold2 ℚ :=
  capsuleCapsule2 (fun _ _ => false) ⟨1, 0, ⟨0, 0⟩⟩ ⟨-3, 0⟩ ⟨3, 0⟩ (1/4) ⟨-12/5, 12/5⟩ ⟨12/5, 1⟩ (1/4) 1 Manifold2.new

/-- the hypotheses of `capsuleCapsule2_spec` are satisfiable, the two-contact branch is reached through `clip_a`
(first tilt) and through `clip_b` (second tilt), and the second contact carries the distance of its own pair -/
example : UnitC (⟨1, 0, ⟨0, 0⟩⟩ : Iso2 ℚ) ∧
    exTiltA.points.map (fun c => (c.p1.x, c.dist)) = [(-12/5, 1/2), (12/5, 19/10)] ∧
    exTiltB.points.map (fun c => (c.p1.x, c.dist)) = [(12/5, 1/2), (-12/5, 19/10)] := by
  refine ⟨by norm_num [UnitC], ?_, ?_⟩ <;> decide +kernel

end C14
