import ParryModel.Vec
import ParryModel.Shapes
/-!
# C14 model: persistent contact manifolds.

Literal transliterations (same branch order, same comparison strictness, same floating-point
operation order) of

* `ContactManifold::{try_update_contacts_eps, find_deepest_contact, take, clear}`
  (`src/query/contact_manifolds/contact_manifold.rs`), 2-D and 3-D;
* the closed-form generators `contact_manifold_ball_ball`, `contact_manifold_convex_ball`
  (first shape a `Cuboid`, through `Aabb::project_local_point_and_get_feature`),
  `contact_manifold_halfspace_pfm` (pfm a `Cuboid`, through `Cuboid::support_face`), with their
  `*_shapes` dispatch wrappers (argument flipping);
* the workspace state machine of `contact_manifolds_composite_shape_shape`
  (timestamp flip, `sub_detectors` map, `old_manifolds[id].take()`, `retain`) with the narrow phase
  an arbitrary function.

Feature ids (`fid1/fid2`) and the user data of contacts are not modelled (the property does not
speak about them); manifold user data is modelled in the workspace machine (it is what makes data
continuity observable).
-/
namespace Model
variable {K : Type} [Num K]

/-! ## Manifold data -/

/-- `TrackedContact` geometry: `local_p1`, `local_p2`, `dist`. -/
structure Contact3 (K : Type) where
  p1 : V3 K
  p2 : V3 K
  dist : K

structure Contact2 (K : Type) where
  p1 : V2 K
  p2 : V2 K
  dist : K

/-- `ContactManifold` geometry: `points`, `local_n1`, `local_n2`. -/
structure Manifold3 (K : Type) where
  points : List (Contact3 K)
  n1 : V3 K
  n2 : V3 K

structure Manifold2 (K : Type) where
  points : List (Contact2 K)
  n1 : V2 K
  n2 : V2 K

/-- `ContactManifold::new()` -/
def Manifold3.new : Manifold3 K := ⟨[], V3.zero, V3.zero⟩
def Manifold2.new : Manifold2 K := ⟨[], V2.zero, V2.zero⟩

/-- `ContactManifold::clear` -/
def Manifold3.clear (m : Manifold3 K) : Manifold3 K := { m with points := [] }
def Manifold2.clear (m : Manifold2 K) : Manifold2 K := { m with points := [] }

/-- `ContactManifold::take`: returns `(returned clone carrying the points, self afterwards)`. -/
def Manifold3.take (m : Manifold3 K) : Manifold3 K × Manifold3 K := (m, { m with points := [] })
def Manifold2.take (m : Manifold2 K) : Manifold2 K × Manifold2 K := (m, { m with points := [] })

/-! ## `try_update_contacts_eps` -/

/-- the `for pt in &mut self.points` loop; an early `return false` leaves the points already
visited updated and the others untouched (the partial mutation is part of the model). -/
def tucLoop3 (pos12 : Iso3 K) (n1 : V3 K) (dsq : K) : List (Contact3 K) → Bool × List (Contact3 K)
  | [] => (true, [])
  | pt :: rest =>
    let lp2 := pos12.act pt.p2
    let dpt := lp2.sub pt.p1
    let dist := dpt.dot n1
    if dist * pt.dist < 0 then (false, pt :: rest)
    else
      let np1 := lp2.sub (n1.smul dist)
      -- `na::distance_squared(&pt.local_p1, &new_local_p1) > dist_sq_threshold`
      if dsq < (np1.sub pt.p1).normSq then (false, pt :: rest)
      else
        let r := tucLoop3 pos12 n1 dsq rest
        (r.1, { pt with dist := dist, p1 := np1 } :: r.2)

/-- `ContactManifold::try_update_contacts_eps(pos12, angle_dot_threshold, dist_sq_threshold)` (3-D). -/
def tuc3 (pos12 : Iso3 K) (m : Manifold3 K) (thr dsq : K) : Bool × Manifold3 K :=
  if m.points.isEmpty then (false, m)
  else
    let ln2 := pos12.rot m.n2
    if -(m.n1.dot ln2) < thr then (false, m)
    else
      let r := tucLoop3 pos12 m.n1 dsq m.points
      (r.1, { m with points := r.2 })

def tucLoop2 (pos12 : Iso2 K) (n1 : V2 K) (dsq : K) : List (Contact2 K) → Bool × List (Contact2 K)
  | [] => (true, [])
  | pt :: rest =>
    let lp2 := pos12.act pt.p2
    let dpt := lp2.sub pt.p1
    let dist := dpt.dot n1
    if dist * pt.dist < 0 then (false, pt :: rest)
    else
      let np1 := lp2.sub (n1.smul dist)
      if dsq < (np1.sub pt.p1).normSq then (false, pt :: rest)
      else
        let r := tucLoop2 pos12 n1 dsq rest
        (r.1, { pt with dist := dist, p1 := np1 } :: r.2)

/-- `try_update_contacts_eps` (2-D). -/
def tuc2 (pos12 : Iso2 K) (m : Manifold2 K) (thr dsq : K) : Bool × Manifold2 K :=
  if m.points.isEmpty then (false, m)
  else
    let ln2 := pos12.rot m.n2
    if -(m.n1.dot ln2) < thr then (false, m)
    else
      let r := tucLoop2 pos12 m.n1 dsq m.points
      (r.1, { m with points := r.2 })

/-- `COS_1_DEGREES` (`src/utils/consts.rs`) and the hard-coded `DIST_SQ_THRESHOLD` of `try_update_contacts`. -/
def cos1deg : K := Num.ofRat (99984769515 / 100000000000)
def distSqThreshold : K := lit 1 1000000

/-! ## `find_deepest_contact` -/

/-- the loop `for pt in &self.points { if pt.dist < deepest.dist { deepest = pt } }`, on the list of
`dist` values, tracking the index of `deepest`. -/
def deepestGo (best : Nat) (bestD : K) : Nat → List K → Nat
  | _, [] => best
  | i, d :: ds => if d < bestD then deepestGo i d (i + 1) ds else deepestGo best bestD (i + 1) ds

/-- `find_deepest_contact` as an index into `points` (`None` for an empty manifold). -/
def deepest : List K → Option Nat
  | [] => none
  | d :: ds => some (deepestGo 0 d 0 (d :: ds))

end Model
