import ParryModel.Vec
import ParryModel.Shapes
/-!
# C14 model: persistent contact manifolds.

Literal transliterations (same branch order, same comparison strictness, same floating-point
operation order) of

* `ContactManifold::{try_update_contacts_eps, find_deepest_contact, take, clear}`
  (`src/query/contact_manifolds/contact_manifold.rs`), 2-D and 3-D;
* the closed-form generators `contact_manifold_ball_ball`, `contact_manifold_convex_ball`
  (first shape a `Cuboid`, through `Aabb::project_local_point_and_get_feature`),
  `contact_manifold_halfspace_pfm` (pfm a `Cuboid`, through `Cuboid::support_face`), with their
  `*_shapes` dispatch wrappers (argument flipping);
* the workspace state machine of `contact_manifolds_composite_shape_shape`
  (timestamp flip, `sub_detectors` map, `old_manifolds[id].take()`, `retain`) with the narrow phase
  an arbitrary function.

`try_update_contacts_eps` is modelled as the CORRECTED code (motion along the normal is bounded too, see
`fixes/C14-warm-start-normal-motion.diff`); everything else follows the pinned tree.

Feature ids (`fid1/fid2`) and the user data of contacts are not modelled (the property does not
speak about them); manifold user data is modelled in the workspace machine (it is what makes data
continuity observable).
-/
namespace C14
open Model
variable {K : Type} [Num K]

/-! ## Manifold data -/

/-- `TrackedContact` geometry: `local_p1`, `local_p2`, `dist`. -/
structure Contact3 (K : Type) where
  p1 : V3 K
  p2 : V3 K
  dist : K

structure Contact2 (K : Type) where
  p1 : V2 K
  p2 : V2 K
  dist : K

/-- `ContactManifold` geometry: `points`, `local_n1`, `local_n2`. -/
structure Manifold3 (K : Type) where
  points : List (Contact3 K)
  n1 : V3 K
  n2 : V3 K

structure Manifold2 (K : Type) where
  points : List (Contact2 K)
  n1 : V2 K
  n2 : V2 K

/-- `ContactManifold::new()` -/
def Manifold3.new : Manifold3 K := ⟨[], V3.zero, V3.zero⟩
def Manifold2.new : Manifold2 K := ⟨[], V2.zero, V2.zero⟩

/-- `ContactManifold::clear` -/
def Manifold3.clear (m : Manifold3 K) : Manifold3 K := { m with points := [] }
def Manifold2.clear (m : Manifold2 K) : Manifold2 K := { m with points := [] }

/-- `ContactManifold::take`: returns `(returned clone carrying the points, self afterwards)`. -/
def Manifold3.take (m : Manifold3 K) : Manifold3 K × Manifold3 K := (m, { m with points := [] })
def Manifold2.take (m : Manifold2 K) : Manifold2 K × Manifold2 K := (m, { m with points := [] })

/-! ## `try_update_contacts_eps` -/

/-- the `for pt in &mut self.points` loop; an early `return false` leaves the points already
visited updated and the others untouched (the partial mutation is part of the model). -/
def tucLoop3 (pos12 : Iso3 K) (n1 : V3 K) (dsq : K) : List (Contact3 K) → Bool × List (Contact3 K)
  | [] => (true, [])
  | pt :: rest =>
    let lp2 := pos12.act pt.p2
    let dpt := lp2.sub pt.p1
    let dist := dpt.dot n1
    if dist * pt.dist < 0 then (false, pt :: rest)
    else
      let np1 := lp2.sub (n1.smul dist)
      -- CORRECTED behaviour (fixes/C14-warm-start-normal-motion.diff); the pinned tree tests only
      -- `na::distance_squared(&pt.local_p1, &new_local_p1) > dist_sq_threshold`, which does not see motion along the normal
      let nm := dist - pt.dist
      if dsq < (np1.sub pt.p1).normSq + nm * nm then (false, pt :: rest)
      else
        let r := tucLoop3 pos12 n1 dsq rest
        (r.1, { pt with dist := dist, p1 := np1 } :: r.2)

/-- `ContactManifold::try_update_contacts_eps(pos12, angle_dot_threshold, dist_sq_threshold)` (3-D). -/
def tuc3 (pos12 : Iso3 K) (m : Manifold3 K) (thr dsq : K) : Bool × Manifold3 K :=
  if m.points.isEmpty then (false, m)
  else
    let ln2 := pos12.rot m.n2
    if -(m.n1.dot ln2) < thr then (false, m)
    else
      let r := tucLoop3 pos12 m.n1 dsq m.points
      (r.1, { m with points := r.2 })

def tucLoop2 (pos12 : Iso2 K) (n1 : V2 K) (dsq : K) : List (Contact2 K) → Bool × List (Contact2 K)
  | [] => (true, [])
  | pt :: rest =>
    let lp2 := pos12.act pt.p2
    let dpt := lp2.sub pt.p1
    let dist := dpt.dot n1
    if dist * pt.dist < 0 then (false, pt :: rest)
    else
      let np1 := lp2.sub (n1.smul dist)
      -- CORRECTED behaviour (fixes/C14-warm-start-normal-motion.diff); the pinned tree tests only
      -- `na::distance_squared(&pt.local_p1, &new_local_p1) > dist_sq_threshold`, which does not see motion along the normal
      let nm := dist - pt.dist
      if dsq < (np1.sub pt.p1).normSq + nm * nm then (false, pt :: rest)
      else
        let r := tucLoop2 pos12 n1 dsq rest
        (r.1, { pt with dist := dist, p1 := np1 } :: r.2)

/-- `try_update_contacts_eps` (2-D). -/
def tuc2 (pos12 : Iso2 K) (m : Manifold2 K) (thr dsq : K) : Bool × Manifold2 K :=
  if m.points.isEmpty then (false, m)
  else
    let ln2 := pos12.rot m.n2
    if -(m.n1.dot ln2) < thr then (false, m)
    else
      let r := tucLoop2 pos12 m.n1 dsq m.points
      (r.1, { m with points := r.2 })

/-- `COS_1_DEGREES` (`src/utils/consts.rs`) and the hard-coded `DIST_SQ_THRESHOLD` of `try_update_contacts`. -/
def cos1deg : K := Num.ofRat (99984769515 / 100000000000)
def distSqThreshold : K := lit 1 1000000

/-- `ContactManifold::try_update_contacts(pos12)`: the documented thresholds, `DOT_THRESHOLD = COS_1_DEGREES`
and `DIST_SQ_THRESHOLD = 1.0e-6`. -/
def tuc3Default (pos12 : Iso3 K) (m : Manifold3 K) : Bool × Manifold3 K := tuc3 pos12 m cos1deg distSqThreshold
def tuc2Default (pos12 : Iso2 K) (m : Manifold2 K) : Bool × Manifold2 K := tuc2 pos12 m cos1deg distSqThreshold

/-! ## `find_deepest_contact` -/

/-- the loop `for pt in &self.points { if pt.dist < deepest.dist { deepest = pt } }`, on the list of
`dist` values, tracking the index of `deepest`. -/
def deepestGo (best : Nat) (bestD : K) : Nat → List K → Nat
  | _, [] => best
  | i, d :: ds => if d < bestD then deepestGo i d (i + 1) ds else deepestGo best bestD (i + 1) ds

/-- `find_deepest_contact` as an index into `points` (`None` for an empty manifold). -/
def deepest : List K → Option Nat
  | [] => none
  | d :: ds => some (deepestGo 0 d 0 (d :: ds))

/-! ## Shared pieces of the closed-form generators -/

/-- `TrackedContact::flipped` (geometry only) -/
def Contact3.flipped (p1 p2 : V3 K) (d : K) (fl : Bool) : Contact3 K :=
  if !fl then ⟨p1, p2, d⟩ else ⟨p2, p1, d⟩
def Contact2.flipped (p1 p2 : V2 K) (d : K) (fl : Bool) : Contact2 K :=
  if !fl then ⟨p1, p2, d⟩ else ⟨p2, p1, d⟩

/-- `Unit::try_new_and_get(v, 0.0)`: `sq_norm > min_norm * min_norm`, then `(v / sqrt(sq_norm), sqrt(sq_norm))`. -/
def tryNormalize3 (v : V3 K) : Option (V3 K × K) :=
  let sqn := v.normSq
  if (0 : K) * 0 < sqn then
    let n := Num.sqrt sqn
    some (v.sdiv n, n)
  else none
def tryNormalize2 (v : V2 K) : Option (V2 K × K) :=
  let sqn := v.normSq
  if (0 : K) * 0 < sqn then
    let n := Num.sqrt sqn
    some (v.sdiv n, n)
  else none

/-- `if !points.is_empty() { points[0].copy_geometry_from(contact) } else { points.push(contact) }`
(geometry only) -/
def setFirst {α : Type} (c : α) : List α → List α
  | [] => [c]
  | _ :: rest => c :: rest

/-! ## `contact_manifold_ball_ball` -/

/-- `contact_manifold_ball_ball(pos12, ball1, ball2, prediction, manifold)` (3-D). -/
def ballBall3 (pos12 : Iso3 K) (r1 r2 pred : K) (m : Manifold3 K) : Manifold3 K :=
  let dcenter := pos12.t
  let centerDist := dcenter.norm
  let dist := centerDist - r1 - r2
  if dist < pred then
    let n1 : V3 K := if !(neq centerDist 0) then dcenter.sdiv centerDist else ⟨0, 1, 0⟩
    let n2 := pos12.invRot n1.neg
    let p1 := n1.smul r1
    let p2 := n2.smul r2
    let c : Contact3 K := ⟨p1, p2, dist⟩
    -- `points[0].copy_geometry_from(contact)` or `push`
    let pts := setFirst c m.points
    ⟨pts, n1, n2⟩
  else m.clear

def ballBall2 (pos12 : Iso2 K) (r1 r2 pred : K) (m : Manifold2 K) : Manifold2 K :=
  let dcenter := pos12.t
  let centerDist := dcenter.norm
  let dist := centerDist - r1 - r2
  if dist < pred then
    let n1 : V2 K := if !(neq centerDist 0) then dcenter.sdiv centerDist else ⟨0, 1⟩
    let n2 := pos12.invRot n1.neg
    let p1 := n1.smul r1
    let p2 := n2.smul r2
    let c : Contact2 K := ⟨p1, p2, dist⟩
    let pts := setFirst c m.points
    ⟨pts, n1, n2⟩
  else m.clear

/-- `Unit::try_new_and_get(dpos, 0.0).unwrap_or_else(|| (Unit::try_new(pos12.translation.vector, 0.0)
.unwrap_or_else(Vector::x_axis), 0.0))` -/
def contactNormal3 (dpos t : V3 K) : V3 K × K :=
  match tryNormalize3 dpos with
  | some x => x
  | none => ((match tryNormalize3 t with | some x => x.1 | none => ⟨1, 0, 0⟩), 0)
def contactNormal2 (dpos t : V2 K) : V2 K × K :=
  match tryNormalize2 dpos with
  | some x => x
  | none => ((match tryNormalize2 t with | some x => x.1 | none => ⟨1, 0⟩), 0)

/-! ## `contact_manifold_convex_ball` (normal constraints `None`), the first shape abstract:
`proj` is `shape1.project_local_point_and_get_feature` reduced to `(is_inside, point)`. -/

/-- the part of `contact_manifold_convex_ball` after the normal and distance are known -/
def convexBallOut3 (pos12 : Iso3 K) (p1 n1 : V3 K) (dist r2 pred : K) (flipped : Bool)
    (m : Manifold3 K) : Manifold3 K :=
  if dist ≤ r2 + pred then
    let n2 := pos12.invRot n1.neg
    let p2 := n2.smul r2
    let c := Contact3.flipped p1 p2 (dist - r2) flipped
    -- `len != 1 → clear + push`, else `copy_geometry_from`: the same geometry
    if flipped then ⟨[c], n2, n1⟩ else ⟨[c], n1, n2⟩
  else m.clear

def convexBall3 (proj : V3 K → Bool × V3 K) (pos12 : Iso3 K) (r2 pred : K) (flipped : Bool)
    (m : Manifold3 K) : Manifold3 K :=
  let lp21 := pos12.t
  let pr := proj lp21
  let p1 := pr.2
  let dpos := lp21.sub p1
  let nd : V3 K × K := contactNormal3 dpos pos12.t
  let nd : V3 K × K := if pr.1 then (nd.1.neg, -nd.2) else nd
  convexBallOut3 pos12 p1 nd.1 nd.2 r2 pred flipped m

/-- `contact_manifold_convex_ball_shapes`: which of the two shapes is the ball decides the flip. -/
def convexBallShapes3 (proj : V3 K → Bool × V3 K) (ballFirst : Bool) (pos12 : Iso3 K) (r pred : K)
    (m : Manifold3 K) : Manifold3 K :=
  if ballFirst then convexBall3 proj pos12.inverse r pred true m
  else convexBall3 proj pos12 r pred false m

def convexBallOut2 (pos12 : Iso2 K) (p1 n1 : V2 K) (dist r2 pred : K) (flipped : Bool)
    (m : Manifold2 K) : Manifold2 K :=
  if dist ≤ r2 + pred then
    let n2 := pos12.invRot n1.neg
    let p2 := n2.smul r2
    let c := Contact2.flipped p1 p2 (dist - r2) flipped
    if flipped then ⟨[c], n2, n1⟩ else ⟨[c], n1, n2⟩
  else m.clear

def convexBall2 (proj : V2 K → Bool × V2 K) (pos12 : Iso2 K) (r2 pred : K) (flipped : Bool)
    (m : Manifold2 K) : Manifold2 K :=
  let lp21 := pos12.t
  let pr := proj lp21
  let p1 := pr.2
  let dpos := lp21.sub p1
  let nd : V2 K × K := contactNormal2 dpos pos12.t
  let nd : V2 K × K := if pr.1 then (nd.1.neg, -nd.2) else nd
  convexBallOut2 pos12 p1 nd.1 nd.2 r2 pred flipped m

def convexBallShapes2 (proj : V2 K → Bool × V2 K) (ballFirst : Bool) (pos12 : Iso2 K) (r pred : K)
    (m : Manifold2 K) : Manifold2 K :=
  if ballFirst then convexBall2 proj pos12.inverse r pred true m
  else convexBall2 proj pos12 r pred false m

/-! ### `Cuboid::project_local_point_and_get_feature` → `Aabb::do_project_local_point(pt, solid = false)` -/

/-- `f64::MAX` -/
def fmax : K := Num.ofRat (((2 ^ 1024 - 2 ^ 971 : Nat) : Int) : Rat)

/-- loop state of the non-solid inside branch: `(best, is_mins, best_id)` -/
structure ProjSt (K : Type) where
  best : K
  isMins : Bool
  bestId : Nat

def projStep (a b : K) (i : Nat) (st : ProjSt K) : ProjSt K :=
  -- a = mins_pt[i], b = pt_maxs[i]
  if a < b then
    if st.best < b then ⟨b, false, i⟩ else st
  else if st.best < a then ⟨a, true, i⟩ else st

def cuboidProject3 (he : V3 K) (pt : V3 K) : Bool × V3 K :=
  let mins := he.neg
  let maxs := he
  let minsPt := mins.sub pt
  let ptMaxs := pt.sub maxs
  let shift := (minsPt.sup V3.zero).sub (ptMaxs.sup V3.zero)
  let inside := neq shift.x 0 && neq shift.y 0 && neq shift.z 0
  if !inside then (false, pt.add shift)
  else
    let st0 : ProjSt K := ⟨-fmax, false, 0⟩
    let st := projStep minsPt.z ptMaxs.z 2 (projStep minsPt.y ptMaxs.y 1 (projStep minsPt.x ptMaxs.x 0 st0))
    let sh : V3 K := V3.zero.set st.bestId (if st.isMins then st.best else -st.best)
    (true, pt.add sh)

def cuboidProject2 (he : V2 K) (pt : V2 K) : Bool × V2 K :=
  let mins := he.neg
  let maxs := he
  let minsPt := mins.sub pt
  let ptMaxs := pt.sub maxs
  let shift := (minsPt.sup V2.zero).sub (ptMaxs.sup V2.zero)
  let inside := neq shift.x 0 && neq shift.y 0
  if !inside then (false, pt.add shift)
  else
    let st0 : ProjSt K := ⟨-fmax, false, 0⟩
    let st := projStep minsPt.y ptMaxs.y 1 (projStep minsPt.x ptMaxs.x 0 st0)
    let sh : V2 K := V2.zero.set st.bestId (if st.isMins then st.best else -st.best)
    (true, pt.add sh)

/-! ## `contact_manifold_halfspace_pfm`, the polygonal feature map abstract:
`feat dir` is the vertex list (`vertices[..num_vertices]`) of `pfm2.local_support_feature(dir)`. -/

def halfspacePfm3 (feat : V3 K → List (V3 K)) (pos12 : Iso3 K) (n : V3 K) (br pred : K) (flipped : Bool) :
    Manifold3 K :=
  let n12 := pos12.invRot n
  let verts := feat n12.neg
  let pts := verts.filterMap fun v =>
    let v1 := pos12.act v
    let d := v1.dot n
    if d - br ≤ pred then some (Contact3.flipped (v1.sub (n.smul d)) (v.sub (n12.smul br)) (d - br) flipped)
    else none
  if flipped then ⟨pts, n12.neg, n⟩ else ⟨pts, n, n12.neg⟩

def halfspacePfm2 (feat : V2 K → List (V2 K)) (pos12 : Iso2 K) (n : V2 K) (br pred : K) (flipped : Bool) :
    Manifold2 K :=
  let n12 := pos12.invRot n
  let verts := feat n12.neg
  let pts := verts.filterMap fun v =>
    let v1 := pos12.act v
    let d := v1.dot n
    if d - br ≤ pred then some (Contact2.flipped (v1.sub (n.smul d)) (v.sub (n12.smul br)) (d - br) flipped)
    else none
  if flipped then ⟨pts, n12.neg, n⟩ else ⟨pts, n, n12.neg⟩

/-- the two half-space arms of `contact_manifold_convex_convex`: `(HalfSpace, _)` and `(_, HalfSpace)`;
`pos12` is always the pose of shape 2 in the frame of shape 1. -/
def halfspaceDispatch3 (feat : V3 K → List (V3 K)) (hsFirst : Bool) (pos12 : Iso3 K) (n : V3 K) (br pred : K) :
    Manifold3 K :=
  if hsFirst then halfspacePfm3 feat pos12 n br pred false
  else halfspacePfm3 feat pos12.inverse n br pred true
def halfspaceDispatch2 (feat : V2 K → List (V2 K)) (hsFirst : Bool) (pos12 : Iso2 K) (n : V2 K) (br pred : K) :
    Manifold2 K :=
  if hsFirst then halfspacePfm2 feat pos12 n br pred false
  else halfspacePfm2 feat pos12.inverse n br pred true

/-! ### `Cuboid::support_face` -/

/-- `x.copysign(y)`: magnitude of `x`, sign bit of `y` (so `-0.0` counts as negative at `Float`). -/
class HasCopysign (K : Type) where
  copysign : K → K → K

instance : HasCopysign Float where
  copysign a b := Float.ofBits ((a.toBits &&& 0x7FFFFFFFFFFFFFFF) ||| (b.toBits &&& 0x8000000000000000))
instance : HasCopysign Rat where
  copysign a b := if b < 0 then -(if a < 0 then -a else a) else (if a < 0 then -a else a)

/-- nalgebra `iamax` on a 3-vector: first index of the largest `|component|` (strict `>` updates). -/
def iamax3 (v : V3 K) : Nat :=
  let m0 := nabs v.x
  let r1 : K × Nat := if m0 < nabs v.y then (nabs v.y, 1) else (m0, 0)
  if r1.1 < nabs v.z then 2 else r1.2
/-- nalgebra `iamin` on a 2-vector -/
def iamin2 (v : V2 K) : Nat := if nabs v.y < nabs v.x then 1 else 0

/-- 3-D `Cuboid::support_face(local_dir).vertices` -/
def cuboidSupportFace3 [HasCopysign K] (he : V3 K) (dir : V3 K) : List (V3 K) :=
  let i := iamax3 dir
  let sign := HasCopysign.copysign (1 : K) (dir.get i)
  if i = 0 then
    [⟨he.x * sign, he.y, he.z⟩, ⟨he.x * sign, -he.y, he.z⟩, ⟨he.x * sign, -he.y, -he.z⟩, ⟨he.x * sign, he.y, -he.z⟩]
  else if i = 1 then
    [⟨he.x, he.y * sign, he.z⟩, ⟨-he.x, he.y * sign, he.z⟩, ⟨-he.x, he.y * sign, -he.z⟩, ⟨he.x, he.y * sign, -he.z⟩]
  else
    [⟨he.x, he.y, he.z * sign⟩, ⟨he.x, -he.y, he.z * sign⟩, ⟨-he.x, -he.y, he.z * sign⟩, ⟨-he.x, he.y, he.z * sign⟩]

/-- 2-D `Cuboid::support_face(local_dir).vertices` -/
def cuboidSupportFace2 [HasCopysign K] (he : V2 K) (dir : V2 K) : List (V2 K) :=
  let i := iamin2 dir
  let j := (i + 1) % 2
  let a : V2 K := (V2.zero.set i (he.get i)).set j (HasCopysign.copysign (he.get j) (dir.get j))
  let b : V2 K := a.set i (-(he.get i))
  [a, b]

/-- `PolygonalFeature::from(Segment)` (capsule: the segment with `border_radius = radius`) -/
def segmentFeature3 (a b : V3 K) (_dir : V3 K) : List (V3 K) := [a, b]

/-! ## Pose sequences through `DefaultQueryDispatcher::contact_manifolds` for a pair of primitives:
the dispatcher pushes one `ContactManifold::new()` on the first call and then re-runs the generator on the
same manifold; output = the manifold after every call. -/

def runSeq {P M : Type} (gen : P → M → M) : M → List P → List M
  | _, [] => []
  | m, p :: ps => let m' := gen p m; m' :: runSeq gen m' ps

/-! ## Workspace bookkeeping of `contact_manifolds_composite_shape_shape`

The narrow phase is a parameter (`narrow leaf manifold`, any function); the broad phase is a parameter too:
each call receives the list of leaves the QBVH traversal visits.  `α` is everything a manifold carries besides
its labels (points, normals, user data), `β` the type of part poses. -/

/-- the label fields of a `ContactManifold` + the rest -/
structure WManifold (α β : Type) where
  subshape1 : Nat
  subshape2 : Nat
  pos1 : Option β
  pos2 : Option β
  data : α

/-- `SubDetector { manifold_id, timestamp }` -/
structure SubDetector where
  manifoldId : Nat
  timestamp : Bool

/-- `CompositeShapeShapeContactManifoldsWorkspace`; the `HashMap<u32, SubDetector>` is a finite partial map -/
structure Workspace where
  timestamp : Bool
  sub : Nat → Option SubDetector

/-- `CompositeShapeShapeContactManifoldsWorkspace::new()` -/
def Workspace.new : Workspace := ⟨false, fun _ => none⟩

/-- the `Entry::Vacant` manifold: `ContactManifold::new()` + labels (`part_pos1.copied()`) -/
def freshManifold {α β : Type} (flipped : Bool) (dflt : α) (partPos : Nat → Option β) (leaf : Nat) : WManifold α β :=
  if flipped then ⟨0, leaf, none, partPos leaf, dflt⟩ else ⟨leaf, 0, partPos leaf, none, dflt⟩

/-- state of the traversal callback: the map, `old_manifolds`, the new `manifolds` -/
structure LoopSt (α β : Type) where
  sub : Nat → Option SubDetector
  old : List (WManifold α β)
  new : List (WManifold α β)

/-- one call of `leaf1_fn`.  `none` = the `old_manifolds[sub_detector.manifold_id]` index panics.
`clr` is what `take()` leaves behind in `old_manifolds` (points removed). -/
def visitLeaf {α β : Type} (narrow : Nat → WManifold α β → WManifold α β) (clr : α → α)
    (fresh : Nat → WManifold α β) (newTs : Bool) (st : LoopSt α β) (leaf : Nat) : Option (LoopSt α β) :=
  match st.sub leaf with
  | some sd =>
    match st.old[sd.manifoldId]? with
    | none => none
    | some om =>
      -- `take()`, `manifold_id = manifolds.len()`, `timestamp = new_timestamp`, `push`, then the narrow phase
      -- on `manifolds[sub_detector.manifold_id]` (the slot just pushed)
      some ⟨fun l => if l = leaf then some ⟨st.new.length, newTs⟩ else st.sub l,
            st.old.set sd.manifoldId { om with data := clr om.data },
            st.new ++ [narrow leaf om]⟩
  | none =>
    some ⟨fun l => if l = leaf then some ⟨st.new.length, newTs⟩ else st.sub l,
          st.old,
          st.new ++ [narrow leaf (fresh leaf)]⟩

/-- `sub_detectors.retain(|_, d| d.timestamp == new_timestamp)` -/
def retainTs (newTs : Bool) (sub : Nat → Option SubDetector) : Nat → Option SubDetector :=
  fun l => match sub l with
    | some sd => if sd.timestamp == newTs then some sd else none
    | none => none

/-- one call of `contact_manifolds_composite_shape_shape` on the leaves the traversal visits -/
def compositeStep {α β : Type} (narrow : Nat → WManifold α β → WManifold α β) (clr : α → α)
    (fresh : Nat → WManifold α β) (ws : Workspace) (ms : List (WManifold α β)) (leaves : List Nat) :
    Option (Workspace × List (WManifold α β)) :=
  let newTs := !ws.timestamp
  match leaves.foldlM (visitLeaf narrow clr fresh newTs) ⟨ws.sub, ms, []⟩ with
  | none => none
  | some st => some (⟨newTs, retainTs newTs st.sub⟩, st.new)

/-- a whole history: each call has its own narrow phase (the pose changes) and its own visited leaves -/
def compositeRun {α β : Type} (clr : α → α) (fresh : Nat → WManifold α β) :
    Workspace → List (WManifold α β) → List ((Nat → WManifold α β → WManifold α β) × List Nat) →
      Option (Workspace × List (WManifold α β))
  | ws, ms, [] => some (ws, ms)
  | ws, ms, (narrow, leaves) :: rest =>
    match compositeStep narrow clr fresh ws ms leaves with
    | none => none
    | some (ws', ms') => compositeRun clr fresh ws' ms' rest

/-! ## 2-D `contact_manifold_capsule_capsule` (`contact_manifolds_capsule_capsule.rs`, `dim2`)

Closed form: closest points of the two axes (`closest_points_segment_segment_with_locations_nD`), one contact
there; if the axes are within 22.5° of (anti)parallel and the normal within 22.5° of their perpendicular, a second
contact from `clip_segment_segment_with_normal`.  There is no warm start in this generator: the previous points
only feed `match_contacts` (contact user data, not modelled), so the geometry is a function of the pose.
`ulps` is `approx::ulps_eq!` (bit-level at `Float`; the theorems hold for every such predicate). -/

/-- `f64::EPSILON` = `DEFAULT_EPSILON` -/
def epsilon : K := lit 1 4503599627370496
/-- `COS_FRAC_PI_8`, `SIN_FRAC_PI_8` (`src/utils/consts.rs`) -/
def cosFracPi8 : K := Num.ofRat (92387953251 / 100000000000)
def sinFracPi8 : K := Num.ofRat (38268343236 / 100000000000)

/-- `na::clamp(x, 0, 1)`: `if val > min { if val < max { val } else { max } } else { min }` -/
def clamp01 (x : K) : K := if 0 < x then (if x < 1 then x else 1) else 0

/-- the parameters `(s, t)` of `closest_points_segment_segment_with_locations_nD` (2-D instance) -/
def segSegParams2 (ulps : K → K → Bool) (a1 b1 a2 b2 : V2 K) : K × K :=
  let d1 := b1.sub a1
  let d2 := b2.sub a2
  let r := a1.sub a2
  let a := d1.normSq
  let e := d2.normSq
  let f := d2.dot r
  if a ≤ epsilon ∧ e ≤ epsilon then (0, 0)
  else if a ≤ epsilon then (0, clamp01 (f / e))
  else
    let c := d1.dot r
    if e ≤ epsilon then (clamp01 (-c / a), 0)
    else
      let b := d1.dot d2
      let ae := a * e
      let bb := b * b
      let denom := ae - bb
      let s := if epsilon < denom ∧ !(ulps ae bb) then clamp01 ((b * f - c * e) / denom) else 0
      let t := (b * s + f) / e
      if t < 0 then (clamp01 (-c / a), 0)
      else if 1 < t then (clamp01 ((b - c) / a), 1)
      else (s, t)

/-- `SegmentPointLocation::barycentric_coordinates()` of the location built from the parameter `s`:
`s == 0 → OnVertex(0) → [1, 0]`, `s == 1 → OnVertex(1) → [0, 1]`, else `OnEdge([1 - s, s])` -/
def bcoords (s : K) : K × K := if neq s 0 then (1, 0) else if neq s 1 then (0, 1) else (1 - s, s)

/-- `seg.a * bcoords[0] + seg.b.coords * bcoords[1]` -/
def baryPoint2 (a b : V2 K) (bc : K × K) : V2 K := (a.smul bc.1).add (b.smul bc.2)

/-- `Unit::try_new(v, min_norm)`: `sq_norm > min_norm * min_norm`, then `v / sqrt(sq_norm)` -/
def tryNew2 (v : V2 K) (minNorm : K) : Option (V2 K) :=
  let sqn := v.normSq
  if minNorm * minNorm < sqn then some (v.sdiv (Num.sqrt sqn)) else none

/-- `utils::inv`: `0` at `0`, else `1 / x` -/
def inv0 (x : K) : K := if neq x 0 then 0 else 1 / x

/-- a clipping point pair (`ClippingPoints` without the feature ids): a point on segment 1, a point on segment 2 -/
structure ClipPt (K : Type) where
  p1 : V2 K
  p2 : V2 K

/-- the lower end `ca` of the common range, for segments already oriented by increasing tangent coordinate
(`r10 ≤ r11` are the coordinates of `s10, s11`; `r20 ≤ r21` those of `s20, s21`) -/
def clipLo (r10 r11 r20 r21 : K) (s10 s11 s20 s21 : V2 K) : ClipPt K :=
  if r10 < r20 then
    let bc := (r20 - r10) * inv0 (r11 - r10)
    ⟨s10.add ((s11.sub s10).smul bc), s20⟩
  else
    let bc := (r10 - r20) * inv0 (r21 - r20)
    ⟨s10, s20.add ((s21.sub s20).smul bc)⟩

/-- the upper end `cb` of the common range -/
def clipHi (r10 r11 r20 r21 : K) (s10 s11 s20 s21 : V2 K) : ClipPt K :=
  if r21 < r11 then
    let bc := (r21 - r10) * inv0 (r11 - r10)
    ⟨s10.add ((s11.sub s10).smul bc), s21⟩
  else
    let bc := (r11 - r20) * inv0 (r21 - r20)
    ⟨s11, s20.add ((s21.sub s20).smul bc)⟩

/-- the part of `clip_segment_segment_with_normal` after the two `if range[1] < range[0] { swap }` -/
def clipOrdered (r10 r11 r20 r21 : K) (s10 s11 s20 s21 : V2 K) : Option (ClipPt K × ClipPt K) :=
  -- `if range2[0] > range1[1] || range1[0] > range2[1] { return None }`
  if r11 < r20 ∨ r21 < r10 then none
  else some (clipLo r10 r11 r20 r21 s10 s11 s20 s21, clipHi r10 r11 r20 r21 s10 s11 s20 s21)

/-- `clip_segment_segment_with_normal(seg1, seg2, normal)` (2-D): both segments are projected on the tangent
`(-n.y, n.x)`, each is oriented by increasing tangent coordinate (the two swaps), and the two ends of the common
range are returned as point pairs. -/
def clipSegSegWithNormal (a1 b1 a2 b2 n : V2 K) : Option (ClipPt K × ClipPt K) :=
  let tangent : V2 K := ⟨-n.y, n.x⟩
  let u10 := a1.dot tangent
  let u11 := b1.dot tangent
  let u20 := a2.dot tangent
  let u21 := b2.dot tangent
  if u11 < u10 then
    if u21 < u20 then clipOrdered u11 u10 u21 u20 b1 a1 b2 a2
    else clipOrdered u11 u10 u20 u21 b1 a1 a2 b2
  else
    if u21 < u20 then clipOrdered u10 u11 u21 u20 a1 b1 b2 a2
    else clipOrdered u10 u11 u20 u21 a1 b1 a2 b2

/-- the raw second contact (before the radii are applied): clip point pair and its distance along the normal.
`(clip_a.0 - local_p1).norm_squared() > EPSILON * 100` chooses `clip_a`, else `clip_b`; **each with the distance
of its own pair**. -/
def secondContact2 (pos12 : Iso2 K) (a1 b1 a2' b2' lp1 n1 : V2 K) : List (Contact2 K) :=
  match tryNew2 (b1.sub a1) epsilon, tryNew2 (b2'.sub a2') epsilon with
  | some dir1, some dir2 =>
    if cosFracPi8 ≤ nabs (dir1.dot dir2) ∧ nabs (dir1.dot n1) < sinFracPi8 then
      match clipSegSegWithNormal a1 b1 a2' b2' n1 with
      | some (ca, cb) =>
        if epsilon * lit 100 < (ca.p1.sub lp1).normSq then
          [⟨ca.p1, pos12.invAct ca.p2, (ca.p2.sub ca.p1).dot n1⟩]
        else
          [⟨cb.p1, pos12.invAct cb.p2, (cb.p2.sub cb.p1).dot n1⟩]
      | none => []
    else []
  | _, _ => []

/-- the final loop: `local_p1 += n1 * r1; local_p2 += n2 * r2; dist -= r1 + r2` -/
def applyRadii2 (n1 n2 : V2 K) (r1 r2 : K) (c : Contact2 K) : Contact2 K :=
  ⟨c.p1.add (n1.smul r1), c.p2.add (n2.smul r2), c.dist - (r1 + r2)⟩

/-- the closest points of the two axes (frame of capsule 1) and the contact normal
`Unit::try_new(p2 − p1, EPSILON).unwrap_or(Vector::y_axis())` -/
def capsuleAxisPoints2 (ulps : K → K → Bool) (a1 b1 a2' b2' : V2 K) : V2 K × V2 K × V2 K :=
  let st := segSegParams2 ulps a1 b1 a2' b2'
  let lp1 := baryPoint2 a1 b1 (bcoords st.1)
  let lp21 := baryPoint2 a2' b2' (bcoords st.2)
  let n1 : V2 K := match tryNew2 (lp21.sub lp1) epsilon with | some n => n | none => ⟨0, 1⟩
  (lp1, lp21, n1)

/-- `contact_manifold_capsule_capsule(pos12, capsule1, capsule2, prediction, manifold)` (2-D), geometry. -/
def capsuleCapsule2 (ulps : K → K → Bool) (pos12 : Iso2 K) (a1 b1 : V2 K) (r1 : K) (a2 b2 : V2 K) (r2 pred : K)
    (m : Manifold2 K) : Manifold2 K :=
  let a2' := pos12.act a2
  let b2' := pos12.act b2
  let ax := capsuleAxisPoints2 ulps a1 b1 a2' b2'
  let lp1 := ax.1
  let lp21 := ax.2.1
  let n1 := ax.2.2
  let dist := (lp21.sub lp1).dot n1
  if dist ≤ pred + r1 + r2 then
    let n2 := pos12.invRot n1.neg
    let c0 : Contact2 K := ⟨lp1, pos12.invAct lp21, dist⟩
    let pts := (c0 :: secondContact2 pos12 a1 b1 a2' b2' lp1 n1).map (applyRadii2 n1 n2 r1 r2)
    ⟨pts, n1, n2⟩
  else
    -- `manifold.clear(); return` (the normals keep their previous values)
    m.clear

end C14
