import ParryModel.C14.Theorems4
/-!
# C14 property theorems, part 5 (round fu5): the 2-D flip lemma and the triangle-first order of `contact_manifold_cuboid_triangle`
-/
namespace C14
open Model
variable {K : Type} [Field K] [LinearOrder K] [IsStrictOrderedRing K] (sq : K → K)

def Contact2.swap (c : Contact2 K) : Contact2 K := ⟨c.p2, c.p1, c.dist⟩
def Manifold2.swap (m : Manifold2 K) : Manifold2 K := ⟨m.points.map Contact2.swap, m.n2, m.n1⟩

/-- 2-D flip lemma: a manifold that is good for the pair (shape A, shape B) at the pose `P⁻¹` is, with contacts and normals
exchanged, good for the pair (shape B, shape A) at the pose `P`. -/
theorem good_swap2 (P : Iso2 K) (hq : UnitC P) (S1 S2 : V2 K → Prop) (m : Manifold2 K)
    (h : letI := fieldNum K sq; GoodManifold2 sq P.inverse S1 S2 m) :
    GoodManifold2 sq P S2 S1 m.swap := by
  obtain ⟨h1, h2, h3, h4⟩ := h
  have e1 : P.re * m.n2.x + P.im * m.n2.y = -m.n1.x := by
    have := congrArg V2.x h3; simp only [Iso2.inverse, Iso2.rot, V2.neg] at this; linarith
  have e2 : -P.im * m.n2.x + P.re * m.n2.y = -m.n1.y := by
    have := congrArg V2.y h3; simp only [Iso2.inverse, Iso2.rot, V2.neg] at this; linarith
  unfold UnitC at hq
  refine ⟨h2, h1, ?_, ?_⟩
  · apply V2.ext' <;> simp only [Manifold2.swap, Iso2.rot, V2.neg]
    · linear_combination P.re * e1 + (-P.im) * e2 + (-m.n2.x) * hq
    · linear_combination P.im * e1 + P.re * e2 + (-m.n2.y) * hq
  · intro c hc
    simp only [Manifold2.swap, List.mem_map] at hc
    obtain ⟨c0, hc0, rfl⟩ := hc
    obtain ⟨hd, hp1, hp2⟩ := h4 c0 hc0
    refine ⟨?_, hp2, hp1⟩
    simp only [Contact2.swap, Manifold2.swap]
    rw [hd]
    simp only [Iso2.inverse, Iso2.act, Iso2.rot, V2.add, V2.sub, V2.neg, V2.dot]
    linear_combination (P.re * (c0.p2.x - P.t.x) + P.im * (c0.p2.y - P.t.y) - c0.p1.x) * e1 +
      (-P.im * (c0.p2.x - P.t.x) + P.re * (c0.p2.y - P.t.y) - c0.p1.y) * e2 +
      (-((c0.p2.x - P.t.x) * m.n2.x + (c0.p2.y - P.t.y) * m.n2.y)) * hq
private theorem inverse_inverse2 (P : Iso2 K) (hq : UnitC P) : letI := fieldNum K sq; P.inverse.inverse = P := by
  unfold UnitC at hq
  obtain ⟨re, im, ⟨tx, ty⟩⟩ := P
  simp only [Iso2.inverse, Iso2.rot, V2.neg, Iso2.mk.injEq, V2.mk.injEq, neg_neg, true_and] at hq ⊢
  constructor
  · linear_combination tx * hq
  · linear_combination ty * hq

private theorem faceFace2_flipped (pos12 : Iso2 K) (a1 b1 n a2 b2 : V2 K) :
    letI := fieldNum K sq
    faceFace2 pos12 a1 b1 n a2 b2 true = (faceFace2 pos12 a1 b1 n a2 b2 false).map Contact2.swap := by
  simp only [faceFace2]
  cases @clipSegSegWithNormal K (fieldNum K sq) a1 b1 (@Iso2.act K (fieldNum K sq) pos12 a2)
      (@Iso2.act K (fieldNum K sq) pos12 b2) n with
  | none => simp
  | some p => simp [Contact2.flipped, Contact2.swap]

/-- **The contact assembly of `contact_manifold_cuboid_triangle` (2-D) in the TRIANGLE-first order** (`flipped = true`: the core
runs with the poses exchanged, `P` is the caller's pose of the cuboid in the triangle's frame), for any unit reference normal in
the cuboid's frame: unit normals with `P·n2 = −n1` exactly, no contact or two, each with `dist = (P·local_p2 − local_p1)·n1`,
`local_p1` in the triangle, `local_p2` in the cuboid. -/
theorem cuboidTriangleAssemble2_flipped_spec (P : Iso2 K) (hq : UnitC P) (he1 a b c n1 : V2 K)
    (h1x : 0 ≤ he1.x) (h1y : 0 ≤ he1.y) (hn : letI := fieldNum K sq; n1.dot n1 = 1) (m : Manifold2 K) :
    letI := fieldNum K sq
    letI := fieldCopysign K
    let m' := cuboidTriangleAssemble2 P.inverse P he1 a b c n1 true m
    GoodManifold2 sq P (Triangle2.mk a b c).Mem (Cuboid2.mk he1).Mem m' ∧
    (m'.points.length = 0 ∨ m'.points.length = 2) := by
  intro m'
  have hq' : UnitC (@Iso2.inverse K (fieldNum K sq) P) := by
    unfold UnitC at *; simp only [Iso2.inverse]; linear_combination hq
  obtain ⟨g, hl, -⟩ := cuboidTriangleAssemble2_spec sq (@Iso2.inverse K (fieldNum K sq) P) hq' he1 a b c n1 h1x h1y hn m
  rw [inverse_inverse2 sq P hq] at g hl
  have em : m' = (@cuboidTriangleAssemble2 K (fieldNum K sq) (fieldCopysign K) (@Iso2.inverse K (fieldNum K sq) P) P he1 a b c n1 false m).swap := by
    obtain ⟨a1, b1, e1, -, -⟩ := cuboidSupportFace2_mem sq he1 n1 h1x h1y
    have hx : ∃ x y, @triSupportFace2 K (fieldNum K sq) a b c (@Iso2.rot K (fieldNum K sq) P (@V2.neg K (fieldNum K sq) n1)) = [x, y] := by
      simp only [triSupportFace2]; split_ifs <;> exact ⟨_, _, rfl⟩
    obtain ⟨x, y, e2⟩ := hx
    simp only [m', cuboidTriangleAssemble2]
    rw [e1, e2]
    simp [polyContacts2, faceFace2_flipped, Manifold2.swap]
  rw [em]
  refine ⟨good_swap2 sq P hq _ _ _ g, ?_⟩
  simpa [Manifold2.swap] using hl

private theorem assemble_flipped_eq (P : Iso2 K) (he1 a b c n1 : V2 K) (h1x : 0 ≤ he1.x) (h1y : 0 ≤ he1.y) (m : Manifold2 K) :
    letI := fieldNum K sq
    letI := fieldCopysign K
    cuboidTriangleAssemble2 P.inverse P he1 a b c n1 true m = (cuboidTriangleAssemble2 P.inverse P he1 a b c n1 false m).swap := by
  obtain ⟨a1, b1, e1, -, -⟩ := cuboidSupportFace2_mem sq he1 n1 h1x h1y
  have hx : ∃ x y, @triSupportFace2 K (fieldNum K sq) a b c (@Iso2.rot K (fieldNum K sq) P (@V2.neg K (fieldNum K sq) n1)) = [x, y] := by
    simp only [triSupportFace2]; split_ifs <;> exact ⟨_, _, rfl⟩
  obtain ⟨x, y, e2⟩ := hx
  simp only [cuboidTriangleAssemble2]
  rw [e1, e2]
  simp [polyContacts2, faceFace2_flipped, Manifold2.swap]

/-- **`contact_manifold_cuboid_triangle` (2-D) in the TRIANGLE-first order after a failed warm start** (`P` = the caller's pose of
the cuboid in the triangle's frame; the core runs with `pos12 = P⁻¹`, `pos21 = P`, `flipped`): a SAT pass above the prediction ⇒
cleared and the shapes are separated by more than the prediction along a unit axis (frame of the triangle); otherwise unit normals
with `P·n2 = −n1`, no contact or two, each with `dist = (P·local_p2 − local_p1)·n1`, `local_p1` in the triangle, `local_p2` in the
cuboid, and no contact deeper than the larger SAT value. -/
theorem cuboidTriangleFresh2_flipped_spec (hs : LawfulSqrt sq) (P : Iso2 K) (hq : UnitC P) (he1 a b c : V2 K)
    (h1x : 0 ≤ he1.x) (h1y : 0 ≤ he1.y) (pred : K) (hp : 0 ≤ pred) (m : Manifold2 K)
    (hs1 : letI := fieldNum K sq; -fmax < (cuboidSupportMapOneway2 he1 (triSupportPoint2 a b c) P.inverse).1)
    (hs2 : letI := fieldNum K sq; letI := fieldCopysign K;
      -fmax < (triangleSupportMapOneway2 a b c (cuboidSupportPoint2 he1) P).1) :
    letI := fieldNum K sq
    letI := fieldCopysign K
    let s1 := (cuboidSupportMapOneway2 he1 (triSupportPoint2 a b c) P.inverse).1
    let s2 := (triangleSupportMapOneway2 a b c (cuboidSupportPoint2 he1) P).1
    let m' := cuboidTriangleFresh2 P.inverse P he1 a b c pred true m
    (pred < s1 ∨ pred < s2 → m' = m.clear ∧
      ∃ s n, pred < s ∧ SepExactS sq P (Triangle2.mk a b c).Mem (Cuboid2.mk he1).Mem s n) ∧
    (¬(pred < s1 ∨ pred < s2) →
      GoodManifold2 sq P (Triangle2.mk a b c).Mem (Cuboid2.mk he1).Mem m' ∧
      (m'.points.length = 0 ∨ m'.points.length = 2) ∧
      ∀ k ∈ m'.points, max s1 s2 ≤ k.dist) := by
  intro s1 s2 m'
  have hq' := C14.unitC_inverse sq P hq
  have hii := inverse_inverse2 sq P hq
  obtain ⟨d1, -⟩ := cuboidSupportMapOneway2_spec sq (@Iso2.inverse K (fieldNum K sq) P) he1 h1x h1y _ _ (C14.tri_isSupport sq a b c)
  obtain ⟨d2, -⟩ := triangleSupportMapOneway2_spec sq hs P a b c _ _ (C14.cuboid_isSupport sq he1 h1x h1y)
  -- separations in the frame of the cuboid (pose `P⁻¹`) ...
  have E1 := d1.resolve_left (fun d => by rw [d] at hs1; exact lt_irrefl _ hs1)
  have T2 := d2.resolve_left (fun d => by rw [d] at hs2; exact lt_irrefl _ hs2)
  have E2 := C14.sepExactS_flip sq (@Iso2.inverse K (fieldNum K sq) P) hq' _ _ _ _ (by rw [hii]; exact T2)
  -- ... and in the frame of the triangle (pose `P`)
  have F1 := C14.sepExactS_flip sq P hq _ _ _ _ E1
  have c3 : ¬ pred < -(@fmax K (fieldNum K sq)) := by
    have := C14.fmax_nonneg sq (K := K)
    intro h; linarith
  have fin : ∀ (s : K) (n : V2 K), SepExactS sq (@Iso2.inverse K (fieldNum K sq) P) (@Cuboid2.Mem K (fieldNum K sq) (Cuboid2.mk he1))
      (@Triangle2.Mem K (fieldNum K sq) (Triangle2.mk a b c)) s n →
      let r := @cuboidTriangleAssemble2 K (fieldNum K sq) (fieldCopysign K) (@Iso2.inverse K (fieldNum K sq) P) P he1 a b c n true m
      GoodManifold2 sq P (@Triangle2.Mem K (fieldNum K sq) (Triangle2.mk a b c)) (@Cuboid2.Mem K (fieldNum K sq) (Cuboid2.mk he1)) r ∧
      (r.points.length = 0 ∨ r.points.length = 2) ∧ ∀ k ∈ r.points, s ≤ k.dist := by
    intro s n hE r
    obtain ⟨g, hl⟩ := cuboidTriangleAssemble2_flipped_spec sq P hq he1 a b c n h1x h1y hE.1 m
    refine ⟨g, hl, ?_⟩
    obtain ⟨g0, -, -⟩ := cuboidTriangleAssemble2_spec sq (@Iso2.inverse K (fieldNum K sq) P) hq' he1 a b c n h1x h1y hE.1 m
    rw [hii] at g0
    have hn1 : (@cuboidTriangleAssemble2 K (fieldNum K sq) (fieldCopysign K) (@Iso2.inverse K (fieldNum K sq) P) P he1 a b c n false m).n1 = n := by
      obtain ⟨a1, b1, e1, -, -⟩ := cuboidSupportFace2_mem sq he1 n h1x h1y
      obtain ⟨x, y, e2, -⟩ := C14.triSupportFace2_cases sq a b c (@Iso2.rot K (fieldNum K sq) P (@V2.neg K (fieldNum K sq) n))
      simp only [cuboidTriangleAssemble2]
      rw [e1, e2]
      simp [polyContacts2]
    intro k hk
    simp only [r] at hk
    rw [assemble_flipped_eq sq P he1 a b c n h1x h1y m] at hk
    simp only [Manifold2.swap, List.mem_map] at hk
    obtain ⟨k0, hk0, rfl⟩ := hk
    obtain ⟨hd, hp1, hp2⟩ := g0.2.2.2 k0 hk0
    simp only [Contact2.swap]
    rw [hd, hn1]
    exact hE.2.1 _ _ hp1 hp2
  refine ⟨?_, ?_⟩
  · intro h
    by_cases c1 : pred < s1
    · refine ⟨?_, s1, _, c1, F1⟩
      simp only [m', cuboidTriangleFresh2]
      rw [if_pos c1]
    · have c2 : pred < s2 := by tauto
      refine ⟨?_, s2, _, c2, T2⟩
      simp only [m', cuboidTriangleFresh2]
      rw [if_neg c1, if_pos c2]
  · intro h
    push Not at h
    obtain ⟨c1, c2⟩ := h
    simp only [m', cuboidTriangleFresh2]
    rw [if_neg (not_lt.mpr c1), if_neg (not_lt.mpr c2), if_neg c3]
    by_cases hb : s1 < s2
    · rw [if_pos ⟨hb, hs2⟩, max_eq_right (le_of_lt hb)]
      exact fin s2 _ E2
    · rw [if_neg (fun h => hb h.1), if_neg (not_lt.mpr (le_of_lt hs1)), max_eq_left (not_lt.mp hb)]
      exact fin s1 _ E1

end C14
