import ParryModel.Field
import ParryModel.C14.Model
/-! # C14 helper lemmas: rotation algebra of the nalgebra layer at the lawful instance. -/
namespace C14
open Model

variable {K : Type} [Field K] [LinearOrder K] [IsStrictOrderedRing K] (sq : K → K)

/-- the rotation part of a 3-D isometry is a unit quaternion -/
def UnitQ (m : Iso3 K) : Prop := m.qi * m.qi + m.qj * m.qj + m.qk * m.qk + m.qw * m.qw = 1
/-- the rotation part of a 2-D isometry is a unit complex number -/
def UnitC (m : Iso2 K) : Prop := m.re * m.re + m.im * m.im = 1

theorem V3.ext' {a b : V3 K} (hx : a.x = b.x) (hy : a.y = b.y) (hz : a.z = b.z) : a = b := by
  cases a; cases b; simp_all
theorem V2.ext' {a b : V2 K} (hx : a.x = b.x) (hy : a.y = b.y) : a = b := by
  cases a; cases b; simp_all

theorem rot_invRot3 (m : Iso3 K) (v : V3 K) (h : UnitQ m) :
    letI := fieldNum K sq
    m.rot (m.invRot v) = v := by
  unfold UnitQ at h
  apply V3.ext' <;>
    simp only [Iso3.rot, Iso3.invRot, Iso3.rotQ, Iso3.qv, V3.neg, V3.add, V3.smul, V3.cross, fieldNum_two]
  · linear_combination (4 * (m.qi * m.qi + m.qj * m.qj + m.qk * m.qk) * v.x
      - 4 * (m.qi * v.x + m.qj * v.y + m.qk * v.z) * m.qi) * h
  · linear_combination (4 * (m.qi * m.qi + m.qj * m.qj + m.qk * m.qk) * v.y
      - 4 * (m.qi * v.x + m.qj * v.y + m.qk * v.z) * m.qj) * h
  · linear_combination (4 * (m.qi * m.qi + m.qj * m.qj + m.qk * m.qk) * v.z
      - 4 * (m.qi * v.x + m.qj * v.y + m.qk * v.z) * m.qk) * h

theorem invRot_rot3 (m : Iso3 K) (v : V3 K) (h : UnitQ m) :
    letI := fieldNum K sq
    m.invRot (m.rot v) = v := by
  unfold UnitQ at h
  apply V3.ext' <;>
    simp only [Iso3.rot, Iso3.invRot, Iso3.rotQ, Iso3.qv, V3.neg, V3.add, V3.smul, V3.cross, fieldNum_two]
  · linear_combination (4 * (m.qi * m.qi + m.qj * m.qj + m.qk * m.qk) * v.x
      - 4 * (m.qi * v.x + m.qj * v.y + m.qk * v.z) * m.qi) * h
  · linear_combination (4 * (m.qi * m.qi + m.qj * m.qj + m.qk * m.qk) * v.y
      - 4 * (m.qi * v.x + m.qj * v.y + m.qk * v.z) * m.qj) * h
  · linear_combination (4 * (m.qi * m.qi + m.qj * m.qj + m.qk * m.qk) * v.z
      - 4 * (m.qi * v.x + m.qj * v.y + m.qk * v.z) * m.qk) * h

/-- rotations preserve dot products -/
theorem rot_dot3 (m : Iso3 K) (u v : V3 K) (h : UnitQ m) :
    letI := fieldNum K sq
    (m.rot u).dot (m.rot v) = u.dot v := by
  unfold UnitQ at h
  simp only [Iso3.rot, Iso3.rotQ, Iso3.qv, V3.dot, V3.add, V3.smul, V3.cross, fieldNum_two]
  linear_combination (-4 * ((m.qi * u.x + m.qj * u.y + m.qk * u.z) * (m.qi * v.x + m.qj * v.y + m.qk * v.z)
      - (m.qi * m.qi + m.qj * m.qj + m.qk * m.qk) * (u.x * v.x + u.y * v.y + u.z * v.z))) * h

theorem invRot_dot3 (m : Iso3 K) (u v : V3 K) (h : UnitQ m) :
    letI := fieldNum K sq
    (m.invRot u).dot (m.invRot v) = u.dot v := by
  unfold UnitQ at h
  simp only [Iso3.invRot, Iso3.rotQ, Iso3.qv, V3.dot, V3.neg, V3.add, V3.smul, V3.cross, fieldNum_two]
  linear_combination (-4 * ((m.qi * u.x + m.qj * u.y + m.qk * u.z) * (m.qi * v.x + m.qj * v.y + m.qk * v.z)
      - (m.qi * m.qi + m.qj * m.qj + m.qk * m.qk) * (u.x * v.x + u.y * v.y + u.z * v.z))) * h

theorem rot_neg3 (m : Iso3 K) (v : V3 K) :
    letI := fieldNum K sq
    m.rot v.neg = (m.rot v).neg := by
  apply V3.ext' <;>
    simp only [Iso3.rot, Iso3.rotQ, Iso3.qv, V3.neg, V3.add, V3.smul, V3.cross, fieldNum_two] <;> ring

theorem rot_smul3 (m : Iso3 K) (v : V3 K) (s : K) :
    letI := fieldNum K sq
    m.rot (v.smul s) = (m.rot v).smul s := by
  apply V3.ext' <;>
    simp only [Iso3.rot, Iso3.rotQ, Iso3.qv, V3.add, V3.smul, V3.cross, fieldNum_two] <;> ring

theorem rot_sub3 (m : Iso3 K) (u v : V3 K) :
    letI := fieldNum K sq
    m.rot (u.sub v) = (m.rot u).sub (m.rot v) := by
  apply V3.ext' <;>
    simp only [Iso3.rot, Iso3.rotQ, Iso3.qv, V3.add, V3.sub, V3.smul, V3.cross, fieldNum_two] <;> ring

/-- `pos12.inverse()` acts as the inverse map -/
theorem inverse_act3 (m : Iso3 K) (p : V3 K) :
    letI := fieldNum K sq
    m.inverse.act p = m.invRot (p.sub m.t) := by
  apply V3.ext' <;>
    simp only [Iso3.inverse, Iso3.act, Iso3.rot, Iso3.invRot, Iso3.rotQ, Iso3.qv, V3.neg, V3.add, V3.sub, V3.smul,
      V3.cross, fieldNum_two] <;> ring

theorem inverse_rot3 (m : Iso3 K) (v : V3 K) :
    letI := fieldNum K sq
    m.inverse.rot v = m.invRot v := by
  apply V3.ext' <;>
    simp only [Iso3.inverse, Iso3.rot, Iso3.invRot, Iso3.rotQ, Iso3.qv, V3.neg, V3.add, V3.smul, V3.cross,
      fieldNum_two]

theorem inverse_invRot3 (m : Iso3 K) (v : V3 K) :
    letI := fieldNum K sq
    m.inverse.invRot v = m.rot v := by
  apply V3.ext' <;>
    simp only [Iso3.inverse, Iso3.rot, Iso3.invRot, Iso3.rotQ, Iso3.qv, V3.neg, V3.add, V3.smul, V3.cross,
      fieldNum_two, neg_neg]

theorem normSq_nonneg3 (v : V3 K) : letI := fieldNum K sq; 0 ≤ v.normSq := by
  simp only [V3.normSq, V3.dot]; nlinarith [mul_self_nonneg v.x, mul_self_nonneg v.y, mul_self_nonneg v.z]

/-- `v / |v|` is a unit vector and `v · (v/|v|) = |v|` when `|v| ≠ 0` -/
theorem normalize3 (hs : LawfulSqrt sq) (v : V3 K) (h : letI := fieldNum K sq; v.norm ≠ 0) :
    letI := fieldNum K sq
    (v.sdiv v.norm).dot (v.sdiv v.norm) = 1 ∧ v.dot (v.sdiv v.norm) = v.norm := by
  have hn := hs.sq_mul _ (normSq_nonneg3 sq v)
  simp only [V3.norm, fieldNum_sqrt] at h ⊢
  set c := sq (@V3.normSq K (fieldNum K sq) v) with hc
  simp only [V3.normSq, V3.dot] at hn
  simp only [V3.dot, V3.sdiv]
  constructor
  · field_simp; linear_combination (-1 : K) * hn
  · field_simp; linear_combination (-1 : K) * hn

theorem norm_zero3 (hs : LawfulSqrt sq) (v : V3 K) (h : letI := fieldNum K sq; v.norm = 0) :
    v = ⟨0, 0, 0⟩ := by
  have hn := hs.sq_mul _ (normSq_nonneg3 sq v)
  simp only [V3.norm, fieldNum_sqrt] at h
  rw [h] at hn
  simp only [V3.normSq, V3.dot] at hn
  have hx : v.x = 0 := by nlinarith [mul_self_nonneg v.x, mul_self_nonneg v.y, mul_self_nonneg v.z]
  have hy : v.y = 0 := by nlinarith [mul_self_nonneg v.x, mul_self_nonneg v.y, mul_self_nonneg v.z]
  have hz : v.z = 0 := by nlinarith [mul_self_nonneg v.x, mul_self_nonneg v.y, mul_self_nonneg v.z]
  exact V3.ext' hx hy hz

/-- the common shape of the ball-type contacts: unit `n1`, `n2 = pos12⁻¹(−n1)`, witnesses `n1 r1`, `n2 r2`. -/
theorem ball_contact3 (pos12 : Iso3 K) (hq : UnitQ pos12) (n1 : V3 K) (r1 r2 : K)
    (hn : letI := fieldNum K sq; n1.dot n1 = 1) :
    letI := fieldNum K sq
    let n2 := pos12.invRot n1.neg
    n2.dot n2 = 1 ∧ pos12.rot n2 = n1.neg ∧
    (∀ p1 : V3 K, ((pos12.act (n2.smul r2)).sub p1).dot n1 = (pos12.t.sub p1).dot n1 - r2) ∧
    (pos12.t.sub (n1.smul r1)).dot n1 = pos12.t.dot n1 - r1 ∧
    (n1.smul r1).normSq = r1 * r1 ∧ (n2.smul r2).normSq = r2 * r2 := by
  intro n2
  have h2 : @V3.dot K (fieldNum K sq) n2 n2 = 1 := by
    have := invRot_dot3 sq pos12 (@V3.neg K (fieldNum K sq) n1) (@V3.neg K (fieldNum K sq) n1) hq
    rw [this]; simp only [V3.dot, V3.neg] at hn ⊢; linear_combination hn
  have h3 := rot_invRot3 sq pos12 (@V3.neg K (fieldNum K sq) n1) hq
  refine ⟨h2, h3, ?_, ?_, ?_, ?_⟩
  · intro p1
    have : @Iso3.act K (fieldNum K sq) pos12 (@V3.smul K (fieldNum K sq) n2 r2)
        = @V3.add K (fieldNum K sq) (@V3.smul K (fieldNum K sq) (@V3.neg K (fieldNum K sq) n1) r2) pos12.t := by
      simp only [Iso3.act]; rw [rot_smul3, h3]
    rw [this]
    simp only [V3.dot, V3.neg, V3.add, V3.sub, V3.smul] at hn ⊢
    linear_combination (-r2) * hn
  · simp only [V3.dot, V3.sub, V3.smul] at hn ⊢
    linear_combination (-r1) * hn
  · simp only [V3.normSq, V3.dot, V3.smul] at hn ⊢; linear_combination (r1 * r1) * hn
  · simp only [V3.normSq, V3.dot, V3.smul] at h2 ⊢; linear_combination (r2 * r2) * h2

theorem sqrt_zero (hs : LawfulSqrt sq) : sq 0 = 0 := by
  have := hs.sq_mul 0 le_rfl
  exact mul_self_eq_zero.mp this

/-- `Unit::try_new_and_get(v, 0)`: a unit vector and the norm, or `v = 0`. -/
theorem tryNormalize3_some (hs : LawfulSqrt sq) (v n : V3 K) (d : K)
    (h : letI := fieldNum K sq; tryNormalize3 v = some (n, d)) :
    letI := fieldNum K sq
    n.dot n = 1 ∧ v.dot n = d ∧ d = v.norm := by
  simp only [tryNormalize3, zero_mul] at h
  split_ifs at h with hpos
  simp only [Option.some.injEq, Prod.mk.injEq] at h
  obtain ⟨h1, h2⟩ := h
  have hne : @V3.norm K (fieldNum K sq) v ≠ 0 := by
    intro hz
    have := hs.sq_mul _ (normSq_nonneg3 sq v)
    simp only [V3.norm, fieldNum_sqrt] at hz
    rw [hz] at this; simp at this
    rw [← this] at hpos; exact lt_irrefl _ hpos
  obtain ⟨a, b⟩ := normalize3 sq hs v hne
  subst h1; subst h2
  exact ⟨a, b, rfl⟩

theorem tryNormalize3_none (v : V3 K)
    (h : letI := fieldNum K sq; tryNormalize3 v = none) : v = ⟨0, 0, 0⟩ := by
  simp only [tryNormalize3, zero_mul] at h
  split_ifs at h with hpos
  push Not at hpos
  simp only [V3.normSq, V3.dot] at hpos
  have hx : v.x = 0 := by nlinarith [mul_self_nonneg v.x, mul_self_nonneg v.y, mul_self_nonneg v.z]
  have hy : v.y = 0 := by nlinarith [mul_self_nonneg v.x, mul_self_nonneg v.y, mul_self_nonneg v.z]
  have hz : v.z = 0 := by nlinarith [mul_self_nonneg v.x, mul_self_nonneg v.y, mul_self_nonneg v.z]
  exact V3.ext' hx hy hz

/-- the contact normal of `contact_manifold_convex_ball` before the inside flip: a unit vector `n` and
`e = |dpos| = dpos·n` (with `e = 0` in the degenerate fallback). -/
theorem contactNormal3_spec (hs : LawfulSqrt sq) (dpos t : V3 K) :
    letI := fieldNum K sq
    (contactNormal3 dpos t).1.dot (contactNormal3 dpos t).1 = 1 ∧
    dpos.dot (contactNormal3 dpos t).1 = (contactNormal3 dpos t).2 ∧
    (contactNormal3 dpos t).2 = dpos.norm := by
  cases h1 : @tryNormalize3 K (fieldNum K sq) dpos with
  | some x =>
    obtain ⟨a, b, c⟩ := tryNormalize3_some sq hs _ x.1 x.2 h1
    simp only [contactNormal3, h1]
    exact ⟨a, b, c⟩
  | none =>
    have hz := tryNormalize3_none sq _ h1
    have hnorm : @V3.norm K (fieldNum K sq) dpos = 0 := by
      rw [hz]
      show sq _ = 0
      simp [V3.normSq, V3.dot, sqrt_zero sq hs]
    cases h2 : @tryNormalize3 K (fieldNum K sq) t with
    | some y =>
      obtain ⟨a, _, _⟩ := tryNormalize3_some sq hs _ y.1 y.2 h2
      simp only [contactNormal3, h1, h2]
      refine ⟨a, ?_, hnorm.symm⟩
      rw [hz]; simp [V3.dot]
    | none =>
      simp only [contactNormal3, h1, h2]
      refine ⟨by simp [V3.dot], ?_, hnorm.symm⟩
      rw [hz]; simp [V3.dot]

theorem unitQ_inverse (m : Iso3 K) (h : UnitQ m) : letI := fieldNum K sq; UnitQ m.inverse := by
  unfold UnitQ at h ⊢
  simp only [Iso3.inverse, Iso3.qv, V3.neg]
  linear_combination h

/-- `((m·y) − x)·n = (y − m⁻¹x)·(m⁻¹n)` for an isometry with unit rotation -/
theorem act_sub_dot3 (m : Iso3 K) (hq : UnitQ m) (x y n : V3 K) :
    letI := fieldNum K sq
    ((m.act y).sub x).dot n = (y.sub (m.invRot (x.sub m.t))).dot (m.invRot n) := by
  have h1 := rot_invRot3 sq m (@V3.sub K (fieldNum K sq) x m.t) hq
  have h2 := rot_invRot3 sq m n hq
  have h3 := rot_dot3 sq m (@V3.sub K (fieldNum K sq) y (@Iso3.invRot K (fieldNum K sq) m (@V3.sub K (fieldNum K sq) x m.t)))
    (@Iso3.invRot K (fieldNum K sq) m n) hq
  rw [rot_sub3, h1, h2] at h3
  rw [← h3]
  simp only [Iso3.act, V3.dot, V3.sub, V3.add]
  ring


/-- `copysign` at the lawful instance (no signed zero in a field: `copysign a 0 = |a|`) -/
@[reducible] def fieldCopysign (K : Type) [Field K] [LinearOrder K] [IsStrictOrderedRing K] : HasCopysign K :=
  ⟨fun a b => if b < 0 then -|a| else |a|⟩

end C14
