import ParryModel.C14.Theorems2
import ParryModel.C14.Model3
/-!
# C14 property theorems, part 4 (round fu5): 2-D `contact_manifold_cuboid_cuboid`

* `cuboidSupportPoint2_spec` — `Cuboid::local_support_point` is a point of the cuboid that maximises `·dir` over the cuboid.
* `satOneway2_spec` — `cuboid_cuboid_find_local_separating_normal_oneway`: the returned value is EXACTLY the separation of the two
  cuboids along the returned axis (a lower bound of `(y − x)·axis` over all point pairs, attained by a pair), the axis being a
  signed coordinate axis of cuboid 1.
* `faceFace2_spec` — `PolygonalFeature::face_face_contacts`: 0 or 2 contacts, witnesses on the two faces, the `dist` identity,
  witnesses facing each other along the normal.
* `cuboidCuboidFresh2_spec` — the generator after a failed warm start: cleared ⇒ a unit axis separates the cuboids by more than the
  prediction; otherwise unit, exactly opposite normals, at most two contacts with witnesses IN the cuboids, the `dist` identity, and
  no contact deeper than the SAT separation along the manifold normal.
-/
namespace C14
open Model

variable {K : Type} [Field K] [LinearOrder K] [IsStrictOrderedRing K] (sq : K → K)

/-! ## algebra of 2-D isometries (local copies; the ones of `Theorems2` are private) -/

private theorem rot_invRot2' (m : Iso2 K) (v : V2 K) (h : UnitC m) :
    letI := fieldNum K sq
    m.rot (m.invRot v) = v := by
  unfold UnitC at h
  apply V2.ext' <;> simp only [Iso2.rot, Iso2.invRot]
  · linear_combination v.x * h
  · linear_combination v.y * h

private theorem act_invAct2' (m : Iso2 K) (p : V2 K) (h : UnitC m) :
    letI := fieldNum K sq
    m.act (m.invAct p) = p := by
  have := rot_invRot2' sq m (@V2.sub K (fieldNum K sq) p m.t) h
  simp only [Iso2.act, Iso2.invAct]
  rw [this]
  apply V2.ext' <;> simp only [V2.add, V2.sub] <;> ring

private theorem invAct_act2' (m : Iso2 K) (p : V2 K) (h : UnitC m) :
    letI := fieldNum K sq
    m.invAct (m.act p) = p := by
  unfold UnitC at h
  apply V2.ext' <;> simp only [Iso2.act, Iso2.invAct, Iso2.rot, Iso2.invRot, V2.add, V2.sub]
  · linear_combination p.x * h
  · linear_combination p.y * h

private theorem inverse_act2 (m : Iso2 K) (p : V2 K) :
    letI := fieldNum K sq
    m.inverse.act p = m.invAct p := by
  apply V2.ext' <;> simp only [Iso2.inverse, Iso2.act, Iso2.invAct, Iso2.rot, Iso2.invRot, V2.add, V2.sub, V2.neg] <;> ring

private theorem inverse_rot2 (m : Iso2 K) (v : V2 K) :
    letI := fieldNum K sq
    m.inverse.rot v = m.invRot v := by
  apply V2.ext' <;> simp only [Iso2.inverse, Iso2.rot, Iso2.invRot]

protected theorem unitC_inverse (m : Iso2 K) (h : UnitC m) : letI := fieldNum K sq; UnitC m.inverse := by
  unfold UnitC at *
  simp only [Iso2.inverse]
  linear_combination h

private theorem act_lerp2' (m : Iso2 K) (a b : V2 K) (u : K) :
    letI := fieldNum K sq
    m.act (a.add ((b.sub a).smul u)) = (m.act a).add (((m.act b).sub (m.act a)).smul u) := by
  apply V2.ext' <;> simp only [Iso2.act, Iso2.rot, V2.add, V2.sub, V2.smul] <;> ring

private theorem seg_mem_invAct' (m : Iso2 K) (hq : UnitC m) (a b y : V2 K)
    (h : letI := fieldNum K sq; (Segment2.mk (m.act a) (m.act b)).Mem y) :
    letI := fieldNum K sq; (Segment2.mk a b).Mem (m.invAct y) := by
  obtain ⟨t, h0, h1, rfl⟩ := h
  refine ⟨t, h0, h1, ?_⟩
  rw [← act_lerp2', invAct_act2' sq m _ hq]

/-- a cuboid is convex: it contains the segment between two of its points -/
private theorem cuboid_convex (he a b p : V2 K)
    (ha : letI := fieldNum K sq; (Cuboid2.mk he).Mem a) (hb : letI := fieldNum K sq; (Cuboid2.mk he).Mem b)
    (hp : letI := fieldNum K sq; (Segment2.mk a b).Mem p) :
    letI := fieldNum K sq; (Cuboid2.mk he).Mem p := by
  obtain ⟨t, h0, h1, rfl⟩ := hp
  simp only [Cuboid2.Mem, V2.add, V2.sub, V2.smul] at *
  obtain ⟨⟨a1, a2⟩, a3, a4⟩ := ha
  obtain ⟨⟨b1, b2⟩, b3, b4⟩ := hb
  have h1' : 0 ≤ 1 - t := by linarith
  refine ⟨⟨?_, ?_⟩, ?_, ?_⟩
  · nlinarith [mul_nonneg h0 (sub_nonneg.mpr b1), mul_nonneg h1' (sub_nonneg.mpr a1)]
  · nlinarith [mul_nonneg h0 (sub_nonneg.mpr b2), mul_nonneg h1' (sub_nonneg.mpr a2)]
  · nlinarith [mul_nonneg h0 (sub_nonneg.mpr b3), mul_nonneg h1' (sub_nonneg.mpr a3)]
  · nlinarith [mul_nonneg h0 (sub_nonneg.mpr b4), mul_nonneg h1' (sub_nonneg.mpr a4)]

/-! ## `Cuboid::local_support_point` and the 2-D support face -/

/-- **`Cuboid::local_support_point`** returns a point of the cuboid whose scalar product with `dir` is maximal over the cuboid. -/
theorem cuboidSupportPoint2_spec (he dir : V2 K) (hx : 0 ≤ he.x) (hy : 0 ≤ he.y) :
    letI := fieldNum K sq
    letI := fieldCopysign K
    (Cuboid2.mk he).Mem (cuboidSupportPoint2 he dir) ∧
    ∀ q, (Cuboid2.mk he).Mem q → q.dot dir ≤ (cuboidSupportPoint2 he dir).dot dir := by
  simp only [cuboidSupportPoint2, HasCopysign.copysign, Cuboid2.Mem, V2.dot, abs_of_nonneg hx, abs_of_nonneg hy]
  refine ⟨?_, ?_⟩
  · split_ifs <;> refine ⟨⟨?_, ?_⟩, ?_, ?_⟩ <;> linarith
  · rintro q ⟨⟨q1, q2⟩, q3, q4⟩
    split_ifs with h1 h2 h2
    · nlinarith [mul_nonneg (sub_nonneg.mpr q1) (le_of_lt (neg_pos.mpr h1)), mul_nonneg (sub_nonneg.mpr q3) (le_of_lt (neg_pos.mpr h2))]
    · nlinarith [mul_nonneg (sub_nonneg.mpr q1) (le_of_lt (neg_pos.mpr h1)), mul_nonneg (sub_nonneg.mpr q4) (not_lt.mp h2)]
    · nlinarith [mul_nonneg (sub_nonneg.mpr q2) (not_lt.mp h1), mul_nonneg (sub_nonneg.mpr q3) (le_of_lt (neg_pos.mpr h2))]
    · nlinarith [mul_nonneg (sub_nonneg.mpr q2) (not_lt.mp h1), mul_nonneg (sub_nonneg.mpr q4) (not_lt.mp h2)]

/-- both vertices of the 2-D `Cuboid::support_face` are points of the cuboid, for every direction -/
theorem cuboidSupportFace2_mem (he dir : V2 K) (hx : 0 ≤ he.x) (hy : 0 ≤ he.y) :
    letI := fieldNum K sq
    letI := fieldCopysign K
    ∃ a b, cuboidSupportFace2 he dir = [a, b] ∧ (Cuboid2.mk he).Mem a ∧ (Cuboid2.mk he).Mem b := by
  refine ⟨_, _, rfl, ?_, ?_⟩ <;>
    (simp only [iamin2, HasCopysign.copysign, Cuboid2.Mem, V2.get, V2.set, V2.zero, abs_of_nonneg hx, abs_of_nonneg hy]
     split_ifs <;> simp_all <;> rw [abs_of_nonneg (by assumption)] <;> constructor <;> linarith)

/-! ## SAT: `cuboid_cuboid_find_local_separating_normal_oneway` -/

/-- `s` is EXACTLY the separation of cuboid 1 and the transformed cuboid 2 along the unit axis `n` (frame of cuboid 1):
`s ≤ (pos12·y − x)·n` for all points `x` of cuboid 1 and `y` of cuboid 2, with equality for some pair. In particular, if `s > 0`
the cuboids are disjoint and at distance at least `s`; if `s ≤ 0` they cannot be separated along `n` by less than `−s`. -/
def SepExact (pos12 : Iso2 K) (he1 he2 : V2 K) (s : K) (n : V2 K) : Prop :=
  letI := fieldNum K sq
  n.dot n = 1 ∧
  (∀ x y, (Cuboid2.mk he1).Mem x → (Cuboid2.mk he2).Mem y → s ≤ ((pos12.act y).sub x).dot n) ∧
  ∃ x y, (Cuboid2.mk he1).Mem x ∧ (Cuboid2.mk he2).Mem y ∧ s = ((pos12.act y).sub x).dot n

private theorem rot_dot_invRot (m : Iso2 K) (y a : V2 K) :
    letI := fieldNum K sq
    (m.rot y).dot a = y.dot (m.invRot a) := by
  simp only [Iso2.rot, Iso2.invRot, V2.dot]; ring

private theorem rot_dot_axis (m : Iso2 K) (y a : V2 K) :
    letI := fieldNum K sq
    (m.rot y).dot a = -(y.dot (m.invRot a.neg)) := by
  simp only [Iso2.rot, Iso2.invRot, V2.dot, V2.neg]; ring

/-- one candidate axis `±e_i` of the SAT loop -/
private theorem satAxis_spec (pos12 : Iso2 K) (he1 he2 : V2 K) (h1x : 0 ≤ he1.x) (h1y : 0 ≤ he1.y)
    (h2x : 0 ≤ he2.x) (h2y : 0 ≤ he2.y) (i : Nat) (sign : K) (hs : sign = 1 ∨ sign = -1) :
    letI := fieldNum K sq
    letI := fieldCopysign K
    let axis1 : V2 K := V2.zero.set i sign
    let axis2 := pos12.invRot axis1.neg
    let pt2 := pos12.act (cuboidSupportPoint2 he2 axis2)
    SepExact sq pos12 he1 he2 (pt2.get i * sign - he1.get i) axis1 := by
  intro axis1 axis2 pt2
  have hss : sign * sign = 1 := by rcases hs with h | h <;> rw [h] <;> ring
  obtain ⟨hm, hmax⟩ := cuboidSupportPoint2_spec sq he2 axis2 h2x h2y
  by_cases hi : i = 0
  · subst hi
    refine ⟨?_, ?_, ?_⟩
    · simp only [axis1, V2.set, V2.zero, V2.dot, if_true]; linear_combination hss
    · intro x y hx hy
      have h1 := hmax y hy
      obtain ⟨⟨x1, x2⟩, -, -⟩ := hx
      simp only [axis1, axis2, pt2, V2.set, V2.zero, V2.get, if_true, V2.dot, V2.sub, V2.neg, Iso2.act, V2.add,
        Iso2.rot, Iso2.invRot] at h1 x1 x2 ⊢
      rcases hs with h | h <;> subst h <;> linarith
    · refine ⟨⟨sign * he1.x, 0⟩, _, ?_, hm, ?_⟩
      · simp only [Cuboid2.Mem]
        rcases hs with h | h <;> subst h <;> refine ⟨⟨?_, ?_⟩, ?_, ?_⟩ <;> linarith
      · simp only [axis1, pt2, V2.set, V2.zero, V2.get, if_true, V2.dot, V2.sub]
        linear_combination he1.x * hss
  · refine ⟨?_, ?_, ?_⟩
    · simp only [axis1, V2.set, V2.zero, V2.dot, hi, if_false]; linear_combination hss
    · intro x y hx hy
      have h1 := hmax y hy
      obtain ⟨-, x1, x2⟩ := hx
      simp only [axis1, axis2, pt2, V2.set, V2.zero, V2.get, hi, if_false, V2.dot, V2.sub, V2.neg, Iso2.act, V2.add,
        Iso2.rot, Iso2.invRot] at h1 x1 x2 ⊢
      rcases hs with h | h <;> subst h <;> linarith
    · refine ⟨⟨0, sign * he1.y⟩, _, ?_, hm, ?_⟩
      · simp only [Cuboid2.Mem]
        rcases hs with h | h <;> subst h <;> refine ⟨⟨?_, ?_⟩, ?_, ?_⟩ <;> linarith
      · simp only [axis1, pt2, V2.set, V2.zero, V2.get, hi, if_false, V2.dot, V2.sub]
        linear_combination he1.y * hss

private theorem copysign_one (b : K) :
    (fieldCopysign K).copysign (1 : K) b = 1 ∨ (fieldCopysign K).copysign (1 : K) b = -1 := by
  simp only [HasCopysign.copysign, abs_one]; split_ifs <;> simp

/-- **`cuboid_cuboid_find_local_separating_normal_oneway`** (2-D).  Unless no candidate exceeded the initial `-Real::MAX`, the
returned pair `(separation, axis)` is an exact separation along a unit axis (a signed coordinate axis of cuboid 1); the returned
value is never below `-Real::MAX`. -/
theorem satOneway2_spec (pos12 : Iso2 K) (he1 he2 : V2 K) (h1x : 0 ≤ he1.x) (h1y : 0 ≤ he1.y)
    (h2x : 0 ≤ he2.x) (h2y : 0 ≤ he2.y) :
    letI := fieldNum K sq
    letI := fieldCopysign K
    ((satOneway2 he1 he2 pos12 = (-fmax, V2.zero)) ∨
      SepExact sq pos12 he1 he2 (satOneway2 he1 he2 pos12).1 (satOneway2 he1 he2 pos12).2) ∧
    -fmax ≤ (satOneway2 he1 he2 pos12).1 := by
  have s0 := satAxis_spec sq pos12 he1 he2 h1x h1y h2x h2y 0 _ (copysign_one (pos12.t.get 0))
  have s1 := satAxis_spec sq pos12 he1 he2 h1x h1y h2x h2y 1 _ (copysign_one (pos12.t.get 1))
  simp only [satOneway2, satStep2]
  split_ifs with a b b
  · exact ⟨Or.inr s1, le_of_lt (lt_trans a b)⟩
  · exact ⟨Or.inr s0, le_of_lt a⟩
  · exact ⟨Or.inr s1, le_of_lt b⟩
  · exact ⟨Or.inl rfl, le_rfl⟩

/-! ## `PolygonalFeature::face_face_contacts` (2-D) -/

/-- what `face_face_contacts` promises for one contact: witnesses on the two faces (face 2 in the frame of shape 2), the `dist`
identity, and witnesses facing each other along the normal (equal tangent coordinate) -/
def FaceContact2 (pos12 : Iso2 K) (a1 b1 n1 a2 b2 : V2 K) (c : Contact2 K) : Prop :=
  letI := fieldNum K sq
  (Segment2.mk a1 b1).Mem c.p1 ∧ (Segment2.mk a2 b2).Mem c.p2 ∧
  c.dist = ((pos12.act c.p2).sub c.p1).dot n1 ∧
  ((pos12.act c.p2).sub c.p1).dot ⟨-n1.y, n1.x⟩ = 0

private theorem clipGood_contact (pos12 : Iso2 K) (hq : UnitC pos12) (a1 b1 n1 a2 b2 : V2 K) (c : ClipPt K)
    (h : letI := fieldNum K sq; ClipGood sq ⟨-n1.y, n1.x⟩ a1 b1 (pos12.act a2) (pos12.act b2) c) :
    letI := fieldNum K sq
    FaceContact2 sq pos12 a1 b1 n1 a2 b2 (Contact2.flipped c.p1 (pos12.invAct c.p2) ((c.p2.sub c.p1).dot n1) false) := by
  obtain ⟨h1, h2, h3⟩ := h
  simp only [FaceContact2, Contact2.flipped, Bool.not_false, if_true]
  rw [act_invAct2' sq pos12 _ hq]
  refine ⟨h1, seg_mem_invAct' sq pos12 hq a2 b2 _ h2, rfl, ?_⟩
  simp only [V2.dot, V2.sub] at h3 ⊢
  linear_combination -h3

/-- **`PolygonalFeature::face_face_contacts`** (2-D, `flipped = false`): no contact or two; each has its first witness on face 1,
its second witness on face 2, `dist = (pos12·local_p2 − local_p1)·normal`, and the two witnesses face each other along the normal. -/
theorem faceFace2_spec (pos12 : Iso2 K) (hq : UnitC pos12) (a1 b1 n1 a2 b2 : V2 K) :
    letI := fieldNum K sq
    ((faceFace2 pos12 a1 b1 n1 a2 b2 false).length = 0 ∨ (faceFace2 pos12 a1 b1 n1 a2 b2 false).length = 2) ∧
    ∀ c ∈ faceFace2 pos12 a1 b1 n1 a2 b2 false, FaceContact2 sq pos12 a1 b1 n1 a2 b2 c := by
  simp only [faceFace2]
  cases h : @clipSegSegWithNormal K (fieldNum K sq) a1 b1 (@Iso2.act K (fieldNum K sq) pos12 a2)
      (@Iso2.act K (fieldNum K sq) pos12 b2) n1 with
  | none => simp
  | some p =>
    obtain ⟨ca, cb⟩ := p
    obtain ⟨ga, gb⟩ := clipSegSegWithNormal_spec sq a1 b1 _ _ n1 ca cb h
    refine ⟨Or.inr rfl, ?_⟩
    intro c hc
    simp only [List.mem_cons, List.not_mem_nil, or_false] at hc
    rcases hc with rfl | rfl
    · exact clipGood_contact sq pos12 hq a1 b1 n1 a2 b2 ca ga
    · exact clipGood_contact sq pos12 hq a1 b1 n1 a2 b2 cb gb

/-! ## `contact_manifold_cuboid_cuboid` (2-D) after a failed warm start -/

protected theorem fmax_nonneg : letI := fieldNum K sq; (0 : K) ≤ fmax :=
  Rat.cast_nonneg.mpr (Int.cast_nonneg (Int.natCast_nonneg _))

private theorem flip_dot (m : Iso2 K) (h : UnitC m) (x y n : V2 K) :
    letI := fieldNum K sq
    ((m.act y).sub x).dot (m.rot n.neg) = ((m.inverse.act x).sub y).dot n := by
  unfold UnitC at h
  simp only [Iso2.inverse, Iso2.act, Iso2.rot, V2.add, V2.sub, V2.neg, V2.dot]
  linear_combination (-(y.x * n.x + y.y * n.y)) * h

/-- a separation found with the roles of the cuboids exchanged (axis in the frame of cuboid 2) is the same separation along
`pos12 * -axis` in the frame of cuboid 1 — the `best_sep = (sep2.0, pos12 * -sep2.1)` step -/
private theorem sepExact_flip (pos12 : Iso2 K) (hq : UnitC pos12) (he1 he2 : V2 K) (s : K) (n : V2 K)
    (h : letI := fieldNum K sq; SepExact sq pos12.inverse he2 he1 s n) :
    letI := fieldNum K sq
    SepExact sq pos12 he1 he2 s (pos12.rot n.neg) := by
  obtain ⟨hn, hall, x, y, hx, hy, he⟩ := h
  refine ⟨?_, ?_, ?_⟩
  · unfold UnitC at hq
    simp only [Iso2.rot, V2.neg, V2.dot] at hn ⊢
    linear_combination (n.x * n.x + n.y * n.y) * hq + hn
  · intro x' y' hx' hy'
    rw [flip_dot sq pos12 hq]
    exact hall y' x' hy' hx'
  · refine ⟨y, x, hy, hx, ?_⟩
    rw [flip_dot sq pos12 hq]
    exact he

/-- the property's clauses for the manifold assembled from a reference axis with exact separation `s` -/
def CuboidManifoldGood (pos12 : Iso2 K) (he1 he2 : V2 K) (s : K) (m' : Manifold2 K) : Prop :=
  letI := fieldNum K sq
  GoodManifold2 sq pos12 (Cuboid2.mk he1).Mem (Cuboid2.mk he2).Mem m' ∧
  (m'.points.length = 0 ∨ m'.points.length = 2) ∧
  SepExact sq pos12 he1 he2 s m'.n1 ∧
  ∀ c ∈ m'.points, s ≤ c.dist ∧ ((pos12.act c.p2).sub c.p1).dot ⟨-m'.n1.y, m'.n1.x⟩ = 0

private theorem core (pos12 : Iso2 K) (hq : UnitC pos12) (he1 he2 : V2 K) (s : K) (n : V2 K)
    (hE : letI := fieldNum K sq; SepExact sq pos12 he1 he2 s n) (a1 b1 a2 b2 : V2 K)
    (ha1 : letI := fieldNum K sq; (Cuboid2.mk he1).Mem a1) (hb1 : letI := fieldNum K sq; (Cuboid2.mk he1).Mem b1)
    (ha2 : letI := fieldNum K sq; (Cuboid2.mk he2).Mem a2) (hb2 : letI := fieldNum K sq; (Cuboid2.mk he2).Mem b2) :
    letI := fieldNum K sq
    CuboidManifoldGood sq pos12 he1 he2 s ⟨faceFace2 pos12 a1 b1 n a2 b2 false, n, pos12.inverse.rot n.neg⟩ := by
  obtain ⟨hlen, hc⟩ := faceFace2_spec sq pos12 hq a1 b1 n a2 b2
  have hn := hE.1
  refine ⟨⟨hn, ?_, ?_, ?_⟩, hlen, hE, ?_⟩
  · unfold UnitC at hq
    simp only [Iso2.inverse, Iso2.rot, V2.neg, V2.dot] at hn ⊢
    linear_combination (n.x * n.x + n.y * n.y) * hq + hn
  · show @Iso2.rot K (fieldNum K sq) pos12 (@Iso2.rot K (fieldNum K sq) (@Iso2.inverse K (fieldNum K sq) pos12)
      (@V2.neg K (fieldNum K sq) n)) = @V2.neg K (fieldNum K sq) n
    rw [inverse_rot2, rot_invRot2' sq pos12 _ hq]
  · intro c hcm
    obtain ⟨h1, h2, h3, -⟩ := hc c hcm
    exact ⟨h3, cuboid_convex sq he1 a1 b1 _ ha1 hb1 h1, cuboid_convex sq he2 a2 b2 _ ha2 hb2 h2⟩
  · intro c hcm
    obtain ⟨h1, h2, h3, h4⟩ := hc c hcm
    refine ⟨?_, h4⟩
    rw [h3]
    exact hE.2.1 _ _ (cuboid_convex sq he1 a1 b1 _ ha1 hb1 h1) (cuboid_convex sq he2 a2 b2 _ ha2 hb2 h2)

private theorem core' (pos12 : Iso2 K) (hq : UnitC pos12) (he1 he2 : V2 K)
    (h1x : 0 ≤ he1.x) (h1y : 0 ≤ he1.y) (h2x : 0 ≤ he2.x) (h2y : 0 ≤ he2.y) (s : K) (n : V2 K) (m : Manifold2 K)
    (hE : letI := fieldNum K sq; SepExact sq pos12 he1 he2 s n) :
    letI := fieldNum K sq
    letI := fieldCopysign K
    CuboidManifoldGood sq pos12 he1 he2 s
      (match cuboidSupportFace2 he1 n, cuboidSupportFace2 he2 (pos12.inverse.rot n.neg) with
       | [a1, b1], [a2, b2] => ⟨faceFace2 pos12 a1 b1 n a2 b2 false, n, pos12.inverse.rot n.neg⟩
       | _, _ => m) := by
  obtain ⟨a1, b1, e1, ha1, hb1⟩ := cuboidSupportFace2_mem sq he1 n h1x h1y
  obtain ⟨a2, b2, e2, ha2, hb2⟩ := cuboidSupportFace2_mem sq he2
    (@Iso2.rot K (fieldNum K sq) (@Iso2.inverse K (fieldNum K sq) pos12) (@V2.neg K (fieldNum K sq) n)) h2x h2y
  rw [e1, e2]
  exact core sq pos12 hq he1 he2 s n hE a1 b1 a2 b2 ha1 hb1 ha2 hb2

/-- **`contact_manifold_cuboid_cuboid` (2-D), everything after a failed warm start.**  For every pose with a unit rotation, all
non-negative half-extents and every prediction `≥ 0` (the two hypotheses on `-Real::MAX` hold whenever the SAT loop saw a finite
separation, see `satOneway2_gt`):
* if one of the two one-way separations exceeds the prediction, the manifold is cleared, and the cuboids ARE separated by more
  than the prediction along a unit axis (so their distance exceeds the prediction);
* otherwise the manifold has unit normals with `pos12·n2 = −n1` exactly, no contact or two contacts, each with
  `dist = (pos12·local_p2 − local_p1)·n1`, `local_p1` in cuboid 1, `local_p2` in cuboid 2, witnesses facing each other along the
  normal; the normal `n1` is an axis along which the exact separation of the cuboids is the larger of the two SAT values, and no
  contact is reported deeper than that separation. -/
theorem cuboidCuboidFresh2_spec (pos12 : Iso2 K) (hq : UnitC pos12) (he1 he2 : V2 K)
    (h1x : 0 ≤ he1.x) (h1y : 0 ≤ he1.y) (h2x : 0 ≤ he2.x) (h2y : 0 ≤ he2.y) (pred : K) (hp : 0 ≤ pred) (m : Manifold2 K)
    (hs1 : letI := fieldNum K sq; letI := fieldCopysign K; -fmax < (satOneway2 he1 he2 pos12).1)
    (hs2 : letI := fieldNum K sq; letI := fieldCopysign K; -fmax < (satOneway2 he2 he1 pos12.inverse).1) :
    letI := fieldNum K sq
    letI := fieldCopysign K
    let s1 := (satOneway2 he1 he2 pos12).1
    let s2 := (satOneway2 he2 he1 pos12.inverse).1
    let m' := cuboidCuboidFresh2 pos12 he1 he2 pred m
    (pred < s1 ∨ pred < s2 → m' = m.clear ∧ ∃ s n, pred < s ∧ SepExact sq pos12 he1 he2 s n) ∧
    (¬(pred < s1 ∨ pred < s2) → CuboidManifoldGood sq pos12 he1 he2 (max s1 s2) m') := by
  intro s1 s2 m'
  have hq' := C14.unitC_inverse sq pos12 hq
  obtain ⟨d1, -⟩ := satOneway2_spec sq pos12 he1 he2 h1x h1y h2x h2y
  obtain ⟨d2, -⟩ := satOneway2_spec sq (@Iso2.inverse K (fieldNum K sq) pos12) he2 he1 h2x h2y h1x h1y
  have E1 := d1.resolve_left (fun d => by rw [d] at hs1; exact lt_irrefl _ hs1)
  have E2 := sepExact_flip sq pos12 hq he1 he2 _ _ (d2.resolve_left (fun d => by rw [d] at hs2; exact lt_irrefl _ hs2))
  have c3 : ¬ pred < -(@fmax K (fieldNum K sq)) := by
    have := C14.fmax_nonneg sq (K := K)
    intro h; linarith
  refine ⟨?_, ?_⟩
  · intro h
    by_cases c1 : pred < s1
    · refine ⟨?_, s1, _, c1, E1⟩
      simp only [m', cuboidCuboidFresh2]
      rw [if_pos c1]
    · have c2 : pred < s2 := by tauto
      refine ⟨?_, s2, _, c2, E2⟩
      simp only [m', cuboidCuboidFresh2]
      rw [if_neg c1, if_pos c2]
  · intro h
    push Not at h
    obtain ⟨c1, c2⟩ := h
    simp only [m', cuboidCuboidFresh2]
    rw [if_neg (not_lt.mpr c1), if_neg (not_lt.mpr c2), if_neg c3]
    simp only [bestSep2]
    by_cases hb : s1 < s2
    · rw [if_pos ⟨hb, hs2⟩, max_eq_right (le_of_lt hb)]
      exact core' sq pos12 hq he1 he2 h1x h1y h2x h2y s2 _ m E2
    · rw [if_neg (fun h => hb h.1), if_neg (not_lt.mpr (le_of_lt hs1)), max_eq_left (not_lt.mp hb)]
      exact core' sq pos12 hq he1 he2 h1x h1y h2x h2y s1 _ m E1

/-! ## the `-Real::MAX` hypotheses, the warm-start composition, non-vacuity -/

private theorem rot_x_bound (m : Iso2 K) (h : UnitC m) (p : V2 K) :
    letI := fieldNum K sq;
    -(abs p.x + abs p.y) ≤ (m.rot p).x ∧ (m.rot p).x ≤ abs p.x + abs p.y ∧
    -(abs p.x + abs p.y) ≤ (m.rot p).y ∧ (m.rot p).y ≤ abs p.x + abs p.y := by
  unfold UnitC at h
  have hre : abs m.re ≤ 1 := by
    apply abs_le.mpr; constructor <;> nlinarith [mul_self_nonneg m.im, mul_self_nonneg (m.re - 1), mul_self_nonneg (m.re + 1)]
  have him : abs m.im ≤ 1 := by
    apply abs_le.mpr; constructor <;> nlinarith [mul_self_nonneg m.re, mul_self_nonneg (m.im - 1), mul_self_nonneg (m.im + 1)]
  have a1 : abs (m.re * p.x) ≤ abs p.x := by rw [abs_mul]; nlinarith [abs_nonneg p.x, abs_nonneg m.re]
  have a2 : abs (m.im * p.y) ≤ abs p.y := by rw [abs_mul]; nlinarith [abs_nonneg p.y, abs_nonneg m.im]
  have a3 : abs (m.im * p.x) ≤ abs p.x := by rw [abs_mul]; nlinarith [abs_nonneg p.x, abs_nonneg m.im]
  have a4 : abs (m.re * p.y) ≤ abs p.y := by rw [abs_mul]; nlinarith [abs_nonneg p.y, abs_nonneg m.re]
  simp only [Iso2.rot]
  have := abs_le.mp a1; have := abs_le.mp a2; have := abs_le.mp a3; have := abs_le.mp a4
  refine ⟨?_, ?_, ?_, ?_⟩ <;> linarith

/-- the hypothesis `-Real::MAX < separation` of `cuboidCuboidFresh2_spec` holds for all cuboids whose half-extents sum to less
than `Real::MAX` (every finite input of the valid domain) -/
theorem satOneway2_gt (pos12 : Iso2 K) (hq : UnitC pos12) (he1 he2 : V2 K) (h1x : 0 ≤ he1.x) (h1y : 0 ≤ he1.y)
    (h2x : 0 ≤ he2.x) (h2y : 0 ≤ he2.y)
    (hsz : letI := fieldNum K sq; he1.x + he1.y + he2.x + he2.y < fmax) :
    letI := fieldNum K sq
    letI := fieldCopysign K;
    -fmax < (satOneway2 he1 he2 pos12).1 := by
  -- the first candidate already exceeds `-(he2.x + he2.y) - he1.x`
  have key : ∀ dir : V2 K, -(he2.x + he2.y) ≤ (@Iso2.rot K (fieldNum K sq) pos12
      (@cuboidSupportPoint2 K (fieldCopysign K) he2 dir)).x ∧ (@Iso2.rot K (fieldNum K sq) pos12
      (@cuboidSupportPoint2 K (fieldCopysign K) he2 dir)).x ≤ he2.x + he2.y := by
    intro dir
    obtain ⟨b1, b2, -, -⟩ := rot_x_bound sq pos12 hq (@cuboidSupportPoint2 K (fieldCopysign K) he2 dir)
    obtain ⟨⟨⟨m1, m2⟩, m3, m4⟩, -⟩ := cuboidSupportPoint2_spec sq he2 dir h2x h2y
    have e1 : abs (@cuboidSupportPoint2 K (fieldCopysign K) he2 dir).x ≤ he2.x := abs_le.mpr ⟨m1, m2⟩
    have e2 : abs (@cuboidSupportPoint2 K (fieldCopysign K) he2 dir).y ≤ he2.y := abs_le.mpr ⟨m3, m4⟩
    constructor <;> linarith
  simp only [satOneway2, satStep2]
  have k := key (@Iso2.invRot K (fieldNum K sq) pos12 (@V2.neg K (fieldNum K sq) (@V2.set K (@V2.zero K (fieldNum K sq)) 0
    ((fieldCopysign K).copysign 1 (pos12.t.get 0)))))
  have c0 : -(@fmax K (fieldNum K sq)) < (@V2.get K (@Iso2.act K (fieldNum K sq) pos12 (@cuboidSupportPoint2 K (fieldCopysign K) he2
      (@Iso2.invRot K (fieldNum K sq) pos12 (@V2.neg K (fieldNum K sq) (@V2.set K (@V2.zero K (fieldNum K sq)) 0
      ((fieldCopysign K).copysign 1 (pos12.t.get 0))))))) 0) * (fieldCopysign K).copysign 1 (pos12.t.get 0) - he1.get 0 := by
    simp only [HasCopysign.copysign, abs_one, V2.get, Iso2.act, V2.add, if_true] at k ⊢
    split_ifs at k ⊢ with h <;> linarith [k.1, k.2]
  split_ifs with a b b
  · exact lt_trans a b
  · exact a
  · exact absurd c0 a
  · exact absurd c0 a

/-- **`contact_manifold_cuboid_cuboid` (2-D) as a whole**: either the warm start succeeded and the result is exactly the manifold
`try_update_contacts` produced (then `tuc2Default_sound` applies: same normals, cosine test, every contact re-measured with the
`dist` identity, bounded motion), or it is the fresh computation `cuboidCuboidFresh2` (then `cuboidCuboidFresh2_spec` applies). -/
theorem cuboidCuboid2_cases (pos12 : Iso2 K) (he1 he2 : V2 K) (pred : K) (m : Manifold2 K) :
    letI := fieldNum K sq
    letI := fieldCopysign K
    ((tuc2Default pos12 m).1 = true ∧ cuboidCuboid2 pos12 he1 he2 pred m = (tuc2Default pos12 m).2) ∨
    ((tuc2Default pos12 m).1 = false ∧
      cuboidCuboid2 pos12 he1 he2 pred m = cuboidCuboidFresh2 pos12 he1 he2 pred (tuc2Default pos12 m).2) := by
  simp only [cuboidCuboid2]
  cases h : (@tuc2Default K (fieldNum K sq) pos12 m).1 <;> simp

/-- **`cuboidCuboidFresh2_spec` on the valid domain**: the same conclusion with the two `-Real::MAX` hypotheses replaced by
"the half-extents sum to less than `Real::MAX`". -/
theorem cuboidCuboidFresh2_domain (pos12 : Iso2 K) (hq : UnitC pos12) (he1 he2 : V2 K)
    (h1x : 0 ≤ he1.x) (h1y : 0 ≤ he1.y) (h2x : 0 ≤ he2.x) (h2y : 0 ≤ he2.y) (pred : K) (hp : 0 ≤ pred) (m : Manifold2 K)
    (hsz : letI := fieldNum K sq; he1.x + he1.y + he2.x + he2.y < fmax) :
    letI := fieldNum K sq
    letI := fieldCopysign K
    let s1 := (satOneway2 he1 he2 pos12).1
    let s2 := (satOneway2 he2 he1 pos12.inverse).1
    let m' := cuboidCuboidFresh2 pos12 he1 he2 pred m
    (pred < s1 ∨ pred < s2 → m' = m.clear ∧ ∃ s n, pred < s ∧ SepExact sq pos12 he1 he2 s n) ∧
    (¬(pred < s1 ∨ pred < s2) → CuboidManifoldGood sq pos12 he1 he2 (max s1 s2) m') :=
  cuboidCuboidFresh2_spec sq pos12 hq he1 he2 h1x h1y h2x h2y pred hp m
    (satOneway2_gt sq pos12 hq he1 he2 h1x h1y h2x h2y hsz)
    (satOneway2_gt sq _ (C14.unitC_inverse sq pos12 hq) he2 he1 h2x h2y h1x h1y (by linarith))

/-! ### non-vacuity, evaluated over `ℚ`

Cuboid 1 = `[-1,1]²`, cuboid 2 = half-extents `(1/2, 1/2)` rotated by `(3/5, 4/5)` (≈ 53°) with centre `(2, 1/2)`: the SAT
separations are `3/10` (axis `+x` of cuboid 1) and `-3/10` (axes of cuboid 2).  Prediction `1/4`: cleared.  Prediction `1/2`: two
contacts on the face `x = 1`, the corner of cuboid 2 at gap `3/10` and the clipped end of its face at gap `3/4`.
With the roles exchanged (pose inverted) the reference axis comes from the SECOND cuboid (`best_sep = (sep2.0, pos12 * -sep2.1)`):
normal `(-3/5, 4/5)`, same two gaps. -/
private def exBoxA (pred : ℚ) : Manifold2 ℚ :=
  cuboidCuboidFresh2 ⟨3/5, 4/5, ⟨2, 1/2⟩⟩ ⟨1, 1⟩ ⟨1/2, 1/2⟩ pred Manifold2.new
private def exBoxB : Manifold2 ℚ :=
  cuboidCuboidFresh2 ⟨3/5, -4/5, ⟨-8/5, 13/10⟩⟩ ⟨1/2, 1/2⟩ ⟨1, 1⟩ (1/2) Manifold2.new

set_option exponentiation.threshold 2000 in
/-- the hypotheses of `cuboidCuboidFresh2_domain` / `satOneway2_spec` / `faceFace2_spec` are satisfiable; the cleared branch, the
contact branch with the reference axis from cuboid 1, and the contact branch with the reference axis from cuboid 2 are all reached -/
example : UnitC (⟨3/5, 4/5, ⟨2, 1/2⟩⟩ : Iso2 ℚ) ∧ UnitC (⟨3/5, -4/5, ⟨-8/5, 13/10⟩⟩ : Iso2 ℚ) ∧
    (1 : ℚ) + 1 + 1/2 + 1/2 < fmax ∧
    (fun r : ℚ × V2 ℚ => (r.1, r.2.x, r.2.y)) (satOneway2 (⟨1, 1⟩ : V2 ℚ) ⟨1/2, 1/2⟩ ⟨3/5, 4/5, ⟨2, 1/2⟩⟩) = (3/10, 1, 0) ∧
    (exBoxA (1/4)).points.length = 0 ∧
    (exBoxA (1/2)).points.map (fun c => (c.p1.x, c.p1.y, c.p2.x, c.p2.y, c.dist)) =
      [(1, 2/5, -1/2, 1/2, 3/10), (1, 1, 1/4, 1/2, 3/4)] ∧
    (fun m : Manifold2 ℚ => (m.n1.x, m.n1.y, m.n2.x, m.n2.y)) (exBoxA (1/2)) = (1, 0, -3/5, 4/5) ∧
    exBoxB.points.map (fun c => (c.p1.x, c.p1.y, c.p2.x, c.p2.y, c.dist)) =
      [(1/4, 1/2, 1, 1, 3/4), (-1/2, 1/2, 1, 2/5, 3/10)] ∧
    (fun m : Manifold2 ℚ => (m.n1.x, m.n1.y, m.n2.x, m.n2.y)) exBoxB = (-3/5, 4/5, 1, 0) := by
  refine ⟨by norm_num [UnitC], by norm_num [UnitC], by norm_num [fmax, Num.ofRat], ?_, ?_, ?_, ?_, ?_, ?_⟩ <;> decide +kernel

/-! ## 2-D `contact_manifold_cuboid_triangle`: the triangle's support point, and the contact assembly for a given normal -/

private theorem convex_le (w u v d1 d2 d3 M : K) (hw : 0 ≤ w) (hu : 0 ≤ u) (hv : 0 ≤ v) (hsum : w + u + v = 1)
    (h1 : d1 ≤ M) (h2 : d2 ≤ M) (h3 : d3 ≤ M) : w * d1 + u * d2 + v * d3 ≤ M := by
  have e : M = w * M + u * M + v * M := by rw [← add_mul, ← add_mul, hsum, one_mul]
  nlinarith [mul_nonneg hw (sub_nonneg.mpr h1), mul_nonneg hu (sub_nonneg.mpr h2), mul_nonneg hv (sub_nonneg.mpr h3)]

/-- **`Triangle::local_support_point`** returns a vertex of the triangle whose scalar product with `dir` is maximal over the
whole triangle. -/
theorem triSupportPoint2_spec (a b c dir : V2 K) :
    letI := fieldNum K sq
    (triSupportPoint2 a b c dir = a ∨ triSupportPoint2 a b c dir = b ∨ triSupportPoint2 a b c dir = c) ∧
    ∀ p, (Triangle2.mk a b c).Mem p → p.dot dir ≤ (triSupportPoint2 a b c dir).dot dir := by
  refine ⟨?_, ?_⟩
  · simp only [triSupportPoint2]; split_ifs <;> simp
  · rintro p ⟨u, v, hu, hv, huv, rfl⟩
    have hw : 0 ≤ 1 - u - v := by linarith
    have key : ∀ M : K, a.x * dir.x + a.y * dir.y ≤ M → b.x * dir.x + b.y * dir.y ≤ M → c.x * dir.x + c.y * dir.y ≤ M →
        (a.x + (b.x - a.x) * u + (c.x - a.x) * v) * dir.x + (a.y + (b.y - a.y) * u + (c.y - a.y) * v) * dir.y ≤ M := by
      intro M h1 h2 h3
      have := convex_le (1 - u - v) u v _ _ _ M hw hu hv (by ring) h1 h2 h3
      linarith
    simp only [triSupportPoint2]
    split_ifs with h1 h2 h3 <;> simp only [V2.dot, V2.add, V2.sub, V2.smul] at * <;> apply key <;> linarith

private theorem tri_edge_mem (a b c p : V2 K) :
    letI := fieldNum K sq
    ((Segment2.mk a b).Mem p → (Triangle2.mk a b c).Mem p) ∧ ((Segment2.mk b c).Mem p → (Triangle2.mk a b c).Mem p) ∧
    ((Segment2.mk c a).Mem p → (Triangle2.mk a b c).Mem p) := by
  refine ⟨?_, ?_, ?_⟩
  · rintro ⟨t, h0, h1, rfl⟩
    exact ⟨t, 0, h0, le_rfl, by linarith, by apply V2.ext' <;> simp only [V2.add, V2.sub, V2.smul] <;> ring⟩
  · rintro ⟨t, h0, h1, rfl⟩
    exact ⟨1 - t, t, by linarith, h0, by linarith, by apply V2.ext' <;> simp only [V2.add, V2.sub, V2.smul] <;> ring⟩
  · rintro ⟨t, h0, h1, rfl⟩
    exact ⟨0, 1 - t, le_rfl, by linarith, by linarith, by apply V2.ext' <;> simp only [V2.add, V2.sub, V2.smul] <;> ring⟩

/-- the 2-D `Triangle::support_face` is one of the three edges, for every direction -/
protected theorem triSupportFace2_cases (a b c dir : V2 K) :
    letI := fieldNum K sq
    ∃ x y, triSupportFace2 a b c dir = [x, y] ∧ ∀ p, (Segment2.mk x y).Mem p → (Triangle2.mk a b c).Mem p := by
  obtain ⟨e1, e2, e3⟩ : True ∧ True ∧ True := ⟨trivial, trivial, trivial⟩
  simp only [triSupportFace2]
  split_ifs
  · exact ⟨a, b, rfl, fun p => (tri_edge_mem sq a b c p).1⟩
  · exact ⟨b, c, rfl, fun p => (tri_edge_mem sq a b c p).2.1⟩
  · exact ⟨c, a, rfl, fun p => (tri_edge_mem sq a b c p).2.2⟩

/-- **The contact assembly of `contact_manifold_cuboid_triangle` (2-D, cuboid first, no normal constraints)** for ANY unit
reference normal: unit normals with `pos12·n2 = −n1` exactly, no contact or two, each with the `dist` identity, `local_p1` in the
cuboid, `local_p2` in the triangle, witnesses facing each other along the normal. -/
theorem cuboidTriangleAssemble2_spec (pos12 : Iso2 K) (hq : UnitC pos12) (he1 a b c n1 : V2 K)
    (h1x : 0 ≤ he1.x) (h1y : 0 ≤ he1.y) (hn : letI := fieldNum K sq; n1.dot n1 = 1) (m : Manifold2 K) :
    letI := fieldNum K sq
    letI := fieldCopysign K
    let m' := cuboidTriangleAssemble2 pos12 pos12.inverse he1 a b c n1 false m
    GoodManifold2 sq pos12 (Cuboid2.mk he1).Mem (Triangle2.mk a b c).Mem m' ∧
    (m'.points.length = 0 ∨ m'.points.length = 2) ∧
    ∀ k ∈ m'.points, ((pos12.act k.p2).sub k.p1).dot ⟨-n1.y, n1.x⟩ = 0 := by
  intro m'
  obtain ⟨a1, b1, e1, ha1, hb1⟩ := cuboidSupportFace2_mem sq he1 n1 h1x h1y
  obtain ⟨x, y, e2, hxy⟩ := C14.triSupportFace2_cases sq a b c
    (@Iso2.rot K (fieldNum K sq) (@Iso2.inverse K (fieldNum K sq) pos12) (@V2.neg K (fieldNum K sq) n1))
  have em : m' = ⟨@faceFace2 K (fieldNum K sq) pos12 a1 b1 n1 x y false, n1,
      @Iso2.rot K (fieldNum K sq) (@Iso2.inverse K (fieldNum K sq) pos12) (@V2.neg K (fieldNum K sq) n1)⟩ := by
    simp only [m', cuboidTriangleAssemble2]
    rw [e1, e2]
    simp [polyContacts2]
  rw [em]
  obtain ⟨hlen, hc⟩ := faceFace2_spec sq pos12 hq a1 b1 n1 x y
  refine ⟨⟨hn, ?_, ?_, ?_⟩, hlen, ?_⟩
  · unfold UnitC at hq
    simp only [Iso2.inverse, Iso2.rot, V2.neg, V2.dot] at hn ⊢
    linear_combination (n1.x * n1.x + n1.y * n1.y) * hq + hn
  · show @Iso2.rot K (fieldNum K sq) pos12 (@Iso2.rot K (fieldNum K sq) (@Iso2.inverse K (fieldNum K sq) pos12)
      (@V2.neg K (fieldNum K sq) n1)) = @V2.neg K (fieldNum K sq) n1
    rw [inverse_rot2, rot_invRot2' sq pos12 _ hq]
  · intro k hk
    obtain ⟨h1, h2, h3, -⟩ := hc k hk
    exact ⟨h3, cuboid_convex sq he1 a1 b1 _ ha1 hb1 h1, hxy _ h2⟩
  · intro k hk
    exact (hc k hk).2.2.2

/-! ## SAT against a support map; `contact_manifold_cuboid_triangle` (2-D, cuboid first) after a failed warm start -/

/-- `supp` is a support function of the set `S`: it returns a point of `S` maximising `·dir` over `S` -/
def IsSupport (S : V2 K → Prop) (supp : V2 K → V2 K) : Prop :=
  letI := fieldNum K sq
  ∀ dir, S (supp dir) ∧ ∀ q, S q → q.dot dir ≤ (supp dir).dot dir

/-- `SepExact` for arbitrary sets: `s` is exactly the separation of `S1` and `pos12·S2` along the unit axis `n` -/
def SepExactS (pos12 : Iso2 K) (S1 S2 : V2 K → Prop) (s : K) (n : V2 K) : Prop :=
  letI := fieldNum K sq
  n.dot n = 1 ∧ (∀ x y, S1 x → S2 y → s ≤ ((pos12.act y).sub x).dot n) ∧
  ∃ x y, S1 x ∧ S2 y ∧ s = ((pos12.act y).sub x).dot n

/-- `support_map_support_map_compute_separation`: along a unit axis `n`, `(support₂(−n) − support₁(n))·n` is the exact separation -/
private theorem sep_support (pos12 : Iso2 K) (S1 S2 : V2 K → Prop) (supp1 supp2 : V2 K → V2 K)
    (h1 : IsSupport sq S1 supp1) (h2 : IsSupport sq S2 supp2) (n : V2 K)
    (hn : letI := fieldNum K sq; n.dot n = 1) :
    letI := fieldNum K sq
    SepExactS sq pos12 S1 S2 (((supportToward2 supp2 pos12 n.neg).sub (supp1 n)).dot n) n := by
  refine ⟨hn, ?_, ?_⟩
  · intro x y hx hy
    have a := (h1 n).2 x hx
    have b := (h2 (@Iso2.invRot K (fieldNum K sq) pos12 (@V2.neg K (fieldNum K sq) n))).2 y hy
    simp only [supportToward2, Iso2.act, Iso2.rot, Iso2.invRot, V2.add, V2.sub, V2.neg, V2.dot] at a b ⊢
    linarith
  · exact ⟨supp1 n, _, (h1 n).1, (h2 _).1, rfl⟩

protected theorem cuboid_isSupport (he : V2 K) (hx : 0 ≤ he.x) (hy : 0 ≤ he.y) :
    letI := fieldCopysign K
    IsSupport sq (@Cuboid2.Mem K (fieldNum K sq) (Cuboid2.mk he)) (cuboidSupportPoint2 he) :=
  fun dir => cuboidSupportPoint2_spec sq he dir hx hy

protected theorem tri_isSupport (a b c : V2 K) :
    IsSupport sq (@Triangle2.Mem K (fieldNum K sq) (Triangle2.mk a b c)) (@triSupportPoint2 K (fieldNum K sq) a b c) := by
  intro dir
  obtain ⟨hv, hmax⟩ := triSupportPoint2_spec sq a b c dir
  refine ⟨?_, hmax⟩
  have ma : @Triangle2.Mem K (fieldNum K sq) (Triangle2.mk a b c) a := (tri_edge_mem sq a b c a).1 ⟨0, le_rfl, zero_le_one, by
    apply V2.ext' <;> simp only [V2.add, V2.sub, V2.smul] <;> ring⟩
  have mb : @Triangle2.Mem K (fieldNum K sq) (Triangle2.mk a b c) b := (tri_edge_mem sq a b c b).2.1 ⟨0, le_rfl, zero_le_one, by
    apply V2.ext' <;> simp only [V2.add, V2.sub, V2.smul] <;> ring⟩
  have mc : @Triangle2.Mem K (fieldNum K sq) (Triangle2.mk a b c) c := (tri_edge_mem sq a b c c).2.2 ⟨0, le_rfl, zero_le_one, by
    apply V2.ext' <;> simp only [V2.add, V2.sub, V2.smul] <;> ring⟩
  rcases hv with h | h | h <;> rw [h] <;> assumption

/-- the loop invariant of the SAT searches: still the initial `(-Real::MAX, 0)`, or an exact separation -/
def SatInv (pos12 : Iso2 K) (S1 S2 : V2 K → Prop) (r : K × V2 K) : Prop :=
  letI := fieldNum K sq
  (r = (-fmax, V2.zero) ∨ SepExactS sq pos12 S1 S2 r.1 r.2) ∧ -fmax ≤ r.1

private theorem satSmStep2_inv (pos12 : Iso2 K) (he1 : V2 K) (h1x : 0 ≤ he1.x) (h1y : 0 ≤ he1.y) (S2 : V2 K → Prop)
    (supp2 : V2 K → V2 K) (h2 : IsSupport sq S2 supp2) (i : Nat) (sign : K) (hs : sign = 1 ∨ sign = -1) (best : K × V2 K)
    (hb : SatInv sq pos12 (@Cuboid2.Mem K (fieldNum K sq) (Cuboid2.mk he1)) S2 best) :
    letI := fieldNum K sq
    SatInv sq pos12 (Cuboid2.mk he1).Mem S2 (satSmStep2 he1 supp2 pos12 i sign best) := by
  simp only [satSmStep2]
  split_ifs with hlt
  · refine ⟨Or.inr ?_, le_trans hb.2 (le_of_lt hlt)⟩
    have hss : sign * sign = 1 := by rcases hs with h | h <;> rw [h] <;> ring
    have hu : (@V2.set K (@V2.zero K (fieldNum K sq)) i sign).x * (@V2.set K (@V2.zero K (fieldNum K sq)) i sign).x +
        (@V2.set K (@V2.zero K (fieldNum K sq)) i sign).y * (@V2.set K (@V2.zero K (fieldNum K sq)) i sign).y = 1 := by
      by_cases hi : i = 0 <;> simp [V2.set, V2.zero, hi, hss]
    have key := sep_support sq pos12 _ S2 _ supp2 (C14.cuboid_isSupport sq he1 h1x h1y) h2
      (@V2.set K (@V2.zero K (fieldNum K sq)) i sign) hu
    have e : (@V2.get K (@supportToward2 K (fieldNum K sq) supp2 pos12 (@V2.neg K (fieldNum K sq)
        (@V2.set K (@V2.zero K (fieldNum K sq)) i sign))) i) * sign - he1.get i =
        @V2.dot K (fieldNum K sq) (@V2.sub K (fieldNum K sq) (@supportToward2 K (fieldNum K sq) supp2 pos12 (@V2.neg K (fieldNum K sq)
        (@V2.set K (@V2.zero K (fieldNum K sq)) i sign))) (@cuboidSupportPoint2 K (fieldCopysign K) he1
        (@V2.set K (@V2.zero K (fieldNum K sq)) i sign))) (@V2.set K (@V2.zero K (fieldNum K sq)) i sign) := by
      by_cases hi : i = 0 <;> rcases hs with h | h <;> subst h <;>
        simp [V2.get, V2.set, V2.zero, V2.dot, V2.sub, cuboidSupportPoint2, HasCopysign.copysign, hi, abs_of_nonneg h1x,
          abs_of_nonneg h1y] <;> ring
    rw [e]; exact key
  · exact hb

/-- **`cuboid_support_map_find_local_separating_normal_oneway`** (2-D) against ANY shape given by a support function: the
result is the initial `(-Real::MAX, 0)` or an exact separation of the cuboid and the shape along a signed coordinate axis. -/
theorem cuboidSupportMapOneway2_spec (pos12 : Iso2 K) (he1 : V2 K) (h1x : 0 ≤ he1.x) (h1y : 0 ≤ he1.y) (S2 : V2 K → Prop)
    (supp2 : V2 K → V2 K) (h2 : IsSupport sq S2 supp2) :
    letI := fieldNum K sq
    SatInv sq pos12 (Cuboid2.mk he1).Mem S2 (cuboidSupportMapOneway2 he1 supp2 pos12) := by
  have p1 : (1 : K) = 1 ∨ (1 : K) = -1 := Or.inl rfl
  have m1 : (-1 : K) = 1 ∨ (-1 : K) = -1 := Or.inr rfl
  have h0 : SatInv sq pos12 (@Cuboid2.Mem K (fieldNum K sq) (Cuboid2.mk he1)) S2 (-(@fmax K (fieldNum K sq)), @V2.zero K (fieldNum K sq)) :=
    ⟨Or.inl rfl, le_rfl⟩
  simp only [cuboidSupportMapOneway2]
  exact satSmStep2_inv sq pos12 he1 h1x h1y S2 supp2 h2 1 1 p1 _
    (satSmStep2_inv sq pos12 he1 h1x h1y S2 supp2 h2 1 (-1) m1 _
      (satSmStep2_inv sq pos12 he1 h1x h1y S2 supp2 h2 0 1 p1 _
        (satSmStep2_inv sq pos12 he1 h1x h1y S2 supp2 h2 0 (-1) m1 _ h0)))

private theorem normSq_nonneg2' (v : V2 K) : letI := fieldNum K sq; 0 ≤ v.normSq := by
  simp only [V2.normSq, V2.dot]; nlinarith [mul_self_nonneg v.x, mul_self_nonneg v.y]

/-- `Unit::try_new(v, e) = Some(n)`: `n` is a unit vector -/
private theorem tryNew2_unit (hs : LawfulSqrt sq) (v n : V2 K) (e : K)
    (h : letI := fieldNum K sq; tryNew2 v e = some n) :
    letI := fieldNum K sq
    n.dot n = 1 := by
  simp only [tryNew2] at h
  split_ifs at h with hpos
  simp only [Option.some.injEq] at h
  have hn := hs.sq_mul _ (normSq_nonneg2' sq v)
  have hpos' : 0 < @V2.normSq K (fieldNum K sq) v := lt_of_le_of_lt (mul_self_nonneg e) hpos
  simp only [fieldNum_sqrt] at h
  set c := sq (@V2.normSq K (fieldNum K sq) v) with hc
  have hc0 : c ≠ 0 := by
    intro hz; rw [hz] at hn; simp at hn; rw [← hn] at hpos'; exact lt_irrefl _ hpos'
  subst h
  simp only [V2.normSq, V2.dot] at hn
  simp only [V2.dot, V2.sdiv]; field_simp; linear_combination (-1 : K) * hn

private theorem triEdgeStep2_inv (hs : LawfulSqrt sq) (pos12 : Iso2 K) (a b c : V2 K) (S2 : V2 K → Prop)
    (supp2 : V2 K → V2 K) (h2 : IsSupport sq S2 supp2) (ea eb : V2 K) (best : K × V2 K)
    (hb : SatInv sq pos12 (@Triangle2.Mem K (fieldNum K sq) (Triangle2.mk a b c)) S2 best) :
    letI := fieldNum K sq
    SatInv sq pos12 (Triangle2.mk a b c).Mem S2 (triEdgeStep2 a b c supp2 pos12 ea eb best) := by
  simp only [triEdgeStep2]
  cases hN : @segNormal2 K (fieldNum K sq) ea eb with
  | none => exact hb
  | some n =>
    simp only []
    have hu := tryNew2_unit sq hs _ n _ hN
    split_ifs with hlt
    · exact ⟨Or.inr (sep_support sq pos12 _ S2 _ supp2 (C14.tri_isSupport sq a b c) h2 n hu), le_trans hb.2 (le_of_lt hlt)⟩
    · exact hb

/-- **`triangle_support_map_find_local_separating_normal_oneway`** (2-D; `triangle_cuboid_…` is this function): the result is the
initial `(-Real::MAX, 0)` or an exact separation of the triangle and the other shape along the unit normal of an edge. -/
theorem triangleSupportMapOneway2_spec (hs : LawfulSqrt sq) (pos12 : Iso2 K) (a b c : V2 K) (S2 : V2 K → Prop)
    (supp2 : V2 K → V2 K) (h2 : IsSupport sq S2 supp2) :
    letI := fieldNum K sq
    SatInv sq pos12 (Triangle2.mk a b c).Mem S2 (triangleSupportMapOneway2 a b c supp2 pos12) := by
  have h0 : SatInv sq pos12 (@Triangle2.Mem K (fieldNum K sq) (Triangle2.mk a b c)) S2 (-(@fmax K (fieldNum K sq)), @V2.zero K (fieldNum K sq)) :=
    ⟨Or.inl rfl, le_rfl⟩
  simp only [triangleSupportMapOneway2]
  exact triEdgeStep2_inv sq hs pos12 a b c S2 supp2 h2 c a _
    (triEdgeStep2_inv sq hs pos12 a b c S2 supp2 h2 b c _ (triEdgeStep2_inv sq hs pos12 a b c S2 supp2 h2 a b _ h0))

protected theorem sepExactS_flip (pos12 : Iso2 K) (hq : UnitC pos12) (S1 S2 : V2 K → Prop) (s : K) (n : V2 K)
    (h : letI := fieldNum K sq; SepExactS sq pos12.inverse S2 S1 s n) :
    letI := fieldNum K sq
    SepExactS sq pos12 S1 S2 s (pos12.rot n.neg) := by
  obtain ⟨hn, hall, x, y, hx, hy, he⟩ := h
  refine ⟨?_, ?_, ?_⟩
  · unfold UnitC at hq
    simp only [Iso2.rot, V2.neg, V2.dot] at hn ⊢
    linear_combination (n.x * n.x + n.y * n.y) * hq + hn
  · intro x' y' hx' hy'
    rw [flip_dot sq pos12 hq]
    exact hall y' x' hy' hx'
  · refine ⟨y, x, hy, hx, ?_⟩
    rw [flip_dot sq pos12 hq]
    exact he

/-- **`contact_manifold_cuboid_triangle` (2-D, cuboid first, no normal constraints) after a failed warm start.**
If one of the two SAT passes exceeds the prediction the manifold is cleared and the shapes ARE separated by more than the prediction
along a unit axis; otherwise: unit normals with `pos12·n2 = −n1` exactly, no contact or two, each with the `dist` identity,
`local_p1` in the cuboid, `local_p2` in the triangle, witnesses facing each other; `n1` is an axis along which the exact separation
of the two shapes is the larger SAT value, and no contact is deeper than that. -/
theorem cuboidTriangleFresh2_spec (hs : LawfulSqrt sq) (pos12 : Iso2 K) (hq : UnitC pos12) (he1 a b c : V2 K)
    (h1x : 0 ≤ he1.x) (h1y : 0 ≤ he1.y) (pred : K) (hp : 0 ≤ pred) (m : Manifold2 K)
    (hs1 : letI := fieldNum K sq; -fmax < (cuboidSupportMapOneway2 he1 (triSupportPoint2 a b c) pos12).1)
    (hs2 : letI := fieldNum K sq; letI := fieldCopysign K;
      -fmax < (triangleSupportMapOneway2 a b c (cuboidSupportPoint2 he1) pos12.inverse).1) :
    letI := fieldNum K sq
    letI := fieldCopysign K
    let s1 := (cuboidSupportMapOneway2 he1 (triSupportPoint2 a b c) pos12).1
    let s2 := (triangleSupportMapOneway2 a b c (cuboidSupportPoint2 he1) pos12.inverse).1
    let m' := cuboidTriangleFresh2 pos12 pos12.inverse he1 a b c pred false m
    (pred < s1 ∨ pred < s2 → m' = m.clear ∧
      ∃ s n, pred < s ∧ SepExactS sq pos12 (Cuboid2.mk he1).Mem (Triangle2.mk a b c).Mem s n) ∧
    (¬(pred < s1 ∨ pred < s2) →
      GoodManifold2 sq pos12 (Cuboid2.mk he1).Mem (Triangle2.mk a b c).Mem m' ∧
      (m'.points.length = 0 ∨ m'.points.length = 2) ∧
      SepExactS sq pos12 (Cuboid2.mk he1).Mem (Triangle2.mk a b c).Mem (max s1 s2) m'.n1 ∧
      ∀ k ∈ m'.points, max s1 s2 ≤ k.dist) := by
  intro s1 s2 m'
  have hq' := C14.unitC_inverse sq pos12 hq
  obtain ⟨d1, -⟩ := cuboidSupportMapOneway2_spec sq pos12 he1 h1x h1y _ _ (C14.tri_isSupport sq a b c)
  obtain ⟨d2, -⟩ := triangleSupportMapOneway2_spec sq hs (@Iso2.inverse K (fieldNum K sq) pos12) a b c _ _
    (C14.cuboid_isSupport sq he1 h1x h1y)
  have E1 := d1.resolve_left (fun d => by rw [d] at hs1; exact lt_irrefl _ hs1)
  have E2 := C14.sepExactS_flip sq pos12 hq _ _ _ _ (d2.resolve_left (fun d => by rw [d] at hs2; exact lt_irrefl _ hs2))
  have c3 : ¬ pred < -(@fmax K (fieldNum K sq)) := by
    have := C14.fmax_nonneg sq (K := K)
    intro h; linarith
  -- what the assembly gives for a reference normal with exact separation `s`
  have fin : ∀ (s : K) (n : V2 K), SepExactS sq pos12 (@Cuboid2.Mem K (fieldNum K sq) (Cuboid2.mk he1))
      (@Triangle2.Mem K (fieldNum K sq) (Triangle2.mk a b c)) s n →
      let r := @cuboidTriangleAssemble2 K (fieldNum K sq) (fieldCopysign K) pos12 (@Iso2.inverse K (fieldNum K sq) pos12) he1 a b c n false m
      GoodManifold2 sq pos12 (@Cuboid2.Mem K (fieldNum K sq) (Cuboid2.mk he1)) (@Triangle2.Mem K (fieldNum K sq) (Triangle2.mk a b c)) r ∧
      (r.points.length = 0 ∨ r.points.length = 2) ∧
      SepExactS sq pos12 (@Cuboid2.Mem K (fieldNum K sq) (Cuboid2.mk he1)) (@Triangle2.Mem K (fieldNum K sq) (Triangle2.mk a b c)) s r.n1 ∧
      ∀ k ∈ r.points, s ≤ k.dist := by
    intro s n hE r
    obtain ⟨g, hl, -⟩ := cuboidTriangleAssemble2_spec sq pos12 hq he1 a b c n h1x h1y hE.1 m
    have hn1 : r.n1 = n := by
      obtain ⟨a1, b1, e1, -, -⟩ := cuboidSupportFace2_mem sq he1 n h1x h1y
      obtain ⟨x, y, e2, -⟩ := C14.triSupportFace2_cases sq a b c
        (@Iso2.rot K (fieldNum K sq) (@Iso2.inverse K (fieldNum K sq) pos12) (@V2.neg K (fieldNum K sq) n))
      simp only [r, cuboidTriangleAssemble2]
      rw [e1, e2]
      simp [polyContacts2]
    refine ⟨g, hl, by rw [hn1]; exact hE, ?_⟩
    intro k hk
    obtain ⟨hd, hp1, hp2⟩ := g.2.2.2 k hk
    rw [hd, hn1]
    exact hE.2.1 _ _ hp1 hp2
  refine ⟨?_, ?_⟩
  · intro h
    by_cases c1 : pred < s1
    · refine ⟨?_, s1, _, c1, E1⟩
      simp only [m', cuboidTriangleFresh2]
      rw [if_pos c1]
    · have c2 : pred < s2 := by tauto
      refine ⟨?_, s2, _, c2, E2⟩
      simp only [m', cuboidTriangleFresh2]
      rw [if_neg c1, if_pos c2]
  · intro h
    push Not at h
    obtain ⟨c1, c2⟩ := h
    simp only [m', cuboidTriangleFresh2]
    rw [if_neg (not_lt.mpr c1), if_neg (not_lt.mpr c2), if_neg c3]
    by_cases hb : s1 < s2
    · rw [if_pos ⟨hb, hs2⟩, max_eq_right (le_of_lt hb)]
      exact fin s2 _ E2
    · rw [if_neg (fun h => hb h.1), if_neg (not_lt.mpr (le_of_lt hs1)), max_eq_left (not_lt.mp hb)]
      exact fin s1 _ E1

/-! ### non-vacuity of the cuboid/triangle theorems, evaluated over `ℚ`

Cuboid `[-1,1]²`, the 3-4-5 triangle `(0,0) (3,0) (0,4)` (all edge normals rational), identity rotation.
Triangle at `(5/4, −1/2)`: its edge `CA` faces the cuboid's face `x = 1` at gap `1/4` (both SAT passes give `1/4`; the cuboid's axis
wins the tie): prediction `1/8` clears, prediction `1/2` gives two contacts of gap `1/4`.
Triangle at `(−7/2, −3)`: the hypotenuse faces the cuboid's corner `(−1,−1)`; the reference normal `(−4/5, −3/5)` comes from the
TRIANGLE pass (`4/5` against `−1/2`), the contacts have gaps `2` and `4/5` (the corner). -/
private def exTriA (pred : ℚ) : Manifold2 ℚ :=
  cuboidTriangleFresh2 ⟨1, 0, ⟨5/4, -1/2⟩⟩ (Iso2.inverse ⟨1, 0, ⟨5/4, -1/2⟩⟩) ⟨1, 1⟩ ⟨0, 0⟩ ⟨3, 0⟩ ⟨0, 4⟩ pred false Manifold2.new
private def exTriB : Manifold2 ℚ :=
  cuboidTriangleFresh2 ⟨1, 0, ⟨-7/2, -3⟩⟩ (Iso2.inverse ⟨1, 0, ⟨-7/2, -3⟩⟩) ⟨1, 1⟩ ⟨0, 0⟩ ⟨3, 0⟩ ⟨0, 4⟩ 1 false Manifold2.new

/-- the hypotheses of `cuboidTriangleFresh2_spec` / `cuboidSupportMapOneway2_spec` / `triangleSupportMapOneway2_spec` are
satisfiable (finite SAT values), and the cleared branch and both reference-axis arms of the contact branch are reached -/
example : UnitC (⟨1, 0, ⟨5/4, -1/2⟩⟩ : Iso2 ℚ) ∧
    (cuboidSupportMapOneway2 (⟨1, 1⟩ : V2 ℚ) (triSupportPoint2 ⟨0, 0⟩ ⟨3, 0⟩ ⟨0, 4⟩) ⟨1, 0, ⟨5/4, -1/2⟩⟩).1 = 1/4 ∧
    (triangleSupportMapOneway2 (⟨0, 0⟩ : V2 ℚ) ⟨3, 0⟩ ⟨0, 4⟩ (cuboidSupportPoint2 ⟨1, 1⟩) (Iso2.inverse ⟨1, 0, ⟨5/4, -1/2⟩⟩)).1 = 1/4 ∧
    (exTriA (1/8)).points.length = 0 ∧
    (exTriA (1/2)).points.map (fun c => (c.p1.x, c.p1.y, c.p2.x, c.p2.y, c.dist)) = [(1, -1/2, 0, 0, 1/4), (1, 1, 0, 3/2, 1/4)] ∧
    (fun m : Manifold2 ℚ => (m.n1.x, m.n1.y, m.n2.x, m.n2.y)) (exTriA (1/2)) = (1, 0, -1, 0) ∧
    (triangleSupportMapOneway2 (⟨0, 0⟩ : V2 ℚ) ⟨3, 0⟩ ⟨0, 4⟩ (cuboidSupportPoint2 ⟨1, 1⟩) (Iso2.inverse ⟨1, 0, ⟨-7/2, -3⟩⟩)).1 = 4/5 ∧
    exTriB.points.map (fun c => (c.p1.x, c.p1.y, c.p2.x, c.p2.y, c.dist)) = [(-1, 1, 9/10, 14/5, 2), (-1, -1, 93/50, 38/25, 4/5)] ∧
    (fun m : Manifold2 ℚ => (m.n1.x, m.n1.y, m.n2.x, m.n2.y)) exTriB = (-4/5, -3/5, 4/5, 3/5) := by
  refine ⟨by norm_num [UnitC], ?_, ?_, ?_, ?_, ?_, ?_, ?_, ?_⟩ <;> decide +kernel

end C14
