import ParryModel.C14.Model2
/-!
# C14 model, round fu5: 2-D polygonal-feature contacts and `contact_manifold_cuboid_cuboid` (2-D)

Literal transliterations of
* `src/shape/polygonal_feature2d.rs`: `PolygonalFeature::{contacts, face_vertex_contacts, face_face_contacts}`;
* `src/query/sat/sat_cuboid_cuboid.rs`: `cuboid_cuboid_find_local_separating_normal_oneway` (2-D);
* `src/shape/cuboid.rs`: `SupportMap::local_support_point` (`dir.copy_sign_to(half_extents)`), 2-D `support_feature`
  (= `support_face`, already `cuboidSupportFace2`);
* `src/query/contact_manifolds/contact_manifolds_cuboid_cuboid.rs`: `contact_manifold_cuboid_cuboid` under `dim2`
  (warm start, the two one-way SAT passes, the non-existent edge/edge pass `(-Real::MAX, Vector::x())`, selection of the
  reference axis, the two support faces, face/face clipping, normals).
Feature ids and `match_contacts` (which only transfers user data between contacts with equal feature ids) are not modelled.
-/
namespace C14
open Model
variable {K : Type} [Num K]

/-! ## `PolygonalFeature::contacts` (2-D) — a feature is the list of its vertices (`num_vertices` = length, 1 or 2) -/

/-- `face_vertex_contacts(pos12, face1, sep_axis1, vertex2, manifold, flipped)`: the vertex is projected on the line of
`face1` along the face normal `(-t.y, t.x)`, the distance being rescaled by `-normal·sep_axis`. -/
def faceVertex2 (pos12 : Iso2 K) (a1 b1 sep1 v2 : V2 K) (flipped : Bool) : Contact2 K :=
  let v21 := pos12.act v2
  let tangent1 := b1.sub a1
  let normal1 : V2 K := ⟨-tangent1.y, tangent1.x⟩
  let denom := -(normal1.dot sep1)
  let dist := (a1.sub v21).dot normal1 / denom
  let lp1 := v21.sub (normal1.smul dist)          -- `v2_1 - dist * normal1`
  Contact2.flipped lp1 (pos12.invAct v21) dist flipped

/-- `face_face_contacts(pos12, face1, normal1, face2, manifold, flipped)` -/
def faceFace2 (pos12 : Iso2 K) (a1 b1 n1 a2 b2 : V2 K) (flipped : Bool) : List (Contact2 K) :=
  match clipSegSegWithNormal a1 b1 (pos12.act a2) (pos12.act b2) n1 with
  | some (ca, cb) =>
    [Contact2.flipped ca.p1 (pos12.invAct ca.p2) ((ca.p2.sub ca.p1).dot n1) flipped,
     Contact2.flipped cb.p1 (pos12.invAct cb.p2) ((cb.p2.sub cb.p1).dot n1) flipped]
  | none => []

/-- `PolygonalFeature::contacts(pos12, pos21, sep_axis1, sep_axis2, feature1, feature2, manifold, flipped)`: the contacts
it pushes; `none` = the `unimplemented!()` arm (two vertex features) or a malformed feature. -/
def polyContacts2 (pos12 pos21 : Iso2 K) (sep1 sep2 : V2 K) (f1 f2 : List (V2 K)) (flipped : Bool) :
    Option (List (Contact2 K)) :=
  match f1, f2 with
  | [a1, b1], [a2, b2] => some (faceFace2 pos12 a1 b1 sep1 a2 b2 flipped)
  | [a1, b1], [v2] => some [faceVertex2 pos12 a1 b1 sep1 v2 flipped]
  | [v1], [a2, b2] => some [faceVertex2 pos21 a2 b2 sep2 v1 (!flipped)]
  | _, _ => none

/-! ## SAT for two 2-D cuboids -/

/-- `Cuboid::local_support_point(dir)` = `dir.copy_sign_to(half_extents)` -/
def cuboidSupportPoint2 [HasCopysign K] (he dir : V2 K) : V2 K :=
  ⟨HasCopysign.copysign he.x dir.x, HasCopysign.copysign he.y dir.y⟩

/-- one iteration `i` of the loop of `cuboid_cuboid_find_local_separating_normal_oneway` -/
def satStep2 [HasCopysign K] (he1 he2 : V2 K) (pos12 : Iso2 K) (i : Nat) (best : K × V2 K) : K × V2 K :=
  let sign := HasCopysign.copysign (1 : K) (pos12.t.get i)
  let axis1 : V2 K := V2.zero.set i sign                          -- `Vector::ith(i, sign)`
  let axis2 := pos12.invRot axis1.neg                             -- `pos12.inverse_transform_vector(&-axis1)`
  let pt2 := pos12.act (cuboidSupportPoint2 he2 axis2)
  let sep := pt2.get i * sign - he1.get i
  if best.1 < sep then (sep, axis1) else best

/-- `cuboid_cuboid_find_local_separating_normal_oneway(cuboid1, cuboid2, pos12)` (2-D: `DIM = 2`) -/
def satOneway2 [HasCopysign K] (he1 he2 : V2 K) (pos12 : Iso2 K) : K × V2 K :=
  satStep2 he1 he2 pos12 1 (satStep2 he1 he2 pos12 0 (-fmax, V2.zero))

/-! ## `contact_manifold_cuboid_cuboid` (2-D) -/

/-- the selection of the reference axis: `best_sep = sep1; if sep2.0 > sep1.0 && sep2.0 > sep3.0 { (sep2.0, pos12 * -sep2.1) }
else if sep3.0 > sep1.0 { sep3 }` -/
def bestSep2 (pos12 : Iso2 K) (sep1 sep2 sep3 : K × V2 K) : K × V2 K :=
  if sep1.1 < sep2.1 ∧ sep3.1 < sep2.1 then (sep2.1, pos12.rot sep2.2.neg)
  else if sep1.1 < sep3.1 then sep3 else sep1

/-- everything after a failed warm start (`m` = the manifold as `try_update_contacts` left it) -/
def cuboidCuboidFresh2 [HasCopysign K] (pos12 : Iso2 K) (he1 he2 : V2 K) (pred : K) (m : Manifold2 K) : Manifold2 K :=
  let pos21 := pos12.inverse
  let sep1 := satOneway2 he1 he2 pos12
  if pred < sep1.1 then m.clear else
  let sep2 := satOneway2 he2 he1 pos21
  if pred < sep2.1 then m.clear else
  let sep3 : K × V2 K := (-fmax, ⟨1, 0⟩)                          -- "This case does not exist in 2D."
  if pred < sep3.1 then m.clear else
  let best := bestSep2 pos12 sep1 sep2 sep3
  let n2 := pos21.rot best.2.neg
  match cuboidSupportFace2 he1 best.2, cuboidSupportFace2 he2 n2 with
  | [a1, b1], [a2, b2] => ⟨faceFace2 pos12 a1 b1 best.2 a2 b2 false, best.2, n2⟩
  | _, _ => m                                                     -- unreachable: both features have two vertices

/-- `contact_manifold_cuboid_cuboid(pos12, cuboid1, cuboid2, prediction, manifold)` (2-D), geometry -/
def cuboidCuboid2 [HasCopysign K] (pos12 : Iso2 K) (he1 he2 : V2 K) (pred : K) (m : Manifold2 K) : Manifold2 K :=
  let r := tuc2Default pos12 m
  if r.1 then r.2 else cuboidCuboidFresh2 pos12 he1 he2 pred r.2

/-! ## `contact_manifold_cuboid_triangle` (2-D), no normal constraints

`src/query/contact_manifolds/contact_manifolds_cuboid_triangle.rs` under `dim2` with `normal_constraints = (None, None)`
(`project_local_normals` then returns `true` without touching the normals; the `retain` hack is skipped),
`sat_cuboid_support_map.rs::cuboid_support_map_find_local_separating_normal_oneway`,
`sat_cuboid_triangle.rs::triangle_support_map_find_local_separating_normal_oneway` (= `triangle_cuboid_…` in 2-D),
`Triangle::{local_support_point, support_face}` (2-D), `Segment::normal` (2-D), `SupportMap::support_point_toward`. -/

/-- `Triangle::local_support_point(dir)` -/
def triSupportPoint2 (a b c dir : V2 K) : V2 K :=
  let d1 := a.dot dir
  let d2 := b.dot dir
  let d3 := c.dot dir
  if d2 < d1 then (if d3 < d1 then a else c) else if d3 < d2 then b else c

/-- `SupportMap::support_point_toward(transform, dir)` for a shape given by its local support function -/
def supportToward2 (supp : V2 K → V2 K) (m : Iso2 K) (dir : V2 K) : V2 K := m.act (supp (m.invRot dir))

/-- one `(i, sign)` iteration of `cuboid_support_map_find_local_separating_normal_oneway` -/
def satSmStep2 (he1 : V2 K) (supp2 : V2 K → V2 K) (pos12 : Iso2 K) (i : Nat) (sign : K) (best : K × V2 K) : K × V2 K :=
  let axis1 : V2 K := V2.zero.set i sign
  let pt2 := supportToward2 supp2 pos12 axis1.neg
  let sep := pt2.get i * sign - he1.get i
  if best.1 < sep then (sep, axis1) else best

/-- `cuboid_support_map_find_local_separating_normal_oneway(cube1, shape2, pos12)` (2-D): `for i in 0..2 { for sign in [-1, 1] {..} }` -/
def cuboidSupportMapOneway2 (he1 : V2 K) (supp2 : V2 K → V2 K) (pos12 : Iso2 K) : K × V2 K :=
  satSmStep2 he1 supp2 pos12 1 1 (satSmStep2 he1 supp2 pos12 1 (-1)
    (satSmStep2 he1 supp2 pos12 0 1 (satSmStep2 he1 supp2 pos12 0 (-1) (-fmax, V2.zero))))

/-- `Segment::normal()` (2-D): `Unit::try_new((dir.y, -dir.x), DEFAULT_EPSILON)` -/
def segNormal2 (a b : V2 K) : Option (V2 K) :=
  let d := b.sub a
  tryNew2 ⟨d.y, -d.x⟩ epsilon

/-- one edge of `triangle_support_map_find_local_separating_normal_oneway` -/
def triEdgeStep2 (a b c : V2 K) (supp2 : V2 K → V2 K) (pos12 : Iso2 K) (ea eb : V2 K) (best : K × V2 K) : K × V2 K :=
  match segNormal2 ea eb with
  | some n =>
    -- `support_map_support_map_compute_separation(triangle1, shape2, pos12, &normal)`
    let p1 := triSupportPoint2 a b c n
    let p2 := supportToward2 supp2 pos12 n.neg
    let sep := (p2.sub p1).dot n
    if best.1 < sep then (sep, n) else best
  | none => best

/-- `triangle_support_map_find_local_separating_normal_oneway(triangle1, shape2, pos12)`: edges `[AB, BC, CA]` -/
def triangleSupportMapOneway2 (a b c : V2 K) (supp2 : V2 K → V2 K) (pos12 : Iso2 K) : K × V2 K :=
  triEdgeStep2 a b c supp2 pos12 c a (triEdgeStep2 a b c supp2 pos12 b c (triEdgeStep2 a b c supp2 pos12 a b (-fmax, V2.zero)))

/-- one iteration of the loop of the 2-D `Triangle::support_face(dir)`: `(best, best_dot)` -/
def triFaceStep2 (dir : V2 K) (i : Nat) (tangent : V2 K) (st : Nat × K) : Nat × K :=
  match tryNew2 (⟨tangent.y, -tangent.x⟩ : V2 K) 0 with
  | some n => let dot := n.dot dir; if st.2 < dot then (i, dot) else st
  | none => st

/-- `Triangle::support_face(dir).vertices` (2-D) -/
def triSupportFace2 (a b c dir : V2 K) : List (V2 K) :=
  let st := triFaceStep2 dir 2 (a.sub c) (triFaceStep2 dir 1 (c.sub b) (triFaceStep2 dir 0 (b.sub a) (0, -fmax)))
  if st.1 = 0 then [a, b] else if st.1 = 1 then [b, c] else [c, a]

/-- the part of `contact_manifold_cuboid_triangle` after the reference normal `normal1` (frame of the cuboid) is chosen:
`normal2 = pos21 * -normal1`, the two support faces, `PolygonalFeature::contacts`, the (possibly exchanged) normals -/
def cuboidTriangleAssemble2 [HasCopysign K] (pos12 pos21 : Iso2 K) (he1 a b c normal1 : V2 K) (flipped : Bool)
    (m : Manifold2 K) : Manifold2 K :=
  let normal2 := pos21.rot normal1.neg
  match polyContacts2 pos12 pos21 normal1 normal2 (cuboidSupportFace2 he1 normal1) (triSupportFace2 a b c normal2) flipped with
  | some pts => if flipped then ⟨pts, normal2, normal1⟩ else ⟨pts, normal1, normal2⟩
  | none => m

/-- `contact_manifold_cuboid_triangle(pos12, pos21, cuboid1, triangle2, None, None, prediction, manifold, flipped)` after a failed
warm start; `pos12` is the pose of the triangle in the cuboid's frame (the caller already exchanged the poses when `flipped`). -/
def cuboidTriangleFresh2 [HasCopysign K] (pos12 pos21 : Iso2 K) (he1 a b c : V2 K) (pred : K) (flipped : Bool)
    (m : Manifold2 K) : Manifold2 K :=
  let sep1 := cuboidSupportMapOneway2 he1 (triSupportPoint2 a b c) pos12
  if pred < sep1.1 then m.clear else
  let sep2 := triangleSupportMapOneway2 a b c (cuboidSupportPoint2 he1) pos21
  if pred < sep2.1 then m.clear else
  let sep3 : K × V2 K := (-fmax, ⟨1, 0⟩)
  if pred < sep3.1 then m.clear else
  let normal1 := if sep1.1 < sep2.1 ∧ sep3.1 < sep2.1 then pos12.rot sep2.2.neg else if sep1.1 < sep3.1 then sep3.2 else sep1.2
  cuboidTriangleAssemble2 pos12 pos21 he1 a b c normal1 flipped m

/-- `contact_manifold_cuboid_triangle_shapes(pos12, shape1, shape2, None, None, prediction, manifold)`:
`cuboidFirst = true`: shape 1 is the cuboid; else shape 1 is the triangle and the core runs with the poses exchanged, `flipped`. -/
def cuboidTriangle2 [HasCopysign K] (cuboidFirst : Bool) (pos12 : Iso2 K) (he a b c : V2 K) (pred : K) (m : Manifold2 K) :
    Manifold2 K :=
  -- both arms warm-start with the caller's `pos12`: `try_update_contacts(pos12)` resp. `try_update_contacts(pos21)` of the exchanged poses
  let r := tuc2Default pos12 m
  if r.1 then r.2
  else if cuboidFirst then cuboidTriangleFresh2 pos12 pos12.inverse he a b c pred false r.2
  else cuboidTriangleFresh2 pos12.inverse pos12 he a b c pred true r.2

end C14
