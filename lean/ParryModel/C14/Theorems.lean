import ParryModel.Field
import ParryModel.C14.Model
/-!
# C14 property theorems: persistent contact manifolds, for every linearly ordered field.

All statements quantify over the model functions of `C14/Model.lean` at the lawful instance
`fieldNum K sq`.
-/
namespace C14
open Model

variable {K : Type} [Field K] [LinearOrder K] [IsStrictOrderedRing K] (sq : K → K)

/-! ## (a) the warm-start path `try_update_contacts_eps` -/

/-- What an accepted warm-start update guarantees for one contact (`o` before, `n` after):
`local_p2` is untouched, `dist` is *exactly* the property's identity
`(pos12·local_p2 − local_p1)·local_n1`, `local_p1` moved by at most `√dsq`, and the contact did not
switch between penetrating and separated. -/
def Updated3 (pos12 : Iso3 K) (n1 : V3 K) (dsq : K) (o n : Contact3 K) : Prop :=
  letI := fieldNum K sq
  n.p2 = o.p2 ∧ n.dist = ((pos12.act n.p2).sub n.p1).dot n1 ∧
    (n.p1.sub o.p1).normSq ≤ dsq ∧ 0 ≤ n.dist * o.dist

def Updated2 (pos12 : Iso2 K) (n1 : V2 K) (dsq : K) (o n : Contact2 K) : Prop :=
  letI := fieldNum K sq
  n.p2 = o.p2 ∧ n.dist = ((pos12.act n.p2).sub n.p1).dot n1 ∧
    (n.p1.sub o.p1).normSq ≤ dsq ∧ 0 ≤ n.dist * o.dist

/-- the algebra behind the warm start: with `d = (w − p)·n` and `|n| = 1`, the re-projected point
`p' = w − n d` satisfies `(w − p')·n = d`. -/
private theorem proj_identity3 (w p n : V3 K) (hn : letI := fieldNum K sq; n.dot n = 1) :
    letI := fieldNum K sq
    (w.sub p).dot n = (w.sub (w.sub (n.smul ((w.sub p).dot n)))).dot n := by
  simp only [V3.dot, V3.sub, V3.smul] at hn ⊢
  linear_combination (-((w.x - p.x) * n.x + (w.y - p.y) * n.y + (w.z - p.z) * n.z)) * hn

private theorem proj_identity2 (w p n : V2 K) (hn : letI := fieldNum K sq; n.dot n = 1) :
    letI := fieldNum K sq
    (w.sub p).dot n = (w.sub (w.sub (n.smul ((w.sub p).dot n)))).dot n := by
  simp only [V2.dot, V2.sub, V2.smul] at hn ⊢
  linear_combination (-((w.x - p.x) * n.x + (w.y - p.y) * n.y)) * hn

private theorem tucLoop3_sound (pos12 : Iso3 K) (n1 : V3 K) (dsq : K)
    (hn : letI := fieldNum K sq; n1.dot n1 = 1) (pts : List (Contact3 K)) :
    letI := fieldNum K sq
    (tucLoop3 pos12 n1 dsq pts).1 = true →
      List.Forall₂ (Updated3 sq pos12 n1 dsq) pts (tucLoop3 pos12 n1 dsq pts).2 := by
  induction pts with
  | nil => intro _; exact List.Forall₂.nil
  | cons pt rest ih =>
    intro h
    simp only [tucLoop3] at h ⊢
    split_ifs at h with h1 h2
    rw [if_neg h1, if_neg h2]
    refine List.Forall₂.cons ?_ (ih h)
    push Not at h1 h2
    refine ⟨rfl, ?_, h2, h1⟩
    exact proj_identity3 sq _ _ _ hn

/-- **C14 (a), 3-D.** If `try_update_contacts_eps(pos12, thr, dsq)` returns `true` on a manifold whose
`local_n1` is a unit vector, then: the manifold was non-empty; the normals are untouched and satisfy the
coded cosine test `−n1·(pos12·n2) ≥ thr`; and the new point list is position-wise related to the old one by
`Updated3` — in particular **every** contact has `dist = (pos12·local_p2 − local_p1)·local_n1` exactly,
`local_p2` unchanged, `local_p1` moved by at most `√dsq`, no sign switch. -/
theorem tuc3_true_sound (pos12 : Iso3 K) (m : Manifold3 K) (thr dsq : K)
    (hn : letI := fieldNum K sq; m.n1.dot m.n1 = 1)
    (h : letI := fieldNum K sq; (tuc3 pos12 m thr dsq).1 = true) :
    letI := fieldNum K sq
    let m' := (tuc3 pos12 m thr dsq).2
    m.points ≠ [] ∧ m'.n1 = m.n1 ∧ m'.n2 = m.n2 ∧ thr ≤ -(m.n1.dot (pos12.rot m.n2)) ∧
      List.Forall₂ (Updated3 sq pos12 m.n1 dsq) m.points m'.points := by
  simp only [tuc3] at h ⊢
  split_ifs at h with h1 h2
  rw [if_neg h1, if_neg h2]
  push Not at h2
  refine ⟨?_, rfl, rfl, h2, tucLoop3_sound sq pos12 m.n1 dsq hn m.points h⟩
  intro he; simp [he] at h1

end C14
