import ParryModel.C14.Lemmas
/-!
# C14 property theorems: persistent contact manifolds, for every linearly ordered field.

All statements quantify over the model functions of `C14/Model.lean` at the lawful instance
`fieldNum K sq`.
-/
namespace C14
open Model

variable {K : Type} [Field K] [LinearOrder K] [IsStrictOrderedRing K] (sq : K → K)

/-! ## (a) the warm-start path `try_update_contacts_eps` -/

/-- What an accepted warm-start update guarantees for one contact (`o` before, `n` after):
`local_p2` is untouched, `dist` is *exactly* the property's identity
`(pos12·local_p2 − local_p1)·local_n1`, `local_p1` moved by at most `√dsq`, and the contact did not
switch between penetrating and separated. -/
def Updated3 (pos12 : Iso3 K) (n1 : V3 K) (dsq : K) (o n : Contact3 K) : Prop :=
  letI := fieldNum K sq
  n.p2 = o.p2 ∧ n.dist = ((pos12.act n.p2).sub n.p1).dot n1 ∧
    (n.p1.sub o.p1).normSq ≤ dsq ∧ 0 ≤ n.dist * o.dist

def Updated2 (pos12 : Iso2 K) (n1 : V2 K) (dsq : K) (o n : Contact2 K) : Prop :=
  letI := fieldNum K sq
  n.p2 = o.p2 ∧ n.dist = ((pos12.act n.p2).sub n.p1).dot n1 ∧
    (n.p1.sub o.p1).normSq ≤ dsq ∧ 0 ≤ n.dist * o.dist

/-- the algebra behind the warm start: with `d = (w − p)·n` and `|n| = 1`, the re-projected point
`p' = w − n d` satisfies `(w − p')·n = d`. -/
private theorem proj_identity3 (w p n : V3 K) (hn : letI := fieldNum K sq; n.dot n = 1) :
    letI := fieldNum K sq
    (w.sub p).dot n = (w.sub (w.sub (n.smul ((w.sub p).dot n)))).dot n := by
  simp only [V3.dot, V3.sub, V3.smul] at hn ⊢
  linear_combination (-((w.x - p.x) * n.x + (w.y - p.y) * n.y + (w.z - p.z) * n.z)) * hn

private theorem proj_identity2 (w p n : V2 K) (hn : letI := fieldNum K sq; n.dot n = 1) :
    letI := fieldNum K sq
    (w.sub p).dot n = (w.sub (w.sub (n.smul ((w.sub p).dot n)))).dot n := by
  simp only [V2.dot, V2.sub, V2.smul] at hn ⊢
  linear_combination (-((w.x - p.x) * n.x + (w.y - p.y) * n.y)) * hn

private theorem tucLoop3_sound (pos12 : Iso3 K) (n1 : V3 K) (dsq : K)
    (hn : letI := fieldNum K sq; n1.dot n1 = 1) (pts : List (Contact3 K)) :
    letI := fieldNum K sq
    (tucLoop3 pos12 n1 dsq pts).1 = true →
      List.Forall₂ (Updated3 sq pos12 n1 dsq) pts (tucLoop3 pos12 n1 dsq pts).2 := by
  induction pts with
  | nil => intro _; exact List.Forall₂.nil
  | cons pt rest ih =>
    intro h
    simp only [tucLoop3] at h ⊢
    split_ifs at h with h1 h2
    rw [if_neg h1, if_neg h2]
    refine List.Forall₂.cons ?_ (ih h)
    push Not at h1 h2
    refine ⟨rfl, ?_, h2, h1⟩
    exact proj_identity3 sq _ _ _ hn

/-- **C14 (a), 3-D.** If `try_update_contacts_eps(pos12, thr, dsq)` returns `true` on a manifold whose
`local_n1` is a unit vector, then: the manifold was non-empty; the normals are untouched and satisfy the
coded cosine test `−n1·(pos12·n2) ≥ thr`; and the new point list is position-wise related to the old one by
`Updated3` — in particular **every** contact has `dist = (pos12·local_p2 − local_p1)·local_n1` exactly,
`local_p2` unchanged, `local_p1` moved by at most `√dsq`, no sign switch. -/
theorem tuc3_true_sound (pos12 : Iso3 K) (m : Manifold3 K) (thr dsq : K)
    (hn : letI := fieldNum K sq; m.n1.dot m.n1 = 1)
    (h : letI := fieldNum K sq; (tuc3 pos12 m thr dsq).1 = true) :
    letI := fieldNum K sq
    let m' := (tuc3 pos12 m thr dsq).2
    m.points ≠ [] ∧ m'.n1 = m.n1 ∧ m'.n2 = m.n2 ∧ thr ≤ -(m.n1.dot (pos12.rot m.n2)) ∧
      List.Forall₂ (Updated3 sq pos12 m.n1 dsq) m.points m'.points := by
  simp only [tuc3] at h ⊢
  split_ifs at h with h1 h2
  rw [if_neg h1, if_neg h2]
  push Not at h2
  refine ⟨?_, rfl, rfl, h2, tucLoop3_sound sq pos12 m.n1 dsq hn m.points h⟩
  intro he; simp [he] at h1

/-! ## (b) the closed-form generators -/

/-- The property's per-contact clause at pose `pos12`: `dist = (pos12·local_p2 − local_p1)·local_n1`, and the
two witnesses lie in the given sets (`S1` in the frame of shape 1, `S2` in the frame of shape 2). -/
def GoodContact3 (pos12 : Iso3 K) (n1 : V3 K) (S1 S2 : V3 K → Prop) (c : Contact3 K) : Prop :=
  letI := fieldNum K sq
  c.dist = ((pos12.act c.p2).sub c.p1).dot n1 ∧ S1 c.p1 ∧ S2 c.p2

/-- The property's per-manifold clause: unit normals, exactly opposite (`pos12·n2 = −n1`, which is stronger
than the 1° warm-start tolerance), and every contact good. -/
def GoodManifold3 (pos12 : Iso3 K) (S1 S2 : V3 K → Prop) (m : Manifold3 K) : Prop :=
  letI := fieldNum K sq
  m.n1.dot m.n1 = 1 ∧ m.n2.dot m.n2 = 1 ∧ pos12.rot m.n2 = m.n1.neg ∧
    ∀ c ∈ m.points, GoodContact3 sq pos12 m.n1 S1 S2 c

/-- the surface of the ball of radius `r` (a subset of `Ball.Mem3`) -/
def Sphere3 (r : K) (p : V3 K) : Prop := letI := fieldNum K sq; p.normSq = r * r

/-- **C14 (b), ball/ball.**  With `d = |t| − r1 − r2` (the signed distance of the two balls): no contact iff
`¬ d < prediction`; otherwise exactly one contact, of distance `d`, and the manifold is good with witnesses on
the two spheres.  (`m.points.length ≤ 1` is what the dispatcher guarantees: the manifold starts empty and only
this generator writes to it; stale extra points of a foreign manifold are kept by the code.) -/
theorem ballBall3_spec (hs : LawfulSqrt sq) (pos12 : Iso3 K) (r1 r2 pred : K) (m : Manifold3 K)
    (hq : UnitQ pos12) (hm : m.points.length ≤ 1) :
    letI := fieldNum K sq
    let m' := ballBall3 pos12 r1 r2 pred m
    let d := pos12.t.norm - r1 - r2
    (¬ d < pred → m'.points = []) ∧
    (d < pred → (∃ c, m'.points = [c] ∧ c.dist = d) ∧
      GoodManifold3 sq pos12 (Sphere3 sq r1) (Sphere3 sq r2) m') := by
  intro m' d
  constructor
  · intro h
    simp only [m', ballBall3, d] at h ⊢
    rw [if_neg h]; rfl
  · intro h
    have hpts : ∀ c : Contact3 K, setFirst c m.points = [c] := by
      intro c
      match hmp : m.points with
      | [] => rfl
      | [_] => rfl
      | _ :: _ :: _ => rw [hmp] at hm; simp at hm
    simp only [m', ballBall3, d] at h ⊢
    rw [if_pos h]
    simp only [hpts]
    by_cases hz : @V3.norm K (fieldNum K sq) pos12.t = 0
    · -- coincident centres: `Vector::y()`
      have ht := norm_zero3 sq hs pos12.t hz
      have hneq : @neq K (fieldNum K sq) (@V3.norm K (fieldNum K sq) pos12.t) 0 = true := by
        simp [neq, hz]
      simp only [hneq, Bool.not_true, Bool.false_eq_true, if_false]
      have hn : @V3.dot K (fieldNum K sq) ⟨0, 1, 0⟩ ⟨0, 1, 0⟩ = 1 := by simp [V3.dot]
      obtain ⟨b1, b2, b3, b3', b4, b5⟩ := ball_contact3 sq pos12 hq ⟨0, 1, 0⟩ r1 r2 hn
      refine ⟨⟨_, rfl, ?_⟩, hn, b1, b2, ?_⟩
      · rw [hz]
      · intro c hc
        simp only [List.mem_singleton] at hc
        subst hc
        refine ⟨?_, b4, b5⟩
        simp only []
        rw [b3, b3', hz, ht]; simp [V3.dot]
    · have hneq : @neq K (fieldNum K sq) (@V3.norm K (fieldNum K sq) pos12.t) 0 = false := by
        simp only [neq, Bool.and_eq_false_imp, decide_eq_true_eq, decide_eq_false_iff_not]
        intro h1 h2; exact hz (le_antisymm h1 h2)
      simp only [hneq, Bool.not_false, if_true]
      obtain ⟨hn, hd⟩ := normalize3 sq hs pos12.t hz
      obtain ⟨b1, b2, b3, b3', b4, b5⟩ := ball_contact3 sq pos12 hq _ r1 r2 hn
      refine ⟨⟨_, rfl, rfl⟩, hn, b1, b2, ?_⟩
      intro c hc
      simp only [List.mem_singleton] at hc
      subst hc
      refine ⟨?_, b4, b5⟩
      simp only []
      rw [b3, b3', hd]

/-- **C14 (b), convex/ball, unflipped.**  `proj` is any projection function (the first shape is abstract). -/
theorem convexBall3_spec (hs : LawfulSqrt sq) (proj : V3 K → Bool × V3 K) (pos12 : Iso3 K) (r2 pred : K)
    (m : Manifold3 K) (hq : UnitQ pos12) :
    letI := fieldNum K sq
    let m' := convexBall3 proj pos12 r2 pred false m
    let pr := proj pos12.t
    let d := (if pr.1 then -((pos12.t.sub pr.2).norm) else (pos12.t.sub pr.2).norm) - r2
    (¬ d ≤ pred → m'.points = []) ∧
    (d ≤ pred → (∃ c, m'.points = [c] ∧ c.p1 = pr.2 ∧ c.dist = d) ∧
      GoodManifold3 sq pos12 (fun p => p = pr.2) (Sphere3 sq r2) m') := by
  intro m' pr d
  obtain ⟨hn, hdot, he⟩ := contactNormal3_spec sq hs (@V3.sub K (fieldNum K sq) pos12.t pr.2) pos12.t
  simp only [m', convexBall3, convexBallOut3]
  generalize hnd : @contactNormal3 K (fieldNum K sq) (@V3.sub K (fieldNum K sq) pos12.t (proj pos12.t).2) pos12.t = nd at *
  obtain ⟨n, e⟩ := nd
  simp only [pr] at hn hdot he
  simp only [] at hn hdot he ⊢
  by_cases hin : pr.1 = true
  · -- inside: normal and distance are negated
    have hin' : (proj pos12.t).1 = true := hin
    have hnn : @V3.dot K (fieldNum K sq) (@V3.neg K (fieldNum K sq) n) (@V3.neg K (fieldNum K sq) n) = 1 := by
      simp only [V3.dot, V3.neg] at hn ⊢; linear_combination hn
    obtain ⟨b1, b2, b3, _, _, b5⟩ := ball_contact3 sq pos12 hq (@V3.neg K (fieldNum K sq) n) 0 r2 hnn
    have hd : d = -e - r2 := by simp only [d, hin, if_true, he]; rfl
    simp only [hin', if_true, Bool.false_eq_true, if_false]
    constructor
    · intro h; rw [hd] at h; rw [if_neg (by linarith)]; rfl
    · intro h; rw [hd] at h; rw [if_pos (by linarith)]
      refine ⟨⟨_, rfl, rfl, by simp [Contact3.flipped, hd]⟩, hnn, b1, b2, ?_⟩
      intro c hc
      simp only [List.mem_singleton] at hc
      subst hc
      refine ⟨?_, rfl, b5⟩
      simp only [Contact3.flipped, Bool.not_false, if_true]
      rw [b3]
      simp only [V3.dot, V3.neg] at hdot ⊢
      linear_combination hdot
  · have hin' : (proj pos12.t).1 = false := by simpa using hin
    obtain ⟨b1, b2, b3, _, _, b5⟩ := ball_contact3 sq pos12 hq n 0 r2 hn
    have hd : d = e - r2 := by simp only [d, hin, he]; rfl
    simp only [hin', Bool.false_eq_true, if_false]
    constructor
    · intro h; rw [hd] at h; rw [if_neg (by linarith)]; rfl
    · intro h; rw [hd] at h; rw [if_pos (by linarith)]
      refine ⟨⟨_, rfl, rfl, by simp [Contact3.flipped, hd]⟩, hn, b1, b2, ?_⟩
      intro c hc
      simp only [List.mem_singleton] at hc
      subst hc
      refine ⟨?_, rfl, b5⟩
      simp only [Contact3.flipped, Bool.not_false, if_true]
      rw [b3, hdot]

/-- swapping the roles of the two shapes (`TrackedContact::flipped` + the normal swap of the `flipped` arms) -/
def Contact3.swap (c : Contact3 K) : Contact3 K := ⟨c.p2, c.p1, c.dist⟩
def Manifold3.swap (m : Manifold3 K) : Manifold3 K := ⟨m.points.map Contact3.swap, m.n2, m.n1⟩


/-- **flip**: a manifold good for `(shape A, shape B)` at pose `pos12⁻¹` is, with the roles swapped, good for
`(shape B, shape A)` at pose `pos12`. -/
theorem good_swap3 (pos12 : Iso3 K) (hq : UnitQ pos12) (S1 S2 : V3 K → Prop) (m : Manifold3 K)
    (h : letI := fieldNum K sq; GoodManifold3 sq pos12.inverse S1 S2 m) :
    GoodManifold3 sq pos12 S2 S1 m.swap := by
  obtain ⟨u1, u2, opp, hc⟩ := h
  rw [inverse_rot3] at opp
  have opp' : @Iso3.rot K (fieldNum K sq) pos12 m.n1 = @V3.neg K (fieldNum K sq) m.n2 := by
    have := congrArg (@Iso3.rot K (fieldNum K sq) pos12) opp
    rw [rot_invRot3 sq pos12 _ hq, rot_neg3] at this
    rw [this]; apply V3.ext' <;> simp [V3.neg]
  refine ⟨u2, u1, opp', ?_⟩
  intro c hcm
  simp only [Manifold3.swap, List.mem_map] at hcm
  obtain ⟨c0, hc0, rfl⟩ := hcm
  obtain ⟨id0, w1, w2⟩ := hc c0 hc0
  refine ⟨?_, w2, w1⟩
  simp only [Contact3.swap, Manifold3.swap]
  rw [id0, act_sub_dot3 sq pos12 hq, inverse_act3]
  have : @Iso3.invRot K (fieldNum K sq) pos12 m.n2 = @V3.neg K (fieldNum K sq) m.n1 := opp
  rw [this]
  simp only [V3.dot, V3.sub, V3.neg]
  ring


private theorem convexBall3_flip (proj : V3 K → Bool × V3 K) (P : Iso3 K) (r pred : K) (m : Manifold3 K) :
    letI := fieldNum K sq
    ((convexBall3 proj P r pred true m).points = [] ∧ (convexBall3 proj P r pred false m).points = []) ∨
    convexBall3 proj P r pred true m = (convexBall3 proj P r pred false m).swap := by
  simp only [convexBall3]
  generalize (if (proj P.t).1 = true then _ else _ : V3 K × K) = nd
  simp only [convexBallOut3, ↓reduceIte, Bool.false_eq_true]
  by_cases h : nd.2 ≤ r + pred
  · right; simp [h, Manifold3.swap, Contact3.swap, Contact3.flipped]
  · left; simp [h, Manifold3.clear]

private theorem halfspacePfm3_flip (feat : V3 K → List (V3 K)) (P : Iso3 K) (n : V3 K) (br pred : K) :
    letI := fieldNum K sq
    halfspacePfm3 feat P n br pred true = (halfspacePfm3 feat P n br pred false).swap := by
  simp only [halfspacePfm3, Manifold3.swap, Bool.false_eq_true, if_false, if_true, List.map_filterMap]
  congr 1
  apply List.filterMap_congr
  intro v _
  split_ifs <;> simp [Contact3.swap, Contact3.flipped]

/-- the boundary plane of the half-space `{p | n·p ≤ 0}` -/
def Plane3 (n : V3 K) (p : V3 K) : Prop := letI := fieldNum K sq; n.dot p = 0
/-- within distance exactly `br` of one of the feature vertices `vs` (so inside the shape rounded by `br`) -/
def NearVertex3 (vs : List (V3 K)) (br : K) (p : V3 K) : Prop :=
  letI := fieldNum K sq
  ∃ v ∈ vs, (p.sub v).normSq = br * br

/-- **C14 (b), half-space/pfm, unflipped**, for *any* polygonal feature map `feat`.  The manifold is good at
`pos12` with `local_n1` = the half-space normal, every `local_p1` on the boundary plane, every `local_p2` at
distance exactly `border_radius` from a vertex of the support feature; every kept contact has
`dist ≤ prediction`, and every feature vertex within `prediction` (after the border radius) yields a contact. -/
theorem halfspacePfm3_spec (feat : V3 K → List (V3 K)) (pos12 : Iso3 K) (n : V3 K) (br pred : K)
    (hq : UnitQ pos12) (hn : letI := fieldNum K sq; n.dot n = 1) :
    letI := fieldNum K sq
    let m' := halfspacePfm3 feat pos12 n br pred false
    let vs := feat (pos12.invRot n).neg
    GoodManifold3 sq pos12 (Plane3 sq n) (NearVertex3 sq vs br) m' ∧ m'.n1 = n ∧
    (∀ c ∈ m'.points, c.dist ≤ pred) ∧
    (∀ v ∈ vs, (pos12.act v).dot n - br ≤ pred → ∃ c ∈ m'.points, c.dist = (pos12.act v).dot n - br) := by
  intro m' vs
  have hn12 : @V3.dot K (fieldNum K sq) (@Iso3.invRot K (fieldNum K sq) pos12 n) (@Iso3.invRot K (fieldNum K sq) pos12 n) = 1 := by
    rw [invRot_dot3 sq pos12 n n hq]; exact hn
  have hrot := rot_invRot3 sq pos12 n hq
  simp only [m', vs, halfspacePfm3, Bool.false_eq_true, if_false]
  refine ⟨⟨hn, ?_, ?_, ?_⟩, trivial, ?_, ?_⟩
  · simp only [V3.dot, V3.neg] at hn12 ⊢; linear_combination hn12
  · rw [rot_neg3, hrot]
  · intro c hc
    simp only [List.mem_filterMap] at hc
    obtain ⟨v, hv, hcv⟩ := hc
    split_ifs at hcv with hle
    simp only [Option.some.injEq] at hcv
    subst hcv
    simp only [Contact3.flipped, Bool.not_false, if_true]
    refine ⟨?_, ?_, v, hv, ?_⟩
    · have : @Iso3.act K (fieldNum K sq) pos12 (@V3.sub K (fieldNum K sq) v (@V3.smul K (fieldNum K sq) (@Iso3.invRot K (fieldNum K sq) pos12 n) br))
          = @V3.sub K (fieldNum K sq) (@Iso3.act K (fieldNum K sq) pos12 v) (@V3.smul K (fieldNum K sq) n br) := by
        simp only [Iso3.act]; rw [rot_sub3, rot_smul3, hrot]
        apply V3.ext' <;> simp only [V3.add, V3.sub] <;> ring
      rw [this]
      simp only [V3.dot, V3.sub, V3.smul] at hn ⊢
      linear_combination (br - ((@Iso3.act K (fieldNum K sq) pos12 v).x * n.x + (@Iso3.act K (fieldNum K sq) pos12 v).y * n.y
        + (@Iso3.act K (fieldNum K sq) pos12 v).z * n.z)) * hn
    · simp only [Plane3, V3.dot, V3.sub, V3.smul] at hn ⊢
      linear_combination (-((@Iso3.act K (fieldNum K sq) pos12 v).x * n.x + (@Iso3.act K (fieldNum K sq) pos12 v).y * n.y
        + (@Iso3.act K (fieldNum K sq) pos12 v).z * n.z)) * hn
    · simp only [V3.normSq, V3.dot, V3.sub, V3.smul] at hn12 ⊢
      linear_combination (br * br) * hn12
  · intro c hc
    simp only [List.mem_filterMap] at hc
    obtain ⟨v, _, hcv⟩ := hc
    split_ifs at hcv with hle
    simp only [Option.some.injEq] at hcv
    subst hcv
    simpa [Contact3.flipped] using hle
  · intro v hv hle
    refine ⟨_, List.mem_filterMap.mpr ⟨v, hv, by rw [if_pos hle]⟩, ?_⟩
    simp [Contact3.flipped]


/-- **C14 (b), convex/ball through `contact_manifold_convex_ball_shapes`, both argument orders.**  Either no
contact, or the manifold is good at `pos12`; the ball's witness is on its sphere, the other witness is the
projection `proj` of the ball centre (expressed in that shape's frame) — "on the shape" by the projection's
own postcondition (C05; for a cuboid see `cuboidProject3_mem`). -/
theorem convexBallShapes3_good (hs : LawfulSqrt sq) (proj : V3 K → Bool × V3 K) (ballFirst : Bool)
    (pos12 : Iso3 K) (r pred : K) (m : Manifold3 K) (hq : UnitQ pos12) :
    letI := fieldNum K sq
    let m' := convexBallShapes3 proj ballFirst pos12 r pred m
    m'.points = [] ∨
      (if ballFirst then GoodManifold3 sq pos12 (Sphere3 sq r) (fun p => p = (proj pos12.inverse.t).2) m'
       else GoodManifold3 sq pos12 (fun p => p = (proj pos12.t).2) (Sphere3 sq r) m') := by
  intro m'
  cases ballFirst with
  | false =>
    obtain ⟨h1, h2⟩ := convexBall3_spec sq hs proj pos12 r pred m hq
    simp only [m', convexBallShapes3, Bool.false_eq_true, if_false] at *
    by_cases hd : (if (proj pos12.t).1 = true then -(@V3.norm K (fieldNum K sq) (@V3.sub K (fieldNum K sq) pos12.t (proj pos12.t).2))
        else @V3.norm K (fieldNum K sq) (@V3.sub K (fieldNum K sq) pos12.t (proj pos12.t).2)) - r ≤ pred
    · exact Or.inr (h2 hd).2
    · exact Or.inl (h1 hd)
  | true =>
    have hqi := unitQ_inverse sq pos12 hq
    obtain ⟨h1, h2⟩ := convexBall3_spec sq hs proj (@Iso3.inverse K (fieldNum K sq) pos12) r pred m hqi
    simp only [m', convexBallShapes3, if_true] at *
    rcases convexBall3_flip sq proj (@Iso3.inverse K (fieldNum K sq) pos12) r pred m with hf | hf
    · exact Or.inl hf.1
    · rw [hf]
      by_cases hd : (if (proj (@Iso3.inverse K (fieldNum K sq) pos12).t).1 = true then
            -(@V3.norm K (fieldNum K sq) (@V3.sub K (fieldNum K sq) (@Iso3.inverse K (fieldNum K sq) pos12).t (proj (@Iso3.inverse K (fieldNum K sq) pos12).t).2))
          else @V3.norm K (fieldNum K sq) (@V3.sub K (fieldNum K sq) (@Iso3.inverse K (fieldNum K sq) pos12).t (proj (@Iso3.inverse K (fieldNum K sq) pos12).t).2)) - r ≤ pred
      · exact Or.inr (good_swap3 sq pos12 hq _ _ _ (h2 hd).2)
      · left; simp [Manifold3.swap, h1 hd]

/-- **C14 (b), half-space/pfm through the two half-space arms of `contact_manifold_convex_convex`, both
argument orders**, for any polygonal feature map. -/
theorem halfspaceDispatch3_good (feat : V3 K → List (V3 K)) (hsFirst : Bool) (pos12 : Iso3 K) (n : V3 K)
    (br pred : K) (hq : UnitQ pos12) (hn : letI := fieldNum K sq; n.dot n = 1) :
    letI := fieldNum K sq
    let m' := halfspaceDispatch3 feat hsFirst pos12 n br pred
    if hsFirst then GoodManifold3 sq pos12 (Plane3 sq n) (NearVertex3 sq (feat (pos12.invRot n).neg) br) m'
    else GoodManifold3 sq pos12 (NearVertex3 sq (feat (pos12.inverse.invRot n).neg) br) (Plane3 sq n) m' := by
  intro m'
  cases hsFirst with
  | true =>
    simp only [m', halfspaceDispatch3, if_true]
    exact (halfspacePfm3_spec sq feat pos12 n br pred hq hn).1
  | false =>
    simp only [m', halfspaceDispatch3, Bool.false_eq_true, if_false]
    rw [halfspacePfm3_flip]
    exact good_swap3 sq pos12 hq _ _ _
      (halfspacePfm3_spec sq feat (@Iso3.inverse K (fieldNum K sq) pos12) n br pred (unitQ_inverse sq pos12 hq) hn).1

end C14
