import ParryModel.C14.Lemmas
import ParryModel.C14.Theorems2
import ParryModel.C14.Theorems3
import ParryModel.C14.Theorems4
import ParryModel.C14.Theorems5
/-!
# C14 property theorems: persistent contact manifolds, for every linearly ordered field.

All statements quantify over the model functions of `C14/Model.lean` at the lawful instance
`fieldNum K sq`.
-/
namespace C14
open Model

variable {K : Type} [Field K] [LinearOrder K] [IsStrictOrderedRing K] (sq : K → K)

/-! ## (a) the warm-start path `try_update_contacts_eps` -/

/-- What an accepted warm-start update guarantees for one contact (`o` before, `n` after):
`local_p2` is untouched, `dist` is *exactly* the property's identity
`(pos12·local_p2 − local_p1)·local_n1`, `local_p1` slid inside the contact plane, its displacement and the
change of `dist` together are at most `√dsq` (CORRECTED behaviour: the pinned tree bounds only the displacement
of `local_p1`, see `fixes/C14-warm-start-normal-motion.diff`), and the contact did not switch between
penetrating and separated. -/
def Updated3 (pos12 : Iso3 K) (n1 : V3 K) (dsq : K) (o n : Contact3 K) : Prop :=
  letI := fieldNum K sq
  n.p2 = o.p2 ∧ n.dist = ((pos12.act n.p2).sub n.p1).dot n1 ∧
    (n.p1.sub o.p1).normSq + (n.dist - o.dist) * (n.dist - o.dist) ≤ dsq ∧ (n.p1.sub o.p1).dot n1 = 0 ∧
    0 ≤ n.dist * o.dist ∧ pos12.act n.p2 = n.p1.add (n1.smul n.dist)

def Updated2 (pos12 : Iso2 K) (n1 : V2 K) (dsq : K) (o n : Contact2 K) : Prop :=
  letI := fieldNum K sq
  n.p2 = o.p2 ∧ n.dist = ((pos12.act n.p2).sub n.p1).dot n1 ∧
    (n.p1.sub o.p1).normSq + (n.dist - o.dist) * (n.dist - o.dist) ≤ dsq ∧ (n.p1.sub o.p1).dot n1 = 0 ∧
    0 ≤ n.dist * o.dist ∧ pos12.act n.p2 = n.p1.add (n1.smul n.dist)

/-- the algebra behind the warm start: with `d = (w − p)·n` and `|n| = 1`, the re-projected point
`p' = w − n d` satisfies `(w − p')·n = d`. -/
private theorem proj_identity3 (w p n : V3 K) (hn : letI := fieldNum K sq; n.dot n = 1) :
    letI := fieldNum K sq
    (w.sub p).dot n = (w.sub (w.sub (n.smul ((w.sub p).dot n)))).dot n := by
  simp only [V3.dot, V3.sub, V3.smul] at hn ⊢
  linear_combination (-((w.x - p.x) * n.x + (w.y - p.y) * n.y + (w.z - p.z) * n.z)) * hn

private theorem proj_identity2 (w p n : V2 K) (hn : letI := fieldNum K sq; n.dot n = 1) :
    letI := fieldNum K sq
    (w.sub p).dot n = (w.sub (w.sub (n.smul ((w.sub p).dot n)))).dot n := by
  simp only [V2.dot, V2.sub, V2.smul] at hn ⊢
  linear_combination (-((w.x - p.x) * n.x + (w.y - p.y) * n.y)) * hn

private theorem proj_orth3 (w p n : V3 K) (hn : letI := fieldNum K sq; n.dot n = 1) :
    letI := fieldNum K sq
    ((w.sub (n.smul ((w.sub p).dot n))).sub p).dot n = 0 := by
  simp only [V3.dot, V3.sub, V3.smul] at hn ⊢
  linear_combination (-((w.x - p.x) * n.x + (w.y - p.y) * n.y + (w.z - p.z) * n.z)) * hn

private theorem proj_orth2 (w p n : V2 K) (hn : letI := fieldNum K sq; n.dot n = 1) :
    letI := fieldNum K sq
    ((w.sub (n.smul ((w.sub p).dot n))).sub p).dot n = 0 := by
  simp only [V2.dot, V2.sub, V2.smul] at hn ⊢
  linear_combination (-((w.x - p.x) * n.x + (w.y - p.y) * n.y)) * hn

private theorem tucLoop3_sound (pos12 : Iso3 K) (n1 : V3 K) (dsq : K)
    (hn : letI := fieldNum K sq; n1.dot n1 = 1) (pts : List (Contact3 K)) :
    letI := fieldNum K sq
    (tucLoop3 pos12 n1 dsq pts).1 = true →
      List.Forall₂ (Updated3 sq pos12 n1 dsq) pts (tucLoop3 pos12 n1 dsq pts).2 := by
  induction pts with
  | nil => intro _; exact List.Forall₂.nil
  | cons pt rest ih =>
    intro h
    simp only [tucLoop3] at h ⊢
    split_ifs at h with h1 h2
    rw [if_neg h1, if_neg h2]
    refine List.Forall₂.cons ?_ (ih h)
    push Not at h1 h2
    refine ⟨rfl, proj_identity3 sq _ _ _ hn, h2, proj_orth3 sq _ _ _ hn, h1, ?_⟩
    apply V3.ext' <;> simp only [V3.add, V3.sub, V3.smul] <;> ring

/-- **C14 (a), 3-D.** If `try_update_contacts_eps(pos12, thr, dsq)` returns `true` on a manifold whose
`local_n1` is a unit vector, then: the manifold was non-empty; the normals are untouched and satisfy the
coded cosine test `−n1·(pos12·n2) ≥ thr`; and the new point list is position-wise related to the old one by
`Updated3` — in particular **every** contact has `dist = (pos12·local_p2 − local_p1)·local_n1` exactly,
`local_p2` unchanged, `local_p1` moved by at most `√dsq`, no sign switch. -/
theorem tuc3_true_sound (pos12 : Iso3 K) (m : Manifold3 K) (thr dsq : K)
    (hn : letI := fieldNum K sq; m.n1.dot m.n1 = 1)
    (h : letI := fieldNum K sq; (tuc3 pos12 m thr dsq).1 = true) :
    letI := fieldNum K sq
    let m' := (tuc3 pos12 m thr dsq).2
    m.points ≠ [] ∧ m'.n1 = m.n1 ∧ m'.n2 = m.n2 ∧ thr ≤ -(m.n1.dot (pos12.rot m.n2)) ∧
      List.Forall₂ (Updated3 sq pos12 m.n1 dsq) m.points m'.points := by
  simp only [tuc3] at h ⊢
  split_ifs at h with h1 h2
  rw [if_neg h1, if_neg h2]
  push Not at h2
  refine ⟨?_, rfl, rfl, h2, tucLoop3_sound sq pos12 m.n1 dsq hn m.points h⟩
  intro he; simp [he] at h1

private theorem tucLoop2_sound (pos12 : Iso2 K) (n1 : V2 K) (dsq : K)
    (hn : letI := fieldNum K sq; n1.dot n1 = 1) (pts : List (Contact2 K)) :
    letI := fieldNum K sq
    (tucLoop2 pos12 n1 dsq pts).1 = true →
      List.Forall₂ (Updated2 sq pos12 n1 dsq) pts (tucLoop2 pos12 n1 dsq pts).2 := by
  induction pts with
  | nil => intro _; exact List.Forall₂.nil
  | cons pt rest ih =>
    intro h
    simp only [tucLoop2] at h ⊢
    split_ifs at h with h1 h2
    rw [if_neg h1, if_neg h2]
    refine List.Forall₂.cons ?_ (ih h)
    push Not at h1 h2
    refine ⟨rfl, proj_identity2 sq _ _ _ hn, h2, proj_orth2 sq _ _ _ hn, h1, ?_⟩
    apply V2.ext' <;> simp only [V2.add, V2.sub, V2.smul] <;> ring

/-- **Warm-start drift bound (corrected behaviour).**  After an accepted update the witness of shape 2, seen
in the frame of shape 1, is within `√dsq` of where the previous call had left it (`old p1 + n1·old dist`): the
accepted step is a genuinely small motion of the contact, tangentially *and* along the normal.  On the pinned
tree only the tangential part is bounded and this statement is false (corpus/C14.txt). -/
theorem tuc3_motion_bound (pos12 : Iso3 K) (n1 : V3 K) (dsq : K) (o n : Contact3 K)
    (hn : letI := fieldNum K sq; n1.dot n1 = 1) (h : Updated3 sq pos12 n1 dsq o n) :
    letI := fieldNum K sq
    ((pos12.act n.p2).sub (o.p1.add (n1.smul o.dist))).normSq ≤ dsq := by
  obtain ⟨_, _, hb, ho, _, ha⟩ := h
  rw [ha]
  refine le_trans (le_of_eq ?_) hb
  simp only [V3.normSq, V3.dot, V3.sub, V3.add, V3.smul] at hn ho ⊢
  linear_combination ((n.dist - o.dist) * (n.dist - o.dist)) * hn + (2 * (n.dist - o.dist)) * ho

/-- **C14 (a), 2-D.** Same statement as `tuc3_true_sound` for the `dim2` variant. -/
theorem tuc2_true_sound (pos12 : Iso2 K) (m : Manifold2 K) (thr dsq : K)
    (hn : letI := fieldNum K sq; m.n1.dot m.n1 = 1)
    (h : letI := fieldNum K sq; (tuc2 pos12 m thr dsq).1 = true) :
    letI := fieldNum K sq
    let m' := (tuc2 pos12 m thr dsq).2
    m.points ≠ [] ∧ m'.n1 = m.n1 ∧ m'.n2 = m.n2 ∧ thr ≤ -(m.n1.dot (pos12.rot m.n2)) ∧
      List.Forall₂ (Updated2 sq pos12 m.n1 dsq) m.points m'.points := by
  simp only [tuc2] at h ⊢
  split_ifs at h with h1 h2
  rw [if_neg h1, if_neg h2]
  push Not at h2
  refine ⟨?_, rfl, rfl, h2, tucLoop2_sound sq pos12 m.n1 dsq hn m.points h⟩
  intro he; simp [he] at h1

/-- **the fast path never fires on an empty manifold, and leaves `local_p2`, the normals and the number of
contacts alone whatever it returns** (so a caller that recomputes after `false` only ever sees `local_p1`/`dist`
of a prefix of the contacts changed). -/
theorem tuc3_frame (pos12 : Iso3 K) (m : Manifold3 K) (thr dsq : K) :
    letI := fieldNum K sq
    let r := tuc3 pos12 m thr dsq
    r.2.n1 = m.n1 ∧ r.2.n2 = m.n2 ∧ r.2.points.map (·.p2) = m.points.map (·.p2) ∧
      (m.points = [] → r.1 = false) := by
  have hloop : ∀ pts : List (Contact3 K),
      (@tucLoop3 K (fieldNum K sq) pos12 m.n1 dsq pts).2.map (·.p2) = pts.map (·.p2) := by
    intro pts
    induction pts with
    | nil => rfl
    | cons pt rest ih =>
      simp only [tucLoop3]
      split_ifs <;> simp [ih]
  simp only [tuc3]
  split_ifs with h1 h2
  · simp
  · refine ⟨rfl, rfl, rfl, ?_⟩
    intro he; simp [he] at h1
  · refine ⟨rfl, rfl, hloop _, ?_⟩
    intro he; simp [he] at h1


/-- non-vacuity of `tuc3_true_sound`: a unit normal, one contact, a small translation step: accepted. -/
example : (tuc3 (K := ℚ) ⟨0, 0, 0, 1, ⟨1/1000, 0, 1⟩⟩ ⟨[⟨⟨0, 0, 0⟩, ⟨0, 0, 0⟩, 1⟩], ⟨0, 0, 1⟩, ⟨0, 0, -1⟩⟩
    (99984769515 / 100000000000) (1 / 1000000)).1 = true ∧ (⟨0, 0, 1⟩ : V3 ℚ).dot ⟨0, 0, 1⟩ = 1 := by
  norm_num [tuc3, tucLoop3, Iso3.rot, Iso3.rotQ, Iso3.qv, Iso3.act, V3.dot, V3.sub, V3.add, V3.smul, V3.cross,
    V3.normSq, two]

/-- … and a step that is too large is rejected (the theorem's hypothesis is not always true). -/
example : (tuc3 (K := ℚ) ⟨0, 0, 0, 1, ⟨1/100, 0, 1⟩⟩ ⟨[⟨⟨0, 0, 0⟩, ⟨0, 0, 0⟩, 1⟩], ⟨0, 0, 1⟩, ⟨0, 0, -1⟩⟩
    (99984769515 / 100000000000) (1 / 1000000)).1 = false := by
  norm_num [tuc3, tucLoop3, Iso3.rot, Iso3.rotQ, Iso3.qv, Iso3.act, V3.dot, V3.sub, V3.add, V3.smul, V3.cross,
    V3.normSq, two]

/-- non-vacuity of `tuc2_true_sound` -/
example : (tuc2 (K := ℚ) ⟨1, 0, ⟨1/1000, 1⟩⟩ ⟨[⟨⟨0, 0⟩, ⟨0, 0⟩, 1⟩], ⟨0, 1⟩, ⟨0, -1⟩⟩
    (99984769515 / 100000000000) (1 / 1000000)).1 = true ∧ (⟨0, 1⟩ : V2 ℚ).dot ⟨0, 1⟩ = 1 := by
  norm_num [tuc2, tucLoop2, Iso2.rot, Iso2.act, V2.dot, V2.sub, V2.add, V2.smul, V2.normSq]


/-- **C14 (a) with the documented constants.**  `try_update_contacts` (the wrapper the cuboid/cuboid and
cuboid/triangle generators call) keeps a manifold only if the stale normals are opposite up to the documented
1 degree — `−n1·(pos12·n2) ≥ 0.99984769515 = COS_1_DEGREES` — and every contact moved by at most
`√1e-6 = 1e-3`.  The constants are part of the model, so the bit-exact leg `tuc3_default`/`tuc2_default`
(rotations swept through 0.5°…6° about a pivot next to the contacts) pins them to the code. -/
theorem tuc3Default_sound (pos12 : Iso3 K) (m : Manifold3 K)
    (hn : letI := fieldNum K sq; m.n1.dot m.n1 = 1)
    (h : letI := fieldNum K sq; (tuc3Default pos12 m).1 = true) :
    letI := fieldNum K sq
    ((99984769515 / 100000000000 : ℚ) : K) ≤ -(m.n1.dot (pos12.rot m.n2)) ∧
      List.Forall₂ (Updated3 sq pos12 m.n1 ((1 / 1000000 : ℚ) : K)) m.points (tuc3Default pos12 m).2.points := by
  obtain ⟨_, _, _, h4, h5⟩ := tuc3_true_sound sq pos12 m _ _ hn h
  refine ⟨h4, ?_⟩
  have : @distSqThreshold K (fieldNum K sq) = ((1 / 1000000 : ℚ) : K) := by
    simp only [distSqThreshold, fieldNum_lit]; norm_num
  rw [← this]; exact h5

theorem tuc2Default_sound (pos12 : Iso2 K) (m : Manifold2 K)
    (hn : letI := fieldNum K sq; m.n1.dot m.n1 = 1)
    (h : letI := fieldNum K sq; (tuc2Default pos12 m).1 = true) :
    letI := fieldNum K sq
    ((99984769515 / 100000000000 : ℚ) : K) ≤ -(m.n1.dot (pos12.rot m.n2)) ∧
      List.Forall₂ (Updated2 sq pos12 m.n1 ((1 / 1000000 : ℚ) : K)) m.points (tuc2Default pos12 m).2.points := by
  obtain ⟨_, _, _, h4, h5⟩ := tuc2_true_sound sq pos12 m _ _ hn h
  refine ⟨h4, ?_⟩
  have : @distSqThreshold K (fieldNum K sq) = ((1 / 1000000 : ℚ) : K) := by
    simp only [distSqThreshold, fieldNum_lit]; norm_num
  rw [← this]; exact h5

/-- non-vacuity and sharpness at the documented angle: a rotation whose cosine is `0.9999 ≥ COS_1_DEGREES`
(≈ 0.81°) about the contact point is kept, one with cosine `0.9996 < COS_1_DEGREES` (≈ 1.62°) is not — although
no contact point moves at all. -/
example : (tuc2Default (K := ℚ) ⟨9999/10000, 0, ⟨0, 0⟩⟩ ⟨[⟨⟨0, 0⟩, ⟨0, 0⟩, 0⟩], ⟨0, 1⟩, ⟨0, -1⟩⟩).1 = true ∧
    (tuc2Default (K := ℚ) ⟨9996/10000, 0, ⟨0, 0⟩⟩ ⟨[⟨⟨0, 0⟩, ⟨0, 0⟩, 0⟩], ⟨0, 1⟩, ⟨0, -1⟩⟩).1 = false := by
  norm_num [tuc2Default, tuc2, tucLoop2, cos1deg, distSqThreshold, lit, Num.ofRat, Iso2.rot, Iso2.act, V2.dot,
    V2.sub, V2.add, V2.smul, V2.normSq]

/-! ## `find_deepest_contact` -/

private theorem deepestGo_spec (all : List K) :
    ∀ (ds pre : List K) (best : Nat) (bestD : K), all = pre ++ ds → all[best]? = some bestD →
    (∀ (j : Nat) (w : K), j < pre.length → all[j]? = some w → bestD ≤ w) →
    (∀ (j : Nat) (w : K), j < best → all[j]? = some w → bestD < w) →
    letI := fieldNum K sq
    ∃ v, all[deepestGo best bestD pre.length ds]? = some v ∧
      (∀ (j : Nat) (w : K), all[j]? = some w → v ≤ w) ∧
      (∀ (j : Nat) (w : K), j < deepestGo best bestD pre.length ds → all[j]? = some w → v < w) := by
  intro ds
  induction ds with
  | nil =>
    intro pre best bestD hall hb h1 h2
    simp only [deepestGo]
    refine ⟨bestD, hb, ?_, h2⟩
    intro j w hw
    have hj : j < pre.length := by
      rcases Nat.lt_or_ge j all.length with h | h
      · simpa [hall] using h
      · rw [List.getElem?_eq_none h] at hw; cases hw
    exact h1 j w hj hw
  | cons d ds ih =>
    intro pre best bestD hall hb h1 h2
    have hd : all[pre.length]? = some d := by simp [hall]
    have hall' : all = (pre ++ [d]) ++ ds := by simp [hall]
    have hlen' : (pre ++ [d]).length = pre.length + 1 := by simp
    simp only [deepestGo]
    by_cases hlt : d < bestD
    · rw [if_pos hlt]
      have := ih (pre ++ [d]) pre.length d hall' hd
        (by
          intro j w hjp hw
          rw [hlen'] at hjp
          rcases Nat.lt_or_ge j pre.length with h | h
          · exact le_of_lt (lt_of_lt_of_le hlt (h1 j w h hw))
          · have : j = pre.length := by omega
            subst this; rw [hd] at hw; cases hw; exact le_rfl)
        (by
          intro j w hjp hw
          exact lt_of_lt_of_le hlt (h1 j w hjp hw))
      rw [hlen'] at this
      exact this
    · rw [if_neg hlt]
      push Not at hlt
      have := ih (pre ++ [d]) best bestD hall' hb
        (by
          intro j w hjp hw
          rw [hlen'] at hjp
          rcases Nat.lt_or_ge j pre.length with h | h
          · exact h1 j w h hw
          · have : j = pre.length := by omega
            subst this; rw [hd] at hw; cases hw; exact hlt)
        h2
      rw [hlen'] at this
      exact this

/-- **`find_deepest_contact`**: `None` exactly on an empty manifold; otherwise the index of a contact of
minimal `dist`, and the *first* such contact (every earlier contact is strictly shallower). -/
theorem deepest_spec (ds : List K) :
    letI := fieldNum K sq
    match deepest ds with
    | none => ds = []
    | some i => ∃ v, ds[i]? = some v ∧ (∀ (j : Nat) (w : K), ds[j]? = some w → v ≤ w) ∧
        (∀ (j : Nat) (w : K), j < i → ds[j]? = some w → v < w) := by
  cases ds with
  | nil => simp [deepest]
  | cons d rest =>
    simp only [deepest]
    exact deepestGo_spec sq (d :: rest) (d :: rest) [] 0 d rfl (by simp)
      (by intro j w h; simp at h) (by intro j w h; omega)

/-! ## (b) the closed-form generators -/

/-- The property's per-contact clause at pose `pos12`: `dist = (pos12·local_p2 − local_p1)·local_n1`, and the
two witnesses lie in the given sets (`S1` in the frame of shape 1, `S2` in the frame of shape 2). -/
def GoodContact3 (pos12 : Iso3 K) (n1 : V3 K) (S1 S2 : V3 K → Prop) (c : Contact3 K) : Prop :=
  letI := fieldNum K sq
  c.dist = ((pos12.act c.p2).sub c.p1).dot n1 ∧ S1 c.p1 ∧ S2 c.p2

/-- The property's per-manifold clause: unit normals, exactly opposite (`pos12·n2 = −n1`, which is stronger
than the 1° warm-start tolerance), and every contact good. -/
def GoodManifold3 (pos12 : Iso3 K) (S1 S2 : V3 K → Prop) (m : Manifold3 K) : Prop :=
  letI := fieldNum K sq
  m.n1.dot m.n1 = 1 ∧ m.n2.dot m.n2 = 1 ∧ pos12.rot m.n2 = m.n1.neg ∧
    ∀ c ∈ m.points, GoodContact3 sq pos12 m.n1 S1 S2 c

/-- the surface of the ball of radius `r` (a subset of `Ball.Mem3`) -/
def Sphere3 (r : K) (p : V3 K) : Prop := letI := fieldNum K sq; p.normSq = r * r

/-- **C14 (b), ball/ball.**  With `d = |t| − r1 − r2` (the signed distance of the two balls): no contact iff
`¬ d < prediction`; otherwise exactly one contact, of distance `d`, and the manifold is good with witnesses on
the two spheres.  (`m.points.length ≤ 1` is what the dispatcher guarantees: the manifold starts empty and only
this generator writes to it; stale extra points of a foreign manifold are kept by the code.) -/
theorem ballBall3_spec (hs : LawfulSqrt sq) (pos12 : Iso3 K) (r1 r2 pred : K) (m : Manifold3 K)
    (hq : UnitQ pos12) (hm : m.points.length ≤ 1) :
    letI := fieldNum K sq
    let m' := ballBall3 pos12 r1 r2 pred m
    let d := pos12.t.norm - r1 - r2
    (¬ d < pred → m'.points = []) ∧
    (d < pred → (∃ c, m'.points = [c] ∧ c.dist = d) ∧
      GoodManifold3 sq pos12 (Sphere3 sq r1) (Sphere3 sq r2) m') := by
  intro m' d
  constructor
  · intro h
    simp only [m', ballBall3, d] at h ⊢
    rw [if_neg h]; rfl
  · intro h
    have hpts : ∀ c : Contact3 K, setFirst c m.points = [c] := by
      intro c
      match hmp : m.points with
      | [] => rfl
      | [_] => rfl
      | _ :: _ :: _ => rw [hmp] at hm; simp at hm
    simp only [m', ballBall3, d] at h ⊢
    rw [if_pos h]
    simp only [hpts]
    by_cases hz : @V3.norm K (fieldNum K sq) pos12.t = 0
    · -- coincident centres: `Vector::y()`
      have ht := norm_zero3 sq hs pos12.t hz
      have hneq : @neq K (fieldNum K sq) (@V3.norm K (fieldNum K sq) pos12.t) 0 = true := by
        simp [neq, hz]
      simp only [hneq, Bool.not_true, Bool.false_eq_true, if_false]
      have hn : @V3.dot K (fieldNum K sq) ⟨0, 1, 0⟩ ⟨0, 1, 0⟩ = 1 := by simp [V3.dot]
      obtain ⟨b1, b2, b3, b3', b4, b5⟩ := ball_contact3 sq pos12 hq ⟨0, 1, 0⟩ r1 r2 hn
      refine ⟨⟨_, rfl, ?_⟩, hn, b1, b2, ?_⟩
      · rw [hz]
      · intro c hc
        simp only [List.mem_singleton] at hc
        subst hc
        refine ⟨?_, b4, b5⟩
        simp only []
        rw [b3, b3', hz, ht]; simp [V3.dot]
    · have hneq : @neq K (fieldNum K sq) (@V3.norm K (fieldNum K sq) pos12.t) 0 = false := by
        simp only [neq, Bool.and_eq_false_imp, decide_eq_true_eq, decide_eq_false_iff_not]
        intro h1 h2; exact hz (le_antisymm h1 h2)
      simp only [hneq, Bool.not_false, if_true]
      obtain ⟨hn, hd⟩ := normalize3 sq hs pos12.t hz
      obtain ⟨b1, b2, b3, b3', b4, b5⟩ := ball_contact3 sq pos12 hq _ r1 r2 hn
      refine ⟨⟨_, rfl, rfl⟩, hn, b1, b2, ?_⟩
      intro c hc
      simp only [List.mem_singleton] at hc
      subst hc
      refine ⟨?_, b4, b5⟩
      simp only []
      rw [b3, b3', hd]

/-- **C14 (b), convex/ball, unflipped.**  `proj` is any projection function (the first shape is abstract). -/
theorem convexBall3_spec (hs : LawfulSqrt sq) (proj : V3 K → Bool × V3 K) (pos12 : Iso3 K) (r2 pred : K)
    (m : Manifold3 K) (hq : UnitQ pos12) :
    letI := fieldNum K sq
    let m' := convexBall3 proj pos12 r2 pred false m
    let pr := proj pos12.t
    let d := (if pr.1 then -((pos12.t.sub pr.2).norm) else (pos12.t.sub pr.2).norm) - r2
    (¬ d ≤ pred → m'.points = []) ∧
    (d ≤ pred → (∃ c, m'.points = [c] ∧ c.p1 = pr.2 ∧ c.dist = d) ∧
      GoodManifold3 sq pos12 (fun p => p = pr.2) (Sphere3 sq r2) m') := by
  intro m' pr d
  obtain ⟨hn, hdot, he⟩ := contactNormal3_spec sq hs (@V3.sub K (fieldNum K sq) pos12.t pr.2) pos12.t
  simp only [m', convexBall3, convexBallOut3]
  generalize hnd : @contactNormal3 K (fieldNum K sq) (@V3.sub K (fieldNum K sq) pos12.t (proj pos12.t).2) pos12.t = nd at *
  obtain ⟨n, e⟩ := nd
  simp only [pr] at hn hdot he
  simp only [] at hn hdot he ⊢
  by_cases hin : pr.1 = true
  · -- inside: normal and distance are negated
    have hin' : (proj pos12.t).1 = true := hin
    have hnn : @V3.dot K (fieldNum K sq) (@V3.neg K (fieldNum K sq) n) (@V3.neg K (fieldNum K sq) n) = 1 := by
      simp only [V3.dot, V3.neg] at hn ⊢; linear_combination hn
    obtain ⟨b1, b2, b3, _, _, b5⟩ := ball_contact3 sq pos12 hq (@V3.neg K (fieldNum K sq) n) 0 r2 hnn
    have hd : d = -e - r2 := by simp only [d, hin, if_true, he]; rfl
    simp only [hin', if_true, Bool.false_eq_true, if_false]
    constructor
    · intro h; rw [hd] at h; rw [if_neg (by linarith)]; rfl
    · intro h; rw [hd] at h; rw [if_pos (by linarith)]
      refine ⟨⟨_, rfl, rfl, by simp [Contact3.flipped, hd]⟩, hnn, b1, b2, ?_⟩
      intro c hc
      simp only [List.mem_singleton] at hc
      subst hc
      refine ⟨?_, rfl, b5⟩
      simp only [Contact3.flipped, Bool.not_false, if_true]
      rw [b3]
      simp only [V3.dot, V3.neg] at hdot ⊢
      linear_combination hdot
  · have hin' : (proj pos12.t).1 = false := by simpa using hin
    obtain ⟨b1, b2, b3, _, _, b5⟩ := ball_contact3 sq pos12 hq n 0 r2 hn
    have hd : d = e - r2 := by simp only [d, hin, he]; rfl
    simp only [hin', Bool.false_eq_true, if_false]
    constructor
    · intro h; rw [hd] at h; rw [if_neg (by linarith)]; rfl
    · intro h; rw [hd] at h; rw [if_pos (by linarith)]
      refine ⟨⟨_, rfl, rfl, by simp [Contact3.flipped, hd]⟩, hn, b1, b2, ?_⟩
      intro c hc
      simp only [List.mem_singleton] at hc
      subst hc
      refine ⟨?_, rfl, b5⟩
      simp only [Contact3.flipped, Bool.not_false, if_true]
      rw [b3, hdot]

/-- swapping the roles of the two shapes (`TrackedContact::flipped` + the normal swap of the `flipped` arms) -/
def Contact3.swap (c : Contact3 K) : Contact3 K := ⟨c.p2, c.p1, c.dist⟩
def Manifold3.swap (m : Manifold3 K) : Manifold3 K := ⟨m.points.map Contact3.swap, m.n2, m.n1⟩


/-- **flip**: a manifold good for `(shape A, shape B)` at pose `pos12⁻¹` is, with the roles swapped, good for
`(shape B, shape A)` at pose `pos12`. -/
theorem good_swap3 (pos12 : Iso3 K) (hq : UnitQ pos12) (S1 S2 : V3 K → Prop) (m : Manifold3 K)
    (h : letI := fieldNum K sq; GoodManifold3 sq pos12.inverse S1 S2 m) :
    GoodManifold3 sq pos12 S2 S1 m.swap := by
  obtain ⟨u1, u2, opp, hc⟩ := h
  rw [inverse_rot3] at opp
  have opp' : @Iso3.rot K (fieldNum K sq) pos12 m.n1 = @V3.neg K (fieldNum K sq) m.n2 := by
    have := congrArg (@Iso3.rot K (fieldNum K sq) pos12) opp
    rw [rot_invRot3 sq pos12 _ hq, rot_neg3] at this
    rw [this]; apply V3.ext' <;> simp [V3.neg]
  refine ⟨u2, u1, opp', ?_⟩
  intro c hcm
  simp only [Manifold3.swap, List.mem_map] at hcm
  obtain ⟨c0, hc0, rfl⟩ := hcm
  obtain ⟨id0, w1, w2⟩ := hc c0 hc0
  refine ⟨?_, w2, w1⟩
  simp only [Contact3.swap, Manifold3.swap]
  rw [id0, act_sub_dot3 sq pos12 hq, inverse_act3]
  have : @Iso3.invRot K (fieldNum K sq) pos12 m.n2 = @V3.neg K (fieldNum K sq) m.n1 := opp
  rw [this]
  simp only [V3.dot, V3.sub, V3.neg]
  ring


private theorem convexBall3_flip (proj : V3 K → Bool × V3 K) (P : Iso3 K) (r pred : K) (m : Manifold3 K) :
    letI := fieldNum K sq
    ((convexBall3 proj P r pred true m).points = [] ∧ (convexBall3 proj P r pred false m).points = []) ∨
    convexBall3 proj P r pred true m = (convexBall3 proj P r pred false m).swap := by
  simp only [convexBall3]
  generalize (if (proj P.t).1 = true then _ else _ : V3 K × K) = nd
  simp only [convexBallOut3, ↓reduceIte, Bool.false_eq_true]
  by_cases h : nd.2 ≤ r + pred
  · right; simp [h, Manifold3.swap, Contact3.swap, Contact3.flipped]
  · left; simp [h, Manifold3.clear]

private theorem halfspacePfm3_flip (feat : V3 K → List (V3 K)) (P : Iso3 K) (n : V3 K) (br pred : K) :
    letI := fieldNum K sq
    halfspacePfm3 feat P n br pred true = (halfspacePfm3 feat P n br pred false).swap := by
  simp only [halfspacePfm3, Manifold3.swap, Bool.false_eq_true, if_false, if_true, List.map_filterMap]
  congr 1
  apply List.filterMap_congr
  intro v _
  split_ifs <;> simp [Contact3.swap, Contact3.flipped]

/-- the boundary plane of the half-space `{p | n·p ≤ 0}` -/
def Plane3 (n : V3 K) (p : V3 K) : Prop := letI := fieldNum K sq; n.dot p = 0
/-- within distance exactly `br` of one of the feature vertices `vs` (so inside the shape rounded by `br`) -/
def NearVertex3 (vs : List (V3 K)) (br : K) (p : V3 K) : Prop :=
  letI := fieldNum K sq
  ∃ v ∈ vs, (p.sub v).normSq = br * br

/-- **C14 (b), half-space/pfm, unflipped**, for *any* polygonal feature map `feat`.  The manifold is good at
`pos12` with `local_n1` = the half-space normal, every `local_p1` on the boundary plane, every `local_p2` at
distance exactly `border_radius` from a vertex of the support feature; every kept contact has
`dist ≤ prediction`, and every feature vertex within `prediction` (after the border radius) yields a contact. -/
theorem halfspacePfm3_spec (feat : V3 K → List (V3 K)) (pos12 : Iso3 K) (n : V3 K) (br pred : K)
    (hq : UnitQ pos12) (hn : letI := fieldNum K sq; n.dot n = 1) :
    letI := fieldNum K sq
    let m' := halfspacePfm3 feat pos12 n br pred false
    let vs := feat (pos12.invRot n).neg
    GoodManifold3 sq pos12 (Plane3 sq n) (NearVertex3 sq vs br) m' ∧ m'.n1 = n ∧
    (∀ c ∈ m'.points, c.dist ≤ pred) ∧
    (∀ v ∈ vs, (pos12.act v).dot n - br ≤ pred → ∃ c ∈ m'.points, c.dist = (pos12.act v).dot n - br) := by
  intro m' vs
  have hn12 : @V3.dot K (fieldNum K sq) (@Iso3.invRot K (fieldNum K sq) pos12 n) (@Iso3.invRot K (fieldNum K sq) pos12 n) = 1 := by
    rw [invRot_dot3 sq pos12 n n hq]; exact hn
  have hrot := rot_invRot3 sq pos12 n hq
  simp only [m', vs, halfspacePfm3, Bool.false_eq_true, if_false]
  refine ⟨⟨hn, ?_, ?_, ?_⟩, trivial, ?_, ?_⟩
  · simp only [V3.dot, V3.neg] at hn12 ⊢; linear_combination hn12
  · rw [rot_neg3, hrot]
  · intro c hc
    simp only [List.mem_filterMap] at hc
    obtain ⟨v, hv, hcv⟩ := hc
    split_ifs at hcv with hle
    simp only [Option.some.injEq] at hcv
    subst hcv
    simp only [Contact3.flipped, Bool.not_false, if_true]
    refine ⟨?_, ?_, v, hv, ?_⟩
    · have : @Iso3.act K (fieldNum K sq) pos12 (@V3.sub K (fieldNum K sq) v (@V3.smul K (fieldNum K sq) (@Iso3.invRot K (fieldNum K sq) pos12 n) br))
          = @V3.sub K (fieldNum K sq) (@Iso3.act K (fieldNum K sq) pos12 v) (@V3.smul K (fieldNum K sq) n br) := by
        simp only [Iso3.act]; rw [rot_sub3, rot_smul3, hrot]
        apply V3.ext' <;> simp only [V3.add, V3.sub] <;> ring
      rw [this]
      simp only [V3.dot, V3.sub, V3.smul] at hn ⊢
      linear_combination (br - ((@Iso3.act K (fieldNum K sq) pos12 v).x * n.x + (@Iso3.act K (fieldNum K sq) pos12 v).y * n.y
        + (@Iso3.act K (fieldNum K sq) pos12 v).z * n.z)) * hn
    · simp only [Plane3, V3.dot, V3.sub, V3.smul] at hn ⊢
      linear_combination (-((@Iso3.act K (fieldNum K sq) pos12 v).x * n.x + (@Iso3.act K (fieldNum K sq) pos12 v).y * n.y
        + (@Iso3.act K (fieldNum K sq) pos12 v).z * n.z)) * hn
    · simp only [V3.normSq, V3.dot, V3.sub, V3.smul] at hn12 ⊢
      linear_combination (br * br) * hn12
  · intro c hc
    simp only [List.mem_filterMap] at hc
    obtain ⟨v, _, hcv⟩ := hc
    split_ifs at hcv with hle
    simp only [Option.some.injEq] at hcv
    subst hcv
    simpa [Contact3.flipped] using hle
  · intro v hv hle
    refine ⟨_, List.mem_filterMap.mpr ⟨v, hv, by rw [if_pos hle]⟩, ?_⟩
    simp [Contact3.flipped]


/-- **C14 (b), convex/ball through `contact_manifold_convex_ball_shapes`, both argument orders.**  Either no
contact, or the manifold is good at `pos12`; the ball's witness is on its sphere, the other witness is the
projection `proj` of the ball centre (expressed in that shape's frame) — "on the shape" by the projection's
own postcondition (C05; for a cuboid see `cuboidProject3_mem`). -/
theorem convexBallShapes3_good (hs : LawfulSqrt sq) (proj : V3 K → Bool × V3 K) (ballFirst : Bool)
    (pos12 : Iso3 K) (r pred : K) (m : Manifold3 K) (hq : UnitQ pos12) :
    letI := fieldNum K sq
    let m' := convexBallShapes3 proj ballFirst pos12 r pred m
    m'.points = [] ∨
      (if ballFirst then GoodManifold3 sq pos12 (Sphere3 sq r) (fun p => p = (proj pos12.inverse.t).2) m'
       else GoodManifold3 sq pos12 (fun p => p = (proj pos12.t).2) (Sphere3 sq r) m') := by
  intro m'
  cases ballFirst with
  | false =>
    obtain ⟨h1, h2⟩ := convexBall3_spec sq hs proj pos12 r pred m hq
    simp only [m', convexBallShapes3, Bool.false_eq_true, if_false] at *
    by_cases hd : (if (proj pos12.t).1 = true then -(@V3.norm K (fieldNum K sq) (@V3.sub K (fieldNum K sq) pos12.t (proj pos12.t).2))
        else @V3.norm K (fieldNum K sq) (@V3.sub K (fieldNum K sq) pos12.t (proj pos12.t).2)) - r ≤ pred
    · exact Or.inr (h2 hd).2
    · exact Or.inl (h1 hd)
  | true =>
    have hqi := unitQ_inverse sq pos12 hq
    obtain ⟨h1, h2⟩ := convexBall3_spec sq hs proj (@Iso3.inverse K (fieldNum K sq) pos12) r pred m hqi
    simp only [m', convexBallShapes3, if_true] at *
    rcases convexBall3_flip sq proj (@Iso3.inverse K (fieldNum K sq) pos12) r pred m with hf | hf
    · exact Or.inl hf.1
    · rw [hf]
      by_cases hd : (if (proj (@Iso3.inverse K (fieldNum K sq) pos12).t).1 = true then
            -(@V3.norm K (fieldNum K sq) (@V3.sub K (fieldNum K sq) (@Iso3.inverse K (fieldNum K sq) pos12).t (proj (@Iso3.inverse K (fieldNum K sq) pos12).t).2))
          else @V3.norm K (fieldNum K sq) (@V3.sub K (fieldNum K sq) (@Iso3.inverse K (fieldNum K sq) pos12).t (proj (@Iso3.inverse K (fieldNum K sq) pos12).t).2)) - r ≤ pred
      · exact Or.inr (good_swap3 sq pos12 hq _ _ _ (h2 hd).2)
      · left; simp [Manifold3.swap, h1 hd]

/-- **C14 (b), half-space/pfm through the two half-space arms of `contact_manifold_convex_convex`, both
argument orders**, for any polygonal feature map. -/
theorem halfspaceDispatch3_good (feat : V3 K → List (V3 K)) (hsFirst : Bool) (pos12 : Iso3 K) (n : V3 K)
    (br pred : K) (hq : UnitQ pos12) (hn : letI := fieldNum K sq; n.dot n = 1) :
    letI := fieldNum K sq
    let m' := halfspaceDispatch3 feat hsFirst pos12 n br pred
    if hsFirst then GoodManifold3 sq pos12 (Plane3 sq n) (NearVertex3 sq (feat (pos12.invRot n).neg) br) m'
    else GoodManifold3 sq pos12 (NearVertex3 sq (feat (pos12.inverse.invRot n).neg) br) (Plane3 sq n) m' := by
  intro m'
  cases hsFirst with
  | true =>
    simp only [m', halfspaceDispatch3, if_true]
    exact (halfspacePfm3_spec sq feat pos12 n br pred hq hn).1
  | false =>
    simp only [m', halfspaceDispatch3, Bool.false_eq_true, if_false]
    rw [halfspacePfm3_flip]
    exact good_swap3 sq pos12 hq _ _ _
      (halfspacePfm3_spec sq feat (@Iso3.inverse K (fieldNum K sq) pos12) n br pred (unitQ_inverse sq pos12 hq) hn).1

/-! ## the two concrete shape functions used by the correspondence: cuboid projection and support face -/

-- `fieldCopysign` (copysign at the lawful instance) now lives in `Lemmas.lean` (shared with `Theorems4.lean`)

/-- every vertex of `Cuboid::support_face` is a point of the cuboid (so the `local_p2` witnesses of
half-space/cuboid contacts lie in the cuboid rounded by the border radius) -/
theorem cuboidSupportFace3_mem (he dir : V3 K) (hx : 0 ≤ he.x) (hy : 0 ≤ he.y) (hz : 0 ≤ he.z) :
    letI := fieldNum K sq
    letI := fieldCopysign K
    ∀ v ∈ cuboidSupportFace3 he dir, (Cuboid3.mk he).Mem v := by
  intro v hv
  simp only [cuboidSupportFace3, HasCopysign.copysign, abs_one] at hv
  split_ifs at hv <;>
    (simp only [List.mem_cons, List.not_mem_nil, or_false] at hv
     rcases hv with rfl | rfl | rfl | rfl <;>
       simp only [Cuboid3.Mem] <;> refine ⟨⟨?_, ?_⟩, ⟨?_, ?_⟩, ?_, ?_⟩ <;> linarith)

private theorem shift_zero_iff (h p : K) (hh : 0 ≤ h) :
    (max (-h - p) 0 - max (p - h) 0 = 0) ↔ (-h ≤ p ∧ p ≤ h) := by
  constructor
  · intro e
    rcases le_total (-h - p) 0 with h1 | h1 <;> rcases le_total (p - h) 0 with h2 | h2 <;>
      simp only [max_eq_right, max_eq_left, h1, h2] at e <;> constructor <;> linarith
  · rintro ⟨h1, h2⟩
    rw [max_eq_right (by linarith), max_eq_right (by linarith)]; ring

private theorem shift_mem (h p : K) (hh : 0 ≤ h) :
    -h ≤ p + (max (-h - p) 0 - max (p - h) 0) ∧ p + (max (-h - p) 0 - max (p - h) 0) ≤ h := by
  rcases le_total (-h - p) 0 with h1 | h1 <;> rcases le_total (p - h) 0 with h2 | h2 <;>
    simp only [max_eq_right, max_eq_left, h1, h2] <;> constructor <;> linarith

private theorem projStep_cases (a b : K) (i : Nat) (st : ProjSt K) :
    letI := fieldNum K sq
    projStep a b i st = st ∨ projStep a b i st = ⟨b, false, i⟩ ∨ projStep a b i st = ⟨a, true, i⟩ := by
  simp only [projStep]; split_ifs <;> simp

private theorem projStep_first (a b f : K) (h : -f < a ∨ -f < b) :
    letI := fieldNum K sq
    projStep a b 0 ⟨-f, false, 0⟩ = ⟨b, false, 0⟩ ∨ projStep a b 0 ⟨-f, false, 0⟩ = ⟨a, true, 0⟩ := by
  simp only [projStep]
  split_ifs with h1 h2 h3
  · left; rfl
  · exfalso; rcases h with h | h <;> linarith
  · right; rfl
  · exfalso; rcases h with h | h <;> linarith

private theorem projFinal_cases (a0 b0 a1 b1 a2 b2 f : K) (h : -f < a0 ∨ -f < b0) :
    letI := fieldNum K sq
    let st3 := projStep a2 b2 2 (projStep a1 b1 1 (projStep a0 b0 0 ⟨-f, false, 0⟩))
    st3 = ⟨b0, false, 0⟩ ∨ st3 = ⟨a0, true, 0⟩ ∨ st3 = ⟨b1, false, 1⟩ ∨
        st3 = ⟨a1, true, 1⟩ ∨ st3 = ⟨b2, false, 2⟩ ∨ st3 = ⟨a2, true, 2⟩ := by
  intro st3
  have h1 := projStep_first sq a0 b0 f h
  have h2 := projStep_cases sq a1 b1 1 (@projStep K (fieldNum K sq) a0 b0 0 ⟨-f, false, 0⟩)
  have h3 := projStep_cases sq a2 b2 2 (@projStep K (fieldNum K sq) a1 b1 1 (@projStep K (fieldNum K sq) a0 b0 0 ⟨-f, false, 0⟩))
  simp only [st3]
  rcases h3 with h3 | h3 | h3
  · rw [h3]
    rcases h2 with h2 | h2 | h2
    · rw [h2]; rcases h1 with h1 | h1 <;> simp [h1]
    · simp [h2]
    · simp [h2]
  · simp [h3]
  · simp [h3]

/-- **`Cuboid::project_local_point_and_get_feature` (the `proj` of cuboid/ball contacts)**: the returned point
is a point of the cuboid, and `is_inside` is exactly membership of the query point.  (`he.x < f64::MAX` is what
makes the `best = -MAX` sentinel of the inside branch work.) -/
theorem cuboidProject3_mem (he pt : V3 K) (hx : 0 ≤ he.x) (hy : 0 ≤ he.y) (hz : 0 ≤ he.z)
    (hmax : letI := fieldNum K sq; he.x < fmax) :
    letI := fieldNum K sq
    (Cuboid3.mk he).Mem (cuboidProject3 he pt).2 ∧
    ((cuboidProject3 he pt).1 = true ↔ (Cuboid3.mk he).Mem pt) := by
  have ex := shift_zero_iff he.x pt.x hx
  have ey := shift_zero_iff he.y pt.y hy
  have ez := shift_zero_iff he.z pt.z hz
  have mx := shift_mem he.x pt.x hx
  have my := shift_mem he.y pt.y hy
  have mz := shift_mem he.z pt.z hz
  simp only [cuboidProject3, V3.sup, V3.sub, V3.neg, V3.add, V3.zero, neq, fieldNum_nmax, Cuboid3.Mem]
  by_cases hin : (-he.x ≤ pt.x ∧ pt.x ≤ he.x) ∧ (-he.y ≤ pt.y ∧ pt.y ≤ he.y) ∧ (-he.z ≤ pt.z ∧ pt.z ≤ he.z)
  · obtain ⟨⟨i1, i2⟩, ⟨i3, i4⟩, i5, i6⟩ := hin
    have zx := ex.mpr ⟨i1, i2⟩
    have zy := ey.mpr ⟨i3, i4⟩
    have zz := ez.mpr ⟨i5, i6⟩
    simp only [zx, zy, zz, le_refl, decide_true, Bool.and_self, Bool.not_true, Bool.false_eq_true, if_false]
    refine ⟨?_, by simp [i1, i2, i3, i4, i5, i6]⟩
    rcases projFinal_cases sq (-he.x - pt.x) (pt.x - he.x) (-he.y - pt.y) (pt.y - he.y) (-he.z - pt.z) (pt.z - he.z)
      (@fmax K (fieldNum K sq)) (by rcases le_total pt.x 0 with h | h; · left; linarith
                                    · right; linarith) with h | h | h | h | h | h <;>
      simp only [h, V3.set] <;> refine ⟨⟨?_, ?_⟩, ⟨?_, ?_⟩, ?_, ?_⟩ <;> norm_num <;> try linarith
  · have hne : ¬ ((max (-he.x - pt.x) 0 - max (pt.x - he.x) 0 = 0) ∧ (max (-he.y - pt.y) 0 - max (pt.y - he.y) 0 = 0)
        ∧ (max (-he.z - pt.z) 0 - max (pt.z - he.z) 0 = 0)) := by
      rw [ex, ey, ez]; exact hin
    have hdec : (decide (max (-he.x - pt.x) 0 - max (pt.x - he.x) 0 ≤ 0) && decide (0 ≤ max (-he.x - pt.x) 0 - max (pt.x - he.x) 0) &&
        (decide (max (-he.y - pt.y) 0 - max (pt.y - he.y) 0 ≤ 0) && decide (0 ≤ max (-he.y - pt.y) 0 - max (pt.y - he.y) 0)) &&
        (decide (max (-he.z - pt.z) 0 - max (pt.z - he.z) 0 ≤ 0) && decide (0 ≤ max (-he.z - pt.z) 0 - max (pt.z - he.z) 0))) = false := by
      by_contra hc
      simp only [Bool.not_eq_false, Bool.and_eq_true, decide_eq_true_eq] at hc
      exact hne ⟨le_antisymm hc.1.1.1 hc.1.1.2, le_antisymm hc.1.2.1 hc.1.2.2, le_antisymm hc.2.1 hc.2.2⟩
    simp only [hdec, Bool.not_false, if_true]
    exact ⟨⟨mx, my, mz⟩, by simpa using hin⟩

/-- non-vacuity of the generator theorems' hypotheses: a rational unit quaternion (a rotation by ≈ 73.7° about
`x`), a rational unit half-space normal, an empty initial manifold.  (`LawfulSqrt` holds for `Real.sqrt` on `ℝ`;
it cannot hold on `ℚ`.) -/
example : UnitQ (⟨3/5, 0, 0, 4/5, ⟨1, 2, 3⟩⟩ : Iso3 ℚ) ∧ (⟨3/5, 4/5, 0⟩ : V3 ℚ).dot ⟨3/5, 4/5, 0⟩ = 1 ∧
    (Manifold3.new : Manifold3 ℚ).points.length ≤ 1 := by
  norm_num [UnitQ, V3.dot, Manifold3.new]

set_option exponentiation.threshold 2000 in
/-- non-vacuity of `cuboidProject3_mem` / `cuboidSupportFace3_mem` -/
example : (0 : ℚ) ≤ 1 ∧ (1 : ℚ) < fmax := by
  norm_num [fmax, Num.ofRat]

/-! ## the workspace bookkeeping of `contact_manifolds_composite_shape_shape` -/

section Bookkeeping
variable {α β : Type}

/-- the label fields of a manifold -/
def WManifold.labels (m : WManifold α β) : Nat × Nat × Option β × Option β :=
  (m.subshape1, m.subshape2, m.pos1, m.pos2)

/-- the manifold a part starts this call from: its own manifold of the previous call if it had one, a fresh
one otherwise -/
def prevManifold (fresh : Nat → WManifold α β) (ws : Workspace) (ms : List (WManifold α β)) (leaf : Nat) :
    WManifold α β :=
  match ws.sub leaf with
  | some sd => (ms[sd.manifoldId]?).getD (fresh leaf)
  | none => fresh leaf

/-- the state invariant between calls: every map entry carries the current timestamp and points at a manifold
labelled with its part; distinct parts point at distinct manifolds; every manifold is pointed at. -/
structure WsInv (fresh : Nat → WManifold α β) (ws : Workspace) (ms : List (WManifold α β)) : Prop where
  entry : ∀ leaf sd, ws.sub leaf = some sd →
    sd.timestamp = ws.timestamp ∧ ∃ m, ms[sd.manifoldId]? = some m ∧ m.labels = (fresh leaf).labels
  inj : ∀ l1 l2 sd1 sd2, ws.sub l1 = some sd1 → ws.sub l2 = some sd2 → sd1.manifoldId = sd2.manifoldId → l1 = l2
  surj : ∀ i, i < ms.length → ∃ leaf sd, ws.sub leaf = some sd ∧ sd.manifoldId = i

/-- loop invariant of the traversal after the leaves `done` -/
structure LoopInv (narrow : Nat → WManifold α β → WManifold α β) (fresh : Nat → WManifold α β) (newTs : Bool)
    (ws : Workspace) (ms : List (WManifold α β)) (done : List Nat) (st : LoopSt α β) : Prop where
  new_eq : st.new = done.map (fun l => narrow l (prevManifold fresh ws ms l))
  visited : ∀ l, l ∈ done → ∃ i, st.sub l = some ⟨i, newTs⟩ ∧ done[i]? = some l
  untouched : ∀ l, l ∉ done → st.sub l = ws.sub l
  old_len : st.old.length = ms.length
  old_get : ∀ l sd, l ∉ done → ws.sub l = some sd → st.old[sd.manifoldId]? = ms[sd.manifoldId]?

private theorem visitLeaf_inv (narrow : Nat → WManifold α β → WManifold α β) (clr : α → α) (fresh : Nat → WManifold α β)
    (newTs : Bool) (ws : Workspace) (ms : List (WManifold α β)) (hinv : WsInv fresh ws ms)
    (done : List Nat) (st : LoopSt α β) (x : Nat) (hx : x ∉ done)
    (h : LoopInv narrow fresh newTs ws ms done st) :
    ∃ st', visitLeaf narrow clr fresh newTs st x = some st' ∧
      LoopInv narrow fresh newTs ws ms (done ++ [x]) st' := by
  have hlen : st.new.length = done.length := by rw [h.new_eq]; simp
  have hsubx : st.sub x = ws.sub x := h.untouched x hx
  have visited' : ∀ (sub' : Nat → Option SubDetector), (∀ l, sub' l = if l = x then some ⟨st.new.length, newTs⟩ else st.sub l) →
      ∀ l, l ∈ done ++ [x] → ∃ i, sub' l = some ⟨i, newTs⟩ ∧ (done ++ [x])[i]? = some l := by
    intro sub' hsub' l hl
    rw [hsub' l]
    by_cases hlx : l = x
    · subst hlx
      refine ⟨st.new.length, by simp, ?_⟩
      rw [hlen]; simp
    · have hld : l ∈ done := by
        rcases List.mem_append.mp hl with h1 | h1
        · exact h1
        · simp at h1; exact absurd h1 hlx
      obtain ⟨i, hi1, hi2⟩ := h.visited l hld
      refine ⟨i, by simp [hlx, hi1], ?_⟩
      have : i < done.length := by
        rcases Nat.lt_or_ge i done.length with h' | h'
        · exact h'
        · rw [List.getElem?_eq_none h'] at hi2; cases hi2
      rw [List.getElem?_append_left this]; exact hi2
  have untouched' : ∀ (sub' : Nat → Option SubDetector), (∀ l, sub' l = if l = x then some ⟨st.new.length, newTs⟩ else st.sub l) →
      ∀ l, l ∉ done ++ [x] → sub' l = ws.sub l := by
    intro sub' hsub' l hl
    have hl1 : l ∉ done := fun h' => hl (List.mem_append_left _ h')
    have hl2 : l ≠ x := fun h' => hl (by simp [h'])
    rw [hsub' l]; simp [hl2, h.untouched l hl1]
  cases hws : ws.sub x with
  | none =>
    refine ⟨_, by simp only [visitLeaf, hsubx, hws]; rfl, ?_⟩
    refine ⟨?_, visited' _ (fun _ => rfl), untouched' _ (fun _ => rfl), h.old_len, ?_⟩
    · simp [h.new_eq, prevManifold, hws]
    · intro l sd hl hsd
      exact h.old_get l sd (fun h' => hl (List.mem_append_left _ h')) hsd
  | some sd =>
    obtain ⟨_, m, hm, _⟩ := hinv.entry x sd hws
    have hold : st.old[sd.manifoldId]? = some m := by rw [h.old_get x sd hx hws]; exact hm
    refine ⟨_, by simp only [visitLeaf, hsubx, hws, hold]; rfl, ?_⟩
    refine ⟨?_, visited' _ (fun _ => rfl), untouched' _ (fun _ => rfl), by simp [h.old_len], ?_⟩
    · simp [h.new_eq, prevManifold, hws, hm]
    · intro l sd2 hl hsd2
      have hl1 : l ∉ done := fun h' => hl (List.mem_append_left _ h')
      have hl2 : l ≠ x := fun h' => hl (by simp [h'])
      have hne : sd.manifoldId ≠ sd2.manifoldId := fun he => hl2 (hinv.inj x l sd sd2 hws hsd2 he).symm
      simp only []
      rw [List.getElem?_set_ne hne]
      exact h.old_get l sd2 hl1 hsd2

private theorem foldl_visit_inv (narrow : Nat → WManifold α β → WManifold α β) (clr : α → α) (fresh : Nat → WManifold α β)
    (newTs : Bool) (ws : Workspace) (ms : List (WManifold α β)) (hinv : WsInv fresh ws ms)
    (todo : List Nat) : ∀ (done : List Nat) (st : LoopSt α β), (done ++ todo).Nodup →
    LoopInv narrow fresh newTs ws ms done st →
    ∃ st', todo.foldlM (visitLeaf narrow clr fresh newTs) st = some st' ∧
      LoopInv narrow fresh newTs ws ms (done ++ todo) st' := by
  induction todo with
  | nil => intro done st _ h; exact ⟨st, rfl, by simpa using h⟩
  | cons x rest ih =>
    intro done st hnd h
    have hx : x ∉ done := by
      intro hxd
      have := List.nodup_append.mp hnd
      exact this.2.2 x hxd x (by simp) rfl
    obtain ⟨st1, h1, h2⟩ := visitLeaf_inv narrow clr fresh newTs ws ms hinv done st x hx h
    have hnd' : ((done ++ [x]) ++ rest).Nodup := by simpa using hnd
    obtain ⟨st', h3, h4⟩ := ih (done ++ [x]) st1 hnd' h2
    refine ⟨st', ?_, by simpa using h4⟩
    simp only [List.foldlM_cons, h1]
    exact h3


/-- **C14 (bookkeeping), one call.**  For *any* narrow phase that leaves the label fields alone, any `clr`, any
workspace/manifold storage satisfying the invariant (in particular the empty one), and any duplicate-free list
of visited leaves: the call does not panic; the new `manifolds` vector is, position by position, the visited
leaves' manifolds — `narrow` applied to the part's **own** manifold of the previous call if it had one, to a
fresh `ContactManifold::new()` with the part's labels otherwise; the `sub_detectors` domain is exactly the set
of visited leaves; and the invariant holds again. -/
theorem compositeStep_spec (narrow : Nat → WManifold α β → WManifold α β) (clr : α → α)
    (fresh : Nat → WManifold α β) (ws : Workspace) (ms : List (WManifold α β)) (leaves : List Nat)
    (hinv : WsInv fresh ws ms) (hnd : leaves.Nodup)
    (hlab : ∀ l m, (narrow l m).labels = m.labels) :
    ∃ ws', compositeStep narrow clr fresh ws ms leaves
        = some (ws', leaves.map (fun l => narrow l (prevManifold fresh ws ms l))) ∧
      ws'.timestamp = !ws.timestamp ∧
      (∀ l, (ws'.sub l).isSome = true ↔ l ∈ leaves) ∧
      WsInv fresh ws' (leaves.map (fun l => narrow l (prevManifold fresh ws ms l))) := by
  have h0 : LoopInv narrow fresh (!ws.timestamp) ws ms [] ⟨ws.sub, ms, []⟩ :=
    ⟨rfl, by simp, by simp, rfl, by simp⟩
  obtain ⟨st, hfold, hl⟩ := foldl_visit_inv narrow clr fresh (!ws.timestamp) ws ms hinv leaves [] _ (by simpa using hnd) h0
  simp only [List.nil_append] at hl
  have hprevlab : ∀ l, (prevManifold fresh ws ms l).labels = (fresh l).labels := by
    intro l
    simp only [prevManifold]
    cases hws : ws.sub l with
    | none => rfl
    | some sd =>
      obtain ⟨_, m, hm, hlm⟩ := hinv.entry l sd hws
      simp [hm, hlm]
  -- the retained map
  have hsub : ∀ l, retainTs (!ws.timestamp) st.sub l =
      if l ∈ leaves then st.sub l else none := by
    intro l
    by_cases hl' : l ∈ leaves
    · obtain ⟨i, hi, _⟩ := hl.visited l hl'
      simp [retainTs, hi, hl']
    · simp only [retainTs, hl', if_false, hl.untouched l hl']
      cases hws : ws.sub l with
      | none => rfl
      | some sd =>
        have := (hinv.entry l sd hws).1
        simp only [this]
        cases ws.timestamp <;> simp
  refine ⟨⟨!ws.timestamp, retainTs (!ws.timestamp) st.sub⟩, ?_, rfl, ?_, ?_⟩
  · simp only [compositeStep, hfold, hl.new_eq]
  · intro l
    simp only [hsub l]
    by_cases hl' : l ∈ leaves
    · obtain ⟨i, hi, _⟩ := hl.visited l hl'
      simp [hl', hi]
    · simp [hl']
  · constructor
    · intro l sd hsd
      simp only [hsub l] at hsd
      by_cases hl' : l ∈ leaves
      · obtain ⟨i, hi, hi2⟩ := hl.visited l hl'
        simp only [hl', if_true, hi, Option.some.injEq] at hsd
        subst hsd
        refine ⟨rfl, narrow l (prevManifold fresh ws ms l), ?_, ?_⟩
        · simp only [List.getElem?_map, hi2, Option.map_some]
        · rw [hlab, hprevlab]
      · simp [hl'] at hsd
    · intro l1 l2 sd1 sd2 h1 h2 he
      simp only [hsub] at h1 h2
      by_cases hl1 : l1 ∈ leaves
      · by_cases hl2 : l2 ∈ leaves
        · obtain ⟨i, hi, hi2⟩ := hl.visited l1 hl1
          obtain ⟨j, hj, hj2⟩ := hl.visited l2 hl2
          simp only [hl1, hl2, if_true, hi, hj, Option.some.injEq] at h1 h2
          subst h1; subst h2
          simp only [] at he
          subst he
          rw [hi2] at hj2
          exact Option.some.inj hj2
        · simp [hl2] at h2
      · simp [hl1] at h1
    · intro i hi
      simp only [List.length_map] at hi
      have hmem : leaves[i] ∈ leaves := List.getElem_mem hi
      obtain ⟨j, hj, hj2⟩ := hl.visited leaves[i] hmem
      have hij : j = i := by
        have hjlt : j < leaves.length := by
          rcases Nat.lt_or_ge j leaves.length with h' | h'
          · exact h'
          · rw [List.getElem?_eq_none h'] at hj2; cases hj2
        rw [List.getElem?_eq_getElem hjlt, Option.some.injEq] at hj2
        exact (List.Nodup.getElem_inj_iff hnd).mp hj2
      refine ⟨leaves[i], ⟨j, !ws.timestamp⟩, ?_, hij⟩
      simp [hsub, hmem, hj]

/-- the empty workspace with the empty manifold vector satisfies the invariant -/
theorem wsInv_new (fresh : Nat → WManifold α β) : WsInv fresh Workspace.new ([] : List (WManifold α β)) :=
  ⟨by intro l sd h; simp [Workspace.new] at h, by intro l1 l2 sd1 sd2 h; simp [Workspace.new] at h,
   by intro i hi; simp at hi⟩

/-- **C14 (bookkeeping), all histories.**  From any state satisfying the invariant (e.g. the empty one), for
every sequence of calls — each with its own label-preserving narrow phase and its own duplicate-free set of
visited leaves, in any order, with parts appearing, disappearing and re-appearing — no call panics and the
invariant holds at the end (hence `compositeStep_spec` applies to every single call of the history). -/
theorem compositeRun_ok (clr : α → α) (fresh : Nat → WManifold α β)
    (calls : List ((Nat → WManifold α β → WManifold α β) × List Nat)) :
    ∀ (ws : Workspace) (ms : List (WManifold α β)), WsInv fresh ws ms →
    (∀ c ∈ calls, c.2.Nodup ∧ ∀ l m, (c.1 l m).labels = m.labels) →
    ∃ ws' ms', compositeRun clr fresh ws ms calls = some (ws', ms') ∧ WsInv fresh ws' ms' := by
  induction calls with
  | nil => intro ws ms h _; exact ⟨ws, ms, rfl, h⟩
  | cons c rest ih =>
    intro ws ms h hc
    obtain ⟨hnd, hlab⟩ := hc c (by simp)
    obtain ⟨ws1, h1, _, _, h4⟩ := compositeStep_spec c.1 clr fresh ws ms c.2 h hnd hlab
    obtain ⟨ws', ms', h5, h6⟩ := ih ws1 _ h4 (fun c' hc' => hc c' (by simp [hc']))
    refine ⟨ws', ms', ?_, h6⟩
    obtain ⟨cn, cl⟩ := c
    simp only [compositeRun, h1]
    exact h5


/-- **C14 (bookkeeping), the property's last sentence, per part.**  After a successful call: exactly one manifold
per visited leaf (same count, same order); the manifold at position `i` is labelled with the labels of part
`leaves[i]` (id and pose, respecting `flipped`); if that part had a manifold in the previous call it is the
narrow phase applied to **that** manifold (data continuity); if not, to a fresh `ContactManifold::new()`. -/
theorem compositeStep_parts (narrow : Nat → WManifold α β → WManifold α β) (clr : α → α)
    (fresh : Nat → WManifold α β) (ws ws' : Workspace) (ms ms' : List (WManifold α β)) (leaves : List Nat)
    (hinv : WsInv fresh ws ms) (hnd : leaves.Nodup) (hlab : ∀ l m, (narrow l m).labels = m.labels)
    (hres : compositeStep narrow clr fresh ws ms leaves = some (ws', ms')) :
    ms'.length = leaves.length ∧
    ∀ (i l : Nat), leaves[i]? = some l →
      (∀ (sd : SubDetector) (m : WManifold α β), ws.sub l = some sd → ms[sd.manifoldId]? = some m → ms'[i]? = some (narrow l m)) ∧
      (ws.sub l = none → ms'[i]? = some (narrow l (fresh l))) ∧
      (∃ m' : WManifold α β, ms'[i]? = some m' ∧ m'.labels = (fresh l).labels) := by
  obtain ⟨ws1, h1, _, _, h4⟩ := compositeStep_spec narrow clr fresh ws ms leaves hinv hnd hlab
  rw [h1] at hres
  simp only [Option.some.injEq, Prod.mk.injEq] at hres
  obtain ⟨rfl, rfl⟩ := hres
  refine ⟨by simp, ?_⟩
  intro i l hil
  refine ⟨?_, ?_, ?_⟩
  · intro sd m hsd hm
    simp [List.getElem?_map, hil, prevManifold, hsd, hm]
  · intro hnone
    simp [List.getElem?_map, hil, prevManifold, hnone]
  · refine ⟨narrow l (prevManifold fresh ws ms l), by simp [List.getElem?_map, hil], ?_⟩
    rw [hlab]
    simp only [prevManifold]
    cases hws : ws.sub l with
    | none => rfl
    | some sd =>
      obtain ⟨_, m, hm, hlm⟩ := hinv.entry l sd hws
      simp [hm, hlm]

/-- a narrow phase that counts how many consecutive calls a part has been alive -/
private def bump : Nat → WManifold Nat Unit → WManifold Nat Unit := fun _ m => { m with data := m.data + 1 }

/-- non-vacuity / a concrete history: parts {1,2}, then {2,3}, then {3,1}: after the third call there are
exactly two manifolds, for parts 3 (alive for 2 calls: its data was carried over) and 1 (re-appeared: fresh). -/
example : (compositeRun id (freshManifold false 0 (fun _ => (none : Option Unit))) Workspace.new []
      [(bump, [1, 2]), (bump, [2, 3]), (bump, [3, 1])]).map (fun r => r.2.map (fun m => (m.subshape1, m.data)))
    = some [(3, 2), (1, 1)] := by decide

/-- the `Nodup` hypothesis is needed: a leaf visited twice in one call makes the real code index
`old_manifolds` with an id of the *new* vector — here out of bounds (`None` = panic). -/
example : (compositeStep bump id (freshManifold false 0 (fun _ => (none : Option Unit))) Workspace.new [] [5, 5]).isNone
    = true := by decide

end Bookkeeping

end C14
