import ParryModel.C14.Model
/-!
# C14 model, part 2 (round fu4)

* `clip_segment_segment` (`src/query/clip/clip_segment_segment.rs`), the conformal edge/edge clipping used by
  `PolygonalFeature::contacts_edge_edge` (3-D, hence by `contact_manifold_pfm_pfm`) and by the 2-D polygon/polygon
  generator: literal transliteration, 3-D and 2-D instances, feature codes included.
* the sub-detector bookkeeping of `contact_manifolds_composite_shape_composite_shape`
  (`HashMap<(u32, u32), SubDetector>`, `old_manifolds[..].take()`, `manifold_id = manifolds.len()`, `retain`) as a
  state machine over an arbitrary key type `κ` (`κ = Nat × Nat` for the pair of leaves); the narrow phase and the
  flattened list of visited pairs (the nested QBVH traversals) are parameters.
-/
namespace C14
open Model
variable {K : Type} [Num K]

/-! ## `clip_segment_segment` -/

/-- `ClippingPoints = (Point, Point, usize, usize)`: a point of segment 1, a point of segment 2, and the feature codes
(0 = first vertex, 1 = on the edge, 2 = second vertex) -/
structure Clip3 (K : Type) where
  p1 : V3 K
  p2 : V3 K
  f1 : Nat
  f2 : Nat

structure Clip2 (K : Type) where
  p1 : V2 K
  p2 : V2 K
  f1 : Nat
  f2 : Nat

/-- the first clipping pair `ca` (lower end of the common range), after the swaps -/
def clip3A (t1 : V3 K) (r10 r11 r20 r21 : K) (s10 s20 s21 : V3 K) (f10 f20 : Nat) : Clip3 K :=
  let length1 := r11 - r10
  let length2 := r21 - r20
  if r10 < r20 then
    let bcoord := (r20 - r10) / length1
    ⟨s10.add (t1.smul bcoord), s20, 1, f20⟩
  else
    let bcoord := (r10 - r20) / length2
    ⟨s10, s20.add ((s21.sub s20).smul bcoord), f10, 1⟩

/-- the second clipping pair `cb` (upper end of the common range) -/
def clip3B (t1 : V3 K) (r10 r11 r20 r21 : K) (s10 s11 s20 s21 : V3 K) (f11 f21 : Nat) : Clip3 K :=
  let length1 := r11 - r10
  let length2 := r21 - r20
  if r21 < r11 then
    let bcoord := (r21 - r10) / length1
    ⟨s10.add (t1.smul bcoord), s21, 1, f21⟩
  else
    let bcoord := (r11 - r20) / length2
    ⟨s11, s20.add ((s21.sub s20).smul bcoord), f11, 1⟩

/-- the part of `clip_segment_segment` after the two `if range[1] < range[0] { swap }`: `r10 r11` = `range1`, `s10 s11` =
`seg1` (after its swap), `f10 f11` = `features1`; same for segment 2; `t1` = `tangent1` (computed before the swaps). -/
def clip3Ordered (t1 : V3 K) (r10 r11 r20 r21 : K) (s10 s11 s20 s21 : V3 K) (f10 f11 f20 f21 : Nat) :
    Option (Clip3 K × Clip3 K) :=
  -- `if range2[0] > range1[1] || range1[0] > range2[1] { return None }`
  if r11 < r20 ∨ r21 < r10 then none
  else some (clip3A t1 r10 r11 r20 r21 s10 s20 s21 f10 f20, clip3B t1 r10 r11 r20 r21 s10 s11 s20 s21 f11 f21)

/-- `clip_segment_segment(seg1, seg2)` (3-D): segment 2 is projected on the (un-normalised) direction of segment 1;
`range1 = [0, |tangent1|²]`, `range2 = [(a2 − a1)·tangent1, (b2 − a1)·tangent1]`. -/
def clipSegSeg3 (a1 b1 a2 b2 : V3 K) : Option (Clip3 K × Clip3 K) :=
  let t1 := b1.sub a1
  let sqn := t1.normSq
  let u20 := (a2.sub a1).dot t1
  let u21 := (b2.sub a1).dot t1
  if sqn < 0 then            -- `range1[1] < range1[0]` (never true for a real square; kept literally)
    if u21 < u20 then clip3Ordered t1 sqn 0 u21 u20 b1 a1 b2 a2 2 0 2 0
    else clip3Ordered t1 sqn 0 u20 u21 b1 a1 a2 b2 2 0 0 2
  else
    if u21 < u20 then clip3Ordered t1 0 sqn u21 u20 a1 b1 b2 a2 0 2 2 0
    else clip3Ordered t1 0 sqn u20 u21 a1 b1 a2 b2 0 2 0 2

/-- the 2-D instance (same source text compiled with `dim2`) -/
def clip2A (t1 : V2 K) (r10 r11 r20 r21 : K) (s10 s20 s21 : V2 K) (f10 f20 : Nat) : Clip2 K :=
  let length1 := r11 - r10
  let length2 := r21 - r20
  if r10 < r20 then
    let bcoord := (r20 - r10) / length1
    ⟨s10.add (t1.smul bcoord), s20, 1, f20⟩
  else
    let bcoord := (r10 - r20) / length2
    ⟨s10, s20.add ((s21.sub s20).smul bcoord), f10, 1⟩

/-- the second clipping pair `cb` (upper end of the common range) -/
def clip2B (t1 : V2 K) (r10 r11 r20 r21 : K) (s10 s11 s20 s21 : V2 K) (f11 f21 : Nat) : Clip2 K :=
  let length1 := r11 - r10
  let length2 := r21 - r20
  if r21 < r11 then
    let bcoord := (r21 - r10) / length1
    ⟨s10.add (t1.smul bcoord), s21, 1, f21⟩
  else
    let bcoord := (r11 - r20) / length2
    ⟨s11, s20.add ((s21.sub s20).smul bcoord), f11, 1⟩

/-- the part of `clip_segment_segment` after the two `if range[1] < range[0] { swap }`: `r10 r11` = `range1`, `s10 s11` =
`seg1` (after its swap), `f10 f11` = `features1`; same for segment 2; `t1` = `tangent1` (computed before the swaps). -/
def clip2Ordered (t1 : V2 K) (r10 r11 r20 r21 : K) (s10 s11 s20 s21 : V2 K) (f10 f11 f20 f21 : Nat) :
    Option (Clip2 K × Clip2 K) :=
  -- `if range2[0] > range1[1] || range1[0] > range2[1] { return None }`
  if r11 < r20 ∨ r21 < r10 then none
  else some (clip2A t1 r10 r11 r20 r21 s10 s20 s21 f10 f20, clip2B t1 r10 r11 r20 r21 s10 s11 s20 s21 f11 f21)

def clipSegSeg2 (a1 b1 a2 b2 : V2 K) : Option (Clip2 K × Clip2 K) :=
  let t1 := b1.sub a1
  let sqn := t1.normSq
  let u20 := (a2.sub a1).dot t1
  let u21 := (b2.sub a1).dot t1
  if sqn < 0 then
    if u21 < u20 then clip2Ordered t1 sqn 0 u21 u20 b1 a1 b2 a2 2 0 2 0
    else clip2Ordered t1 sqn 0 u20 u21 b1 a1 a2 b2 2 0 0 2
  else
    if u21 < u20 then clip2Ordered t1 0 sqn u21 u20 a1 b1 b2 a2 0 2 2 0
    else clip2Ordered t1 0 sqn u20 u21 a1 b1 a2 b2 0 2 0 2

/-! ## Sub-detector bookkeeping over an arbitrary key type

`contact_manifolds_composite_shape_composite_shape` keys its `sub_detectors` map by the pair `(leaf1, leaf2)` (always in
the order of the caller's shapes, whatever `flipped` says); the callback body is the same as in
`contact_manifolds_composite_shape_shape`.  The nested traversals visit a list of pairs; that list is the input of
the state machine.  `none` = the `old_manifolds[sub_detector.manifold_id]` index panics. -/

section Keyed
variable {κ α β : Type} [DecidableEq κ]

/-- `Composite…Workspace { timestamp, sub_detectors }` with keys `κ` -/
structure KWorkspace (κ : Type) where
  timestamp : Bool
  sub : κ → Option SubDetector

def KWorkspace.new : KWorkspace κ := ⟨false, fun _ => none⟩

structure KLoopSt (κ α β : Type) where
  sub : κ → Option SubDetector
  old : List (WManifold α β)
  new : List (WManifold α β)

/-- one execution of the innermost closure (`match workspace.sub_detectors.entry(entry_key)` … narrow phase on
`manifolds[sub_detector.manifold_id]`) -/
def visitKey (narrow : κ → WManifold α β → WManifold α β) (clr : α → α)
    (fresh : κ → WManifold α β) (newTs : Bool) (st : KLoopSt κ α β) (k : κ) : Option (KLoopSt κ α β) :=
  match st.sub k with
  | some sd =>
    match st.old[sd.manifoldId]? with
    | none => none
    | some om =>
      some ⟨fun l => if l = k then some ⟨st.new.length, newTs⟩ else st.sub l,
            st.old.set sd.manifoldId { om with data := clr om.data },
            st.new ++ [narrow k om]⟩
  | none =>
    some ⟨fun l => if l = k then some ⟨st.new.length, newTs⟩ else st.sub l,
          st.old,
          st.new ++ [narrow k (fresh k)]⟩

/-- `sub_detectors.retain(|_, d| d.timestamp == new_timestamp)` -/
def kRetain (newTs : Bool) (sub : κ → Option SubDetector) : κ → Option SubDetector :=
  fun l => match sub l with
    | some sd => if sd.timestamp == newTs then some sd else none
    | none => none

/-- one call on the keys the traversal visits (`old_manifolds = take(manifolds)`) -/
def keyedStep (narrow : κ → WManifold α β → WManifold α β) (clr : α → α)
    (fresh : κ → WManifold α β) (ws : KWorkspace κ) (ms : List (WManifold α β)) (keys : List κ) :
    Option (KWorkspace κ × List (WManifold α β)) :=
  let newTs := !ws.timestamp
  match keys.foldlM (visitKey narrow clr fresh newTs) ⟨ws.sub, ms, []⟩ with
  | none => none
  | some st => some (⟨newTs, kRetain newTs st.sub⟩, st.new)

/-- a whole history -/
def keyedRun (clr : α → α) (fresh : κ → WManifold α β) :
    KWorkspace κ → List (WManifold α β) → List ((κ → WManifold α β → WManifold α β) × List κ) →
      Option (KWorkspace κ × List (WManifold α β))
  | ws, ms, [] => some (ws, ms)
  | ws, ms, (narrow, keys) :: rest =>
    match keyedStep narrow clr fresh ws ms keys with
    | none => none
    | some (ws', ms') => keyedRun clr fresh ws' ms' rest

/-- the `Entry::Vacant` manifold of the composite/composite function: `ContactManifold::new()` labelled
`subshape1 = leaf of shape 1`, `subshape2 = leaf of shape 2`, with the two part poses (both `flipped` arms assign
exactly this, because the key is already in caller order) -/
def freshPair (dflt : α) (pos1 pos2 : Nat → Option β) (k : Nat × Nat) : WManifold α β :=
  ⟨k.1, k.2, pos1 k.1, pos2 k.2, dflt⟩

/-- the `Entry::Vacant` manifold of `contact_manifolds_heightfield_shape` (keys = cell / triangle ids):
`ContactManifold::with_data(id1, id2, default)` with `(id1, id2) = if flipped { (0, i) } else { (i, 0) }`, no part poses -/
def freshCell (flipped : Bool) (dflt : α) (i : Nat) : WManifold α β :=
  if flipped then ⟨0, i, none, none, dflt⟩ else ⟨i, 0, none, none, dflt⟩

end Keyed

/-! ## 3-D `contact_manifold_capsule_capsule` (`contact_manifolds_capsule_capsule.rs`, `dim3`)

Closed form, ONE contact: the closest points of the two axes (`closest_points_segment_segment_with_locations_nD`, the
same generic source as in 2-D), the normal `Unit::try_new(p2 − p1, EPSILON).unwrap_or(y)`, witnesses pushed out by the
radii.  No warm start (the previous manifold only matters through `points[0].copy_geometry_from`). -/

/-- the parameters `(s, t)` of `closest_points_segment_segment_with_locations_nD` (3-D instance) -/
def segSegParams3 (ulps : K → K → Bool) (a1 b1 a2 b2 : V3 K) : K × K :=
  let d1 := b1.sub a1
  let d2 := b2.sub a2
  let r := a1.sub a2
  let a := d1.normSq
  let e := d2.normSq
  let f := d2.dot r
  if a ≤ epsilon ∧ e ≤ epsilon then (0, 0)
  else if a ≤ epsilon then (0, clamp01 (f / e))
  else
    let c := d1.dot r
    if e ≤ epsilon then (clamp01 (-c / a), 0)
    else
      let b := d1.dot d2
      let ae := a * e
      let bb := b * b
      let denom := ae - bb
      let s := if epsilon < denom ∧ !(ulps ae bb) then clamp01 ((b * f - c * e) / denom) else 0
      let t := (b * s + f) / e
      if t < 0 then (clamp01 (-c / a), 0)
      else if 1 < t then (clamp01 ((b - c) / a), 1)
      else (s, t)

/-- `seg.a * bcoords[0] + seg.b.coords * bcoords[1]` -/
def baryPoint3 (a b : V3 K) (bc : K × K) : V3 K := (a.smul bc.1).add (b.smul bc.2)

/-- `Unit::try_new(v, min_norm)` -/
def tryNew3 (v : V3 K) (minNorm : K) : Option (V3 K) :=
  let sqn := v.normSq
  if minNorm * minNorm < sqn then some (v.sdiv (Num.sqrt sqn)) else none

/-- closest points of the two axes (frame of capsule 1) and the contact normal -/
def capsuleAxisPoints3 (ulps : K → K → Bool) (a1 b1 a2' b2' : V3 K) : V3 K × V3 K × V3 K :=
  let st := segSegParams3 ulps a1 b1 a2' b2'
  let lp1 := baryPoint3 a1 b1 (bcoords st.1)
  let lp21 := baryPoint3 a2' b2' (bcoords st.2)
  let n1 : V3 K := match tryNew3 (lp21.sub lp1) epsilon with | some n => n | none => ⟨0, 1, 0⟩
  (lp1, lp21, n1)

/-- `contact_manifold_capsule_capsule(pos12, capsule1, capsule2, prediction, manifold)` (3-D), geometry. -/
def capsuleCapsule3 (ulps : K → K → Bool) (pos12 : Iso3 K) (a1 b1 : V3 K) (r1 : K) (a2 b2 : V3 K) (r2 pred : K)
    (m : Manifold3 K) : Manifold3 K :=
  let ax := capsuleAxisPoints3 ulps a1 b1 (pos12.act a2) (pos12.act b2)
  let lp1 := ax.1
  let lp21 := ax.2.1
  let n1 := ax.2.2
  let dist := (lp21.sub lp1).dot n1 - r1 - r2
  if dist ≤ pred then
    let n2 := pos12.invRot n1.neg
    let c : Contact3 K := ⟨lp1.add (n1.smul r1), (pos12.invAct lp21).add (n2.smul r2), dist⟩
    ⟨setFirst c m.points, n1, n2⟩
  else m.clear

/-! ## `PolygonalFeature::contacts` for two edges (`polygonal_feature3d.rs`, `contacts_edge_edge`)

The contact generation of `contact_manifold_pfm_pfm` when both support features are 2-vertex edges (capsule / segment,
the sides of cylinders and cones): the edges are projected on the plane orthogonal to `sep_axis1`; if the projected
directions are not within 22.5° (`dot ≥ COS_FRAC_PI_8`) ONE contact at the closest points of the projected segments,
otherwise (or when a projection degenerates) the TWO contacts of `clip_segment_segment`.  The basis function and the
`ulps_eq` predicate are parameters. -/

/-- `Vector3::orthonormal_basis` (`utils/wops.rs`, the branchless Pixar construction) -/
def orthonormalBasis3 [HasCopysign K] (v : V3 K) : V3 K × V3 K :=
  let sign := HasCopysign.copysign (1 : K) v.z
  let a := -1 / (sign + v.z)
  let b := v.x * v.y * a
  (⟨1 + sign * v.x * v.x * a, sign * b, -sign * v.x⟩, ⟨b, sign + v.y * v.y * a, -v.y⟩)

/-- nalgebra `try_normalize(min_norm)` on a 2-vector: `n = norm(); if n <= min_norm { None } else { Some(v / n) }` -/
def tryNormalizeEps2 (v : V2 K) (minNorm : K) : Option (V2 K) :=
  let n := v.norm
  if n ≤ minNorm then none else some (v.sdiv n)

/-- the two clipping contacts of the conformal branch -/
def edgeEdgeClip3 (pos12 : Iso3 K) (e1a e1b v2a v2b sep : V3 K) (flipped : Bool) : List (Contact3 K) :=
  match clipSegSeg3 e1a e1b v2a v2b with
  | some (ca, cb) =>
    [Contact3.flipped ca.p1 (pos12.invAct ca.p2) ((ca.p2.sub ca.p1).dot sep) flipped,
     Contact3.flipped cb.p1 (pos12.invAct cb.p2) ((cb.p2.sub cb.p1).dot sep) flipped]
  | none => []

/-- `PolygonalFeature::contacts_edge_edge(pos12, face1, sep_axis1, face2, manifold, flipped)`: the contacts pushed -/
def edgeEdge3 (basis : V3 K → V3 K × V3 K) (ulps : K → K → Bool) (pos12 : Iso3 K) (e1a e1b e2a e2b sep : V3 K)
    (flipped : Bool) : List (Contact3 K) :=
  let bs := basis sep
  let pe1a : V2 K := ⟨e1a.dot bs.1, e1a.dot bs.2⟩
  let pe1b : V2 K := ⟨e1b.dot bs.1, e1b.dot bs.2⟩
  let v2a := pos12.act e2a
  let v2b := pos12.act e2b
  let pe2a : V2 K := ⟨v2a.dot bs.1, v2a.dot bs.2⟩
  let pe2b : V2 K := ⟨v2b.dot bs.1, v2b.dot bs.2⟩
  match tryNormalizeEps2 (pe1b.sub pe1a) epsilon, tryNormalizeEps2 (pe2b.sub pe2a) epsilon with
  | some t1, some t2 =>
    if cosFracPi8 ≤ t1.dot t2 then edgeEdgeClip3 pos12 e1a e1b v2a v2b sep flipped
    else
      let st := segSegParams2 ulps pe1a pe1b pe2a pe2b
      let lp1 := baryPoint3 e1a e1b (bcoords st.1)
      let lp21 := baryPoint3 v2a v2b (bcoords st.2)
      [Contact3.flipped lp1 (pos12.invAct lp21) ((lp21.sub lp1).dot sep) flipped]
  | _, _ => edgeEdgeClip3 pos12 e1a e1b v2a v2b sep flipped

/-! ## `contact_manifold_pfm_pfm` after the GJK call, for two edge features

The part of `contact_manifold_pfm_pfm` that follows `GJKResult::ClosestPoints(p1, p2_1, dir)` when both support features are
edges and there are no normal constraints: `local_n2 = pos12⁻¹(−dir)`, the feature contacts along `dir`, the extra GJK contact
(always pushed in 3-D), then the border-radius adjustment.  The GJK result and the two support features are inputs. -/

/-- `contact.local_p1 += n1 * br1; contact.local_p2 += n2 * br2; contact.dist -= br1 + br2` -/
def applyBorder3 (n1 n2 : V3 K) (br1 br2 : K) (c : Contact3 K) : Contact3 K :=
  ⟨c.p1.add (n1.smul br1), c.p2.add (n2.smul br2), c.dist - (br1 + br2)⟩

def pfmPfmEdgeGiven (basis : V3 K → V3 K × V3 K) (ulps : K → K → Bool) (pos12 : Iso3 K) (p1 p21 dir : V3 K)
    (e1a e1b e2a e2b : V3 K) (br1 br2 : K) : Manifold3 K :=
  let n1 := dir
  let n2 := pos12.invRot dir.neg
  let pts := edgeEdge3 basis ulps pos12 e1a e1b e2a e2b n1 false
  let pts := pts ++ [⟨p1, pos12.invAct p21, (p21.sub p1).dot n1⟩]
  -- `if border_radius1 != 0.0 || border_radius2 != 0.0`
  let pts := if neq br1 0 && neq br2 0 then pts else pts.map (applyBorder3 n1 n2 br1 br2)
  ⟨pts, n1, n2⟩

end C14
