import ParryModel.C14.Lemmas
import ParryModel.C14.Model2
/-!
# C14 property theorems, part 3 (round fu4)

* `clip_segment_segment` (3-D and 2-D): both returned points of each clipping pair lie on their own segments
  (the barycentric coordinate is computed against the right segment's projected length and lies in `[0, 1]`), and the
  pair is aligned across the edge direction: `(p2 − p1) · (b1 − a1) = 0`.
* the sub-detector bookkeeping of `contact_manifolds_composite_shape_composite_shape` for every history of visited
  pair lists: no panic, one manifold per visited pair in visiting order, each the narrow phase applied to THAT pair's own
  previous manifold (label stability), labelled with the pair's leaves and poses.
-/
namespace C14
open Model

variable {K : Type} [Field K] [LinearOrder K] [IsStrictOrderedRing K] (sq : K → K)

/-! ## `clip_segment_segment` -/

/-- the barycentric coordinate `(x − lo) / (hi − lo)` of a value `lo ≤ x ≤ hi` lies in `[0, 1]` and interpolates back
to `x` (in a field also when `hi = lo`, where `x / 0 = 0`; at `Float` that case is `0/0 = NaN`, see the notes) -/
private theorem div_param (lo hi x : K) (h1 : lo ≤ x) (h2 : x ≤ hi) :
    0 ≤ (x - lo) / (hi - lo) ∧ (x - lo) / (hi - lo) ≤ 1 ∧ lo + (hi - lo) * ((x - lo) / (hi - lo)) = x := by
  by_cases hd : hi - lo = 0
  · have hx : x = lo := by linarith
    simp [hd, hx]
  · have hpos : 0 < hi - lo := lt_of_le_of_ne (by linarith) (Ne.symm hd)
    refine ⟨div_nonneg (by linarith) hpos.le, ?_, ?_⟩
    · rw [div_le_one hpos]; linarith
    · field_simp; ring

private theorem seg3_mem_a (a b : V3 K) : letI := fieldNum K sq; (Segment3.mk a b).Mem a := by
  refine ⟨0, le_rfl, zero_le_one, ?_⟩
  apply V3.ext' <;> simp only [V3.add, V3.sub, V3.smul] <;> ring

private theorem seg3_mem_b (a b : V3 K) : letI := fieldNum K sq; (Segment3.mk a b).Mem b := by
  refine ⟨1, zero_le_one, le_rfl, ?_⟩
  apply V3.ext' <;> simp only [V3.add, V3.sub, V3.smul] <;> ring

private theorem seg3_mem_lerp (a b : V3 K) (u : K) (h0 : 0 ≤ u) (h1 : u ≤ 1) :
    letI := fieldNum K sq; (Segment3.mk a b).Mem (a.add ((b.sub a).smul u)) := ⟨u, h0, h1, rfl⟩

private theorem seg3_mem_swap (a b p : V3 K) (h : letI := fieldNum K sq; (Segment3.mk b a).Mem p) :
    letI := fieldNum K sq; (Segment3.mk a b).Mem p := by
  obtain ⟨t, h0, h1, rfl⟩ := h
  refine ⟨1 - t, by linarith, by linarith, ?_⟩
  apply V3.ext' <;> simp only [V3.add, V3.sub, V3.smul] <;> ring

private theorem seg2_mem_a (a b : V2 K) : letI := fieldNum K sq; (Segment2.mk a b).Mem a := by
  refine ⟨0, le_rfl, zero_le_one, ?_⟩
  apply V2.ext' <;> simp only [V2.add, V2.sub, V2.smul] <;> ring

private theorem seg2_mem_b (a b : V2 K) : letI := fieldNum K sq; (Segment2.mk a b).Mem b := by
  refine ⟨1, zero_le_one, le_rfl, ?_⟩
  apply V2.ext' <;> simp only [V2.add, V2.sub, V2.smul] <;> ring

private theorem seg2_mem_lerp (a b : V2 K) (u : K) (h0 : 0 ≤ u) (h1 : u ≤ 1) :
    letI := fieldNum K sq; (Segment2.mk a b).Mem (a.add ((b.sub a).smul u)) := ⟨u, h0, h1, rfl⟩

private theorem seg2_mem_swap (a b p : V2 K) (h : letI := fieldNum K sq; (Segment2.mk b a).Mem p) :
    letI := fieldNum K sq; (Segment2.mk a b).Mem p := by
  obtain ⟨t, h0, h1, rfl⟩ := h
  refine ⟨1 - t, by linarith, by linarith, ?_⟩
  apply V2.ext' <;> simp only [V2.add, V2.sub, V2.smul] <;> ring

/-- what the property needs of a clipping pair: a point of segment 1, a point of segment 2, facing each other across
the direction of segment 1 (so that, for any contact normal orthogonal to edge 1, `p2 − p1` is along the normal) -/
def Clip3Good (a1 b1 a2 b2 : V3 K) (c : Clip3 K) : Prop :=
  letI := fieldNum K sq
  (Segment3.mk a1 b1).Mem c.p1 ∧ (Segment3.mk a2 b2).Mem c.p2 ∧ (c.p2.sub c.p1).dot (b1.sub a1) = 0

def Clip2Good (a1 b1 a2 b2 : V2 K) (c : Clip2 K) : Prop :=
  letI := fieldNum K sq
  (Segment2.mk a1 b1).Mem c.p1 ∧ (Segment2.mk a2 b2).Mem c.p2 ∧ (c.p2.sub c.p1).dot (b1.sub a1) = 0

private theorem clip3Ordered_spec (a1 b1 s20 s21 : V3 K) (r20 r21 : K) (f10 f11 f20 f21 : Nat)
    (e20 : letI := fieldNum K sq; (s20.sub a1).dot (b1.sub a1) = r20)
    (e21 : letI := fieldNum K sq; (s21.sub a1).dot (b1.sub a1) = r21)
    (ca cb : Clip3 K)
    (h : letI := fieldNum K sq;
      clip3Ordered (b1.sub a1) 0 (b1.sub a1).normSq r20 r21 a1 b1 s20 s21 f10 f11 f20 f21 = some (ca, cb)) :
    Clip3Good sq a1 b1 s20 s21 ca ∧ Clip3Good sq a1 b1 s20 s21 cb := by
  simp only [clip3Ordered] at h
  split_ifs at h with hv
  push Not at hv
  obtain ⟨v1, v2⟩ := hv
  simp only [Option.some.injEq, Prod.mk.injEq] at h
  obtain ⟨rfl, rfl⟩ := h
  constructor
  · simp only [Clip3Good, clip3A]
    split_ifs with hlt
    · obtain ⟨p0, p1, p2⟩ := div_param 0 (@V3.normSq K (fieldNum K sq) (@V3.sub K (fieldNum K sq) b1 a1)) r20 (le_of_lt hlt) v1
      refine ⟨seg3_mem_lerp sq _ _ _ p0 p1, seg3_mem_a sq _ _, ?_⟩
      simp only [V3.dot, V3.add, V3.sub, V3.smul, V3.normSq] at e20 e21 p2 ⊢
      linear_combination e20 - p2
    · obtain ⟨p0, p1, p2⟩ := div_param r20 r21 0 (not_lt.mp hlt) v2
      refine ⟨seg3_mem_a sq _ _, seg3_mem_lerp sq _ _ _ p0 p1, ?_⟩
      simp only [V3.dot, V3.add, V3.sub, V3.smul, V3.normSq] at e20 e21 p2 ⊢
      linear_combination e20 + ((0 - r20) / (r21 - r20)) * (e21 - e20) + p2
  · simp only [Clip3Good, clip3B]
    split_ifs with hlt
    · obtain ⟨p0, p1, p2⟩ := div_param 0 (@V3.normSq K (fieldNum K sq) (@V3.sub K (fieldNum K sq) b1 a1)) r21 v2 (le_of_lt hlt)
      refine ⟨seg3_mem_lerp sq _ _ _ p0 p1, seg3_mem_b sq _ _, ?_⟩
      simp only [V3.dot, V3.add, V3.sub, V3.smul, V3.normSq] at e20 e21 p2 ⊢
      linear_combination e21 - p2
    · obtain ⟨p0, p1, p2⟩ := div_param r20 r21 (@V3.normSq K (fieldNum K sq) (@V3.sub K (fieldNum K sq) b1 a1)) v1 (not_lt.mp hlt)
      refine ⟨seg3_mem_b sq _ _, seg3_mem_lerp sq _ _ _ p0 p1, ?_⟩
      simp only [V3.dot, V3.add, V3.sub, V3.smul, V3.normSq] at e20 e21 p2 ⊢
      linear_combination e20 + (((b1.x - a1.x) * (b1.x - a1.x) + (b1.y - a1.y) * (b1.y - a1.y) + (b1.z - a1.z) * (b1.z - a1.z) - r20) / (r21 - r20)) * (e21 - e20) + p2

private theorem clip3Good_swap2 (a1 b1 a2 b2 : V3 K) (c : Clip3 K) (h : Clip3Good sq a1 b1 b2 a2 c) :
    Clip3Good sq a1 b1 a2 b2 c := ⟨h.1, seg3_mem_swap sq _ _ _ h.2.1, h.2.2⟩

/-- **`clip_segment_segment` (3-D).**  Whenever it returns the two clipping pairs, in each pair the first point lies on
segment 1, the second on segment 2 (its barycentric coordinate in `[0, 1]` *of segment 2*), and the two face each other
across the direction of segment 1: `(p2 − p1)·(b1 − a1) = 0`.  Holds for all segments, including unequal lengths,
anti-parallel and degenerate ones. -/
theorem clipSegSeg3_spec (a1 b1 a2 b2 : V3 K) (ca cb : Clip3 K)
    (h : letI := fieldNum K sq; clipSegSeg3 a1 b1 a2 b2 = some (ca, cb)) :
    Clip3Good sq a1 b1 a2 b2 ca ∧ Clip3Good sq a1 b1 a2 b2 cb := by
  have hn := normSq_nonneg3 sq (@V3.sub K (fieldNum K sq) b1 a1)
  simp only [clipSegSeg3] at h
  split_ifs at h with h0 h2 h2
  · exact absurd h0 (not_lt.mpr hn)
  · exact absurd h0 (not_lt.mpr hn)
  · obtain ⟨x, y⟩ := clip3Ordered_spec sq a1 b1 b2 a2 _ _ _ _ _ _ rfl rfl ca cb h
    exact ⟨clip3Good_swap2 sq _ _ _ _ _ x, clip3Good_swap2 sq _ _ _ _ _ y⟩
  · exact clip3Ordered_spec sq a1 b1 a2 b2 _ _ _ _ _ _ rfl rfl ca cb h

/-- the code of a returned vertex feature tells which end of the ORIGINAL segment the point is: code 0 ⇒ `a`, 2 ⇒ `b`,
on both segments and in every branch (the swaps permute codes and end points together). -/
theorem clipSegSeg3_features (a1 b1 a2 b2 : V3 K) (ca cb : Clip3 K)
    (h : letI := fieldNum K sq; clipSegSeg3 a1 b1 a2 b2 = some (ca, cb)) :
    ∀ c, (c = ca ∨ c = cb) →
      (c.f1 = 0 → c.p1 = a1) ∧ (c.f1 = 2 → c.p1 = b1) ∧ (c.f2 = 0 → c.p2 = a2) ∧ (c.f2 = 2 → c.p2 = b2) ∧
      c.f1 ≤ 2 ∧ c.f2 ≤ 2 := by
  have hn := normSq_nonneg3 sq (@V3.sub K (fieldNum K sq) b1 a1)
  simp only [clipSegSeg3] at h
  split_ifs at h with h0 h2 h2
  · exact absurd h0 (not_lt.mpr hn)
  · exact absurd h0 (not_lt.mpr hn)
  all_goals
    simp only [clip3Ordered] at h
    split_ifs at h
    simp only [Option.some.injEq, Prod.mk.injEq] at h
    obtain ⟨rfl, rfl⟩ := h
    intro c hc
    rcases hc with rfl | rfl
    · simp only [clip3A]; split_ifs <;> simp
    · simp only [clip3B]; split_ifs <;> simp

example : letI := fieldNum ℚ id
    (clipSegSeg3 (⟨0, 0, 0⟩ : V3 ℚ) ⟨1, 0, 0⟩ ⟨-1, 1, 0⟩ ⟨3, 1, 0⟩).map
      (fun r => (r.1.p1.x, r.1.p2.x, r.2.p1.x, r.2.p2.x, r.2.f1, r.2.f2)) = some (0, 0, 1, 1, 2, 1) := by
  simp only [clipSegSeg3, clip3Ordered, clip3A, clip3B, V3.sub, V3.dot, V3.normSq, V3.add, V3.smul]
  norm_num

private theorem clip2Ordered_spec (a1 b1 s20 s21 : V2 K) (r20 r21 : K) (f10 f11 f20 f21 : Nat)
    (e20 : letI := fieldNum K sq; (s20.sub a1).dot (b1.sub a1) = r20)
    (e21 : letI := fieldNum K sq; (s21.sub a1).dot (b1.sub a1) = r21)
    (ca cb : Clip2 K)
    (h : letI := fieldNum K sq;
      clip2Ordered (b1.sub a1) 0 (b1.sub a1).normSq r20 r21 a1 b1 s20 s21 f10 f11 f20 f21 = some (ca, cb)) :
    Clip2Good sq a1 b1 s20 s21 ca ∧ Clip2Good sq a1 b1 s20 s21 cb := by
  simp only [clip2Ordered] at h
  split_ifs at h with hv
  push Not at hv
  obtain ⟨v1, v2⟩ := hv
  simp only [Option.some.injEq, Prod.mk.injEq] at h
  obtain ⟨rfl, rfl⟩ := h
  constructor
  · simp only [Clip2Good, clip2A]
    split_ifs with hlt
    · obtain ⟨p0, p1, p2⟩ := div_param 0 (@V2.normSq K (fieldNum K sq) (@V2.sub K (fieldNum K sq) b1 a1)) r20 (le_of_lt hlt) v1
      refine ⟨seg2_mem_lerp sq _ _ _ p0 p1, seg2_mem_a sq _ _, ?_⟩
      simp only [V2.dot, V2.add, V2.sub, V2.smul, V2.normSq] at e20 e21 p2 ⊢
      linear_combination e20 - p2
    · obtain ⟨p0, p1, p2⟩ := div_param r20 r21 0 (not_lt.mp hlt) v2
      refine ⟨seg2_mem_a sq _ _, seg2_mem_lerp sq _ _ _ p0 p1, ?_⟩
      simp only [V2.dot, V2.add, V2.sub, V2.smul, V2.normSq] at e20 e21 p2 ⊢
      linear_combination e20 + ((0 - r20) / (r21 - r20)) * (e21 - e20) + p2
  · simp only [Clip2Good, clip2B]
    split_ifs with hlt
    · obtain ⟨p0, p1, p2⟩ := div_param 0 (@V2.normSq K (fieldNum K sq) (@V2.sub K (fieldNum K sq) b1 a1)) r21 v2 (le_of_lt hlt)
      refine ⟨seg2_mem_lerp sq _ _ _ p0 p1, seg2_mem_b sq _ _, ?_⟩
      simp only [V2.dot, V2.add, V2.sub, V2.smul, V2.normSq] at e20 e21 p2 ⊢
      linear_combination e21 - p2
    · obtain ⟨p0, p1, p2⟩ := div_param r20 r21 (@V2.normSq K (fieldNum K sq) (@V2.sub K (fieldNum K sq) b1 a1)) v1 (not_lt.mp hlt)
      refine ⟨seg2_mem_b sq _ _, seg2_mem_lerp sq _ _ _ p0 p1, ?_⟩
      simp only [V2.dot, V2.add, V2.sub, V2.smul, V2.normSq] at e20 e21 p2 ⊢
      linear_combination e20 + (((b1.x - a1.x) * (b1.x - a1.x) + (b1.y - a1.y) * (b1.y - a1.y) - r20) / (r21 - r20)) * (e21 - e20) + p2

/-- **`clip_segment_segment` (2-D instance, the polygon/polygon generator's clipping).** -/
theorem clipSegSeg2_spec (a1 b1 a2 b2 : V2 K) (ca cb : Clip2 K)
    (h : letI := fieldNum K sq; clipSegSeg2 a1 b1 a2 b2 = some (ca, cb)) :
    Clip2Good sq a1 b1 a2 b2 ca ∧ Clip2Good sq a1 b1 a2 b2 cb := by
  have hn : (0 : K) ≤ @V2.normSq K (fieldNum K sq) (@V2.sub K (fieldNum K sq) b1 a1) := by
    simp only [V2.normSq, V2.dot, V2.sub]; nlinarith [mul_self_nonneg (b1.x - a1.x), mul_self_nonneg (b1.y - a1.y)]
  simp only [clipSegSeg2] at h
  split_ifs at h with h0 h2 h2
  · exact absurd h0 (not_lt.mpr hn)
  · exact absurd h0 (not_lt.mpr hn)
  · obtain ⟨x, y⟩ := clip2Ordered_spec sq a1 b1 b2 a2 _ _ _ _ _ _ rfl rfl ca cb h
    exact ⟨⟨x.1, seg2_mem_swap sq _ _ _ x.2.1, x.2.2⟩, ⟨y.1, seg2_mem_swap sq _ _ _ y.2.1, y.2.2⟩⟩
  · exact clip2Ordered_spec sq a1 b1 a2 b2 _ _ _ _ _ _ rfl rfl ca cb h

/-! ## 3-D `contact_manifold_capsule_capsule` -/

private theorem clamp01_range' (x : K) : letI := fieldNum K sq; 0 ≤ clamp01 x ∧ clamp01 x ≤ 1 := by
  simp only [clamp01]
  split_ifs with h1 h2
  · exact ⟨le_of_lt h1, le_of_lt h2⟩
  · exact ⟨zero_le_one, le_rfl⟩
  · exact ⟨le_rfl, zero_le_one⟩

private theorem segSegParams3_range (ulps : K → K → Bool) (a1 b1 a2 b2 : V3 K) :
    letI := fieldNum K sq
    (0 ≤ (segSegParams3 ulps a1 b1 a2 b2).1 ∧ (segSegParams3 ulps a1 b1 a2 b2).1 ≤ 1) ∧
    (0 ≤ (segSegParams3 ulps a1 b1 a2 b2).2 ∧ (segSegParams3 ulps a1 b1 a2 b2).2 ≤ 1) := by
  have z : (0 : K) ≤ 0 ∧ (0 : K) ≤ 1 := ⟨le_rfl, zero_le_one⟩
  have o : (0 : K) ≤ 1 ∧ (1 : K) ≤ 1 := ⟨zero_le_one, le_rfl⟩
  simp only [segSegParams3]
  split_ifs
  · exact ⟨z, z⟩
  · exact ⟨z, clamp01_range' sq _⟩
  · exact ⟨clamp01_range' sq _, z⟩
  · exact ⟨clamp01_range' sq _, z⟩
  · exact ⟨clamp01_range' sq _, o⟩
  · exact ⟨clamp01_range' sq _, not_lt.mp (by assumption), not_lt.mp (by assumption)⟩
  · exact ⟨clamp01_range' sq _, z⟩
  · exact ⟨clamp01_range' sq _, o⟩
  · exact ⟨z, not_lt.mp (by assumption), not_lt.mp (by assumption)⟩

private theorem baryPoint3_mem (a b : V3 K) (s : K) (h0 : 0 ≤ s) (h1 : s ≤ 1) :
    letI := fieldNum K sq; (Segment3.mk a b).Mem (baryPoint3 a b (bcoords s)) := by
  simp only [baryPoint3, bcoords]
  split_ifs
  · refine ⟨0, le_rfl, zero_le_one, ?_⟩
    apply V3.ext' <;> simp only [V3.add, V3.sub, V3.smul] <;> ring
  · refine ⟨1, zero_le_one, le_rfl, ?_⟩
    apply V3.ext' <;> simp only [V3.add, V3.sub, V3.smul] <;> ring
  · refine ⟨s, h0, h1, ?_⟩
    apply V3.ext' <;> simp only [V3.add, V3.sub, V3.smul] <;> ring

private theorem tryNew3_some (hs : LawfulSqrt sq) (v n : V3 K) (e : K)
    (h : letI := fieldNum K sq; tryNew3 v e = some n) :
    letI := fieldNum K sq
    n.dot n = 1 := by
  simp only [tryNew3] at h
  split_ifs at h with hpos
  simp only [Option.some.injEq] at h
  have hn := hs.sq_mul _ (normSq_nonneg3 sq v)
  have hpos' : 0 < @V3.normSq K (fieldNum K sq) v := lt_of_le_of_lt (mul_self_nonneg e) hpos
  simp only [fieldNum_sqrt] at h
  set c := sq (@V3.normSq K (fieldNum K sq) v) with hc
  have hc0 : c ≠ 0 := by
    intro hz; rw [hz] at hn; simp at hn; rw [← hn] at hpos'; exact lt_irrefl _ hpos'
  subst h
  simp only [V3.normSq, V3.dot] at hn
  simp only [V3.dot, V3.sdiv]; field_simp; linear_combination (-1 : K) * hn

private theorem capsuleAxisPoints3_spec (hs : LawfulSqrt sq) (ulps : K → K → Bool) (a1 b1 a2 b2 : V3 K) :
    letI := fieldNum K sq
    (Segment3.mk a1 b1).Mem (capsuleAxisPoints3 ulps a1 b1 a2 b2).1 ∧
    (Segment3.mk a2 b2).Mem (capsuleAxisPoints3 ulps a1 b1 a2 b2).2.1 ∧
    (capsuleAxisPoints3 ulps a1 b1 a2 b2).2.2.dot (capsuleAxisPoints3 ulps a1 b1 a2 b2).2.2 = 1 := by
  obtain ⟨⟨s0, s1⟩, ⟨t0, t1⟩⟩ := segSegParams3_range sq ulps a1 b1 a2 b2
  simp only [capsuleAxisPoints3]
  refine ⟨baryPoint3_mem sq _ _ _ s0 s1, baryPoint3_mem sq _ _ _ t0 t1, ?_⟩
  split
  · rename_i n hn
    exact tryNew3_some sq hs _ _ _ hn
  · simp [V3.dot]

private theorem rot_add3 (m : Iso3 K) (u v : V3 K) :
    letI := fieldNum K sq
    m.rot (u.add v) = (m.rot u).add (m.rot v) := by
  apply V3.ext' <;>
    simp only [Iso3.rot, Iso3.rotQ, Iso3.qv, V3.add, V3.smul, V3.cross, fieldNum_two] <;> ring

/-- a point of the transformed segment pulls back into the segment -/
private theorem seg3_mem_invAct (m : Iso3 K) (hq : UnitQ m) (a b y : V3 K)
    (h : letI := fieldNum K sq; (Segment3.mk (m.act a) (m.act b)).Mem y) :
    letI := fieldNum K sq; (Segment3.mk a b).Mem (m.invAct y) := by
  obtain ⟨t, h0, h1, rfl⟩ := h
  refine ⟨t, h0, h1, ?_⟩
  have e : @V3.sub K (fieldNum K sq) (@V3.add K (fieldNum K sq) (@Iso3.act K (fieldNum K sq) m a)
        (@V3.smul K (fieldNum K sq) (@V3.sub K (fieldNum K sq) (@Iso3.act K (fieldNum K sq) m b) (@Iso3.act K (fieldNum K sq) m a)) t)) m.t
      = @Iso3.rot K (fieldNum K sq) m (@V3.add K (fieldNum K sq) a (@V3.smul K (fieldNum K sq) (@V3.sub K (fieldNum K sq) b a) t)) := by
    rw [rot_add3, rot_smul3, rot_sub3]
    apply V3.ext' <;> simp only [Iso3.act, V3.add, V3.sub, V3.smul] <;> ring
  simp only [Iso3.invAct]
  rw [e, invRot_rot3 sq m _ hq]

/-- `p ∈ Capsule(a, b, r)`: within `r` of a point of the axis -/
def InCapsule3 (a b : V3 K) (r : K) (p : V3 K) : Prop :=
  letI := fieldNum K sq
  ∃ q, (Segment3.mk a b).Mem q ∧ (p.sub q).normSq ≤ r * r

/-- **C14 (b), 3-D capsule/capsule.**  Let `(p1, p2', n1)` be the closest points of the two axes and the normal computed
by the generator (frame of capsule 1) and `d = (p2' − p1)·n1 − r1 − r2`.
* If `¬ d ≤ prediction` the manifold is cleared.
* Otherwise `|n1| = |n2| = 1`, `pos12·n2 = −n1` exactly, the first contact is the generator's: `dist = d`,
  `dist = (pos12·local_p2 − local_p1)·n1` (the `dist` identity), `local_p1` in capsule 1, `local_p2` in capsule 2, and the
  two witnesses face each other along the normal up to the tangential offset of the closest axis points:
  `pos12·local_p2 − local_p1 = (p2' − p1) − n1 (r1 + r2)`; the other (stale) points of the manifold are kept as they were.
For every tie-breaking predicate `ulps`, arbitrary axes, radii and prediction of any sign. -/
theorem capsuleCapsule3_spec (hs : LawfulSqrt sq) (ulps : K → K → Bool) (pos12 : Iso3 K) (hq : UnitQ pos12)
    (a1 b1 : V3 K) (r1 : K) (a2 b2 : V3 K) (r2 pred : K) (m : Manifold3 K) :
    letI := fieldNum K sq
    let ax := capsuleAxisPoints3 ulps a1 b1 (pos12.act a2) (pos12.act b2)
    let d := (ax.2.1.sub ax.1).dot ax.2.2 - r1 - r2
    let m' := capsuleCapsule3 ulps pos12 a1 b1 r1 a2 b2 r2 pred m
    (¬ d ≤ pred → m' = m.clear) ∧
    (d ≤ pred →
      m'.n1 = ax.2.2 ∧ m'.n1.dot m'.n1 = 1 ∧ m'.n2.dot m'.n2 = 1 ∧ pos12.rot m'.n2 = m'.n1.neg ∧
      ∃ c, m'.points = c :: m.points.tail ∧ c.dist = d ∧
        c.dist = ((pos12.act c.p2).sub c.p1).dot m'.n1 ∧
        InCapsule3 sq a1 b1 r1 c.p1 ∧ InCapsule3 sq a2 b2 r2 c.p2 ∧
        (pos12.act c.p2).sub c.p1 = (ax.2.1.sub ax.1).sub (m'.n1.smul (r1 + r2))) := by
  intro ax d m'
  obtain ⟨hm1, hm2, hn⟩ := capsuleAxisPoints3_spec sq hs ulps a1 b1
    (@Iso3.act K (fieldNum K sq) pos12 a2) (@Iso3.act K (fieldNum K sq) pos12 b2)
  refine ⟨?_, ?_⟩
  · intro h
    simp only [m', capsuleCapsule3]
    rw [if_neg h]
  · intro h
    obtain ⟨b1', b2', _, _, b5, b6⟩ := ball_contact3 sq pos12 hq ax.2.2 r1 r2 hn
    have hm' : m' = ⟨setFirst (⟨@V3.add K (fieldNum K sq) ax.1 (@V3.smul K (fieldNum K sq) ax.2.2 r1),
          @V3.add K (fieldNum K sq) (@Iso3.invAct K (fieldNum K sq) pos12 ax.2.1)
            (@V3.smul K (fieldNum K sq) (@Iso3.invRot K (fieldNum K sq) pos12 (@V3.neg K (fieldNum K sq) ax.2.2)) r2), d⟩ : Contact3 K)
          m.points, ax.2.2, @Iso3.invRot K (fieldNum K sq) pos12 (@V3.neg K (fieldNum K sq) ax.2.2)⟩ := by
      simp only [m', capsuleCapsule3]
      rw [if_pos h]
    -- `pos12 · local_p2 = p2' − n1 r2`
    have e1 : @Iso3.act K (fieldNum K sq) pos12
        (@V3.add K (fieldNum K sq) (@Iso3.invAct K (fieldNum K sq) pos12 ax.2.1)
          (@V3.smul K (fieldNum K sq) (@Iso3.invRot K (fieldNum K sq) pos12 (@V3.neg K (fieldNum K sq) ax.2.2)) r2))
        = @V3.sub K (fieldNum K sq) ax.2.1 (@V3.smul K (fieldNum K sq) ax.2.2 r2) := by
      simp only [Iso3.act, Iso3.invAct]
      rw [rot_add3, rot_smul3, rot_invRot3 sq pos12 _ hq, rot_invRot3 sq pos12 _ hq]
      apply V3.ext' <;> simp only [V3.add, V3.sub, V3.smul, V3.neg] <;> ring
    have hpts : ∀ c : Contact3 K, setFirst c m.points = c :: m.points.tail := by
      intro c; cases m.points <;> rfl
    rw [hm']
    refine ⟨rfl, hn, b1', b2', _, hpts _, rfl, ?_, ⟨ax.1, hm1, ?_⟩,
      ⟨@Iso3.invAct K (fieldNum K sq) pos12 ax.2.1, seg3_mem_invAct sq pos12 hq a2 b2 _ hm2, ?_⟩, ?_⟩
    · simp only []
      rw [e1]
      simp only [d, V3.dot, V3.add, V3.sub, V3.smul] at hn ⊢
      linear_combination (r1 + r2) * hn
    · simp only [V3.normSq, V3.dot, V3.add, V3.sub, V3.smul] at hn ⊢
      apply le_of_eq; linear_combination (r1 * r1) * hn
    · simp only [V3.normSq, V3.dot, V3.add, V3.sub, V3.smul] at b1' ⊢
      apply le_of_eq; linear_combination (r2 * r2) * b1'
    · simp only []
      rw [e1]
      apply V3.ext' <;> simp only [V3.add, V3.sub, V3.smul] <;> ring

example : UnitQ (⟨0, 0, 0, 1, ⟨3, 0, 0⟩⟩ : Iso3 ℚ) := by simp [UnitQ]

/-! ## `PolygonalFeature::contacts` for two edges -/

private theorem segSegParams2_range' (ulps : K → K → Bool) (a1 b1 a2 b2 : V2 K) :
    letI := fieldNum K sq
    (0 ≤ (segSegParams2 ulps a1 b1 a2 b2).1 ∧ (segSegParams2 ulps a1 b1 a2 b2).1 ≤ 1) ∧
    (0 ≤ (segSegParams2 ulps a1 b1 a2 b2).2 ∧ (segSegParams2 ulps a1 b1 a2 b2).2 ≤ 1) := by
  have z : (0 : K) ≤ 0 ∧ (0 : K) ≤ 1 := ⟨le_rfl, zero_le_one⟩
  have o : (0 : K) ≤ 1 ∧ (1 : K) ≤ 1 := ⟨zero_le_one, le_rfl⟩
  simp only [segSegParams2]
  split_ifs
  · exact ⟨z, z⟩
  · exact ⟨z, clamp01_range' sq _⟩
  · exact ⟨clamp01_range' sq _, z⟩
  · exact ⟨clamp01_range' sq _, z⟩
  · exact ⟨clamp01_range' sq _, o⟩
  · exact ⟨clamp01_range' sq _, not_lt.mp (by assumption), not_lt.mp (by assumption)⟩
  · exact ⟨clamp01_range' sq _, z⟩
  · exact ⟨clamp01_range' sq _, o⟩
  · exact ⟨z, not_lt.mp (by assumption), not_lt.mp (by assumption)⟩

private theorem act_invAct3 (m : Iso3 K) (hq : UnitQ m) (y : V3 K) :
    letI := fieldNum K sq; m.act (m.invAct y) = y := by
  simp only [Iso3.act, Iso3.invAct]
  rw [rot_invRot3 sq m _ hq]
  apply V3.ext' <;> simp only [V3.add, V3.sub] <;> ring

/-- the property's per-contact clause for an edge/edge contact (unflipped): witness 1 on edge 1, witness 2 on edge 2 (in
the frame of shape 2), `dist = (pos12·local_p2 − local_p1)·sep_axis1` -/
def EdgeContactGood (pos12 : Iso3 K) (e1a e1b e2a e2b sep : V3 K) (c : Contact3 K) : Prop :=
  letI := fieldNum K sq
  (Segment3.mk e1a e1b).Mem c.p1 ∧ (Segment3.mk e2a e2b).Mem c.p2 ∧ c.dist = ((pos12.act c.p2).sub c.p1).dot sep

private theorem edgeEdgeClip3_good (pos12 : Iso3 K) (hq : UnitQ pos12) (e1a e1b e2a e2b sep : V3 K) :
    letI := fieldNum K sq
    ∀ c ∈ edgeEdgeClip3 pos12 e1a e1b (pos12.act e2a) (pos12.act e2b) sep false,
      EdgeContactGood sq pos12 e1a e1b e2a e2b sep c ∧ ((pos12.act c.p2).sub c.p1).dot (e1b.sub e1a) = 0 := by
  intro c hc
  simp only [edgeEdgeClip3] at hc
  split at hc
  · rename_i ca cb hcl
    obtain ⟨ga, gb⟩ := clipSegSeg3_spec sq e1a e1b _ _ ca cb hcl
    simp only [List.mem_cons, List.not_mem_nil, or_false, Contact3.flipped, Bool.not_false, if_true] at hc
    rcases hc with rfl | rfl
    · refine ⟨⟨ga.1, seg3_mem_invAct sq pos12 hq _ _ _ ga.2.1, ?_⟩, ?_⟩
      · simp only []; rw [act_invAct3 sq pos12 hq]
      · simp only []; rw [act_invAct3 sq pos12 hq]; exact ga.2.2
    · refine ⟨⟨gb.1, seg3_mem_invAct sq pos12 hq _ _ _ gb.2.1, ?_⟩, ?_⟩
      · simp only []; rw [act_invAct3 sq pos12 hq]
      · simp only []; rw [act_invAct3 sq pos12 hq]; exact gb.2.2
  · simp at hc

/-- **C14, pfm/pfm edge–edge contacts (`PolygonalFeature::contacts` on two edges).**  For EVERY basis function, every
`ulps_eq` predicate, every separating axis and all edges (unequal lengths, parallel, anti-parallel, crossed, degenerate
projections): at most two contacts are produced, and each has its first witness on edge 1, its second witness on edge 2
(expressed in the frame of shape 2) and `dist = (pos12·local_p2 − local_p1)·sep_axis1`. -/
theorem edgeEdge3_spec (basis : V3 K → V3 K × V3 K) (ulps : K → K → Bool) (pos12 : Iso3 K) (hq : UnitQ pos12)
    (e1a e1b e2a e2b sep : V3 K) :
    letI := fieldNum K sq
    (edgeEdge3 basis ulps pos12 e1a e1b e2a e2b sep false).length ≤ 2 ∧
    ∀ c ∈ edgeEdge3 basis ulps pos12 e1a e1b e2a e2b sep false, EdgeContactGood sq pos12 e1a e1b e2a e2b sep c := by
  have hclip := edgeEdgeClip3_good sq pos12 hq e1a e1b e2a e2b sep
  have hlen : (@edgeEdgeClip3 K (fieldNum K sq) pos12 e1a e1b (@Iso3.act K (fieldNum K sq) pos12 e2a)
      (@Iso3.act K (fieldNum K sq) pos12 e2b) sep false).length ≤ 2 := by
    simp only [edgeEdgeClip3]; split <;> simp
  simp only [edgeEdge3]
  split
  · split_ifs
    · exact ⟨hlen, fun c hc => (hclip c hc).1⟩
    · refine ⟨by simp, ?_⟩
      intro c hc
      simp only [List.mem_singleton, Contact3.flipped, Bool.not_false, if_true] at hc
      subst hc
      obtain ⟨⟨s0, s1⟩, ⟨t0, t1⟩⟩ := segSegParams2_range' sq ulps
        (⟨@V3.dot K (fieldNum K sq) e1a (basis sep).1, @V3.dot K (fieldNum K sq) e1a (basis sep).2⟩ : V2 K)
        ⟨@V3.dot K (fieldNum K sq) e1b (basis sep).1, @V3.dot K (fieldNum K sq) e1b (basis sep).2⟩
        ⟨@V3.dot K (fieldNum K sq) (@Iso3.act K (fieldNum K sq) pos12 e2a) (basis sep).1, @V3.dot K (fieldNum K sq) (@Iso3.act K (fieldNum K sq) pos12 e2a) (basis sep).2⟩
        ⟨@V3.dot K (fieldNum K sq) (@Iso3.act K (fieldNum K sq) pos12 e2b) (basis sep).1, @V3.dot K (fieldNum K sq) (@Iso3.act K (fieldNum K sq) pos12 e2b) (basis sep).2⟩
      refine ⟨baryPoint3_mem sq _ _ _ s0 s1, seg3_mem_invAct sq pos12 hq _ _ _ (baryPoint3_mem sq _ _ _ t0 t1), ?_⟩
      simp only []; rw [act_invAct3 sq pos12 hq]
  · exact ⟨hlen, fun c hc => (hclip c hc).1⟩

/-- in the conformal (two-contact) branch the witnesses of each contact face each other across edge 1 -/
theorem edgeEdgeClip3_aligned (pos12 : Iso3 K) (hq : UnitQ pos12) (e1a e1b e2a e2b sep : V3 K) :
    letI := fieldNum K sq
    ∀ c ∈ edgeEdgeClip3 pos12 e1a e1b (pos12.act e2a) (pos12.act e2b) sep false,
      ((pos12.act c.p2).sub c.p1).dot (e1b.sub e1a) = 0 :=
  fun c hc => (edgeEdgeClip3_good sq pos12 hq e1a e1b e2a e2b sep c hc).2

/-! ## `contact_manifold_pfm_pfm` after the GJK call (edge features) -/

/-- `p` is within `br` of a point of `S` (membership in the shape rounded by its border radius) -/
def NearSet (S : V3 K → Prop) (br : K) (p : V3 K) : Prop :=
  letI := fieldNum K sq
  ∃ q, S q ∧ (p.sub q).normSq ≤ br * br

private theorem applyBorder3_good (pos12 : Iso3 K) (hq : UnitQ pos12) (n1 : V3 K) (br1 br2 : K)
    (hn : letI := fieldNum K sq; n1.dot n1 = 1) (S1 S2 : V3 K → Prop) (c : Contact3 K)
    (hd : letI := fieldNum K sq; c.dist = ((pos12.act c.p2).sub c.p1).dot n1) (h1 : S1 c.p1) (h2 : S2 c.p2) :
    letI := fieldNum K sq
    let c' := applyBorder3 n1 (pos12.invRot n1.neg) br1 br2 c
    c'.dist = ((pos12.act c'.p2).sub c'.p1).dot n1 ∧ NearSet sq S1 br1 c'.p1 ∧ NearSet sq S2 br2 c'.p2 := by
  intro c'
  obtain ⟨b1, b2, _, _, _, _⟩ := ball_contact3 sq pos12 hq n1 br1 br2 hn
  have e1 : @Iso3.act K (fieldNum K sq) pos12 (@V3.add K (fieldNum K sq) c.p2
        (@V3.smul K (fieldNum K sq) (@Iso3.invRot K (fieldNum K sq) pos12 (@V3.neg K (fieldNum K sq) n1)) br2))
      = @V3.sub K (fieldNum K sq) (@Iso3.act K (fieldNum K sq) pos12 c.p2) (@V3.smul K (fieldNum K sq) n1 br2) := by
    simp only [Iso3.act]
    rw [rot_add3, rot_smul3, b2]
    apply V3.ext' <;> simp only [V3.add, V3.sub, V3.smul, V3.neg] <;> ring
  refine ⟨?_, ⟨c.p1, h1, ?_⟩, ⟨c.p2, h2, ?_⟩⟩
  · simp only [c', applyBorder3]
    rw [e1, hd]
    simp only [V3.dot, V3.add, V3.sub, V3.smul] at hn ⊢
    linear_combination (br1 + br2) * hn
  · simp only [c', applyBorder3, V3.normSq, V3.dot, V3.add, V3.sub, V3.smul] at hn ⊢
    apply le_of_eq; linear_combination (br1 * br1) * hn
  · simp only [c', applyBorder3, V3.normSq, V3.dot, V3.add, V3.sub, V3.smul] at b1 ⊢
    apply le_of_eq; linear_combination (br2 * br2) * b1

/-- **C14, `contact_manifold_pfm_pfm` given the GJK answer, edge features.**  If GJK returned a UNIT direction `dir` and a
witness pair `p1 ∈ S1`, `p2_1` with `pos12⁻¹ p2_1 ∈ S2`, and the two support edges lie in the core shapes `S1`, `S2`, then the
finished manifold has unit exactly-opposite normals (`n1 = dir`, `pos12·n2 = −n1`), at most three contacts, and EVERY contact —
the clipped / closest-point feature contacts and the extra GJK contact, after the border-radius shift — satisfies
`dist = (pos12·local_p2 − local_p1)·n1` with `local_p1` within `border_radius1` of `S1` and `local_p2` within
`border_radius2` of `S2`.  For every basis function and `ulps` predicate. -/
theorem pfmPfmEdgeGiven_spec (basis : V3 K → V3 K × V3 K) (ulps : K → K → Bool) (pos12 : Iso3 K) (hq : UnitQ pos12)
    (p1 p21 dir e1a e1b e2a e2b : V3 K) (br1 br2 : K) (S1 S2 : V3 K → Prop)
    (hn : letI := fieldNum K sq; dir.dot dir = 1)
    (hp1 : S1 p1) (hp2 : letI := fieldNum K sq; S2 (pos12.invAct p21))
    (he1 : letI := fieldNum K sq; ∀ p, (Segment3.mk e1a e1b).Mem p → S1 p)
    (he2 : letI := fieldNum K sq; ∀ p, (Segment3.mk e2a e2b).Mem p → S2 p) :
    letI := fieldNum K sq
    let m := pfmPfmEdgeGiven basis ulps pos12 p1 p21 dir e1a e1b e2a e2b br1 br2
    m.n1 = dir ∧ m.n2.dot m.n2 = 1 ∧ pos12.rot m.n2 = m.n1.neg ∧ m.points.length ≤ 3 ∧
    ∀ c ∈ m.points, c.dist = ((pos12.act c.p2).sub c.p1).dot m.n1 ∧ NearSet sq S1 br1 c.p1 ∧ NearSet sq S2 br2 c.p2 := by
  intro m
  obtain ⟨b1, b2, _, _, _, _⟩ := ball_contact3 sq pos12 hq dir br1 br2 hn
  obtain ⟨hlen, hgood⟩ := edgeEdge3_spec sq basis ulps pos12 hq e1a e1b e2a e2b dir
  -- the raw contacts: good with witnesses IN the core shapes
  have hraw : ∀ c ∈ (@edgeEdge3 K (fieldNum K sq) basis ulps pos12 e1a e1b e2a e2b dir false) ++
      [(⟨p1, @Iso3.invAct K (fieldNum K sq) pos12 p21,
        @V3.dot K (fieldNum K sq) (@V3.sub K (fieldNum K sq) p21 p1) dir⟩ : Contact3 K)],
      c.dist = @V3.dot K (fieldNum K sq) (@V3.sub K (fieldNum K sq) (@Iso3.act K (fieldNum K sq) pos12 c.p2) c.p1) dir
        ∧ S1 c.p1 ∧ S2 c.p2 := by
    intro c hc
    rcases List.mem_append.mp hc with h | h
    · obtain ⟨g1, g2, g3⟩ := hgood c h
      exact ⟨g3, he1 _ g1, he2 _ g2⟩
    · simp only [List.mem_singleton] at h
      subst h
      refine ⟨?_, hp1, hp2⟩
      simp only []; rw [act_invAct3 sq pos12 hq]
  have hrawlen : ((@edgeEdge3 K (fieldNum K sq) basis ulps pos12 e1a e1b e2a e2b dir false) ++
      [(⟨p1, @Iso3.invAct K (fieldNum K sq) pos12 p21,
        @V3.dot K (fieldNum K sq) (@V3.sub K (fieldNum K sq) p21 p1) dir⟩ : Contact3 K)]).length ≤ 3 := by
    simp only [List.length_append, List.length_singleton]; omega
  simp only [m, pfmPfmEdgeGiven]
  refine ⟨trivial, b1, b2, ?_, ?_⟩
  · split_ifs
    · exact hrawlen
    · rw [List.length_map]; exact hrawlen
  · split_ifs with hz
    · -- both border radii are zero: nothing is shifted
      have hz' : br1 = 0 ∧ br2 = 0 := by
        simp only [neq, Bool.and_eq_true, decide_eq_true_eq] at hz
        exact ⟨le_antisymm hz.1.1 hz.1.2, le_antisymm hz.2.1 hz.2.2⟩
      intro c hc
      obtain ⟨g1, g2, g3⟩ := hraw c hc
      refine ⟨g1, ⟨c.p1, g2, ?_⟩, ⟨c.p2, g3, ?_⟩⟩
      · rw [hz'.1]; simp [V3.normSq, V3.dot, V3.sub]
      · rw [hz'.2]; simp [V3.normSq, V3.dot, V3.sub]
    · intro c hc
      simp only [List.mem_map] at hc
      obtain ⟨raw, hraw', rfl⟩ := hc
      obtain ⟨g1, g2, g3⟩ := hraw raw hraw'
      exact applyBorder3_good sq pos12 hq dir br1 br2 hn S1 S2 raw g1 g2 g3

/-! ## the sub-detector bookkeeping of `contact_manifolds_composite_shape_composite_shape`

Same statements as for `contact_manifolds_composite_shape_shape` (Theorems.lean), over an arbitrary key type `κ`
(`κ = Nat × Nat`: the pair of leaves).  "Label stability": the manifold a pair starts a call from is the one created
for — and so far only ever updated by — that same pair, wherever it sat in the previous vector; the new vector has no
holes and no duplicates (`ms' = keys.map …`, a compaction in visiting order). -/

section KeyedBookkeeping
variable {κ α β : Type} [DecidableEq κ]

/-- the label fields of a manifold -/
def WManifold.klabels (m : WManifold α β) : Nat × Nat × Option β × Option β :=
  (m.subshape1, m.subshape2, m.pos1, m.pos2)

/-- the manifold a part starts this call from: its own manifold of the previous call if it had one, a fresh
one otherwise -/
def prevOf (fresh : κ → WManifold α β) (ws : KWorkspace κ) (ms : List (WManifold α β)) (leaf : κ) :
    WManifold α β :=
  match ws.sub leaf with
  | some sd => (ms[sd.manifoldId]?).getD (fresh leaf)
  | none => fresh leaf

/-- the state invariant between calls: every map entry carries the current timestamp and points at a manifold
labelled with its part; distinct parts point at distinct manifolds; every manifold is pointed at. -/
structure KInv (fresh : κ → WManifold α β) (ws : KWorkspace κ) (ms : List (WManifold α β)) : Prop where
  entry : ∀ leaf sd, ws.sub leaf = some sd →
    sd.timestamp = ws.timestamp ∧ ∃ m, ms[sd.manifoldId]? = some m ∧ m.klabels = (fresh leaf).klabels
  inj : ∀ l1 l2 sd1 sd2, ws.sub l1 = some sd1 → ws.sub l2 = some sd2 → sd1.manifoldId = sd2.manifoldId → l1 = l2
  surj : ∀ i, i < ms.length → ∃ leaf sd, ws.sub leaf = some sd ∧ sd.manifoldId = i

/-- loop invariant of the traversal after the leaves `done` -/
structure KLoopInv (narrow : κ → WManifold α β → WManifold α β) (fresh : κ → WManifold α β) (newTs : Bool)
    (ws : KWorkspace κ) (ms : List (WManifold α β)) (done : List κ) (st : KLoopSt κ α β) : Prop where
  new_eq : st.new = done.map (fun l => narrow l (prevOf fresh ws ms l))
  visited : ∀ l, l ∈ done → ∃ i, st.sub l = some ⟨i, newTs⟩ ∧ done[i]? = some l
  untouched : ∀ l, l ∉ done → st.sub l = ws.sub l
  old_len : st.old.length = ms.length
  old_get : ∀ l sd, l ∉ done → ws.sub l = some sd → st.old[sd.manifoldId]? = ms[sd.manifoldId]?

private theorem visitKey_inv (narrow : κ → WManifold α β → WManifold α β) (clr : α → α) (fresh : κ → WManifold α β)
    (newTs : Bool) (ws : KWorkspace κ) (ms : List (WManifold α β)) (hinv : KInv fresh ws ms)
    (done : List κ) (st : KLoopSt κ α β) (x : κ) (hx : x ∉ done)
    (h : KLoopInv narrow fresh newTs ws ms done st) :
    ∃ st', visitKey narrow clr fresh newTs st x = some st' ∧
      KLoopInv narrow fresh newTs ws ms (done ++ [x]) st' := by
  have hlen : st.new.length = done.length := by rw [h.new_eq]; simp
  have hsubx : st.sub x = ws.sub x := h.untouched x hx
  have visited' : ∀ (sub' : κ → Option SubDetector), (∀ l, sub' l = if l = x then some ⟨st.new.length, newTs⟩ else st.sub l) →
      ∀ l, l ∈ done ++ [x] → ∃ i, sub' l = some ⟨i, newTs⟩ ∧ (done ++ [x])[i]? = some l := by
    intro sub' hsub' l hl
    rw [hsub' l]
    by_cases hlx : l = x
    · subst hlx
      refine ⟨st.new.length, by simp, ?_⟩
      rw [hlen]; simp
    · have hld : l ∈ done := by
        rcases List.mem_append.mp hl with h1 | h1
        · exact h1
        · simp at h1; exact absurd h1 hlx
      obtain ⟨i, hi1, hi2⟩ := h.visited l hld
      refine ⟨i, by simp [hlx, hi1], ?_⟩
      have : i < done.length := by
        rcases Nat.lt_or_ge i done.length with h' | h'
        · exact h'
        · rw [List.getElem?_eq_none h'] at hi2; cases hi2
      rw [List.getElem?_append_left this]; exact hi2
  have untouched' : ∀ (sub' : κ → Option SubDetector), (∀ l, sub' l = if l = x then some ⟨st.new.length, newTs⟩ else st.sub l) →
      ∀ l, l ∉ done ++ [x] → sub' l = ws.sub l := by
    intro sub' hsub' l hl
    have hl1 : l ∉ done := fun h' => hl (List.mem_append_left _ h')
    have hl2 : l ≠ x := fun h' => hl (by simp [h'])
    rw [hsub' l]; simp [hl2, h.untouched l hl1]
  cases hws : ws.sub x with
  | none =>
    refine ⟨_, by simp only [visitKey, hsubx, hws]; rfl, ?_⟩
    refine ⟨?_, visited' _ (fun _ => rfl), untouched' _ (fun _ => rfl), h.old_len, ?_⟩
    · simp [h.new_eq, prevOf, hws]
    · intro l sd hl hsd
      exact h.old_get l sd (fun h' => hl (List.mem_append_left _ h')) hsd
  | some sd =>
    obtain ⟨_, m, hm, _⟩ := hinv.entry x sd hws
    have hold : st.old[sd.manifoldId]? = some m := by rw [h.old_get x sd hx hws]; exact hm
    refine ⟨_, by simp only [visitKey, hsubx, hws, hold]; rfl, ?_⟩
    refine ⟨?_, visited' _ (fun _ => rfl), untouched' _ (fun _ => rfl), by simp [h.old_len], ?_⟩
    · simp [h.new_eq, prevOf, hws, hm]
    · intro l sd2 hl hsd2
      have hl1 : l ∉ done := fun h' => hl (List.mem_append_left _ h')
      have hl2 : l ≠ x := fun h' => hl (by simp [h'])
      have hne : sd.manifoldId ≠ sd2.manifoldId := fun he => hl2 (hinv.inj x l sd sd2 hws hsd2 he).symm
      simp only []
      rw [List.getElem?_set_ne hne]
      exact h.old_get l sd2 hl1 hsd2

private theorem foldl_visitKey_inv (narrow : κ → WManifold α β → WManifold α β) (clr : α → α) (fresh : κ → WManifold α β)
    (newTs : Bool) (ws : KWorkspace κ) (ms : List (WManifold α β)) (hinv : KInv fresh ws ms)
    (todo : List κ) : ∀ (done : List κ) (st : KLoopSt κ α β), (done ++ todo).Nodup →
    KLoopInv narrow fresh newTs ws ms done st →
    ∃ st', todo.foldlM (visitKey narrow clr fresh newTs) st = some st' ∧
      KLoopInv narrow fresh newTs ws ms (done ++ todo) st' := by
  induction todo with
  | nil => intro done st _ h; exact ⟨st, rfl, by simpa using h⟩
  | cons x rest ih =>
    intro done st hnd h
    have hx : x ∉ done := by
      intro hxd
      have := List.nodup_append.mp hnd
      exact this.2.2 x hxd x (by simp) rfl
    obtain ⟨st1, h1, h2⟩ := visitKey_inv narrow clr fresh newTs ws ms hinv done st x hx h
    have hnd' : ((done ++ [x]) ++ rest).Nodup := by simpa using hnd
    obtain ⟨st', h3, h4⟩ := ih (done ++ [x]) st1 hnd' h2
    refine ⟨st', ?_, by simpa using h4⟩
    simp only [List.foldlM_cons, h1]
    exact h3


/-- **C14 (composite/composite bookkeeping), one call.**  For *any* narrow phase that leaves the label fields alone, any `clr`, any
workspace/manifold storage satisfying the invariant (in particular the empty one), and any duplicate-free list
of visited pairs: the call does not panic; the new `manifolds` vector is, position by position, the visited
leaves' manifolds — `narrow` applied to the part's **own** manifold of the previous call if it had one, to a
fresh `ContactManifold::new()` with the part's labels otherwise; the `sub_detectors` domain is exactly the set
of visited pairs; and the invariant holds again. -/
theorem keyedStep_spec (narrow : κ → WManifold α β → WManifold α β) (clr : α → α)
    (fresh : κ → WManifold α β) (ws : KWorkspace κ) (ms : List (WManifold α β)) (leaves : List κ)
    (hinv : KInv fresh ws ms) (hnd : leaves.Nodup)
    (hlab : ∀ l m, (narrow l m).klabels = m.klabels) :
    ∃ ws', keyedStep narrow clr fresh ws ms leaves
        = some (ws', leaves.map (fun l => narrow l (prevOf fresh ws ms l))) ∧
      ws'.timestamp = !ws.timestamp ∧
      (∀ l, (ws'.sub l).isSome = true ↔ l ∈ leaves) ∧
      KInv fresh ws' (leaves.map (fun l => narrow l (prevOf fresh ws ms l))) := by
  have h0 : KLoopInv narrow fresh (!ws.timestamp) ws ms [] ⟨ws.sub, ms, []⟩ :=
    ⟨rfl, by simp, by simp, rfl, by simp⟩
  obtain ⟨st, hfold, hl⟩ := foldl_visitKey_inv narrow clr fresh (!ws.timestamp) ws ms hinv leaves [] _ (by simpa using hnd) h0
  simp only [List.nil_append] at hl
  have hprevlab : ∀ l, (prevOf fresh ws ms l).klabels = (fresh l).klabels := by
    intro l
    simp only [prevOf]
    cases hws : ws.sub l with
    | none => rfl
    | some sd =>
      obtain ⟨_, m, hm, hlm⟩ := hinv.entry l sd hws
      simp [hm, hlm]
  -- the retained map
  have hsub : ∀ l, kRetain (!ws.timestamp) st.sub l =
      if l ∈ leaves then st.sub l else none := by
    intro l
    by_cases hl' : l ∈ leaves
    · obtain ⟨i, hi, _⟩ := hl.visited l hl'
      simp [kRetain, hi, hl']
    · simp only [kRetain, hl', if_false, hl.untouched l hl']
      cases hws : ws.sub l with
      | none => rfl
      | some sd =>
        have := (hinv.entry l sd hws).1
        simp only [this]
        cases ws.timestamp <;> simp
  refine ⟨⟨!ws.timestamp, kRetain (!ws.timestamp) st.sub⟩, ?_, rfl, ?_, ?_⟩
  · simp only [keyedStep, hfold, hl.new_eq]
  · intro l
    simp only [hsub l]
    by_cases hl' : l ∈ leaves
    · obtain ⟨i, hi, _⟩ := hl.visited l hl'
      simp [hl', hi]
    · simp [hl']
  · constructor
    · intro l sd hsd
      simp only [hsub l] at hsd
      by_cases hl' : l ∈ leaves
      · obtain ⟨i, hi, hi2⟩ := hl.visited l hl'
        simp only [hl', if_true, hi, Option.some.injEq] at hsd
        subst hsd
        refine ⟨rfl, narrow l (prevOf fresh ws ms l), ?_, ?_⟩
        · simp only [List.getElem?_map, hi2, Option.map_some]
        · rw [hlab, hprevlab]
      · simp [hl'] at hsd
    · intro l1 l2 sd1 sd2 h1 h2 he
      simp only [hsub] at h1 h2
      by_cases hl1 : l1 ∈ leaves
      · by_cases hl2 : l2 ∈ leaves
        · obtain ⟨i, hi, hi2⟩ := hl.visited l1 hl1
          obtain ⟨j, hj, hj2⟩ := hl.visited l2 hl2
          simp only [hl1, hl2, if_true, hi, hj, Option.some.injEq] at h1 h2
          subst h1; subst h2
          simp only [] at he
          subst he
          rw [hi2] at hj2
          exact Option.some.inj hj2
        · simp [hl2] at h2
      · simp [hl1] at h1
    · intro i hi
      simp only [List.length_map] at hi
      have hmem : leaves[i] ∈ leaves := List.getElem_mem hi
      obtain ⟨j, hj, hj2⟩ := hl.visited leaves[i] hmem
      have hij : j = i := by
        have hjlt : j < leaves.length := by
          rcases Nat.lt_or_ge j leaves.length with h' | h'
          · exact h'
          · rw [List.getElem?_eq_none h'] at hj2; cases hj2
        rw [List.getElem?_eq_getElem hjlt, Option.some.injEq] at hj2
        exact (List.Nodup.getElem_inj_iff hnd).mp hj2
      refine ⟨leaves[i], ⟨j, !ws.timestamp⟩, ?_, hij⟩
      simp [hsub, hmem, hj]

/-- the empty workspace with the empty manifold vector satisfies the invariant -/
theorem kInv_new (fresh : κ → WManifold α β) : KInv fresh (KWorkspace.new : KWorkspace κ) ([] : List (WManifold α β)) :=
  ⟨by intro l sd h; simp [KWorkspace.new] at h, by intro l1 l2 sd1 sd2 h; simp [KWorkspace.new] at h,
   by intro i hi; simp at hi⟩

/-- **C14 (composite/composite bookkeeping), all histories.**  From any state satisfying the invariant (e.g. the empty one), for
every sequence of calls — each with its own label-preserving narrow phase and its own duplicate-free set of
visited pairs, in any order, with parts appearing, disappearing and re-appearing — no call panics and the
invariant holds at the end (hence `keyedStep_spec` applies to every single call of the history). -/
theorem keyedRun_ok (clr : α → α) (fresh : κ → WManifold α β)
    (calls : List ((κ → WManifold α β → WManifold α β) × List κ)) :
    ∀ (ws : KWorkspace κ) (ms : List (WManifold α β)), KInv fresh ws ms →
    (∀ c ∈ calls, c.2.Nodup ∧ ∀ l m, (c.1 l m).klabels = m.klabels) →
    ∃ ws' ms', keyedRun clr fresh ws ms calls = some (ws', ms') ∧ KInv fresh ws' ms' := by
  induction calls with
  | nil => intro ws ms h _; exact ⟨ws, ms, rfl, h⟩
  | cons c rest ih =>
    intro ws ms h hc
    obtain ⟨hnd, hlab⟩ := hc c (by simp)
    obtain ⟨ws1, h1, _, _, h4⟩ := keyedStep_spec c.1 clr fresh ws ms c.2 h hnd hlab
    obtain ⟨ws', ms', h5, h6⟩ := ih ws1 _ h4 (fun c' hc' => hc c' (by simp [hc']))
    refine ⟨ws', ms', ?_, h6⟩
    obtain ⟨cn, cl⟩ := c
    simp only [keyedRun, h1]
    exact h5


/-- **C14 (composite/composite bookkeeping), the property's last sentence, per part.**  After a successful call: exactly one manifold
per visited pair (same count, same order); the manifold at position `i` is labelled with the labels of part
`leaves[i]` (id and pose, respecting `flipped`); if that part had a manifold in the previous call it is the
narrow phase applied to **that** manifold (data continuity); if not, to a fresh `ContactManifold::new()`. -/
theorem keyedStep_parts (narrow : κ → WManifold α β → WManifold α β) (clr : α → α)
    (fresh : κ → WManifold α β) (ws ws' : KWorkspace κ) (ms ms' : List (WManifold α β)) (leaves : List κ)
    (hinv : KInv fresh ws ms) (hnd : leaves.Nodup) (hlab : ∀ l m, (narrow l m).klabels = m.klabels)
    (hres : keyedStep narrow clr fresh ws ms leaves = some (ws', ms')) :
    ms'.length = leaves.length ∧
    ∀ (i : Nat) (l : κ), leaves[i]? = some l →
      (∀ (sd : SubDetector) (m : WManifold α β), ws.sub l = some sd → ms[sd.manifoldId]? = some m → ms'[i]? = some (narrow l m)) ∧
      (ws.sub l = none → ms'[i]? = some (narrow l (fresh l))) ∧
      (∃ m' : WManifold α β, ms'[i]? = some m' ∧ m'.klabels = (fresh l).klabels) := by
  obtain ⟨ws1, h1, _, _, h4⟩ := keyedStep_spec narrow clr fresh ws ms leaves hinv hnd hlab
  rw [h1] at hres
  simp only [Option.some.injEq, Prod.mk.injEq] at hres
  obtain ⟨rfl, rfl⟩ := hres
  refine ⟨by simp, ?_⟩
  intro i l hil
  refine ⟨?_, ?_, ?_⟩
  · intro sd m hsd hm
    simp [List.getElem?_map, hil, prevOf, hsd, hm]
  · intro hnone
    simp [List.getElem?_map, hil, prevOf, hnone]
  · refine ⟨narrow l (prevOf fresh ws ms l), by simp [List.getElem?_map, hil], ?_⟩
    rw [hlab]
    simp only [prevOf]
    cases hws : ws.sub l with
    | none => rfl
    | some sd =>
      obtain ⟨_, m, hm, hlm⟩ := hinv.entry l sd hws
      simp [hm, hlm]


/-- a narrow phase that counts how many consecutive calls a pair has been alive -/
private def kbump : Nat × Nat → WManifold Nat Unit → WManifold Nat Unit := fun _ m => { m with data := m.data + 1 }

/-- a 4-call history with pairs entering at the FRONT of the traversal order, leaving from the front and from the
middle: `[(1,0),(1,1)] → [(0,0),(0,1),(1,0),(1,1)] → [(0,1),(1,1)] → [(0,0),(1,1),(2,0)]`.  After the last call the three
manifolds are labelled `(0,0)`, `(1,1)`, `(2,0)` and have been alive 1, 4, 1 calls: `(1,1)` kept its own data although
its index went 1 → 3 → 1 → 1. -/
example : (keyedRun id (freshPair 0 (fun _ => (none : Option Unit)) (fun _ => none)) KWorkspace.new []
      [(kbump, [(1, 0), (1, 1)]), (kbump, [(0, 0), (0, 1), (1, 0), (1, 1)]), (kbump, [(0, 1), (1, 1)]),
       (kbump, [(0, 0), (1, 1), (2, 0)])]).map (fun r => r.2.map (fun m => (m.subshape1, m.subshape2, m.data)))
    = some [(0, 0, 1), (1, 1, 4), (2, 0, 1)] := by decide

/-- the `Nodup` hypothesis is needed (a pair visited twice indexes `old_manifolds` with an id of the new vector) -/
example : (keyedStep kbump id (freshPair 0 (fun _ => (none : Option Unit)) (fun _ => none)) KWorkspace.new []
      [(5, 5), (5, 5)]).isNone = true := by decide

/-- the labels of `freshPair` are the pair's leaves and the two part poses -/
theorem freshPair_labels (dflt : α) (pos1 pos2 : Nat → Option β) (k : Nat × Nat) :
    (freshPair dflt pos1 pos2 k).klabels = (k.1, k.2, pos1 k.1, pos2 k.2) := rfl

/-- **HeightField bookkeeping** (`contact_manifolds_heightfield_shape`, the same `Entry`/`take`/`retain` code keyed by cell or
triangle id): for every history of duplicate-free reported-cell lists, from the empty workspace, no call panics and the
invariant holds, so `keyedStep_spec` / `keyedStep_parts` apply to every call: one manifold per reported cell, in order,
labelled `(i, 0)` — `(0, i)` when flipped — without part poses, continuing that cell's own previous manifold. -/
theorem heightfieldRun_ok (flipped : Bool) (dflt : α) (clr : α → α)
    (calls : List ((Nat → WManifold α β → WManifold α β) × List Nat))
    (h : ∀ c ∈ calls, c.2.Nodup ∧ ∀ l m, (c.1 l m).klabels = m.klabels) :
    ∃ ws' ms', keyedRun clr (freshCell flipped dflt) (KWorkspace.new : KWorkspace Nat) [] calls = some (ws', ms') ∧
      KInv (freshCell (β := β) flipped dflt) ws' ms' :=
  keyedRun_ok clr _ calls _ _ (kInv_new _) h

theorem freshCell_labels (flipped : Bool) (dflt : α) (i : Nat) :
    (freshCell (β := β) flipped dflt i).klabels = if flipped then (0, i, none, none) else (i, 0, none, none) := by
  cases flipped <;> rfl

end KeyedBookkeeping

end C14
