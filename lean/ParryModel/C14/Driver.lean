import ParryModel.Proto
import ParryModel.C14.Model
import ParryModel.C14.Model2
import ParryModel.C14.Model3
/-! C14 protocol handlers: model evaluation at `Float` and exact-`Rat` oracles on implementation output. -/
namespace C14
open Model Proto

/-! ### parsing / printing -/
def pcontact3 : P (Contact3 Float) := do let a ← pv3; let b ← pv3; let d ← pf; pure ⟨a, b, d⟩
def pcontact2 : P (Contact2 Float) := do let a ← pv2; let b ← pv2; let d ← pf; pure ⟨a, b, d⟩
/-- manifold: n1 n2 npts (p1 p2 dist)* -/
def pman3 : P (Manifold3 Float) := do let n1 ← pv3; let n2 ← pv3; let pts ← plist pcontact3; pure ⟨pts, n1, n2⟩
def pman2 : P (Manifold2 Float) := do let n1 ← pv2; let n2 ← pv2; let pts ← plist pcontact2; pure ⟨pts, n1, n2⟩
def fcontact3 (c : Contact3 Float) : String := s!"{fv3 c.p1} {fv3 c.p2} {ff c.dist}"
def fcontact2 (c : Contact2 Float) : String := s!"{fv2 c.p1} {fv2 c.p2} {ff c.dist}"
def fman3 (m : Manifold3 Float) : String :=
  String.intercalate " " ([fv3 m.n1, fv3 m.n2, toString m.points.length] ++ m.points.map fcontact3)
def fman2 (m : Manifold2 Float) : String :=
  String.intercalate " " ([fv2 m.n1, fv2 m.n2, toString m.points.length] ++ m.points.map fcontact2)

def pov3 : P (V3 Float) := do let x ← pfo; let y ← pfo; let z ← pfo; pure ⟨x, y, z⟩
def pov2 : P (V2 Float) := do let x ← pfo; let y ← pfo; pure ⟨x, y⟩
def pocontact3 : P (Contact3 Float) := do let a ← pov3; let b ← pov3; let d ← pfo; pure ⟨a, b, d⟩
def pocontact2 : P (Contact2 Float) := do let a ← pov2; let b ← pov2; let d ← pfo; pure ⟨a, b, d⟩
def poman3 : P (Manifold3 Float) := do let n1 ← pov3; let n2 ← pov3; let pts ← plist pocontact3; pure ⟨pts, n1, n2⟩
def poman2 : P (Manifold2 Float) := do let n1 ← pov2; let n2 ← pov2; let pts ← plist pocontact2; pure ⟨pts, n1, n2⟩

def qc3 (c : Contact3 Float) : Contact3 Rat := ⟨q3 c.p1, q3 c.p2, q c.dist⟩
def qc2 (c : Contact2 Float) : Contact2 Rat := ⟨q2 c.p1, q2 c.p2, q c.dist⟩
def finite2 (v : V2 Float) : Bool := FloatIO.isFinite v.x && FloatIO.isFinite v.y
def finc3 (c : Contact3 Float) : Bool := finite3 c.p1 && finite3 c.p2 && FloatIO.isFinite c.dist
def finc2 (c : Contact2 Float) : Bool := finite2 c.p1 && finite2 c.p2 && FloatIO.isFinite c.dist
def finm3 (m : Manifold3 Float) : Bool := finite3 m.n1 && finite3 m.n2 && m.points.all finc3
def finm2 (m : Manifold2 Float) : Bool := finite2 m.n1 && finite2 m.n2 && m.points.all finc2

def withOut {α} (p : P α) (out : List String) (k : α → String) : String :=
  match out with
  | "panic" :: _ => "fail panic"
  | _ => match run p out with
    | some a => k a
    | none => "fail unparsable-output"

/-- absolute closeness with the default tolerance scaled by the magnitudes involved -/
def close (a b : Rat) (tol : Rat := tolDefault) : Bool := leTol a b tol && leTol b a tol

/-! ### oracle for `try_update_contacts_eps` (independent of `tuc3`: re-derives every decision in exact arithmetic)

On `true`: every contact satisfies the property's identity (when `|n1| = 1`), the normals pass the
cosine threshold, every `p1` moved by at most `√dsq`, no contact changed sign, `p2` is unchanged.
On `false`: there must be a reason (empty, angle, or some contact that — given that all earlier
ones were accepted — flips sign or moves too far); tolerances make near-ties count as "reason present". -/
def tucOracle3 (pos12 : Iso3 Float) (m : Manifold3 Float) (thr dsq : Float) (ok : Bool) (m' : Manifold3 Float) : String :=
  if !(finm3 m') then "fail nonfinite-output" else
  let M := qiso3 pos12
  let n1 := q3 m.n1
  let T := q thr; let D := q dsq
  let cosv := -(n1.dot (M.rot (q3 m.n2)))
  let olds := m.points.map qc3
  let news := m'.points.map qc3
  if olds.length != news.length then "fail point-count-changed" else
  if q3 m'.n1 |>.sub n1 |>.normSq |> (· != 0) then "fail n1-changed" else
  let unit := close (n1.dot n1) 1
  let pairs := olds.zip news
  if ok then
    if olds.isEmpty then "fail true-on-empty-manifold" else
    if !(leTol T cosv tolDefault) then s!"fail cosine-below-threshold cos={cosv} thr={T}" else
    let bad := pairs.filterMap fun (o, n) =>
      let d := ((M.act n.p2).sub n.p1).dot n1
      if (n.p2.sub o.p2).normSq != 0 then some "p2-changed"
      else if unit && !(close n.dist d) then some s!"dist-identity dist={n.dist} expected={d}"
      else if !(leTol ((n.p1.sub o.p1).normSq) D tolDefault) then some "p1-moved-beyond-threshold"
      else if !(leTol ((n.p1.sub o.p1).normSq + (n.dist - o.dist) * (n.dist - o.dist)) D tolDefault) then
        some s!"warm-start-accepted-large-normal-motion dist:{o.dist}->{n.dist} threshold²={D}"
      else if !(leTol 0 (n.dist * o.dist) tolDefault) then some "sign-flipped"
      else none
    match bad with
    | [] => "pass"
    | b :: _ => s!"fail {b}"
  else
    -- a reason must exist
    let angleReason := leTol cosv T tolDefault
    let ptReason := olds.any fun o =>
      let lp2 := M.act o.p2
      let d := (lp2.sub o.p1).dot n1
      let np1 := lp2.sub (n1.smul d)
      leTol (d * o.dist) 0 tolDefault || leTol D ((np1.sub o.p1).normSq + (d - o.dist) * (d - o.dist)) tolDefault
    if olds.isEmpty || angleReason || ptReason then "pass" else "fail false-without-reason"

def tucOracle2 (pos12 : Iso2 Float) (m : Manifold2 Float) (thr dsq : Float) (ok : Bool) (m' : Manifold2 Float) : String :=
  if !(finm2 m') then "fail nonfinite-output" else
  let M := qiso2 pos12
  let n1 := q2 m.n1
  let T := q thr; let D := q dsq
  let cosv := -(n1.dot (M.rot (q2 m.n2)))
  let olds := m.points.map qc2
  let news := m'.points.map qc2
  if olds.length != news.length then "fail point-count-changed" else
  if q2 m'.n1 |>.sub n1 |>.normSq |> (· != 0) then "fail n1-changed" else
  let unit := close (n1.dot n1) 1
  let pairs := olds.zip news
  if ok then
    if olds.isEmpty then "fail true-on-empty-manifold" else
    if !(leTol T cosv tolDefault) then s!"fail cosine-below-threshold cos={cosv} thr={T}" else
    let bad := pairs.filterMap fun (o, n) =>
      let d := ((M.act n.p2).sub n.p1).dot n1
      if (n.p2.sub o.p2).normSq != 0 then some "p2-changed"
      else if unit && !(close n.dist d) then some s!"dist-identity dist={n.dist} expected={d}"
      else if !(leTol ((n.p1.sub o.p1).normSq) D tolDefault) then some "p1-moved-beyond-threshold"
      else if !(leTol ((n.p1.sub o.p1).normSq + (n.dist - o.dist) * (n.dist - o.dist)) D tolDefault) then
        some s!"warm-start-accepted-large-normal-motion dist:{o.dist}->{n.dist} threshold²={D}"
      else if !(leTol 0 (n.dist * o.dist) tolDefault) then some "sign-flipped"
      else none
    match bad with
    | [] => "pass"
    | b :: _ => s!"fail {b}"
  else
    let angleReason := leTol cosv T tolDefault
    let ptReason := olds.any fun o =>
      let lp2 := M.act o.p2
      let d := (lp2.sub o.p1).dot n1
      let np1 := lp2.sub (n1.smul d)
      leTol (d * o.dist) 0 tolDefault || leTol D ((np1.sub o.p1).normSq + (d - o.dist) * (d - o.dist)) tolDefault
    if olds.isEmpty || angleReason || ptReason then "pass" else "fail false-without-reason"

def ftuc3 (r : Bool × Manifold3 Float) : String := s!"{fb r.1} {fman3 r.2}"
def ftuc2 (r : Bool × Manifold2 Float) : String := s!"{fb r.1} {fman2 r.2}"

/-- index of the first minimum by brute force (oracle for `find_deepest_contact`) -/
def deepestOracle (ds : List Rat) (out : List String) : String :=
  match ds, out with
  | [], ["none"] => "pass"
  | [], _ => "fail expected-none"
  | _, ["some", is] =>
    match is.toNat? with
    | none => "fail unparsable-output"
    | some i =>
      match ds[i]? with
      | none => "fail index-out-of-range"
      | some di =>
        if !(ds.all (fun d => di ≤ d)) then "fail not-minimal"
        else if (ds.take i).any (fun d => d ≤ di) then "fail not-first-minimum"
        else "pass"
  | _, _ => "fail unparsable-output"


/-! ### pose sequences of primitive pairs through the real dispatcher -/

/-- kinds: 0 ball/ball · 1 cuboid/ball · 2 ball/cuboid · 3 halfspace/cuboid · 4 cuboid/halfspace ·
5 halfspace/capsule(y) · 6 capsule(y)/halfspace · 7 halfspace/round-cuboid · 8 round-cuboid/halfspace.
`a`, `b`: the three parameters of shape 1 / shape 2 (ball `(r,·,·)`, cuboid `he`, halfspace `n`,
capsule `(half_height, radius, ·)`), `e`: border radius of the round cuboid. -/
structure Seq3 where
  kind : Nat
  a : V3 Float
  b : V3 Float
  e : Float
  pred : Float
  poses : List (Iso3 Float)
  /-- observed one-shot `contact` per pose: `(is_some, dist)` (absent when parsing plain args) -/
  oneshot : List (Bool × Float)

def pseq3 : P Seq3 := do
  let k ← pnat; let a ← pv3; let b ← pv3; let e ← pf; let pr ← pf
  let poses ← plist piso3
  let rec os : Nat → P (List (Bool × Float))
    | 0 => pure []
    | n+1 => do let f ← pbool; let d ← pfo; let r ← os n; pure ((f, d) :: r)
  let o ← (os poses.length) <|> pure []
  pure ⟨k, a, b, e, pr, poses, o⟩

def capA (hh : Float) : V3 Float := ⟨0.0, -hh, 0.0⟩
def capB (hh : Float) : V3 Float := ⟨0.0, hh, 0.0⟩

/-- `approx::ulps_eq!(a, b)` on `f64` with the default `epsilon = f64::EPSILON`, `max_ulps = 4` -/
def ulpsEqF (a b : Float) : Bool :=
  if Float.abs (a - b) ≤ Float.ofBits 0x3CB0000000000000 then true
  else if a.isNaN || b.isNaN then false
  else if (a.toBits >>> 63) != (b.toBits >>> 63) then false
  else
    let x := a.toBits.toNat; let y := b.toBits.toNat
    if x ≤ y then y - x ≤ 4 else x - y ≤ 4

/-- one dispatcher call for a 3-D pair kind -/
def seqGen3 (s : Seq3) (pos12 : Iso3 Float) (m : Manifold3 Float) : Manifold3 Float :=
  match s.kind with
  | 0 => ballBall3 pos12 s.a.x s.b.x s.pred m
  | 1 => convexBallShapes3 (cuboidProject3 s.a) false pos12 s.b.x s.pred m
  | 2 => convexBallShapes3 (cuboidProject3 s.b) true pos12 s.a.x s.pred m
  | 3 => halfspaceDispatch3 (cuboidSupportFace3 s.b) true pos12 s.a 0.0 s.pred
  | 4 => halfspaceDispatch3 (cuboidSupportFace3 s.a) false pos12 s.b 0.0 s.pred
  | 5 => halfspaceDispatch3 (segmentFeature3 (capA s.b.x) (capB s.b.x)) true pos12 s.a s.b.y s.pred
  | 6 => halfspaceDispatch3 (segmentFeature3 (capA s.a.x) (capB s.a.x)) false pos12 s.b s.a.y s.pred
  | 7 => halfspaceDispatch3 (cuboidSupportFace3 s.b) true pos12 s.a s.e s.pred
  | 8 => halfspaceDispatch3 (cuboidSupportFace3 s.a) false pos12 s.b s.e s.pred
  | _ => capsuleCapsule3 ulpsEqF pos12 (capA s.a.x) (capB s.a.x) s.a.y (capA s.b.x) (capB s.b.x) s.b.y s.pred m

def seqModel3 (s : Seq3) : String :=
  String.intercalate " " ((runSeq (seqGen3 s) Manifold3.new s.poses).map fman3)

/-! #### exact shape predicates for the sequence oracle (specification side, independent of the model) -/

inductive Sh3 where
  | ball (r : Rat)
  /-- `surf`: the witness must lie on the surface (projection target), not merely inside -/
  | cuboid (he : V3 Rat) (br : Rat) (surf : Bool := false)
  | halfspace (n : V3 Rat)
  | capsule (hh r : Rat)
  | triangle (a b c : V3 Rat)
  /-- `Cylinder::new(hh, r)` / `Cone::new(hh, r)` (axis y, apex at `+hh`) / a segment -/
  | cylinder (hh r : Rat)
  | cone (hh r : Rat)
  | segment (a b : V3 Rat)
  /-- a capsule with an arbitrary axis -/
  | capsuleAB (a b : V3 Rat) (r : Rat)

def seqShapes3 (s : Seq3) : Sh3 × Sh3 :=
  let a := q3 s.a; let b := q3 s.b; let e := q s.e
  match s.kind with
  | 0 => (.ball a.x, .ball b.x)
  | 1 => (.cuboid a 0 true, .ball b.x)
  | 2 => (.ball a.x, .cuboid b 0 true)
  | 3 => (.halfspace a, .cuboid b 0)
  | 4 => (.cuboid a 0, .halfspace b)
  | 5 => (.halfspace a, .capsule b.x b.y)
  | 6 => (.capsule a.x a.y, .halfspace b)
  | 7 => (.halfspace a, .cuboid b e)
  | 8 => (.cuboid a e, .halfspace b)
  | 9 => (.cuboid a 0, .cuboid b 0)
  | _ => (.capsuleAB ⟨0, -a.x, 0⟩ ⟨0, a.x, 0⟩ a.y, .capsuleAB ⟨0, -b.x, 0⟩ ⟨0, b.x, 0⟩ b.y)

def clampR (x lo hi : Rat) : Rat := if x < lo then lo else if hi < x then hi else x
/-- squared distance from `p` to the cuboid `[-he, he]` -/
def cuboidDistSq (he p : V3 Rat) : Rat :=
  let c : V3 Rat := ⟨clampR p.x (-he.x) he.x, clampR p.y (-he.y) he.y, clampR p.z (-he.z) he.z⟩
  (p.sub c).normSq
/-- squared distance from `p` to the segment `(0,-hh,0)-(0,hh,0)` -/
def capsuleAxisDistSq (hh : Rat) (p : V3 Rat) : Rat :=
  let c : V3 Rat := ⟨0, clampR p.y (-hh) hh, 0⟩
  (p.sub c).normSq

/-- squared distance from `p` to the segment `a b` -/
def segDistSq3 (a b p : V3 Rat) : Rat :=
  let ab := b.sub a
  let l2 := ab.normSq
  let t := if l2 = 0 then 0 else clampR ((p.sub a).dot ab / l2) 0 1
  (p.sub (a.add (ab.smul t))).normSq
/-- squared distance from `p` to the triangle `a b c`: the foot of the perpendicular if it falls inside
(barycentric coordinates from the exact 2×2 normal equations), else the nearest edge -/
def triDistSq3 (a b c p : V3 Rat) : Rat :=
  let e1 := b.sub a; let e2 := c.sub a; let w := p.sub a
  let d11 := e1.dot e1; let d12 := e1.dot e2; let d22 := e2.dot e2
  let w1 := w.dot e1; let w2 := w.dot e2
  let det := d11 * d22 - d12 * d12
  let edges := min (min (segDistSq3 a b p) (segDistSq3 b c p)) (segDistSq3 c a p)
  if det = 0 then edges else
    let u := (d22 * w1 - d12 * w2) / det
    let v := (d11 * w2 - d12 * w1) / det
    if 0 ≤ u && 0 ≤ v && u + v ≤ 1 then (w.sub ((e1.smul u).add (e2.smul v))).normSq else edges

/-- `p` is a witness *on* the shape (boundary, within `tol`): the property's "contact points belong to
their shapes".  Returns a reason on failure. -/
def onShape3 (sh : Sh3) (p : V3 Rat) (tol : Rat) : Option String :=
  match sh with
  | .ball r => if close p.normSq (r * r) tol then none else some s!"not-on-ball |p|²={p.normSq} r²={r*r}"
  | .cuboid he br surf =>
    -- inside the rounded cuboid
    let d2 := cuboidDistSq he p
    if !(leTol d2 (br * br) tol) then some s!"outside-cuboid d²={d2}"
    else if surf && !(leTol (min (min (he.x - rabs p.x) (he.y - rabs p.y)) (he.z - rabs p.z)) 0 tol) then some "not-on-cuboid-surface"
    else none
  | .halfspace n =>
    let d := n.dot p
    if close d 0 tol then none else some s!"not-on-plane n·p={d}"
  | .capsule hh r =>
    let d2 := capsuleAxisDistSq hh p
    if leTol d2 (r * r) tol then none else some s!"outside-capsule d²={d2}"
  | .triangle a b c =>
    let d2 := triDistSq3 a b c p
    if leTol d2 0 tol then none else some s!"off-triangle d²={d2}"
  | .cylinder hh r =>
    -- squared distance to the solid cylinder: axial excess and radial excess
    let rho2 := p.x * p.x + p.z * p.z
    let ey := max 0 (rabs p.y - hh)
    let er := if rho2 ≤ r * r then 0 else Rat.sqrtApprox rho2 - r
    let d2 := ey * ey + er * er
    if leTol d2 0 tol then none else some s!"outside-cylinder |y|={rabs p.y} hh={hh} rho²={rho2} r²={r*r}"
  | .cone hh r =>
    -- `|y| ≤ hh` and `rho ≤ R(y) = r (hh − y) / (2hh)`; the radial excess is measured perpendicular to the slanted side
    let rho2 := p.x * p.x + p.z * p.z
    let ey := max 0 (rabs p.y - hh)
    let yc := clampR p.y (-hh) hh
    let R := r * (hh - yc) / (2 * hh)
    let er := if rho2 ≤ R * R then 0 else Rat.sqrtApprox rho2 - R
    let c2 := (4 * hh * hh) / (4 * hh * hh + r * r)
    let d2 := ey * ey + er * er * c2
    if leTol d2 0 tol then none else some s!"outside-cone y={p.y} hh={hh} rho²={rho2} R²={R*R}"
  | .segment a b =>
    let d2 := segDistSq3 a b p
    if leTol d2 0 tol then none else some s!"off-segment d²={d2}"
  | .capsuleAB a b r =>
    let d2 := segDistSq3 a b p
    if leTol d2 (r * r) tol then none else some s!"outside-capsule d²={d2} r²={r*r}"

/-- exact squared distance of two segments: the minimum over the four end-point/segment distances and, when it exists, the
interior critical point of the (convex) squared distance on `(0,1)²` -/
def segSegDistSq3 (a1 b1 a2 b2 : V3 Rat) : Rat :=
  let ends := min (min (segDistSq3 a2 b2 a1) (segDistSq3 a2 b2 b1)) (min (segDistSq3 a1 b1 a2) (segDistSq3 a1 b1 b2))
  let d1 := b1.sub a1; let d2 := b2.sub a2; let r := a1.sub a2
  let a := d1.dot d1; let e := d2.dot d2; let b := d1.dot d2; let c := d1.dot r; let f := d2.dot r
  let den := a * e - b * b
  if den = 0 then ends else
    let s := (b * f - c * e) / den
    let t := (a * f - b * c) / den
    if 0 < s && s < 1 && 0 < t && t < 1 then min ends (((r.add (d1.smul s)).sub (d2.smul t)).normSq) else ends

def vertsCuboid (he : V3 Rat) : List (V3 Rat) :=
  [he.x, -he.x].flatMap fun x => [he.y, -he.y].flatMap fun y => [he.z, -he.z].map fun z => ⟨x, y, z⟩

/-- exact signed distance between the two shapes at pose `M` (shape 2 in the frame of shape 1), by the
definition of each pair (square roots through `Rat.sqrtApprox`, error < 1e-11). -/
def exactDist3 (sh : Sh3 × Sh3) (M : Iso3 Rat) : Rat :=
  let sq := Rat.sqrtApprox
  match sh with
  | (.ball r1, .ball r2) => sq M.t.normSq - r1 - r2
  | (.cuboid he _ _, .ball r) =>
    let c := M.t
    let d2 := cuboidDistSq he c
    if d2 > 0 then sq d2 - r
    else -(min (min (he.x - rabs c.x) (he.y - rabs c.y)) (he.z - rabs c.z)) - r
  | (.ball r, .cuboid he _ _) =>
    let c := M.invAct V3.zero
    let d2 := cuboidDistSq he c
    if d2 > 0 then sq d2 - r
    else -(min (min (he.x - rabs c.x) (he.y - rabs c.y)) (he.z - rabs c.z)) - r
  | (.halfspace n, .cuboid he br _) =>
    ((vertsCuboid he).map fun v => n.dot (M.act v)).foldl min (n.dot (M.act he)) - br
  | (.cuboid he br _, .halfspace n) =>
    ((vertsCuboid he).map fun v => n.dot (M.invAct v)).foldl min (n.dot (M.invAct he)) - br
  | (.halfspace n, .capsule hh r) =>
    min (n.dot (M.act ⟨0, -hh, 0⟩)) (n.dot (M.act ⟨0, hh, 0⟩)) - r
  | (.capsule hh r, .halfspace n) =>
    min (n.dot (M.invAct ⟨0, -hh, 0⟩)) (n.dot (M.invAct ⟨0, hh, 0⟩)) - r
  | (.capsuleAB a1 b1 r1, .capsuleAB a2 b2 r2) =>
    sq (segSegDistSq3 a1 b1 (M.act a2) (M.act b2)) - r1 - r2
  | _ => 0

def cos1degR : Rat := 99984769515 / 100000000000

/-- the property's per-call oracle on a primitive-pair manifold `m` at pose `pos12`:
unit normals, opposite within 1°, `dist` identity, witnesses on shapes (`drift` = allowed warm-start drift,
0 for the closed-form generators), presence and depth of the deepest contact against the exact distance
and against the observed one-shot `contact`. -/
def manifoldOracleQ (sh : Sh3 × Sh3) (M : Iso3 Rat) (pred : Float) (m : Manifold3 Float)
    (os : Option (Bool × Float)) (drift : Rat) (exactKnown : Bool) : Option String :=
  if !(finm3 m) then some "nonfinite-output" else
  -- closed-form generators (`exactKnown`): a contact must exist whenever the distance is below the prediction and every
  -- kept contact has `dist ≤ prediction`; SAT/clipping generators: a contact must exist when the shapes penetrate
  let P := q pred
  let n1 := q3 m.n1; let n2 := q3 m.n2
  let pts := m.points.map qc3
  let tol : Rat := tolDefault
  let wtol : Rat := tol + drift * drift
  let D := exactDist3 sh M
  let deep : Option Rat := pts.foldl (fun acc c => match acc with | none => some c.dist | some d => some (min d c.dist)) none
  let presence : Option String :=
    if !exactKnown then none else
    match deep with
    | none => if D < P - (1 / 1000000) * (1 + rabs D + rabs P) then some s!"no-contact-but-exact-dist={D}<prediction" else none
    | some d =>
      if !(close d D ((1 / 1000000 : Rat) + drift)) then some s!"deepest={d} exact={D}" else none
  let oneshot : Option String :=
    match os, deep with
    | some (true, od), some d =>
      if close d (q od) ((1 / 1000000 : Rat) + drift) then none
      -- separated shapes, SAT/clipping generator: the clipped feature points can miss the closest vertex, so the
      -- smallest predictive gap is over-estimated (its own verdict: a property failure of a different kind than a
      -- wrong penetration depth)
      else if !exactKnown && 0 < q od && q od < d then some s!"predictive-gap-overestimated deepest={d} one-shot={q od}"
      else some s!"deepest={d} one-shot={q od}"
    | some (true, od), none =>
      let lim := if exactKnown then P else min P 0
      if q od < lim - (1 / 1000000) * (1 + rabs (q od) + rabs P) then some s!"no-contact-but-one-shot={q od}" else none
    | some (false, _), some d =>
      if d < P - (1 / 1000000) * (1 + rabs d + rabs P) then some s!"contact-dist={d}-but-one-shot-none" else none
    | _, _ => none
  if pts.isEmpty then (presence <|> oneshot) else
  if !(close (n1.dot n1) 1 tol) then some s!"n1-not-unit {n1.dot n1}" else
  if !(close (n2.dot n2) 1 tol) then some s!"n2-not-unit {n2.dot n2}" else
  if !(leTol cos1degR (-(n1.dot (M.rot n2))) tol) then some s!"normals-not-opposite cos={-(n1.dot (M.rot n2))}" else
  let bad := pts.filterMap fun c =>
    let d := ((M.act c.p2).sub c.p1).dot n1
    if !(close c.dist d tol) then some s!"dist-identity dist={c.dist} expected={d}"
    else match onShape3 sh.1 c.p1 wtol with
      | some r => some s!"p1-{r}"
      | none => match onShape3 sh.2 c.p2 wtol with
        | some r => some s!"p2-{r}"
        | none => if !exactKnown || leTol c.dist P tol then none else some s!"dist={c.dist}>prediction"
  match bad with
  | b :: _ => some b
  | [] => presence <|> oneshot

def manifoldOracle3 (sh : Sh3 × Sh3) (pos12 : Iso3 Float) (pred : Float) (m : Manifold3 Float)
    (os : Option (Bool × Float)) (drift : Rat) (exactKnown : Bool) : Option String :=
  manifoldOracleQ sh (qiso3 pos12) pred m os drift exactKnown

/-- `warm = true`: pairs whose generator uses the `try_update_contacts` fast path (cuboid/cuboid,
capsule/capsule): witnesses may drift by `√DIST_SQ_THRESHOLD = 1e-3` per consecutive fast-path call, and the
exact distance of the pair is not recomputed by the oracle (the one-shot `contact` is the reference). -/
def seqOracle3 (s : Seq3) (warm : Bool) (ms : List (Manifold3 Float)) : String :=
  if ms.length != s.poses.length then "fail wrong-number-of-calls" else
  if (!warm && s.kind > 8 && s.kind != 10) || (warm && (s.kind < 9 || s.kind > 10)) then "skip unknown-kind" else
  let sh := seqShapes3 s
  -- `soft`: the first depth-vs-one-shot discrepancy of a SAT/clipping generator (a known limitation with its own
  -- verdict); the remaining calls are still judged and any other failure takes precedence
  let rec go (soft : Option String) : Nat → List (Iso3 Float) → List (Manifold3 Float) → Option String
    | _, [], _ => soft
    | _, _, [] => soft
    | i, p :: ps, m :: ms =>
      let drift : Rat := if warm then ((i : Rat) + 1) / 1000 else 0
      -- capsule/capsule: the one-shot `contact` itself is unreliable on collinear axes (C02), not used as a reference
      let os := if s.kind == 10 then none else s.oneshot[i]?
      match manifoldOracle3 sh p s.pred m os drift (!warm) with
      | some r =>
        if warm && (r.startsWith "deepest=" || r.startsWith "predictive-gap-overestimated") then
          go (soft <|> some s!"call={i} {r}") (i + 1) ps ms
        else some s!"call={i} {r}"
      | none => go soft (i + 1) ps ms
  match go none 0 s.poses ms with
  | some r => s!"fail {r}"
  | none => "pass"

def pmanlist3 : Nat → P (List (Manifold3 Float))
  | 0 => pure []
  | n+1 => do let m ← poman3; let r ← pmanlist3 n; pure (m :: r)

/-! ### composite shapes: the workspace state machine against the real dispatcher -/

structure Part3 where
  ty : Nat            -- 0 ball (radius p.x), 1 cuboid (half extents p)
  p : V3 Float
  pose : Iso3 Float

structure Box3 where
  mins : V3 Float
  maxs : V3 Float

structure CompCase where
  flipped : Bool
  parts : List Part3          -- empty for a TriMesh
  ntris : Nat
  s2ty : Nat
  q : V3 Float
  pred : Float
  poses : List (Iso3 Float)
  /-- observed: local AABBs of the parts, then per call the query box and the leaves the traversal visits -/
  aabbs : List Box3
  calls : List (Box3 × List Nat)
  /-- observed: per call the manifolds of a fresh computation (new vector, no workspace) at the same pose -/
  fresh : List (List (Nat × Nat × Manifold3 Float)) := []

def ppart3 : P Part3 := do let t ← pnat; let p ← pv3; let m ← piso3; pure ⟨t, p, m⟩
def pobox : P Box3 := do let a ← pov3; let b ← pov3; pure ⟨a, b⟩
def pN {α} (p : P α) : Nat → P (List α)
  | 0 => pure []
  | n+1 => do let x ← p; let r ← pN p n; pure (x :: r)

def pcomp (tm : Bool) : P CompCase := do
  let fl ← pbool
  let (parts, ntris) ← (if tm then do
      let _ ← plist pv3
      let nt ← pnat
      let _ ← pN pnat (3 * nt)
      pure (([] : List Part3), nt)
    else do let ps ← plist ppart3; pure (ps, 0))
  let t2 ← pnat; let q ← pv3; let pr ← pf
  let poses ← plist piso3
  let nparts := if tm then ntris else parts.length
  let obs ← (do
      let bbs ← pN pobox nparts
      let calls ← pN (do let b ← pobox; let ls ← plist pnat
                         let fr ← plist (do let a ← pnat; let b ← pnat; let m ← poman3; pure (a, b, m))
                         pure ((b, ls), fr)) poses.length
      pure (bbs, calls.map (·.1), calls.map (·.2))) <|> pure ([], [], [])
  pure ⟨fl, parts, ntris, t2, q, pr, poses, obs.1, obs.2.1, obs.2.2⟩

abbrev WM := WManifold (Nat × Manifold3 Float) (Iso3 Float)

/-- the real narrow phase for the modelled pairs (`contact_manifold_convex_convex` on the part) -/
def compNarrow (c : CompCase) (P : Iso3 Float) (leaf : Nat) (m : WM) : WM :=
  match c.parts[leaf]? with
  | none => m
  | some part =>
    let pos12 := if c.flipped then P.inverse else P
    let g : Manifold3 Float :=
      if !c.flipped then
        let sub := part.pose.invMul pos12
        match part.ty, c.s2ty with
        | 0, 0 => ballBall3 sub part.p.x c.q.x c.pred m.data.2
        | 0, _ => convexBallShapes3 (cuboidProject3 c.q) true sub part.p.x c.pred m.data.2
        | _, _ => convexBallShapes3 (cuboidProject3 part.p) false sub c.q.x c.pred m.data.2
      else
        let pos21 := pos12.inverse
        let sub := pos21.mul part.pose
        match c.s2ty, part.ty with
        | 0, 0 => ballBall3 sub c.q.x part.p.x c.pred m.data.2
        | 0, _ => convexBallShapes3 (cuboidProject3 part.p) true sub c.q.x c.pred m.data.2
        | _, _ => convexBallShapes3 (cuboidProject3 c.q) false sub part.p.x c.pred m.data.2
    { m with data := (m.data.1, g) }

def fiso3 (m : Iso3 Float) : String := s!"{ff m.qi} {ff m.qj} {ff m.qk} {ff m.qw} {fv3 m.t}"
def fopt (o : Option (Iso3 Float)) : String := match o with | some m => s!"1 {fiso3 m}" | none => "0"
def fwm (m : WM) : String :=
  s!"{m.subshape1} {m.subshape2} {fopt m.pos1} {fopt m.pos2} {m.data.1} {fman3 m.data.2}"

def retag (k : Nat) (ms : List WM) : List WM :=
  (List.range ms.length).zipWith (fun i m => { m with data := (1000 * (k + 1) + i + 1, m.data.2) }) ms

def compModel (c : CompCase) : Option String :=
  let fresh : Nat → WM := freshManifold c.flipped (0, Manifold3.new) (fun l => (c.parts[l]?).map (·.pose))
  let clr : Nat × Manifold3 Float → Nat × Manifold3 Float := fun d => (d.1, d.2.clear)
  let rec go (k : Nat) (ws : Workspace) (ms : List WM) : List (Iso3 Float) → List (Box3 × List Nat) → Option (List String)
    | [], _ => some []
    | _, [] => none
    | P :: ps, (_, leaves) :: cs =>
      match compositeStep (compNarrow c P) clr fresh ws ms leaves with
      | none => some ["panic"]
      | some (ws', ms') =>
        let line := String.intercalate " " (toString ms'.length :: ms'.map fwm)
        (go (k + 1) ws' (retag k ms') ps cs).map (line :: ·)
  (go 0 Workspace.new [] c.poses c.calls).map (String.intercalate " ")

/-! #### oracle on the implementation's manifolds of a composite shape -/

structure OutMan where
  s1 : Nat
  s2 : Nat
  pos1 : Option (Iso3 Float)
  pos2 : Option (Iso3 Float)
  tag : Nat
  m : Manifold3 Float

def poiso3 : P (Iso3 Float) := do
  let i ← pfo; let j ← pfo; let k ← pfo; let w ← pfo; let t ← pov3; pure ⟨i, j, k, w, t⟩
def poopt : P (Option (Iso3 Float)) := do
  let t ← tok
  if t = "1" then do let m ← poiso3; pure (some m) else if t = "0" then pure none else failure
def poutman : P OutMan := do
  let a ← pnat; let b ← pnat; let p1 ← poopt; let p2 ← poopt; let t ← pnat; let m ← poman3; pure ⟨a, b, p1, p2, t, m⟩
def pcalls : Nat → P (List (List OutMan))
  | 0 => pure []
  | n+1 => do let ms ← plist poutman; let r ← pcalls n; pure (ms :: r)

def boxIntersects (a b : Box3) : Bool :=
  let A1 := q3 a.mins; let A2 := q3 a.maxs; let B1 := q3 b.mins; let B2 := q3 b.maxs
  A1.x ≤ B2.x && B1.x ≤ A2.x && A1.y ≤ B2.y && B1.y ≤ A2.y && A1.z ≤ B2.z && B1.z ≤ A2.z

def sameSet (a b : List Nat) : Bool := a.all (b.contains ·) && b.all (a.contains ·)

def partShape (p : Part3) : Sh3 := if p.ty == 0 then .ball (q p.p.x) else .cuboid (q3 p.p) 0 true
def otherShape (c : CompCase) : Sh3 := if c.s2ty == 0 then .ball (q c.q.x) else .cuboid (q3 c.q) 0 true

/-- the part id a manifold is labelled with, and whether the label has the right form -/
def labelOf (c : CompCase) (tm : Bool) (o : OutMan) : Option Nat :=
  let id := if c.flipped then o.s2 else o.s1
  let zero := if c.flipped then o.s1 else o.s2
  let pmine := if c.flipped then o.pos2 else o.pos1
  let pother := if c.flipped then o.pos1 else o.pos2
  if zero != 0 || pother.isSome then none else
  if tm then (if pmine.isNone && id < c.ntris then some id else none)
  else match c.parts[id]?, pmine with
    | some part, some m => if fiso3 m == fiso3 part.pose then some id else none
    | _, _ => none

def compOracle (c : CompCase) (tm : Bool) (outs : List (List OutMan)) : String :=
  if outs.length != c.poses.length || c.calls.length != c.poses.length then "fail wrong-number-of-calls" else
  let nparts := c.aabbs.length
  -- `soft`: the first TriMesh data-continuity failure; reported only if no clause of the property proper fails later
  let rec go (k : Nat) (prev : List (Nat × Nat)) (soft : Option String) : List (Iso3 Float) → List (Box3 × List Nat) → List (List OutMan) → Option String
    | [], _, _ => soft
    | _, [], _ => soft
    | _, _, [] => soft
    | P :: ps, (box, leaves) :: cs, ms :: rest =>
      -- exact overlap set of the part boxes with the prediction-loosened box of the other shape
      let S := (List.range nparts).filter fun i => match c.aabbs[i]? with | some b => boxIntersects b box | none => false
      if !(sameSet leaves S) then some s!"call={k} traversal-visits={leaves} exact-overlap-set={S}" else
      if !leaves.Nodup then some s!"call={k} traversal-visits-a-leaf-twice {leaves}" else
      let labs := ms.map (labelOf c tm)
      if labs.any (·.isNone) then some s!"call={k} malformed-label" else
      let ids := labs.filterMap id
      if !ids.Nodup then some s!"call={k} two-manifolds-for-one-part {ids}" else
      let missing := S.filter (fun i => !ids.contains i)
      if !missing.isEmpty then some s!"call={k} no-manifold-for-overlapping-part {missing}" else
      -- Compound: exactly the overlap set. TriMesh: the cached enlarged box may keep extra (empty) manifolds.
      let extra := ids.filter (fun i => !S.contains i)
      if !tm && !extra.isEmpty then some s!"call={k} manifold-for-non-overlapping-part {extra}" else
      let extraNonEmpty := (ms.zip ids).filter (fun (o, i) => !S.contains i && !o.m.points.isEmpty)
      if !extraNonEmpty.isEmpty then some s!"call={k} contacts-on-non-overlapping-part" else
      -- user data follows the part: previous tag if the part had a manifold in the previous call, else default
      let badTag := (ms.zip ids).filter fun (o, i) =>
        match prev.find? (·.1 == i) with
        | some (_, t) => o.tag != t
        | none => o.tag != 0
      if !tm && !badTag.isEmpty then some s!"call={k} manifold-data-not-following-its-part" else
      let soft := soft <|> (if tm && !badTag.isEmpty then
        some s!"trimesh-manifold-data-dropped call={k} triangles={badTag.map (·.2)} (present in the previous call, restarted from ContactManifold::new)" else none)
      -- geometric clauses on every manifold of a modelled pair
      let geo : Option String := if tm then none else
        (ms.zip ids).findSome? fun (o, i) =>
          match c.parts[i]? with
          | none => none
          | some part =>
            let Pq := qiso3 P
            -- exact relative pose is evaluated inside `manifoldOracle3` from a Float isometry; build it in Rat instead
            let sub : Iso3 Rat := if !c.flipped then (qiso3 part.pose).invMul Pq else Pq.mul (qiso3 part.pose)
            let sh : Sh3 × Sh3 := if !c.flipped then (partShape part, otherShape c) else (otherShape c, partShape part)
            let known := !(part.ty == 1 && c.s2ty == 1)
            (manifoldOracleQ sh sub c.pred o.m none 0 known).map fun r => s!"call={k} part={i} {r}"
      -- the property's reference (Compound only): same part set as a fresh computation and, the narrow phases being closed-form,
      -- the very same contacts (normals compared when there is a contact: a cleared manifold keeps its old normals)
      let fresh : Option String := if tm then none else
        match c.fresh[k]? with
        | none => none
        | some fr =>
          let fid := fr.map fun (a, b, _) => if c.flipped then b else a
          if !(sameSet ids fid) then some s!"call={k} part-set-differs-from-fresh-computation persisted={ids} fresh={fid}" else
          (ms.zip ids).findSome? fun (o, i) =>
            match fr.find? (fun (a, b, _) => (if c.flipped then b else a) == i), c.parts[i]? with
            | some (_, _, fm), some part =>
              if part.ty == 1 && c.s2ty == 1 then none else
              let same := (o.m.points.map fcontact3) == (fm.points.map fcontact3) &&
                (o.m.points.isEmpty || (fv3 o.m.n1 == fv3 fm.n1 && fv3 o.m.n2 == fv3 fm.n2))
              if same then none else some s!"call={k} part={i} contacts-differ-from-fresh-computation"
            | _, _ => none
      match geo <|> fresh with
      | some r => some r
      | none =>
        let tags := (List.range ms.length).zipWith (fun j i => (i, 1000 * (k + 1) + j + 1)) ids
        go (k + 1) tags soft ps cs rest
  match go 0 [] none c.poses c.calls outs with
  | some r => s!"fail {r}"
  | none => "pass"

/-! ### 2-D pose sequences of primitive pairs through the real `parry2d-f64` dispatcher
kinds: 0 ball/ball · 1 cuboid/ball · 2 ball/cuboid · 3 halfspace/cuboid · 4 cuboid/halfspace -/
structure Seq2 where
  kind : Nat
  a : V2 Float
  b : V2 Float
  pred : Float
  poses : List (Iso2 Float)
  oneshot : List (Bool × Float)

def pseq2 : P Seq2 := do
  let k ← pnat; let a ← pv2; let b ← pv2; let pr ← pf
  let poses ← plist piso2
  let o ← (pN (do let f ← pbool; let d ← pfo; pure (f, d)) poses.length) <|> pure []
  pure ⟨k, a, b, pr, poses, o⟩

def seqGen2 (s : Seq2) (pos12 : Iso2 Float) (m : Manifold2 Float) : Manifold2 Float :=
  match s.kind with
  | 5 => capsuleCapsule2 ulpsEqF pos12 ⟨0.0, -s.a.x⟩ ⟨0.0, s.a.x⟩ s.a.y ⟨0.0, -s.b.x⟩ ⟨0.0, s.b.x⟩ s.b.y s.pred m
  | 6 => cuboidCuboid2 pos12 s.a s.b s.pred m
  | 0 => ballBall2 pos12 s.a.x s.b.x s.pred m
  | 1 => convexBallShapes2 (cuboidProject2 s.a) false pos12 s.b.x s.pred m
  | 2 => convexBallShapes2 (cuboidProject2 s.b) true pos12 s.a.x s.pred m
  | 3 => halfspaceDispatch2 (cuboidSupportFace2 s.b) true pos12 s.a 0.0 s.pred
  | _ => halfspaceDispatch2 (cuboidSupportFace2 s.a) false pos12 s.b 0.0 s.pred

def seqModel2 (s : Seq2) : String :=
  String.intercalate " " ((runSeq (seqGen2 s) Manifold2.new s.poses).map fman2)

inductive Sh2 where
  | ball (r : Rat)
  | cuboid (he : V2 Rat) (surf : Bool)
  | halfspace (n : V2 Rat)
  | triangle (a b c : V2 Rat)
  /-- capsule with an arbitrary axis `a b` (the 2-D HeightField cells are such capsules with `r = 0`) -/
  | capsule (a b : V2 Rat) (r : Rat)

def seqShapes2 (s : Seq2) : Sh2 × Sh2 :=
  let a := q2 s.a; let b := q2 s.b
  match s.kind with
  | 0 => (.ball a.x, .ball b.x)
  | 1 => (.cuboid a true, .ball b.x)
  | 2 => (.ball a.x, .cuboid b true)
  | 3 => (.halfspace a, .cuboid b false)
  | 5 => (.capsule ⟨0, -a.x⟩ ⟨0, a.x⟩ a.y, .capsule ⟨0, -b.x⟩ ⟨0, b.x⟩ b.y)
  | 6 => (.cuboid a false, .cuboid b false)
  | _ => (.cuboid a false, .halfspace b)

def cuboidDistSq2 (he p : V2 Rat) : Rat :=
  let c : V2 Rat := ⟨clampR p.x (-he.x) he.x, clampR p.y (-he.y) he.y⟩
  (p.sub c).normSq

def segDistSq2 (a b p : V2 Rat) : Rat :=
  let ab := b.sub a
  let l2 := ab.normSq
  let t := if l2 = 0 then 0 else clampR ((p.sub a).dot ab / l2) 0 1
  (p.sub (a.add (ab.smul t))).normSq
def triDistSq2 (a b c p : V2 Rat) : Rat :=
  let s1 := (b.sub a).perp (p.sub a); let s2 := (c.sub b).perp (p.sub b); let s3 := (a.sub c).perp (p.sub c)
  if (0 ≤ s1 && 0 ≤ s2 && 0 ≤ s3) || (s1 ≤ 0 && s2 ≤ 0 && s3 ≤ 0) then 0
  else min (min (segDistSq2 a b p) (segDistSq2 b c p)) (segDistSq2 c a p)

def onShape2 (sh : Sh2) (p : V2 Rat) (tol : Rat) : Option String :=
  match sh with
  | .ball r => if close p.normSq (r * r) tol then none else some s!"not-on-ball |p|²={p.normSq} r²={r*r}"
  | .cuboid he surf =>
    let d2 := cuboidDistSq2 he p
    if !(leTol d2 0 tol) then some s!"outside-cuboid d²={d2}"
    else if surf && !(leTol (min (he.x - rabs p.x) (he.y - rabs p.y)) 0 tol) then some "not-on-cuboid-surface"
    else none
  | .halfspace n =>
    let d := n.dot p
    if close d 0 tol then none else some s!"not-on-plane n·p={d}"
  | .triangle a b c =>
    let d2 := triDistSq2 a b c p
    if leTol d2 0 tol then none else some s!"off-triangle d²={d2}"
  | .capsule a b r =>
    let d2 := segDistSq2 a b p
    if leTol d2 (r * r) tol then none else some s!"outside-capsule d²={d2} r²={r*r}"

/-- exact squared distance between two segments of the plane: 0 if they cross properly, else the smallest of the
four endpoint-to-segment distances -/
def segSegDistSq2 (a1 b1 a2 b2 : V2 Rat) : Rat :=
  let o1 := (b1.sub a1).perp (a2.sub a1); let o2 := (b1.sub a1).perp (b2.sub a1)
  let o3 := (b2.sub a2).perp (a1.sub a2); let o4 := (b2.sub a2).perp (b1.sub a2)
  if o1 * o2 < 0 && o3 * o4 < 0 then 0
  else min (min (segDistSq2 a1 b1 a2) (segDistSq2 a1 b1 b2)) (min (segDistSq2 a2 b2 a1) (segDistSq2 a2 b2 b1))

def vertsCuboid2 (he : V2 Rat) : List (V2 Rat) := [⟨he.x, he.y⟩, ⟨-he.x, he.y⟩, ⟨he.x, -he.y⟩, ⟨-he.x, -he.y⟩]

/-- exact signed distance of two 2-D boxes: penetration depth = the largest of the four face-axis separations when none is
positive (the minimum translation of two convex polygons is along a face normal), else the smallest distance between edges -/
def cuboidCuboidDist2 (he1 he2 : V2 Rat) (M : Iso2 Rat) : Rat :=
  let v2 := (vertsCuboid2 he2).map M.act
  let v1 := (vertsCuboid2 he1).map M.invAct
  let lo (l : List Rat) : Rat := l.foldl min (l.headD 0)
  let s1x := max (lo (v2.map (·.x)) - he1.x) (lo (v2.map (fun v => -v.x)) - he1.x)
  let s1y := max (lo (v2.map (·.y)) - he1.y) (lo (v2.map (fun v => -v.y)) - he1.y)
  let s2x := max (lo (v1.map (·.x)) - he2.x) (lo (v1.map (fun v => -v.x)) - he2.x)
  let s2y := max (lo (v1.map (·.y)) - he2.y) (lo (v1.map (fun v => -v.y)) - he2.y)
  let sat := max (max s1x s1y) (max s2x s2y)
  if sat ≤ 0 then sat else
  let e1 : List (V2 Rat × V2 Rat) := [(⟨he1.x, he1.y⟩, ⟨-he1.x, he1.y⟩), (⟨-he1.x, he1.y⟩, ⟨-he1.x, -he1.y⟩),
    (⟨-he1.x, -he1.y⟩, ⟨he1.x, -he1.y⟩), (⟨he1.x, -he1.y⟩, ⟨he1.x, he1.y⟩)]
  let w : List (V2 Rat) := [⟨he2.x, he2.y⟩, ⟨-he2.x, he2.y⟩, ⟨-he2.x, -he2.y⟩, ⟨he2.x, -he2.y⟩].map M.act
  let e2 : List (V2 Rat × V2 Rat) := [(w.getD 0 V2.zero, w.getD 1 V2.zero), (w.getD 1 V2.zero, w.getD 2 V2.zero),
    (w.getD 2 V2.zero, w.getD 3 V2.zero), (w.getD 3 V2.zero, w.getD 0 V2.zero)]
  let d2 := (e1.flatMap fun a => e2.map fun b => segSegDistSq2 a.1 a.2 b.1 b.2).foldl min (segSegDistSq2 he1 he1 (M.act he2) (M.act he2))
  Rat.sqrtApprox d2

def exactDist2 (sh : Sh2 × Sh2) (M : Iso2 Rat) : Rat :=
  let sq := Rat.sqrtApprox
  match sh with
  | (.cuboid he1 _, .cuboid he2 _) => cuboidCuboidDist2 he1 he2 M
  | (.ball r1, .ball r2) => sq M.t.normSq - r1 - r2
  | (.cuboid he _, .ball r) =>
    let c := M.t
    let d2 := cuboidDistSq2 he c
    if d2 > 0 then sq d2 - r else -(min (he.x - rabs c.x) (he.y - rabs c.y)) - r
  | (.ball r, .cuboid he _) =>
    let c := M.invAct V2.zero
    let d2 := cuboidDistSq2 he c
    if d2 > 0 then sq d2 - r else -(min (he.x - rabs c.x) (he.y - rabs c.y)) - r
  | (.halfspace n, .cuboid he _) => ((vertsCuboid2 he).map fun v => n.dot (M.act v)).foldl min (n.dot (M.act he))
  | (.cuboid he _, .halfspace n) => ((vertsCuboid2 he).map fun v => n.dot (M.invAct v)).foldl min (n.dot (M.invAct he))
  | (.capsule a1 b1 r1, .capsule a2 b2 r2) => sq (segSegDistSq2 a1 b1 (M.act a2) (M.act b2)) - r1 - r2
  | (.capsule a b r, .ball rb) => sq (segDistSq2 a b M.t) - r - rb
  | (.ball rb, .capsule a b r) => sq (segDistSq2 (M.act a) (M.act b) V2.zero) - r - rb
  | _ => 0

def manifoldOracle2 (sh : Sh2 × Sh2) (pos12 : Iso2 Float) (pred : Float) (m : Manifold2 Float)
    (os : Option (Bool × Float)) (drift : Rat := 0) (exactKnown : Bool := true)
    (depthTol : Rat := 1 / 1000000) (capPred : Bool := true) : Option String :=
  if !(finm2 m) then some "nonfinite-output" else
  let M := qiso2 pos12
  let P := q pred
  let n1 := q2 m.n1; let n2 := q2 m.n2
  let pts := m.points.map qc2
  let tol : Rat := tolDefault
  let wtol : Rat := tol + drift * drift
  let D := exactDist2 sh M
  let axesCross : Bool := match sh with
    | (.capsule a1 b1 _, .capsule a2 b2 _) => segSegDistSq2 a1 b1 (M.act a2) (M.act b2) ≤ 1 / 1000000000000000000
    | _ => false
  let deep : Option Rat := pts.foldl (fun acc c => match acc with | none => some c.dist | some d => some (min d c.dist)) none
  let presence : Option String :=
    if !exactKnown then none else
    match deep with
    | none => if D < P - depthTol * (1 + rabs D + rabs P) then some s!"no-contact-but-exact-dist={D}<prediction" else none
    | some d =>
      if close d D depthTol then none
      -- capsule axes that intersect (exactly, or closer than 1e-9): the contact normal is then rounding noise or the y-axis
      -- fallback, the first contact still reports −(r1+r2) like the one-shot query, but the second contact of the two-contact
      -- branch measures the gap of the crossed axes along that normal and comes out deeper (its own verdict, a known finding)
      else if axesCross && pts.length == 2 && (match pts.head? with | some c0 => close c0.dist D depthTol | none => false) then
        some s!"capsule-axes-intersect-second-contact-deeper second={d} first-and-exact={D}"
      else some s!"deepest={d} exact={D}"
  let oneshot : Option String :=
    match os, deep with
    | some (true, od), some d =>
      if close d (q od) ((1 / 1000000 : Rat) + drift) then none
      -- separated shapes, SAT/clipping generator: the clipped feature points can miss the closest vertex, so the
      -- smallest predictive gap is over-estimated (its own verdict: a property failure of a different kind than a
      -- wrong penetration depth)
      else if !exactKnown && 0 < q od && q od < d then some s!"predictive-gap-overestimated deepest={d} one-shot={q od}"
      else some s!"deepest={d} one-shot={q od}"
    | some (true, od), none =>
      if q od < (if exactKnown then P else min P 0) - (1 / 1000000) * (1 + rabs (q od) + rabs P) then some s!"no-contact-but-one-shot={q od}" else none
    | some (false, _), some d =>
      if d < P - (1 / 1000000) * (1 + rabs d + rabs P) then some s!"contact-dist={d}-but-one-shot-none" else none
    | _, _ => none
  if pts.isEmpty then (presence <|> oneshot) else
  if !(close (n1.dot n1) 1 tol) then some s!"n1-not-unit {n1.dot n1}" else
  if !(close (n2.dot n2) 1 tol) then some s!"n2-not-unit {n2.dot n2}" else
  if !(leTol cos1degR (-(n1.dot (M.rot n2))) tol) then some s!"normals-not-opposite cos={-(n1.dot (M.rot n2))}" else
  let bad := pts.filterMap fun c =>
    let d := ((M.act c.p2).sub c.p1).dot n1
    if !(close c.dist d tol) then some s!"dist-identity dist={c.dist} expected={d}"
    else match onShape2 sh.1 c.p1 wtol with
      | some r => some s!"p1-{r}"
      | none => match onShape2 sh.2 c.p2 wtol with
        | some r => some s!"p2-{r}"
        | none => if !exactKnown || !capPred || leTol c.dist P tol then none else some s!"dist={c.dist}>prediction"
  match bad with
  | b :: _ => some b
  | [] => presence <|> oneshot

def seqOracle2 (s : Seq2) (ms : List (Manifold2 Float)) : String :=
  if ms.length != s.poses.length then "fail wrong-number-of-calls" else
  if s.kind > 6 then "skip unknown-kind" else
  let sh := seqShapes2 s
  let cc := s.kind == 5
  let rec go : Nat → List (Iso2 Float) → List (Manifold2 Float) → Option String
    | _, [], _ => none
    | _, _, [] => none
    | i, p :: ps, m :: ms =>
      -- capsule/capsule: the reference depth is the exact axis distance (the one-shot `contact` is unreliable on collinear
      -- axes, C02); the second contact of the two-contact branch is not capped by the prediction
      -- cuboid/cuboid (kind 6): the warm start may keep contacts for up to `i` consecutive calls (drift 1e-3 each), and the
      -- SAT/clipping generator is compared with the one-shot query only (as for the tiny-cuboid sequences `seq2t`)
      match (if cc then manifoldOracle2 sh p s.pred m none 0 true (1 / 100000) false
             else if s.kind == 6 then manifoldOracle2 sh p s.pred m (s.oneshot[i]?) (((i : Rat) + 1) / 1000) false
             else manifoldOracle2 sh p s.pred m (s.oneshot[i]?)) with
      | some r => some s!"call={i} {r}"
      | none => go (i + 1) ps ms
  match go 0 s.poses ms with
  | some r => s!"fail {r}"
  | none => "pass"

/-! ### tiny shapes tilting on a unit-size cuboid (the warm-start angle clause on real pose sequences) -/
structure SeqT3 where
  kind : Nat
  hb : V3 Float
  tiny : List Float
  pred : Float
  poses : List (Iso3 Float)
  oneshot : List (Bool × Float)
def pseqt3 : P SeqT3 := do
  let k ← pnat; let hb ← pv3; let t ← pN pf 9; let pr ← pf
  let poses ← plist piso3
  let o ← (pN (do let f ← pbool; let d ← pfo; pure (f, d)) poses.length) <|> pure []
  pure ⟨k, hb, t, pr, poses, o⟩
structure SeqT2 where
  kind : Nat
  hb : V2 Float
  tiny : List Float
  pred : Float
  poses : List (Iso2 Float)
  oneshot : List (Bool × Float)
def pseqt2 : P SeqT2 := do
  let k ← pnat; let hb ← pv2; let t ← pN pf 6; let pr ← pf
  let poses ← plist piso2
  let o ← (pN (do let f ← pbool; let d ← pfo; pure (f, d)) poses.length) <|> pure []
  pure ⟨k, hb, t, pr, poses, o⟩

def seqtShapes3 (s : SeqT3) : Sh3 × Sh3 :=
  let g (i : Nat) : Rat := q (s.tiny.getD i 0.0)
  let big : Sh3 := .cuboid (q3 s.hb) 0
  let tiny : Sh3 := if s.kind < 2 then .cuboid ⟨g 0, g 1, g 2⟩ 0 else .triangle ⟨g 0, g 1, g 2⟩ ⟨g 3, g 4, g 5⟩ ⟨g 6, g 7, g 8⟩
  if s.kind % 2 == 0 then (big, tiny) else (tiny, big)
def seqtShapes2 (s : SeqT2) : Sh2 × Sh2 :=
  let g (i : Nat) : Rat := q (s.tiny.getD i 0.0)
  let big : Sh2 := .cuboid (q2 s.hb) false
  let tiny : Sh2 := if s.kind < 2 then .cuboid ⟨g 0, g 1⟩ false else .triangle ⟨g 0, g 1⟩ ⟨g 2, g 3⟩ ⟨g 4, g 5⟩
  if s.kind % 2 == 0 then (big, tiny) else (tiny, big)

/-- per-call property oracle on the real manifolds; witnesses may drift by `1e-3` per consecutive fast-path call;
the one-shot `contact` is a reference only for cuboid/cuboid (SAT), not for the GJK/EPA route of triangles -/
def seqtOracle3 (s : SeqT3) (ms : List (Manifold3 Float)) : String :=
  if ms.length != s.poses.length then "fail wrong-number-of-calls" else
  if s.kind > 3 then "skip unknown-kind" else
  let sh := seqtShapes3 s
  let rec go : Nat → List (Iso3 Float) → List (Manifold3 Float) → Option String
    | _, [], _ => none
    | _, _, [] => none
    | i, p :: ps, m :: ms =>
      let drift : Rat := ((i : Rat) + 1) / 1000
      let os := if s.kind < 2 then s.oneshot[i]? else none
      match manifoldOracle3 sh p s.pred m os drift false with
      | some r => some s!"call={i} {r}"
      | none => go (i + 1) ps ms
  match go 0 s.poses ms with
  | some r => s!"fail {r}"
  | none => "pass"
def seqtOracle2 (s : SeqT2) (ms : List (Manifold2 Float)) : String :=
  if ms.length != s.poses.length then "fail wrong-number-of-calls" else
  if s.kind > 3 then "skip unknown-kind" else
  let sh := seqtShapes2 s
  let rec go : Nat → List (Iso2 Float) → List (Manifold2 Float) → Option String
    | _, [], _ => none
    | _, _, [] => none
    | i, p :: ps, m :: ms =>
      let drift : Rat := ((i : Rat) + 1) / 1000
      let os := if s.kind < 2 then s.oneshot[i]? else none
      match manifoldOracle2 sh p s.pred m os drift false with
      | some r => some s!"call={i} {r}"
      | none => go (i + 1) ps ms
  match go 0 s.poses ms with
  | some r => s!"fail {r}"
  | none => "pass"

/-! ### 2-D capsule / capsule called directly, and 2-D HeightField (cells = zero-radius capsules) through the dispatcher -/
structure CC2 where
  pos12 : Iso2 Float
  a1 : V2 Float
  b1 : V2 Float
  r1 : Float
  a2 : V2 Float
  b2 : V2 Float
  r2 : Float
  pred : Float
  m : Manifold2 Float
def pcc2 : P CC2 := do
  let p ← piso2; let a1 ← pv2; let b1 ← pv2; let r1 ← pf; let a2 ← pv2; let b2 ← pv2; let r2 ← pf; let pr ← pf; let m ← pman2
  pure ⟨p, a1, b1, r1, a2, b2, r2, pr, m⟩

/-- the property's per-manifold clauses on the real output of `contact_manifold_capsule_capsule`: at most two contacts, unit
opposite normals, `dist` identity on EVERY contact, witnesses inside their capsules, a contact present iff the exact distance
of the capsules (exact axis distance − radii) is below the prediction, and the deepest contact equal to that distance. -/
def cc2Oracle (c : CC2) (m' : Manifold2 Float) : String :=
  if m'.points.length > 2 then "fail more-than-two-contacts" else
  let sh : Sh2 × Sh2 := (.capsule (q2 c.a1) (q2 c.b1) (q c.r1), .capsule (q2 c.a2) (q2 c.b2) (q c.r2))
  match manifoldOracle2 sh c.pos12 c.pred m' none 0 true (1 / 100000) false with
  | some r => s!"fail {r}"
  | none => "pass"

structure HF2 where
  flipped : Bool
  s2ty : Nat
  q : V2 Float
  pred : Float
  poses : List (Iso2 Float)
  /-- observed: the cells of the height field (`none` = removed) -/
  cells : List (Option (V2 Float × V2 Float))
def phf2 : P HF2 := do
  let fl ← pbool
  let _ ← plist pf
  let _ ← pv2
  let _ ← plist pnat
  let t ← pnat; let qq ← pv2; let pr ← pf
  let poses ← plist piso2
  let cells ← (plist (do let t ← tok
                         if t = "1" then do let a ← pov2; let b ← pov2; pure (some (a, b))
                         else if t = "0" then pure none else failure)) <|> pure []
  pure ⟨fl, t, qq, pr, poses, cells⟩
def phfman : P (Nat × Nat × Manifold2 Float) := do let a ← pnat; let b ← pnat; let m ← poman2; pure (a, b, m)

def hf2Oracle (c : HF2) (outs : List (List (Nat × Nat × Manifold2 Float))) : String :=
  if outs.length != c.poses.length then "fail wrong-number-of-calls" else
  let other : Sh2 := if c.s2ty == 0 then .ball (q c.q.x) else .capsule ⟨0, -(q c.q.x)⟩ ⟨0, q c.q.x⟩ (q c.q.y)
  let P := q c.pred
  let rec go (k : Nat) : List (Iso2 Float) → List (List (Nat × Nat × Manifold2 Float)) → Option String
    | [], _ => none
    | _, [] => none
    | p :: ps, ms :: rest =>
      let ids := ms.map fun (s1, s2, _) => if c.flipped then s2 else s1
      let zeros := ms.map fun (s1, s2, _) => if c.flipped then s1 else s2
      if zeros.any (· != 0) then some s!"call={k} malformed-label" else
      if !ids.Nodup then some s!"call={k} two-manifolds-for-one-cell {ids}" else
      let M := qiso2 p
      let cellSh (i : Nat) : Option Sh2 := match c.cells[i]? with
        | some (some (a, b)) => some (.capsule (q2 a) (q2 b) 0)
        | _ => none
      let pairOf (cs : Sh2) : Sh2 × Sh2 := if c.flipped then (other, cs) else (cs, other)
      -- every manifold: a present cell, and all geometric clauses of the property
      let bad := ms.findSome? fun (s1, s2, m) =>
        let i := if c.flipped then s2 else s1
        match cellSh i with
        | none => some s!"call={k} manifold-for-absent-cell {i}"
        | some cs => (manifoldOracle2 (pairOf cs) p c.pred m none 0 true (1 / 100000) false).map fun r => s!"call={k} cell={i} {r}"
      match bad with
      | some r => some r
      | none =>
        -- every cell closer than the prediction has its manifold
        let missing := (List.range c.cells.length).filter fun i =>
          match cellSh i with
          | none => false
          | some cs =>
            let D := exactDist2 (pairOf cs) M
            D < P - (1 / 100000) * (1 + rabs D + rabs P) && !ids.contains i
        if !missing.isEmpty then some s!"call={k} no-manifold-for-cells-within-prediction {missing}"
        else go (k + 1) ps rest
  match go 0 c.poses outs with
  | some r => s!"fail {r}"
  | none => "pass"

/-! ### round fu4: `clip_segment_segment`, Compound-vs-Compound histories, pfm/pfm edge pairs -/

def fclip3 (c : Clip3 Float) : String := s!"{fv3 c.p1} {fv3 c.p2} {c.f1} {c.f2}"
def fclip2 (c : Clip2 Float) : String := s!"{fv2 c.p1} {fv2 c.p2} {c.f1} {c.f2}"
def lift3 (v : V2 Float) : V3 Float := ⟨v.x, v.y, 0.0⟩

/-- the property's clauses on the real output of `clip_segment_segment`, exact: `None` iff the projected ranges are
disjoint; otherwise for both pairs `p1` lies on segment 1, `p2` on segment 2, `p2 − p1` is orthogonal to segment 1, and the
pairs sit at the two ends of the common range (`max(0, lo₂)` and `min(|t|², hi₂)` in the coordinate `(· − a1)·t`). -/
def cssOracle (a1 b1 a2 b2 : V3 Float) (out : Option (List (V3 Float × V3 Float))) : String :=
  let A1 := q3 a1; let B1 := q3 b1; let A2 := q3 a2; let B2 := q3 b2
  let t := B1.sub A1
  let sqn := t.normSq
  let u20 := (A2.sub A1).dot t
  let u21 := (B2.sub A1).dot t
  let lo := min u20 u21; let hi := max u20 u21
  let scale : Rat := 1 + sqn + rabs u20 + rabs u21
  let tol : Rat := scale / 1000000000
  if sqn = 0 then "skip point-like-segment-1" else
  -- 0/0 in the code when segment 2 projects onto a single value (perpendicular or point-like): outside the callers' domain
  if hi - lo ≤ tol * sqn / scale then "skip zero-projected-length-of-segment-2" else
  match out with
  | none => if lo < sqn - tol && hi > tol then s!"fail none-but-ranges-overlap lo={lo} hi={hi} sqn={sqn}" else "pass"
  | some prs =>
    if lo > sqn + tol || hi < -tol then s!"fail some-but-ranges-disjoint lo={lo} hi={hi} sqn={sqn}" else
    if prs.any (fun pr => !(finite3 pr.1 && finite3 pr.2)) then "fail nonfinite-output" else
    let want : List Rat := [max 0 lo, min sqn hi]
    let ptol : Rat := (1 + A1.normSq + B1.normSq + A2.normSq + B2.normSq) / 1000000000000
    let bad := (prs.zip want).findSome? fun (pr, w) =>
      let p1 := q3 pr.1; let p2 := q3 pr.2
      if segDistSq3 A1 B1 p1 > ptol then some s!"p1-off-segment-1 d²={segDistSq3 A1 B1 p1}"
      else if segDistSq3 A2 B2 p2 > ptol then some s!"p2-off-segment-2 d²={segDistSq3 A2 B2 p2}"
      else if rabs ((p2.sub p1).dot t) > tol then some s!"pair-not-aligned (p2-p1)·t={(p2.sub p1).dot t}"
      else if rabs ((p1.sub A1).dot t - w) > tol then some s!"not-an-end-of-the-common-range coord={(p1.sub A1).dot t} expected={w}"
      else none
    match bad with
    | some r => s!"fail {r}"
    | none => if prs.length == 2 then "pass" else "fail wrong-arity"

def pclipOut3 : P (Option (List (V3 Float × V3 Float))) := do
  let t ← tok
  if t = "none" then pure none else
  if t = "some" then do
    let a ← pov3; let b ← pov3; let _ ← pnat; let _ ← pnat
    let c ← pov3; let d ← pov3; let _ ← pnat; let _ ← pnat
    pure (some [(a, b), (c, d)])
  else failure
def pclipOut2 : P (Option (List (V3 Float × V3 Float))) := do
  let t ← tok
  if t = "none" then pure none else
  if t = "some" then do
    let a ← pov2; let b ← pov2; let _ ← pnat; let _ ← pnat
    let c ← pov2; let d ← pov2; let _ ← pnat; let _ ← pnat
    pure (some [(lift3 a, lift3 b), (lift3 c, lift3 d)])
  else failure

/-! #### Compound vs Compound: the keyed state machine against the real dispatcher -/

structure CCCall where
  flipped : Bool
  root : Box3
  /-- visited outer leaves, each with its query box in the inner composite's frame and the inner leaves visited -/
  outer : List (Nat × Box3 × List Nat)
  /-- the manifolds of a fresh computation (new vector, no workspace) at the same pose: labels and geometry -/
  fresh : List (Nat × Nat × Manifold3 Float)

structure CCCase where
  parts1 : List Part3
  parts2 : List Part3
  pred : Float
  poses : List (Iso3 Float)
  aabbs1 : List Box3
  aabbs2 : List Box3
  calls : List CCCall

def pcc : P CCCase := do
  let p1 ← plist ppart3; let p2 ← plist ppart3; let pr ← pf
  let poses ← plist piso3
  let obs ← (do
      let b1 ← pN pobox p1.length
      let b2 ← pN pobox p2.length
      let calls ← pN (do
          let fl ← pbool; let rb ← pobox
          let outer ← plist (do let l ← pnat; let bx ← pobox; let inner ← plist pnat; pure (l, bx, inner))
          let fresh ← plist (do let a ← pnat; let b ← pnat; let m ← poman3; pure (a, b, m))
          pure (⟨fl, rb, outer, fresh⟩ : CCCall)) poses.length
      pure (b1, b2, calls)) <|> pure ([], [], [])
  pure ⟨p1, p2, pr, poses, obs.1, obs.2.1, obs.2.2⟩

/-- the visited pairs of a call, in visiting order, keyed in caller order -/
def CCCall.keys (c : CCCall) : List (Nat × Nat) :=
  c.outer.flatMap fun (l1, _, inner) => inner.map fun l2 => if c.flipped then (l2, l1) else (l1, l2)

/-- the narrow phase of a pair: the pose arithmetic of the two `flipped` arms, then the modelled generator -/
def ccNarrow (c : CCCase) (flipped : Bool) (P : Iso3 Float) (k : Nat × Nat) (m : WM) : WM :=
  match c.parts1[k.1]?, c.parts2[k.2]? with
  | some A, some B =>
    let sub : Iso3 Float :=
      if flipped then A.pose.invMul (P.mul B.pose)                       -- `part_pos2.inv_mul(&(pos21 * part_pos1))`
      else (B.pose.invMul (P.inverse.mul A.pose)).inverse                -- `pos2211.inverse()`
    let g : Manifold3 Float :=
      match A.ty, B.ty with
      | 0, 0 => ballBall3 sub A.p.x B.p.x c.pred m.data.2
      | 0, _ => convexBallShapes3 (cuboidProject3 B.p) true sub A.p.x c.pred m.data.2
      | _, 0 => convexBallShapes3 (cuboidProject3 A.p) false sub B.p.x c.pred m.data.2
      | _, _ => m.data.2
    { m with data := (m.data.1, g) }
  | _, _ => m

def ccModel (c : CCCase) : Option String :=
  let fresh : Nat × Nat → WM :=
    freshPair (0, Manifold3.new) (fun l => (c.parts1[l]?).map (·.pose)) (fun l => (c.parts2[l]?).map (·.pose))
  let clr : Nat × Manifold3 Float → Nat × Manifold3 Float := fun d => (d.1, d.2.clear)
  let rec go (k : Nat) (ws : KWorkspace (Nat × Nat)) (ms : List WM) : List (Iso3 Float) → List CCCall → Option (List String)
    | [], _ => some []
    | _, [] => none
    | P :: ps, call :: cs =>
      match keyedStep (ccNarrow c call.flipped P) clr fresh ws ms call.keys with
      | none => some ["panic"]
      | some (ws', ms') =>
        let line := String.intercalate " " (toString ms'.length :: ms'.map fwm)
        (go (k + 1) ws' (retag k ms') ps cs).map (line :: ·)
  (go 0 KWorkspace.new [] c.poses c.calls).map (String.intercalate " ")

def ccOracle (c : CCCase) (outs : List (List OutMan)) : String :=
  if outs.length != c.poses.length || c.calls.length != c.poses.length then "fail wrong-number-of-calls" else
  let n1 := c.parts1.length; let n2 := c.parts2.length
  let overlapSet (bbs : List Box3) (box : Box3) : List Nat :=
    (List.range bbs.length).filter fun i => match bbs[i]? with | some b => boxIntersects b box | none => false
  let rec go (k : Nat) (prev : List ((Nat × Nat) × Nat)) : List (Iso3 Float) → List CCCall → List (List OutMan) → Option String
    | [], _, _ => none
    | _, [], _ => none
    | _, _, [] => none
    | P :: ps, call :: cs, ms :: rest =>
      let (bo, bi) := if call.flipped then (c.aabbs2, c.aabbs1) else (c.aabbs1, c.aabbs2)
      -- the two nested traversals visit exactly the exact box-overlap sets, once each
      let So := overlapSet bo call.root
      let outerIds := call.outer.map (·.1)
      if !(sameSet outerIds So) then some s!"call={k} outer-traversal-visits={outerIds} exact-overlap-set={So}" else
      let badInner := call.outer.findSome? fun (l1, bx, inner) =>
        let Si := overlapSet bi bx
        if !(sameSet inner Si) then some s!"call={k} leaf={l1} inner-traversal-visits={inner} exact-overlap-set={Si}" else none
      if badInner.isSome then badInner else
      let K := call.keys
      if !K.Nodup then some s!"call={k} traversal-visits-a-pair-twice {K}" else
      -- labels: both leaves in range, both part poses
      let badLab := ms.findSome? fun o =>
        match c.parts1[o.s1]?, c.parts2[o.s2]?, o.pos1, o.pos2 with
        | some A, some B, some m1, some m2 =>
          if fiso3 m1 == fiso3 A.pose && fiso3 m2 == fiso3 B.pose then none else some s!"call={k} pair=({o.s1},{o.s2}) subshape-pose-of-another-part"
        | _, _, _, _ => some s!"call={k} malformed-label ({o.s1},{o.s2})"
      if badLab.isSome then badLab else
      let ids := ms.map fun o => (o.s1, o.s2)
      if !ids.Nodup then some s!"call={k} two-manifolds-for-one-pair {ids}" else
      let missing := K.filter (fun p => !ids.contains p)
      if !missing.isEmpty then some s!"call={k} no-manifold-for-overlapping-pair {missing}" else
      let extra := ids.filter (fun p => !K.contains p)
      if !extra.isEmpty then some s!"call={k} manifold-for-non-overlapping-pair {extra}" else
      let badTag := (ms.zip ids).filter fun (o, i) =>
        match prev.find? (·.1 == i) with
        | some (_, t) => o.tag != t
        | none => o.tag != 0
      if !badTag.isEmpty then some s!"call={k} manifold-data-not-following-its-pair {badTag.map (·.2)}" else
      -- the property's reference: the same pair set as a fresh computation, and (closed-form narrow phases, no warm start)
      -- the very same contacts; normals compared when there is a contact (a cleared manifold keeps its old normals)
      let freshIds := call.fresh.map fun (a, b, _) => (a, b)
      if !(ids.all (freshIds.contains ·) && freshIds.all (ids.contains ·)) then
        some s!"call={k} pair-set-differs-from-fresh-computation persisted={ids} fresh={freshIds}" else
      let badFresh := ms.findSome? fun o =>
        match call.fresh.find? (fun (a, b, _) => a == o.s1 && b == o.s2), c.parts1[o.s1]?, c.parts2[o.s2]? with
        | some (_, _, fm), some A, some B =>
          if A.ty == 1 && B.ty == 1 then none else
          let same := (o.m.points.map fcontact3) == (fm.points.map fcontact3) &&
            (o.m.points.isEmpty || (fv3 o.m.n1 == fv3 fm.n1 && fv3 o.m.n2 == fv3 fm.n2))
          if same then none else some s!"call={k} pair=({o.s1},{o.s2}) contacts-differ-from-fresh-computation"
        | _, _, _ => none
      if badFresh.isSome then badFresh else
      let Pq := qiso3 P
      let subOf (A B : Part3) : Iso3 Rat := (qiso3 A.pose).invMul (Pq.mul (qiso3 B.pose))
      let geo : Option String := ms.findSome? fun o =>
        match c.parts1[o.s1]?, c.parts2[o.s2]? with
        | some A, some B =>
          let known := !(A.ty == 1 && B.ty == 1)
          (manifoldOracleQ (partShape A, partShape B) (subOf A B) c.pred o.m none 0 known).map fun r => s!"call={k} pair=({o.s1},{o.s2}) {r}"
        | _, _ => none
      if geo.isSome then geo else
      -- independent of every box: a pair of parts closer than the prediction must have its manifold
      let Pr := q c.pred
      let close : List (Nat × Nat) := (List.range n1).flatMap fun i => (List.range n2).filterMap fun j =>
        match c.parts1[i]?, c.parts2[j]? with
        | some A, some B =>
          if A.ty == 1 && B.ty == 1 then none else
          let D := exactDist3 (partShape A, partShape B) (subOf A B)
          if D < Pr - (1 / 1000000) * (1 + rabs D + rabs Pr) && !ids.contains (i, j) then some (i, j) else none
        | _, _ => none
      if !close.isEmpty then some s!"call={k} no-manifold-for-pairs-within-prediction {close}" else
      let tags := (List.range ms.length).zipWith (fun j i => (i, 1000 * (k + 1) + j + 1)) ids
      go (k + 1) tags ps cs rest
  match go 0 [] c.poses c.calls outs with
  | some r => s!"fail {r}"
  | none => "pass"

/-! #### 3-D capsule / capsule called directly -/
structure Cap3 where
  pos12 : Iso3 Float
  a1 : V3 Float
  b1 : V3 Float
  r1 : Float
  a2 : V3 Float
  b2 : V3 Float
  r2 : Float
  pred : Float
  m : Manifold3 Float
def pcap3 : P Cap3 := do
  let p ← piso3; let a1 ← pv3; let b1 ← pv3; let r1 ← pf; let a2 ← pv3; let b2 ← pv3; let r2 ← pf; let pr ← pf; let m ← pman3
  pure ⟨p, a1, b1, r1, a2, b2, r2, pr, m⟩

/-- the generator writes the first contact only (stale extra points of a foreign manifold are kept): unit opposite normals,
`dist` identity, witnesses in their capsules, a contact iff the exact capsule distance (exact segment/segment distance − radii)
is below the prediction, and its `dist` equal to that distance -/
def cap3Oracle (c : Cap3) (m' : Manifold3 Float) : String :=
  if m'.points.length > 1 && m'.points.length != c.m.points.length then "fail point-count" else
  let sh : Sh3 × Sh3 := (.capsuleAB (q3 c.a1) (q3 c.b1) (q c.r1), .capsuleAB (q3 c.a2) (q3 c.b2) (q c.r2))
  let m1 : Manifold3 Float := { m' with points := m'.points.take 1 }
  match manifoldOracle3 sh c.pos12 c.pred m1 none 0 true with
  | some r => s!"fail {r}"
  | none => "pass"

/-! #### 2-D HeightField vs capsule: the sub-detector machine of `contact_manifolds_heightfield_shape` (keys = cell ids) -/

abbrev WM2 := WManifold (Nat × Manifold2 Float) Unit

/-- `ContactManifold::with_data(id1, id2, default)` with `(id1, id2) = if flipped { (0, i) } else { (i, 0) }` -/
def freshHF (flipped : Bool) (i : Nat) : WM2 := freshCell flipped (0, Manifold2.new) i

structure HFC2 where
  base : HF2
  /-- per call: the cells reported by `map_elements_in_local_aabb`, with their end points -/
  calls : List (List (Nat × V2 Float × V2 Float))

def phfc2 : P HFC2 := do
  let c ← phf2
  let calls ← (pN (plist (do let i ← pnat; let a ← pov2; let b ← pov2; pure (i, a, b))) c.poses.length) <|> pure []
  pure ⟨c, calls⟩

/-- the narrow phase of a cell: `Capsule::new(a, b, 0.0)` against the capsule, through the dispatcher's capsule/capsule generator;
the flipped arm receives `pos12.inverse()` and hands `pos12.inverse().inverse()` on -/
def hfcNarrow (c : HF2) (cells : List (Nat × V2 Float × V2 Float)) (P : Iso2 Float) (i : Nat) (m : WM2) : WM2 :=
  match cells.find? (·.1 == i) with
  | none => m
  | some (_, a, b) =>
    let oa : V2 Float := ⟨0.0, -c.q.x⟩; let ob : V2 Float := ⟨0.0, c.q.x⟩
    let g := if c.flipped then capsuleCapsule2 ulpsEqF P.inverse.inverse oa ob c.q.y a b 0.0 c.pred m.data.2
             else capsuleCapsule2 ulpsEqF P a b 0.0 oa ob c.q.y c.pred m.data.2
    { m with data := (m.data.1, g) }

def fwm2 (m : WM2) : String := s!"{m.subshape1} {m.subshape2} {m.data.1} {fman2 m.data.2}"
def retag2 (k : Nat) (ms : List WM2) : List WM2 :=
  (List.range ms.length).zipWith (fun i m => { m with data := (1000 * (k + 1) + i + 1, m.data.2) }) ms

def hfcModel (h : HFC2) : Option String :=
  if h.base.s2ty != 1 then some "unsupported" else
  let clr : Nat × Manifold2 Float → Nat × Manifold2 Float := fun d => (d.1, d.2.clear)
  let rec go (k : Nat) (ws : KWorkspace Nat) (ms : List WM2) : List (Iso2 Float) → List (List (Nat × V2 Float × V2 Float)) → Option (List String)
    | [], _ => some []
    | _, [] => none
    | P :: ps, cells :: cs =>
      match keyedStep (hfcNarrow h.base cells P) clr (freshHF h.base.flipped) ws ms (cells.map (·.1)) with
      | none => some ["panic"]
      | some (ws', ms') =>
        let line := String.intercalate " " (toString ms'.length :: ms'.map fwm2)
        (go (k + 1) ws' (retag2 k ms') ps cs).map (line :: ·)
  (go 0 KWorkspace.new [] h.base.poses h.calls).map (String.intercalate " ")

/-- bookkeeping clauses (one manifold per reported cell, in order, user data following its cell) + every clause of `hf2Oracle` -/
def hfcOracle (h : HFC2) (outs : List (List (Nat × Nat × Nat × Manifold2 Float))) : String :=
  if h.base.s2ty != 1 then "skip other-shape-not-a-capsule" else
  if outs.length != h.base.poses.length || h.calls.length != h.base.poses.length then "fail wrong-number-of-calls" else
  let rec go (k : Nat) (prev : List (Nat × Nat)) : List (List (Nat × V2 Float × V2 Float)) → List (List (Nat × Nat × Nat × Manifold2 Float)) → Option String
    | [], _ => none
    | _, [] => none
    | cells :: cs, ms :: rest =>
      let vis := cells.map (·.1)
      let ids := ms.map fun (s1, s2, _, _) => if h.base.flipped then s2 else s1
      if !vis.Nodup then some s!"call={k} cell-reported-twice {vis}" else
      -- the reported end points are those of `segment_at`
      let badCell := cells.findSome? fun (i, a, b) => match h.base.cells[i]? with
        | some (some (a', b')) => if fv2 a == fv2 a' && fv2 b == fv2 b' then none else some s!"call={k} cell={i} end-points-differ-from-segment_at"
        | _ => some s!"call={k} absent-cell-reported {i}"
      if badCell.isSome then badCell else
      if ids != vis then some s!"call={k} manifold-cells={ids} reported-cells={vis}" else
      let badTag := (ms.zip ids).filter fun ((_, _, tag, _), i) =>
        match prev.find? (·.1 == i) with
        | some (_, t) => tag != t
        | none => tag != 0
      if !badTag.isEmpty then some s!"call={k} manifold-data-not-following-its-cell {badTag.map (·.2)}" else
      let tags := (List.range ms.length).zipWith (fun j i => (i, 1000 * (k + 1) + j + 1)) ids
      go (k + 1) tags cs rest
  match go 0 [] h.calls outs with
  | some r => s!"fail {r}"
  | none => hf2Oracle h.base (outs.map fun ms => ms.map fun (s1, s2, _, m) => (s1, s2, m))

/-! #### `PolygonalFeature::contacts` on two edges -/
structure EE3 where
  pos12 : Iso3 Float
  e1a : V3 Float
  e1b : V3 Float
  e2a : V3 Float
  e2b : V3 Float
  sep : V3 Float
  flipped : Bool
def pee3 : P EE3 := do
  let p ← piso3; let a ← pv3; let b ← pv3; let c ← pv3; let d ← pv3; let s ← pv3; let f ← pbool
  pure ⟨p, a, b, c, d, s, f⟩

/-- at most two contacts; each (un-flipped) has its first witness on edge 1, its second on edge 2 (frame of shape 2), and
`dist = (pos12·p2 − p1)·sep_axis1` -/
def ee3Oracle (e : EE3) (pts : List (Contact3 Float)) : String :=
  if pts.length > 2 then "fail more-than-two-contacts" else
  let A1 := q3 e.e1a; let B1 := q3 e.e1b; let A2 := q3 e.e2a; let B2 := q3 e.e2b
  let M := qiso3 e.pos12; let S := q3 e.sep
  if !(pts.all finc3) then
    -- the clipping divides 0 by 0 when edge 2 projects to a single value on edge 1 (or edge 1 is a point)
    let t := B1.sub A1; let u0 := ((M.act A2).sub A1).dot t; let u1 := ((M.act B2).sub A1).dot t
    if t.normSq = 0 || rabs (u1 - u0) ≤ (1 + t.normSq + rabs u0 + rabs u1) / 1000000000000 then "skip zero-projected-length" else "fail nonfinite-output"
  else
  let ptol : Rat := (1 + A1.normSq + B1.normSq + A2.normSq + B2.normSq + M.t.normSq) / 1000000000000
  let bad := pts.findSome? fun c0 =>
    let c := qc3 c0
    let p1 := if e.flipped then c.p2 else c.p1
    let p2 := if e.flipped then c.p1 else c.p2
    let d := ((M.act p2).sub p1).dot S
    if segDistSq3 A1 B1 p1 > ptol then some s!"p1-off-edge-1 d²={segDistSq3 A1 B1 p1}"
    else if segDistSq3 A2 B2 p2 > ptol then some s!"p2-off-edge-2 d²={segDistSq3 A2 B2 p2}"
    else if !(close c.dist d) then some s!"dist-identity dist={c.dist} expected={d}"
    else none
  match bad with
  | some r => s!"fail {r}"
  | none => "pass"

/-! #### pfm/pfm pairs whose support features are edges -/

structure Pfm3 where
  kind : Nat
  a : V3 Float
  b : V3 Float
  pred : Float
  poses : List (Iso3 Float)
  /-- observed one-shot `contact` per pose -/
  oneshot : List (Bool × Float)

def ppfm3 : P Pfm3 := do
  let k ← pnat; let a ← pv3; let b ← pv3; let pr ← pf
  let poses ← plist piso3
  let o ← (pN (do let f ← pbool; let d ← pfo; pure (f, d)) poses.length) <|> pure []
  pure ⟨k, a, b, pr, poses, o⟩

def pfmShapes (s : Pfm3) : Sh3 × Sh3 :=
  let a := q3 s.a; let b := q3 s.b
  let ca (p : V3 Rat) : Sh3 := .capsule p.x p.y
  let cy (p : V3 Rat) : Sh3 := .cylinder p.x p.y
  let co (p : V3 Rat) : Sh3 := .cone p.x p.y
  let sg (p : V3 Rat) : Sh3 := .segment ⟨0, -p.x, 0⟩ ⟨0, p.x, 0⟩
  match s.kind with
  | 0 => (ca a, cy b) | 1 => (cy a, ca b) | 2 => (cy a, cy b) | 3 => (sg a, cy b) | 4 => (cy a, sg b)
  | 5 => (ca a, co b) | 6 => (co a, ca b) | 7 => (sg a, ca b) | _ => (ca a, sg b)

/-- per call: unit normals opposite within 1°, `dist` identity on every contact, every witness on its shape (warm-start
drift `1e-3` per consecutive fast-path call, as for the other warm generators) -/
def pfmOracle (s : Pfm3) (ms : List (Manifold3 Float)) : String :=
  if ms.length != s.poses.length then "fail wrong-number-of-calls" else
  let sh := pfmShapes s
  let rec go : Nat → List (Iso3 Float) → List (Manifold3 Float) → Option String
    | _, [], _ => none
    | _, _, [] => none
    | i, p :: ps, m :: ms =>
      let drift : Rat := ((i : Rat) + 1) / 1000
      match manifoldOracle3 sh p s.pred m none drift false with
      | some r =>
        -- shapes touching at EXACTLY zero distance: GJK/EPA has no direction to return (one-shot `contact` = Some(0)); its own verdict
        -- a cone with a contact normal horizontal up to rounding (|dir.y| ≤ 1e-9): `Cone::local_support_feature` (`dir.y > 0.0`) returns the cap square, which
        -- `contacts_face_face` then sees edge-on; its own verdict
        let coneEdgeOn := (s.kind == 6 && Float.abs m.n1.y ≤ 1.0e-9) || (s.kind == 5 && Float.abs m.n2.y ≤ 1.0e-9)
        match s.oneshot[i]? with
        | some (true, d) =>
          if Float.abs d ≤ 1.0e-12 then some s!"exact-touching-gjk-epa-degenerate call={i} {r}"
          else if coneEdgeOn then some s!"cone-cap-seen-edge-on call={i} {r}" else some s!"call={i} {r}"
        | _ => if coneEdgeOn then some s!"cone-cap-seen-edge-on call={i} {r}" else some s!"call={i} {r}"
      | none => go (i + 1) ps ms
  match go 0 s.poses ms with
  | some r => s!"fail {r}"
  | none => "pass"


/-! #### `contact_manifold_pfm_pfm` on a fresh manifold, GJK answer and edge features observed -/
structure PfmG where
  s : Pfm3
  pos12 : Iso3 Float
  /-- `none`: GJK did not return closest points, or a support feature is not an edge -/
  obs : Option (V3 Float × V3 Float × V3 Float × V3 Float × V3 Float × V3 Float × V3 Float × Float × Float)
def ppfmg : P PfmG := do
  let k ← pnat; let a ← pv3; let b ← pv3; let pr ← pf; let p ← piso3
  let obs ← (do
      let f ← pbool
      if f then do
        let p1 ← pov3; let p21 ← pov3; let dir ← pov3; let e1a ← pov3; let e1b ← pov3; let e2a ← pov3; let e2b ← pov3
        let br1 ← pfo; let br2 ← pfo
        pure (some (p1, p21, dir, e1a, e1b, e2a, e2b, br1, br2))
      else pure none) <|> pure none
  pure ⟨⟨k, a, b, pr, [p], []⟩, p, obs⟩

def pfmgOracle (g : PfmG) (m : Manifold3 Float) : String :=
  match g.obs with
  | none => "skip not-edge-edge"
  | some (p1, p21, _, _, _, _, _, _, _) =>
    if m.points.length > 3 then "fail more-than-three-contacts" else
    match manifoldOracle3 (pfmShapes g.s) g.pos12 g.s.pred m none 0 false with
    | some r =>
      -- GJK's witnesses coincide (up to an ulp): the shapes touch at exactly zero distance, no direction to return
      if ((q3 p1).sub (q3 p21)).normSq ≤ 1 / 100000000000000000000 then s!"fail exact-touching-gjk-epa-degenerate {r}" else s!"fail {r}"
    | none => "pass"


/-! ### round fu5: 2-D cuboid/cuboid called directly, its one-way SAT, and 2-D `PolygonalFeature::contacts` -/
structure Cuc2 where
  pos12 : Iso2 Float
  he1 : V2 Float
  he2 : V2 Float
  pred : Float
  m : Manifold2 Float
def pcuc2 : P Cuc2 := do
  let p ← piso2; let a ← pv2; let b ← pv2; let pr ← pf; let m ← pman2; pure ⟨p, a, b, pr, m⟩

/-- fresh call (empty prior manifold): every clause incl. presence and depth against the EXACT box/box distance; with a prior
manifold the warm start may have been taken: witnesses may have drifted by 1e-3 and depth is compared as in the sequences -/
def cuc2Oracle (c : Cuc2) (m' : Manifold2 Float) : String :=
  let sh : Sh2 × Sh2 := (.cuboid (q2 c.he1) false, .cuboid (q2 c.he2) false)
  let fresh := c.m.points.isEmpty
  match manifoldOracle2 sh c.pos12 c.pred m' none (if fresh then 0 else 1 / 1000) false with
  | some r => s!"fail {r}"
  | none =>
    if !fresh then "pass" else
    let D := cuboidCuboidDist2 (q2 c.he1) (q2 c.he2) (qiso2 c.pos12); let P := q c.pred
    let tol : Rat := 1 / 1000000
    let deep : Option Rat := m'.points.foldl (fun acc k => match acc with | none => some (q k.dist) | some d => some (min d (q k.dist))) none
    match deep with
    | none =>
      if D < -(tol * (1 + rabs D)) then s!"fail no-contact-but-penetrating exact-dist={D}"
      -- separated by less than the prediction, closest features two corners: the two support faces do not overlap along the
      -- tangent, the clipping returns nothing (own verdict, known finding of the SAT/clipping generator)
      else if 0 < D && D < P - tol * (1 + rabs D + rabs P) then s!"fail predictive-contact-missing exact-dist={D}<prediction"
      else "pass"
    | some d =>
      if close d D tol then "pass"
      -- separated boxes: the closest vertex was clipped away, the smallest reported gap exceeds the true distance
      else if 0 < D && D < d then s!"fail predictive-gap-overestimated deepest={d} exact={D}"
      else s!"fail deepest={d} exact={D}"

/-- brute force over the vertices: the returned axis is a signed coordinate axis on the side of the translation, the value is the
exact separation along it, and no coordinate axis (on the side of the translation) separates more -/
def sat2Oracle (pos12 : Iso2 Float) (he1 he2 : V2 Float) (sep : Float) (dir : V2 Float) : String :=
  let M := qiso2 pos12; let h1 := q2 he1; let d := q2 dir; let s := q sep
  let v2 := (vertsCuboid2 (q2 he2)).map M.act
  let along (a : V2 Rat) : Rat := (v2.map fun v => v.dot a).foldl min ((M.act (q2 he2)).dot a) - (h1.x * rabs a.x + h1.y * rabs a.y)
  if !((d.x = 0 && rabs d.y = 1) || (d.y = 0 && rabs d.x = 1)) then s!"fail axis-not-a-signed-coordinate-axis {d.x} {d.y}" else
  if d.dot M.t < 0 then "fail axis-points-away-from-the-translation" else
  if !(close s (along d)) then s!"fail separation={s} exact-along-axis={along d}" else
  let sx : Rat := if M.t.x < 0 then -1 else 1
  let sy : Rat := if M.t.y < 0 then -1 else 1
  let best := max (if M.t.x = 0 then max (along ⟨1, 0⟩) (along ⟨-1, 0⟩) else along ⟨sx, 0⟩)
                  (if M.t.y = 0 then max (along ⟨0, 1⟩) (along ⟨0, -1⟩) else along ⟨0, sy⟩)
  let least := max (if M.t.x = 0 then min (along ⟨1, 0⟩) (along ⟨-1, 0⟩) else along ⟨sx, 0⟩)
                   (if M.t.y = 0 then min (along ⟨0, 1⟩) (along ⟨0, -1⟩) else along ⟨0, sy⟩)
  if !(leTol s best tolDefault && leTol least s tolDefault) then s!"fail not-the-best-axis separation={s} best={best}" else "pass"

structure PC2 where
  pos12 : Iso2 Float
  f1 : List (V2 Float)
  f2 : List (V2 Float)
  sep : V2 Float
  flipped : Bool
def ppc2 : P PC2 := do
  let p ← piso2; let f1 ← plist pv2; let f2 ← plist pv2; let s ← pv2; let f ← pbool; pure ⟨p, f1, f2, s, f⟩

def pc2Model (c : PC2) : String :=
  match polyContacts2 c.pos12 c.pos12.inverse c.sep (c.pos12.invRot c.sep.neg) c.f1 c.f2 c.flipped with
  | some cs => String.intercalate " " (toString cs.length :: cs.map fcontact2)
  | none => "panic"

/-- face/face: none or two contacts; un-flipped, the first witness lies on face 1, the second on face 2 (frame 2),
`dist = (pos12·p2 − p1)·sep`, the witnesses have the same coordinate along the tangent `(−sep.y, sep.x)`; no contact iff the
tangent ranges of the faces are disjoint, else the two contacts sit at the two ends of the common range.
face/vertex arms (never produced by a parry shape in 2-D): the vertex witness is the vertex; when the face has unit length and
`sep` is its normal `(−t.y, t.x)` also the `dist` identity and the face witness on the face line (otherwise skipped: the routine
scales the witness by the un-normalised face normal). -/
def pc2Oracle (c : PC2) (out : List String) : String :=
  match out with
  | "panic" :: _ => if c.f1.length != 2 && c.f2.length != 2 then "skip unimplemented-arm-vertex-vertex" else "fail panic"
  | _ =>
  match run (plist pocontact2) out with
  | none => "fail unparsable-output"
  | some pts0 =>
  let M := qiso2 c.pos12; let S := q2 c.sep
  let T : V2 Rat := ⟨-S.y, S.x⟩
  let vertexArmOutside : Bool :=
    let chk (a b Sf : V2 Rat) : Bool :=
      let t := b.sub a; let n : V2 Rat := ⟨-t.y, t.x⟩
      rabs (t.normSq - 1) > 1 / 1000000000000 || (n.sub Sf).normSq > 1 / 100000000000000000000
    match c.f1.map q2, c.f2.map q2 with
    | [a, b], [_] => chk a b S
    | [_], [a, b] => chk a b (M.invRot S.neg)
    | _, _ => false
  if vertexArmOutside then "skip face-vertex-arm-needs-unit-face-and-its-normal" else
  if !(pts0.all finc2) then "fail nonfinite-output" else
  let pts := pts0.map fun c0 => let k := qc2 c0; if c.flipped then (⟨k.p2, k.p1, k.dist⟩ : Contact2 Rat) else k
  match c.f1.map q2, c.f2.map q2 with
  | [a1, b1], [a2, b2] =>
    let ptol : Rat := (1 + a1.normSq + b1.normSq + a2.normSq + b2.normSq + M.t.normSq) / 1000000000000
    let u1 := (a1.dot T, b1.dot T); let u2 := ((M.act a2).dot T, (M.act b2).dot T)
    let lo := max (min u1.1 u1.2) (min u2.1 u2.2); let hi := min (max u1.1 u1.2) (max u2.1 u2.2)
    let utol : Rat := (1 + rabs lo + rabs hi) / 1000000000
    if pts.isEmpty then (if lo + utol < hi then s!"fail no-contact-but-ranges-overlap lo={lo} hi={hi}" else "pass")
    else if pts.length != 2 then "fail wrong-number-of-contacts"
    else if hi < lo - utol then s!"fail contacts-but-ranges-disjoint lo={lo} hi={hi}"
    else
      let bad := pts.findSome? fun k =>
        let w := (M.act k.p2).sub k.p1
        if segDistSq2 a1 b1 k.p1 > ptol then some s!"p1-off-face-1 d²={segDistSq2 a1 b1 k.p1}"
        else if segDistSq2 a2 b2 k.p2 > ptol then some s!"p2-off-face-2 d²={segDistSq2 a2 b2 k.p2}"
        else if !(close k.dist (w.dot S)) then some s!"dist-identity dist={k.dist} expected={w.dot S}"
        else if rabs (w.dot T) > utol * (1 + rabs (w.dot S)) * 1000 then some s!"witnesses-not-aligned {w.dot T}"
        else none
      match bad with
      | some r => s!"fail {r}"
      | none =>
        let us := pts.map fun k => k.p1.dot T
        let ulo := us.foldl min (us.headD 0); let uhi := us.foldl max (us.headD 0)
        if rabs (ulo - lo) > utol * 1000 || rabs (uhi - hi) > utol * 1000 then s!"fail not-the-ends-of-the-common-range [{ulo},{uhi}] vs [{lo},{hi}]"
        else "pass"
  | f1, f2 =>
    -- one face, one vertex (frame of the face = 1 after the arm's own swap)
    match pts with
    | [k] =>
      let faceFirst := f1.length == 2
      let (a, b, v, Mf, Sf, pf, pv) :=
        if faceFirst then (f1.getD 0 V2.zero, f1.getD 1 V2.zero, f2.getD 0 V2.zero, M, S, k.p1, k.p2)
        else (f2.getD 0 V2.zero, f2.getD 1 V2.zero, f1.getD 0 V2.zero, M.inverse, M.invRot S.neg, k.p2, k.p1)
      let tol : Rat := (1 + a.normSq + b.normSq + v.normSq + M.t.normSq) / 1000000000000
      if (pv.sub v).normSq > tol then s!"fail vertex-witness-is-not-the-vertex d²={(pv.sub v).normSq}" else
      let t := b.sub a; let n : V2 Rat := ⟨-t.y, t.x⟩
      if rabs (t.normSq - 1) > 1 / 1000000000000 || (n.sub Sf).normSq > 1 / 100000000000000000000 then "skip face-vertex-arm-needs-unit-face-and-its-normal" else
      let w := (Mf.act v).sub pf
      if !(close k.dist (w.dot Sf)) then s!"fail dist-identity dist={k.dist} expected={w.dot Sf}"
      else if rabs ((pf.sub a).dot n) > 1 / 1000000000 * (1 + a.normSq + pf.normSq) then s!"fail face-witness-off-the-face-line {(pf.sub a).dot n}"
      else "pass"
    | _ => "fail wrong-number-of-contacts"


/-- `seq2m`: the `seq2t` layout (big cuboid, then a small cuboid or a triangle, both orders) run through the model:
kinds 0/1 `cuboidCuboid2`, kinds 2/3 `cuboidTriangle2` -/
def seqmGen2 (s : SeqT2) (pos12 : Iso2 Float) (m : Manifold2 Float) : Manifold2 Float :=
  let g (i : Nat) : Float := s.tiny.getD i 0.0
  match s.kind with
  | 0 => cuboidCuboid2 pos12 s.hb ⟨g 0, g 1⟩ s.pred m
  | 1 => cuboidCuboid2 pos12 ⟨g 0, g 1⟩ s.hb s.pred m
  | 2 => cuboidTriangle2 true pos12 s.hb ⟨g 0, g 1⟩ ⟨g 2, g 3⟩ ⟨g 4, g 5⟩ s.pred m
  | _ => cuboidTriangle2 false pos12 s.hb ⟨g 0, g 1⟩ ⟨g 2, g 3⟩ ⟨g 4, g 5⟩ s.pred m
def seqmModel2 (s : SeqT2) : String :=
  String.intercalate " " ((runSeq (seqmGen2 s) Manifold2.new s.poses).map fman2)

def handler (fn : String) : Option Handler :=
  match fn with
  | "tuc3" => some {
      model := fun a => run (do let p ← piso3; let m ← pman3; let t ← pf; let d ← pf; pure (ftuc3 (tuc3 p m t d))) a
      oracle := fun a o => match run (do let p ← piso3; let m ← pman3; let t ← pf; let d ← pf; pure (p, m, t, d)) a with
        | some (p, m, t, d) => withOut (do let b ← pbool; let m' ← poman3; pure (b, m')) o fun (b, m') => tucOracle3 p m t d b m'
        | none => "skip bad-args" }
  | "tuc3_default" => some {
      model := fun a => run (do let p ← piso3; let m ← pman3; pure (ftuc3 (tuc3Default p m))) a
      oracle := fun a o => match run (do let p ← piso3; let m ← pman3; pure (p, m)) a with
        | some (p, m) => withOut (do let b ← pbool; let m' ← poman3; pure (b, m')) o fun (b, m') =>
            tucOracle3 p m (0.99984769515 : Float) (1.0e-6 : Float) b m'
        | none => "skip bad-args" }
  | "tuc2" => some {
      model := fun a => run (do let p ← piso2; let m ← pman2; let t ← pf; let d ← pf; pure (ftuc2 (tuc2 p m t d))) a
      oracle := fun a o => match run (do let p ← piso2; let m ← pman2; let t ← pf; let d ← pf; pure (p, m, t, d)) a with
        | some (p, m, t, d) => withOut (do let b ← pbool; let m' ← poman2; pure (b, m')) o fun (b, m') => tucOracle2 p m t d b m'
        | none => "skip bad-args" }
  | "tuc2_default" => some {
      model := fun a => run (do let p ← piso2; let m ← pman2; pure (ftuc2 (tuc2Default p m))) a
      oracle := fun a o => match run (do let p ← piso2; let m ← pman2; pure (p, m)) a with
        | some (p, m) => withOut (do let b ← pbool; let m' ← poman2; pure (b, m')) o fun (b, m') =>
            tucOracle2 p m (0.99984769515 : Float) (1.0e-6 : Float) b m'
        | none => "skip bad-args" }
  | "deepest" => some {
      model := fun a => run (do let ds ← plist pf
                                pure (match deepest ds with | none => "none" | some i => s!"some {i}")) a
      oracle := fun a o => match run (plist pf) a with
        | some ds => if ds.all FloatIO.isFinite then deepestOracle (ds.map q) o else "skip nonfinite-input"
        | none => "skip bad-args" }
  | "take3" => some {
      -- output: returned manifold, then self afterwards
      model := fun a => run (do let m ← pman3; let r := m.take; pure s!"{fman3 r.1} {fman3 r.2}") a
      oracle := fun a o => match run pman3 a with
        | some m => withOut (do let r ← poman3; let s ← poman3; pure (r, s)) o fun (r, s) =>
            if fman3 r == fman3 m && s.points.isEmpty && fv3 s.n1 == fv3 m.n1 && fv3 s.n2 == fv3 m.n2 then "pass"
            else "fail take-spec"
        | none => "skip bad-args" }
  | "bb3" => some {
      model := fun a => run (do let p ← piso3; let r1 ← pf; let r2 ← pf; let pr ← pf; let m ← pman3
                                pure (fman3 (ballBall3 p r1 r2 pr m))) a
      oracle := fun a o => match run (do let p ← piso3; let r1 ← pf; let r2 ← pf; let pr ← pf; let m ← pman3; pure (p, r1, r2, pr, m)) a with
        | some (p, r1, r2, pr, m) => withOut poman3 o fun m' =>
            -- only the first contact is the generator's; extra stale points of the input manifold are kept as they were
            let m1 : Manifold3 Float := { m' with points := m'.points.take 1 }
            if m'.points.length > 1 && m'.points.length != m.points.length then "fail point-count" else
            match manifoldOracle3 (.ball (q r1), .ball (q r2)) p pr m1 none 0 true with
            | some r => s!"fail {r}"
            | none => "pass"
        | none => "skip bad-args" }
  | "seq3" => some {
      model := fun a => run (do let s ← pseq3; pure (seqModel3 s)) a
      oracle := fun a o => match run pseq3 a with
        | some s => withOut (pmanlist3 s.poses.length) o (seqOracle3 s false)
        | none => "skip bad-args" }
  | "comp3" => some {
      model := fun a => match run (pcomp false) a with | some c => compModel c | none => none
      oracle := fun a o => match run (pcomp false) a with
        | some c => withOut (pcalls c.poses.length) o (compOracle c false)
        | none => "skip bad-args" }
  | "tm3" => some {
      model := fun _ => some "oracle-only"
      oracle := fun a o => match run (pcomp true) a with
        | some c => withOut (pcalls c.poses.length) o (compOracle c true)
        | none => "skip bad-args" }
  | "seq3o" => some {
      model := fun _ => some "oracle-only"
      oracle := fun a o => match run pseq3 a with
        | some s => withOut (pmanlist3 s.poses.length) o (seqOracle3 s true)
        | none => "skip bad-args" }
  | "seq2" => some {
      model := fun a => run (do let s ← pseq2; pure (seqModel2 s)) a
      oracle := fun a o => match run pseq2 a with
        | some s => withOut (pN poman2 s.poses.length) o (seqOracle2 s)
        | none => "skip bad-args" }
  | "cc2" => some {
      model := fun a => run (do let c ← pcc2; pure (fman2 (capsuleCapsule2 ulpsEqF c.pos12 c.a1 c.b1 c.r1 c.a2 c.b2 c.r2 c.pred c.m))) a
      oracle := fun a o => match run pcc2 a with
        | some c => withOut poman2 o (cc2Oracle c)
        | none => "skip bad-args" }
  | "hf2" => some {
      model := fun _ => some "oracle-only"
      oracle := fun a o => match run phf2 a with
        | some c => withOut (pN (plist phfman) c.poses.length) o (hf2Oracle c)
        | none => "skip bad-args" }
  | "seq3t" => some {
      model := fun _ => some "oracle-only"
      oracle := fun a o => match run pseqt3 a with
        | some s => withOut (pmanlist3 s.poses.length) o (seqtOracle3 s)
        | none => "skip bad-args" }
  | "seq2t" => some {
      model := fun _ => some "oracle-only"
      oracle := fun a o => match run pseqt2 a with
        | some s => withOut (pN poman2 s.poses.length) o (seqtOracle2 s)
        | none => "skip bad-args" }
  | "css3" => some {
      model := fun a => run (do let a1 ← pv3; let b1 ← pv3; let a2 ← pv3; let b2 ← pv3
                                pure (match clipSegSeg3 a1 b1 a2 b2 with
                                  | none => "none" | some (ca, cb) => s!"some {fclip3 ca} {fclip3 cb}")) a
      oracle := fun a o => match run (do let a1 ← pv3; let b1 ← pv3; let a2 ← pv3; let b2 ← pv3; pure (a1, b1, a2, b2)) a with
        | some (a1, b1, a2, b2) => withOut pclipOut3 o (cssOracle a1 b1 a2 b2)
        | none => "skip bad-args" }
  | "css2" => some {
      model := fun a => run (do let a1 ← pv2; let b1 ← pv2; let a2 ← pv2; let b2 ← pv2
                                pure (match clipSegSeg2 a1 b1 a2 b2 with
                                  | none => "none" | some (ca, cb) => s!"some {fclip2 ca} {fclip2 cb}")) a
      oracle := fun a o => match run (do let a1 ← pv2; let b1 ← pv2; let a2 ← pv2; let b2 ← pv2; pure (a1, b1, a2, b2)) a with
        | some (a1, b1, a2, b2) => withOut pclipOut2 o (cssOracle (lift3 a1) (lift3 b1) (lift3 a2) (lift3 b2))
        | none => "skip bad-args" }
  | "cc3" => some {
      model := fun a => match run pcc a with | some c => ccModel c | none => none
      oracle := fun a o => match run pcc a with
        | some c => withOut (pcalls c.poses.length) o (ccOracle c)
        | none => "skip bad-args" }
  | "cap3" => some {
      model := fun a => run (do let c ← pcap3; pure (fman3 (capsuleCapsule3 ulpsEqF c.pos12 c.a1 c.b1 c.r1 c.a2 c.b2 c.r2 c.pred c.m))) a
      oracle := fun a o => match run pcap3 a with
        | some c => withOut poman3 o (cap3Oracle c)
        | none => "skip bad-args" }
  | "hfc2" => some {
      model := fun a => match run phfc2 a with | some h => hfcModel h | none => none
      oracle := fun a o => match run phfc2 a with
        | some h => withOut (pN (plist (do let a ← pnat; let b ← pnat; let t ← pnat; let m ← poman2; pure (a, b, t, m))) h.base.poses.length) o (hfcOracle h)
        | none => "skip bad-args" }
  | "ee3" => some {
      model := fun a => run (do let e ← pee3
                                let cs := edgeEdge3 orthonormalBasis3 ulpsEqF e.pos12 e.e1a e.e1b e.e2a e.e2b e.sep e.flipped
                                pure (String.intercalate " " (toString cs.length :: cs.map fcontact3))) a
      oracle := fun a o => match run pee3 a with
        | some e => withOut (plist pocontact3) o (ee3Oracle e)
        | none => "skip bad-args" }
  | "pfmg3" => some {
      model := fun a => match run ppfmg a with
        | some g => (match g.obs with
          | none => some "skip"
          | some (p1, p21, dir, e1a, e1b, e2a, e2b, br1, br2) =>
            some (fman3 (pfmPfmEdgeGiven orthonormalBasis3 ulpsEqF g.pos12 p1 p21 dir e1a e1b e2a e2b br1 br2)))
        | none => none
      oracle := fun a o => match run ppfmg a with
        | some g => (match g.obs with
          | none => "skip not-edge-edge"
          | some _ => withOut poman3 o (pfmgOracle g))
        | none => "skip bad-args" }
  | "pfm3" => some {
      model := fun _ => some "oracle-only"
      oracle := fun a o => match run ppfm3 a with
        | some s => withOut (pmanlist3 s.poses.length) o (pfmOracle s)
        | none => "skip bad-args" }
  | "sat2" => some {
      model := fun a => run (do let p ← piso2; let h1 ← pv2; let h2 ← pv2
                                let r := satOneway2 h1 h2 p
                                pure s!"{ff r.1} {fv2 r.2}") a
      oracle := fun a o => match run (do let p ← piso2; let h1 ← pv2; let h2 ← pv2; pure (p, h1, h2)) a with
        | some (p, h1, h2) => withOut (do let s ← pfo; let d ← pov2; pure (s, d)) o (fun r => sat2Oracle p h1 h2 r.1 r.2)
        | none => "skip bad-args" }
  | "cuc2" => some {
      model := fun a => run (do let c ← pcuc2; pure (fman2 (cuboidCuboid2 c.pos12 c.he1 c.he2 c.pred c.m))) a
      oracle := fun a o => match run pcuc2 a with
        | some c => withOut poman2 o (cuc2Oracle c)
        | none => "skip bad-args" }
  | "pc2" => some {
      model := fun a => run (do let c ← ppc2; pure (pc2Model c)) a
      oracle := fun a o => match run ppc2 a with
        | some c => pc2Oracle c o
        | none => "skip bad-args" }
  | "seq2m" => some {
      model := fun a => run (do let s ← pseqt2; pure (seqmModel2 s)) a
      oracle := fun a o => match run pseqt2 a with
        | some s => withOut (pN poman2 s.poses.length) o (seqtOracle2 s)
        | none => "skip bad-args" }
  | _ => none

end C14
