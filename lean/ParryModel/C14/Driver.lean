import ParryModel.Proto
import ParryModel.C14.Model
/-! C14 protocol handlers: model evaluation at `Float` and exact-`Rat` oracles on implementation output. -/
namespace C14
open Model Proto

/-! ### parsing / printing -/
def pcontact3 : P (Contact3 Float) := do let a ← pv3; let b ← pv3; let d ← pf; pure ⟨a, b, d⟩
def pcontact2 : P (Contact2 Float) := do let a ← pv2; let b ← pv2; let d ← pf; pure ⟨a, b, d⟩
/-- manifold: n1 n2 npts (p1 p2 dist)* -/
def pman3 : P (Manifold3 Float) := do let n1 ← pv3; let n2 ← pv3; let pts ← plist pcontact3; pure ⟨pts, n1, n2⟩
def pman2 : P (Manifold2 Float) := do let n1 ← pv2; let n2 ← pv2; let pts ← plist pcontact2; pure ⟨pts, n1, n2⟩
def fcontact3 (c : Contact3 Float) : String := s!"{fv3 c.p1} {fv3 c.p2} {ff c.dist}"
def fcontact2 (c : Contact2 Float) : String := s!"{fv2 c.p1} {fv2 c.p2} {ff c.dist}"
def fman3 (m : Manifold3 Float) : String :=
  String.intercalate " " ([fv3 m.n1, fv3 m.n2, toString m.points.length] ++ m.points.map fcontact3)
def fman2 (m : Manifold2 Float) : String :=
  String.intercalate " " ([fv2 m.n1, fv2 m.n2, toString m.points.length] ++ m.points.map fcontact2)

def pov3 : P (V3 Float) := do let x ← pfo; let y ← pfo; let z ← pfo; pure ⟨x, y, z⟩
def pov2 : P (V2 Float) := do let x ← pfo; let y ← pfo; pure ⟨x, y⟩
def pocontact3 : P (Contact3 Float) := do let a ← pov3; let b ← pov3; let d ← pfo; pure ⟨a, b, d⟩
def pocontact2 : P (Contact2 Float) := do let a ← pov2; let b ← pov2; let d ← pfo; pure ⟨a, b, d⟩
def poman3 : P (Manifold3 Float) := do let n1 ← pov3; let n2 ← pov3; let pts ← plist pocontact3; pure ⟨pts, n1, n2⟩
def poman2 : P (Manifold2 Float) := do let n1 ← pov2; let n2 ← pov2; let pts ← plist pocontact2; pure ⟨pts, n1, n2⟩

def qc3 (c : Contact3 Float) : Contact3 Rat := ⟨q3 c.p1, q3 c.p2, q c.dist⟩
def qc2 (c : Contact2 Float) : Contact2 Rat := ⟨q2 c.p1, q2 c.p2, q c.dist⟩
def finite2 (v : V2 Float) : Bool := FloatIO.isFinite v.x && FloatIO.isFinite v.y
def finc3 (c : Contact3 Float) : Bool := finite3 c.p1 && finite3 c.p2 && FloatIO.isFinite c.dist
def finc2 (c : Contact2 Float) : Bool := finite2 c.p1 && finite2 c.p2 && FloatIO.isFinite c.dist
def finm3 (m : Manifold3 Float) : Bool := finite3 m.n1 && finite3 m.n2 && m.points.all finc3
def finm2 (m : Manifold2 Float) : Bool := finite2 m.n1 && finite2 m.n2 && m.points.all finc2

def withOut {α} (p : P α) (out : List String) (k : α → String) : String :=
  match out with
  | "panic" :: _ => "fail panic"
  | _ => match run p out with
    | some a => k a
    | none => "fail unparsable-output"

/-- absolute closeness with the default tolerance scaled by the magnitudes involved -/
def close (a b : Rat) (tol : Rat := tolDefault) : Bool := leTol a b tol && leTol b a tol

/-! ### oracle for `try_update_contacts_eps` (independent of `tuc3`: re-derives every decision in exact arithmetic)

On `true`: every contact satisfies the property's identity (when `|n1| = 1`), the normals pass the
cosine threshold, every `p1` moved by at most `√dsq`, no contact changed sign, `p2` is unchanged.
On `false`: there must be a reason (empty, angle, or some contact that — given that all earlier
ones were accepted — flips sign or moves too far); tolerances make near-ties count as "reason present". -/
def tucOracle3 (pos12 : Iso3 Float) (m : Manifold3 Float) (thr dsq : Float) (ok : Bool) (m' : Manifold3 Float) : String :=
  if !(finm3 m') then "fail nonfinite-output" else
  let M := qiso3 pos12
  let n1 := q3 m.n1
  let T := q thr; let D := q dsq
  let cosv := -(n1.dot (M.rot (q3 m.n2)))
  let olds := m.points.map qc3
  let news := m'.points.map qc3
  if olds.length != news.length then "fail point-count-changed" else
  if q3 m'.n1 |>.sub n1 |>.normSq |> (· != 0) then "fail n1-changed" else
  let unit := close (n1.dot n1) 1
  let pairs := olds.zip news
  if ok then
    if olds.isEmpty then "fail true-on-empty-manifold" else
    if !(leTol T cosv tolDefault) then s!"fail cosine-below-threshold cos={cosv} thr={T}" else
    let bad := pairs.filterMap fun (o, n) =>
      let d := ((M.act n.p2).sub n.p1).dot n1
      if (n.p2.sub o.p2).normSq != 0 then some "p2-changed"
      else if unit && !(close n.dist d) then some s!"dist-identity dist={n.dist} expected={d}"
      else if !(leTol ((n.p1.sub o.p1).normSq) D tolDefault) then some "p1-moved-beyond-threshold"
      else if !(leTol 0 (n.dist * o.dist) tolDefault) then some "sign-flipped"
      else none
    match bad with
    | [] => "pass"
    | b :: _ => s!"fail {b}"
  else
    -- a reason must exist
    let angleReason := leTol cosv T tolDefault
    let ptReason := olds.any fun o =>
      let lp2 := M.act o.p2
      let d := (lp2.sub o.p1).dot n1
      let np1 := lp2.sub (n1.smul d)
      leTol (d * o.dist) 0 tolDefault || leTol D ((np1.sub o.p1).normSq) tolDefault
    if olds.isEmpty || angleReason || ptReason then "pass" else "fail false-without-reason"

def tucOracle2 (pos12 : Iso2 Float) (m : Manifold2 Float) (thr dsq : Float) (ok : Bool) (m' : Manifold2 Float) : String :=
  if !(finm2 m') then "fail nonfinite-output" else
  let M := qiso2 pos12
  let n1 := q2 m.n1
  let T := q thr; let D := q dsq
  let cosv := -(n1.dot (M.rot (q2 m.n2)))
  let olds := m.points.map qc2
  let news := m'.points.map qc2
  if olds.length != news.length then "fail point-count-changed" else
  if q2 m'.n1 |>.sub n1 |>.normSq |> (· != 0) then "fail n1-changed" else
  let unit := close (n1.dot n1) 1
  let pairs := olds.zip news
  if ok then
    if olds.isEmpty then "fail true-on-empty-manifold" else
    if !(leTol T cosv tolDefault) then s!"fail cosine-below-threshold cos={cosv} thr={T}" else
    let bad := pairs.filterMap fun (o, n) =>
      let d := ((M.act n.p2).sub n.p1).dot n1
      if (n.p2.sub o.p2).normSq != 0 then some "p2-changed"
      else if unit && !(close n.dist d) then some s!"dist-identity dist={n.dist} expected={d}"
      else if !(leTol ((n.p1.sub o.p1).normSq) D tolDefault) then some "p1-moved-beyond-threshold"
      else if !(leTol 0 (n.dist * o.dist) tolDefault) then some "sign-flipped"
      else none
    match bad with
    | [] => "pass"
    | b :: _ => s!"fail {b}"
  else
    let angleReason := leTol cosv T tolDefault
    let ptReason := olds.any fun o =>
      let lp2 := M.act o.p2
      let d := (lp2.sub o.p1).dot n1
      let np1 := lp2.sub (n1.smul d)
      leTol (d * o.dist) 0 tolDefault || leTol D ((np1.sub o.p1).normSq) tolDefault
    if olds.isEmpty || angleReason || ptReason then "pass" else "fail false-without-reason"

def ftuc3 (r : Bool × Manifold3 Float) : String := s!"{fb r.1} {fman3 r.2}"
def ftuc2 (r : Bool × Manifold2 Float) : String := s!"{fb r.1} {fman2 r.2}"

/-- index of the first minimum by brute force (oracle for `find_deepest_contact`) -/
def deepestOracle (ds : List Rat) (out : List String) : String :=
  match ds, out with
  | [], ["none"] => "pass"
  | [], _ => "fail expected-none"
  | _, ["some", is] =>
    match is.toNat? with
    | none => "fail unparsable-output"
    | some i =>
      match ds[i]? with
      | none => "fail index-out-of-range"
      | some di =>
        if !(ds.all (fun d => di ≤ d)) then "fail not-minimal"
        else if (ds.take i).any (fun d => d ≤ di) then "fail not-first-minimum"
        else "pass"
  | _, _ => "fail unparsable-output"

def handler (fn : String) : Option Handler :=
  match fn with
  | "tuc3" => some {
      model := fun a => run (do let p ← piso3; let m ← pman3; let t ← pf; let d ← pf; pure (ftuc3 (tuc3 p m t d))) a
      oracle := fun a o => match run (do let p ← piso3; let m ← pman3; let t ← pf; let d ← pf; pure (p, m, t, d)) a with
        | some (p, m, t, d) => withOut (do let b ← pbool; let m' ← poman3; pure (b, m')) o fun (b, m') => tucOracle3 p m t d b m'
        | none => "skip bad-args" }
  | "tuc3_default" => some {
      model := fun a => run (do let p ← piso3; let m ← pman3; pure (ftuc3 (tuc3 p m cos1deg distSqThreshold))) a
      oracle := fun a o => match run (do let p ← piso3; let m ← pman3; pure (p, m)) a with
        | some (p, m) => withOut (do let b ← pbool; let m' ← poman3; pure (b, m')) o fun (b, m') =>
            tucOracle3 p m (0.99984769515 : Float) (1.0e-6 : Float) b m'
        | none => "skip bad-args" }
  | "tuc2" => some {
      model := fun a => run (do let p ← piso2; let m ← pman2; let t ← pf; let d ← pf; pure (ftuc2 (tuc2 p m t d))) a
      oracle := fun a o => match run (do let p ← piso2; let m ← pman2; let t ← pf; let d ← pf; pure (p, m, t, d)) a with
        | some (p, m, t, d) => withOut (do let b ← pbool; let m' ← poman2; pure (b, m')) o fun (b, m') => tucOracle2 p m t d b m'
        | none => "skip bad-args" }
  | "tuc2_default" => some {
      model := fun a => run (do let p ← piso2; let m ← pman2; pure (ftuc2 (tuc2 p m cos1deg distSqThreshold))) a
      oracle := fun a o => match run (do let p ← piso2; let m ← pman2; pure (p, m)) a with
        | some (p, m) => withOut (do let b ← pbool; let m' ← poman2; pure (b, m')) o fun (b, m') =>
            tucOracle2 p m (0.99984769515 : Float) (1.0e-6 : Float) b m'
        | none => "skip bad-args" }
  | "deepest" => some {
      model := fun a => run (do let ds ← plist pf
                                pure (match deepest ds with | none => "none" | some i => s!"some {i}")) a
      oracle := fun a o => match run (plist pf) a with
        | some ds => if ds.all FloatIO.isFinite then deepestOracle (ds.map q) o else "skip nonfinite-input"
        | none => "skip bad-args" }
  | "take3" => some {
      -- output: returned manifold, then self afterwards
      model := fun a => run (do let m ← pman3; let r := m.take; pure s!"{fman3 r.1} {fman3 r.2}") a
      oracle := fun a o => match run pman3 a with
        | some m => withOut (do let r ← poman3; let s ← poman3; pure (r, s)) o fun (r, s) =>
            if fman3 r == fman3 m && s.points.isEmpty && fv3 s.n1 == fv3 m.n1 && fv3 s.n2 == fv3 m.n2 then "pass"
            else "fail take-spec"
        | none => "skip bad-args" }
  | _ => none

end C14
