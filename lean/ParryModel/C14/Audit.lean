import ParryModel.C14.Theorems
#print axioms C14.tuc3_true_sound
#print axioms C14.tuc3_motion_bound
#print axioms C14.tuc2_true_sound
#print axioms C14.tuc3_frame
#print axioms C14.deepest_spec
#print axioms C14.ballBall3_spec
#print axioms C14.convexBall3_spec
#print axioms C14.good_swap3
#print axioms C14.halfspacePfm3_spec
#print axioms C14.convexBallShapes3_good
#print axioms C14.halfspaceDispatch3_good
#print axioms C14.cuboidSupportFace3_mem
#print axioms C14.cuboidProject3_mem
#print axioms C14.compositeStep_spec
#print axioms C14.wsInv_new
#print axioms C14.compositeRun_ok
#print axioms C14.compositeStep_parts
