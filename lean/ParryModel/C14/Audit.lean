import ParryModel.C14.Theorems
#print axioms C14.tuc3_true_sound
