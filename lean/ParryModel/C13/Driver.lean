import ParryModel.Proto
import ParryModel.C13.Model
/-!
C13 protocol handlers: model evaluation at `Float` (bit-exact against parry2d-f64 / parry3d-f64) and exact-`Rat`
oracles on the implementation's output.

The oracles never call the model functions: polygon / triangle moments are recomputed by *signed-triangle sums* with the
edge-midpoint quadrature rule (exact for quadratics), round shapes by their closed forms with `π` = the binary64
constant, `+ - sum transform_by` by the additivity / covariance identities of the moments about the origin.
-/
namespace C13
open Model Model.Mass Proto

/-- binary64 `core::f64::consts::PI` -/
instance : Inhabited (V2 Rat) := ⟨⟨0, 0⟩⟩

def piF : Float := Float.ofBits 0x400921FB54442D18
def piQ : Rat := q piF

/-! ## printers / parsers -/
def fmp2 (p : MP2 Float) : String := s!"{fv2 p.com} {ff p.invMass} {ff p.invI}"
def pmp2 : P (MP2 Float) := do let c ← pv2; let im ← pf; let ii ← pf; pure ⟨c, im, ii⟩
def pomp2 : P (MP2 Float) := do let x ← pfo; let y ← pfo; let im ← pfo; let ii ← pfo; pure ⟨⟨x, y⟩, im, ii⟩
def ptri2 : P (Triangle2 Float) := do let a ← pv2; let b ← pv2; let c ← pv2; pure ⟨a, b, c⟩
def pidx : P (Nat × Nat × Nat) := do let i ← pnat; let j ← pnat; let k ← pnat; pure (i, j, k)
def fopt (o : Option (MP2 Float)) : String := match o with | some p => fmp2 p | none => "panic"

def withOut {α} (p : P α) (out : List String) (k : α → String) : String :=
  match out with
  | "panic" :: _ => "fail panic"
  | _ => match run p out with
    | some a => k a
    | none => "fail unparsable-output"

/-! ## exact helpers (independent of the model) -/
def tol : Rat := 1 / 1000000000
/-- `|x - y| ≤ 1e-9 · scale` -/
def close (x y scale : Rat) : Bool := rabs (x - y) ≤ tol * scale
def rinv (x : Rat) : Rat := if x = 0 then 0 else 1 / x
def rmax (a b : Rat) : Rat := if a < b then b else a
def cross2 (a b : V2 Rat) : Rat := a.x * b.y - a.y * b.x
def nsq (a : V2 Rat) : Rat := a.x * a.x + a.y * a.y
def vsub (a b : V2 Rat) : V2 Rat := ⟨a.x - b.x, a.y - b.y⟩
def vadd (a b : V2 Rat) : V2 Rat := ⟨a.x + b.x, a.y + b.y⟩
def vscale (a : V2 Rat) (s : Rat) : V2 Rat := ⟨a.x * s, a.y * s⟩
def mid (a b : V2 Rat) : V2 Rat := ⟨(a.x + b.x) / 2, (a.y + b.y) / 2⟩

/-- exact moments of one triangle, weight `w·|signed area|`: `(area, first moment, polar moment about the origin)`;
second moment by the edge-midpoint rule `∫_T f = A/3 · Σ f(m_k)` (exact for quadratics) -/
def triMom (a b c : V2 Rat) : Rat × V2 Rat × Rat :=
  let A := rabs (cross2 (vsub b a) (vsub c a)) / 2
  let g : V2 Rat := ⟨(a.x + b.x + c.x) / 3, (a.y + b.y + c.y) / 3⟩
  let j := A / 3 * (nsq (mid a b) + nsq (mid b c) + nsq (mid c a))
  (A, vscale g A, j)

/-- signed version (for polygons given by their boundary): fan from the origin -/
def polyMom (vs : List (V2 Rat)) : Rat × V2 Rat × Rat :=
  match vs with
  | [] => (0, ⟨0, 0⟩, 0)
  | v0 :: _ =>
    let rec go : List (V2 Rat) → Rat × V2 Rat × Rat
      | [] => (0, ⟨0, 0⟩, 0)
      | [x] => edge x v0
      | x :: y :: r => let e := edge x y; let s := go (y :: r); (e.1 + s.1, vadd e.2.1 s.2.1, e.2.2 + s.2.2)
    go vs
where
  /-- signed moments of the triangle `(0, x, y)` -/
  edge (x y : V2 Rat) : Rat × V2 Rat × Rat :=
    let sA := cross2 x y / 2
    let o : V2 Rat := ⟨0, 0⟩
    let g : V2 Rat := ⟨(x.x + y.x) / 3, (x.y + y.y) / 3⟩
    (sA, vscale g sA, sA / 3 * (nsq (mid o x) + nsq (mid x y) + nsq (mid y o)))

/-- Heron/Kahan on rounded side lengths has a `√ε·L²` absolute error on (near-)degenerate triangles (the product under the
root is `O(ε L⁴)` instead of `0`): allowance `1e-7·L_t²` for each triangle whose exact area is below `1e-6·L_t²`. -/
def triSlack (a b c : V2 Rat) : Rat :=
  let l2 := rmax (nsq (vsub b a)) (rmax (nsq (vsub c b)) (nsq (vsub a c)))
  let A := rabs (cross2 (vsub b a) (vsub c a)) / 2
  if A < l2 / 1000000 then l2 / 10000000 else 0

def sumMom (ms : List (Rat × V2 Rat × Rat)) : Rat × V2 Rat × Rat :=
  ms.foldl (fun s e => (s.1 + e.1, vadd s.2.1 e.2.1, s.2.2 + e.2.2)) (0, ⟨0, 0⟩, 0)

/-- diameter-like scale of a point set (ℓ¹ extent from the first point) -/
def extent (vs : List (V2 Rat)) : Rat :=
  match vs with
  | [] => 0
  | v0 :: _ => vs.foldl (fun m v => rmax m (rabs (v.x - v0.x) + rabs (v.y - v0.y))) 0

def finiteMP (p : MP2 Float) : Bool :=
  FloatIO.isFinite p.com.x && FloatIO.isFinite p.com.y && FloatIO.isFinite p.invMass && FloatIO.isFinite p.invI

/-- exact observables of an implementation output: `(mass, com, principal inertia)` -/
def obs (p : MP2 Float) : Rat × V2 Rat × Rat :=
  (rinv (q p.invMass), q2 p.com, rinv (q p.invI * q p.invI))

/-- moments about the origin `(m, m·c, I + m|c|²)` of an output / input given by raw fields -/
def mom (p : MP2 Float) : Rat × V2 Rat × Rat :=
  let (m, c, i) := obs p
  (m, vscale c m, i + m * nsq c)

/-- judge an output against exact total moments about the origin `(A, F, J)` of a uniform lamina (unit density),
`L` = length scale: mass = ρA, com = F/A, inertia about com = ρ(J − |F|²/A) -/
def judgeLamina (density : Rat) (M : Rat × V2 Rat × Rat) (L : Rat) (out : MP2 Float) (slackA : Rat := 0) : String :=
  if !finiteMP out then "fail nonfinite-output" else
  let (A, F, J) := M
  if L = 0 then "skip point-shape" else
  if A < L * L / 1000000 then "skip degenerate-area" else
  let (m, c, i) := obs out
  let cx := F.x / A; let cy := F.y / A
  let ic := density * (J - nsq F / A)
  let sk := slackA / tol   -- `close` multiplies by `tol`
  if !close m (density * A) (density * (L * L + sk)) then s!"fail mass got={m} want={density * A}"
  else if !(close c.x cx (L + sk * L / A) && close c.y cy (L + sk * L / A)) then s!"fail com got=({c.x},{c.y}) want=({cx},{cy})"
  else if !close i ic (density * (L * L * L * L + 2 * sk * L * L)) then s!"fail inertia got={i} want={ic}"
  else "pass"

/-- additivity oracle: moments about the origin of `out` equal `want` -/
def judgeMoments (want : Rat × V2 Rat × Rat) (scale : Rat × Rat × Rat) (out : MP2 Float) : String :=
  if !finiteMP out then "fail nonfinite-output" else
  let (m, f, j) := mom out
  let (sm, sf, sj) := scale
  if !close m want.1 sm then s!"fail mass got={m} want={want.1}"
  else if !(close f.x want.2.1.x sf && close f.y want.2.1.y sf) then s!"fail first-moment got=({f.x},{f.y}) want=({want.2.1.x},{want.2.1.y})"
  else if !close j want.2.2 sj then s!"fail second-moment got={j} want={want.2.2}"
  else "pass"

/-- magnitudes for the tolerance of `judgeMoments`: Σ |terms| -/
def momScale (ps : List (MP2 Float)) : Rat × Rat × Rat :=
  ps.foldl (fun s p =>
    let (m, c, i) := obs p
    (s.1 + rabs m, s.2.1 + rabs m * (rabs c.x + rabs c.y), s.2.2 + rabs i + rabs m * nsq c)) (0, 0, 0)

def sqrtQ (x : Rat) : Rat := (Num.sqrt x : Rat)

def ptsOfTri (t : Triangle2 Float) : List (V2 Rat) := [q2 t.a, q2 t.b, q2 t.c]

def convexCCWorCW (vs : List (V2 Rat)) : Bool :=
  match vs with
  | [] => false
  | v0 :: _ =>
    let arr := vs.toArray
    let n := arr.size
    let turns := (List.range n).map fun i =>
      let a := arr[i]!; let b := arr[(i + 1) % n]!; let c := arr[(i + 2) % n]!
      cross2 (vsub b a) (vsub c b)
    (turns.all (· ≥ 0) || turns.all (· ≤ 0)) &&
    -- simple (winding number one): all fan triangles from v0 have the same orientation
    (let fans := (List.range n).map fun i => cross2 (vsub arr[i]! v0) (vsub arr[(i + 1) % n]! v0)
     fans.all (· ≥ 0) || fans.all (· ≤ 0))

def handler (fn : String) : Option Handler :=
  match fn with
  | "tri_area" => some {
      model := fun a => run (do let t ← ptri2; pure (ff (triArea t))) a
      oracle := fun a o => match run ptri2 a with
        | some t => withOut pfo o fun r =>
            if !FloatIO.isFinite r then "fail nonfinite-output" else
            let L := extent (ptsOfTri t)
            let (A, _, _) := triMom (q2 t.a) (q2 t.b) (q2 t.c)
            if q r < 0 then "fail negative-area" else
            if close (q r) A (L * L + triSlack (q2 t.a) (q2 t.b) (q2 t.c) / tol) then "pass" else s!"fail area got={q r} want={A}"
        | none => "skip bad-args" }
  | "tri_center" => some {
      model := fun a => run (do let t ← ptri2; pure (fv2 (triCenter t))) a
      oracle := fun a o => match run ptri2 a with
        | some t => withOut (do let x ← pfo; let y ← pfo; pure (⟨x, y⟩ : V2 Float)) o fun r =>
            let L := extent (ptsOfTri t)
            let A := q2 t.a; let B := q2 t.b; let C := q2 t.c
            let S := rabs A.x + rabs A.y + rabs B.x + rabs B.y + rabs C.x + rabs C.y
            let gx := (A.x + B.x + C.x) / 3; let gy := (A.y + B.y + C.y) / 3
            -- the centre is computed from absolute coordinates: tolerance relative to their magnitude
            if close (q r.x) gx (L + S / 1000000) && close (q r.y) gy (L + S / 1000000) then "pass"
            else s!"fail centroid got=({q r.x},{q r.y}) want=({gx},{gy})"
        | none => "skip bad-args" }
  | "tri_unit_inertia" => some {
      model := fun a => run (do let t ← ptri2; pure (ff (triUnitInertia t))) a
      oracle := fun a o => match run ptri2 a with
        | some t => withOut pfo o fun r =>
            -- documented meaning checked here: polar moment per unit area about vertex `a`
            let A := q2 t.a
            let L := extent (ptsOfTri t)
            let (ar, _, j) := triMom ⟨0, 0⟩ (vsub (q2 t.b) A) (vsub (q2 t.c) A)
            if L = 0 then (if q r = 0 then "pass" else "fail nonzero-on-point") else
            if ar < L * L / 1000000 then "skip degenerate-area" else
            if close (q r) (j / ar) (L * L) then "pass" else s!"fail unit-inertia-about-a got={q r} want={j / ar}"
        | none => "skip bad-args" }
  | "from_triangle" => some {
      model := fun a => run (do let d ← pf; let t ← ptri2; pure (fmp2 (fromTriangle d t))) a
      oracle := fun a o => match run (do let d ← pf; let t ← ptri2; pure (d, t)) a with
        | some (d, t) => withOut pomp2 o fun r =>
            judgeLamina (q d) (triMom (q2 t.a) (q2 t.b) (q2 t.c)) (extent (ptsOfTri t)) r
        | none => "skip bad-args" }
  | "poly_area_com" => some {
      model := fun a => run (do let vs ← plist pv2
                                pure (match polyAreaCom vs with
                                  | some (ar, c) => s!"{ff ar} {fv2 c}"
                                  | none => "panic")) a
      oracle := fun a o => match run (plist pv2) a with
        | some vs => withOut (do let ar ← pfo; let x ← pfo; let y ← pfo; pure (ar, (⟨x, y⟩ : V2 Float))) o fun (ar, c) =>
            let V := vs.map q2
            if !convexCCWorCW V then "skip not-convex" else
            let L := extent V
            let (sA, F, _) := polyMom V
            let A := rabs sA
            if L = 0 ∨ A < L * L / 1000000 then "skip degenerate-area" else
            let S := (V.foldl (fun s v => rmax s (rabs v.x + rabs v.y)) 0) / 1000000
            if !close (q ar) A (L * L) then s!"fail area got={q ar} want={A}"
            else if !(close (q c.x) (F.x / sA) (L + S) && close (q c.y) (F.y / sA) (L + S)) then
              s!"fail com got=({q c.x},{q c.y}) want=({F.x / sA},{F.y / sA})"
            else "pass"
        | none => "skip bad-args" }
  | "from_convex_polygon" => some {
      model := fun a => run (do let d ← pf; let vs ← plist pv2; pure (fopt (fromConvexPolygon d vs))) a
      oracle := fun a o => match run (do let d ← pf; let vs ← plist pv2; pure (d, vs)) a with
        | some (d, vs) => withOut pomp2 o fun r =>
            let V := vs.map q2
            if !convexCCWorCW V then "skip not-convex" else
            let (sA, F, J) := polyMom V
            let sg : Rat := if sA < 0 then -1 else 1
            judgeLamina (q d) (sg * sA, vscale F sg, sg * J) (extent V) r
        | none => "skip bad-args" }
  | "trimesh_area_com" => some {
      model := fun a => run (do let vs ← plist pv2; let idx ← plist pidx
                                pure (match resolveTris vs.toArray idx with
                                  | some ts => let r := meshAreaCom ts; s!"{ff r.1} {fv2 r.2}"
                                  | none => "panic")) a
      oracle := fun a o => match run (do let vs ← plist pv2; let idx ← plist pidx; pure (vs, idx)) a with
        | some (vs, idx) =>
          match resolveTris (vs.map q2).toArray idx with
          | none => if o.head? = some "panic" then "pass" else "fail no-panic-on-bad-index"
          | some ts => withOut (do let ar ← pfo; let x ← pfo; let y ← pfo; pure (ar, (⟨x, y⟩ : V2 Float))) o fun (ar, c) =>
            let V := vs.map q2
            let L := extent V
            let (A, F, _) := sumMom (ts.map fun t => triMom t.a t.b t.c)
            if L = 0 ∨ A < L * L / 1000000 then "skip degenerate-area" else
            let S := (V.foldl (fun s v => rmax s (rabs v.x + rabs v.y)) 0) / 1000000
            let sk := (ts.foldl (fun s t => s + triSlack t.a t.b t.c) 0) / tol
            if !close (q ar) A (L * L + sk) then s!"fail area got={q ar} want={A}"
            else if !(close (q c.x) (F.x / A) (L + S + sk * L / A) && close (q c.y) (F.y / A) (L + S + sk * L / A)) then
              s!"fail com got=({q c.x},{q c.y}) want=({F.x / A},{F.y / A})"
            else "pass"
        | none => "skip bad-args" }
  | "from_trimesh2" => some {
      model := fun a => run (do let d ← pf; let vs ← plist pv2; let idx ← plist pidx
                                pure (fopt (fromTrimesh d vs.toArray idx))) a
      oracle := fun a o => match run (do let d ← pf; let vs ← plist pv2; let idx ← plist pidx; pure (d, vs, idx)) a with
        | some (d, vs, idx) =>
          match resolveTris (vs.map q2).toArray idx with
          | none => if o.head? = some "panic" then "pass" else "fail no-panic-on-bad-index"
          | some ts => withOut pomp2 o fun r =>
            judgeLamina (q d) (sumMom (ts.map fun t => triMom t.a t.b t.c)) (extent (vs.map q2)) r
              (ts.foldl (fun s t => s + triSlack t.a t.b t.c) 0)
        | none => "skip bad-args" }
  | "from_ball2" => some {
      model := fun a => run (do let d ← pf; let r ← pf; pure (fmp2 (fromBall2 piF d r))) a
      oracle := fun a o => match run (do let d ← pf; let r ← pf; pure (d, r)) a with
        | some (d, r) => withOut pomp2 o fun out =>
            let R := q r
            -- disc: A = πr², F = 0, J = πr⁴/2
            judgeLamina (q d) (piQ * R * R, ⟨0, 0⟩, piQ * R * R * R * R / 2) R out
        | none => "skip bad-args" }
  | "from_cuboid2" => some {
      model := fun a => run (do let d ← pf; let he ← pv2; pure (fmp2 (fromCuboid2 d he))) a
      oracle := fun a o => match run (do let d ← pf; let he ← pv2; pure (d, he)) a with
        | some (d, he) => withOut pomp2 o fun out =>
            let H := q2 he
            let V : List (V2 Rat) := [⟨-H.x, -H.y⟩, ⟨H.x, -H.y⟩, ⟨H.x, H.y⟩, ⟨-H.x, H.y⟩]
            judgeLamina (q d) (polyMom V) (extent V) out
        | none => "skip bad-args" }
  | "from_capsule2" => some {
      model := fun a => run (do let d ← pf; let p ← pv2; let p' ← pv2; let r ← pf; pure (fmp2 (fromCapsule2 piF d p p' r))) a
      oracle := fun a o => match run (do let d ← pf; let p ← pv2; let p' ← pv2; let r ← pf; pure (d, p, p', r)) a with
        | some (d, p, p', r) => withOut pomp2 o fun out =>
            let A := q2 p; let B := q2 p'; let R := q r
            let h := sqrtQ (nsq (vsub B A))
            let c := mid A B
            -- stadium about its centre: rectangle 2r×h + two half-discs (centroid offset 4r/(3π) from the flat side)
            let area := 2 * R * h + piQ * R * R
            let jc := 2 * R * h * (4 * R * R + h * h) / 12
                      + piQ * R * R * R * R / 2 + piQ * R * R * h * h / 4 + 4 * h * R * R * R / 3
            let L := h + 2 * R
            judgeLamina (q d) (area, vscale c area, jc + area * nsq c) (L + (rabs c.x + rabs c.y) / 1000) out
        | none => "skip bad-args" }
  | "mp2_new" => some {
      model := fun a => run (do let c ← pv2; let m ← pf; let i ← pf
                                let p := MP2.new c m i
                                pure s!"{fmp2 p} {ff p.mass} {ff p.principalInertia}") a
      oracle := fun a o => match run (do let c ← pv2; let m ← pf; let i ← pf; pure (c, m, i)) a with
        | some (c, m, i) => withOut (do let p ← pomp2; let m' ← pfo; let i' ← pfo; pure (p, m', i')) o fun (p, m', i') =>
            if q m < 0 ∨ q i < 0 then "skip negative-input" else
            -- `mass()` and `principal_inertia()` give back what `new` was given; the com is stored as is
            if (q2 p.com).x ≠ q c.x ∨ (q2 p.com).y ≠ q c.y then "fail com-changed"
            else if !close (q m') (q m) (rabs (q m)) then s!"fail mass-roundtrip got={q m'} want={q m}"
            else if !close (q i') (q i) (rabs (q i)) then s!"fail inertia-roundtrip got={q i'} want={q i}"
            else if !close (obs p).1 (q m) (rabs (q m)) then "fail stored-mass"
            else "pass"
        | none => "skip bad-args" }
  | "mp2_transform" => some {
      model := fun a => run (do let p ← pmp2; let m ← piso2; pure (fmp2 (p.transformBy m))) a
      oracle := fun a o => match run (do let p ← pmp2; let m ← piso2; pure (p, m)) a with
        | some (p, m) => withOut pomp2 o fun out =>
            let M := qiso2 m
            let c := q2 p.com
            let want : V2 Rat := ⟨M.re * c.x - M.im * c.y + M.t.x, M.im * c.x + M.re * c.y + M.t.y⟩
            let s := rabs c.x + rabs c.y + rabs M.t.x + rabs M.t.y + 1 / 1000000
            if q out.invMass ≠ q p.invMass ∨ q out.invI ≠ q p.invI then "fail mass-or-inertia-changed"
            else if close (q out.com.x) want.x s && close (q out.com.y) want.y s then "pass"
            else s!"fail com got=({q out.com.x},{q out.com.y}) want=({want.x},{want.y})"
        | none => "skip bad-args" }
  | "mp2_is_zero" => some {
      model := fun a => run (do let p ← pmp2; pure (fb p.isZero)) a
      oracle := fun a o => match run pmp2 a with
        | some p =>
            let ex := q p.com.x = 0 ∧ q p.com.y = 0 ∧ q p.invMass = 0 ∧ q p.invI = 0
            if o = [fb ex] then "pass" else s!"fail is-zero expected={decide ex}"
        | none => "skip bad-args" }
  | "mp2_add" => some {
      model := fun a => run (do let x ← pmp2; let y ← pmp2; pure (fmp2 (x.add y))) a
      oracle := fun a o => match run (do let x ← pmp2; let y ← pmp2; pure (x, y)) a with
        | some (x, y) => withOut pomp2 o fun out =>
            if q x.invMass < 0 ∨ q y.invMass < 0 then "skip negative-mass" else
            let mx := mom x; let my := mom y
            judgeMoments (mx.1 + my.1, vadd mx.2.1 my.2.1, mx.2.2 + my.2.2) (momScale [x, y]) out
        | none => "skip bad-args" }
  | "mp2_sub" => some {
      model := fun a => run (do let x ← pmp2; let y ← pmp2; pure (fmp2 (x.sub y))) a
      oracle := fun a o => match run (do let x ← pmp2; let y ← pmp2; pure (x, y)) a with
        | some (x, y) => withOut pomp2 o fun out =>
            if q x.invMass < 0 ∨ q y.invMass < 0 then "skip negative-mass" else
            let zx := q x.com.x = 0 ∧ q x.com.y = 0 ∧ q x.invMass = 0 ∧ q x.invI = 0
            let zy := q y.com.x = 0 ∧ q y.com.y = 0 ∧ q y.invMass = 0 ∧ q y.invI = 0
            if zx ∨ zy then (if fmp2 out = fmp2 x then "pass" else "fail sub-zero-not-identity") else
            let mx := mom x; let my := mom y
            let e : Rat := 1 / 8388608
            let dm := mx.1 - my.1
            -- domain of `(a+b)-b = a`: the remaining mass and inertia are above the code's clamping threshold
            if dm < 2 * e then "skip mass-below-threshold" else
            let f := vsub mx.2.1 my.2.1
            let c := vscale f (1 / dm)
            let ic := (mx.2.2 - my.2.2) - dm * nsq c
            if ic < 2 * e then "skip inertia-below-threshold" else
            judgeMoments (dm, f, mx.2.2 - my.2.2) (momScale [x, y]) out
        | none => "skip bad-args" }
  | "mp2_sum" => some {
      model := fun a => run (do let ps ← plist pmp2; pure (fmp2 (MP2.sum ps))) a
      oracle := fun a o => match run (plist pmp2) a with
        | some ps => withOut pomp2 o fun out =>
            if ps.any (fun p => q p.invMass < 0) then "skip negative-mass" else
            let ms := ps.map mom
            let tot := sumMom ms
            if ps.length > 0 ∧ tot.1 = 0 then
              -- all members massless: inertias still add up, com is unspecified
              (if close (obs out).2.2 (ps.foldl (fun s p => s + (obs p).2.2) 0) (momScale ps).2.2 ∧ q out.invMass = 0 then "pass"
               else "fail massless-sum")
            else judgeMoments tot (momScale ps) out
        | none => "skip bad-args" }
  | _ => none

end C13
